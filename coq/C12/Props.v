(* C12 — property theorems.  This file contains only statements closed by
   `exact <lemma>` (or a 1-3 line wrapper) and the Print Assumptions that the
   check collects.
   Domain of the positive theorems: ns >= 144 (= samples_taper; shorter
   recordings make the converter raise, see C12_short_recording_refuted) and
   every admissible window size W (W mod 12 = 0, the assert of init_params, and
   W > 576 = samples_overlap, without which WindowGenerator has no positive
   stride).  ns and W are otherwise unbounded. *)
From Coq Require Import ZArith List Bool Lia.
From IBL.lib Require Import PyInt.
From IBL.C17 Require Import Model.
From IBL.C12 Require Import Model Proofs ProofsR2 Cast CastProofs.
From IBL.C12 Require JointC11.
From IBL.C12 Require Import Names NamesProofs.
Import ListNotations.
Open Scope Z_scope.

Local Notation d4 := (0, 0, 0, 0).

(* The loop runs over exactly WindowGenerator's windows (C17's model), once each. *)
Theorem C12_windows_are_C17_windows : forall ns W, 144 <= ns -> admissible W = true ->
  exists rs l, lf_windows ns W = Some rs /\ firstlast ns W overlap = Some l /\
    map (fun r => let '(f, la, _, _) := r in (f, la)) rs = l /\
    Z.of_nat (length rs) = nwin ns W overlap.
Proof. exact pub_windows. Qed.
Print Assumptions C12_windows_are_C17_windows.

(* The LFP stream has ceil(n/12) samples. *)
Theorem C12_lf_length : forall ns W, 144 <= ns -> admissible W = true ->
  lf_nsamples ns W = Some (cdiv ns 12).
Proof. exact lf_nsamples_closed. Qed.
Print Assumptions C12_lf_length.

(* Row m of the .lf.bin, m = 0 .. ceil(ns/12)-1 in file order, is taken at AP
   sample 12*m: every LF sample is produced exactly once, in order. *)
Theorem C12_lf_positions : forall ns W, 144 <= ns -> admissible W = true ->
  lf_positions ns W = Some (map (fun m => 12 * m) (zrange (Z.to_nat (cdiv ns 12)))).
Proof. exact lf_positions_closed. Qed.
Print Assumptions C12_lf_positions.

(* ... hence which AP sample each LF row comes from does not depend on the window size. *)
Theorem C12_positions_independent_of_window : forall ns W1 W2, 144 <= ns ->
  admissible W1 = true -> admissible W2 = true -> lf_positions ns W1 = lf_positions ns W2.
Proof.
  intros ns W1 W2 Hns H1 H2.
  now rewrite (lf_positions_closed ns W1 Hns H1), (lf_positions_closed ns W2 Hns H2).
Qed.
Print Assumptions C12_positions_independent_of_window.

(* Each window contributes a non-empty interval [lo_i, hi_i) of LF row numbers;
   the intervals start at 0, are adjacent, and end at ceil(ns/12); the rows of
   window i are taken at AP samples 12*lo_i, 12*(lo_i+1), ... : row m is
   produced by the one window whose interval contains m. *)
Theorem C12_windows_tile_lf_rows : forall ns W rs, 144 <= ns -> admissible W = true ->
  lf_windows ns W = Some rs ->
  exists lohi : nat -> Z * Z,
    fst (lohi O) = 0 /\
    snd (lohi (length rs - 1)%nat) = cdiv ns 12 /\
    (forall i, (S i < length rs)%nat -> snd (lohi i) = fst (lohi (S i))) /\
    (forall i, (i < length rs)%nat -> fst (lohi i) < snd (lohi i) /\
       row_positions (nth i rs d4) = map (fun m => 12 * m) (zrange2 (fst (lohi i)) (snd (lohi i))) /\
       row_count (nth i rs d4) = snd (lohi i) - fst (lohi i)).
Proof. intros ns W rs Hns Hadm. exact (pub_tiling ns W Hns Hadm rs). Qed.
Print Assumptions C12_windows_tile_lf_rows.

(* Every kept LF sample lies at least 2*taper = 288 AP samples inside the window
   it is computed from, except towards the start of the file (first window) and
   towards the end of the file (last window) — the fact the 1-LSB claims rest on. *)
Theorem C12_lf_margin : forall ns W rs (i : nat) p, 144 <= ns -> admissible W = true ->
  lf_windows ns W = Some rs -> (i < length rs)%nat ->
  In p (row_margins (nth i rs d4)) ->
  (i = O \/ 2 * taper <= fst p) /\ (i = (length rs - 1)%nat \/ 2 * taper < snd p).
Proof. intros ns W rs i p Hns Hadm. exact (pub_margins ns W Hns Hadm rs i p). Qed.
Print Assumptions C12_lf_margin.

(* The int16 -> float32 (x 1.0) -> / 1.0 -> rint -> int16 path of the sync
   channel (binary32, round to nearest even, Flocq) is the identity on int16. *)
Theorem C12_sync_cast_identity : forall v, -32768 <= v <= 32767 -> sync_cast v = v.
Proof. exact sync_cast_id. Qed.
Print Assumptions C12_sync_cast_identity.

(* The sync column of the LF file is exactly every 12th AP sync word. *)
Theorem C12_lf_sync_exact : forall ns W (sync : Z -> Z), 144 <= ns -> admissible W = true ->
  (forall p, 0 <= p < ns -> -32768 <= sync p <= 32767) ->
  lf_sync sync_cast sync ns W =
  Some (map (fun m => sync (12 * m)) (zrange (Z.to_nat (cdiv ns 12)))).
Proof.
  intros ns W sync Hns Hadm Hr. apply lf_sync_closed; try assumption.
  intros p Hp. apply sync_cast_id. auto.
Qed.
Print Assumptions C12_lf_sync_exact.

(* NP2.4: the rewritten metadata declares 2500 Hz, an lf stream, the number of
   channels actually written in every row, and the file (whatever duration the
   stale fileTimeSecs suggests, meta_ns) opens with as many samples as were
   written: shape = content.  (One sync channel, sns2 = 1, as on every imec
   stream; the code writes n_chns - 1 as the lf count.) *)
Theorem C12_lf_meta_opens_NP24 : forall m shanks nrows meta_ns sh,
  0 <= nrows -> sns2 m = 1 ->
  let '(chns, m', nb, (nc, fs, islf, nsy, nso)) := lf_file 24 m shanks nrows meta_ns sh in
  fs = 2500 /\ nc = Z.of_nat (length chns) /\ nsy = 1 /\
  nso = nrows /\ nc * nso * 2 = nb /\ fsize m' = nb /\
  sns0 m' = 0 /\ acq0 m' = 0 /\ sns1 m' + sns2 m' = nc /\ acq1 m' = sns1 m' /\
  (where_eq sh 0 shanks <> [] -> islf = true) /\
  subset_hi m' = nc - 1 /\ subset_orig m' = chns /\ shank_key m' = sh /\ original_meta m' = false.
Proof. exact meta_opens_24. Qed.
Print Assumptions C12_lf_meta_opens_NP24.

(* NP2.1: nSavedChans is not rewritten; under the converter's own precondition
   (one shank holding every site, nSavedChans = sites + sync) the same holds. *)
Theorem C12_lf_meta_opens_NP21 : forall m shanks nrows meta_ns sh,
  0 <= nrows -> sns2 m = 1 -> shanks <> [] ->
  Forall (fun s => s = sh) shanks -> nsaved m = Z.of_nat (length shanks) + 1 ->
  let '(chns, m', nb, (nc, fs, islf, nsy, nso)) := lf_file 21 m shanks nrows meta_ns sh in
  fs = 2500 /\ nc = Z.of_nat (length chns) /\ nsy = 1 /\
  nso = nrows /\ nc * nso * 2 = nb /\ fsize m' = nb /\
  sns0 m' = 0 /\ acq0 m' = 0 /\ sns1 m' + sns2 m' = nc /\ acq1 m' = sns1 m' /\
  islf = true /\ shank_key m' = sh /\ original_meta m' = false.
Proof. exact meta_opens_21. Qed.
Print Assumptions C12_lf_meta_opens_NP21.

(* Faithful to the code: a recording shorter than the taper cannot be converted
   (extract_lfp cannot broadcast the 144-value taper): the clause "the LFP
   stream has ceil(n/12) samples" fails for 1 <= ns < 144.  Known finding F-C12-a. *)
Theorem C12_short_recording_rejected : forall ns W, 1 <= ns < 144 -> admissible W = true ->
  lf_windows ns W = None /\ lf_positions ns W = None /\ lf_nsamples ns W = None.
Proof.
  intros ns W Hns Hadm. unfold lf_positions, lf_nsamples.
  now rewrite (short_rejected ns W Hns Hadm).
Qed.
Print Assumptions C12_short_recording_rejected.

Theorem C12_short_recording_refuted : exists ns W,
  1 <= ns /\ admissible W = true /\ lf_nsamples ns W <> Some (cdiv ns 12).
Proof. exists 143, 60000. vm_compute. repeat split; discriminate. Qed.
Print Assumptions C12_short_recording_refuted.

(* A window size that is not a multiple of 12 (or not longer than the overlap) is refused. *)
Theorem C12_inadmissible_window_rejected : forall ns W, admissible W = false -> lf_windows ns W = None.
Proof. exact inadmissible_rejected. Qed.
Print Assumptions C12_inadmissible_window_rejected.

(* ------------------------------------------------------------------ *)
(* Round 2                                                             *)
(* ------------------------------------------------------------------ *)

(* init_params(nsamples = n) and _process_NP21(offset = off) on a file of nsf >= off + n
   samples: the stream has ceil(n/12) rows and row m is taken at AP sample off + 12 m
   (the NP2.1 branch with its offset; _process_NP24 and process() are the case off = 0). *)
Theorem C12_offset_positions : forall nsf off n W, 144 <= n -> admissible W = true ->
  0 <= off -> off + n <= nsf ->
  lf_positions_off nsf off n W = Some (map (fun m => off + 12 * m) (zrange (Z.to_nat (cdiv n 12)))) /\
  lf_nsamples_off nsf off n W = Some (cdiv n 12).
Proof.
  intros nsf off n W Hn Hadm Ho Hf. split.
  - exact (lf_positions_off_closed nsf off n W Hn Hadm Ho Hf).
  - exact (lf_nsamples_off_closed nsf off n W Hn Hadm Ho Hf).
Qed.
Print Assumptions C12_offset_positions.

(* The general loop called the default way (whole file, offset 0) is the loop of the theorems above. *)
Theorem C12_default_call_is_whole_file : forall ns W, 144 <= ns -> admissible W = true ->
  lf_windows_off ns 0 ns W = lf_windows ns W.
Proof. exact lf_windows_off_default. Qed.
Print Assumptions C12_default_call_is_whole_file.

(* fileTimeSecs is copied unchanged into the LF metadata while imSampRate becomes 2500.  For a
   nominal 30 kHz recording the sample count that metadata announces, round(ns/12) (half to even),
   equals the rows written, ceil(ns/12), exactly when ns mod 12 is 0, 7..11, or 6 with floor(ns/12)
   odd; in every other case the Reader only gets the shape right through its size-mismatch repair
   (warning + in-memory replacement of fileTimeSecs) -- which C12_lf_meta_opens_* show always works. *)
Theorem C12_lf_meta_duration_stale : forall m ns, 0 <= ns -> 1 <= rd_nc m ->
  (meta_ns_nominal ns =? cdiv ns 12) = duration_consistent ns /\
  rd_fudged m (2 * rd_nc m * cdiv ns 12) (meta_ns_nominal ns) = negb (duration_consistent ns).
Proof.
  intros m ns Hns Hnc. split; [exact (meta_ns_nominal_spec ns Hns)|exact (fudged_iff_stale m ns Hns Hnc)].
Qed.
Print Assumptions C12_lf_meta_duration_stale.

(* The stronger reading "the LF metadata by itself announces the shape of the content" fails:
   145 samples at 30 kHz give 13 rows, the metadata announces round(145/12) = 12. *)
Theorem C12_lf_meta_self_consistent_refuted : exists ns,
  144 <= ns /\ meta_ns_nominal ns <> cdiv ns 12.
Proof. exists 145. vm_compute. split; discriminate. Qed.
Print Assumptions C12_lf_meta_self_consistent_refuted.

(* VALUES.  The low-pass is external (scipy.signal.sosfiltfilt on a chunk [a,b), which pads at
   the chunk ends): an arbitrary operator `filt`; the cosine taper an arbitrary `tap`; `close u v`
   stands for |u - v| <= eps.  Hypotheses: the taper leaves the chunk untouched except its first
   and last 144 samples; LOCALITY: the filtered value at p changes by at most eps when the chunk
   (its data, its ends, its padding) is changed arbitrarily outside [p-144, p+144].  Then for every
   recording, every admissible window size and every row m with 288 <= 12 m < ns - 288 the stream
   is within eps of the low-pass of the whole trace at 12 m.  eps is measured by the harness. *)
Theorem C12_lf_values_within_eps :
  forall (V : Type) (filt : Z -> Z -> (Z -> V) -> Z -> V) (tap : Z -> Z -> (Z -> V) -> Z -> V)
         (close : V -> V -> Prop),
  (forall a b x p, a + taper <= p < b - taper -> tap a b x p = x p) ->
  (forall a b a' b' (x y : Z -> V) p,
     a <= p - taper -> p + taper < b -> a' <= p - taper -> p + taper < b' ->
     (forall q, p - taper <= q <= p + taper -> x q = y q) -> close (filt a b x p) (filt a' b' y p)) ->
  forall ns W (x : Z -> V) vs (m : nat) d, 144 <= ns -> admissible W = true ->
  lf_values V filt tap x ns W = Some vs ->
  length vs = Z.to_nat (cdiv ns 12) /\
  ((m < length vs)%nat -> 2 * taper <= 12 * Z.of_nat m < ns - 2 * taper ->
   close (nth m vs d) (whole_trace_lf V filt x ns (Z.of_nat m))).
Proof.
  intros V filt tap close Ht Hf ns W x vs m d Hns Hadm.
  exact (lf_values_nth V filt tap close Ht Hf ns W Hns Hadm x vs m d).
Qed.
Print Assumptions C12_lf_values_within_eps.

(* ... and two window sizes give streams within 2 eps of each other there (close2 = |u - v| <= 2 eps,
   related to close by the triangle inequality). *)
Theorem C12_lf_values_window_independent :
  forall (V : Type) (filt : Z -> Z -> (Z -> V) -> Z -> V) (tap : Z -> Z -> (Z -> V) -> Z -> V)
         (close close2 : V -> V -> Prop),
  (forall u v w, close u w -> close v w -> close2 u v) ->
  (forall a b x p, a + taper <= p < b - taper -> tap a b x p = x p) ->
  (forall a b a' b' (x y : Z -> V) p,
     a <= p - taper -> p + taper < b -> a' <= p - taper -> p + taper < b' ->
     (forall q, p - taper <= q <= p + taper -> x q = y q) -> close (filt a b x p) (filt a' b' y p)) ->
  forall ns W1 W2 (x : Z -> V) vs1 vs2 (m : nat) d, 144 <= ns ->
  admissible W1 = true -> admissible W2 = true ->
  lf_values V filt tap x ns W1 = Some vs1 -> lf_values V filt tap x ns W2 = Some vs2 ->
  length vs1 = length vs2 /\
  ((m < length vs1)%nat -> 2 * taper <= 12 * Z.of_nat m < ns - 2 * taper ->
   close2 (nth m vs1 d) (nth m vs2 d)).
Proof.
  intros V filt tap close close2 Htri Ht Hf ns W1 W2 x vs1 vs2 m d Hns H1 H2 E1 E2.
  destruct (lf_values_nth V filt tap close Ht Hf ns W1 Hns H1 x vs1 m d E1) as [L1 C1].
  destruct (lf_values_nth V filt tap close Ht Hf ns W2 Hns H2 x vs2 m d E2) as [L2 C2].
  split; [congruence|]. intros Hm Ha. apply (Htri _ _ (whole_trace_lf V filt x ns (Z.of_nat m))).
  - apply C1; assumption.
  - apply C2; [congruence|assumption].
Qed.
Print Assumptions C12_lf_values_window_independent.

(* From "within eps before rounding" to the files: with values counted in units of 1/D LSB,
   np.rint(u) (round half to even of u/D) of a value within e < D of v is within D/2 + e of v
   (0.5 LSB + eps of the whole-trace low-pass) and within 1 LSB of np.rint(v) (two window sizes,
   or the rounded reference): the property's "to 1 LSB". *)
Theorem C12_rounding_within_one_lsb : forall D u v e, 0 < D -> 0 <= e < D -> Z.abs (u - v) <= e ->
  2 * Z.abs (D * round_half_even_div u D - v) <= D + 2 * e /\
  Z.abs (round_half_even_div u D - round_half_even_div v D) <= 1.
Proof. exact rounding_one_lsb. Qed.
Print Assumptions C12_rounding_within_one_lsb.

(* Channel bookkeeping (napch, idxsyncch from the sns* = saved counts, also for a recording saved
   with a channel subset, where they differ from the acq* counts): for every AP metadata with one
   sync channel, nSavedChans = saved AP channels + 1 and one shank-map entry per saved AP channel,
   every output file consists of the shank's sites, each taken from the FILTERED part at its own
   column, followed by exactly one last column which is column nSavedChans - 1 of the AP file, taken
   from the PICKED (never tapered, never filtered) part; and no column index falls outside chunk2save. *)
Theorem C12_sync_column_never_filtered : forall m shanks sh,
  sns2 m = 1 -> nsaved m = sns0 m + 1 -> Z.of_nat (length shanks) = sns0 m ->
  let chns := shank_chns shanks (nsaved m) (sns2 m) sh in
  chns = where_eq sh 0 shanks ++ [nsaved m - 1] /\
  lf_col_sources m chns =
    map (fun c => (true, c)) (where_eq sh 0 shanks) ++ [(false, nsaved m - 1)] /\
  chunk2save_width m = nsaved m /\
  Forall (fun c => 0 <= c < chunk2save_width m) chns.
Proof. exact sync_never_filtered. Qed.
Print Assumptions C12_sync_column_never_filtered.

Example C12_example_channel_subset :
  let m := {| acq0 := 384; acq1 := 0; acq2 := 1; sns0 := 5; sns1 := 0; sns2 := 1; nsaved := 6;
              fsize := 0; rate := 30000; subset_hi := 384; subset_orig := []; original_meta := true;
              shank_key := -1 |} in
  lf_col_sources m (shank_chns [0; 1; 0; 1; 1] 6 1 1) = [(true, 1); (true, 3); (true, 4); (false, 5)].
Proof. vm_compute. reflexivity. Qed.

(* ------------------------------------------------------------------ *)
(* Round 3: proof debt                                                 *)
(* ------------------------------------------------------------------ *)

(* Exactly when a conversion produces a stream (ns >= 1): admissible window and at least 144 samples. *)
Theorem C12_conversion_succeeds_iff : forall ns W, 1 <= ns ->
  ((exists rs, lf_windows ns W = Some rs) <-> (admissible W = true /\ 144 <= ns)).
Proof.
  intros ns W Hns. split.
  - intros [rs Hrs]. destruct (admissible W) eqn:Ea.
    + split; [reflexivity|]. destruct (Z_lt_dec ns 144) as [Hlt|]; [|lia].
      rewrite (short_rejected ns W ltac:(lia) Ea) in Hrs. discriminate.
    + rewrite (inadmissible_rejected ns W Ea) in Hrs. discriminate.
  - intros [Ha Hn]. eexists. exact (lf_windows_closed ns W Hn Ha).
Qed.
Print Assumptions C12_conversion_succeeds_iff.

(* The model evaluates the converter's `int(x / y)` on exact integers (Z.quot).  As Python evaluates
   them -- binary64 division of two ints, then truncation (C11's Flocq model of float / int()) -- they
   are these integers: ratio = int(30000/2500), taper = int(576/4), and for every window size
   W < 2^52 that is a multiple of 12 the three bounds of _ind2save. *)
Theorem C12_int_divisions_exact_in_float : forall W, 0 <= W < 2 ^ 52 -> W mod 12 = 0 ->
  IBL.C11.Model.py_int (IBL.C11.Model.fdiv (IBL.C11.Model.of_Z 30000) (IBL.C11.Model.of_Z 2500)) = Some ratio /\
  IBL.C11.Model.py_int (IBL.C11.Model.fdiv (IBL.C11.Model.of_Z 576) (IBL.C11.Model.of_Z 4)) = Some taper /\
  IBL.C11.Model.py_int (IBL.C11.Model.fdiv (IBL.C11.Model.of_Z (144 * 2)) (IBL.C11.Model.of_Z 12)) = Some (Z.quot (144 * 2) 12) /\
  IBL.C11.Model.py_int (IBL.C11.Model.fdiv (IBL.C11.Model.of_Z W) (IBL.C11.Model.of_Z 12)) = Some (Z.quot W 12) /\
  (288 <= W -> IBL.C11.Model.py_int (IBL.C11.Model.fdiv (IBL.C11.Model.of_Z (W - 144 * 2)) (IBL.C11.Model.of_Z 12))
               = Some (Z.quot (W - 144 * 2) 12)).
Proof. exact JointC11.converter_int_divisions. Qed.
Print Assumptions C12_int_divisions_exact_in_float.

(* The reopening at the float level of spikeglx.Reader (C11's model, proved there for every sampling
   rate in [2^-64, 2^64] and up to 2^50 frames): the .lf.bin of nrows rows and nc = nSavedChans columns,
   whatever finite duration t the stale fileTimeSecs holds (ns0 = int(round(t * 2500))), opens with
   exactly the integer-level results of this model: rd_open_ns (= nrows) samples, the repair flag
   rd_fudged, and fileTimeSecs replaced by nrows/2500 exactly when repaired.  This discharges the
   "n/fs*fs reads back as n" assumption of rd_open_ns. *)
Theorem C12_reopen_float_level : forall (m : meta) nrows t ns0,
  1 <= rd_nc m -> 1 <= nrows <= 2 ^ 50 ->
  IBL.C11.Model.ns_meta (Some t) (IBL.C11.Model.of_me 2500 0) = IBL.C11.Model.NsOk ns0 ->
  let nc := rd_nc m in
  let nb := 2 * nc * nrows in
  let rw := rd_fudged m nb ns0 in
  IBL.C11.Model.open_bin false 2 nb nc (Some t) (IBL.C11.Model.of_me 2500 0) =
    IBL.C11.Model.Opened (rd_open_ns m nb ns0) nc
      (if rw then Some (IBL.C11.Model.rl nrows (IBL.C11.Model.of_me 2500 0)) else Some t) rw /\
  rd_open_ns m nb ns0 = nrows.
Proof.
  intros m nrows t ns0 Hnc Hn Hns0. cbv zeta. split.
  - exact (JointC11.reopen_float_level m nrows t ns0 Hnc Hn Hns0).
  - exact (rd_open_ns_exact m nrows ns0 Hnc).
Qed.
Print Assumptions C12_reopen_float_level.

(* ------------------------------------------------------------------ *)
(* Round 4: arguments, probe types, shanks processed                   *)
(* ------------------------------------------------------------------ *)

(* Which probe types are converted (commercial type numbers included), what the default arguments
   mean: nwindow=None is the 2 s window 60000 (admissible), nsamples=None the whole file; and which
   window sizes init_params accepts: the multiples of 12 longer than the 576-sample overlap. *)
Theorem C12_probe_types_and_defaults :
  (forall t, np_version t = 21 <-> t = 21 \/ t = 1030) /\
  (forall t, np_version t = 24 <-> t = 24 \/ t = 2013) /\
  window_of 0 = 60000 /\ admissible (window_of 0) = true /\
  (forall nsf, nsamples_of 0 nsf = nsf) /\ (forall a nsf, a <> 0 -> nsamples_of a nsf = a) /\
  (forall W, admissible W = true <-> W mod 12 = 0 /\ 576 < W) /\
  (forall a, a <> 0 -> window_of a = a).
Proof.
  split; [|split; [|split; [reflexivity|split; [reflexivity|split; [|split; [|split]]]]]].
  - intros t. unfold np_version.
    destruct (t =? 21) eqn:E1; destruct (t =? 1030) eqn:E2; destruct (t =? 24) eqn:E3; destruct (t =? 2013) eqn:E4;
      cbn [orb]; lia.
  - intros t. unfold np_version.
    destruct (t =? 21) eqn:E1; destruct (t =? 1030) eqn:E2; destruct (t =? 24) eqn:E3; destruct (t =? 2013) eqn:E4;
      cbn [orb]; lia.
  - intros nsf. reflexivity.
  - intros a nsf Ha. unfold nsamples_of. destruct (a =? 0) eqn:E; [lia|reflexivity].
  - exact admissible_spec.
  - intros a Ha. unfold window_of. destruct (a =? 0) eqn:E; [lia|reflexivity].
Qed.
Print Assumptions C12_probe_types_and_defaults.

(* NP2.4 with nshank=None: every shank that occurs in the shank map gets its files, exactly once,
   in increasing order.  NP2.1: the converter's assert leaves exactly the situation theorem
   C12_lf_meta_opens_NP21 assumes (one shank holding every site), and the file it writes is lf_file. *)
Theorem C12_shanks_processed : forall shanks,
  (forall ash l, shanks_processed 24 [] shanks ash = Some l ->
     incr l /\ forall s, In s l <-> In s shanks) /\
  (forall nshank l, shanks_processed 21 nshank shanks true = Some l ->
     exists s, l = [s] /\ shanks <> [] /\ Forall (fun x => x = s) shanks) /\
  (forall v m n mn sh, lf_file_chns v m (file_chns v true shanks (nsaved m) (sns2 m) sh) n mn sh
                       = lf_file v m shanks n mn sh).
Proof.
  intros shanks. split; [|split].
  - intros ash l H. cbn in H. injection H as <-. exact (uniq_sorted_spec shanks).
  - intros nshank l H. cbn in H. destruct (uniq_sorted_spec shanks) as [_ Hin].
    destruct (uniq_sorted shanks) as [|s [|? ?]] eqn:E; try discriminate. injection H as <-.
    exists s. split; [reflexivity|]. split.
    + intros ->. cbn in E. discriminate.
    + apply Forall_forall. intros x Hx. apply Hin in Hx. destruct Hx as [<-|[]]. reflexivity.
  - intros v m n mn sh. unfold file_chns, lf_file_chns, lf_file. rewrite andb_false_r. reflexivity.
Qed.
Print Assumptions C12_shanks_processed.

Example C12_example_shanks :
  shanks_processed 24 [] [2; 0; 2; 1; 0] true = Some [0; 1; 2] /\
  shanks_processed 24 [3; 1] [2; 0; 2; 1; 0] true = Some [3; 1] /\
  shanks_processed 21 [] [0; 0; 0] true = Some [0] /\ shanks_processed 21 [] [0; 1; 0] true = None /\
  file_chns 21 false [0; 1; 0] 4 1 0 = [0; 1; 2; 3] /\ np_version 2013 = 24 /\ np_version 0 = 0.
Proof. vm_compute. repeat split. Qed.

(* ------------------------------------------------------------------ *)
(* Round 7: the name of the LF output                                  *)
(* ------------------------------------------------------------------ *)
(* For an AP file named st ++ "." ++ e (e its last suffix, "bin" or "cbin"; st may carry a dataset
   UUID after the band label) of either probe version, given flat or compressed: the LF output is
   named  replace(st, "ap" -> "lf") ++ ".bin"  (NP2.4 with a flat input: ++ "." ++ replace(e)), where
   the replacement is C04's model of str.replace; and as soon as st contains "ap" that name differs
   from st followed by ANY extension: the LF stream never lands in the AP binary (flat or .cbin), its
   .ch or its .meta. *)
Theorem C12_lf_output_name : forall version is_cbin st e e',
  nodot e ->
  lf_out_name version is_cbin (st ++ 46 :: e) =
    IBL.C04.Model.lf_name st ++ (if (version =? 21) || is_cbin then ext_bin else 46 :: IBL.C04.Model.lf_name e) /\
  (IBL.C04.Model.has_ap st = true -> lf_out_name version is_cbin (st ++ 46 :: e) <> st ++ e').
Proof.
  intros version is_cbin st e e' He. split.
  - exact (lf_out_name_closed version is_cbin st e He).
  - exact (lf_out_name_not_ap version is_cbin st e e' He).
Qed.
Print Assumptions C12_lf_output_name.

Example C12_example_names :
  (* "x.ap.cbin" -> "x.lf.bin" for both versions; "snapshot.imec0.ap.4f1e.cbin" -> "snlfshot.imec0.lf.4f1e.bin" *)
  lf_out_name 21 true [120; 46; 97; 112; 46; 99; 98; 105; 110] = [120; 46; 108; 102; 46; 98; 105; 110] /\
  lf_out_name 24 true [120; 46; 97; 112; 46; 99; 98; 105; 110] = [120; 46; 108; 102; 46; 98; 105; 110] /\
  lf_out_name 24 false [120; 46; 97; 112; 46; 98; 105; 110] = [120; 46; 108; 102; 46; 98; 105; 110] /\
  lf_out_name 21 true [115; 110; 97; 112; 46; 97; 112; 46; 52; 102; 49; 101; 46; 99; 98; 105; 110]
    = [115; 110; 108; 102; 46; 108; 102; 46; 52; 102; 49; 101; 46; 98; 105; 110] /\
  nodot [99; 98; 105; 110] /\ IBL.C04.Model.has_ap [120; 46; 97; 112] = true.
Proof. vm_compute. repeat split. intros [H|[H|[H|[H|[]]]]]; discriminate. Qed.

(* hypotheses of the theorems above are met by concrete, non-trivial inputs *)
Example C12_example_margins :
  option_map (fun rs => (row_margins (nth 1 rs d4))) (lf_windows 1900 612)
  = Some [(288, 324); (300, 312); (312, 300)] /\ nwin 1900 612 overlap = 37.
Proof. vm_compute. split; reflexivity. Qed.

Example C12_example_sync :
  lf_sync sync_cast (fun p => (p * 4735 + 48673) mod 65536 - 32768) 150 588 =
  Some (map (fun m => ((12 * m) * 4735 + 48673) mod 65536 - 32768) (zrange 13)).
Proof. vm_compute. reflexivity. Qed.

Example C12_example_meta_NP21 :
  let m := {| acq0 := 384; acq1 := 0; acq2 := 1; sns0 := 4; sns1 := 0; sns2 := 1; nsaved := 5;
              fsize := 0; rate := 30000; subset_hi := 384; subset_orig := []; original_meta := true;
              shank_key := -1 |} in
  Forall (fun s => s = 0) [0; 0; 0; 0] /\ nsaved m = Z.of_nat (length [0; 0; 0; 0]) + 1 /\
  let '(chns, m', nb, rd) := lf_file 21 m [0; 0; 0; 0] 13 12 0 in
  chns = [0; 1; 2; 3; 4] /\ nb = 130 /\ rd = (5, 2500, true, 1, 13) /\ rd_fudged m' nb 12 = true.
Proof. vm_compute. repeat split; repeat constructor. Qed.

Example C12_example_rounding :
  (* D = 1000 (milli-LSB): u = 12.499, v = 12.501 LSB, eps = 2 milli-LSB *)
  round_half_even_div 12499 1000 = 12 /\ round_half_even_div 12501 1000 = 13 /\
  round_half_even_div 12500 1000 = 12 /\ round_half_even_div 13500 1000 = 14.
Proof. vm_compute. repeat split. Qed.

Example C12_example_reopen_hypothesis :
  (* fileTimeSecs = 1 s announces int(round(1 * 2500)) = 2500 samples *)
  IBL.C11.Model.ns_meta (Some (IBL.C11.Model.of_me 1 0)) (IBL.C11.Model.of_me 2500 0) = IBL.C11.Model.NsOk 2500.
Proof. vm_compute. reflexivity. Qed.

(* The hypotheses of the two value theorems are satisfiable (a 3-tap moving sum as the filter,
   a taper that zeroes the ends, eps = 0), and the model then computes values. *)
Example C12_values_hypotheses_satisfiable :
  let filt := fun (a b : Z) (x : Z -> Z) p => x (p - 1) + x p + x (p + 1) in
  let tap := fun (a b : Z) (x : Z -> Z) p => if (a + taper <=? p) && (p <? b - taper) then x p else 0 in
  (forall a b x p, a + taper <= p < b - taper -> tap a b x p = x p) /\
  (forall a b a' b' (x y : Z -> Z) p,
     a <= p - taper -> p + taper < b -> a' <= p - taper -> p + taper < b' ->
     (forall q, p - taper <= q <= p + taper -> x q = y q) -> filt a b x p = filt a' b' y p) /\
  option_map (fun l => nth 30 l 0) (lf_values Z filt tap (fun q => q) 1300 600) = Some (3 * 360).
Proof.
  cbv zeta. split; [|split].
  - intros a b x p Hp.
    replace (a + taper <=? p) with true by (symmetry; apply Z.leb_le; lia).
    replace (p <? b - taper) with true by (symmetry; apply Z.ltb_lt; lia). reflexivity.
  - intros a b a' b' x y p _ _ _ _ H. change taper with 144 in H.
    rewrite (H (p - 1)), (H p), (H (p + 1)) by lia. reflexivity.
  - vm_compute. reflexivity.
Qed.

Example C12_example_offset :
  lf_positions_off 2000 500 150 588 = Some [500; 512; 524; 536; 548; 560; 572; 584; 596; 608; 620; 632; 644] /\
  meta_ns_nominal 145 = 12 /\ cdiv 145 12 = 13 /\ duration_consistent 145 = false /\
  meta_ns_nominal 150 = 12 /\ meta_ns_nominal 162 = 14.
Proof. vm_compute. repeat split. Qed.

(* Non-vacuity: concrete inputs meeting the hypotheses, with the model's values. *)
Example C12_example_windows :
  admissible 1812 = true /\
  lf_windows 5003 1812 = Some [(0, 1812, 0, 127); (1236, 3048, 24, 127);
                               (2472, 4284, 24, 127); (3708, 5003, 24, 108)] /\
  lf_nsamples 5003 1812 = Some 417 /\ cdiv 5003 12 = 417.
Proof. vm_compute. repeat split. Qed.

Example C12_example_smallest_window :
  admissible 588 = true /\ lf_nsamples 1213 588 = Some 102 /\
  lf_positions 150 588 = Some [0; 12; 24; 36; 48; 60; 72; 84; 96; 108; 120; 132; 144].
Proof. vm_compute. repeat split. Qed.

Example C12_example_meta :
  let m := {| acq0 := 384; acq1 := 0; acq2 := 1; sns0 := 384; sns1 := 0; sns2 := 1; nsaved := 385;
              fsize := 0; rate := 30000; subset_hi := 384; subset_orig := []; original_meta := true;
              shank_key := -1 |} in
  let '(chns, m', nb, rd) := lf_file 24 m [0; 1; 0; 3; 1; 0] 10 7 0 in
  chns = [0; 2; 5; 384] /\ nb = 80 /\ rd = (4, 2500, true, 1, 10).
Proof. vm_compute. repeat split. Qed.
