(* C12 — property theorems.  This file contains only statements closed by
   `exact <lemma>` (or a 1-3 line wrapper) and the Print Assumptions that the
   check collects.
   Domain of the positive theorems: ns >= 144 (= samples_taper; shorter
   recordings make the converter raise, see C12_short_recording_refuted) and
   every admissible window size W (W mod 12 = 0, the assert of init_params, and
   W > 576 = samples_overlap, without which WindowGenerator has no positive
   stride).  ns and W are otherwise unbounded. *)
From Coq Require Import ZArith List Bool Lia.
From IBL.lib Require Import PyInt.
From IBL.C17 Require Import Model.
From IBL.C12 Require Import Model Proofs Cast CastProofs.
Import ListNotations.
Open Scope Z_scope.

Local Notation d4 := (0, 0, 0, 0).

(* The loop runs over exactly WindowGenerator's windows (C17's model), once each. *)
Theorem C12_windows_are_C17_windows : forall ns W, 144 <= ns -> admissible W = true ->
  exists rs l, lf_windows ns W = Some rs /\ firstlast ns W overlap = Some l /\
    map (fun r => let '(f, la, _, _) := r in (f, la)) rs = l /\
    Z.of_nat (length rs) = nwin ns W overlap.
Proof. exact pub_windows. Qed.
Print Assumptions C12_windows_are_C17_windows.

(* The LFP stream has ceil(n/12) samples. *)
Theorem C12_lf_length : forall ns W, 144 <= ns -> admissible W = true ->
  lf_nsamples ns W = Some (cdiv ns 12).
Proof. exact lf_nsamples_closed. Qed.
Print Assumptions C12_lf_length.

(* Row m of the .lf.bin, m = 0 .. ceil(ns/12)-1 in file order, is taken at AP
   sample 12*m: every LF sample is produced exactly once, in order. *)
Theorem C12_lf_positions : forall ns W, 144 <= ns -> admissible W = true ->
  lf_positions ns W = Some (map (fun m => 12 * m) (zrange (Z.to_nat (cdiv ns 12)))).
Proof. exact lf_positions_closed. Qed.
Print Assumptions C12_lf_positions.

(* ... hence which AP sample each LF row comes from does not depend on the window size. *)
Theorem C12_positions_independent_of_window : forall ns W1 W2, 144 <= ns ->
  admissible W1 = true -> admissible W2 = true -> lf_positions ns W1 = lf_positions ns W2.
Proof.
  intros ns W1 W2 Hns H1 H2.
  now rewrite (lf_positions_closed ns W1 Hns H1), (lf_positions_closed ns W2 Hns H2).
Qed.
Print Assumptions C12_positions_independent_of_window.

(* Each window contributes a non-empty interval [lo_i, hi_i) of LF row numbers;
   the intervals start at 0, are adjacent, and end at ceil(ns/12); the rows of
   window i are taken at AP samples 12*lo_i, 12*(lo_i+1), ... : row m is
   produced by the one window whose interval contains m. *)
Theorem C12_windows_tile_lf_rows : forall ns W rs, 144 <= ns -> admissible W = true ->
  lf_windows ns W = Some rs ->
  exists lohi : nat -> Z * Z,
    fst (lohi O) = 0 /\
    snd (lohi (length rs - 1)%nat) = cdiv ns 12 /\
    (forall i, (S i < length rs)%nat -> snd (lohi i) = fst (lohi (S i))) /\
    (forall i, (i < length rs)%nat -> fst (lohi i) < snd (lohi i) /\
       row_positions (nth i rs d4) = map (fun m => 12 * m) (zrange2 (fst (lohi i)) (snd (lohi i))) /\
       row_count (nth i rs d4) = snd (lohi i) - fst (lohi i)).
Proof. intros ns W rs Hns Hadm. exact (pub_tiling ns W Hns Hadm rs). Qed.
Print Assumptions C12_windows_tile_lf_rows.

(* Every kept LF sample lies at least 2*taper = 288 AP samples inside the window
   it is computed from, except towards the start of the file (first window) and
   towards the end of the file (last window) — the fact the 1-LSB claims rest on. *)
Theorem C12_lf_margin : forall ns W rs (i : nat) p, 144 <= ns -> admissible W = true ->
  lf_windows ns W = Some rs -> (i < length rs)%nat ->
  In p (row_margins (nth i rs d4)) ->
  (i = O \/ 2 * taper <= fst p) /\ (i = (length rs - 1)%nat \/ 2 * taper < snd p).
Proof. intros ns W rs i p Hns Hadm. exact (pub_margins ns W Hns Hadm rs i p). Qed.
Print Assumptions C12_lf_margin.

(* The int16 -> float32 (x 1.0) -> / 1.0 -> rint -> int16 path of the sync
   channel (binary32, round to nearest even, Flocq) is the identity on int16. *)
Theorem C12_sync_cast_identity : forall v, -32768 <= v <= 32767 -> sync_cast v = v.
Proof. exact sync_cast_id. Qed.
Print Assumptions C12_sync_cast_identity.

(* The sync column of the LF file is exactly every 12th AP sync word. *)
Theorem C12_lf_sync_exact : forall ns W (sync : Z -> Z), 144 <= ns -> admissible W = true ->
  (forall p, 0 <= p < ns -> -32768 <= sync p <= 32767) ->
  lf_sync sync_cast sync ns W =
  Some (map (fun m => sync (12 * m)) (zrange (Z.to_nat (cdiv ns 12)))).
Proof.
  intros ns W sync Hns Hadm Hr. apply lf_sync_closed; try assumption.
  intros p Hp. apply sync_cast_id. auto.
Qed.
Print Assumptions C12_lf_sync_exact.

(* NP2.4: the rewritten metadata declares 2500 Hz, an lf stream, the number of
   channels actually written in every row, and the file (whatever duration the
   stale fileTimeSecs suggests, meta_ns) opens with as many samples as were
   written: shape = content.  (One sync channel, sns2 = 1, as on every imec
   stream; the code writes n_chns - 1 as the lf count.) *)
Theorem C12_lf_meta_opens_NP24 : forall m shanks nrows meta_ns sh,
  0 <= nrows -> sns2 m = 1 ->
  let '(chns, m', nb, (nc, fs, islf, nsy, nso)) := lf_file 24 m shanks nrows meta_ns sh in
  fs = 2500 /\ nc = Z.of_nat (length chns) /\ nsy = 1 /\
  nso = nrows /\ nc * nso * 2 = nb /\ fsize m' = nb /\
  sns0 m' = 0 /\ acq0 m' = 0 /\ sns1 m' + sns2 m' = nc /\ acq1 m' = sns1 m' /\
  (where_eq sh 0 shanks <> [] -> islf = true) /\
  subset_hi m' = nc - 1 /\ subset_orig m' = chns /\ shank_key m' = sh /\ original_meta m' = false.
Proof. exact meta_opens_24. Qed.
Print Assumptions C12_lf_meta_opens_NP24.

(* NP2.1: nSavedChans is not rewritten; under the converter's own precondition
   (one shank holding every site, nSavedChans = sites + sync) the same holds. *)
Theorem C12_lf_meta_opens_NP21 : forall m shanks nrows meta_ns sh,
  0 <= nrows -> sns2 m = 1 -> shanks <> [] ->
  Forall (fun s => s = sh) shanks -> nsaved m = Z.of_nat (length shanks) + 1 ->
  let '(chns, m', nb, (nc, fs, islf, nsy, nso)) := lf_file 21 m shanks nrows meta_ns sh in
  fs = 2500 /\ nc = Z.of_nat (length chns) /\ nsy = 1 /\
  nso = nrows /\ nc * nso * 2 = nb /\ fsize m' = nb /\
  sns0 m' = 0 /\ acq0 m' = 0 /\ sns1 m' + sns2 m' = nc /\ acq1 m' = sns1 m' /\
  islf = true /\ shank_key m' = sh /\ original_meta m' = false.
Proof. exact meta_opens_21. Qed.
Print Assumptions C12_lf_meta_opens_NP21.

(* Faithful to the code: a recording shorter than the taper cannot be converted
   (extract_lfp cannot broadcast the 144-value taper): the clause "the LFP
   stream has ceil(n/12) samples" fails for 1 <= ns < 144.  Known finding F-C12-a. *)
Theorem C12_short_recording_rejected : forall ns W, 1 <= ns < 144 -> admissible W = true ->
  lf_windows ns W = None /\ lf_positions ns W = None /\ lf_nsamples ns W = None.
Proof.
  intros ns W Hns Hadm. unfold lf_positions, lf_nsamples.
  now rewrite (short_rejected ns W Hns Hadm).
Qed.
Print Assumptions C12_short_recording_rejected.

Theorem C12_short_recording_refuted : exists ns W,
  1 <= ns /\ admissible W = true /\ lf_nsamples ns W <> Some (cdiv ns 12).
Proof. exists 143, 60000. vm_compute. repeat split; discriminate. Qed.
Print Assumptions C12_short_recording_refuted.

(* A window size that is not a multiple of 12 (or not longer than the overlap) is refused. *)
Theorem C12_inadmissible_window_rejected : forall ns W, admissible W = false -> lf_windows ns W = None.
Proof. exact inadmissible_rejected. Qed.
Print Assumptions C12_inadmissible_window_rejected.

(* Non-vacuity: concrete inputs meeting the hypotheses, with the model's values. *)
Example C12_example_windows :
  admissible 1812 = true /\
  lf_windows 5003 1812 = Some [(0, 1812, 0, 127); (1236, 3048, 24, 127);
                               (2472, 4284, 24, 127); (3708, 5003, 24, 108)] /\
  lf_nsamples 5003 1812 = Some 417 /\ cdiv 5003 12 = 417.
Proof. vm_compute. repeat split. Qed.

Example C12_example_smallest_window :
  admissible 588 = true /\ lf_nsamples 1213 588 = Some 102 /\
  lf_positions 150 588 = Some [0; 12; 24; 36; 48; 60; 72; 84; 96; 108; 120; 132; 144].
Proof. vm_compute. repeat split. Qed.

Example C12_example_meta :
  let m := {| acq0 := 384; acq1 := 0; acq2 := 1; sns0 := 384; sns1 := 0; sns2 := 1; nsaved := 385;
              fsize := 0; rate := 30000; subset_hi := 384; subset_orig := []; original_meta := true;
              shank_key := -1 |} in
  let '(chns, m', nb, rd) := lf_file 24 m [0; 1; 0; 3; 1; 0] 10 7 0 in
  chns = [0; 2; 5; 384] /\ nb = 80 /\ rd = (4, 2500, true, 1, 10).
Proof. vm_compute. repeat split. Qed.
