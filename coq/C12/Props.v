(* C12 — property theorems. *)
From Coq Require Import ZArith List Bool Lia.
From IBL.lib Require Import PyInt.
From IBL.C17 Require Import Model.
From IBL.C12 Require Import Model Proofs.
Import ListNotations.
Open Scope Z_scope.

Theorem C12_meta_declares_2500 : forall version m chns nb sh,
  rd_fs (write_lf_meta version m chns nb sh) = 2500.
Proof. reflexivity. Qed.
Print Assumptions C12_meta_declares_2500.
