(* C12 — lemmas about the LF-branch model. *)
From Coq Require Import ZArith List Bool Lia.
From IBL.lib Require Import PyInt.
From IBL.C17 Require Import Model Proofs.
From IBL.C12 Require Import Model.
Import ListNotations.
Open Scope Z_scope.

Lemma ratio_eq : ratio = 12. Proof. reflexivity. Qed.
Lemma taper_eq : taper = 144. Proof. reflexivity. Qed.
Lemma overlap_eq : overlap = 576. Proof. reflexivity. Qed.
