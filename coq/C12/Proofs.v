(* C12 — lemmas about the LF-branch model. *)
From Coq Require Import ZArith List Bool Lia.
From IBL.lib Require Import PyInt.
From IBL.C17 Require Import Model Proofs.
From IBL.C12 Require Import Model.
Import ListNotations.
Open Scope Z_scope.

Lemma ratio_eq : ratio = 12. Proof. reflexivity. Qed.
Lemma taper_eq : taper = 144. Proof. reflexivity. Qed.
Lemma overlap_eq : overlap = 576. Proof. reflexivity. Qed.

(* ------------------------------------------------------------------ *)
(* small arithmetic / list facts                                       *)
(* ------------------------------------------------------------------ *)
Lemma cdiv12_shift x y : cdiv (12 * x + y) 12 = x + cdiv y 12.
Proof.
  pose proof (cdiv_spec (12 * x + y) 12 ltac:(lia)).
  pose proof (cdiv_spec y 12 ltac:(lia)). lia.
Qed.

Lemma cdiv12_mul x : cdiv (12 * x) 12 = x.
Proof. pose proof (cdiv_spec (12 * x) 12 ltac:(lia)). lia. Qed.

Lemma cdiv12_mono a b : a <= b -> cdiv a 12 <= cdiv b 12.
Proof.
  intros H. pose proof (cdiv_spec a 12 ltac:(lia)). pose proof (cdiv_spec b 12 ltac:(lia)). lia.
Qed.

Lemma cdiv12_lower a c : 12 * c < a -> c < cdiv a 12.
Proof. intros H. pose proof (cdiv_spec a 12 ltac:(lia)). lia. Qed.

Lemma quot12 x : 0 <= x -> Z.quot (12 * x) 12 = x.
Proof.
  intros Hx. rewrite Z.quot_div_nonneg by lia. rewrite Z.mul_comm. apply Z.div_mul. lia.
Qed.

Lemma zrange2_nil a b : b <= a -> zrange2 a b = [].
Proof. intros H. unfold zrange2. replace (Z.to_nat (b - a)) with O by lia. reflexivity. Qed.

Lemma zrange2_cons a b : a < b -> zrange2 a b = a :: zrange2 (a + 1) b.
Proof.
  intros H. unfold zrange2.
  replace (Z.to_nat (b - a)) with (S (Z.to_nat (b - (a + 1)))) by lia.
  cbn [seq map]. rewrite Z.add_0_r. f_equal.
  rewrite <- seq_shift, map_map. apply map_ext. intros i. lia.
Qed.

Lemma zrange2_app a b c : a <= b -> b <= c -> zrange2 a b ++ zrange2 b c = zrange2 a c.
Proof.
  intros Hab Hbc.
  remember (Z.to_nat (b - a)) as n eqn:En. revert a Hab En.
  induction n as [|n IH]; intros a Hab En.
  - assert (a = b) by lia. subst a. rewrite (zrange2_nil b b) by lia. reflexivity.
  - rewrite (zrange2_cons a b) by lia. rewrite (zrange2_cons a c) by lia.
    cbn [app]. f_equal. apply IH; lia.
Qed.

Lemma in_zrange2 a b x : In x (zrange2 a b) <-> a <= x < b.
Proof.
  unfold zrange2. rewrite in_map_iff. split.
  - intros [i [<- Hi]]. apply in_seq in Hi. lia.
  - intros Hx. exists (Z.to_nat (x - a)). split; [lia|]. apply in_seq. lia.
Qed.

Lemma zrange2_length a b : Z.of_nat (length (zrange2 a b)) = Z.max 0 (b - a).
Proof. unfold zrange2. rewrite map_length, seq_length. lia. Qed.

Lemma zrange2_0 n : zrange2 0 (Z.of_nat n) = zrange n.
Proof.
  unfold zrange2, zrange. replace (Z.to_nat (Z.of_nat n - 0)) with n by lia.
  apply map_ext. intros i. lia.
Qed.

Lemma zrange2_shift_map a b c : map (fun j => c + j) (zrange2 a b) = zrange2 (c + a) (c + b).
Proof.
  unfold zrange2. rewrite map_map. replace (c + b - (c + a)) with (b - a) by lia.
  apply map_ext. intros i. lia.
Qed.

Lemma admissible_spec W : admissible W = true <-> W mod 12 = 0 /\ 576 < W.
Proof.
  unfold admissible. rewrite ratio_eq, overlap_eq, andb_true_iff, Z.eqb_eq, Z.ltb_lt. tauto.
Qed.

(* ------------------------------------------------------------------ *)
(* the window loop in closed form                                      *)
(* ------------------------------------------------------------------ *)
Section LF.
Variables ns W : Z.
Hypothesis Hns : 144 <= ns.
Hypothesis Hadm : admissible W = true.

Definition qw (W : Z) : Z := W / 12.
Local Notation q := (qw W).
Local Notation s := (stride W 576).
Local Notation K := (lastk ns W 576).
Local Notation N := (cdiv ns 12).
Set Default Proof Using "Hns Hadm".

Lemma W_eq : W = 12 * q.
Proof.
  apply admissible_spec in Hadm. destruct Hadm as [Hm _].
  pose proof (Z.div_mod W 12 ltac:(lia)). unfold qw. lia.
Qed.

Lemma q_ge : 49 <= q.
Proof. pose proof W_eq. apply admissible_spec in Hadm. lia. Qed.

Lemma Hns1 : 1 <= ns. Proof. lia. Qed.
Lemma Hov : 0 <= 576 < W. Proof. apply admissible_spec in Hadm. lia. Qed.

Lemma s_eq : s = 12 * (q - 48).
Proof. unfold stride. pose proof W_eq. lia. Qed.

Lemma quot_W : Z.quot W 12 = q.
Proof. pose proof Hov. rewrite Z.quot_div_nonneg by lia. reflexivity. Qed.

Lemma quot_W288 : Z.quot (W - 144 * 2) 12 = q - 24.
Proof.
  pose proof Hov. rewrite Z.quot_div_nonneg by lia.
  replace (W - 144 * 2) with (W + (-24) * 12) by lia. rewrite Z.div_add by lia. unfold qw. lia.
Qed.

Lemma cdiv_W : cdiv W 12 = q.
Proof. pose proof W_eq. pose proof (cdiv_spec W 12 ltac:(lia)). lia. Qed.

Lemma K_nonneg' : 0 <= K. Proof. apply (K_nonneg ns W 576 Hns1 Hov). Qed.

(* kept decimated columns of window k and the LF row numbers they become *)
Definition ka (k : Z) : Z := if k =? 0 then 0 else 24.
Definition kb (ns W k : Z) : Z :=
  if k =? lastk ns W 576 then cdiv (ns - k * stride W 576) 12 else qw W - 24.
Definition crow (ns W k : Z) : Z * Z * Z * Z :=
  (k * stride W 576, Z.min (k * stride W 576 + W) ns, ka k, kb ns W k).
Definition lo (W k : Z) : Z := k * (qw W - 48) + ka k.
Definition hi (ns W k : Z) : Z := k * (qw W - 48) + kb ns W k.

(* length of the last window *)
Lemma last_len : (0 < K -> 576 < ns - K * s) /\ ns - K * s <= W /\ 144 <= ns - K * s.
Proof.
  pose proof (last_len_le ns W 576 Hns1 Hov) as Hle.
  pose proof K_nonneg' as HK.
  destruct (Z.eq_dec K 0) as [E|E].
  - rewrite E in *. split; [lia|]. split; lia.
  - pose proof (last_len_gt_ov ns W 576 Hns1 Hov ltac:(lia)). split; [lia|]. split; lia.
Qed.

Lemma lf_row_closed k : 0 <= k <= K ->
  lf_row W (K + 1) k (win ns W 576 k) = Some (crow ns W k).
Proof.
  intros Hk. pose proof W_eq as HW. pose proof q_ge as Hq. pose proof s_eq as Hs.
  unfold lf_row, win, crow. change (W - 576) with s.
  rewrite taper_eq. unfold ind2save, ndec. rewrite taper_eq, ratio_eq.
  change (Z.quot (144 * 2) 12) with 24.
  rewrite quot_W, quot_W288.
  replace (K + 1 - 1) with K by lia.
  unfold pyslice, ka, kb.
  destruct (Z.eq_dec k K) as [EK|NK].
  - (* last window *)
    subst k. rewrite Z.eqb_refl.
    pose proof (K_reaches ns W 576 Hns1 Hov) as Hr. unfold stride in Hr, Hs |- *.
    replace (Z.min (K * (W - 576) + W) ns) with ns by lia.
    pose proof last_len as [Hl1 [Hl2 Hl3]]. unfold stride in Hl1, Hl2, Hl3.
    destruct (ns - K * (W - 576) <? 144) eqn:E; [lia|].
    pose proof (cdiv12_mono _ _ Hl2) as Hm. pose proof cdiv_W as HcW.
    destruct (K =? 0) eqn:E0.
    + pose proof (cdiv12_lower (ns - K * (W - 576)) 0 ltac:(lia)).
      rewrite (Z.min_l 0) by lia. rewrite Z.min_r by lia. rewrite Z.max_r by lia. reflexivity.
    + pose proof (cdiv12_lower (ns - K * (W - 576)) 48 ltac:(lia)).
      rewrite (Z.min_l 24) by lia. rewrite Z.min_r by lia. rewrite Z.max_r by lia. reflexivity.
  - (* inner window *)
    pose proof (before_K_short ns W 576 Hns1 Hov k ltac:(lia)) as Hb. unfold stride in Hb, Hs |- *.
    replace (Z.min (k * (W - 576) + W) ns) with (k * (W - 576) + W) by lia.
    replace (k * (W - 576) + W - k * (W - 576)) with W by lia.
    destruct (W <? 144) eqn:E; [lia|].
    rewrite cdiv_W.
    destruct (k =? K) eqn:EK; [lia|].
    destruct (k =? 0).
    + rewrite (Z.min_l 0) by lia. rewrite Z.min_l by lia. rewrite Z.max_r by lia. reflexivity.
    + rewrite (Z.min_l 24) by lia. rewrite Z.min_l by lia. rewrite Z.max_r by lia. reflexivity.
Qed.

Definition crows_from (k : Z) (n : nat) : list (Z * Z * Z * Z) :=
  map (fun i => crow ns W (k + Z.of_nat i)) (seq 0 n).

Lemma crows_from_S k n : crows_from k (S n) = crow ns W k :: crows_from (k + 1) n.
Proof.
  unfold crows_from. cbn [seq map]. rewrite Z.add_0_r. f_equal.
  rewrite <- seq_shift, map_map. apply map_ext. intros i. f_equal. lia.
Qed.

Lemma rows_from_closed n : forall k, 0 <= k -> k + Z.of_nat n = K + 1 ->
  lf_rows_from W (K + 1) k (wins_from ns W 576 k n) = Some (crows_from k n).
Proof.
  induction n as [|n IH]; intros k Hk HK.
  - reflexivity.
  - rewrite (wins_from_S ns W 576 Hns1 Hov), crows_from_S. cbn [lf_rows_from].
    rewrite lf_row_closed by lia. rewrite IH by lia. reflexivity.
Qed.

Lemma lf_windows_closed : lf_windows ns W = Some (crows_from 0 (Z.to_nat (K + 1))).
Proof.
  unfold lf_windows. rewrite Hadm. rewrite overlap_eq.
  rewrite (firstlast_closed ns W 576 Hns1 Hov).
  rewrite (nwin_K ns W 576 Hns1 Hov).
  pose proof K_nonneg'. apply rows_from_closed; lia.
Qed.

(* tiling of the LF row numbers *)
Lemma lo_0 : lo W 0 = 0. Proof. reflexivity. Qed.

Lemma hi_lo_next k : 0 <= k < K -> hi ns W k = lo W (k + 1).
Proof.
  intros Hk. unfold hi, lo, kb, ka.
  destruct (k =? K) eqn:E; [lia|]. destruct (k + 1 =? 0) eqn:E1; [lia|]. lia.
Qed.

Lemma hi_K : hi ns W K = N.
Proof.
  unfold hi, kb. rewrite Z.eqb_refl. rewrite s_eq.
  pose proof (cdiv12_shift (K * (q - 48)) (ns - K * (12 * (q - 48)))) as H.
  replace (12 * (K * (q - 48)) + (ns - K * (12 * (q - 48)))) with ns in H by lia. lia.
Qed.

Lemma lo_lt_hi k : 0 <= k <= K -> lo W k < hi ns W k.
Proof.
  intros Hk. pose proof q_ge. unfold lo, hi, ka, kb.
  destruct (Z.eq_dec k K) as [EK|NK].
  - subst k. rewrite Z.eqb_refl. pose proof last_len as [Hl1 [Hl2 Hl3]].
    destruct (K =? 0) eqn:E0.
    + pose proof (cdiv12_lower (ns - K * s) 0 ltac:(lia)). lia.
    + pose proof (cdiv12_lower (ns - K * s) 48 ltac:(lia)). lia.
  - destruct (k =? K) eqn:E; [lia|]. destruct (k =? 0); lia.
Qed.

Lemma hi_le_N k : 0 <= k <= K -> hi ns W k <= N.
Proof.
  intros Hk. pose proof q_ge as Hq.
  destruct (Z.eq_dec k K) as [EK|NK]; [subst k; rewrite hi_K; lia|].
  rewrite <- hi_K. pose proof (lo_lt_hi K ltac:(lia)) as HlK.
  rewrite hi_lo_next by lia.
  assert (lo W (k + 1) <= lo W K); [|lia].
  unfold lo, ka. destruct (k + 1 =? 0) eqn:E1; [lia|].
  destruct (K =? 0) eqn:E0; [lia|]. nia.
Qed.

(* positions of the rows of one window: 12 * (LF row number) *)
Lemma row_positions_crow k :
  row_positions (crow ns W k) = map (fun m => 12 * m) (zrange2 (lo W k) (hi ns W k)).
Proof.
  unfold row_positions, crow, lo, hi. rewrite ratio_eq, s_eq.
  rewrite <- (zrange2_shift_map (ka k) (kb ns W k) (k * (q - 48))).
  rewrite map_map. apply map_ext. intros j. lia.
Qed.

Lemma positions_from n : forall k, 0 <= k -> k + Z.of_nat n = K ->
  flat_map row_positions (crows_from k (S n)) = map (fun m => 12 * m) (zrange2 (lo W k) N).
Proof.
  induction n as [|n IH]; intros k Hk HK.
  - assert (k = K) by lia. subst k. rewrite crows_from_S. cbn [crows_from seq map flat_map].
    rewrite app_nil_r, row_positions_crow, hi_K. reflexivity.
  - rewrite crows_from_S. cbn [flat_map]. rewrite (IH (k + 1)) by lia.
    rewrite row_positions_crow, <- map_app. f_equal.
    rewrite hi_lo_next by lia. apply zrange2_app.
    + rewrite <- hi_lo_next by lia. pose proof (lo_lt_hi k ltac:(lia)). lia.
    + rewrite <- hi_lo_next by lia. apply hi_le_N. lia.
Qed.

Lemma N_nonneg : 0 <= N.
Proof. apply cdiv_nonneg; lia. Qed.

Theorem lf_positions_closed :
  lf_positions ns W = Some (map (fun m => 12 * m) (zrange (Z.to_nat N))).
Proof.
  unfold lf_positions. rewrite lf_windows_closed. f_equal.
  pose proof K_nonneg'.
  replace (Z.to_nat (K + 1)) with (S (Z.to_nat K)) by lia.
  rewrite positions_from by lia. rewrite lo_0.
  pose proof N_nonneg. rewrite <- (zrange2_0 (Z.to_nat N)).
  replace (Z.of_nat (Z.to_nat N)) with N by lia. reflexivity.
Qed.

Lemma count_from n : forall k, 0 <= k -> k + Z.of_nat n = K ->
  fold_right (fun r acc => row_count r + acc) 0 (crows_from k (S n)) = N - lo W k.
Proof.
  induction n as [|n IH]; intros k Hk HK.
  - assert (k = K) by lia. subst k. rewrite crows_from_S. cbn [crows_from seq map fold_right].
    rewrite <- hi_K. unfold row_count, crow, hi, lo. lia.
  - rewrite crows_from_S. cbn [fold_right]. rewrite (IH (k + 1)) by lia.
    rewrite <- hi_lo_next by lia. unfold row_count, crow, hi, lo. lia.
Qed.

Theorem lf_nsamples_closed : lf_nsamples ns W = Some N.
Proof.
  unfold lf_nsamples. rewrite lf_windows_closed. f_equal.
  pose proof K_nonneg'.
  replace (Z.to_nat (K + 1)) with (S (Z.to_nat K)) by lia.
  rewrite count_from by lia. rewrite lo_0. lia.
Qed.

(* rows by position in the list *)
Lemma crows_nth (i : nat) d : (i < Z.to_nat (K + 1))%nat ->
  nth i (crows_from 0 (Z.to_nat (K + 1))) d = crow ns W (Z.of_nat i).
Proof.
  intros Hi. unfold crows_from.
  rewrite (nth_indep _ d (crow ns W (0 + Z.of_nat 0))) by now rewrite map_length, seq_length.
  rewrite (map_nth (fun i => crow ns W (0 + Z.of_nat i))).
  now rewrite seq_nth.
Qed.

Lemma crows_length : length (crows_from 0 (Z.to_nat (K + 1))) = Z.to_nat (K + 1).
Proof. unfold crows_from. now rewrite map_length, seq_length. Qed.

(* margins: a kept row is at least 2*taper = 288 AP samples inside its window,
   except towards the start of the file (window 0) and towards its end (window K) *)
Lemma margins_crow k p : 0 <= k <= K -> In p (row_margins (crow ns W k)) ->
  (k = 0 \/ 288 <= fst p) /\ (k = K \/ 288 < snd p) /\ 0 <= fst p /\ 0 < snd p.
Proof.
  intros Hk Hin. pose proof W_eq as HW. pose proof q_ge as Hq.
  unfold row_margins, crow in Hin. rewrite ratio_eq in Hin.
  apply in_map_iff in Hin. destruct Hin as [j [<- Hj]]. apply in_zrange2 in Hj.
  cbn [fst snd]. unfold ka, kb in Hj.
  destruct (Z.eq_dec k K) as [EK|NK].
  - subst k. rewrite Z.eqb_refl in Hj.
    pose proof (K_reaches ns W 576 Hns1 Hov) as Hr.
    replace (Z.min (K * s + W) ns) with ns by lia.
    pose proof (cdiv_spec (ns - K * s) 12 ltac:(lia)) as Hc.
    destruct (K =? 0) eqn:E0; repeat split; try lia; try (right; lia); try (left; lia).
  - pose proof (before_K_short ns W 576 Hns1 Hov k ltac:(lia)) as Hb.
    replace (Z.min (k * s + W) ns) with (k * s + W) by lia.
    destruct (k =? K) eqn:E; [lia|].
    destruct (k =? 0) eqn:E0; repeat split; try lia; try (right; lia); try (left; lia).
Qed.

End LF.
Unset Default Proof Using.

(* ------------------------------------------------------------------ *)
(* statements in terms of the produced list, as used by Props.v        *)
(* ------------------------------------------------------------------ *)
Section Public.
Variables ns W : Z.
Hypothesis Hns : 144 <= ns.
Hypothesis Hadm : admissible W = true.
Set Default Proof Using "Hns Hadm".
Local Notation K := (lastk ns W 576).
Local Notation d4 := (0, 0, 0, 0).

Lemma pub_windows : exists rs l,
  lf_windows ns W = Some rs /\ firstlast ns W overlap = Some l /\
  map (fun r => let '(f, la, _, _) := r in (f, la)) rs = l /\
  Z.of_nat (length rs) = nwin ns W overlap.
Proof.
  exists (crows_from ns W 0 (Z.to_nat (K + 1))), (wins_from ns W 576 0 (Z.to_nat (K + 1))).
  pose proof (Hov ns W Hns Hadm) as Hov'. pose proof (Hns1 ns W Hns Hadm) as Hns1'.
  split; [apply lf_windows_closed; assumption|].
  split; [rewrite overlap_eq; apply firstlast_closed; assumption|].
  split.
  - unfold crows_from, wins_from. rewrite map_map. apply map_ext. intros i. reflexivity.
  - rewrite (crows_length ns W Hns Hadm), overlap_eq, (nwin_K ns W 576 Hns1' Hov').
    pose proof (K_nonneg' ns W Hns Hadm). lia.
Qed.

(* tiling: window i contributes the LF rows [lo_i, hi_i), these intervals are
   non-empty, start at 0, are adjacent, end at ceil(ns/12); row m of window i
   is taken at AP sample 12*m *)
Lemma pub_tiling rs : lf_windows ns W = Some rs ->
  exists lohi : nat -> Z * Z,
    fst (lohi O) = 0 /\
    snd (lohi (length rs - 1)%nat) = cdiv ns 12 /\
    (forall i, (S i < length rs)%nat -> snd (lohi i) = fst (lohi (S i))) /\
    (forall i, (i < length rs)%nat -> fst (lohi i) < snd (lohi i) /\
       row_positions (nth i rs d4) = map (fun m => 12 * m) (zrange2 (fst (lohi i)) (snd (lohi i))) /\
       row_count (nth i rs d4) = snd (lohi i) - fst (lohi i)).
Proof.
  rewrite (lf_windows_closed ns W Hns Hadm). intros [= <-].
  pose proof (K_nonneg' ns W Hns Hadm) as HK.
  exists (fun i => (lo W (Z.of_nat i), hi ns W (Z.of_nat i))). cbn [fst snd].
  rewrite (crows_length ns W Hns Hadm).
  split; [reflexivity|]. split.
  - replace (Z.of_nat (Z.to_nat (K + 1) - 1)) with K by lia. apply (hi_K ns W Hns Hadm).
  - split.
    + intros i Hi. replace (Z.of_nat (S i)) with (Z.of_nat i + 1) by lia.
      apply (hi_lo_next ns W Hns Hadm). lia.
    + intros i Hi. rewrite (crows_nth ns W Hns Hadm) by assumption.
      split; [apply (lo_lt_hi ns W Hns Hadm); lia|].
      split; [apply (row_positions_crow ns W Hns Hadm)|].
      unfold row_count, crow, hi, lo. lia.
Qed.

Lemma pub_margins rs (i : nat) p : lf_windows ns W = Some rs -> (i < length rs)%nat ->
  In p (row_margins (nth i rs d4)) ->
  (i = O \/ 2 * taper <= fst p) /\ (i = (length rs - 1)%nat \/ 2 * taper < snd p).
Proof.
  rewrite (lf_windows_closed ns W Hns Hadm). intros [= <-] Hi Hin.
  pose proof (K_nonneg' ns W Hns Hadm) as HK.
  rewrite (crows_length ns W Hns Hadm) in *. rewrite (crows_nth ns W Hns Hadm) in Hin by assumption.
  apply (margins_crow ns W Hns Hadm) in Hin; [|lia].
  rewrite taper_eq. destruct Hin as [[H1|H1] [[H2|H2] _]]; split; try (right; lia); left; lia.
Qed.

End Public.
Unset Default Proof Using.

(* short recordings: the single window is shorter than the taper *)
Lemma short_rejected ns W : 1 <= ns < 144 -> admissible W = true -> lf_windows ns W = None.
Proof.
  intros Hns Hadm. unfold lf_windows. rewrite Hadm, overlap_eq.
  pose proof (proj1 (admissible_spec W) Hadm) as [_ HW].
  assert (Hov : 0 <= 576 < W) by lia.
  assert (Hns1 : 1 <= ns) by lia.
  rewrite (firstlast_closed ns W 576 Hns1 Hov).
  assert (HK : lastk ns W 576 = 0).
  { unfold lastk. pose proof (cdiv_nonpos (ns - W) (stride W 576) ltac:(unfold stride; lia) ltac:(lia)). lia. }
  rewrite HK. change (Z.to_nat (0 + 1)) with 1%nat.
  rewrite (wins_from_S ns W 576 Hns1 Hov). cbn [lf_rows_from].
  unfold win, lf_row. rewrite taper_eq.
  replace (Z.min (0 * (W - 576) + W) ns - 0 * (W - 576)) with ns by lia.
  destruct (ns <? 144) eqn:E; [reflexivity|lia].
Qed.

Lemma inadmissible_rejected ns W : admissible W = false -> lf_windows ns W = None.
Proof. intros H. unfold lf_windows. now rewrite H. Qed.

(* ------------------------------------------------------------------ *)
(* sync column                                                         *)
(* ------------------------------------------------------------------ *)
Lemma lf_sync_closed ns W cast sync : 144 <= ns -> admissible W = true ->
  (forall p, 0 <= p < ns -> cast (sync p) = sync p) ->
  lf_sync cast sync ns W = Some (map (fun m => sync (12 * m)) (zrange (Z.to_nat (cdiv ns 12)))).
Proof.
  intros Hns Hadm Hcast. unfold lf_sync. rewrite (lf_positions_closed ns W Hns Hadm).
  f_equal. rewrite map_map. apply map_ext_in. intros m Hm. apply Hcast.
  apply in_zrange in Hm. pose proof (cdiv_spec ns 12 ltac:(lia)). lia.
Qed.

(* ------------------------------------------------------------------ *)
(* metadata and reopening                                              *)
(* ------------------------------------------------------------------ *)
Lemma rd_open_ns_exact m nrows meta_ns : 1 <= rd_nc m ->
  rd_open_ns m (2 * rd_nc m * nrows) meta_ns = nrows.
Proof.
  intros Hnc. unfold rd_open_ns.
  destruct (rd_nc m * meta_ns * 2 =? 2 * rd_nc m * nrows) eqn:E.
  - apply Z.eqb_eq in E. nia.
  - replace (2 * rd_nc m * nrows) with (nrows * (2 * rd_nc m)) by lia. apply Z.div_mul. lia.
Qed.

Lemma where_eq_all sh shanks : Forall (fun s => s = sh) shanks ->
  forall i, length (where_eq sh i shanks) = length shanks.
Proof.
  induction 1 as [|s t Hs Ht IH]; intros i; [reflexivity|].
  cbn [where_eq]. subst s. rewrite Z.eqb_refl. cbn [length]. now rewrite IH.
Qed.

Lemma chns_length shanks nsaved sh :
  Z.of_nat (length (shank_chns shanks nsaved 1 sh)) = Z.of_nat (length (where_eq sh 0 shanks)) + 1.
Proof.
  unfold shank_chns. rewrite app_length, Nat2Z.inj_add, zrange2_length. lia.
Qed.

Lemma meta_opens_24 m shanks nrows meta_ns sh :
  0 <= nrows -> sns2 m = 1 ->
  let '(chns, m', nb, (nc, fs, islf, nsy, nso)) := lf_file 24 m shanks nrows meta_ns sh in
  fs = 2500 /\ nc = Z.of_nat (length chns) /\ nsy = 1 /\
  nso = nrows /\ nc * nso * 2 = nb /\ fsize m' = nb /\
  sns0 m' = 0 /\ acq0 m' = 0 /\ sns1 m' + sns2 m' = nc /\ acq1 m' = sns1 m' /\
  (where_eq sh 0 shanks <> [] -> islf = true) /\
  subset_hi m' = nc - 1 /\ subset_orig m' = chns /\ shank_key m' = sh /\ original_meta m' = false.
Proof.
  intros Hn Hs. unfold lf_file. rewrite Hs.
  set (chns := shank_chns shanks (nsaved m) 1 sh).
  pose proof (chns_length shanks (nsaved m) sh) as Hl. fold chns in Hl.
  set (n := Z.of_nat (length chns)) in *.
  cbv beta iota zeta.
  unfold rd_fs, rd_is_lf, rd_nsync, lf_nbytes. fold n.
  assert (Hnc : rd_nc (write_lf_meta 24 m chns (2 * n * nrows) sh) = n) by reflexivity.
  pose proof (rd_open_ns_exact (write_lf_meta 24 m chns (2 * n * nrows) sh) nrows meta_ns) as Ho.
  rewrite Hnc in Ho. rewrite Ho by lia. rewrite Hnc.
  cbn [write_lf_meta rate fsize sns0 sns1 sns2 acq0 acq1 subset_hi subset_orig shank_key original_meta Z.eqb Pos.eqb].
  fold n.
  repeat split; try reflexivity; try lia.
  intros Hne. cbn [andb].
  destruct (where_eq sh 0 shanks) eqn:E; [congruence|]. cbn [length] in Hl.
  destruct (n - 1 =? 0) eqn:E1; [lia|reflexivity].
Qed.

Lemma meta_opens_21 m shanks nrows meta_ns sh :
  0 <= nrows -> sns2 m = 1 -> shanks <> [] ->
  Forall (fun s => s = sh) shanks -> nsaved m = Z.of_nat (length shanks) + 1 ->
  let '(chns, m', nb, (nc, fs, islf, nsy, nso)) := lf_file 21 m shanks nrows meta_ns sh in
  fs = 2500 /\ nc = Z.of_nat (length chns) /\ nsy = 1 /\
  nso = nrows /\ nc * nso * 2 = nb /\ fsize m' = nb /\
  sns0 m' = 0 /\ acq0 m' = 0 /\ sns1 m' + sns2 m' = nc /\ acq1 m' = sns1 m' /\
  islf = true /\ shank_key m' = sh /\ original_meta m' = false.
Proof.
  intros Hn Hs Hne Hall Hsaved. unfold lf_file. rewrite Hs.
  set (chns := shank_chns shanks (nsaved m) 1 sh).
  pose proof (chns_length shanks (nsaved m) sh) as Hl. fold chns in Hl.
  rewrite (where_eq_all sh shanks Hall 0) in Hl.
  set (n := Z.of_nat (length chns)) in *.
  cbv beta iota zeta.
  unfold rd_fs, rd_is_lf, rd_nsync, lf_nbytes. fold n.
  assert (Hnc : rd_nc (write_lf_meta 21 m chns (2 * n * nrows) sh) = n).
  { unfold rd_nc. cbn [write_lf_meta nsaved Z.eqb Pos.eqb]. lia. }
  pose proof (rd_open_ns_exact (write_lf_meta 21 m chns (2 * n * nrows) sh) nrows meta_ns) as Ho.
  rewrite Hnc in Ho. rewrite Ho by lia. rewrite Hnc.
  cbn [write_lf_meta rate fsize sns0 sns1 sns2 acq0 acq1 subset_hi subset_orig shank_key original_meta Z.eqb Pos.eqb].
  fold n.
  assert (Hlen : (0 < length shanks)%nat) by (destruct shanks; [congruence|cbn; lia]).
  repeat split; try reflexivity; try lia.
Qed.
