(* C12 — executable model of the LF branch of neuropixel.NP2Converter
   (src/neuropixel.py).  Definitions only; proofs are in Proofs.v, property
   theorems in Props.v.  Positions and counts only (Z): the filter values are
   measured by the harness, not modelled.  The sliding windows are C17's model
   (IBL.C17.Model.firstlast / nwin), which is ibldsp.utils.WindowGenerator.

   Python (src/neuropixel.py)                         model
   --------------------------                         -----
   init_params: ratio, samples_overlap, samples_taper ratio, overlap, taper, admissible
   _process_NP21/_process_NP24 window loop            lf_windows (over C17.firstlast)
   extract_lfp / extract_lfp_sync  chunk[:, ::ratio]  ndec (count), first + ratio*j (position)
   extract_lfp taper broadcast on a short chunk       lf_row = None  (ValueError)
   _ind2save  ind2save / slice( *ind2save)             ind2save, pyslice
   _split2shanks(etype='lf')  chunk[:, chns].tofile   lf_positions (row order), shank_chns, lf_nbytes
   _writemetadata_lf                                  write_lf_meta
   spikeglx.Reader(lf_file): nc, fs, type, open       rd_nc, rd_fs, rd_is_lf, rd_open_ns
*)
From Coq Require Import ZArith List Bool Lia.
From IBL.lib Require Import PyInt.
From IBL.C17 Require Import Model.
Import ListNotations.
Open Scope Z_scope.

(* ------------------------------------------------------------------ *)
(* init_params                                                         *)
(* ------------------------------------------------------------------ *)
Definition fs_ap : Z := 30000.
Definition fs_lf : Z := 2500.
Definition ratio : Z := Z.quot fs_ap fs_lf.          (* int(self.fs_ap / self.fs_lf) = 12 *)
Definition overlap : Z := 576.                       (* self.samples_overlap *)
Definition taper : Z := Z.quot overlap 4.            (* int(self.samples_overlap / 4) = 144 *)

(* init_params:  assert np.mod(samples_window, ratio) == 0
                 assert samples_window > samples_overlap          (since /repo 904fe91; before that a window
                 not longer than the overlap gave WindowGenerator a non-positive stride)
   (the two other asserts, on samples_overlap and samples_taper, hold for the constants) *)
Definition admissible (W : Z) : bool := (W mod ratio =? 0) && (overlap <? W).

(* ------------------------------------------------------------------ *)
(* one window                                                          *)
(* ------------------------------------------------------------------ *)
(* chunk[:, ::ratio] of a chunk of n samples has ceil(n/ratio) columns;
   column j is sample j*ratio of the chunk *)
Definition ndec (n : Z) : Z := cdiv n ratio.

(* _ind2save:  ind2save = [int(taper*2/ratio), int((W - taper*2)/ratio)]
               if wg.iw == 0: ind2save[0] = 0
               if wg.iw == wg.nwin - 1: ind2save[1] = int(W / ratio) *)
Definition ind2save (W iw nw : Z) : Z * Z :=
  (if iw =? 0 then 0 else Z.quot (taper * 2) ratio,
   if iw =? nw - 1 then Z.quot W ratio else Z.quot (W - taper * 2) ratio).

(* chunk[:, slice(a, b)] on n columns, a, b >= 0: columns [min a n, min b n)
   (empty when the second is not larger) *)
Definition pyslice (n a b : Z) : Z * Z :=
  let a' := Z.min a n in (a', Z.max a' (Z.min b n)).

(* One pass of the loop body for window number iw = (first, last):
   extract_lfp multiplies chunk[:, :taper] by taper[:taper] (144 values): a
   chunk shorter than 144 samples cannot be broadcast -> ValueError (None).
   Result: (first, last, a, b) = the window and the decimated columns kept. *)
Definition lf_row (W nw iw : Z) (w : Z * Z) : option (Z * Z * Z * Z) :=
  let '(first, last) := w in
  let n := last - first in
  if n <? taper then None
  else let '(a, b) := ind2save W iw nw in
       let '(a', b') := pyslice (ndec n) a b in
       Some (first, last, a', b').

Fixpoint lf_rows_from (W nw iw : Z) (l : list (Z * Z)) : option (list (Z * Z * Z * Z)) :=
  match l with
  | [] => Some []
  | w :: t =>
      match lf_row W nw iw w, lf_rows_from W nw (iw + 1) t with
      | Some r, Some rs => Some (r :: rs)
      | _, _ => None
      end
  end.

(* wg = WindowGenerator(nsamples, samples_window, samples_overlap);
   for first, last in wg.firstlast: ...   (wg.iw counts from 0, wg.nwin as announced) *)
Definition lf_windows (ns W : Z) : option (list (Z * Z * Z * Z)) :=
  if admissible W then
    match firstlast ns W overlap with
    | Some l => lf_rows_from W (nwin ns W overlap) 0 l
    | None => None
    end
  else None.

(* ------------------------------------------------------------------ *)
(* the general loop: init_params(nsamples=n) and _process_NP21(offset) *)
(* ------------------------------------------------------------------ *)
(* self.sr[first + offset : last + offset] on a file of nsf samples: NumPy
   clips a slice to the array (offset >= 0): number of samples actually read *)
Definition clip_len (nsf a b : Z) : Z := Z.max 0 (Z.min b nsf - Z.min a nsf).

(* the loop body of _process_NP21 (first = first + offset; last = last + offset)
   on a file of nsf samples; _process_NP24 is the case offset = 0.  The window
   generator runs over n = self.nsamples (init_params(nsamples) or sr.ns). *)
Definition lf_row_off (nsf off W nw iw : Z) (w : Z * Z) : option (Z * Z * Z * Z) :=
  let '(first, last) := w in
  let n := clip_len nsf (first + off) (last + off) in
  if n <? taper then None
  else let '(a, b) := ind2save W iw nw in
       let '(a', b') := pyslice (ndec n) a b in
       Some (first + off, first + off + n, a', b').

Fixpoint lf_rows_from_off (nsf off W nw iw : Z) (l : list (Z * Z)) : option (list (Z * Z * Z * Z)) :=
  match l with
  | [] => Some []
  | w :: t =>
      match lf_row_off nsf off W nw iw w, lf_rows_from_off nsf off W nw (iw + 1) t with
      | Some r, Some rs => Some (r :: rs)
      | _, _ => None
      end
  end.

(* a negative offset would index from the end of the file: outside the domain (None) *)
Definition lf_windows_off (nsf off n W : Z) : option (list (Z * Z * Z * Z)) :=
  if admissible W && (0 <=? off) then
    match firstlast n W overlap with
    | Some l => lf_rows_from_off nsf off W (nwin n W overlap) 0 l
    | None => None
    end
  else None.

(* ------------------------------------------------------------------ *)
(* the LF stream: which AP sample every LF row is taken at             *)
(* ------------------------------------------------------------------ *)
Definition zrange2 (a b : Z) : list Z :=
  map (fun i => a + Z.of_nat i) (seq 0 (Z.to_nat (b - a))).

(* rows written for one window, as AP sample positions: column j of the
   decimated chunk is AP sample first + ratio*j *)
Definition row_positions (r : Z * Z * Z * Z) : list Z :=
  let '(first, _, a, b) := r in map (fun j => first + ratio * j) (zrange2 a b).

Definition row_count (r : Z * Z * Z * Z) : Z := let '(_, _, a, b) := r in b - a.

(* AP position of every row of the .lf.bin, in file order *)
Definition lf_positions (ns W : Z) : option (list Z) :=
  match lf_windows ns W with
  | Some rs => Some (flat_map row_positions rs)
  | None => None
  end.

(* number of rows of the .lf.bin *)
Definition lf_nsamples (ns W : Z) : option Z :=
  match lf_windows ns W with
  | Some rs => Some (fold_right (fun r acc => row_count r + acc) 0 rs)
  | None => None
  end.

Definition lf_positions_off (nsf off n W : Z) : option (list Z) :=
  match lf_windows_off nsf off n W with
  | Some rs => Some (flat_map row_positions rs)
  | None => None
  end.

Definition lf_nsamples_off (nsf off n W : Z) : option Z :=
  match lf_windows_off nsf off n W with
  | Some rs => Some (fold_right (fun r acc => row_count r + acc) 0 rs)
  | None => None
  end.

(* the sync column of the .lf.bin given the AP sync column (as a function of
   the AP sample index) and the int16 -> float32 -> int16 path `cast`
   (read: astype(float32) * 1.0f;  _ind2save: / 1.0f, np.rint, astype(int16);
   modelled with Flocq in Cast.v and proved to be the identity on int16) *)
Definition lf_sync (cast : Z -> Z) (sync : Z -> Z) (ns W : Z) : option (list Z) :=
  match lf_positions ns W with
  | Some ps => Some (map (fun p => cast (sync p)) ps)
  | None => None
  end.

(* distance of a kept row from the two ends of its own window, in AP samples:
   (position - first, last - position) *)
Definition row_margins (r : Z * Z * Z * Z) : list (Z * Z) :=
  let '(first, last, a, b) := r in
  map (fun j => (ratio * j, last - (first + ratio * j))) (zrange2 a b).

(* ------------------------------------------------------------------ *)
(* channels of one output file and the LF metadata                     *)
(* ------------------------------------------------------------------ *)
(* _prepare_files_*:  chns = np.r_[np.where(chn_info['shank'] == sh)[0],
                                   _get_sync_trace_indices_from_meta(meta)]
   with sync indices = range(nSavedChans - nsync, nSavedChans) *)
Fixpoint where_eq (sh : Z) (i : Z) (shanks : list Z) : list Z :=
  match shanks with
  | [] => []
  | s :: t => if s =? sh then i :: where_eq sh (i + 1) t else where_eq sh (i + 1) t
  end.

Definition shank_chns (shanks : list Z) (nsaved nsync sh : Z) : list Z :=
  where_eq sh 0 shanks ++ zrange2 (nsaved - nsync) nsaved.

(* the fields of the .meta file the LF branch rewrites or the Reader uses *)
Record meta := {
  acq0 : Z; acq1 : Z; acq2 : Z;        (* acqApLfSy *)
  sns0 : Z; sns1 : Z; sns2 : Z;        (* snsApLfSy *)
  nsaved : Z;                          (* nSavedChans *)
  fsize : Z;                           (* fileSizeBytes *)
  rate : Z;                            (* imSampRate (AP: an opaque code unless rewritten) *)
  subset_hi : Z;                       (* snsSaveChanSubset = "0:<subset_hi>" *)
  subset_orig : list Z;                (* snsSaveChanSubset_orig: the channel list it abbreviates ([] = key absent) *)
  original_meta : bool;                (* key original_meta=False written -> false *)
  shank_key : Z                        (* <version>_shank, -1 = key absent *)
}.

(* init_params: channel bookkeeping, both from the sns* (saved) counts, not the acq* (acquired) ones:
     self.napch = int(self.sr.meta["snsApLfSy"][0])       number of AP channels in the file
     self.idxsyncch = int(self.sr.meta["snsApLfSy"][0])   first sync column of the file *)
Definition napch (m : meta) : Z := sns0 m.
Definition idxsyncch (m : meta) : Z := sns0 m.

(* chunk2save of _ind2save = np.c_[chunk (filtered, columns [0, napch) of the file),
                                   chunk_sync (picked, columns [idxsyncch, nSavedChans) of the file)]:
   column c of chunk2save is (filtered?, column of the AP file) *)
Definition col_source (m : meta) (c : Z) : bool * Z :=
  if c <? napch m then (true, c) else (false, idxsyncch m + (c - napch m)).
Definition chunk2save_width (m : meta) : Z := napch m + (nsaved m - idxsyncch m).

(* _split2shanks: chunk[:, chns] -- where every column of one .lf.bin comes from *)
Definition lf_col_sources (m : meta) (chns : list Z) : list (bool * Z) := map (col_source m) chns.

(* _writemetadata_lf for one shank (version 21 or 24) *)
Definition write_lf_meta (version : Z) (m : meta) (chns : list Z) (lf_bytes sh : Z) : meta :=
  let n := Z.of_nat (length chns) in
  let is24 := version =? 24 in
  {| acq0 := 0; acq1 := n - 1; acq2 := acq2 m;
     sns0 := 0; sns1 := n - 1; sns2 := sns2 m;
     nsaved := if is24 then n else nsaved m;
     fsize := lf_bytes;
     rate := fs_lf;
     subset_hi := if is24 then n - 1 else subset_hi m;
     subset_orig := if is24 then chns else subset_orig m;
     original_meta := false;
     shank_key := sh |}.

(* bytes appended to one .lf.bin: int16 rows of len(chns) values *)
Definition lf_nbytes (nrows : Z) (chns : list Z) : Z := 2 * Z.of_nat (length chns) * nrows.

(* spikeglx.Reader on the written pair (file, meta) *)
Definition rd_nc (m : meta) : Z := nsaved m.                          (* _get_nchannels_from_meta *)
Definition rd_fs (m : meta) : Z := rate m.                            (* _get_fs_from_meta *)
Definition rd_is_lf (m : meta) : bool := (sns0 m =? 0) && negb (sns1 m =? 0).   (* _get_type_from_meta == 'lf' *)
Definition rd_nsync (m : meta) : Z := sns2 m.
(* Reader.open on a flat binary: meta_ns = int(round(fileTimeSecs * fs)) from the
   (not rewritten) fileTimeSecs; when nc*ns*2 != nbytes, fileTimeSecs is
   replaced by (nbytes // (2*nc)) / fs, after which ns = nbytes // (2*nc)
   (float round trip n/fs*fs, exact to rounding for n < 2^50: trusted). *)
Definition rd_open_ns (m : meta) (nbytes meta_ns : Z) : Z :=
  if rd_nc m * meta_ns * 2 =? nbytes then meta_ns else nbytes / (2 * rd_nc m).

(* whether Reader.open takes the correction branch (logs "meta data and filesize do
   not checkout ... will attempt to fudge" and replaces meta['fileTimeSecs'] in memory) *)
Definition rd_fudged (m : meta) (nbytes meta_ns : Z) : bool :=
  negb (rd_nc m * meta_ns * 2 =? nbytes).

(* np.round / Python round of the exact quotient a/b (b > 0): half to even *)
Definition round_half_even_div (a b : Z) : Z :=
  let q := a / b in let r := a mod b in
  if 2 * r <? b then q else if b <? 2 * r then q + 1 else if Z.even q then q else q + 1.

(* the sample count the LF metadata itself announces, int(round(fileTimeSecs * imSampRate)),
   for an AP recording of ns samples at the nominal 30 kHz: fileTimeSecs = ns/30000 is
   copied unchanged, imSampRate becomes 2500 (exact arithmetic; the float evaluation
   can differ only in the tie case ns mod 12 = 6) *)
Definition meta_ns_nominal (ns : Z) : Z := round_half_even_div (ns * fs_lf) fs_ap.

(* ------------------------------------------------------------------ *)
(* arguments, probe types, shanks processed                            *)
(* ------------------------------------------------------------------ *)
(* spikeglx._get_neuropixel_version_from_meta on imDatPrb_type, as NP2Converter.process dispatches:
   21 / 1030 -> "NP2.1" (_process_NP21), 24 / 2013 -> "NP2.4" (_process_NP24),
   anything else -> warning, status -1, nothing written (0) *)
Definition np_version (prb_type : Z) : Z :=
  if (prb_type =? 21) || (prb_type =? 1030) then 21
  else if (prb_type =? 24) || (prb_type =? 2013) then 24 else 0.

(* init_params:  self.nsamples = nsamples or self.sr.ns ;  self.samples_window = nwindow or 2 * self.fs_ap
   (None and 0 are both falsy: argument 0 stands for None) *)
Definition nsamples_of (arg nsf : Z) : Z := if arg =? 0 then nsf else arg.
Definition window_of (arg : Z) : Z := if arg =? 0 then 2 * fs_ap else arg.

(* np.unique(chn_info['shank']): sorted, without repetition *)
Fixpoint insert_u (x : Z) (l : list Z) : list Z :=
  match l with
  | [] => [x]
  | y :: t => if x <? y then x :: l else if x =? y then l else y :: insert_u x t
  end.
Definition uniq_sorted (l : list Z) : list Z := fold_right insert_u [] l.

(* the shanks one run writes files for, in order (None = AssertionError):
   _prepare_files_NP24:  n_shanks = self.nshank or np.unique(chn_info['shank'])
   _prepare_files_NP21:  n_shanks = np.unique(...); assert len(n_shanks) == 1   (nshank is ignored)
                         assert_shanks=False: n_shanks = [0] *)
Definition shanks_processed (version : Z) (nshank shanks : list Z) (assert_shanks : bool) : option (list Z) :=
  if version =? 24 then Some (match nshank with [] => uniq_sorted shanks | _ => nshank end)
  else if assert_shanks then
         match uniq_sorted shanks with [s] => Some [s] | _ => None end
       else Some [0].

(* channels of one output file; _prepare_files_NP21(assert_shanks=False): np.arange(self.sr.nc) *)
Definition file_chns (version : Z) (assert_shanks : bool) (shanks : list Z) (nsaved nsync sh : Z) : list Z :=
  if (version =? 21) && negb assert_shanks then zrange2 0 nsaved
  else shank_chns shanks nsaved nsync sh.

(* lf_file with the channel list given *)
Definition lf_file_chns (version : Z) (m : meta) (chns : list Z) (nrows meta_ns sh : Z) :=
  let nb := lf_nbytes nrows chns in
  let m' := write_lf_meta version m chns nb sh in
  (chns, m', nb, (rd_nc m', rd_fs m', rd_is_lf m', rd_nsync m', rd_open_ns m' nb meta_ns)).

(* ------------------------------------------------------------------ *)
(* everything observable for one conversion                            *)
(* ------------------------------------------------------------------ *)
(* per output file: channels, rewritten meta, bytes, what the Reader sees
   (nc, fs, is_lf, nsync, ns) *)
Definition lf_file (version : Z) (m : meta) (shanks : list Z) (nrows meta_ns sh : Z) :=
  let chns := shank_chns shanks (nsaved m) (sns2 m) sh in
  let nb := lf_nbytes nrows chns in
  let m' := write_lf_meta version m chns nb sh in
  (chns, m', nb, (rd_nc m', rd_fs m', rd_is_lf m', rd_nsync m', rd_open_ns m' nb meta_ns)).

(* ------------------------------------------------------------------ *)
(* values: the low-pass as an abstract operator on chunks              *)
(* ------------------------------------------------------------------ *)
(* extract_lfp on the chunk [a, b) of the trace x:
     chunk[:, :taper] *= taper[:taper]; chunk[:, -taper:] *= taper[taper:]   -> tap a b x
     scipy.signal.sosfiltfilt(sos_lp, chunk)                                 -> filt a b (tap a b x)
   `filt a b y p` is the filtered value at absolute position p (a <= p < b) of
   the chunk y[a:b]; it may depend on a and b (sosfiltfilt pads at the chunk
   ends).  Both are external (SciPy): Section variables, hypotheses in Proofs.v. *)
Section Values.
  Variable V : Type.
  Variable filt : Z -> Z -> (Z -> V) -> Z -> V.
  Variable tap : Z -> Z -> (Z -> V) -> (Z -> V).

  (* values written for one window (one channel): decimated column j is the
     filtered tapered chunk at first + ratio*j *)
  Definition row_values (x : Z -> V) (r : Z * Z * Z * Z) : list V :=
    let '(first, last, a, b) := r in
    map (fun j => filt first last (tap first last x) (first + ratio * j)) (zrange2 a b).

  (* one channel of the .lf.bin before the division by the gain and rounding *)
  Definition lf_values (x : Z -> V) (ns W : Z) : option (list V) :=
    match lf_windows ns W with
    | Some rs => Some (flat_map (row_values x) rs)
    | None => None
    end.

  (* "zero-phase low-pass filtering of the whole AP trace followed by decimation by 12" *)
  Definition whole_trace_lf (x : Z -> V) (ns m : Z) : V := filt 0 ns x (ratio * m).
End Values.
