(* C12 — the sync cast is the identity on int16: exhaustive evaluation of the
   Flocq model over all 65536 values, lifted with forallb_forall. *)
From Coq Require Import ZArith List Bool Lia.
From IBL.C12 Require Import Cast.
Import ListNotations.
Open Scope Z_scope.

Lemma in_range_pow2 n : forall base x,
  base <= x < base + 2 ^ Z.of_nat n -> In x (range_pow2 n base).
Proof.
  induction n as [|n IH]; intros base x Hx.
  - cbn in Hx. left. lia.
  - cbn [range_pow2]. apply in_or_app.
    replace (Z.of_nat (S n)) with (Z.of_nat n + 1) in Hx by lia.
    rewrite Z.pow_add_r in Hx by lia. change (2 ^ 1) with 2 in Hx.
    destruct (Z_lt_dec x (base + 2 ^ Z.of_nat n)).
    + left. apply IH. lia.
    + right. apply IH. lia.
Qed.

Lemma sweep : forallb (fun v => sync_cast v =? v) all_int16 = true.
Proof. vm_compute. reflexivity. Qed.

Lemma sync_cast_id v : -32768 <= v <= 32767 -> sync_cast v = v.
Proof.
  intros Hv. pose proof sweep as H. rewrite forallb_forall in H.
  apply Z.eqb_eq. apply H. unfold all_int16. apply in_range_pow2.
  change (2 ^ Z.of_nat 16) with 65536. lia.
Qed.
