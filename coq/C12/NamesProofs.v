(* C12 — lemmas about the LF output name (over C04's lf_name). *)
From Coq Require Import ZArith List Bool Lia.
From IBL.C04 Require Model Proofs.
From IBL.C12 Require Import Names.
Import ListNotations.
Open Scope Z_scope.

Local Notation lf_name := IBL.C04.Model.lf_name.
Local Notation has_ap := IBL.C04.Model.has_ap.
Local Notation lf_name_cons2 := IBL.C04.Proofs.lf_name_cons2.

Definition nodot (s : list Z) : Prop := ~ In 46 s.

(* "ap" -> "lf" never touches a '.', so the replacement distributes over a '.' *)
Lemma lf_name_app_dot_n n : forall st e, (length st <= n)%nat ->
  lf_name (st ++ 46 :: e) = lf_name st ++ 46 :: lf_name e.
Proof.
  induction n as [n IH] using lt_wf_ind. intros st e Hn.
  destruct st as [|a [|p r]].
  - cbn [app]. destruct e as [|p r]; [reflexivity|]. rewrite lf_name_cons2. reflexivity.
  - cbn [app]. rewrite lf_name_cons2.
    replace ((a =? 97) && (46 =? 112)) with false by (rewrite andb_false_r; reflexivity).
    change (lf_name [a]) with [a]. cbn [app]. f_equal.
    apply (IH 0%nat ltac:(cbn in Hn; lia) [] e). cbn. lia.
  - cbn [app]. rewrite !lf_name_cons2. cbn [length] in Hn.
    destruct ((a =? 97) && (p =? 112)) eqn:E.
    + cbn [app]. do 2 f_equal. apply (IH (length r)); lia.
    + cbn [app]. f_equal. apply (IH (S (length r)) ltac:(lia) (p :: r) e). cbn. lia.
Qed.

Lemma lf_name_app_dot st e : lf_name (st ++ 46 :: e) = lf_name st ++ 46 :: lf_name e.
Proof. apply (lf_name_app_dot_n (length st)). lia. Qed.

Lemma lf_name_nodot_n n : forall s, (length s <= n)%nat -> nodot s -> nodot (lf_name s).
Proof.
  induction n as [n IH] using lt_wf_ind. intros s Hn Hs.
  destruct s as [|a [|p r]]; [exact Hs|exact Hs|].
  rewrite lf_name_cons2. cbn [length] in Hn. unfold nodot in *.
  assert (Ha : a <> 46) by (intros ->; apply Hs; now left).
  assert (Hpr : ~ In 46 (p :: r)) by (intros H; apply Hs; now right).
  destruct ((a =? 97) && (p =? 112)).
  - intros [H|[H|H]]; try discriminate.
    apply (IH (length r) ltac:(lia) r ltac:(lia)) in H; [exact H|].
    intros H'. apply Hpr. now right.
  - intros [H|H]; [congruence|].
    apply (IH (S (length r)) ltac:(lia) (p :: r) ltac:(cbn; lia)) in H; [exact H|exact Hpr].
Qed.

Lemma lf_name_nodot s : nodot s -> nodot (lf_name s).
Proof. apply (lf_name_nodot_n (length s)). lia. Qed.

Lemma drop_suffix_rev_app l t : nodot l -> drop_suffix_rev (l ++ 46 :: t) = t.
Proof.
  induction l as [|c l IH]; intros H; cbn [app drop_suffix_rev]; [reflexivity|].
  unfold nodot in H. destruct (c =? 46) eqn:E.
  - apply Z.eqb_eq in E. subst c. exfalso. apply H. now left.
  - apply IH. intros H'. apply H. now right.
Qed.

Lemma stem_app x e : nodot e -> stem (x ++ 46 :: e) = x.
Proof.
  intros He. unfold stem.
  assert (Hex : existsb (Z.eqb 46) (x ++ 46 :: e) = true).
  { apply existsb_exists. exists 46. split; [apply in_or_app; right; now left|reflexivity]. }
  rewrite Hex. rewrite rev_app_distr. cbn [rev]. rewrite <- app_assoc. cbn [app].
  rewrite drop_suffix_rev_app; [apply rev_involutive|].
  unfold nodot in *. intros H. apply He. now apply in_rev.
Qed.

(* the LF output name of a file named st ++ "." ++ e (e the last suffix: "bin" or "cbin") *)
Lemma lf_out_name_closed version is_cbin st e : nodot e ->
  lf_out_name version is_cbin (st ++ 46 :: e) =
  lf_name st ++ (if (version =? 21) || is_cbin then ext_bin else 46 :: lf_name e).
Proof.
  intros He. unfold lf_out_name, with_suffix.
  destruct (version =? 21) eqn:Ev; cbn [orb].
  - rewrite lf_name_app_dot, stem_app by (apply lf_name_nodot; exact He). reflexivity.
  - destruct is_cbin.
    + rewrite stem_app by exact He. unfold ext_bin.
      change (st ++ [46; 98; 105; 110]) with (st ++ 46 :: [98; 105; 110]).
      rewrite lf_name_app_dot. reflexivity.
    + apply lf_name_app_dot.
Qed.

(* it is never a file of the AP recording (same stem, any extension), as soon as the stem contains "ap" *)
Lemma lf_out_name_not_ap version is_cbin st e e' : nodot e -> has_ap st = true ->
  lf_out_name version is_cbin (st ++ 46 :: e) <> st ++ e'.
Proof.
  intros He Hap. rewrite lf_out_name_closed by exact He.
  apply IBL.C04.Proofs.lf_name_never_aliases. exact Hap.
Qed.
