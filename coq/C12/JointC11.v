(* C12 — float-level facts discharged with C11's binary64 model (Flocq):
   (1) int(a / b) of two Python ints with b | a is the exact quotient (the `int(... / ratio)`
       of init_params and _ind2save, modelled by Z.quot on exact integers in Model.v);
   (2) the .lf.bin written by the converter reopens, at the float level of spikeglx.Reader
       (C11's open_bin), with exactly the rows written, for any finite stale fileTimeSecs. *)
From Coq Require Import ZArith List Bool Lia Reals Lra.
From Flocq Require Import Core BinarySingleNaN.
From IBL.C11 Require Import Model Proofs.
From IBL.C12 Require Model Proofs.
Open Scope Z_scope.

#[local] Instance valid_fexp64' : Valid_exp fexp64 := FLT_exp_valid (-1074) 53.
#[local] Instance valid_NE' : Valid_rnd ZnearestE := valid_rnd_N _.

(* int(float(a) / float(b)) = a / b when b divides a, |a|, |b| < 2^53 *)
Lemma py_int_exact_div a b q : Z.abs a < 2 ^ 53 -> Z.abs b < 2 ^ 53 -> b <> 0 -> a = b * q ->
  py_int (fdiv (of_Z a) (of_Z b)) = Some q.
Proof.
  intros Ha Hb Hb0 Hq.
  destruct (of_Z_correct a Ha) as [Ra Fa]. destruct (of_Z_correct b Hb) as [Rb Fb].
  assert (Hqa : Z.abs q < 2 ^ 53) by nia.
  assert (Hquot : (B2R (of_Z a) / B2R (of_Z b) = IZR q)%R).
  { rewrite Ra, Rb, Hq, mult_IZR. field. apply not_0_IZR. exact Hb0. }
  assert (Hr : rnd64 (IZR q) = IZR q).
  { unfold rnd64. apply round_generic; [apply valid_rnd_N|apply gen_IZR; exact Hqa]. }
  destruct (fdiv_correct (of_Z a) (of_Z b)) as [D1 D2].
  - rewrite Rb. apply not_0_IZR. exact Hb0.
  - rewrite Hquot, Hr. apply bpow_emax_big. lia.
  - unfold py_int. rewrite D2, Fa. f_equal. apply eq_IZR.
    rewrite (Btrunc_correct prec emax Hemax). rewrite D1, Hquot, Hr.
    rewrite round_FIX_IZR. now rewrite Ztrunc_IZR.
Qed.

(* the integer divisions of the converter, as Python evaluates them *)
Lemma converter_int_divisions W : 0 <= W < 2 ^ 52 -> W mod 12 = 0 ->
  py_int (fdiv (of_Z 30000) (of_Z 2500)) = Some IBL.C12.Model.ratio /\
  py_int (fdiv (of_Z 576) (of_Z 4)) = Some IBL.C12.Model.taper /\
  py_int (fdiv (of_Z (144 * 2)) (of_Z 12)) = Some (Z.quot (144 * 2) 12) /\
  py_int (fdiv (of_Z W) (of_Z 12)) = Some (Z.quot W 12) /\
  (288 <= W -> py_int (fdiv (of_Z (W - 144 * 2)) (of_Z 12)) = Some (Z.quot (W - 144 * 2) 12)).
Proof.
  intros HW Hm.
  assert (HWq : W = 12 * (W / 12)) by (pose proof (Z.div_mod W 12 ltac:(lia)); lia).
  assert (B : 2 ^ 52 < 2 ^ 53) by (apply Z.pow_lt_mono_r; lia).
  split; [|split; [|split; [|split]]].
  - apply py_int_exact_div; try reflexivity; try discriminate.
  - apply py_int_exact_div; try reflexivity; try discriminate.
  - apply py_int_exact_div; try reflexivity; try discriminate.
  - rewrite Z.quot_div_nonneg by lia. apply py_int_exact_div; try lia.
  - intros H288. rewrite Z.quot_div_nonneg by lia.
    apply py_int_exact_div; try lia.
    replace (W - 144 * 2) with (W + (-24) * 12) by lia. rewrite Z.div_add by lia. lia.
Qed.

Lemma fs_ok_2500 : fs_ok (of_me 2500 0).
Proof.
  unfold fs_ok. destruct (of_me_correct 2500 0 ltac:(reflexivity) ltac:(lia)) as [-> _].
  change (bpow radix2 0) with 1%R. lra.
Qed.

(* C11's Reader.open on the file the converter wrote *)
Lemma reopen_float_level (m : IBL.C12.Model.meta) nrows t ns0 :
  1 <= IBL.C12.Model.rd_nc m -> 1 <= nrows <= 2 ^ 50 ->
  ns_meta (Some t) (of_me 2500 0) = NsOk ns0 ->
  let nc := IBL.C12.Model.rd_nc m in
  let nb := 2 * nc * nrows in
  let rw := IBL.C12.Model.rd_fudged m nb ns0 in
  open_bin false 2 nb nc (Some t) (of_me 2500 0) =
    Opened (IBL.C12.Model.rd_open_ns m nb ns0) nc
           (if rw then Some (rl nrows (of_me 2500 0)) else Some t) rw.
Proof.
  intros Hnc Hn Hns0. cbv zeta.
  rewrite (IBL.C12.Proofs.rd_open_ns_exact m nrows ns0 Hnc).
  set (nc := IBL.C12.Model.rd_nc m) in *.
  assert (Hk : 2 * nc * nrows / (2 * nc) = nrows).
  { replace (2 * nc * nrows) with (nrows * (2 * nc)) by lia. apply Z.div_mul. lia. }
  pose proof (open_offline_floor 2 (2 * nc * nrows) nc t (of_me 2500 0) ns0
                ltac:(lia) ltac:(lia) ltac:(nia) ltac:(rewrite Hk; lia) fs_ok_2500 Hns0) as H.
  cbv zeta in H. rewrite Hk in H. exact H.
Qed.
