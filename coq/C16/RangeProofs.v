(* C16 — lemmas tying C09's metadata model (sample2volts) to the max_voltage
   argument of saturation(): Reader.range_volts[:nc - nsync]. *)
From Coq Require Import String ZArith List Bool Lia Field.
Require IBL.C09.Model IBL.C09.Proofs.
Import IBL.C09.Model IBL.C09.Proofs.
From IBL.C16 Require Import Model Range Proofs.
Import ListNotations.
Open Scope Z_scope.

(* the maxint of the final product is the maxint inside sample2volts *)
Lemma int2volt_max_int d r mi : int2volt d = Some (r, mi) -> max_int d = Some mi /\ mi <> 0.
Proof.
  unfold int2volt. destruct (max_int d) as [m|]; [|discriminate].
  destruct (if is_imec d then _ else _) as [[| r' | | |]|]; try discriminate.
  destruct (m =? 0) eqn:E; [discriminate|]. intros H. inversion H; subst.
  split; [reflexivity|]. now apply Z.eqb_neq.
Qed.

Lemma range_volts_of_s2v d r mi vec :
  int2volt d = Some (r, mi) -> sample2volts d = Some (r, mi, vec) ->
  range_volts d = Some (r, mi, mi, vec).
Proof.
  intros Hi Hs. unfold range_volts. rewrite Hs.
  destruct (int2volt_max_int d r mi Hi) as [-> _]. reflexivity.
Qed.

Lemma py_take_prefix {A} (n : nat) (l rest : list A) : length l = n ->
  py_take (Z.of_nat n) (l ++ rest) = l.
Proof.
  intros Hl. unfold py_take. destruct (Z.of_nat n <? 0) eqn:E; [apply Z.ltb_lt in E; lia|].
  rewrite Nat2Z.id, <- Hl. rewrite firstn_app, Nat.sub_diag, firstn_all. cbn [firstn]. apply app_nil_r.
Qed.

Section MaxVoltage.
  Variable W : Type.
  Variable of_dec : dec -> W.
  Variable of_int : Z -> W.
  Variables wdiv wmul : W -> W -> W.
  Variable wone : W.
  Notation entry_value := (entry_value W of_dec of_int wdiv wmul wone).
  Notation max_voltage_of := (max_voltage_of W of_dec of_int wdiv wmul wone).

  (* the generic step: a volts-per-bit vector whose first n entries are the voltage channels *)
  Lemma max_voltage_prefix d r mi (volt rest : list conv) ntr st nsy :
    int2volt d = Some (r, mi) -> sample2volts d = Some (r, mi, volt ++ rest) ->
    nchannels d = Some ntr -> sync_indices d = Some (st, nsy) ->
    Z.of_nat (length volt) = ntr - nsy ->
    max_voltage_of d = Some (map (entry_value r mi mi) volt).
  Proof.
    intros Hi Hs Hn Hy Hl. unfold max_voltage_of, ncv.
    rewrite (range_volts_of_s2v d r mi _ Hi Hs), Hn, Hy, <- Hl.
    now rewrite py_take_prefix.
  Qed.

  (* Neuropixels 1.0 / Ultra, AP or LF stream (hypotheses = those of C09_s2v_np1) *)
  Lemma pub_max_voltage_np1 d rng mi v h es x y sy ntr st nsy strm :
    int2volt d = Some (rng, mi) ->
    lookup (lit "imroTbl") d = Some (VStr (imro_text h es)) ->
    lookup (lit "snsApLfSy") d = Some x -> py_index x (-1) = Some y -> py_int y = Some sy -> 0 <= sy ->
    nchannels d = Some ntr -> sync_indices d = Some (st, nsy) ->
    version d = Some v -> is_np2 v = false ->
    Forall (fun e => 0 <= ap_gain e) es -> Forall (fun e => 0 <= lf_gain e) es ->
    0 <= ntr - nsy -> (Z.to_nat (ntr - nsy) <= length es)%nat ->
    get_type d = Some (Some strm) -> strm <> SNidq ->
    let gain := match strm with SLf => lf_gain | _ => ap_gain end in
    max_voltage_of d =
      Some (map (fun e => entry_value rng mi mi (CG (gain e, O))) (firstn (Z.to_nat (ntr - nsy)) es)).
  Proof.
    intros Hi Ht Hx Hy Hs Hs0 Hn Hsy Hv Hnp Hap Hlf H0 Hle Hty Hnn gain.
    pose proof (s2v_np1 d rng mi v h es x y sy ntr st nsy Hi Ht Hx Hy Hs Hs0 Hn Hsy Hv Hnp Hap Hlf H0) as Hs2v.
    cbv zeta in Hs2v.
    assert (Hapv : get_type d = Some (Some SAp) -> sample2volts d = Some (rng, mi, _))
      by (intros E; unfold sample2volts; rewrite Hs2v, E; reflexivity).
    assert (Hlfv : get_type d = Some (Some SLf) -> sample2volts d = Some (rng, mi, _))
      by (intros E; unfold sample2volts; rewrite Hs2v, E; reflexivity).
    assert (Hlen : forall (f : _ -> conv),
               Z.of_nat (length (map f (firstn (Z.to_nat (ntr - nsy)) es))) = ntr - nsy).
    { intros f. rewrite map_length, firstn_length. lia. }
    destruct strm; [| |congruence].
    - rewrite (max_voltage_prefix d rng mi _ _ ntr st nsy Hi (Hapv Hty) Hn Hsy (Hlen _)).
      now rewrite map_map.
    - rewrite (max_voltage_prefix d rng mi _ _ ntr st nsy Hi (Hlfv Hty) Hn Hsy (Hlen _)).
      now rewrite map_map.
  Qed.

  (* Neuropixels 2.0: fixed gain 80 (hypotheses = those of C09_s2v_np2) *)
  Lemma pub_max_voltage_np2 d rng mi v tbl x y sy ntr st nsy strm :
    int2volt d = Some (rng, mi) ->
    lookup (lit "imroTbl") d = Some tbl ->
    lookup (lit "snsApLfSy") d = Some x -> py_index x (-1) = Some y -> py_int y = Some sy -> 0 <= sy ->
    nchannels d = Some ntr -> sync_indices d = Some (st, nsy) ->
    version d = Some v -> is_np2 v = true -> 0 <= ntr - nsy ->
    get_type d = Some (Some strm) -> strm <> SNidq ->
    max_voltage_of d = Some (repeat (entry_value rng mi mi (CG (80, O))) (Z.to_nat (ntr - nsy))).
  Proof.
    intros Hi Ht Hx Hy Hs Hs0 Hn Hsy Hv Hnp H0 Hty Hnn.
    pose proof (s2v_np2 d rng mi v tbl x y sy ntr st nsy Hi Ht Hx Hy Hs Hs0 Hn Hsy Hv Hnp H0) as Hs2v.
    cbv zeta in Hs2v.
    assert (Hapv : get_type d = Some (Some SAp) -> sample2volts d = Some (rng, mi, _))
      by (intros E; unfold sample2volts; rewrite Hs2v, E; reflexivity).
    assert (Hlfv : get_type d = Some (Some SLf) -> sample2volts d = Some (rng, mi, _))
      by (intros E; unfold sample2volts; rewrite Hs2v, E; reflexivity).
    assert (Hl : Z.of_nat (length (zrepeat (CG (80, O)) (ntr - nsy))) = ntr - nsy).
    { unfold zrepeat. rewrite repeat_length. lia. }
    assert (Hs2 : sample2volts d = Some (rng, mi, zrepeat (CG (80, O)) (ntr - nsy) ++ zrepeat C1 sy)).
    { destruct strm; [now apply Hapv|now apply Hlfv|congruence]. }
    rewrite (max_voltage_prefix d rng mi _ _ ntr st nsy Hi Hs2 Hn Hsy Hl).
    unfold zrepeat. generalize (Z.to_nat (ntr - nsy)) as k. intros k.
    induction k as [|k IH]; cbn [repeat map]; [reflexivity|]. injection IH as IH. now rewrite IH.
  Qed.
End MaxVoltage.

(* which entry of such a max_voltage vector applies to channel c *)
Lemma chan_mv_map_firstn {E W} (f : E -> W) (es : list E) (n c : nat) (e0 : E) (dw : W) :
  (n <= length es)%nat -> (c < n)%nat ->
  chan_mv W (map f (firstn n es)) c dw = f (nth c es e0).
Proof.
  intros Hn Hc.
  assert (Hl : length (map f (firstn n es)) = n) by (rewrite map_length, firstn_length; lia).
  assert (Hnth : nth c (map f (firstn n es)) dw = f (nth c es e0)).
  { rewrite (nth_indep _ dw (f e0)) by lia. rewrite map_nth. now rewrite nth_firstn_lt. }
  unfold chan_mv. destruct (map f (firstn n es)) as [|m [|m' t]] eqn:Em; cbn [length] in Hl.
  - lia.
  - assert (c = 0)%nat by lia. subst c. exact Hnth.
  - exact Hnth.
Qed.

(* exact arithmetic: (range / maxint / gain) * maxint = range / gain over any field *)
Section FieldValue.
  Variables (F : Type) (f0 f1 : F) (fadd fmul fsub : F -> F -> F) (fopp : F -> F)
            (fdiv : F -> F -> F) (finv : F -> F).
  Hypothesis Fth : field_theory f0 f1 fadd fmul fsub fopp fdiv finv (@eq F).
  Add Field FieldC16 : Fth.
  Variable of_dec : dec -> F.
  Variable of_int : Z -> F.

  Lemma pub_full_scale_range_over_gain r mi g :
    of_int mi <> f0 -> of_dec g <> f0 ->
    entry_value F of_dec of_int fdiv fmul f1 r mi mi (CG g) = fdiv (of_dec r) (of_dec g).
  Proof using Fth. intros Hm Hg. unfold entry_value. field. split; assumption. Qed.
End FieldValue.
