(* C16 — executable model of ibldsp.voltage.saturation (src/ibldsp/voltage.py).
   Definitions only; proofs are in Proofs.v, property theorems in Props.v.

     def saturation(data, max_voltage, v_per_sec=1e-8, fs=30_000, proportion=0.2, mute_window_samples=7):
   L1  max_voltage = np.atleast_1d(max_voltage)[:, np.newaxis]
   L2  saturation = np.mean(np.abs(data) > max_voltage * 0.98, axis=0)
   L3  n_diff_saturated = np.mean(np.abs(np.diff(data, axis=-1)) / fs >= v_per_sec, axis=0)
   L4  n_diff_saturated = np.r_[n_diff_saturated, 0]
   L5  saturation = np.logical_or(saturation > proportion, n_diff_saturated > proportion)
   L6  win = scipy.signal.windows.cosine(mute_window_samples)
   L7  mute = np.maximum(0, 1 - scipy.signal.convolve(saturation, win, mode='same'))
       return saturation, mute

   Part 1 (Section Flags): L1-L5 over abstract value types with every
   arithmetic operation and every comparison of the source a separate
   parameter, so that the theorems hold for every arithmetic (exact reals,
   binary32, binary64) and the comparisons appear with the strictness the
   source gives them.
   Part 2 (Section Mute): L7 over an abstract ordered commutative ring with the
   window taps as data (L6 is an external call).
   Part 3: the IEEE instances (Flocq BinarySingleNaN, binary32 and binary64,
   round to nearest even) of Part 1 and the fixed-point instance (Z) of Part 2
   that the correspondence check runs against the implementation. *)
From Coq Require Import ZArith List Bool.
From Flocq Require Import Core BinarySingleNaN.
Import ListNotations.
Open Scope Z_scope.

(* ------------------------------------------------------------------ *)
(* list helpers mirroring the NumPy idioms                             *)
(* ------------------------------------------------------------------ *)
Definition b2z (b : bool) : Z := if b then 1 else 0.

(* elementwise sum of two rows (zip: stops at the shorter one) *)
Fixpoint zip_add (a b : list Z) : list Z :=
  match a, b with
  | x :: a', y :: b' => (x + y) :: zip_add a' b'
  | _, _ => []
  end.

(* np.sum(boolean [nrows, ns], axis=0) -- the numerator of np.mean(..., axis=0) *)
Definition col_counts (ns : nat) (rows : list (list bool)) : list Z :=
  fold_right (fun r acc => zip_add (map b2z r) acc) (repeat 0 ns) rows.

(* elementwise binary operation on two rows (NumPy elementwise, equal shapes) *)
Fixpoint map2 {A B C} (f : A -> B -> C) (a : list A) (b : list B) : list C :=
  match a, b with
  | x :: a', y :: b' => f x y :: map2 f a' b'
  | _, _ => []
  end.

(* ------------------------------------------------------------------ *)
(* Part 1: the flags                                                   *)
(* ------------------------------------------------------------------ *)
Section Flags.
  Variables V W P : Type.       (* data samples; max_voltage entries; proportions *)
  Variable vabs : V -> V.                 (* np.abs                                  *)
  Variable thr98 : W -> W.                (* max_voltage * 0.98                      *)
  Variable gt_vw : V -> W -> bool.        (* a > b   (strict)                        *)
  Variable vsub : V -> V -> V.            (* a - b   (np.diff: x[j+1] - x[j])        *)
  Variable vdivfs : V -> V.               (* a / fs                                  *)
  Variable ge_vv : V -> V -> bool.        (* a >= b  (non-strict)                    *)
  Variable vps : V.                       (* v_per_sec                               *)
  Variable mean : Z -> Z -> P.            (* np.mean of booleans: count / number     *)
  Variable gt_pp : P -> P -> bool.        (* a > b   (strict)                        *)
  Variable prop pzero : P.                (* proportion; the 0 appended by np.r_     *)

  (* the two per-sample tests of the source, on one channel *)
  Definition over (x : V) (mv : W) : bool := gt_vw (vabs x) (thr98 mv).         (* L2 *)
  Definition slew (x y : V) : bool := ge_vv (vdivfs (vabs (vsub y x))) vps.     (* L3 *)

  Definition over_row (mv : W) (row : list V) : list bool := map (fun x => over x mv) row.

  (* np.diff along the row followed by the test: entry j looks at (x[j], x[j+1]) *)
  Fixpoint slew_row (row : list V) : list bool :=
    match row with
    | x :: ((y :: _) as t) => slew x y :: slew_row t
    | _ => []
    end.

  (* NumPy broadcasting of max_voltage[:, newaxis] (k,1) against data (nc,ns):
     equal -> pairwise; k = 1 -> the scalar for every channel; nc = 1 -> the one
     data row against every entry (result has k rows); otherwise ValueError.
     k = 0 (empty max_voltage) is outside the domain (NaN mean): None as well. *)
  Definition broadcast (data : list (list V)) (mvs : list W) : option (list (list V) * list W) :=
    let nc := length data in
    let k := length mvs in
    if (k =? 0)%nat then None
    else if (k =? nc)%nat then Some (data, mvs)
    else match mvs, data with
         | [m], _ => Some (data, repeat m nc)
         | _, [row] => Some (repeat row k, mvs)
         | _, _ => None
         end.

  (* L1-L5: the boolean array `saturation`; None = the source raises *)
  Definition saturation_flags (data : list (list V)) (mvs : list W) : option (list bool) :=
    let nc := length data in
    let ns := length (hd [] data) in
    match broadcast data mvs with
    | None => None
    | Some (rows, mvl) =>
        let sat := map (fun c => mean c (Z.of_nat (length rows)))
                       (col_counts ns (map2 over_row mvl rows)) in               (* L2 *)
        let nd := map (fun c => mean c (Z.of_nat nc))
                      (col_counts (ns - 1) (map slew_row data)) ++ [pzero] in    (* L3, L4 *)
        Some (map2 (fun a b => gt_pp a prop || gt_pp b prop) sat nd)             (* L5 *)
    end.
End Flags.

(* ------------------------------------------------------------------ *)
(* Part 2: the mute                                                    *)
(* ------------------------------------------------------------------ *)
Section Mute.
  Variable R : Type.
  Variables (rO rI : R) (radd rmul rsub : R -> R -> R).
  Variable rleb : R -> R -> bool.         (* a <= b *)
  Variable one : R.                       (* the literal 1 of `1 - convolve(...)` *)

  Definition b2r (b : bool) : R := if b then rI else rO.   (* bool -> float conversion *)
  Definition rmax0 (x : R) : R := if rleb rO x then x else rO.   (* np.maximum(0, x) *)

  (* elementwise sum, the longer tail is kept *)
  Fixpoint ladd (a b : list R) : list R :=
    match a, b with
    | [], _ => b
    | _, [] => a
    | x :: a', y :: b' => radd x y :: ladd a' b'
    end.

  (* full linear convolution (length n + M - 1): a[0]*w  +  shift(conv(a[1:], w)) *)
  Fixpoint conv_full (a w : list R) : list R :=
    match a with
    | [] => []
    | x :: a' => ladd (map (rmul x) w) (rO :: conv_full a' w)
    end.

  (* scipy mode='same': the centred slice of the full output with the length of
     the FIRST argument: full[(M-1)//2 : (M-1)//2 + n] *)
  Definition conv_same (a w : list R) : list R :=
    firstn (length a) (skipn ((length w - 1) / 2) (conv_full a w)).

  (* L7 *)
  Definition mute_of (flags : list bool) (w : list R) : list R :=
    map (fun c => rmax0 (rsub one c)) (conv_same (map b2r flags) w).
End Mute.

(* L1-L7 together: (saturation, mute) *)
Definition saturation_model {V W P R : Type}
    vabs thr98 gt_vw vsub vdivfs ge_vv vps mean gt_pp prop pzero
    (rO rI : R) radd rmul rsub rleb one
    (data : list (list V)) (mvs : list W) (win : list R) : option (list bool * list R) :=
  match saturation_flags V W P vabs thr98 gt_vw vsub vdivfs ge_vv vps mean gt_pp prop pzero data mvs with
  | None => None
  | Some fl => Some (fl, mute_of R rO rI radd rmul rsub rleb one fl win)
  end.

(* ------------------------------------------------------------------ *)
(* Part 3a: IEEE instances of Part 1                                   *)
(* ------------------------------------------------------------------ *)
(* A format is (prec, emax) with the two side conditions Flocq wants. *)
#[global] Instance Hp24 : Prec_gt_0 24 := eq_refl.
#[global] Instance He24 : Prec_lt_emax 24 128 := eq_refl.
#[global] Instance Hp53 : Prec_gt_0 53 := eq_refl.
#[global] Instance He53 : Prec_lt_emax 53 1024 := eq_refl.
Definition b32 : Type := binary_float 24 128.
Definition b64 : Type := binary_float 53 1024.

(* the float64 literal 0.98 = 8827055269646172 * 2^-53 (float.hex 0x1.f5c28f5c28f5cp-1) *)
Definition c098_m : Z := 8827055269646172.
Definition c098_e : Z := -53.

Section IEEE.
  (* pd/ed: dtype of `data`; pm/em: dtype of np.atleast_1d(max_voltage) *)
  Variables (pd ed pm em : Z).
  Context (Hpd : Prec_gt_0 pd) (Hed : Prec_lt_emax pd ed).
  Context (Hpm : Prec_gt_0 pm) (Hem : Prec_lt_emax pm em).

  (* an exact dyadic m*2^e rounded (to nearest even) into a format: how the
     harness hands floats over (exact when the value is in the format) and how
     NumPy converts a Python float operand to the array's dtype (NEP 50) *)
  Definition of_me_d (m e : Z) : binary_float pd ed := binary_normalize pd ed Hpd Hed mode_NE m e false.
  Definition of_me_m (m e : Z) : binary_float pm em := binary_normalize pm em Hpm Hem mode_NE m e false.

  (* exact widening to binary64 for comparisons between different dtypes
     (NumPy promotes both operands to float64; the conversion is exact) *)
  Definition widen {p e} (x : binary_float p e) : b64 :=
    match x with
    | B754_zero s => B754_zero s
    | B754_infinity s => B754_infinity s
    | B754_nan => B754_nan
    | B754_finite s m ex _ => binary_normalize 53 1024 Hp53 He53 mode_NE (cond_Zopp s (Zpos m)) ex s
    end.
  Definition cmp_is {p1 e1 p2 e2} (x : binary_float p1 e1) (y : binary_float p2 e2)
             (ok : comparison -> bool) : bool :=
    match Bcompare (widen x) (widen y) with Some c => ok c | None => false end.   (* NaN: every test False *)
  Definition is_gt c := match c with Gt => true | _ => false end.
  Definition is_ge c := match c with Lt => false | _ => true end.

  Variables (fs_m fs_e vps_m vps_e : Z).      (* fs and v_per_sec as Python floats (binary64 values) *)

  Definition i_vabs (x : binary_float pd ed) := Babs x.
  Definition i_thr98 (mv : binary_float pm em) := Bmult mode_NE mv (of_me_m c098_m c098_e).
  Definition i_gt_vw (a : binary_float pd ed) (b : binary_float pm em) := cmp_is a b is_gt.
  Definition i_vsub (a b : binary_float pd ed) := Bminus mode_NE a b.
  Definition i_vdivfs (a : binary_float pd ed) := Bdiv mode_NE a (of_me_d fs_m fs_e).
  Definition i_ge_vv (a b : binary_float pd ed) := cmp_is a b is_ge.
  Definition i_vps := of_me_d vps_m vps_e.
End IEEE.

(* np.mean of a boolean array accumulates and divides in float64 *)
Definition of_me64 (m e : Z) : b64 := binary_normalize 53 1024 Hp53 He53 mode_NE m e false.
Definition i_mean (c n : Z) : b64 := Bdiv mode_NE (of_me64 c 0) (of_me64 n 0).
Definition i_gt_pp (a b : b64) : bool :=
  match Bcompare a b with Some Gt => true | _ => false end.
Definition i_pzero : b64 := B754_zero false.

(* the flags of the source for data dtype (pd,ed) and max_voltage dtype (pm,em) *)
Definition ieee_flags pd ed pm em Hpd Hed Hpm Hem (fs_m fs_e vps_m vps_e prop_m prop_e : Z)
    (data : list (list (binary_float pd ed))) (mvs : list (binary_float pm em)) : option (list bool) :=
  saturation_flags _ _ _
    (i_vabs pd ed) (i_thr98 pm em Hpm Hem) (i_gt_vw pd ed pm em)
    (i_vsub pd ed Hpd Hed) (i_vdivfs pd ed Hpd Hed fs_m fs_e) (i_ge_vv pd ed)
    (i_vps pd ed Hpd Hed vps_m vps_e) i_mean i_gt_pp (of_me64 prop_m prop_e) i_pzero data mvs.

(* ------------------------------------------------------------------ *)
(* Part 3b: fixed-point instance of Part 2                             *)
(* ------------------------------------------------------------------ *)
(* Window taps (binary64 values, hence dyadic) are handed over as integers
   w_k * 2^s for a common s; `one` is 2^s; the result is mute * 2^s, exactly. *)
Definition mute_fixed (s : Z) (flags : list bool) (w : list Z) : list Z :=
  mute_of Z 0 1 Z.add Z.mul Z.sub Z.leb (2 ^ s) flags w.
