(* C16 — the third anchor: the full-scale voltage per channel,
     spikeglx.Reader.range_volts = self.sample2volts * _get_max_int_from_meta(self.meta)
   and how ibldsp.voltage.decompress_destripe_cbin hands it to saturation():
     saturation(data=chunk, max_voltage=_sr.range_volts[:ncv], fs=_sr.fs)   with ncv = nc - nsync.

   The metadata layer (read_meta_data, _get_max_int_from_meta, the IMRO scanner,
   _conversion_sample2v_from_meta, Reader.sample2volts) is NOT re-modelled: it is
   C09's model (coq/C09/Model.v) and C09's theorems are imported in Proofs.v.
   Added here: (a) range_volts symbolically (entry = volts-per-bit entry of C09 times
   maxint), (b) the float32 / float64 arithmetic NumPy performs for it (Flocq), used by
   the correspondence check to obtain the very float32 vector the reader returns.
   Definitions only. *)
From Coq Require Import String ZArith List Bool.
From Flocq Require Import Core BinarySingleNaN.
Require IBL.C09.Model.
From IBL.C16 Require Import Model.
Import ListNotations.
Open Scope Z_scope.

(* ---- (a) symbolic ----------------------------------------------------- *)
(* Reader.range_volts: (full-scale range, maxint used inside sample2volts, maxint of
   the final product, volts-per-bit entries).  Entry CG g stands for
   (range / maxint / g) * maxint', entry C1 for 1 * maxint'. *)
Definition range_volts (d : C09.Model.dict) : option (C09.Model.dec * Z * Z * list C09.Model.conv) :=
  match C09.Model.sample2volts d, C09.Model.max_int d with
  | Some (r, mi, v), Some mi' => Some (r, mi, mi', v)
  | _, _ => None
  end.

(* number of voltage channels of the caller: ncv = nc - nsync *)
Definition ncv (d : C09.Model.dict) : option Z :=
  match C09.Model.nchannels d, C09.Model.sync_indices d with
  | Some ntr, Some (_, nsy) => Some (ntr - nsy)
  | _, _ => None
  end.

(* value of one entry in an arbitrary arithmetic W: of_dec / of_int embed decimal
   literals and integers, wdiv / wmul are the division and product *)
Section EntryValue.
  Variable W : Type.
  Variable of_dec : C09.Model.dec -> W.
  Variable of_int : Z -> W.
  Variables wdiv wmul : W -> W -> W.
  Variable wone : W.
  Definition entry_value (r : C09.Model.dec) (mi mi' : Z) (c : C09.Model.conv) : W :=
    match c with
    | C09.Model.CG g => wmul (wdiv (wdiv (of_dec r) (of_int mi)) (of_dec g)) (of_int mi')
    | C09.Model.C1 => wmul wone (of_int mi')
    end.
  (* max_voltage = range_volts[:ncv] as values of W *)
  Definition max_voltage_of (d : C09.Model.dict) : option (list W) :=
    match range_volts d, ncv d with
    | Some (r, mi, mi', v), Some n => Some (map (entry_value r mi mi') (C09.Model.py_take n v))
    | _, _ => None
    end.
End EntryValue.

(* ---- (b) the floats NumPy computes ------------------------------------- *)
Definition of_Z64 (z : Z) : b64 := of_me64 z 0.
Definition of_Z32 (z : Z) : b32 := binary_normalize 24 128 Hp24 He24 mode_NE z 0 false.
(* float("m.ddd") for a literal m / 10^s: one correctly rounded division of two
   exactly representable integers (m < 2^53, s <= 22 — every literal of a .meta file) *)
Definition dec64 (x : C09.Model.dec) : b64 := Bdiv mode_NE (of_Z64 (fst x)) (of_Z64 (C09.Model.pow10 (snd x))).
(* float64 -> float32 (how NumPy casts a Python-float operand of a float32 array) *)
Definition to32 (x : b64) : b32 :=
  match x with
  | B754_zero s => B754_zero s
  | B754_infinity s => B754_infinity s
  | B754_nan => B754_nan
  | B754_finite s m e _ => binary_normalize 24 128 Hp24 He24 mode_NE (cond_Zopp s (Zpos m)) e s
  end.

(* int2volts(md) = md.get("imAiRangeMax") / maxint        (Python floats) *)
Definition i2v64 (r : C09.Model.dec) (mi : Z) : b64 := Bdiv mode_NE (dec64 r) (of_Z64 mi).

(* NP1 / Ultra entry:  1 / np.float32(gain)  (float32), times int2volt (weak Python float) *)
Definition entry_np1 (i2v : b64) (c : C09.Model.conv) : b32 :=
  match c with
  | C09.Model.CG g => Bmult mode_NE (Bdiv mode_NE (of_Z32 1) (to32 (dec64 g))) (to32 i2v)
  | C09.Model.C1 => of_Z32 1
  end.
(* NP2 entry:  int2volt / 80 (Python float) * np.ones(n).astype(float32) *)
Definition entry_np2 (i2v : b64) (c : C09.Model.conv) : b32 :=
  match c with
  | C09.Model.CG g => Bmult mode_NE (to32 (Bdiv mode_NE i2v (dec64 g))) (of_Z32 1)
  | C09.Model.C1 => of_Z32 1
  end.
(* nidq entry (all float64):  np.ones(n) / gain * int2volt ; analog sync: np.ones(n) * int2volt *)
Definition entry_nidq (i2v : b64) (c : C09.Model.conv) : b64 :=
  match c with
  | C09.Model.CG g => Bmult mode_NE (Bdiv mode_NE (of_Z64 1) (dec64 g)) i2v
  | C09.Model.C1 => of_Z64 1
  end.

Inductive rv_float :=
| RV32 (l : list b32)
| RV64 (l : list b64).

(* Reader.range_volts as the floats NumPy produces: sample2volts * maxint (weak Python int) *)
Definition range_volts_float (d : C09.Model.dict) : option rv_float :=
  match range_volts d with
  | None => None
  | Some (r, mi, mi', v) =>
      let i2v := i2v64 r mi in
      match C09.Model.lookup (C09.Model.lit "imroTbl"%string) d, C09.Model.version d with
      | Some _, Some ver =>
          let ent := if C09.Model.is_np2 ver then entry_np2 i2v else entry_np1 i2v in
          Some (RV32 (map (fun c => Bmult mode_NE (ent c) (of_Z32 mi')) v))
      | Some _, None => None
      | None, _ => Some (RV64 (map (fun c => Bmult mode_NE (entry_nidq i2v c) (of_Z64 mi')) v))
      end
  end.
