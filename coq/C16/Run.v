(* C16 — flat-integer interface of the model for the correspondence check.
   Two kinds of input, told apart by the first integer (0/1: direct, 2: through a reader).
   DIRECT
   input : [fd; fm; nc; ns; k; fs_m; fs_e; vps_m; vps_e; p_m; p_e; M; s;
            w_0 .. w_{M-1};                 window taps * 2^s (integers)
            mv_0m; mv_0e; ...               k pairs      max_voltage entries as m*2^e
            x_00m; x_00e; ...]              nc*ns pairs  data, channel after channel
           fd / fm: dtype of data / of atleast_1d(max_voltage): 0 = float32, 1 = float64
           every float is passed exactly as m * 2^e (infinity: 1 * 2^100000; NaN: (0, 100001))
   output: [0]                                      the source raises (broadcast error)
           1 :: ns :: flags (0/1) ++ mute * 2^s     otherwise
   READER (max_voltage = Reader.range_volts[:nc - nsync] of a .meta file; C09's model parses it)
   input : [2; fd; ns; fs_m; fs_e; vps_m; vps_e; p_m; p_e; M; s; w_0 .. w_{M-1};
            L; c_0 .. c_{L-1};              the text of the .meta file (code points)
            x_00m; x_00e; ...]              ncv*ns pairs, ncv = nc - nsync computed by the model
   output: [0]                              metadata not usable / saturation raises
           1 :: ncv :: fm :: range_volts[:ncv] as ncv pairs (mantissa, exponent) of the float32 (fm = 0) or
                float64 (fm = 1) entries :: ns :: flags ++ mute * 2^s
   In both kinds everything up to and including the flags is compared exactly, the mute within 2^(s-36). *)
From Coq Require Import ZArith List Bool.
From Flocq Require Import Core BinarySingleNaN.
From IBL.lib Require Import PyInt RunLib.
From IBL.C16 Require Import Model Range.
Import ListNotations.
Open Scope Z_scope.

Fixpoint pairs (l : list Z) : list (Z * Z) :=
  match l with
  | m :: e :: r => (m, e) :: pairs r
  | _ => []
  end.

Fixpoint chunk {A} (cnt n : nat) (l : list A) : list (list A) :=
  match cnt with
  | O => []
  | S c => firstn n l :: chunk c n (skipn n l)
  end.

(* decoding of one float: (m, e) is m * 2^e rounded into the format; (0, 100001) is NaN
   (an unknown full scale: Reader.range_volts of a recording without metadata; missing samples) *)
Definition dec_float p e (Hp : Prec_gt_0 p) (He : Prec_lt_emax p e) (x : Z * Z) : binary_float p e :=
  if snd x =? 100001 then B754_nan else binary_normalize p e Hp He mode_NE (fst x) (snd x) false.

Definition flags_fmt (fd fm : Z) (fs_m fs_e vps_m vps_e p_m p_e : Z)
           (mv : list (Z * Z)) (data : list (list (Z * Z))) : option (list bool) :=
  let go pd ed pm em Hpd Hed Hpm Hem :=
    ieee_flags pd ed pm em Hpd Hed Hpm Hem fs_m fs_e vps_m vps_e p_m p_e
      (map (map (dec_float pd ed Hpd Hed)) data)
      (map (dec_float pm em Hpm Hem) mv) in
  match fd, fm with
  | 0, 0 => go 24 128 24 128 Hp24 He24 Hp24 He24
  | 0, _ => go 24 128 53 1024 Hp24 He24 Hp53 He53
  | _, 0 => go 53 1024 24 128 Hp53 He53 Hp24 He24
  | _, _ => go 53 1024 53 1024 Hp53 He53 Hp53 He53
  end.

(* canonical (mantissa, exponent) of a float as Flocq stores it *)
Definition enc_float {p e} (x : binary_float p e) : list Z :=
  match x with
  | B754_zero _ => [0; 0]
  | B754_infinity sg => [if sg then -1 else 1; 100000]
  | B754_nan => [0; 100001]
  | B754_finite sg m ex _ => [cond_Zopp sg (Zpos m); ex]
  end.

Definition data_of pd ed Hpd Hed (data : list (list (Z * Z))) :=
  map (map (dec_float pd ed Hpd Hed)) data.

(* flags for data of dtype fd and a max_voltage vector already given as floats *)
Definition flags_reader (fd : Z) (fs_m fs_e vps_m vps_e p_m p_e : Z) (rv : rv_float)
           (data : list (list (Z * Z))) : option (list bool) :=
  match fd, rv with
  | 0, RV32 mv => ieee_flags 24 128 24 128 Hp24 He24 Hp24 He24 fs_m fs_e vps_m vps_e p_m p_e
                    (data_of 24 128 Hp24 He24 data) mv
  | 0, RV64 mv => ieee_flags 24 128 53 1024 Hp24 He24 Hp53 He53 fs_m fs_e vps_m vps_e p_m p_e
                    (data_of 24 128 Hp24 He24 data) mv
  | _, RV32 mv => ieee_flags 53 1024 24 128 Hp53 He53 Hp24 He24 fs_m fs_e vps_m vps_e p_m p_e
                    (data_of 53 1024 Hp53 He53 data) mv
  | _, RV64 mv => ieee_flags 53 1024 53 1024 Hp53 He53 Hp53 He53 fs_m fs_e vps_m vps_e p_m p_e
                    (data_of 53 1024 Hp53 He53 data) mv
  end.

Definition rv_take (n : Z) (rv : rv_float) : rv_float :=
  match rv with RV32 l => RV32 (C09.Model.py_take n l) | RV64 l => RV64 (C09.Model.py_take n l) end.
Definition enc_rv (rv : rv_float) : list Z :=
  match rv with
  | RV32 l => Z.of_nat (length l) :: 0 :: flat_map enc_float l
  | RV64 l => Z.of_nat (length l) :: 1 :: flat_map enc_float l
  end.

(* (part compared exactly, part compared with tolerance) *)
Definition run2 (inp : list Z) : list Z * list Z :=
  match inp with
  | 2 :: fd :: ns :: fs_m :: fs_e :: vps_m :: vps_e :: p_m :: p_e :: M :: s :: rest =>
      let w := firstn (Z.to_nat M) rest in
      let rest := skipn (Z.to_nat M) rest in
      match rest with
      | L :: rest =>
          let text := firstn (Z.to_nat L) rest in
          let rest := skipn (Z.to_nat L) rest in
          match C09.Model.read_meta text with
          | None => ([0], [])
          | Some d =>
              match range_volts_float d, ncv d with
              | Some rv, Some n =>
                  let mv := rv_take n rv in
                  let data := chunk (Z.to_nat n) (Z.to_nat ns) (pairs rest) in
                  match flags_reader fd fs_m fs_e vps_m vps_e p_m p_e mv data with
                  | None => ([0], [])
                  | Some fl => (1 :: enc_rv mv ++ Z.of_nat (length fl) :: map b2z fl, mute_fixed s fl w)
                  end
              | _, _ => ([0], [])
              end
          end
      | [] => ([-999], [])
      end
  | fd :: fm :: nc :: ns :: k :: fs_m :: fs_e :: vps_m :: vps_e :: p_m :: p_e :: M :: s :: rest =>
      let w := firstn (Z.to_nat M) rest in
      let rest := skipn (Z.to_nat M) rest in
      let mv := pairs (firstn (2 * Z.to_nat k) rest) in
      let rest := skipn (2 * Z.to_nat k) rest in
      let data := chunk (Z.to_nat nc) (Z.to_nat ns) (pairs rest) in
      match flags_fmt fd fm fs_m fs_e vps_m vps_e p_m p_e mv data with
      | None => ([0], [])
      | Some fl => (1 :: Z.of_nat (length fl) :: map b2z fl, mute_fixed s fl w)
      end
  | _ => ([-999], [])
  end.

Definition run (inp : list Z) : list Z := fst (run2 inp) ++ snd (run2 inp).

(* comparison used by the kernel-evaluated sample: flags exactly, the mute
   (implementation: float64 rounded sums; model: exact) within 2^(s-36) ~ 1.5e-11 *)
Fixpoint close_eqb (tol : Z) (a b : list Z) : bool :=
  match a, b with
  | [], [] => true
  | x :: a', y :: b' => (Z.abs (x - y) <=? tol) && close_eqb tol a' b'
  | _, _ => false
  end.

Definition agrees (inp out : list Z) : bool :=
  let r := run2 inp in
  let n := length (fst r) in
  let s := match inp with 2 :: _ => nth 10 inp 0 | _ => nth 12 inp 0 end in
  zlist_eqb (fst r) (firstn n out) && close_eqb (2 ^ (s - 36)) (snd r) (skipn n out).

Definition mismatches (cs : list (Z * list Z * list Z)) : list Z :=
  flat_map (fun c => let '(id, inp, out) := c in if agrees inp out then [] else [id]) cs.
