(* C16 — flat-integer interface of the model for the correspondence check.
   input : [fd; fm; nc; ns; k; fs_m; fs_e; vps_m; vps_e; p_m; p_e; M; s;
            w_0 .. w_{M-1};                 window taps * 2^s (integers)
            mv_0m; mv_0e; ...               k pairs      max_voltage entries as m*2^e
            x_00m; x_00e; ...]              nc*ns pairs  data, channel after channel
           fd / fm: dtype of data / of atleast_1d(max_voltage): 0 = float32, 1 = float64
           every float is passed exactly as m * 2^e (infinity: 1 * 2^100000)
   output: [0]                                      the source raises (broadcast error)
           1 :: ns :: flags (0/1) ++ mute * 2^s     otherwise *)
From Coq Require Import ZArith List Bool.
From Flocq Require Import Core BinarySingleNaN.
From IBL.lib Require Import PyInt RunLib.
From IBL.C16 Require Import Model.
Import ListNotations.
Open Scope Z_scope.

Fixpoint pairs (l : list Z) : list (Z * Z) :=
  match l with
  | m :: e :: r => (m, e) :: pairs r
  | _ => []
  end.

Fixpoint chunk {A} (cnt n : nat) (l : list A) : list (list A) :=
  match cnt with
  | O => []
  | S c => firstn n l :: chunk c n (skipn n l)
  end.

Definition flags_fmt (fd fm : Z) (fs_m fs_e vps_m vps_e p_m p_e : Z)
           (mv : list (Z * Z)) (data : list (list (Z * Z))) : option (list bool) :=
  let go pd ed pm em Hpd Hed Hpm Hem :=
    ieee_flags pd ed pm em Hpd Hed Hpm Hem fs_m fs_e vps_m vps_e p_m p_e
      (map (map (fun x => of_me_d pd ed Hpd Hed (fst x) (snd x))) data)
      (map (fun x => of_me_m pm em Hpm Hem (fst x) (snd x)) mv) in
  match fd, fm with
  | 0, 0 => go 24 128 24 128 Hp24 He24 Hp24 He24
  | 0, _ => go 24 128 53 1024 Hp24 He24 Hp53 He53
  | _, 0 => go 53 1024 24 128 Hp53 He53 Hp24 He24
  | _, _ => go 53 1024 53 1024 Hp53 He53 Hp53 He53
  end.

Definition run (inp : list Z) : list Z :=
  match inp with
  | fd :: fm :: nc :: ns :: k :: fs_m :: fs_e :: vps_m :: vps_e :: p_m :: p_e :: M :: s :: rest =>
      let w := firstn (Z.to_nat M) rest in
      let rest := skipn (Z.to_nat M) rest in
      let mv := pairs (firstn (2 * Z.to_nat k) rest) in
      let rest := skipn (2 * Z.to_nat k) rest in
      let data := chunk (Z.to_nat nc) (Z.to_nat ns) (pairs rest) in
      match flags_fmt fd fm fs_m fs_e vps_m vps_e p_m p_e mv data with
      | None => [0]
      | Some fl => 1 :: Z.of_nat (length fl) :: map b2z fl ++ mute_fixed s fl w
      end
  | _ => [-999]
  end.

(* comparison used by the kernel-evaluated sample: flags exactly, the mute
   (implementation: float64 rounded sums; model: exact) within 2^(s-36) ~ 1.5e-11 *)
Fixpoint close_eqb (tol : Z) (a b : list Z) : bool :=
  match a, b with
  | [], [] => true
  | x :: a', y :: b' => (Z.abs (x - y) <=? tol) && close_eqb tol a' b'
  | _, _ => false
  end.

Definition agrees (inp out : list Z) : bool :=
  let r := run inp in
  let n := (2 + Z.to_nat (nth 3 inp 0%Z))%nat in
  let s := nth 12 inp 0 in
  zlist_eqb (firstn n r) (firstn n out) && close_eqb (2 ^ (s - 36)) (skipn n r) (skipn n out).

Definition mismatches (cs : list (Z * list Z * list Z)) : list Z :=
  flat_map (fun c => let '(id, inp, out) := c in if agrees inp out then [] else [id]) cs.
