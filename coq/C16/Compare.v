(* C16 — the comparisons of the IEEE instances read as comparisons of real numbers.
   `widen` (Model.v) converts a binary32 or binary64 value to binary64 exactly, so
   the source's `>` and `>=` between arrays of different dtypes are the real-number
   comparisons of the stored values (finite operands; NaN compares false). *)
From Coq Require Import ZArith Reals Lia Lra.
From Flocq Require Import Core BinarySingleNaN.
From IBL.C16 Require Import Model.
Open Scope R_scope.

Section Widen.
  Variables p e : Z.
  Context (Hp : Prec_gt_0 p) (He : Prec_lt_emax p e).
  Hypothesis Hp53 : (p <= 53)%Z.
  Hypothesis He1024 : (e <= 1024)%Z.
  Hypothesis Hemin : (3 - 1024 - 53 <= 3 - e - p)%Z.

  Lemma widen_correct (x : binary_float p e) : is_finite x = true ->
    B2R (widen x) = B2R x /\ is_finite (widen x) = true.
  Proof using Hp He Hp53 He1024 Hemin.
    destruct x as [s|s| |s m ex Hb]; try discriminate; intros _.
    - split; reflexivity.
    - unfold widen.
      pose proof (binary_normalize_correct 53 1024 Model.Hp53 Model.He53 mode_NE (cond_Zopp s (Zpos m)) ex s) as H.
      cbv zeta in H.
      set (x := F2R (Float radix2 (cond_Zopp s (Z.pos m)) ex)) in *.
      assert (Hx : x = B2R (B754_finite s m ex Hb)) by reflexivity.
      assert (Hg : generic_format radix2 (SpecFloat.fexp 53 1024) x).
      { rewrite Hx. apply generic_inclusion_mag with (fexp1 := SpecFloat.fexp p e).
        - intros _. unfold SpecFloat.fexp, SpecFloat.emin. lia.
        - apply generic_format_B2R. }
      cbn [round_mode] in H. rewrite round_generic in H; [|typeclasses eauto|exact Hg].
      rewrite Rlt_bool_true in H.
      + destruct H as (H1 & H2 & _). split; [rewrite H1; exact Hx|exact H2].
      + rewrite Hx. apply Rlt_le_trans with (bpow radix2 e); [apply abs_B2R_lt_emax|].
        apply bpow_le. lia.
  Qed.
End Widen.

Lemma widen32 (x : b32) : is_finite x = true -> B2R (widen x) = B2R x /\ is_finite (widen x) = true.
Proof. apply (widen_correct 24 128 Hp24 He24); lia. Qed.
Lemma widen64 (x : b64) : is_finite x = true -> B2R (widen x) = B2R x /\ is_finite (widen x) = true.
Proof. apply (widen_correct 53 1024 Hp53 He53); lia. Qed.

(* a format of the model: binary32 or binary64 *)
Definition fmt_ok (p e : Z) : Prop := (p = 24 /\ e = 128)%Z \/ (p = 53 /\ e = 1024)%Z.

Lemma widen_any p e (Hp : Prec_gt_0 p) (He : Prec_lt_emax p e) (x : binary_float p e) :
  fmt_ok p e -> is_finite x = true -> B2R (widen x) = B2R x /\ is_finite (widen x) = true.
Proof. intros [[-> ->]|[-> ->]]; apply (widen_correct _ _ Hp He); lia. Qed.

Lemma cmp_is_real p1 e1 p2 e2 (H1 : Prec_gt_0 p1) (H1' : Prec_lt_emax p1 e1)
      (H2 : Prec_gt_0 p2) (H2' : Prec_lt_emax p2 e2)
      (x : binary_float p1 e1) (y : binary_float p2 e2) ok :
  fmt_ok p1 e1 -> fmt_ok p2 e2 -> is_finite x = true -> is_finite y = true ->
  cmp_is x y ok = ok (Rcompare (B2R x) (B2R y)).
Proof.
  intros F1 F2 Fx Fy. unfold cmp_is.
  destruct (widen_any p1 e1 H1 H1' x F1 Fx) as [Rx Fx'].
  destruct (widen_any p2 e2 H2 H2' y F2 Fy) as [Ry Fy'].
  now rewrite (Bcompare_correct _ _ _ _ Fx' Fy'), Rx, Ry.
Qed.

(* np.abs(data) > max_voltage * 0.98 : strictly greater, as real numbers *)
Lemma pub_gt_vw_real p1 e1 p2 e2 (H1 : Prec_gt_0 p1) (H1' : Prec_lt_emax p1 e1)
      (H2 : Prec_gt_0 p2) (H2' : Prec_lt_emax p2 e2)
      (a : binary_float p1 e1) (b : binary_float p2 e2) :
  fmt_ok p1 e1 -> fmt_ok p2 e2 -> is_finite a = true -> is_finite b = true ->
  (i_gt_vw p1 e1 p2 e2 a b = true <-> B2R a > B2R b).
Proof.
  intros F1 F2 Fa Fb. unfold i_gt_vw. rewrite (cmp_is_real _ _ _ _ H1 H1' H2 H2') by assumption.
  destruct (Rcompare_spec (B2R a) (B2R b)); cbn; split; intros; try discriminate; try lra; reflexivity.
Qed.

(* |diff| / fs >= v_per_sec : greater or equal, as real numbers *)
Lemma pub_ge_vv_real p e (H1 : Prec_gt_0 p) (H1' : Prec_lt_emax p e) (a b : binary_float p e) :
  fmt_ok p e -> is_finite a = true -> is_finite b = true ->
  (i_ge_vv p e a b = true <-> B2R a >= B2R b).
Proof.
  intros F Fa Fb. unfold i_ge_vv. rewrite (cmp_is_real _ _ _ _ H1 H1' H1 H1') by assumption.
  destruct (Rcompare_spec (B2R a) (B2R b)); cbn; split; intros; try discriminate; try lra; reflexivity.
Qed.

(* an unknown full scale (NaN: Reader.range_volts of a recording without metadata) switches the
   amplitude test off for that channel, whatever the sample; a NaN sample passes neither test *)
Lemma pub_nan_range_never_over pd ed pm em (Hpm : Prec_gt_0 pm) (Hem : Prec_lt_emax pm em)
      (x : binary_float pd ed) :
  over _ _ (i_vabs pd ed) (i_thr98 pm em Hpm Hem) (i_gt_vw pd ed pm em) x B754_nan = false.
Proof.
  unfold over, i_thr98, i_gt_vw, cmp_is.
  assert (Hn : Bmult mode_NE (B754_nan : binary_float pm em) (of_me_m pm em Hpm Hem c098_m c098_e) = B754_nan)
    by reflexivity.
  rewrite Hn. cbn [widen]. unfold Bcompare. cbn [B2SF].
  destruct (B2SF (widen (i_vabs pd ed x))); reflexivity.
Qed.

Lemma pub_nan_sample_never_over pd ed pm em (Hpm : Prec_gt_0 pm) (Hem : Prec_lt_emax pm em)
      (mv : binary_float pm em) :
  over _ _ (i_vabs pd ed) (i_thr98 pm em Hpm Hem) (i_gt_vw pd ed pm em) B754_nan mv = false.
Proof. reflexivity. Qed.
