(* C16 — the proportion test `np.mean(...) > proportion` at the last ulp, for an
   arbitrary float64 proportion p.  Real-number side: IEEE round-to-nearest-even
   to binary64 is Flocq's  round radix2 (FLT_exp (-1074) 53) ZnearestE. *)
From Coq Require Import ZArith Reals Lia Lra.
From Flocq Require Import Core BinarySingleNaN.
From IBL.C16 Require Import Model.
Open Scope R_scope.

Definition fexp64 := FLT_exp (3 - 1024 - 53) 53.
Definition rnd64 (x : R) : R := round radix2 fexp64 ZnearestE x.
Definition is_f64 (x : R) : Prop := generic_format radix2 fexp64 x.

(* no false positive: if the rounded fraction exceeds p, the exact fraction does *)
Lemma rnd_gt_sound x p : is_f64 p -> rnd64 x > p -> x > p.
Proof.
  intros Hp H. destruct (Rle_or_lt x p) as [Hle|Hlt]; [|exact Hlt].
  exfalso. assert (rnd64 x <= rnd64 p) by (apply round_le; try typeclasses eauto; exact Hle).
  unfold rnd64 in H0 at 2. rewrite round_generic in H0; try typeclasses eauto; try exact Hp. lra.
Qed.

(* a miss needs the exact fraction to lie within one float above p: as soon as some
   float64 q satisfies p < q <= x the test fires *)
Lemma rnd_gt_complete x p q : is_f64 q -> p < q -> q <= x -> rnd64 x > p.
Proof.
  intros Hq Hpq Hqx.
  assert (rnd64 q <= rnd64 x) by (apply round_le; try typeclasses eauto; exact Hqx).
  unfold rnd64 in H at 1. rewrite round_generic in H; try typeclasses eauto; try exact Hq. lra.
Qed.

(* ---- the float side: i_mean c n is the rounded quotient -------------------- *)
Lemma fexp64_eq : SpecFloat.fexp 53 1024 = fexp64.
Proof. reflexivity. Qed.

Lemma Z_is_f64 z : (Z.abs z < 2 ^ 53)%Z -> is_f64 (IZR z).
Proof.
  intros Hz. apply generic_format_FLT. apply (FLT_spec _ _ _ _ (Float radix2 z 0)).
  - unfold F2R. cbn. ring.
  - exact Hz.
  - cbn. lia.
Qed.

Lemma of_Z64_correct z : (Z.abs z < 2 ^ 53)%Z ->
  B2R (of_me64 z 0) = IZR z /\ is_finite (of_me64 z 0) = true.
Proof.
  intros Hz. unfold of_me64.
  pose proof (binary_normalize_correct 53 1024 Hp53 He53 mode_NE z 0 false) as H.
  cbv zeta in H.
  assert (Hx : F2R (Float radix2 z 0) = IZR z) by (unfold F2R; cbn; ring).
  rewrite Hx, fexp64_eq in H. cbn [round_mode] in H.
  rewrite round_generic in H; [|typeclasses eauto|now apply Z_is_f64].
  rewrite Rlt_bool_true in H.
  - destruct H as (H1 & H2 & _). split; assumption.
  - rewrite <- abs_IZR. apply Rlt_trans with (IZR (2 ^ 53)); [apply IZR_lt; exact Hz|].
    change (IZR (2 ^ 53)) with (bpow radix2 53). apply bpow_lt. lia.
Qed.

Lemma i_mean_correct c n : (0 <= c <= n)%Z -> (1 <= n < 2 ^ 53)%Z ->
  B2R (i_mean c n) = rnd64 (IZR c / IZR n) /\ is_finite (i_mean c n) = true.
Proof.
  intros Hc Hn. unfold i_mean.
  destruct (of_Z64_correct c ltac:(lia)) as [Rc Fc].
  destruct (of_Z64_correct n ltac:(lia)) as [Rn Fn].
  assert (Hn0 : IZR n <> 0) by (apply not_0_IZR; lia).
  pose proof (Bdiv_correct 53 1024 Hp53 He53 mode_NE (of_me64 c 0) (of_me64 n 0)) as H.
  rewrite Rc, Rn, fexp64_eq in H. cbn [round_mode] in H. specialize (H Hn0).
  assert (Hq : 0 <= IZR c / IZR n <= 1).
  { assert (0 < IZR n) by (apply IZR_lt; lia).
    assert (0 <= IZR c) by (apply IZR_le; lia).
    assert (IZR c <= IZR n) by (apply IZR_le; lia).
    unfold Rdiv. split.
    - apply Rmult_le_pos; [assumption|]. left. now apply Rinv_0_lt_compat.
    - apply Rmult_le_reg_r with (IZR n); [assumption|].
      rewrite Rmult_assoc, Rinv_l by lra. lra. }
  assert (Hr : 0 <= round radix2 fexp64 ZnearestE (IZR c / IZR n) <= 1).
  { split.
    - rewrite <- (round_0 radix2 fexp64 ZnearestE). apply round_le; try typeclasses eauto. lra.
    - rewrite <- (round_generic radix2 fexp64 ZnearestE 1).
      + apply round_le; try typeclasses eauto. lra.
      + change 1 with (IZR 1). apply Z_is_f64. reflexivity. }
  rewrite Rlt_bool_true in H.
  - destruct H as (H1 & H2 & _). split; [exact H1|now rewrite H2].
  - rewrite Rabs_pos_eq by lra. apply Rle_lt_trans with 1; [lra|].
    change 1 with (bpow radix2 0). apply bpow_lt. lia.
Qed.

(* the source's test, for ANY finite float64 proportion p *)
Lemma pub_proportion_last_ulp c n (p : b64) :
  (0 <= c <= n)%Z -> (1 <= n < 2 ^ 53)%Z -> is_finite p = true ->
  (i_gt_pp (i_mean c n) p = true -> IZR c / IZR n > B2R p) /\
  (forall q : b64, is_finite q = true -> B2R p < B2R q -> B2R q <= IZR c / IZR n ->
     i_gt_pp (i_mean c n) p = true) /\
  (i_gt_pp (i_mean c n) p = true <-> rnd64 (IZR c / IZR n) > B2R p).
Proof.
  intros Hc Hn Fp. destruct (i_mean_correct c n Hc Hn) as [Rm Fm].
  assert (Hiff : i_gt_pp (i_mean c n) p = true <-> rnd64 (IZR c / IZR n) > B2R p).
  { unfold i_gt_pp. rewrite (Bcompare_correct _ _ _ _ Fm Fp), Rm.
    destruct (Rcompare_spec (rnd64 (IZR c / IZR n)) (B2R p)); split; intros; try discriminate; try lra; reflexivity. }
  assert (Hpf : is_f64 (B2R p)) by (apply generic_format_B2R).
  split; [|split; [|exact Hiff]].
  - intros H. apply Hiff in H. now apply (rnd_gt_sound _ _ Hpf).
  - intros q Fq Hpq Hqx. apply Hiff.
    apply (rnd_gt_complete _ _ (B2R q)); [apply generic_format_B2R|assumption|assumption].
Qed.

(* ---- the default proportion, every count (the band sweep + monotonicity) ----- *)
From IBL.C16 Require Import Sweep.
Local Open Scope R_scope.

Lemma quot_le a b n : (1 <= n)%Z -> (a <= b)%Z -> IZR a / IZR n <= IZR b / IZR n.
Proof.
  intros Hn Hab. unfold Rdiv. apply Rmult_le_compat_r.
  - left. apply Rinv_0_lt_compat. apply IZR_lt. lia.
  - now apply IZR_le.
Qed.

Lemma pub_default_prop_full nc c : (1 <= nc <= 400)%Z -> (0 <= c <= nc)%Z ->
  i_gt_pp (i_mean c nc) p02 = (nc <? 5 * c)%Z.
Proof.
  intros Hn Hc.
  assert (Fp : is_finite p02 = true) by (vm_compute; reflexivity).
  assert (Hn53 : (1 <= nc < 2 ^ 53)%Z) by lia.
  pose proof (Z.div_mod nc 5 ltac:(lia)) as Hdm. pose proof (Z.mod_pos_bound nc 5 ltac:(lia)) as Hmb.
  set (c0 := (nc / 5)%Z) in *.
  destruct (pub_proportion_last_ulp c nc p02 Hc Hn53 Fp) as (_ & _ & Hiff).
  destruct (nc <? 5 * c)%Z eqn:E.
  - apply Z.ltb_lt in E. assert (Hc1 : (0 <= c0 + 1 <= nc)%Z) by lia.
    pose proof (pub_default_prop nc (c0 + 1) Hn Hc1 ltac:(lia)) as Hs.
    replace (nc <? 5 * (c0 + 1))%Z with true in Hs by (symmetry; apply Z.ltb_lt; lia).
    destruct (pub_proportion_last_ulp (c0 + 1) nc p02 Hc1 Hn53 Fp) as (_ & _ & Hiff1).
    apply Hiff1 in Hs. apply Hiff.
    apply Rge_gt_trans with (rnd64 (IZR (c0 + 1) / IZR nc)); [|exact Hs].
    apply Rle_ge. apply round_le; try typeclasses eauto. apply quot_le; lia.
  - apply Z.ltb_ge in E. assert (Hc1 : (0 <= c0 <= nc)%Z) by lia.
    pose proof (pub_default_prop nc c0 Hn Hc1 ltac:(lia)) as Hs.
    replace (nc <? 5 * c0)%Z with false in Hs by (symmetry; apply Z.ltb_ge; lia).
    destruct (pub_proportion_last_ulp c0 nc p02 Hc1 Hn53 Fp) as (_ & _ & Hiff0).
    destruct (i_gt_pp (i_mean c nc) p02) eqn:G; [|reflexivity].
    exfalso. assert (Hgt : rnd64 (IZR c / IZR nc) > B2R p02) by (now apply Hiff).
    assert (Hle : rnd64 (IZR c / IZR nc) <= rnd64 (IZR c0 / IZR nc)).
    { apply round_le; try typeclasses eauto. apply quot_le; lia. }
    assert (Hc0 : rnd64 (IZR c0 / IZR nc) > B2R p02) by lra.
    apply Hiff0 in Hc0. congruence.
Qed.

(* ---- two-decimal proportions at whole-number boundaries, every count --------- *)
From IBL.C16 Require Import SweepP.
Local Open Scope R_scope.

(* a decision known at two consecutive counts extends to all counts (monotone rounding) *)
Lemma mean_form_threshold c0 nc (p : b64) :
  is_finite p = true -> (1 <= nc < 2 ^ 53)%Z -> (0 <= c0)%Z -> (c0 + 1 <= nc)%Z ->
  i_gt_pp (i_mean c0 nc) p = false -> i_gt_pp (i_mean (c0 + 1) nc) p = true ->
  forall k, (0 <= k <= nc)%Z -> i_gt_pp (i_mean k nc) p = (c0 <? k)%Z.
Proof.
  intros Fp Hn H0 H1 Hlo Hhi k Hk.
  destruct (pub_proportion_last_ulp k nc p Hk Hn Fp) as (_ & _ & Hiff).
  destruct (c0 <? k)%Z eqn:E.
  - apply Z.ltb_lt in E.
    destruct (pub_proportion_last_ulp (c0 + 1) nc p ltac:(lia) Hn Fp) as (_ & _ & Hiff1).
    apply Hiff1 in Hhi. apply Hiff.
    apply Rge_gt_trans with (rnd64 (IZR (c0 + 1) / IZR nc)); [|exact Hhi].
    apply Rle_ge. apply round_le; try typeclasses eauto. apply quot_le; lia.
  - apply Z.ltb_ge in E.
    destruct (pub_proportion_last_ulp c0 nc p ltac:(lia) Hn Fp) as (_ & _ & Hiff0).
    destruct (i_gt_pp (i_mean k nc) p) eqn:G; [|reflexivity].
    exfalso. assert (Hgt : rnd64 (IZR k / IZR nc) > B2R p) by (now apply Hiff).
    assert (Hle : rnd64 (IZR k / IZR nc) <= rnd64 (IZR c0 / IZR nc)).
    { apply round_le; try typeclasses eauto. apply quot_le; lia. }
    assert (Hc0 : rnd64 (IZR c0 / IZR nc) > B2R p) by lra.
    apply Hiff0 in Hc0. congruence.
Qed.

Lemma pub_two_decimal_boundary j nc k :
  (1 <= j <= 99)%Z -> (1 <= nc <= 400)%Z -> ((j * nc) mod 100 = 0)%Z -> (0 <= k <= nc)%Z ->
  mean_form k nc (pj j) = (j * nc <? 100 * k)%Z.
Proof.
  intros Hj Hn Hm Hk.
  pose proof (Z.div_mod (j * nc) 100 ltac:(lia)) as Hdm. rewrite Hm in Hdm.
  set (K := (j * nc / 100)%Z) in *.
  assert (HK : (0 <= K /\ K + 1 <= nc)%Z) by nia.
  destruct (boundary_point j nc K Hj Hn Hm ltac:(lia) ltac:(fold K; lia)) as [Fp H0].
  destruct (boundary_point j nc (K + 1) Hj Hn Hm ltac:(lia) ltac:(fold K; lia)) as [_ H1].
  replace (j * nc <? 100 * K)%Z with false in H0 by (symmetry; apply Z.ltb_ge; lia).
  replace (j * nc <? 100 * (K + 1))%Z with true in H1 by (symmetry; apply Z.ltb_lt; lia).
  unfold mean_form in *.
  rewrite (mean_form_threshold K nc (pj j) Fp ltac:(lia) ltac:(lia) ltac:(lia) H0 H1 k Hk).
  destruct (K <? k)%Z eqn:E1; destruct (j * nc <? 100 * k)%Z eqn:E2; try reflexivity;
    [apply Z.ltb_lt in E1; apply Z.ltb_ge in E2|apply Z.ltb_ge in E1; apply Z.ltb_lt in E2]; lia.
Qed.
