(* C16 — lemmas about the model of ibldsp.voltage.saturation. *)
From Coq Require Import ZArith List Bool Lia Ring Arith PeanoNat.
From IBL.C16 Require Import Model.
Import ListNotations.
Open Scope Z_scope.

(* ------------------------------------------------------------------ *)
(* generic list facts                                                  *)
(* ------------------------------------------------------------------ *)
Lemma nth_skipn_add {A} (h i : nat) (l : list A) d : nth i (skipn h l) d = nth (h + i) l d.
Proof.
  revert l. induction h as [|h IH]; intros l; [reflexivity|].
  destruct l as [|x l]; cbn [skipn plus]; [destruct i; reflexivity|]. apply IH.
Qed.

Lemma nth_firstn_lt {A} (n i : nat) (l : list A) d : (i < n)%nat -> nth i (firstn n l) d = nth i l d.
Proof.
  revert i l. induction n as [|n IH]; intros i l Hi; [lia|].
  destruct l as [|x l]; [destruct i; reflexivity|]. destruct i as [|i]; [reflexivity|].
  cbn [firstn nth]. apply IH. lia.
Qed.

Lemma In_firstn {A} n (l : list A) x : In x (firstn n l) -> In x l.
Proof.
  revert l. induction n as [|n IH]; intros [|y l] H; cbn [firstn] in H; try contradiction.
  destruct H as [H|H]; [now left|right; now apply IH].
Qed.

Lemma In_skipn {A} n (l : list A) x : In x (skipn n l) -> In x l.
Proof.
  revert l. induction n as [|n IH]; intros l H; [assumption|].
  destruct l as [|y l]; [contradiction|]. right. now apply IH.
Qed.

Lemma nth_repeat_lt {A} (a d : A) m n : (n < m)%nat -> nth n (repeat a m) d = a.
Proof.
  revert n. induction m as [|m IH]; intros n Hn; [lia|]. destruct n as [|n]; [reflexivity|].
  cbn [repeat nth]. apply IH. lia.
Qed.

Lemma map_seq_nth {A B} (f : A -> B) (l : list A) d :
  map f l = map (fun c => f (nth c l d)) (seq 0 (length l)).
Proof.
  apply nth_ext with (d := f d) (d' := f d).
  - now rewrite !map_length, seq_length.
  - intros n Hn. rewrite map_length in Hn.
    rewrite map_nth.
    rewrite (nth_indep _ (f d) ((fun c => f (nth c l d)) 0%nat)) by (now rewrite map_length, seq_length).
    rewrite (map_nth (fun c => f (nth c l d)) (seq 0 (length l)) 0%nat n).
    now rewrite seq_nth.
Qed.

Lemma map2_length {A B C} (f : A -> B -> C) a b : length (map2 f a b) = Nat.min (length a) (length b).
Proof.
  revert b. induction a as [|x a IH]; intros [|y b]; cbn [map2 length]; try reflexivity.
  now rewrite IH.
Qed.

Lemma map2_nth {A B C} (f : A -> B -> C) a b j da db dc :
  (j < length a)%nat -> (j < length b)%nat ->
  nth j (map2 f a b) dc = f (nth j a da) (nth j b db).
Proof.
  revert b j. induction a as [|x a IH]; intros [|y b] j Ha Hb; cbn [length] in *; try lia.
  destruct j as [|j]; [reflexivity|]. cbn [map2 nth]. apply IH; lia.
Qed.

Lemma map2_seq_nth {A B C} (f : A -> B -> C) a b da db :
  length a = length b ->
  map2 f a b = map (fun c => f (nth c a da) (nth c b db)) (seq 0 (length a)).
Proof.
  intros Hl.
  apply nth_ext with (d := f da db) (d' := f da db).
  - rewrite map2_length, map_length, seq_length. lia.
  - intros n Hn. rewrite map2_length in Hn.
    rewrite (map2_nth f a b n da db) by lia.
    rewrite (nth_indep _ (f da db) ((fun c => f (nth c a da) (nth c b db)) 0%nat))
      by (rewrite map_length, seq_length; lia).
    rewrite (map_nth (fun c => f (nth c a da) (nth c b db)) (seq 0 (length a)) 0%nat n).
    rewrite seq_nth by lia. reflexivity.
Qed.

(* ------------------------------------------------------------------ *)
(* counting                                                            *)
(* ------------------------------------------------------------------ *)
(* number of true entries *)
Definition count_true (l : list bool) : Z := fold_right (fun b acc => b2z b + acc) 0 l.

Lemma count_true_bounds l : 0 <= count_true l <= Z.of_nat (length l).
Proof.
  induction l as [|b l IH]; cbn [count_true fold_right length]; [lia|].
  fold (count_true l). destruct b; cbn [b2z]; lia.
Qed.

Lemma count_true_filter l : count_true l = Z.of_nat (length (filter (fun b => b) l)).
Proof.
  induction l as [|b l IH]; [reflexivity|]. cbn [count_true fold_right filter]. fold (count_true l).
  destruct b; cbn [b2z length]; lia.
Qed.

Lemma zip_add_length a b : length (zip_add a b) = Nat.min (length a) (length b).
Proof.
  revert b. induction a as [|x a IH]; intros [|y b]; cbn [zip_add length]; try reflexivity.
  now rewrite IH.
Qed.

Lemma zip_add_nth a b j : (j < length a)%nat -> (j < length b)%nat ->
  nth j (zip_add a b) 0 = nth j a 0 + nth j b 0.
Proof.
  revert b j. induction a as [|x a IH]; intros [|y b] j Ha Hb; cbn [length] in *; try lia.
  destruct j as [|j]; [reflexivity|]. cbn [zip_add nth]. apply IH; lia.
Qed.

Lemma col_counts_length ns rows : Forall (fun r => length r = ns) rows ->
  length (col_counts ns rows) = ns.
Proof.
  intros H. induction H as [|r rows Hr _ IH]; cbn [col_counts fold_right].
  - apply repeat_length.
  - fold (col_counts ns rows). rewrite zip_add_length, map_length, IH, Hr. lia.
Qed.

(* np.sum(axis=0) of a rectangular boolean array, column j *)
Lemma col_counts_nth ns rows j : Forall (fun r => length r = ns) rows -> (j < ns)%nat ->
  nth j (col_counts ns rows) 0 = count_true (map (fun r => nth j r false) rows).
Proof.
  intros H Hj. induction H as [|r rows Hr Hrows IH]; cbn [col_counts fold_right map count_true].
  - apply nth_repeat.
  - fold (col_counts ns rows). fold (count_true (map (fun r => nth j r false) rows)).
    rewrite zip_add_nth.
    + rewrite IH. f_equal. change 0 with (b2z false). apply map_nth.
    + rewrite map_length. lia.
    + rewrite col_counts_length by assumption. lia.
Qed.

(* ------------------------------------------------------------------ *)
(* Part 1: flags                                                       *)
(* ------------------------------------------------------------------ *)
Section FlagsProofs.
  Variables V W P : Type.
  Variable vabs : V -> V.
  Variable thr98 : W -> W.
  Variable gt_vw : V -> W -> bool.
  Variable vsub : V -> V -> V.
  Variable vdivfs : V -> V.
  Variable ge_vv : V -> V -> bool.
  Variable vps : V.
  Variable mean : Z -> Z -> P.
  Variable gt_pp : P -> P -> bool.
  Variables prop pzero : P.

  Notation over := (over V W vabs thr98 gt_vw).
  Notation slew := (slew V vabs vsub vdivfs ge_vv vps).
  Notation over_row := (over_row V W vabs thr98 gt_vw).
  Notation slew_row := (slew_row V vabs vsub vdivfs ge_vv vps).
  Notation broadcast := (broadcast V W).
  Notation saturation_flags :=
    (saturation_flags V W P vabs thr98 gt_vw vsub vdivfs ge_vv vps mean gt_pp prop pzero).

  (* the entry of max_voltage that applies to channel c: the scalar, or entry c *)
  Definition chan_mv (mvs : list W) (c : nat) (dw : W) : W :=
    match mvs with [m] => m | _ => nth c mvs dw end.

  (* number of channels over 98 % of their range at sample j; number of channels
     at or over the slew limit between samples j and j+1 *)
  Definition n_over (data : list (list V)) (mvs : list W) (j : nat) (dv : V) (dw : W) : Z :=
    count_true (map (fun c => over (nth j (nth c data []) dv) (chan_mv mvs c dw)) (seq 0 (length data))).
  Definition n_slew (data : list (list V)) (j : nat) (dv : V) : Z :=
    count_true (map (fun c => slew (nth j (nth c data []) dv) (nth (S j) (nth c data []) dv))
                    (seq 0 (length data))).

  (* the rule of the property for sample j of an [nc, ns] array *)
  Definition flag_rule (data : list (list V)) (mvs : list W) (ns j : nat) (dv : V) (dw : W) : bool :=
    let nc := Z.of_nat (length data) in
    gt_pp (mean (n_over data mvs j dv dw) nc) prop
    || (if (S j <? ns)%nat then gt_pp (mean (n_slew data j dv) nc) prop else gt_pp pzero prop).

  Lemma over_row_length mv row : length (over_row mv row) = length row.
  Proof. apply map_length. Qed.

  Lemma over_row_nth mv row j dv : (j < length row)%nat ->
    nth j (over_row mv row) false = over (nth j row dv) mv.
  Proof.
    intros Hj. unfold Model.over_row.
    rewrite (nth_indep _ false ((fun x => over x mv) dv)) by (now rewrite map_length).
    apply (map_nth (fun x => over x mv)).
  Qed.

  Lemma slew_row_length row : length (slew_row row) = (length row - 1)%nat.
  Proof.
    induction row as [|x [|y t] IH]; try reflexivity.
    cbn [Model.slew_row length] in *. rewrite IH. lia.
  Qed.

  Lemma slew_row_nth row j dv : (S j < length row)%nat ->
    nth j (slew_row row) false = slew (nth j row dv) (nth (S j) row dv).
  Proof.
    revert j. induction row as [|x [|y t] IH]; intros j Hj; cbn [length] in *; try lia.
    destruct j as [|j]; [reflexivity|].
    change (Model.slew_row V vabs vsub vdivfs ge_vv vps (x :: y :: t))
      with (slew x y :: slew_row (y :: t)).
    cbn [nth]. rewrite IH by (cbn [length]; lia). reflexivity.
  Qed.

  Lemma col_of_over mvl rows ns j dv dw : length mvl = length rows ->
    Forall (fun r => length r = ns) rows -> (j < ns)%nat ->
    map (fun r => nth j r false) (map2 over_row mvl rows)
    = map (fun c => over (nth j (nth c rows []) dv) (nth c mvl dw)) (seq 0 (length rows)).
  Proof.
    intros Hl Hrect Hj.
    rewrite (map2_seq_nth over_row mvl rows dw []) by assumption.
    rewrite map_map, Hl. apply map_ext_in. intros c Hc. apply in_seq in Hc.
    apply over_row_nth.
    rewrite Forall_forall in Hrect. rewrite (Hrect (nth c rows [])); [assumption|].
    apply nth_In. lia.
  Qed.

  Lemma col_of_slew data ns j dv :
    Forall (fun r => length r = ns) data -> (S j < ns)%nat ->
    map (fun r => nth j r false) (map slew_row data)
    = map (fun c => slew (nth j (nth c data []) dv) (nth (S j) (nth c data []) dv)) (seq 0 (length data)).
  Proof.
    intros Hrect Hj. rewrite map_map.
    rewrite (map_seq_nth (fun r => nth j (slew_row r) false) data []).
    apply map_ext_in. intros c Hc. apply in_seq in Hc.
    apply slew_row_nth.
    rewrite Forall_forall in Hrect. rewrite (Hrect (nth c data [])); [assumption|].
    apply nth_In. lia.
  Qed.

  (* the rows the source compares: per-channel ranges or one scalar *)
  Lemma broadcast_regular data mvs : data <> [] ->
    (length mvs = length data \/ length mvs = 1%nat) ->
    exists mvl, broadcast data mvs = Some (data, mvl) /\ length mvl = length data /\
                forall c dw, (c < length data)%nat -> nth c mvl dw = chan_mv mvs c dw.
  Proof.
    intros Hne Hk. unfold Model.broadcast.
    destruct (length mvs =? 0)%nat eqn:E0.
    { apply Nat.eqb_eq in E0. destruct data; [congruence|]. cbn [length] in Hk. lia. }
    destruct (length mvs =? length data)%nat eqn:E1.
    - apply Nat.eqb_eq in E1. exists mvs. split; [reflexivity|]. split; [assumption|].
      intros c dw Hc. unfold chan_mv. destruct mvs as [|m [|m' t]]; try reflexivity.
      cbn [length] in E1. destruct c as [|c]; [reflexivity|]. lia.
    - apply Nat.eqb_neq in E1. destruct Hk as [Hk|Hk]; [contradiction|].
      destruct mvs as [|m [|m' t]]; cbn [length] in Hk; try lia.
      exists (repeat m (length data)). split; [reflexivity|]. split; [apply repeat_length|].
      intros c dw Hc. unfold chan_mv. now apply nth_repeat_lt.
  Qed.

  Lemma broadcast_rejects data mvs :
    length mvs <> length data -> length mvs <> 1%nat -> length data <> 1%nat ->
    broadcast data mvs = None.
  Proof.
    intros H1 H2 H3. unfold Model.broadcast.
    destruct (length mvs =? 0)%nat; [reflexivity|].
    destruct (length mvs =? length data)%nat eqn:E1; [apply Nat.eqb_eq in E1; contradiction|].
    destruct mvs as [|m [|m' t]]; cbn [length] in *; try lia; try reflexivity;
      destruct data as [|r [|r' d]]; cbn [length] in *; try lia; reflexivity.
  Qed.

  Lemma map2_over_rect mvl rows ns : Forall (fun r => length r = ns) rows ->
    Forall (fun r => length r = ns) (map2 over_row mvl rows).
  Proof.
    intros H. revert mvl. induction H as [|r rows Hr _ IH]; intros [|m mvl]; cbn [map2]; try constructor.
    - now rewrite over_row_length.
    - apply IH.
  Qed.

  Lemma map_slew_rect data ns : Forall (fun r => length r = ns) data ->
    Forall (fun r => length r = (ns - 1)%nat) (map slew_row data).
  Proof.
    intros H. induction H as [|r rows Hr _ IH]; cbn [map]; constructor; [|assumption].
    now rewrite slew_row_length, Hr.
  Qed.

  Lemma nth_map_default {A B} (f : A -> B) l j da db : (j < length l)%nat ->
    nth j (map f l) db = f (nth j l da).
  Proof.
    intros Hj. rewrite (nth_indep _ db (f da)) by (now rewrite map_length). apply map_nth.
  Qed.

  (* flags_spec *)
  Lemma pub_flags_spec data mvs ns :
    data <> [] -> Forall (fun r => length r = ns) data ->
    (length mvs = length data \/ length mvs = 1%nat) ->
    exists fl, saturation_flags data mvs = Some fl /\ length fl = ns /\
      forall j dv dw, (j < ns)%nat -> nth j fl false = flag_rule data mvs ns j dv dw.
  Proof.
    intros Hne Hrect Hk.
    destruct (broadcast_regular data mvs Hne Hk) as [mvl [Hb [Hlen Hmv]]].
    unfold Model.saturation_flags. rewrite Hb.
    assert (Hns : length (hd [] data) = ns).
    { destruct data as [|r d]; [congruence|]. now inversion Hrect. }
    rewrite Hns.
    pose proof (map2_over_rect mvl data ns Hrect) as Hovr.
    pose proof (map_slew_rect data ns Hrect) as Hslr.
    set (nc := Z.of_nat (length data)).
    set (sat := map (fun c => mean c nc) (col_counts ns (map2 over_row mvl data))).
    set (nd := map (fun c => mean c nc) (col_counts (ns - 1) (map slew_row data)) ++ [pzero]).
    assert (Lsat : length sat = ns).
    { unfold sat. now rewrite map_length, col_counts_length. }
    assert (Lnd : length nd = (ns - 1 + 1)%nat).
    { unfold nd. rewrite app_length, map_length, col_counts_length by assumption. reflexivity. }
    eexists. split; [reflexivity|]. split.
    { rewrite map2_length, Lsat, Lnd. lia. }
    intros j dv dw Hj.
    rewrite (map2_nth _ sat nd j pzero pzero) by lia.
    unfold flag_rule. fold nc. f_equal.
    - (* voltage rule *)
      unfold sat. rewrite (nth_map_default _ _ j 0) by (rewrite col_counts_length; assumption).
      rewrite col_counts_nth by assumption.
      rewrite (col_of_over mvl data ns j dv dw) by assumption.
      unfold n_over. do 3 f_equal.
      apply map_ext_in. intros c Hc. apply in_seq in Hc. rewrite Hmv by lia. reflexivity.
    - (* slew rule / the appended 0 *)
      unfold nd. destruct (S j <? ns)%nat eqn:E.
      + apply Nat.ltb_lt in E.
        rewrite app_nth1 by (rewrite map_length, col_counts_length; [lia|assumption]).
        rewrite (nth_map_default _ _ j 0) by (rewrite col_counts_length; [lia|assumption]).
        rewrite col_counts_nth by (assumption || lia).
        rewrite (col_of_slew data ns j dv) by assumption.
        reflexivity.
      + apply Nat.ltb_ge in E.
        rewrite app_nth2 by (rewrite map_length, col_counts_length; [lia|assumption]).
        rewrite map_length, col_counts_length by assumption.
        replace (j - (ns - 1))%nat with 0%nat by lia. reflexivity.
  Qed.

  Lemma pub_flags_reject data mvs :
    length mvs <> length data -> length mvs <> 1%nat -> length data <> 1%nat ->
    saturation_flags data mvs = None.
  Proof.
    intros H1 H2 H3. unfold Model.saturation_flags. now rewrite broadcast_rejects.
  Qed.
  Lemma count_true_map_filter {A} (f : A -> bool) l :
    count_true (map f l) = Z.of_nat (length (filter f l)).
  Proof.
    induction l as [|x l IH]; [reflexivity|]. cbn [map count_true fold_right filter].
    fold (count_true (map f l)). destruct (f x); cbn [b2z length]; lia.
  Qed.

  Lemma pub_counts (data : list (list V)) (mvs : list W) j dv dw :
    n_over data mvs j dv dw
      = Z.of_nat (length (filter (fun c => over (nth j (nth c data []) dv) (chan_mv mvs c dw))
                                 (seq 0 (length data)))) /\
    n_slew data j dv
      = Z.of_nat (length (filter (fun c => slew (nth j (nth c data []) dv) (nth (S j) (nth c data []) dv))
                                 (seq 0 (length data)))).
  Proof. split; apply count_true_map_filter. Qed.

  Lemma pub_last_sample data mvs ns fl dv dw :
    data <> [] -> Forall (fun r => length r = ns) data -> (1 <= ns)%nat ->
    (length mvs = length data \/ length mvs = 1%nat) ->
    gt_pp pzero prop = false ->
    saturation_flags data mvs = Some fl ->
    nth (ns - 1) fl false = gt_pp (mean (n_over data mvs (ns - 1) dv dw) (Z.of_nat (length data))) prop.
  Proof.
    intros Hne Hrect Hns Hk Hz Hfl.
    destruct (pub_flags_spec data mvs ns Hne Hrect Hk) as [fl' [Hfl' [_ Hspec]]].
    rewrite Hfl in Hfl'. inversion Hfl'; subst fl'.
    rewrite (Hspec (ns - 1)%nat dv dw) by lia. unfold flag_rule.
    replace (S (ns - 1) <? ns)%nat with false by (symmetry; apply Nat.ltb_ge; lia).
    rewrite Hz. apply orb_false_r.
  Qed.
End FlagsProofs.

(* ------------------------------------------------------------------ *)
(* Part 2: mute, over an ordered commutative ring                      *)
(* ------------------------------------------------------------------ *)
Section MuteProofs.
  Variable R : Type.
  Variables (rO rI : R) (radd rmul rsub : R -> R -> R) (ropp : R -> R).
  Variable Rth : ring_theory rO rI radd rmul rsub ropp (@eq R).
  Variable rle : R -> R -> Prop.
  Variable rleb : R -> R -> bool.
  Variable rleb_ok : forall a b, rleb a b = true <-> rle a b.
  Variable le_refl : forall a, rle a a.
  Variable le_antisym : forall a b, rle a b -> rle b a -> a = b.
  Variable le_trans : forall a b c, rle a b -> rle b c -> rle a c.
  Variable le_total : forall a b, rle a b \/ rle b a.
  Variable le_add : forall a b c, rle a b -> rle (radd a c) (radd b c).
  Variable one : R.
  Set Default Proof Using "Rth rleb_ok le_refl le_antisym le_trans le_total le_add".

  Add Ring RingC16 : Rth.

  Notation b2r := (b2r R rO rI).
  Notation rmax0 := (rmax0 R rO rleb).
  Notation ladd := (ladd R radd).
  Notation conv_full := (conv_full R rO radd rmul).
  Notation conv_same := (conv_same R rO radd rmul).
  Notation mute_of := (mute_of R rO rI radd rmul rsub rleb one).
  Notation nonneg := (Forall (rle rO)).

  Lemma le_add2 a b c d : rle a b -> rle c d -> rle (radd a c) (radd b d).
  Proof.
    intros H1 H2. apply le_trans with (radd b c); [now apply le_add|].
    replace (radd b c) with (radd c b) by ring. replace (radd b d) with (radd d b) by ring.
    now apply le_add.
  Qed.

  Lemma add_nonneg a b : rle rO a -> rle rO b -> rle rO (radd a b).
  Proof. intros Ha Hb. replace rO with (radd rO rO) at 1 by ring. now apply le_add2. Qed.

  Lemma ladd_nth a b t : nth t (ladd a b) rO = radd (nth t a rO) (nth t b rO).
  Proof.
    revert b t. induction a as [|x a IH]; intros b t.
    - cbn [Model.ladd]. destruct t; cbn [nth]; ring.
    - destruct b as [|y b]; cbn [Model.ladd].
      + destruct t; cbn [nth]; ring.
      + destruct t as [|t]; cbn [nth]; [reflexivity|]. apply IH.
  Qed.

  Lemma ladd_length a b : length (ladd a b) = Nat.max (length a) (length b).
  Proof.
    revert b. induction a as [|x a IH]; intros b; [reflexivity|].
    destruct b as [|y b]; cbn [Model.ladd length]; [reflexivity|]. now rewrite IH.
  Qed.

  Lemma ladd_nonneg a b : nonneg a -> nonneg b -> nonneg (ladd a b).
  Proof.
    intros Ha. revert b. induction Ha as [|x a Hx Ha IH]; intros b Hb; [assumption|].
    destruct Hb as [|y b Hy Hb]; cbn [Model.ladd]; [now constructor|].
    constructor; [now apply add_nonneg|]. now apply IH.
  Qed.

  Lemma scale_nonneg f w : nonneg w -> nonneg (map (rmul (b2r f)) w).
  Proof.
    intros Hw. induction Hw as [|x w Hx Hw IH]; cbn [map]; constructor; [|assumption].
    destruct f; cbn [Model.b2r].
    - replace (rmul rI x) with x by ring. assumption.
    - replace (rmul rO x) with rO by ring. apply le_refl.
  Qed.

  Lemma conv_full_nonneg flags w : nonneg w -> nonneg (conv_full (map b2r flags) w).
  Proof.
    intros Hw. induction flags as [|f flags IH]; cbn [map Model.conv_full]; [constructor|].
    apply ladd_nonneg; [now apply scale_nonneg|]. constructor; [apply le_refl|assumption].
  Qed.

  Lemma nonneg_nth l t : nonneg l -> rle rO (nth t l rO).
  Proof.
    intros H. revert t. induction H as [|x l Hx Hl IH]; intros [|t]; cbn [nth]; auto.
  Qed.

  Lemma conv_full_length a w : a <> [] -> w <> [] ->
    length (conv_full a w) = (length a + length w - 1)%nat.
  Proof.
    intros Ha Hw. induction a as [|x a IH]; [congruence|].
    cbn [Model.conv_full]. rewrite ladd_length, map_length. cbn [length].
    destruct a as [|y a].
    - cbn [Model.conv_full length]. destruct w; [congruence|]. cbn [length]. lia.
    - rewrite IH by congruence. cbn [length]. destruct w; [congruence|]. cbn [length]. lia.
  Qed.

  Lemma conv_same_length a w : w <> [] -> length (conv_same a w) = length a.
  Proof.
    intros Hw. unfold Model.conv_same. destruct a as [|x a]; [reflexivity|].
    rewrite firstn_length, skipn_length, conv_full_length by congruence.
    assert (((length w - 1) / 2 <= length w - 1)%nat) by (apply Nat.div_le_upper_bound; lia).
    destruct w; [congruence|]. cbn [length] in *. lia.
  Qed.

  Lemma conv_same_nth a w i : (i < length a)%nat ->
    nth i (conv_same a w) rO = nth ((length w - 1) / 2 + i) (conv_full a w) rO.
  Proof.
    intros Hi. unfold Model.conv_same. rewrite nth_firstn_lt by assumption. apply nth_skipn_add.
  Qed.

  (* a flagged sample i contributes its tap k to the full output at i + k *)
  Lemma conv_full_lower flags w i k : nonneg w ->
    nth i flags false = true ->
    rle (nth k w rO) (nth (i + k) (conv_full (map b2r flags) w) rO).
  Proof.
    intros Hw. revert i. induction flags as [|f flags IH]; intros i Hi.
    - destruct i; discriminate.
    - cbn [map Model.conv_full]. rewrite ladd_nth.
      destruct i as [|i].
      + cbn [nth] in Hi. subst f. cbn [Model.b2r plus].
        assert (Hm : nth k (map (rmul rI) w) rO = nth k w rO).
        { replace rO with (rmul rI rO) at 1 by ring. rewrite map_nth. ring. }
        rewrite Hm. replace (nth k w rO) with (radd (nth k w rO) rO) at 1 by ring.
        apply le_add2; [apply le_refl|].
        apply nonneg_nth. constructor; [apply le_refl|]. now apply conv_full_nonneg.
      + cbn [nth] in Hi. cbn [plus nth].
        replace (nth k w rO) with (radd rO (nth k w rO)) by ring.
        apply le_add2; [|now apply IH].
        apply nonneg_nth. now apply scale_nonneg.
  Qed.

  (* no flagged sample under the window: the full output is exactly 0 *)
  Lemma conv_full_zero flags w t :
    (forall j, (j < length flags)%nat -> nth j flags false = true ->
               (t < j)%nat \/ (j + length w <= t)%nat) ->
    nth t (conv_full (map b2r flags) w) rO = rO.
  Proof.
    revert t. induction flags as [|f flags IH]; intros t H.
    - destruct t; reflexivity.
    - cbn [map Model.conv_full]. rewrite ladd_nth.
      assert (H0 : nth t (map (rmul (b2r f)) w) rO = rO).
      { destruct f.
        - destruct (H 0%nat) as [Hlt|Hge]; cbn [length nth]; try lia; try reflexivity.
          apply nth_overflow. rewrite map_length. lia.
        - cbn [Model.b2r]. replace rO with (rmul rO rO) at 2 by ring. rewrite map_nth. ring. }
      rewrite H0. destruct t as [|t]; cbn [nth]; [ring|].
      rewrite IH; [ring|].
      intros j Hj Hf. destruct (H (S j)) as [Hlt|Hge]; cbn [length nth]; try lia; assumption.
  Qed.

  Lemma rmax0_nonneg x : rle rO (rmax0 x).
  Proof.
    unfold Model.rmax0. destruct (rleb rO x) eqn:E; [now apply rleb_ok|apply le_refl].
  Qed.

  Lemma sub_le_of_nonneg c : rle rO c -> rle (rsub one c) one.
  Proof.
    intros Hc. replace (rsub one c) with (radd rO (rsub one c)) by ring.
    replace one with (radd c (rsub one c)) at 2 by ring. now apply le_add.
  Qed.

  (* mute_range *)
  Lemma pub_mute_range flags w : rle rO one -> nonneg w ->
    Forall (fun m => rle rO m /\ rle m one) (mute_of flags w).
  Proof.
    intros H1 Hw. unfold Model.mute_of. apply Forall_forall. intros m Hm.
    apply in_map_iff in Hm. destruct Hm as [c [<- Hc]].
    split; [apply rmax0_nonneg|].
    assert (Hc0 : rle rO c).
    { unfold Model.conv_same in Hc. apply In_firstn, In_skipn in Hc.
      pose proof (conv_full_nonneg flags w Hw) as Hn. rewrite Forall_forall in Hn. now apply Hn. }
    unfold Model.rmax0. destruct (rleb rO (rsub one c)); [now apply sub_le_of_nonneg|assumption].
  Qed.

  Lemma mute_length flags w : w <> [] -> length (mute_of flags w) = length flags.
  Proof. intros Hw. unfold Model.mute_of. now rewrite map_length, conv_same_length, map_length. Qed.

  Lemma mute_nth flags w i : w <> [] -> (i < length flags)%nat ->
    nth i (mute_of flags w) rO
    = rmax0 (rsub one (nth ((length w - 1) / 2 + i) (conv_full (map b2r flags) w) rO)).
  Proof.
    intros Hw Hi. unfold Model.mute_of.
    rewrite (nth_indep _ rO ((fun c => rmax0 (rsub one c)) rO))
      by (now rewrite map_length, conv_same_length, map_length).
    rewrite (map_nth (fun c => rmax0 (rsub one c))). rewrite conv_same_nth by (now rewrite map_length).
    reflexivity.
  Qed.

  (* mute_zero_on_flags: odd window 2h+1 whose centre tap is `one` *)
  Lemma pub_mute_zero flags w h i : nonneg w -> length w = (2 * h + 1)%nat -> nth h w rO = one ->
    (i < length flags)%nat -> nth i flags false = true ->
    nth i (mute_of flags w) rO = rO.
  Proof.
    intros Hw HM Hc Hi Hf.
    assert (Hne : w <> []) by (destruct w; [cbn [length] in HM; lia|congruence]).
    rewrite mute_nth by assumption.
    replace ((length w - 1) / 2)%nat with h.
    2:{ rewrite HM. replace (2 * h + 1 - 1)%nat with (h * 2)%nat by lia. now rewrite Nat.div_mul. }
    pose proof (conv_full_lower flags w i h Hw Hf) as Hlow. rewrite Hc in Hlow.
    rewrite (Nat.add_comm h i).
    set (c := nth (i + h) (conv_full (map b2r flags) w) rO) in *.
    assert (Hle : rle (rsub one c) rO).
    { replace (rsub one c) with (radd one (ropp c)) by ring.
      replace rO with (radd c (ropp c)) by ring. now apply le_add. }
    unfold Model.rmax0. destruct (rleb rO (rsub one c)) eqn:E; [|reflexivity].
    apply rleb_ok in E. now apply le_antisym.
  Qed.

  (* mute_one_far, exact support of the window: sample i is reached by the
     flagged samples j with  i - M/2 <= j <= i + (M-1)/2  only *)
  Lemma pub_mute_one_support flags w i : rle rO one -> w <> [] -> (i < length flags)%nat ->
    (forall j, (j < length flags)%nat -> nth j flags false = true ->
               (i + (length w - 1) / 2 < j)%nat \/ (j + length w / 2 < i)%nat) ->
    nth i (mute_of flags w) rO = one.
  Proof.
    intros H1 Hne Hi Hfar. rewrite mute_nth by assumption.
    rewrite conv_full_zero.
    - replace (rsub one rO) with one by ring. unfold Model.rmax0.
      destruct (rleb rO one) eqn:E; [reflexivity|].
      apply rleb_ok in H1. congruence.
    - intros j Hj Hf. destruct (Hfar j Hj Hf) as [H|H]; [left; lia|right].
      assert (length w > 0)%nat by (destruct w; [congruence|cbn [length]; lia]).
      pose proof (Nat.div_mod (length w - 1) 2 ltac:(lia)) as D1.
      pose proof (Nat.div_mod (length w) 2 ltac:(lia)) as D2.
      pose proof (Nat.mod_upper_bound (length w - 1) 2 ltac:(lia)).
      pose proof (Nat.mod_upper_bound (length w) 2 ltac:(lia)).
      lia.
  Qed.

  (* mute_one_far: farther than half the window length M/2 from every flagged sample *)
  Lemma pub_mute_one_far flags w i : rle rO one -> w <> [] -> (i < length flags)%nat ->
    (forall j, (j < length flags)%nat -> nth j flags false = true ->
               (Z.of_nat (length w) < 2 * Z.abs (Z.of_nat i - Z.of_nat j))%Z) ->
    nth i (mute_of flags w) rO = one.
  Proof.
    intros H1 Hne Hi Hfar. apply pub_mute_one_support; try assumption.
    intros j Hj Hf. specialize (Hfar j Hj Hf).
    pose proof (Nat.div_mod (length w - 1) 2 ltac:(lia)) as D1.
    pose proof (Nat.div_mod (length w) 2 ltac:(lia)) as D2.
    pose proof (Nat.mod_upper_bound (length w - 1) 2 ltac:(lia)).
    pose proof (Nat.mod_upper_bound (length w) 2 ltac:(lia)).
    lia.
  Qed.
End MuteProofs.

(* ------------------------------------------------------------------ *)
(* the hypotheses of Part 2 bundled; Z is an instance                  *)
(* ------------------------------------------------------------------ *)
Unset Default Proof Using.
Definition ordered_ring {R : Type} (rO rI : R) (radd rmul rsub : R -> R -> R) (ropp : R -> R)
    (rle : R -> R -> Prop) (rleb : R -> R -> bool) : Prop :=
  ring_theory rO rI radd rmul rsub ropp (@eq R) /\
  (forall a b, rleb a b = true <-> rle a b) /\
  (forall a, rle a a) /\
  (forall a b, rle a b -> rle b a -> a = b) /\
  (forall a b c, rle a b -> rle b c -> rle a c) /\
  (forall a b, rle a b \/ rle b a) /\
  (forall a b c, rle a b -> rle (radd a c) (radd b c)).

Lemma Z_ordered_ring : ordered_ring 0 1 Z.add Z.mul Z.sub Z.opp Z.le Z.leb.
Proof.
  repeat split; intros; try lia; try (apply Z.leb_le; assumption); try ring.
Qed.

Section Bundled.
  Variable R : Type.
  Variables (rO rI : R) (radd rmul rsub : R -> R -> R) (ropp : R -> R).
  Variable rle : R -> R -> Prop.
  Variable rleb : R -> R -> bool.
  Variable OR : ordered_ring rO rI radd rmul rsub ropp rle rleb.
  Variable one : R.
  Notation mute_of := (mute_of R rO rI radd rmul rsub rleb one).

  Lemma b_mute_length flags w : w <> [] -> length (mute_of flags w) = length flags.
  Proof. destruct OR as (H1 & H2 & H3 & H4 & H5 & H6 & H7). now apply (mute_length R rO rI radd rmul rsub ropp H1 rle). Qed.

  Lemma b_mute_range flags w : rle rO one -> Forall (rle rO) w ->
    Forall (fun m => rle rO m /\ rle m one) (mute_of flags w).
  Proof. destruct OR as (H1 & H2 & H3 & H4 & H5 & H6 & H7). now apply (pub_mute_range R rO rI radd rmul rsub ropp H1 rle). Qed.

  Lemma b_mute_zero flags w h i : Forall (rle rO) w -> length w = (2 * h + 1)%nat -> nth h w rO = one ->
    (i < length flags)%nat -> nth i flags false = true -> nth i (mute_of flags w) rO = rO.
  Proof. destruct OR as (H1 & H2 & H3 & H4 & H5 & H6 & H7). now apply (pub_mute_zero R rO rI radd rmul rsub ropp H1 rle). Qed.

  Lemma b_mute_one_far flags w i : rle rO one -> w <> [] -> (i < length flags)%nat ->
    (forall j, (j < length flags)%nat -> nth j flags false = true ->
               (Z.of_nat (length w) < 2 * Z.abs (Z.of_nat i - Z.of_nat j))%Z) ->
    nth i (mute_of flags w) rO = one.
  Proof. destruct OR as (H1 & H2 & H3 & H4 & H5 & H6 & H7). now apply (pub_mute_one_far R rO rI radd rmul rsub ropp H1 rle). Qed.

  Lemma b_mute_one_support flags w i : rle rO one -> w <> [] -> (i < length flags)%nat ->
    (forall j, (j < length flags)%nat -> nth j flags false = true ->
               (i + (length w - 1) / 2 < j)%nat \/ (j + length w / 2 < i)%nat) ->
    nth i (mute_of flags w) rO = one.
  Proof. destruct OR as (H1 & H2 & H3 & H4 & H5 & H6 & H7). now apply (pub_mute_one_support R rO rI radd rmul rsub ropp H1 rle). Qed.
End Bundled.


(* ------------------------------------------------------------------ *)
(* the whole function: the mute is computed from the flags             *)
(* ------------------------------------------------------------------ *)
Section Whole.
  Variables V W P R : Type.
  Variable vabs : V -> V.
  Variable thr98 : W -> W.
  Variable gt_vw : V -> W -> bool.
  Variable vsub : V -> V -> V.
  Variable vdivfs : V -> V.
  Variable ge_vv : V -> V -> bool.
  Variable vps : V.
  Variable mean : Z -> Z -> P.
  Variable gt_pp : P -> P -> bool.
  Variables prop pzero : P.
  Variables (rO rI : R) (radd rmul rsub : R -> R -> R) (rleb : R -> R -> bool) (one : R).

  Definition sat_model :=
    saturation_model vabs thr98 gt_vw vsub vdivfs ge_vv vps mean gt_pp prop pzero rO rI radd rmul rsub rleb one.

  Lemma pub_flags_only (d1 d2 : list (list V)) (m1 m2 : list W) (win : list R) f1 f2 u1 u2 :
    sat_model d1 m1 win = Some (f1, u1) ->
    sat_model d2 m2 win = Some (f2, u2) ->
    f1 = f2 -> u1 = u2.
  Proof.
    unfold sat_model, saturation_model. intros H1 H2 Hf.
    destruct (saturation_flags _ _ _ _ _ _ _ _ _ _ _ _ _ _ d1 m1) as [g1|]; [|discriminate].
    destruct (saturation_flags _ _ _ _ _ _ _ _ _ _ _ _ _ _ d2 m2) as [g2|]; [|discriminate].
    inversion H1; inversion H2; subst. reflexivity.
  Qed.
End Whole.

(* ------------------------------------------------------------------ *)
(* F-C16-a: witness for an even window (closed evaluations only)       *)
(* ------------------------------------------------------------------ *)
(* scipy.signal.windows.cosine(6) as integers * 2^56 *)
Definition cosine6_fixed : list Z :=
  [18649877681281600; 50952413380206176; 69602291061487776;
   69602291061487784; 50952413380206184; 18649877681281620].
Definition isolated9 : list bool := [false; false; false; false; true; false; false; false; false].

Lemma even_window_witness :
  Nat.even (length cosine6_fixed) = true /\
  forallb (fun t => (0 <=? t) && (t <? 2 ^ 56)) cosine6_fixed = true /\
  nth 4 isolated9 false = true /\
  nth 4 (mute_fixed 56 isolated9 cosine6_fixed) 0 = 2455302976440160.
Proof. repeat split; vm_compute; reflexivity. Qed.

Lemma pub_even_window_refuted :
  exists (w : list Z) (flags : list bool) (i : nat),
    Nat.even (length w) = true /\ forallb (fun t => (0 <=? t) && (t <? 2 ^ 56)) w = true /\
    nth i flags false = true /\ (i < length flags)%nat /\
    nth i (mute_fixed 56 flags w) 0 = 2455302976440160 /\
    nth i (mute_fixed 56 flags w) 0 <> 0.
Proof.
  exists cosine6_fixed, isolated9, 4%nat.
  destruct even_window_witness as (H1 & H2 & H3 & H4).
  repeat split; try assumption.
  - unfold isolated9. cbn [length]. lia.
  - rewrite H4. discriminate.
Qed.
