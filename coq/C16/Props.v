(* C16 — property theorems for ibldsp.voltage.saturation.  This file contains only
   statements closed by `exact <lemma>` (or a 1-3 line wrapper) and the Print
   Assumptions that the check collects.

   Arrays are [nc, ns] = list (one entry per channel) of lists (ns samples).
   Part 1 theorems hold for EVERY choice of the arithmetic (types V, W, P and the
   operations np.abs, *0.98, -, /fs, count/nc and the three comparisons), hence for
   exact real arithmetic and for the IEEE instances of Model.v alike; the
   comparisons appear exactly as the source has them: `>` (gt_vw) for the voltage,
   `>=` (ge_vv) for the slew, `>` (gt_pp) for the proportion.
   Part 2 theorems hold over every ordered commutative ring (Proofs.ordered_ring),
   with the window taps as data. *)
From Coq Require Import String ZArith List Bool Lia Ring Field Reals.
From Flocq Require Import Core BinarySingleNaN.
Require IBL.C09.Model IBL.C09.Proofs.
Import IBL.C09.Model IBL.C09.Proofs.
From IBL.C16 Require Import Model Proofs Sweep SweepP Range RangeProofs Ulp Compare.
Import ListNotations.
Open Scope Z_scope.

(* ---- Part 1: the flags -------------------------------------------------- *)

(* flags_spec.  For every non-empty rectangular [nc, ns] array and a full-scale
   voltage given per channel or as one scalar, the source returns ns flags and
   flag j is
        ( #{c : |x[c][j]| > maxv[c]*0.98} / nc > proportion )
     || ( j+1 < ns  ?  #{c : |x[c][j+1] - x[c][j]| / fs >= v_per_sec} / nc > proportion
                    :  0 > proportion )
   (Proofs.flag_rule, n_over, n_slew spell this out; the counts are numbers of
   channel indices c < nc).  The last sample therefore sees the voltage rule and
   the constant 0 only. *)
Theorem C16_flags_spec :
  forall (V W P : Type) (vabs : V -> V) (thr98 : W -> W) (gt_vw : V -> W -> bool)
    (vsub : V -> V -> V) (vdivfs : V -> V) (ge_vv : V -> V -> bool) (vps : V)
    (mean : Z -> Z -> P) (gt_pp : P -> P -> bool) (prop pzero : P)
    (data : list (list V)) (mvs : list W) (ns : nat),
  data <> [] -> Forall (fun r => length r = ns) data ->
  (length mvs = length data \/ length mvs = 1%nat) ->
  exists fl,
    saturation_flags V W P vabs thr98 gt_vw vsub vdivfs ge_vv vps mean gt_pp prop pzero data mvs = Some fl /\
    length fl = ns /\
    forall j dv dw, (j < ns)%nat ->
      nth j fl false =
      (gt_pp (mean (n_over V W vabs thr98 gt_vw data mvs j dv dw) (Z.of_nat (length data))) prop
       || (if (S j <? ns)%nat
           then gt_pp (mean (n_slew V vabs vsub vdivfs ge_vv vps data j dv) (Z.of_nat (length data))) prop
           else gt_pp pzero prop)).
Proof. exact pub_flags_spec. Qed.
Print Assumptions C16_flags_spec.

(* the counts are numbers of channels: between 0 and nc, and they are what a
   filter over the channel indices counts *)
Theorem C16_counts_are_channel_counts :
  forall (V W : Type) (vabs : V -> V) (thr98 : W -> W) (gt_vw : V -> W -> bool)
    (vsub : V -> V -> V) (vdivfs : V -> V) (ge_vv : V -> V -> bool) (vps : V)
    (data : list (list V)) (mvs : list W) j dv dw,
  n_over V W vabs thr98 gt_vw data mvs j dv dw
    = Z.of_nat (length (filter (fun c => over V W vabs thr98 gt_vw (nth j (nth c data []) dv) (chan_mv W mvs c dw))
                               (seq 0 (length data)))) /\
  n_slew V vabs vsub vdivfs ge_vv vps data j dv
    = Z.of_nat (length (filter (fun c => slew V vabs vsub vdivfs ge_vv vps (nth j (nth c data []) dv)
                                              (nth (S j) (nth c data []) dv))
                               (seq 0 (length data)))).
Proof. exact pub_counts. Qed.
Print Assumptions C16_counts_are_channel_counts.

(* last sample: voltage rule only, as soon as `0 > proportion` is false *)
Theorem C16_last_sample_voltage_only :
  forall (V W P : Type) (vabs : V -> V) (thr98 : W -> W) (gt_vw : V -> W -> bool)
    (vsub : V -> V -> V) (vdivfs : V -> V) (ge_vv : V -> V -> bool) (vps : V)
    (mean : Z -> Z -> P) (gt_pp : P -> P -> bool) (prop pzero : P)
    (data : list (list V)) (mvs : list W) (ns : nat) fl dv dw,
  data <> [] -> Forall (fun r => length r = ns) data -> (1 <= ns)%nat ->
  (length mvs = length data \/ length mvs = 1%nat) ->
  gt_pp pzero prop = false ->
  saturation_flags V W P vabs thr98 gt_vw vsub vdivfs ge_vv vps mean gt_pp prop pzero data mvs = Some fl ->
  nth (ns - 1) fl false =
    gt_pp (mean (n_over V W vabs thr98 gt_vw data mvs (ns - 1) dv dw) (Z.of_nat (length data))) prop.
Proof. exact pub_last_sample. Qed.
Print Assumptions C16_last_sample_voltage_only.

(* a max_voltage whose length is neither 1 nor nc is rejected (NumPy broadcast
   error) unless the data have a single channel *)
Theorem C16_bad_range_length_rejected :
  forall (V W P : Type) (vabs : V -> V) (thr98 : W -> W) (gt_vw : V -> W -> bool)
    (vsub : V -> V -> V) (vdivfs : V -> V) (ge_vv : V -> V -> bool) (vps : V)
    (mean : Z -> Z -> P) (gt_pp : P -> P -> bool) (prop pzero : P)
    (data : list (list V)) (mvs : list W),
  length mvs <> length data -> length mvs <> 1%nat -> length data <> 1%nat ->
  saturation_flags V W P vabs thr98 gt_vw vsub vdivfs ge_vv vps mean gt_pp prop pzero data mvs = None.
Proof. exact pub_flags_reject. Qed.
Print Assumptions C16_bad_range_length_rejected.

(* IEEE instance (Flocq binary64), default proportion: for every channel count 1..400
   and EVERY count c, the float64 test  c/nc > 0.2  of the source decides exactly
   "more than one fifth of the channels" (exhaustive evaluation of the counts within
   five channels of nc/5, monotonicity of round-to-nearest for the others). *)
Theorem C16_default_proportion_exact_upto_400 :
  forall nc c, 1 <= nc <= 400 -> 0 <= c <= nc ->
  i_gt_pp (i_mean c nc) p02 = (nc <? 5 * c).
Proof. exact pub_default_prop_full. Qed.
Print Assumptions C16_default_proportion_exact_upto_400.

(* IEEE instance, ANY finite float64 proportion p, any 0 <= c <= n < 2^53: the
   source's test  fl(c/n) > p  (i) never fires unless the exact fraction exceeds p,
   (ii) fires as soon as some float64 q lies in (p, c/n] — it can only miss when the
   exact fraction is within one float above p (e.g. p = fl(1/3), 1 channel of 3) —
   and (iii) is exactly  round-to-nearest-even(c/n) > p. *)
Theorem C16_proportion_test_last_ulp :
  forall c n (p : b64), 0 <= c <= n -> 1 <= n < 2 ^ 53 -> is_finite p = true ->
  (i_gt_pp (i_mean c n) p = true -> (IZR c / IZR n > B2R p)%R) /\
  (forall q : b64, is_finite q = true -> (B2R p < B2R q)%R -> (B2R q <= IZR c / IZR n)%R ->
     i_gt_pp (i_mean c n) p = true) /\
  (i_gt_pp (i_mean c n) p = true <-> (rnd64 (IZR c / IZR n) > B2R p)%R).
Proof. exact pub_proportion_last_ulp. Qed.
Print Assumptions C16_proportion_test_last_ulp.

(* IEEE instances (binary32 / binary64 operands in any combination, finite values):
   the source's `np.abs(data) > max_voltage * 0.98` is the STRICT comparison of the two
   stored values as real numbers (operands of different dtypes are widened exactly),
   and `... / fs >= v_per_sec` the NON-strict one. *)
Theorem C16_voltage_comparison_is_strict_real :
  forall p1 e1 p2 e2 (H1 : Prec_gt_0 p1) (H1' : Prec_lt_emax p1 e1)
         (H2 : Prec_gt_0 p2) (H2' : Prec_lt_emax p2 e2)
         (a : binary_float p1 e1) (b : binary_float p2 e2),
  fmt_ok p1 e1 -> fmt_ok p2 e2 -> is_finite a = true -> is_finite b = true ->
  (i_gt_vw p1 e1 p2 e2 a b = true <-> (B2R a > B2R b)%R).
Proof. exact pub_gt_vw_real. Qed.
Print Assumptions C16_voltage_comparison_is_strict_real.

Theorem C16_slew_comparison_is_nonstrict_real :
  forall p e (H1 : Prec_gt_0 p) (H1' : Prec_lt_emax p e) (a b : binary_float p e),
  fmt_ok p e -> is_finite a = true -> is_finite b = true ->
  (i_ge_vv p e a b = true <-> (B2R a >= B2R b)%R).
Proof. exact pub_ge_vv_real. Qed.
Print Assumptions C16_slew_comparison_is_nonstrict_real.

(* Two-decimal proportions p = 0.01 .. 0.99 (the float64 literal fl(j/100)) at every channel
   count nc <= 400 for which p * nc is a whole number (1680 pairs): for EVERY count k the
   source's mean-form test  fl(k/nc) > p  equals the exact rational comparison  k/nc > j/100 ;
   in particular a sample with EXACTLY the proportion of offending channels is not flagged. *)
Theorem C16_two_decimal_proportions_exact_at_whole_boundaries :
  forall j nc k, 1 <= j <= 99 -> 1 <= nc <= 400 -> (j * nc) mod 100 = 0 -> 0 <= k <= nc ->
  mean_form k nc (pj j) = (j * nc <? 100 * k).
Proof. exact pub_two_decimal_boundary. Qed.
Print Assumptions C16_two_decimal_proportions_exact_at_whole_boundaries.

(* The rewrite  np.sum(mask) > proportion * nc  (count form) is NOT equivalent: among those
   1680 pairs it decides differently from the mean form at k = p*nc on exactly these 25
   (fl(p * nc) falls just below the integer, e.g. 0.29 * 100 = 28.999999999999996), and on
   each of them it flags a sample with exactly the proportion of channels. *)
Theorem C16_count_form_differs_on_25_pairs :
  pairs_eqb (filter disagree boundary_pairs) disagreeing_pairs = true /\
  length disagreeing_pairs = 25%nat /\
  forallb (fun q => let '(j, nc) := q in
                    count_form (j * nc / 100) nc (pj j) && negb (mean_form (j * nc / 100) nc (pj j)))
          disagreeing_pairs = true.
Proof. split; [exact disagree_sweep|split; [reflexivity|exact disagree_direction]]. Qed.
Print Assumptions C16_count_form_differs_on_25_pairs.

(* Unknown full scale.  Reader.range_volts of a recording opened WITHOUT metadata is
   sample2volts * nan; with a NaN range the amplitude test of that channel is false for
   every sample (so with all ranges NaN n_over = 0 and only the slew clause of
   C16_flags_spec can flag), and a NaN sample never passes the amplitude test. *)
Theorem C16_unknown_range_disables_amplitude_test :
  forall pd ed pm em (Hpm : Prec_gt_0 pm) (Hem : Prec_lt_emax pm em) (x : binary_float pd ed)
         (mv : binary_float pm em),
  over _ _ (i_vabs pd ed) (i_thr98 pm em Hpm Hem) (i_gt_vw pd ed pm em) x B754_nan = false /\
  over _ _ (i_vabs pd ed) (i_thr98 pm em Hpm Hem) (i_gt_vw pd ed pm em) B754_nan mv = false.
Proof. intros. split; [apply pub_nan_range_never_over|apply pub_nan_sample_never_over]. Qed.
Print Assumptions C16_unknown_range_disables_amplitude_test.

(* ---- Part 1b: the full-scale voltage handed over by the reader ------------------ *)
(* decompress_destripe_cbin calls saturation(max_voltage = Reader.range_volts[:nc - nsync]).
   The metadata layer is C09's model; the hypotheses below are verbatim those of
   C09_s2v_np1 / C09_s2v_np2 plus the stream type.  entry_value r mi mi (CG g) denotes
   (r / mi / g) * mi in the arithmetic W. *)

(* Neuropixels 1.0 / Ultra, AP (LF) stream: max_voltage has one entry per voltage
   channel, entry c built from the AP (LF) gain of IMRO entry c — each channel its own. *)
Theorem C16_max_voltage_from_reader_np1 :
  forall (W : Type) (of_dec : dec -> W) (of_int : Z -> W) (wdiv wmul : W -> W -> W) (wone : W)
    d rng mi v h es x y sy ntr st nsy strm,
  int2volt d = Some (rng, mi) ->
  lookup (lit "imroTbl") d = Some (VStr (imro_text h es)) ->
  lookup (lit "snsApLfSy") d = Some x -> py_index x (-1) = Some y -> py_int y = Some sy -> 0 <= sy ->
  nchannels d = Some ntr -> sync_indices d = Some (st, nsy) ->
  version d = Some v -> is_np2 v = false ->
  Forall (fun e => 0 <= ap_gain e) es -> Forall (fun e => 0 <= lf_gain e) es ->
  0 <= ntr - nsy -> (Z.to_nat (ntr - nsy) <= length es)%nat ->
  get_type d = Some (Some strm) -> strm <> SNidq ->
  let gain := match strm with SLf => lf_gain | _ => ap_gain end in
  let n := Z.to_nat (ntr - nsy) in
  let mvs := map (fun e => entry_value W of_dec of_int wdiv wmul wone rng mi mi (CG (gain e, O))) (firstn n es) in
  max_voltage_of W of_dec of_int wdiv wmul wone d = Some mvs /\
  length mvs = n /\
  forall c e0 dw, (c < n)%nat ->
    chan_mv W mvs c dw = entry_value W of_dec of_int wdiv wmul wone rng mi mi (CG (gain (nth c es e0), O)).
Proof.
  intros W of_dec of_int wdiv wmul wone d rng mi v h es x y sy ntr st nsy strm
         Hi Ht Hx Hy Hs Hs0 Hn Hsy Hv Hnp Hap Hlf H0 Hle Hty Hnn gain n mvs.
  split; [exact (pub_max_voltage_np1 W of_dec of_int wdiv wmul wone d rng mi v h es x y sy ntr st nsy strm
                   Hi Ht Hx Hy Hs Hs0 Hn Hsy Hv Hnp Hap Hlf H0 Hle Hty Hnn)|].
  split; [unfold mvs; rewrite map_length, firstn_length; unfold n; lia|].
  intros c e0 dw Hc. unfold mvs.
  exact (chan_mv_map_firstn
           (fun e => entry_value W of_dec of_int wdiv wmul wone rng mi mi (CG (gain e, O))) es n c e0 dw Hle Hc).
Qed.
Print Assumptions C16_max_voltage_from_reader_np1.

(* Neuropixels 2.0: every voltage channel gets the fixed gain 80 *)
Theorem C16_max_voltage_from_reader_np2 :
  forall (W : Type) (of_dec : dec -> W) (of_int : Z -> W) (wdiv wmul : W -> W -> W) (wone : W)
    d rng mi v tbl x y sy ntr st nsy strm,
  int2volt d = Some (rng, mi) ->
  lookup (lit "imroTbl") d = Some tbl ->
  lookup (lit "snsApLfSy") d = Some x -> py_index x (-1) = Some y -> py_int y = Some sy -> 0 <= sy ->
  nchannels d = Some ntr -> sync_indices d = Some (st, nsy) ->
  version d = Some v -> is_np2 v = true -> 0 <= ntr - nsy ->
  get_type d = Some (Some strm) -> strm <> SNidq ->
  max_voltage_of W of_dec of_int wdiv wmul wone d
    = Some (repeat (entry_value W of_dec of_int wdiv wmul wone rng mi mi (CG (80, O))) (Z.to_nat (ntr - nsy))).
Proof. exact pub_max_voltage_np2. Qed.
Print Assumptions C16_max_voltage_from_reader_np2.

(* in exact arithmetic (any field) the entry is imAiRangeMax / gain: with
   C16_flags_spec the threshold of channel c is thr98 (imAiRangeMax / gain_c), i.e.
   0.98 x imAiRangeMax / gain_c *)
Theorem C16_full_scale_is_range_over_gain :
  forall (F : Type) (f0 f1 : F) (fadd fmul fsub : F -> F -> F) (fopp : F -> F)
    (fdiv : F -> F -> F) (finv : F -> F),
  field_theory f0 f1 fadd fmul fsub fopp fdiv finv (@eq F) ->
  forall (of_dec : dec -> F) (of_int : Z -> F) r mi g,
  of_int mi <> f0 -> of_dec g <> f0 ->
  entry_value F of_dec of_int fdiv fmul f1 r mi mi (CG g) = fdiv (of_dec r) (of_dec g).
Proof. exact pub_full_scale_range_over_gain. Qed.
Print Assumptions C16_full_scale_is_range_over_gain.

(* ---- Part 2: the mute ---------------------------------------------------- *)

(* the mute has one value per sample *)
Theorem C16_mute_length :
  forall (R : Type) (rO rI : R) (radd rmul rsub : R -> R -> R) (ropp : R -> R)
    (rle : R -> R -> Prop) (rleb : R -> R -> bool),
  ordered_ring rO rI radd rmul rsub ropp rle rleb ->
  forall (one : R) (flags : list bool) (w : list R), w <> [] ->
  length (mute_of R rO rI radd rmul rsub rleb one flags w) = length flags.
Proof. exact b_mute_length. Qed.
Print Assumptions C16_mute_length.

(* mute_range: for non-negative taps, 0 <= mute <= 1 at every sample *)
Theorem C16_mute_range :
  forall (R : Type) (rO rI : R) (radd rmul rsub : R -> R -> R) (ropp : R -> R)
    (rle : R -> R -> Prop) (rleb : R -> R -> bool),
  ordered_ring rO rI radd rmul rsub ropp rle rleb ->
  forall (one : R) (flags : list bool) (w : list R),
  rle rO one -> Forall (rle rO) w ->
  Forall (fun m => rle rO m /\ rle m one) (mute_of R rO rI radd rmul rsub rleb one flags w).
Proof. exact b_mute_range. Qed.
Print Assumptions C16_mute_range.

(* mute_zero_on_flags: odd window (M = 2h+1) with centre tap 1 and non-negative
   taps: the mute is exactly 0 on every flagged sample *)
Theorem C16_mute_zero_on_flags :
  forall (R : Type) (rO rI : R) (radd rmul rsub : R -> R -> R) (ropp : R -> R)
    (rle : R -> R -> Prop) (rleb : R -> R -> bool),
  ordered_ring rO rI radd rmul rsub ropp rle rleb ->
  forall (one : R) (flags : list bool) (w : list R) (h i : nat),
  Forall (rle rO) w -> length w = (2 * h + 1)%nat -> nth h w rO = one ->
  (i < length flags)%nat -> nth i flags false = true ->
  nth i (mute_of R rO rI radd rmul rsub rleb one flags w) rO = rO.
Proof. exact b_mute_zero. Qed.
Print Assumptions C16_mute_zero_on_flags.

(* mute_one_far: any window (no hypothesis on the taps), sample i farther than
   half the window length from every flagged sample (2|i-j| > M; for odd M this
   is |i-j| > (M-1)/2): the mute is exactly 1 *)
Theorem C16_mute_one_far :
  forall (R : Type) (rO rI : R) (radd rmul rsub : R -> R -> R) (ropp : R -> R)
    (rle : R -> R -> Prop) (rleb : R -> R -> bool),
  ordered_ring rO rI radd rmul rsub ropp rle rleb ->
  forall (one : R) (flags : list bool) (w : list R) (i : nat),
  rle rO one -> w <> [] -> (i < length flags)%nat ->
  (forall j, (j < length flags)%nat -> nth j flags false = true ->
             Z.of_nat (length w) < 2 * Z.abs (Z.of_nat i - Z.of_nat j)) ->
  nth i (mute_of R rO rI radd rmul rsub rleb one flags w) rO = one.
Proof. exact b_mute_one_far. Qed.
Print Assumptions C16_mute_one_far.

(* the exact reach of a flagged sample j: samples j - (M-1)/2 .. j + M/2 (integer
   halves); outside it the mute is 1.  For even M the reach is not symmetric. *)
Theorem C16_mute_one_outside_support :
  forall (R : Type) (rO rI : R) (radd rmul rsub : R -> R -> R) (ropp : R -> R)
    (rle : R -> R -> Prop) (rleb : R -> R -> bool),
  ordered_ring rO rI radd rmul rsub ropp rle rleb ->
  forall (one : R) (flags : list bool) (w : list R) (i : nat),
  rle rO one -> w <> [] -> (i < length flags)%nat ->
  (forall j, (j < length flags)%nat -> nth j flags false = true ->
             (i + (length w - 1) / 2 < j)%nat \/ (j + length w / 2 < i)%nat) ->
  nth i (mute_of R rO rI radd rmul rsub rleb one flags w) rO = one.
Proof. exact b_mute_one_support. Qed.
Print Assumptions C16_mute_one_outside_support.

(* mute_depends_on_flags_only: two calls (any data, any ranges, any arithmetic)
   that produce the same flags produce the same mute *)
Theorem C16_mute_depends_on_flags_only :
  forall (V W P R : Type) (vabs : V -> V) (thr98 : W -> W) (gt_vw : V -> W -> bool) (vsub : V -> V -> V)
    (vdivfs : V -> V) (ge_vv : V -> V -> bool) (vps : V) (mean : Z -> Z -> P) (gt_pp : P -> P -> bool)
    (prop pzero : P) (rO rI : R) (radd rmul rsub : R -> R -> R) (rleb : R -> R -> bool) (one : R)
    (d1 d2 : list (list V)) (m1 m2 : list W) (win : list R) f1 f2 u1 u2,
  saturation_model vabs thr98 gt_vw vsub vdivfs ge_vv vps mean gt_pp prop pzero rO rI radd rmul rsub rleb one d1 m1 win = Some (f1, u1) ->
  saturation_model vabs thr98 gt_vw vsub vdivfs ge_vv vps mean gt_pp prop pzero rO rI radd rmul rsub rleb one d2 m2 win = Some (f2, u2) ->
  f1 = f2 -> u1 = u2.
Proof. exact pub_flags_only. Qed.
Print Assumptions C16_mute_depends_on_flags_only.

(* Known finding F-C16-a.  The clause "the mute is 0 on every flagged sample" is
   FALSE for even windows: with the six float64 taps of
   scipy.signal.windows.cosine(6) (Proofs.cosine6_fixed: integers * 2^56, all in
   [0, 2^56), none equal to 2^56 = one), an isolated flagged sample keeps the gain
   2455302976440160 / 2^56 = 0.0340741737109318. *)
Theorem C16_mute_even_window_refuted :
  exists (w : list Z) (flags : list bool) (i : nat),
    Nat.even (length w) = true /\ forallb (fun t => (0 <=? t) && (t <? 2 ^ 56)) w = true /\
    nth i flags false = true /\ (i < length flags)%nat /\
    nth i (mute_fixed 56 flags w) 0 = 2455302976440160 /\
    nth i (mute_fixed 56 flags w) 0 <> 0.
Proof. exact pub_even_window_refuted. Qed.
Print Assumptions C16_mute_even_window_refuted.

(* ---- non-vacuity / worked instances -------------------------------------- *)

(* Z with <= is an ordered ring: the hypotheses of Part 2 are satisfiable, and the
   fixed-point instance the check runs is covered by the theorems. *)
Example C16_Z_is_ordered_ring : ordered_ring 0 1 Z.add Z.mul Z.sub Z.opp Z.le Z.leb.
Proof. exact Z_ordered_ring. Qed.

(* the default window (7 taps of scipy.signal.windows.cosine(7) * 2^56): centre tap
   = one, an isolated flag and a run touching the end *)
Definition cosine7_fixed : list Z :=
  [16034323123964676; 44927175029124744; 64921648924124040; 72057594037927936;
   64921648924124040; 44927175029124752; 16034323123964684].

Example C16_example_mute_default_window :
  mute_fixed 56 [false; false; false; false; true; false; false; false; false; false; true; true] cosine7_fixed
  = [72057594037927936; 56023270913963260; 27130419008803192; 7135945113803896; 0;
     7135945113803896; 27130419008803184; 39988947789998576; 11096095884838516; 0; 0; 0].
Proof. vm_compute. reflexivity. Qed.
Example C16_example_default_window_centre_tap :
  (nth 3 cosine7_fixed 0 =? 2 ^ 56) && (length cosine7_fixed =? 2 * 3 + 1)%nat
  && forallb (fun t => 0 <=? t) cosine7_fixed = true.
Proof. vm_compute. reflexivity. Qed.

(* binary32 data, scalar float64 range 0.6, fs = 30000, v_per_sec = 1e-8,
   proportion 0.2, five channels of three samples: at sample 0 exactly one
   channel of five is over and exactly one of five jumps into sample 1
   (1/5 > 0.2 is false twice: not flagged); at sample 1 two of five are over:
   flagged; sample 2: none over, last sample.
   Data value: float32(0.59) = 9898557 * 2^-24 > fl(0.6*0.98). *)
Example C16_example_flags_binary32 :
  let x := (9898557, -24) in let o := (0, 0) in
  ieee_flags 24 128 53 1024 Hp24 He24 Hp53 He53 30000 0 3022314549036573 (-78) 3602879701896397 (-54)
    (map (map (fun v => of_me_d 24 128 Hp24 He24 (fst v) (snd v)))
         [[x; x; o]; [o; x; o]; [o; o; o]; [o; o; o]; [o; o; o]])
    [of_me_m 53 1024 Hp53 He53 5404319552844595 (-53)]
  = Some [false; true; false].
Proof. vm_compute. reflexivity. Qed.

(* a 3-channel Neuropixels 1.0 AP file with different gains on the two voltage
   channels: C09's parser + range_volts give one entry per saved channel, the two
   voltage entries carry gains 500 and 250, the sync entry is 1 * maxint; ncv = 2 *)
Definition nl : string := String (Ascii.ascii_of_nat 10) EmptyString.
Definition small_np1_file : str :=
  lit ("typeThis=imec" ++ nl ++ "imDatPrb_type=0" ++ nl ++ "imAiRangeMax=0.6" ++ nl ++ "nSavedChans=3" ++ nl ++
       "snsApLfSy=2,0,1" ++ nl ++ "~imroTbl=(0,2)(0 0 0 500 250 1)(1 0 0 250 125 1)" ++ nl).
Example C16_example_range_volts_np1 :
  option_map (fun d => (range_volts d, ncv d)) (read_meta small_np1_file)
  = Some (Some ((6, 1%nat), 512, 512, [CG (500, O); CG (250, O); C1]), Some 2).
Proof. vm_compute. reflexivity. Qed.

(* the hypotheses of C16_max_voltage_from_reader_np1 hold for that file (h = [0;2], two IMRO
   entries, AP stream, nSavedChans 3, one sync channel): every one is a closed evaluation *)
Definition small_np1_entries : list (Z * Z * Z * Z * Z * option Z) :=
  [(0, 0, 0, 500, 250, Some 1); (1, 0, 0, 250, 125, Some 1)].
Example C16_example_reader_hypotheses :
  exists d x y,
    read_meta small_np1_file = Some d /\
    int2volt d = Some ((6, 1%nat), 512) /\
    lookup (lit "imroTbl") d = Some (VStr (imro_text [0; 2] small_np1_entries)) /\
    lookup (lit "snsApLfSy") d = Some x /\ py_index x (-1) = Some y /\ py_int y = Some 1 /\
    nchannels d = Some 3 /\ sync_indices d = Some (2, 1) /\
    version d = Some V3B1 /\ get_type d = Some (Some SAp) /\
    (Z.to_nat (3 - 1) <= length small_np1_entries)%nat.
Proof.
  destruct (read_meta small_np1_file) as [d|] eqn:E; [|vm_compute in E; discriminate].
  vm_compute in E. injection E as <-.
  eexists. eexists. eexists.
  repeat split; try (vm_compute; reflexivity).
Qed.

(* the last ulp really is missed: proportion = fl(1/3) and one channel of three — the exact
   fraction 1/3 exceeds the float64 proportion 0.333333333333333314829616256247..., the test
   does not fire; two of three fire *)
Example C16_example_last_ulp_miss :
  let p := i_mean 1 3 in
  is_finite p = true /\ i_gt_pp (i_mean 1 3) p = false /\ i_gt_pp (i_mean 2 3) p = true /\
  SpecFloat.SFcompare (B2SF p) (B2SF (of_me64 6004799503160661 (-54))) = Some Eq.
Proof. vm_compute. repeat split. Qed.
