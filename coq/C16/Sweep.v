(* C16 — exhaustive float64 sweep (kept in its own file: about 90 s of vm_compute). *)
From Coq Require Import ZArith List Bool Lia.
From IBL.C16 Require Import Model.
Import ListNotations.
Open Scope Z_scope.

(* ------------------------------------------------------------------ *)
(* float64 mean against the default proportion 0.2: exhaustive          *)
(* ------------------------------------------------------------------ *)
Definition p02 : b64 := of_me64 3602879701896397 (-54).     (* the float64 literal 0.2 *)

Definition default_prop_ok_nc (nc : Z) : bool :=
  forallb (fun c => Bool.eqb (i_gt_pp (i_mean c nc) p02) (nc <? 5 * c))
          (map Z.of_nat (seq 0 (Z.to_nat (nc + 1)))).

Lemma default_prop_sweep :
  forallb default_prop_ok_nc (map Z.of_nat (seq 1 400)) = true.
Proof. vm_cast_no_check (eq_refl true). Qed.

Lemma pub_default_prop nc c : 1 <= nc <= 400 -> 0 <= c <= nc ->
  i_gt_pp (i_mean c nc) p02 = (nc <? 5 * c).
Proof.
  intros Hn Hc. pose proof default_prop_sweep as H.
  rewrite forallb_forall in H.
  assert (Hin : In nc (map Z.of_nat (seq 1 400))).
  { apply in_map_iff. exists (Z.to_nat nc). split; [lia|]. apply in_seq. lia. }
  specialize (H nc Hin). unfold default_prop_ok_nc in H. rewrite forallb_forall in H.
  assert (Hic : In c (map Z.of_nat (seq 0 (Z.to_nat (nc + 1))))).
  { apply in_map_iff. exists (Z.to_nat c). split; [lia|]. apply in_seq. lia. }
  specialize (H c Hic). now apply eqb_prop in H.
Qed.
