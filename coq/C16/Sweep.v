(* C16 — exhaustive float64 evaluation around the default proportion (closed
   boolean terms only; a few seconds of vm_compute): for every nc <= 400 the counts up
   to five channels either side of nc/5.  Ulp.v extends it to every count by
   monotonicity of round-to-nearest (pub_default_prop_full). *)
From Coq Require Import ZArith List Bool Lia.
From IBL.C16 Require Import Model.
Import ListNotations.
Open Scope Z_scope.

Definition p02 : b64 := of_me64 3602879701896397 (-54).     (* the float64 literal 0.2 *)

(* the counts c with |5c - nc| <= 25, 0 <= c <= nc : c = nc/5 - 5 + k, k = 0..11 *)
Definition band (nc : Z) : list Z :=
  filter (fun c => (0 <=? c) && (c <=? nc) && (Z.abs (5 * c - nc) <=? 25))
         (map (fun k => nc / 5 - 5 + Z.of_nat k) (seq 0 12)).

Definition default_prop_ok_nc (nc : Z) : bool :=
  forallb (fun c => Bool.eqb (i_gt_pp (i_mean c nc) p02) (nc <? 5 * c)) (band nc).

Lemma default_prop_sweep :
  forallb default_prop_ok_nc (map Z.of_nat (seq 1 400)) = true.
Proof. vm_cast_no_check (eq_refl true). Qed.

Lemma in_band nc c : 0 <= c <= nc -> Z.abs (5 * c - nc) <= 25 -> In c (band nc).
Proof.
  intros Hc Hb. unfold band. apply filter_In. split.
  - apply in_map_iff. exists (Z.to_nat (c - (nc / 5 - 5))).
    pose proof (Z.div_mod nc 5 ltac:(lia)). pose proof (Z.mod_pos_bound nc 5 ltac:(lia)).
    split; [lia|]. apply in_seq. lia.
  - apply andb_true_intro; split; [apply andb_true_intro; split|]; apply Z.leb_le; lia.
Qed.

Lemma pub_default_prop nc c : 1 <= nc <= 400 -> 0 <= c <= nc -> Z.abs (5 * c - nc) <= 25 ->
  i_gt_pp (i_mean c nc) p02 = (nc <? 5 * c).
Proof.
  intros Hn Hc Hb. pose proof default_prop_sweep as H.
  rewrite forallb_forall in H.
  assert (Hin : In nc (map Z.of_nat (seq 1 400))).
  { apply in_map_iff. exists (Z.to_nat nc). split; [lia|]. apply in_seq. lia. }
  specialize (H nc Hin). unfold default_prop_ok_nc in H. rewrite forallb_forall in H.
  specialize (H c (in_band nc c Hc Hb)). now apply eqb_prop in H.
Qed.
