(* C16 — two-decimal proportions p = j/100 (j = 1..99) at the channel counts nc <= 400 where
   p * nc is a whole number K (1680 pairs): exhaustive float64 evaluation (closed boolean /
   closed list terms only, a few seconds of vm_compute) of
     mean form  (the source):   fl(k / nc) > fl(j/100)
     count form (a tempting rewrite):  k > fl(fl(j/100) * nc)
   at k = K-1, K, K+1. *)
From Coq Require Import ZArith List Bool Lia.
From Flocq Require Import Core BinarySingleNaN.
From IBL.C16 Require Import Model.
Import ListNotations.
Open Scope Z_scope.

(* float("0.jj"): the correctly rounded quotient of two exact integers *)
Definition pj (j : Z) : b64 := Bdiv mode_NE (of_me64 j 0) (of_me64 100 0).

Definition mean_form (k nc : Z) (p : b64) : bool := i_gt_pp (i_mean k nc) p.
Definition count_form (k nc : Z) (p : b64) : bool :=
  match Bcompare (of_me64 k 0) (Bmult mode_NE p (of_me64 nc 0)) with Some Gt => true | _ => false end.

Definition zs (a n : nat) : list Z := map Z.of_nat (seq a n).
Definition boundary_pairs : list (Z * Z) :=
  flat_map (fun j => map (fun nc => (j, nc)) (filter (fun nc => (j * nc) mod 100 =? 0) (zs 1 400))) (zs 1 99).

Definition pair_ok (q : Z * Z) : bool :=
  let '(j, nc) := q in
  let K := j * nc / 100 in
  is_finite (pj j) &&
  forallb (fun k => (k <? 0) || (nc <? k) || Bool.eqb (mean_form k nc (pj j)) (j * nc <? 100 * k))
          [K - 1; K; K + 1].

Lemma boundary_sweep : forallb pair_ok boundary_pairs = true.
Proof. vm_cast_no_check (eq_refl true). Qed.

(* the pairs on which the count form decides differently from the mean form at k = K *)
Definition disagree (q : Z * Z) : bool :=
  let '(j, nc) := q in
  let K := j * nc / 100 in
  negb (Bool.eqb (count_form K nc (pj j)) (mean_form K nc (pj j))).

Definition disagreeing_pairs : list (Z * Z) :=
  [(29, 100); (29, 200); (29, 400); (35, 180); (35, 340); (35, 360); (41, 300);
   (57, 100); (57, 200); (57, 300); (57, 400); (58, 50); (58, 100); (58, 200); (58, 400);
   (69, 300); (70, 90); (70, 170); (70, 180); (70, 330); (70, 340); (70, 350); (70, 360);
   (82, 150); (82, 300)].

Fixpoint pairs_eqb (a b : list (Z * Z)) : bool :=
  match a, b with
  | [], [] => true
  | (x1, y1) :: a', (x2, y2) :: b' => (x1 =? x2) && (y1 =? y2) && pairs_eqb a' b'
  | _, _ => false
  end.

Lemma disagree_sweep : pairs_eqb (filter disagree boundary_pairs) disagreeing_pairs = true.
Proof. vm_cast_no_check (eq_refl true). Qed.

(* on each of them the count form flags a sample with EXACTLY the proportion of channels *)
Lemma disagree_direction :
  forallb (fun q => let '(j, nc) := q in
                    count_form (j * nc / 100) nc (pj j) && negb (mean_form (j * nc / 100) nc (pj j)))
          disagreeing_pairs = true.
Proof. vm_cast_no_check (eq_refl true). Qed.

Lemma in_boundary_pairs j nc : 1 <= j <= 99 -> 1 <= nc <= 400 -> (j * nc) mod 100 = 0 ->
  In (j, nc) boundary_pairs.
Proof.
  intros Hj Hn Hm. unfold boundary_pairs. apply in_flat_map. exists j. split.
  - unfold zs. apply in_map_iff. exists (Z.to_nat j). split; [lia|]. apply in_seq. lia.
  - apply in_map_iff. exists nc. split; [reflexivity|]. apply filter_In. split.
    + unfold zs. apply in_map_iff. exists (Z.to_nat nc). split; [lia|]. apply in_seq. lia.
    + now apply Z.eqb_eq.
Qed.

Lemma boundary_point j nc k : 1 <= j <= 99 -> 1 <= nc <= 400 -> (j * nc) mod 100 = 0 ->
  0 <= k <= nc -> j * nc / 100 - 1 <= k <= j * nc / 100 + 1 ->
  is_finite (pj j) = true /\ mean_form k nc (pj j) = (j * nc <? 100 * k).
Proof.
  intros Hj Hn Hm Hk Hb. pose proof boundary_sweep as H. rewrite forallb_forall in H.
  specialize (H _ (in_boundary_pairs j nc Hj Hn Hm)). unfold pair_ok in H.
  apply andb_true_iff in H. destruct H as [Hf H]. split; [exact Hf|].
  rewrite forallb_forall in H.
  assert (Hin : In k [j * nc / 100 - 1; j * nc / 100; j * nc / 100 + 1]).
  { cbn [In]. lia. }
  specialize (H k Hin).
  apply orb_true_iff in H. destruct H as [H|H].
  - apply orb_true_iff in H. destruct H as [H|H]; [apply Z.ltb_lt in H|apply Z.ltb_lt in H]; lia.
  - now apply eqb_prop in H.
Qed.
