(* C11 — property theorems.  Only statements closed by `exact <lemma>` (or a
   1-3 line wrapper) and the Print Assumptions that the check collects.

   Floats are Flocq binary64 (round to nearest even).  Domain of the float
   theorems: frame counts up to 2^50 (a 2^50-frame file of one int16 channel is
   2 PiB), sampling rate any binary64 in [2^-64, 2^64] (`fs_ok`), byte counts
   and channel counts below 2^53 for the online reader.  No finite enumeration
   is used: the float theorems follow from the relative-error bound of
   rounding to nearest. *)
From Coq Require Import ZArith List Bool Lia Reals Lra.
From Flocq Require Import Core BinarySingleNaN.
From IBL.lib Require Import PyInt.
From IBL.C11 Require Import Model Proofs Run.
Import ListNotations.
Open Scope Z_scope.

(* isz is the item size of the `dtype` argument (2 for the default int16); frame = isz * nc bytes.
   isz_ok isz: isz is 1, 2, 4 or 8 (needed only where OnlineReader's float division by isz must be exact). *)

(* 1. Unbounded, independent of any float reasoning: an open that succeeds maps
   no more than the file holds (ns*nc*isz <= nbytes), hence exposes at most the
   complete frames — for either reader class and whatever the meta file says. *)
Theorem C11_opened_within_file : forall online isz nbytes nc fts fs ns nc' fts' rw,
  1 <= nc -> 1 <= isz ->
  open_bin online isz nbytes nc fts fs = Opened ns nc' fts' rw ->
  nc' = nc /\ 0 <= ns /\ ns * nc * isz <= nbytes /\ ns <= nbytes / (isz * nc).
Proof. exact opened_within_file. Qed.
Print Assumptions C11_opened_within_file.

(* 2. Unbounded: every element (i, j) of the exposed (ns, nc) array lies
   inside the file, distinct elements are distinct cells, and the cells are
   exactly the first ns*nc items of the file (the array IS the file's prefix;
   no read within the shape goes beyond the file). *)
Theorem C11_reads_within_file : forall isz nbytes ns nc, 1 <= nc -> 1 <= isz -> ns * nc * isz <= nbytes ->
  (forall i j, 0 <= i < ns -> 0 <= j < nc ->
     0 <= byte_offset isz nc i j /\ byte_offset isz nc i j + isz <= ns * nc * isz /\
     byte_offset isz nc i j + isz <= nbytes) /\
  (forall i j i' j', 0 <= j < nc -> 0 <= j' < nc ->
     byte_offset isz nc i j = byte_offset isz nc i' j' -> i = i' /\ j = j') /\
  (forall c, 0 <= c < ns * nc ->
     byte_offset isz nc (c / nc) (c mod nc) = isz * c /\ 0 <= c / nc < ns /\ 0 <= c mod nc < nc).
Proof.
  intros isz nbytes ns nc Hnc Hisz Hle. split; [|split].
  - intros i j. exact (reads_within_file isz nbytes ns nc i j Hnc Hisz Hle).
  - intros i j i' j'. exact (byte_offset_inj isz nc i j i' j' Hnc Hisz).
  - intros c Hc. exact (prefix_cells isz ns nc c Hnc Hc).
Qed.
Print Assumptions C11_reads_within_file.

(* 3. Reader (offline), meta file with a fileTimeSecs entry that Reader.ns can
   convert (ns0): whatever that entry claims — more, fewer or as many frames —
   and whatever number of trailing bytes the file has, the open succeeds and
   exposes exactly k = floor(nbytes / (isz nc)) frames; fileTimeSecs is rewritten
   exactly when the claim disagrees with the size, and then to k / fs = rl. *)
Theorem C11_offline_exposes_floor : forall isz nbytes nc t fs ns0,
  1 <= nc -> 1 <= isz -> 1 <= nbytes -> nbytes / (isz * nc) <= 2 ^ 50 -> fs_ok fs ->
  ns_meta (Some t) fs = NsOk ns0 ->
  let k := nbytes / (isz * nc) in
  let rw := negb (nc * ns0 * isz =? nbytes) in
  open_bin false isz nbytes nc (Some t) fs =
    Opened k nc (if rw then Some (rl k fs) else Some t) rw.
Proof. exact open_offline_floor. Qed.
Print Assumptions C11_offline_exposes_floor.

(* 4. OnlineReader: int(st_size / isz / nc) is the floor, for st_size, isz*nc < 2^53;
   the open succeeds whatever the meta file holds. *)
Theorem C11_online_exposes_floor : forall isz nbytes nc fts fs,
  isz_ok isz -> 1 <= nc -> isz * nc < 2 ^ 53 -> 1 <= nbytes < 2 ^ 53 ->
  let k := nbytes / (isz * nc) in
  let rw := negb (nc * k * isz =? nbytes) in
  open_bin true isz nbytes nc fts fs =
    Opened k nc (if rw then Some (rl k fs) else fts) rw.
Proof. exact open_online_floor. Qed.
Print Assumptions C11_online_exposes_floor.

Theorem C11_online_ns_is_floor : forall isz nbytes nc,
  isz_ok isz -> 0 <= nbytes < 2 ^ 53 -> 1 <= nc -> isz * nc < 2 ^ 53 ->
  ns_online isz nbytes nc = NsOk (nbytes / (isz * nc)).
Proof. exact ns_online_floor. Qed.
Print Assumptions C11_online_ns_is_floor.

(* 5. Duration: rl = fl(ns / fs) (finite, correctly rounded quotient) and it
   reads back through Reader.ns as exactly ns samples — so the fileTimeSecs
   written by the mismatch branch (theorems 3, 4, 6: it is `rl k fs`) and the
   duration reported afterwards both match the exposed sample count. *)
Theorem C11_duration_matches : forall ns fs, 0 <= ns <= 2 ^ 50 -> fs_ok fs ->
  is_finite (rl ns fs) = true /\
  B2R (rl ns fs) = rnd64 (IZR ns / B2R fs) /\
  ns_meta (Some (rl ns fs)) fs = NsOk ns.
Proof. exact rl_correct. Qed.
Print Assumptions C11_duration_matches.

(* 6. Compressed stream shorter (or longer) than the meta file announces: the
   reader exposes the chns frames the .ch file announces. *)
Theorem C11_cbin_short_stream : forall chns nc t fs ns0,
  0 <= chns <= 2 ^ 50 -> fs_ok fs ->
  ns_meta (Some t) fs = NsOk ns0 ->
  let rw := negb ((chns =? ns0) && (nc =? nc)) in
  open_cbin chns nc nc (Some t) fs = Opened chns nc (if rw then Some (rl chns fs) else Some t) rw.
Proof. exact open_cbin_exposes. Qed.
Print Assumptions C11_cbin_short_stream.

(* 7. Recording in progress: the meta file has no fileTimeSecs (nor fileSizeBytes)
   yet and the file ends in a partial frame (any number of trailing bytes).
   OnlineReader opens, exposes the floor frame count and writes
   fileTimeSecs = k / fs = rl (since repair 381463f the warning cannot raise). *)
Theorem C11_online_in_progress : forall isz nbytes nc fs,
  isz_ok isz -> 1 <= nc -> isz * nc < 2 ^ 53 -> 1 <= nbytes < 2 ^ 53 -> nbytes mod (isz * nc) <> 0 ->
  let k := nbytes / (isz * nc) in
  open_bin true isz nbytes nc None fs = Opened k nc (Some (rl k fs)) true.
Proof. exact open_online_in_progress. Qed.
Print Assumptions C11_online_in_progress.

(* 8. The offline Reader on such a meta file: Reader.ns needs fileTimeSecs, so
   the open raises TypeError (None * float) for every file, whatever its size —
   the offline class cannot open a recording in progress; OnlineReader is the
   class for that (theorems 4, 7, 10). *)
Theorem C11_offline_needs_fileTimeSecs : forall isz nbytes nc fs,
  open_bin false isz nbytes nc None fs = TypeErr.
Proof. exact open_offline_no_fts. Qed.
Print Assumptions C11_offline_needs_fileTimeSecs.

(* ---- the reader as a stateful object on a file whose size changes ---- *)
(* Since repair aa7f63d Reader.open no longer reads the size cached by the constructor: the
   comparison, the duration and np.memmap all see the file as it is at that moment. *)

(* 9. open_bin (theorems 1-8) is the outcome component of the stateful open_at *)
Theorem C11_open_bin_is_open_at : forall online isz nbytes nc fts fs,
  open_bin online isz nbytes nc fts fs = fst (open_at online isz nbytes nc fts fs).
Proof. exact open_bin_open_at. Qed.
Print Assumptions C11_open_bin_is_open_at.

(* 10. OnlineReader, every history: constructor with open=True or open=False on a file of
   cur0 bytes, then any sequence of "the file now has n bytes" (appends or cuts), sr.open()
   (first open or re-open) and sr.__enter__() — sizes and isz*nc below 2^53.  Every open attempt
   succeeds, maps exactly the floor of the size the file has at that moment, and sr.ns equals
   it (snap_ok); moreover sr.ns is the floor of the CURRENT size at every point of the
   history, also before any open and between opens (online_snap_ok). *)
Theorem C11_online_history : forall isz nc fs fts cur0 do_op ops,
  isz_ok isz -> 1 <= nc -> isz * nc < 2 ^ 53 ->
  size_ok true isz nc cur0 -> Forall (op_ok true isz nc) ops ->
  Forall (fun s => snap_ok isz nc s /\ online_snap_ok isz nc s) (history true isz nc fs fts cur0 do_op ops).
Proof.
  intros isz nc fs fts cur0 do_op ops Hi Hnc Hinc. exact (history_online isz nc Hi Hnc Hinc fs fts cur0 do_op ops).
Qed.
Print Assumptions C11_online_history.

(* 11. Offline Reader (meta file with a fileTimeSecs entry that Reader.ns converts), every
   history of the same kind — sizes at least 1 byte and at most 2^50 frames, fs in [2^-64, 2^64]:
   every open attempt (first open, re-open after growth, __enter__, after a cut) succeeds, maps
   exactly the floor of the size the file has at that moment, and sr.ns then equals it (snap_ok).
   What remains different from OnlineReader (offline_snap_ok): Reader.ns is at every point what
   the meta dictionary says — before the first open the meta file's claim, after an open the frame
   count of that open, even if the file has changed since. *)
Theorem C11_offline_history : forall isz nc fs t ns0 cur0 do_op ops,
  1 <= isz -> 1 <= nc -> fs_ok fs -> ns_meta (Some t) fs = NsOk ns0 ->
  size_ok false isz nc cur0 -> Forall (op_ok false isz nc) ops ->
  Forall (fun s => snap_ok isz nc s /\ offline_snap_ok s) (history false isz nc fs (Some t) cur0 do_op ops).
Proof.
  intros isz nc fs t ns0 cur0 do_op ops Hi Hnc Hfs.
  exact (history_offline isz nc fs Hi Hnc Hfs t ns0 cur0 do_op ops).
Qed.
Print Assumptions C11_offline_history.

(* 12. One open of the offline Reader on a file of cur bytes, with the fileTimeSecs afterwards *)
Theorem C11_offline_open_at : forall isz cur nc t fs ns0,
  1 <= nc -> 1 <= isz -> 1 <= cur -> cur / (isz * nc) <= 2 ^ 50 -> fs_ok fs ->
  ns_meta (Some t) fs = NsOk ns0 ->
  let k := cur / (isz * nc) in
  let rw := negb (nc * ns0 * isz =? cur) in
  let fts' := if rw then Some (rl k fs) else Some t in
  open_at false isz cur nc (Some t) fs = (Opened k nc fts' rw, fts').
Proof. exact open_at_offline. Qed.
Print Assumptions C11_offline_open_at.

(* 13. The hypothesis `ns_meta (Some t) fs = NsOk ns0` of theorems 3, 6, 11, 12 is no restriction in
   practice: any finite fileTimeSecs up to 2^100 seconds converts (the product cannot overflow). *)
Theorem C11_meta_duration_convertible : forall t fs,
  is_finite t = true -> fs_ok fs -> (Rabs (B2R t) <= bpow radix2 100)%R ->
  exists n, ns_meta (Some t) fs = NsOk n.
Proof. exact ns_meta_total. Qed.
Print Assumptions C11_meta_duration_convertible.

(* 14. Boundary outside the property's quantifier, stated exactly: an empty file never opens
   (np.memmap refuses to map an empty file), for either class and any metadata. *)
Theorem C11_empty_file_never_opens : forall online isz nc fts fs ns nc' f rw,
  open_bin online isz 0 nc fts fs <> Opened ns nc' f rw.
Proof. exact empty_file_never_opens. Qed.
Print Assumptions C11_empty_file_never_opens.

(* ---- readers constructed without a meta file (Reader.ns returns the caller's / guessed self._ns) ---- *)

(* 15. Offline Reader without meta file: the exposed frame count is the caller's ns, never adjusted
   (the duration computed in the mismatch branch is discarded because self.meta is None); the open
   succeeds exactly when those frames fit in the non-empty file.  So "exposes the complete frames
   present" holds iff the caller states them — there is no metadata to reconcile. *)
Theorem C11_nometa_offline_exact : forall isz nbytes nc ns,
  open_nometa false isz nbytes nc ns =
    (if memmap_ok isz nbytes ns nc then Opened ns nc None false else MmapError) /\
  ((exists n c f rw, open_nometa false isz nbytes nc ns = Opened n c f rw) <->
   0 < nbytes /\ 0 <= ns * nc * isz <= nbytes).
Proof.
  intros. split; [apply open_nometa_offline|apply open_nometa_offline_iff].
Qed.
Print Assumptions C11_nometa_offline_exact.

(* 16. OnlineReader without meta file: floor of the current size, the caller's ns is ignored. *)
Theorem C11_nometa_online_floor : forall isz nbytes nc ns,
  isz_ok isz -> 1 <= nc -> isz * nc < 2 ^ 53 -> 1 <= nbytes < 2 ^ 53 ->
  open_nometa true isz nbytes nc ns = Opened (nbytes / (isz * nc)) nc None false.
Proof. exact open_nometa_online. Qed.
Print Assumptions C11_nometa_online_floor.

(* 17. No arguments at all (int16): when the size is a multiple of 768 or 770 bytes the constructor
   guesses 384 (resp. 385) channels, fs = 30000 and ns = size / (2 nc) exactly, and the open exposes
   all of them. *)
Theorem C11_nometa_guess : forall nbytes a,
  1 <= nbytes < 2 ^ 53 -> guess_nc nbytes = Some a ->
  (a = 384 \/ a = 385) /\ nbytes mod (2 * a) = 0 /\
  construct_nometa nbytes None None None = NmOk a (nbytes / (2 * a)) 30000 /\
  open_nometa false 2 nbytes a (nbytes / (2 * a)) = Opened (nbytes / (2 * a)) a None false.
Proof. exact nometa_guess. Qed.
Print Assumptions C11_nometa_guess.

(* ---- the hypotheses are satisfiable on concrete, non-trivial inputs ---- *)
Local Open Scope R_scope.
Example fs_ok_30000 : fs_ok (of_me 30000 0).
Proof.
  unfold fs_ok. destruct (of_me_correct 30000 0 ltac:(reflexivity) ltac:(lia)) as [-> _].
  change (bpow radix2 0) with 1. lra.
Qed.
(* 30000.123 = 8246371018302554 * 2^-38 *)
Example fs_ok_fractional : fs_ok (of_me 8246371018302554 (-38)).
Proof.
  unfold fs_ok. destruct (of_me_correct 8246371018302554 (-38) ltac:(reflexivity) ltac:(lia)) as [-> _].
  change (bpow radix2 (-38)) with (/ 274877906944). lra.
Qed.
Local Open Scope Z_scope.

(* 22 frames of 385 channels + 386 trailing bytes, meta claiming 22/30000 + 1.8324 s *)
Example ex_meta_claim : ns_meta (Some (of_me 8255698596920435 (-52))) (of_me 30000 0) = NsOk 54994.
Proof. vm_compute. reflexivity. Qed.
Example ex_offline : run [0; 0; 0; 2; 385 * 2 * 22 + 386; 385; 30000; 0; 1; 8255698596920435; -52]
                     = [0; 22; 385; 1; 3; 0; 6763806160360169; -63; 3; 0; 6763806160360169; -63].
Proof. vm_compute. reflexivity. Qed.
(* same file, fs = 30000.123, OnlineReader, meta of a recording in progress, ignore_warnings=True:
   no warning logged *)
Example ex_online : run [0; 1; 1; 2; 385 * 2 * 22 + 386; 385; 8246371018302554; -38; 0; 0; 0]
                    = [0; 22; 385; 0; 3; 0; 6763778428868611; -63; 3; 0; 6763778428868611; -63].
Proof. vm_compute. reflexivity. Qed.
(* same, ignore_warnings=False: opens as well, warning logged *)
Example ex_online_warned : run [0; 1; 0; 2; 385 * 2 * 22 + 386; 385; 8246371018302554; -38; 0; 0; 0]
                    = [0; 22; 385; 1; 3; 0; 6763778428868611; -63; 3; 0; 6763778428868611; -63].
Proof. vm_compute. reflexivity. Qed.
(* offline Reader on the in-progress meta file: TypeError *)
Example ex_offline_typeerror : run [0; 0; 0; 2; 385 * 2 * 22 + 386; 385; 8246371018302554; -38; 0; 0; 0] = [3].
Proof. vm_compute. reflexivity. Qed.

(* histories: OnlineReader(open=False) on 34 bytes (nc=5), file grows to 259 bytes, open(), grows to 400 = exactly
   40 frames, __enter__ (no-op), re-open: 40 frames mapped; no mismatch, so meta fileTimeSecs keeps the 25-frame value *)
Example ex_history_online :
  run [2; 1; 0; 2; 5; 30000; 0; 0; 0; 0; 34; 0;  0; 259; 1; 0; 0; 400; 2; 0; 1; 0]
  = [9;0; 0;3; -1; 4;0;0;0; 3;0;7378697629483821;-66;
     9;0; 0;25; -1; 4;0;0;0; 3;0;7686143364045647;-63;
     0;1; 0;25; 25; 3;0;7686143364045647;-63; 3;0;7686143364045647;-63;
     9;0; 0;40; 25; 3;0;7686143364045647;-63; 3;0;6148914691236517;-62;
     9;0; 0;40; 25; 3;0;7686143364045647;-63; 3;0;6148914691236517;-62;
     0;0; 0;40; 40; 3;0;7686143364045647;-63; 3;0;6148914691236517;-62].
Proof. vm_compute. reflexivity. Qed.
(* offline Reader(open=False) whose meta claims 3 frames = 30 bytes = size at construction (nc=5); the file
   grows to 100 bytes; open(): 10 frames (before aa7f63d: 3), fileTimeSecs rewritten, warning logged *)
Example ex_history_offline :
  run [2; 0; 0; 2; 5; 30000; 0; 1; 7378697629483821; -66; 30; 0;  0; 100; 1; 0]
  = [9;0; 0;3; -1; 3;0;7378697629483821;-66; 3;0;7378697629483821;-66;
     9;0; 0;3; -1; 3;0;7378697629483821;-66; 3;0;7378697629483821;-66;
     0;1; 0;10; 10; 3;0;6148914691236517;-64; 3;0;6148914691236517;-64].
Proof. vm_compute. reflexivity. Qed.
(* dtype='int32' (item size 4), 3 channels, 5 frames + 7 bytes, meta claiming 9 frames, OnlineReader and Reader *)
Example ex_int32_online : run [0; 1; 1; 4; 12 * 5 + 7; 3; 30000; 0; 0; 0; 0]
                          = [0; 5; 3; 0; 3; 0; 6148914691236517; -65; 3; 0; 6148914691236517; -65].
Proof. vm_compute. reflexivity. Qed.

(* hypotheses of the history theorems (10, 11) on the concrete histories evaluated above *)
Example ex_history_online_hyps :
  isz_ok 2 /\ 1 <= 5 /\ 2 * 5 < 2 ^ 53 /\ size_ok true 2 5 34 /\
  Forall (op_ok true 2 5) [OpResize 259; OpOpen; OpResize 400; OpEnter; OpOpen].
Proof.
  unfold isz_ok. cbn [size_ok]. repeat split; try lia; auto.
  repeat constructor; cbn [op_ok size_ok]; lia.
Qed.
Example ex_history_offline_hyps :
  ns_meta (Some (of_me 7378697629483821 (-66))) (of_me 30000 0) = NsOk 3 /\
  size_ok false 2 5 30 /\ Forall (op_ok false 2 5) [OpResize 100; OpOpen].
Proof.
  split; [vm_compute; reflexivity|]. split; [cbn [size_ok]; split; [lia|vm_compute; discriminate]|].
  repeat constructor; cbn [op_ok size_ok]; try lia. vm_compute. discriminate.
Qed.
(* theorem 13 on the duration 1.8331333... s: finite and below 2^100 *)
Example ex_duration_convertible :
  is_finite (of_me 8255698596920435 (-52)) = true /\
  (Rabs (B2R (of_me 8255698596920435 (-52))) <= bpow radix2 100)%R.
Proof.
  destruct (of_me_correct 8255698596920435 (-52) ltac:(reflexivity) ltac:(lia)) as [-> ->].
  split; [reflexivity|].
  change (bpow radix2 (-52)) with (/ 4503599627370496)%R.
  apply Rle_trans with 2%R.
  - rewrite Rabs_pos_eq; lra.
  - change 2%R with (bpow radix2 1). apply bpow_le. lia.
Qed.
(* theorem 6: .cbin chopped to 10 frames, meta announcing 33 frames at 2500 Hz, ignore_warnings *)
Example ex_cbin_short : run [1; 1; 10; 8; 8; 2500; 0; 1; 7609281930405190; -59]
                        = [0; 10; 8; 0; 3; 0; 4611686018427388; -60; 3; 0; 4611686018427388; -60].
Proof. vm_compute. reflexivity. Qed.

(* no meta file: 3 frames of 385 channels guessed from 2310 bytes; caller's nc=8 ns=5 on 100 bytes -> 5 frames;
   ns=7 -> ValueError; OnlineReader nc=8 -> 6 frames whatever ns says; nc missing and size not guessable -> AssertionError *)
Example ex_nometa_guess : run [3; 0; 2; 2310; 0; 0; 0; 0; 0; 0]
                          = [0; 3; 385; 0; 4; 0; 0; 0; 3; 0; 7378697629483821; -66].
Proof. vm_compute. reflexivity. Qed.
Example ex_nometa_guess_hyp : guess_nc 2310 = Some 385.
Proof. vm_compute. reflexivity. Qed.
Example ex_nometa_caller : run [3; 0; 2; 100; 1; 8; 1; 5; 1; 30000] = [0; 5; 8; 0; 4; 0; 0; 0; 3; 0; 6148914691236517; -65]
                        /\ run [3; 0; 2; 100; 1; 8; 1; 7; 1; 30000] = [1]
                        /\ run [3; 1; 2; 100; 1; 8; 1; 7; 1; 30000] = [0; 6; 8; 0; 4; 0; 0; 0; 3; 0; 7378697629483821; -65]
                        /\ run [3; 0; 2; 100; 0; 0; 1; 7; 1; 30000] = [5].
Proof. vm_compute. repeat split; reflexivity. Qed.
