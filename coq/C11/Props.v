(* C11 — property theorems.  Only statements closed by `exact <lemma>` (or a
   1-3 line wrapper) and the Print Assumptions that the check collects. *)
From Coq Require Import ZArith List Bool Lia.
From Flocq Require Import Core BinarySingleNaN.
From IBL.lib Require Import PyInt.
From IBL.C11 Require Import Model Proofs.
Import ListNotations.
Open Scope Z_scope.

(* Unbounded, independent of any float reasoning: an open that succeeds maps
   no more than the file holds and exposes at most the complete frames. *)
Theorem C11_opened_within_file : forall online wok nbytes nc fts fs ns nc' fts' rw,
  1 <= nc ->
  open_bin online wok nbytes nc fts fs = Opened ns nc' fts' rw ->
  nc' = nc /\ 0 <= ns /\ ns * nc * 2 <= nbytes /\ ns <= nbytes / (2 * nc).
Proof. exact opened_within_file. Qed.
Print Assumptions C11_opened_within_file.
