(* C11 — flat-integer interface of the model for the correspondence check.
   input : [0; online; ignore_warnings; itemsize; nbytes; nc; fs_m; fs_e; has_fts; fts_m; fts_e]
                                                                                 flat binary (Reader / OnlineReader);
           itemsize: of the `dtype` argument (2 = default int16); has_fts: the meta file has a fileTimeSecs entry
           [1; ignore_warnings; chns; chnc; nc; fs_m; fs_e; has_fts; fts_m; fts_e]   mtscomp branch (.ch announces chns x chnc)
           floats are passed exactly as m * 2^e
           [2; online; ignore_warnings; itemsize; nc; fs_m; fs_e; has_fts; fts_m; fts_e; size0; open_flag; (opcode; arg)*]
               a history on one reader object: constructor on a file of size0 bytes (open=open_flag), then
               operations  0 n = the file now has n bytes,  1 _ = sr.open(),  2 _ = sr.__enter__()
               output: one snapshot after the constructor and after every operation:
               [open attempt: 9 none / 0 opened, warned / 1 / 2 / 3; -]  ++ [live sr.ns: 0 n / 2 0 / 3 0]
               ++ [frames of the mapped array or -1] ++ enc(meta fileTimeSecs) ++ enc(sr.rl) (class 9 if ns raises)
           [3; online; itemsize; nbytes; has_nc; nc; has_ns; ns; has_fs; fs]   Reader / OnlineReader without a meta file
               (the caller's nc= ns= fs= arguments or None); output as for the flat binary with rl = ns / fs,
               [5] AssertionError (nc or fs missing), [3] TypeError (ns missing)
   output: [0; ns; nc; warned] ++ enc(meta fileTimeSecs afterwards) ++ enc(rl)    opened
           (warned = the mismatch warning was logged = fileTimeSecs rewritten and not ignore_warnings)
           [1] memmap ValueError   [2] int() of inf/nan   [3] TypeError (no fileTimeSecs)
   enc(float) = [class; sign; mantissa; exponent]  (class 0 zero, 1 inf, 2 nan, 3 finite; canonical m, e;
                 class 4 = key absent, for the meta entry only) *)
From Coq Require Import ZArith List Bool.
From Flocq Require Import Core BinarySingleNaN.
From IBL.lib Require Import PyInt RunLib.
From IBL.C11 Require Import Model.
Import ListNotations.
Open Scope Z_scope.

Definition enc_float (x : b64) : list Z :=
  match x with
  | B754_zero s => [0; enc_bool s; 0; 0]
  | B754_infinity s => [1; enc_bool s; 0; 0]
  | B754_nan => [2; 0; 0; 0]
  | B754_finite s m e _ => [3; enc_bool s; Zpos m; e]
  end.

Definition enc_ofloat (x : option b64) : list Z :=
  match x with None => [4; 0; 0; 0] | Some f => enc_float f end.

Definition enc_outcome (iw : bool) (fs : b64) (o : outcome) : list Z :=
  match o with
  | Opened ns nc fts rw => [0; ns; nc; enc_bool (rw && negb iw)] ++ enc_ofloat fts ++ enc_float (rl ns fs)
  | MmapError => [1]
  | IntError => [2]
  | TypeErr => [3]
  end.

Definition dec_fts (has m e : Z) : option b64 :=
  if has =? 1 then Some (of_me m e) else None.

Fixpoint dec_ops (l : list Z) : list op :=
  match l with
  | c :: a :: tl => (if c =? 0 then OpResize a else if c =? 1 then OpOpen else OpEnter) :: dec_ops tl
  | _ => []
  end.

Definition enc_snap (iw : bool) (s : (Z * reader) * option outcome) : list Z :=
  let '((cur, r), out) := s in
  (match out with
   | None => [9; 0]
   | Some (Opened _ _ _ rw) => [0; enc_bool (rw && negb iw)]
   | Some MmapError => [1; 0]
   | Some IntError => [2; 0]
   | Some TypeErr => [3; 0]
   end)
  ++ (match live_ns cur r with NsOk n => [0; n] | NsInt => [2; 0] | NsType => [3; 0] end)
  ++ [match r_mapped r with Some m => m | None => -1 end]
  ++ enc_ofloat (r_fts r)
  ++ (match live_ns cur r with NsOk n => enc_float (rl n (r_fs r)) | _ => [9; 0; 0; 0] end).

Definition run (inp : list Z) : list Z :=
  match inp with
  | [0; online; iw; isz; nbytes; nc; fsm; fse; has; ftm; fte] =>
      let fs := of_me fsm fse in
      enc_outcome (iw =? 1) fs (open_bin (online =? 1) isz nbytes nc (dec_fts has ftm fte) fs)
  | [1; iw; chns; chnc; nc; fsm; fse; has; ftm; fte] =>
      let fs := of_me fsm fse in
      enc_outcome (iw =? 1) fs (open_cbin chns chnc nc (dec_fts has ftm fte) fs)
  | [3; online; isz; nbytes; hnc; nc; hns; ns; hfs; fs] =>
      let o v h := if h =? 1 then Some v else None in
      match construct_nometa nbytes (o nc hnc) (o ns hns) (o fs hfs) with
      | NmOk c n f => enc_outcome true (of_Z f) (open_nometa (online =? 1) isz nbytes c n)
      | NmAssert => [5]
      | NmType => [3]
      | NmInt => [2]
      end
  | 2 :: online :: iw :: isz :: nc :: fsm :: fse :: has :: ftm :: fte :: size0 :: oflag :: ops =>
      flat_map (enc_snap (iw =? 1))
        (history (online =? 1) isz nc (of_me fsm fse) (dec_fts has ftm fte) size0 (oflag =? 1) (dec_ops ops))
  | _ => [-999]
  end.

Definition mismatches := mismatches_of run.
