(* C11 — flat-integer interface of the model for the correspondence check.
   input : [0; online; nbytes; nc; fs_m; fs_e; fts_m; fts_e]     flat binary (Reader / OnlineReader)
           [1; chns; chnc; nc; fs_m; fs_e; fts_m; fts_e]         mtscomp branch (.ch announces chns x chnc)
           floats are passed exactly as m * 2^e
   output: [0; ns; nc; rewritten] ++ enc(meta fileTimeSecs afterwards) ++ enc(rl)    opened
           [1] memmap ValueError        [2] int() of inf/nan
   enc(float) = [class; sign; mantissa; exponent]  (class 0 zero, 1 inf, 2 nan, 3 finite; canonical m, e) *)
From Coq Require Import ZArith List Bool.
From Flocq Require Import Core BinarySingleNaN.
From IBL.lib Require Import PyInt RunLib.
From IBL.C11 Require Import Model.
Import ListNotations.
Open Scope Z_scope.

Definition enc_float (x : b64) : list Z :=
  match x with
  | B754_zero s => [0; enc_bool s; 0; 0]
  | B754_infinity s => [1; enc_bool s; 0; 0]
  | B754_nan => [2; 0; 0; 0]
  | B754_finite s m e _ => [3; enc_bool s; Zpos m; e]
  end.

Definition enc_outcome (fs : b64) (o : outcome) : list Z :=
  match o with
  | Opened ns nc fts rw => [0; ns; nc; enc_bool rw] ++ enc_float fts ++ enc_float (rl ns fs)
  | MmapError => [1]
  | IntError => [2]
  end.

Definition run (inp : list Z) : list Z :=
  match inp with
  | [0; online; nbytes; nc; fsm; fse; ftm; fte] =>
      let fs := of_me fsm fse in
      enc_outcome fs (open_bin (online =? 1) nbytes nc (of_me ftm fte) fs)
  | [1; chns; chnc; nc; fsm; fse; ftm; fte] =>
      let fs := of_me fsm fse in
      enc_outcome fs (open_cbin chns chnc nc (of_me ftm fte) fs)
  | _ => [-999]
  end.

Definition mismatches := mismatches_of run.
