(* C11 — lemmas about the model of Reader.open / OnlineReader.ns. *)
From Coq Require Import ZArith List Bool Lia Reals Lra.
From Flocq Require Import Core BinarySingleNaN.
From IBL.lib Require Import PyInt.
From IBL.C11 Require Import Model.
Import ListNotations.
Open Scope Z_scope.

(* ------------------------------------------------------------------ *)
(* Integer level (unbounded)                                           *)
(* ------------------------------------------------------------------ *)

Lemma memmap_ok_spec isz nbytes ns nc :
  memmap_ok isz nbytes ns nc = true <-> 0 < nbytes /\ 0 <= ns * nc * isz <= nbytes.
Proof.
  unfold memmap_ok. rewrite !andb_true_iff, Z.ltb_lt, !Z.leb_le. lia.
Qed.

(* whatever the float arithmetic does: an open that succeeds never maps more
   than the file holds, hence exposes at most the complete frames *)
Lemma opened_within_file online isz nbytes nc fts fs ns nc' fts' rw :
  1 <= nc -> 1 <= isz ->
  open_bin online isz nbytes nc fts fs = Opened ns nc' fts' rw ->
  nc' = nc /\ 0 <= ns /\ ns * nc * isz <= nbytes /\ ns <= nbytes / (isz * nc).
Proof.
  intros Hnc Hisz. unfold open_bin.
  destruct (reader_ns online isz nbytes nc fts fs) as [ns0| |]; try discriminate.
  destruct (reader_ns online isz nbytes nc _ fs) as [ns1| |]; try discriminate.
  destruct (memmap_ok isz nbytes ns1 nc) eqn:Hm; try discriminate.
  intros H. injection H as <- <- _ _.
  apply memmap_ok_spec in Hm. destruct Hm as [Hpos [Hlo Hhi]].
  assert (0 < isz * nc) by nia.
  split; [reflexivity|]. split; [nia|]. split; [lia|].
  apply Z.div_le_lower_bound; nia.
Qed.

(* every element of the exposed (ns, nc) array lies inside the file *)
Lemma reads_within_file isz nbytes ns nc i j :
  1 <= nc -> 1 <= isz -> ns * nc * isz <= nbytes -> 0 <= i < ns -> 0 <= j < nc ->
  0 <= byte_offset isz nc i j /\ byte_offset isz nc i j + isz <= ns * nc * isz /\
  byte_offset isz nc i j + isz <= nbytes.
Proof.
  unfold byte_offset. intros Hnc Hisz Hle Hi Hj.
  assert (i * nc <= (ns - 1) * nc) by (apply Z.mul_le_mono_nonneg_r; lia).
  assert (0 <= i * nc) by (apply Z.mul_nonneg_nonneg; lia).
  assert (0 <= i * nc + j) by lia.
  assert (i * nc + j + 1 <= ns * nc) by lia.
  assert (isz * (i * nc + j + 1) <= isz * (ns * nc)) by (apply Z.mul_le_mono_nonneg_l; lia).
  nia.
Qed.

(* distinct (i, j) read distinct, non-overlapping cells: the array is the file prefix *)
Lemma byte_offset_inj isz nc i j i' j' :
  1 <= nc -> 1 <= isz -> 0 <= j < nc -> 0 <= j' < nc ->
  byte_offset isz nc i j = byte_offset isz nc i' j' -> i = i' /\ j = j'.
Proof.
  unfold byte_offset. intros Hnc Hisz Hj Hj' H.
  assert (E : i * nc + j = i' * nc + j') by nia.
  assert (i = i') by nia. subst. lia.
Qed.

(* the c-th cell of the file prefix is element (c / nc, c mod nc) *)
Lemma byte_offset_surj isz nc k :
  1 <= nc -> 0 <= k -> byte_offset isz nc (k / nc) (k mod nc) = isz * k /\ 0 <= k mod nc < nc.
Proof.
  intros Hnc Hk. unfold byte_offset.
  pose proof (Z.div_mod k nc ltac:(lia)). pose proof (Z.mod_pos_bound k nc ltac:(lia)).
  split; [|lia]. f_equal. lia.
Qed.

(* floor facts used by the statement of the property *)
Lemma floor_frames isz nbytes nc :
  1 <= nc -> 1 <= isz -> 0 <= nbytes ->
  let k := nbytes / (isz * nc) in
  k * nc * isz <= nbytes < (k + 1) * nc * isz /\ 0 <= k.
Proof.
  intros Hnc Hisz Hn k. subst k. assert (0 < isz * nc) by nia.
  pose proof (Z.div_mod nbytes (isz * nc) ltac:(lia)).
  pose proof (Z.mod_pos_bound nbytes (isz * nc) ltac:(lia)).
  split; [nia|]. apply Z.div_pos; lia.
Qed.

Lemma exact_frames isz nbytes nc ns : 1 <= nc -> 1 <= isz -> nc * ns * isz = nbytes -> ns = nbytes / (isz * nc).
Proof.
  intros Hnc Hisz H. subst nbytes. replace (nc * ns * isz) with (ns * (isz * nc)) by ring.
  rewrite Z.div_mul by nia. reflexivity.
Qed.

(* ------------------------------------------------------------------ *)
(* binary64 level (Flocq)                                              *)
(* ------------------------------------------------------------------ *)
From Flocq Require Import Relative.
Local Open Scope R_scope.

Definition fexp64 : Z -> Z := FLT_exp (-1074) 53.
Definition rnd64 (x : R) : R := round radix2 fexp64 ZnearestE x.
Definition u64 : R := / 9007199254740992.      (* 2^-53 *)

Lemma fexp_eq : SpecFloat.fexp prec emax = fexp64.
Proof. reflexivity. Qed.

#[local] Instance valid_fexp64 : Valid_exp fexp64 := FLT_exp_valid (-1074) 53.
#[local] Instance valid_NE : Valid_rnd ZnearestE := valid_rnd_N _.

Lemma gen_IZR z : (Z.abs z < 2 ^ 53)%Z -> generic_format radix2 fexp64 (IZR z).
Proof.
  intros H. apply generic_format_FLT. apply FLT_spec with (Float radix2 z 0).
  - unfold F2R. simpl. ring.
  - exact H.
  - simpl. lia.
Qed.

Lemma gen_half z : (Z.abs z < 2 ^ 53)%Z -> generic_format radix2 fexp64 (IZR z / 2).
Proof.
  intros H. apply generic_format_FLT. apply FLT_spec with (Float radix2 z (-1)).
  - unfold F2R, Fnum, Fexp. change (bpow radix2 (-1)) with (/ 2). reflexivity.
  - exact H.
  - simpl. lia.
Qed.

Lemma bpow_emax_big z : (Z.abs z <= 2 ^ 200)%Z -> Rabs (IZR z) < bpow radix2 emax.
Proof.
  intros H. rewrite <- abs_IZR.
  apply Rle_lt_trans with (IZR (2 ^ 200)).
  - apply IZR_le. exact H.
  - change 2%Z with (radix_val radix2). rewrite IZR_Zpower by lia. apply bpow_lt. reflexivity.
Qed.

Lemma of_Z_correct z : (Z.abs z < 2 ^ 53)%Z -> B2R (of_Z z) = IZR z /\ is_finite (of_Z z) = true.
Proof.
  intros H. unfold of_Z, of_me.
  pose proof (binary_normalize_correct prec emax Hprec Hemax mode_NE z 0 false) as C.
  cbv zeta in C.
  replace (F2R {| Fnum := z; Fexp := 0 |}) with (IZR z) in C by (unfold F2R; simpl; ring).
  rewrite fexp_eq in C. change (round_mode mode_NE) with ZnearestE in C.
  rewrite (round_generic radix2 fexp64 ZnearestE (IZR z) (gen_IZR z H)) in C.
  rewrite Rlt_bool_true in C.
  - destruct C as [C1 [C2 _]]. split; assumption.
  - apply bpow_emax_big. lia.
Qed.

Lemma pos_finite (x : b64) : 0 < B2R x -> is_finite x = true.
Proof. destruct x; simpl; intros H; try reflexivity; lra. Qed.

(* relative error of one rounding, for |x| in the normal range *)
Lemma rnd64_rel x : bpow radix2 (-1022) <= Rabs x ->
  exists e, Rabs e <= u64 /\ rnd64 x = x * (1 + e).
Proof.
  intros H.
  destruct (relative_error_N_FLT_ex radix2 (-1074) 53 ltac:(lia) (fun n => negb (Z.even n)) x H)
    as [e [He Hr]].
  exists e. split; [|exact Hr].
  replace u64 with (/ 2 * bpow radix2 (- (53) + 1)); [exact He|].
  change (bpow radix2 (- (53) + 1)) with (/ 4503599627370496). unfold u64. lra.
Qed.

Lemma small_bpow : bpow radix2 (-1022) <= / 36893488147419103232.   (* 2^-65 *)
Proof.
  change (/ 36893488147419103232) with (bpow radix2 (-65)). apply bpow_le. lia.
Qed.

(* the arithmetic heart: two relative errors of 2^-53 move k < 2^50 by less than 1/2 *)
Lemma two_errors k e1 e2 : 0 <= k <= 1125899906842624 -> Rabs e1 <= u64 -> Rabs e2 <= u64 ->
  Rabs (k * (1 + e1) * (1 + e2) - k) < / 2.
Proof.
  unfold u64. intros Hk H1 H2.
  apply Rabs_le_inv in H1. apply Rabs_le_inv in H2.
  set (d := e1 + e2 + e1 * e2).
  assert (Hd : - (3 * / 9007199254740992) <= d <= 3 * / 9007199254740992) by (unfold d; nra).
  replace (k * (1 + e1) * (1 + e2) - k) with (k * d) by (unfold d; ring).
  apply Rabs_def1; nra.
Qed.

Lemma rnd64_bounded x : Rabs x <= bpow radix2 200 -> Rabs (rnd64 x) < bpow radix2 emax.
Proof.
  intros H. apply Rle_lt_trans with (bpow radix2 200).
  - unfold rnd64. apply abs_round_le_generic; [typeclasses eauto|typeclasses eauto| |exact H].
    apply generic_format_bpow. unfold fexp64, FLT_exp. lia.
  - apply bpow_lt. reflexivity.
Qed.

Lemma fdiv_correct x y : B2R y <> 0 -> Rabs (rnd64 (B2R x / B2R y)) < bpow radix2 emax ->
  B2R (fdiv x y) = rnd64 (B2R x / B2R y) /\ is_finite (fdiv x y) = is_finite x.
Proof.
  intros Hy Hb. unfold fdiv.
  pose proof (Bdiv_correct prec emax Hprec Hemax mode_NE x y Hy) as C.
  rewrite fexp_eq in C. change (round_mode mode_NE) with ZnearestE in C.
  fold (rnd64 (B2R x / B2R y)) in C. rewrite (Rlt_bool_true _ _ Hb) in C.
  destruct C as [C1 [C2 _]]. split; assumption.
Qed.

Lemma fmul_correct x y : Rabs (rnd64 (B2R x * B2R y)) < bpow radix2 emax ->
  B2R (fmul x y) = rnd64 (B2R x * B2R y) /\ is_finite (fmul x y) = (is_finite x && is_finite y)%bool.
Proof.
  intros Hb. unfold fmul.
  pose proof (Bmult_correct prec emax Hprec Hemax mode_NE x y) as C.
  rewrite fexp_eq in C. change (round_mode mode_NE) with ZnearestE in C.
  fold (rnd64 (B2R x * B2R y)) in C. rewrite (Rlt_bool_true _ _ Hb) in C.
  destruct C as [C1 [C2 _]]. split; assumption.
Qed.

(* int(np.round(p)) = k as soon as the float p is within 1/2 of the integer k *)
Lemma int_round_near (p : b64) k :
  is_finite p = true -> Rabs (B2R p - IZR k) < / 2 -> int_round p = Some k.
Proof.
  intros Hfin Hnear. unfold int_round, py_int.
  destruct (Bnearbyint_correct prec emax Hemax mode_NE p) as [N1 [N2 _]].
  rewrite N2, Hfin. f_equal. apply eq_IZR.
  rewrite (Btrunc_correct prec emax Hemax). rewrite N1.
  change (round_mode mode_NE) with ZnearestE. rewrite !round_FIX_IZR.
  rewrite (Znearest_imp _ _ k Hnear). now rewrite Ztrunc_IZR.
Qed.

(* sampling rates covered by the float theorems: 2^-64 <= fs <= 2^64 *)
Definition fs_ok (fs : b64) : Prop :=
  / 18446744073709551616 <= B2R fs <= 18446744073709551616.

(* rint(fl(fl(k / fs) * fs)) = k : the rewritten fileTimeSecs reads back as k samples *)
Lemma round_trip k fs : (0 <= k <= 2 ^ 50)%Z -> fs_ok fs ->
  is_finite (fdiv (of_Z k) fs) = true /\
  B2R (fdiv (of_Z k) fs) = rnd64 (IZR k / B2R fs) /\
  int_round (fmul (fdiv (of_Z k) fs) fs) = Some k.
Proof.
  intros Hk [Hlo Hhi].
  assert (HF : 0 < B2R fs) by lra.
  pose proof (pos_finite fs HF) as Hfsfin.
  destruct (of_Z_correct k) as [HkR Hkf]; [lia|].
  assert (HkI : 0 <= IZR k <= 1125899906842624).
  { split; [apply (IZR_le 0 k)|apply (IZR_le k (2 ^ 50))]; lia. }
  set (F := B2R fs) in *.
  set (Fi := / F).
  assert (HFFi : F * Fi = 1) by (unfold Fi; field; lra).
  assert (HFi : / 18446744073709551616 <= Fi <= 18446744073709551616).
  { unfold Fi. split.
    - apply Rinv_le_contravar; lra.
    - replace 18446744073709551616 with (/ / 18446744073709551616) by (field).
      apply Rinv_le_contravar; lra. }
  set (x := IZR k / F).
  assert (Hxe : x = IZR k * Fi) by reflexivity.
  assert (Hx200 : Rabs x <= bpow radix2 200).
  { apply Rle_trans with (bpow radix2 114); [|apply bpow_le; lia].
    change (bpow radix2 114) with 20769187434139310514121985316880384.
    rewrite Rabs_pos_eq; rewrite Hxe; nra. }
  destruct (fdiv_correct (of_Z k) fs ltac:(fold F; lra)) as [Q1 Q2].
  { rewrite HkR. fold F. fold x. apply rnd64_bounded, Hx200. }
  rewrite HkR in Q1. fold F in Q1. fold x in Q1. rewrite Hkf in Q2.
  split; [exact Q2|]. split; [exact Q1|].
  set (q := fdiv (of_Z k) fs) in *.
  (* the product *)
  assert (Hp : exists e1 e2, Rabs e1 <= u64 /\ Rabs e2 <= u64 /\
                 rnd64 (B2R q * F) = IZR k * (1 + e1) * (1 + e2)).
  { destruct (Z.eq_dec k 0) as [->|Hk0].
    - exists 0, 0. unfold u64. rewrite Rabs_R0.
      split; [lra|]. split; [lra|].
      rewrite Q1. unfold x. replace (0 / F) with 0 by (unfold Rdiv; ring).
      unfold rnd64. rewrite round_0 by typeclasses eauto. rewrite Rmult_0_l.
      rewrite round_0 by typeclasses eauto. ring.
    - assert (Hk1 : 1 <= IZR k) by (apply (IZR_le 1 k); lia).
      pose proof small_bpow as Hsm.
      destruct (rnd64_rel x) as [e1 [He1 Hr1]].
      { rewrite Rabs_pos_eq; rewrite Hxe; nra. }
      assert (He1' := Rabs_le_inv _ _ He1). unfold u64 in He1'.
      assert (Hy : B2R q * F = IZR k * (1 + e1)).
      { rewrite Q1, Hr1, Hxe. replace (IZR k * Fi * (1 + e1) * F) with (IZR k * (1 + e1) * (F * Fi)) by ring.
        rewrite HFFi. ring. }
      destruct (rnd64_rel (B2R q * F)) as [e2 [He2 Hr2]].
      { rewrite Hy. rewrite Rabs_pos_eq; nra. }
      exists e1, e2. split; [exact He1|]. split; [exact He2|]. rewrite Hr2, Hy. ring. }
  destruct Hp as [e1 [e2 [He1 [He2 HP]]]].
  pose proof (two_errors (IZR k) e1 e2 HkI He1 He2) as Hnear.
  destruct (fmul_correct q fs) as [P1 P2].
  { fold F. rewrite HP. apply Rlt_trans with (IZR k + / 2).
    - apply Rabs_def2 in Hnear. apply Rabs_def1; lra.
    - apply Rle_lt_trans with (bpow radix2 60); [|apply bpow_lt; reflexivity].
      change (bpow radix2 60) with 1152921504606846976. lra. }
  apply int_round_near.
  - rewrite P2, Q2, Hfsfin. reflexivity.
  - rewrite P1. fold F. rewrite HP. exact Hnear.
Qed.

(* item sizes of NumPy scalar dtypes *)
Definition isz_ok (isz : Z) : Prop := (isz = 1 \/ isz = 2 \/ isz = 4 \/ isz = 8)%Z.

Lemma gen_div_isz z isz : (Z.abs z < 2 ^ 53)%Z -> isz_ok isz ->
  generic_format radix2 fexp64 (IZR z / IZR isz).
Proof.
  intros H Hi.
  assert (exists j, (0 <= j <= 3)%Z /\ IZR z / IZR isz = IZR z * bpow radix2 (- j)) as [j [Hj ->]].
  { destruct Hi as [Hi|[Hi|[Hi|Hi]]]; subst isz.
    - exists 0%Z. split; [lia|]. change (bpow radix2 (- 0)) with 1. unfold Rdiv. rewrite Rinv_1. reflexivity.
    - exists 1%Z. split; [lia|]. reflexivity.
    - exists 2%Z. split; [lia|]. reflexivity.
    - exists 3%Z. split; [lia|]. reflexivity. }
  apply generic_format_FLT. apply FLT_spec with (Float radix2 z (- j)); [reflexivity|exact H|simpl; lia].
Qed.

(* OnlineReader.ns: int(st_size / itemsize / nc) is the floor for st_size, itemsize * nc < 2^53 *)
Lemma ns_online_floor isz n nc : isz_ok isz -> (0 <= n < 2 ^ 53)%Z -> (1 <= nc)%Z -> (isz * nc < 2 ^ 53)%Z ->
  ns_online isz n nc = NsOk (n / (isz * nc)).
Proof.
  intros Hisz Hn Hnc Hinc. unfold ns_online.
  assert (Hi18 : (1 <= isz <= 8)%Z) by (unfold isz_ok in Hisz; lia).
  assert (Hnc53 : (nc < 2 ^ 53)%Z) by nia.
  destruct (of_Z_correct n) as [HnR Hnf]; [lia|].
  destruct (of_Z_correct isz) as [H2R H2f]; [lia|].
  destruct (of_Z_correct nc) as [HcR Hcf]; [lia|].
  set (m := (n / (isz * nc))%Z).
  assert (Hm : (m * (isz * nc) <= n /\ n + 1 <= (m + 1) * (isz * nc) /\ 0 <= m < 2 ^ 53)%Z).
  { unfold m. assert (0 < isz * nc)%Z by nia.
    pose proof (Z.div_mod n (isz * nc) ltac:(lia)).
    pose proof (Z.mod_pos_bound n (isz * nc) ltac:(lia)).
    assert (0 <= n / (isz * nc))%Z by (apply Z.div_pos; lia).
    assert (n / (isz * nc) <= n)%Z by (apply Z.div_le_upper_bound; nia).
    nia. }
  destruct Hm as [Hm1 [Hm2 Hm3]].
  set (N := IZR n). set (C := IZR nc). set (M := IZR m). set (I := IZR isz).
  assert (HN : 0 <= N < 9007199254740992).
  { unfold N. split; [apply (IZR_le 0 n)|apply (IZR_lt n (2 ^ 53))]; lia. }
  assert (HC : 1 <= C < 9007199254740992).
  { unfold C. split; [apply (IZR_le 1 nc)|apply (IZR_lt nc (2 ^ 53))]; lia. }
  assert (HI : 1 <= I <= 8).
  { unfold I. split; [apply (IZR_le 1 isz)|apply (IZR_le isz 8)]; lia. }
  assert (HM : 0 <= M < 9007199254740992).
  { unfold M. split; [apply (IZR_le 0 m)|apply (IZR_lt m (2 ^ 53))]; lia. }
  assert (HMN1 : M * (I * C) <= N).
  { unfold M, C, N, I. rewrite <- (mult_IZR isz nc), <- mult_IZR. apply IZR_le. exact Hm1. }
  assert (HMN2 : N + 1 <= (M + 1) * (I * C)).
  { unfold M, C, N, I. rewrite <- (mult_IZR isz nc), <- (plus_IZR m 1), <- mult_IZR, <- (plus_IZR n 1).
    apply IZR_le. exact Hm2. }
  (* first division: exact *)
  destruct (fdiv_correct (of_Z n) (of_Z isz)) as [A1 A2].
  { rewrite H2R. fold I. lra. }
  { rewrite HnR, H2R. unfold rnd64. rewrite round_generic by (first [typeclasses eauto | apply gen_div_isz; [lia|exact Hisz]]).
    apply Rle_lt_trans with (bpow radix2 60); [|apply bpow_lt; reflexivity].
    change (bpow radix2 60) with 1152921504606846976. fold N. fold I.
    assert (0 <= N / I <= N).
    { unfold Rdiv. assert (0 < / I <= 1).
      { split; [apply Rinv_0_lt_compat; lra|]. replace 1 with (/ 1) by field. apply Rinv_le_contravar; lra. }
      nra. }
    rewrite Rabs_pos_eq; lra. }
  rewrite HnR, H2R in A1. unfold rnd64 in A1.
  rewrite round_generic in A1 by (first [typeclasses eauto | apply gen_div_isz; [lia|exact Hisz]]).
  fold N in A1. fold I in A1. rewrite Hnf in A2.
  set (a := fdiv (of_Z n) (of_Z isz)) in *.
  (* second division *)
  set (Ci := / C). set (Ii := / I).
  assert (HCCi : C * Ci = 1) by (unfold Ci; field; lra).
  assert (HIIi : I * Ii = 1) by (unfold Ii; field; lra).
  assert (HCi : / 9007199254740992 <= Ci <= 1).
  { unfold Ci. split.
    - apply Rinv_le_contravar; lra.
    - replace 1 with (/ 1) by field. apply Rinv_le_contravar; lra. }
  assert (HIi : / 8 <= Ii <= 1).
  { unfold Ii. split.
    - apply Rinv_le_contravar; lra.
    - replace 1 with (/ 1) by field. apply Rinv_le_contravar; lra. }
  set (x := N / I / C).
  assert (Hxe : x = N * Ii * Ci) by reflexivity.
  assert (Hx2C : x * (I * C) = N).
  { rewrite Hxe. replace (N * Ii * Ci * (I * C)) with (N * (I * Ii) * (C * Ci)) by ring.
    rewrite HCCi, HIIi. ring. }
  assert (HIC : 0 < I * C) by nra.
  assert (HMx : M <= x).
  { apply Rmult_le_reg_r with (I * C); [lra|]. rewrite Hx2C. exact HMN1. }
  assert (Hlow : M <= rnd64 x).
  { unfold rnd64. apply round_ge_generic; try typeclasses eauto; [|exact HMx].
    apply gen_IZR. lia. }
  assert (Hup : rnd64 x < M + 1).
  { destruct (Req_dec N 0) as [HN0|HN0].
    - assert (x = 0) by (rewrite Hxe, HN0; ring).
      unfold rnd64. rewrite H. rewrite round_0 by typeclasses eauto. lra.
    - assert (HN1 : 1 <= N).
      { unfold N in *. apply (IZR_le 1 n). assert (n <> 0)%Z by (intros ->; apply HN0; reflexivity). lia. }
      pose proof small_bpow as Hsm.
      destruct (rnd64_rel x) as [e [He Hr]].
      { assert (/ 8 * / 9007199254740992 <= Ii * Ci) by nra.
        assert (Ii * Ci <= N * Ii * Ci) by nra.
        rewrite Rabs_pos_eq; rewrite Hxe; lra. }
      apply Rabs_le_inv in He. unfold u64 in He.
      rewrite Hr. apply Rmult_lt_reg_r with (I * C); [lra|].
      replace (x * (1 + e) * (I * C)) with (x * (I * C) * (1 + e)) by ring.
      rewrite Hx2C. apply Rlt_le_trans with (N + 1); [nra|exact HMN2]. }
  destruct (fdiv_correct a (of_Z nc)) as [B1 B2].
  { rewrite HcR. fold C. lra. }
  { rewrite A1, HcR. fold C. fold x.
    apply Rle_lt_trans with (bpow radix2 60); [|apply bpow_lt; reflexivity].
    change (bpow radix2 60) with 1152921504606846976. rewrite Rabs_pos_eq; lra. }
  rewrite A1, HcR in B1. fold C in B1. fold x in B1. rewrite A2 in B2.
  unfold py_int. rewrite B2. f_equal. apply eq_IZR.
  rewrite (Btrunc_correct prec emax Hemax). rewrite round_FIX_IZR. rewrite B1.
  rewrite Ztrunc_floor by lra. f_equal. apply Zfloor_imp. rewrite plus_IZR. fold M. lra.
Qed.

Local Open Scope Z_scope.

Lemma ns_meta_round_trip k fs : 0 <= k <= 2 ^ 50 -> fs_ok fs ->
  ns_meta (Some (fdiv (of_Z k) fs)) fs = NsOk k.
Proof.
  intros Hk Hfs. unfold ns_meta.
  destruct (round_trip k fs Hk Hfs) as [_ [_ H]]. now rewrite H.
Qed.

(* Reader (offline, meta with fileTimeSecs): the open succeeds and exposes exactly the complete frames *)
Lemma open_offline_floor isz nbytes nc t fs ns0 :
  1 <= nc -> 1 <= isz -> 1 <= nbytes -> nbytes / (isz * nc) <= 2 ^ 50 -> fs_ok fs ->
  ns_meta (Some t) fs = NsOk ns0 ->
  let k := nbytes / (isz * nc) in
  let rw := negb (nc * ns0 * isz =? nbytes) in
  open_bin false isz nbytes nc (Some t) fs =
    Opened k nc (if rw then Some (rl k fs) else Some t) rw.
Proof.
  intros Hnc Hisz Hnb Hk Hfs Hns0 k rw.
  destruct (floor_frames isz nbytes nc Hnc Hisz ltac:(lia)) as [[Hlo Hhi] Hk0]. fold k in Hlo, Hhi, Hk0.
  unfold open_bin, reader_ns. rewrite Hns0. fold rw.
  destruct rw eqn:Erw.
  - unfold rl. fold k. rewrite (ns_meta_round_trip k fs ltac:(lia) Hfs).
    replace (memmap_ok isz nbytes k nc) with true; [reflexivity|].
    symmetry. apply memmap_ok_spec. nia.
  - rewrite Hns0. subst rw. apply negb_false_iff, Z.eqb_eq in Erw.
    rewrite (exact_frames isz nbytes nc ns0 Hnc Hisz Erw). fold k.
    replace (memmap_ok isz nbytes k nc) with true; [reflexivity|].
    symmetry. apply memmap_ok_spec. nia.
Qed.

(* OnlineReader: same, whatever fileTimeSecs the meta file has (or has not) *)
Lemma open_online_floor isz nbytes nc fts fs :
  isz_ok isz -> 1 <= nc -> isz * nc < 2 ^ 53 -> 1 <= nbytes < 2 ^ 53 ->
  let k := nbytes / (isz * nc) in
  let rw := negb (nc * k * isz =? nbytes) in
  open_bin true isz nbytes nc fts fs =
    Opened k nc (if rw then Some (rl k fs) else fts) rw.
Proof.
  intros Hisz Hnc Hinc Hnb k rw.
  assert (Hi1 : 1 <= isz) by (unfold isz_ok in Hisz; lia).
  destruct (floor_frames isz nbytes nc Hnc Hi1 ltac:(lia)) as [[Hlo Hhi] Hk0]. fold k in Hlo, Hhi, Hk0.
  unfold open_bin, reader_ns. rewrite (ns_online_floor isz nbytes nc Hisz ltac:(lia) Hnc Hinc). fold k. fold rw.
  replace (memmap_ok isz nbytes k nc) with true; [|symmetry; apply memmap_ok_spec; nia].
  destruct rw; reflexivity.
Qed.

(* recording in progress (meta file without fileTimeSecs), file ending in a partial frame:
   OnlineReader opens with the floor frame count and writes fileTimeSecs = k / fs *)
Lemma open_online_in_progress isz nbytes nc fs :
  isz_ok isz -> 1 <= nc -> isz * nc < 2 ^ 53 -> 1 <= nbytes < 2 ^ 53 -> nbytes mod (isz * nc) <> 0 ->
  let k := nbytes / (isz * nc) in
  open_bin true isz nbytes nc None fs = Opened k nc (Some (rl k fs)) true.
Proof.
  intros Hisz Hnc Hinc Hnb Hmod k. rewrite (open_online_floor isz nbytes nc None fs Hisz Hnc Hinc Hnb). fold k.
  assert (Hi1 : 1 <= isz) by (unfold isz_ok in Hisz; lia).
  replace (nc * k * isz =? nbytes) with false; [reflexivity|].
  symmetry. apply Z.eqb_neq. intros E. apply Hmod. subst k.
  assert (0 < isz * nc) by nia.
  pose proof (Z.div_mod nbytes (isz * nc) ltac:(lia)). nia.
Qed.

(* the offline Reader cannot evaluate Reader.ns without fileTimeSecs: TypeError, always *)
Lemma open_offline_no_fts isz nbytes nc fs : open_bin false isz nbytes nc None fs = TypeErr.
Proof. reflexivity. Qed.

(* compressed stream: the .ch announces chns frames *)
Lemma open_cbin_exposes chns nc t fs ns0 :
  0 <= chns <= 2 ^ 50 -> fs_ok fs ->
  ns_meta (Some t) fs = NsOk ns0 ->
  let rw := negb ((chns =? ns0) && (nc =? nc)) in
  open_cbin chns nc nc (Some t) fs = Opened chns nc (if rw then Some (rl chns fs) else Some t) rw.
Proof.
  intros Hk Hfs Hns0 rw. unfold open_cbin. rewrite Hns0. fold rw.
  destruct rw eqn:Erw.
  - unfold rl. now rewrite (ns_meta_round_trip chns fs Hk Hfs).
  - rewrite Hns0. subst rw. apply negb_false_iff, andb_true_iff in Erw.
    destruct Erw as [E _]. apply Z.eqb_eq in E. now subst.
Qed.

(* duration: rl is the correctly rounded quotient ns / fs, and it reads back as ns samples *)
Lemma rl_correct ns fs : 0 <= ns <= 2 ^ 50 -> fs_ok fs ->
  is_finite (rl ns fs) = true /\
  B2R (rl ns fs) = rnd64 (IZR ns / B2R fs) /\
  ns_meta (Some (rl ns fs)) fs = NsOk ns.
Proof.
  intros Hk Hfs. unfold rl. destruct (round_trip ns fs Hk Hfs) as [H1 [H2 _]].
  split; [exact H1|]. split; [exact H2|]. apply ns_meta_round_trip; assumption.
Qed.

(* floats handed over as m * 2^e are exact (how concrete sampling rates enter the examples) *)
Lemma of_me_correct m e : Z.abs m < 2 ^ 53 -> -1074 <= e <= 0 ->
  B2R (of_me m e) = (IZR m * bpow radix2 e)%R /\ is_finite (of_me m e) = true.
Proof.
  intros H He. unfold of_me.
  pose proof (binary_normalize_correct prec emax Hprec Hemax mode_NE m e false) as C.
  cbv zeta in C.
  replace (F2R {| Fnum := m; Fexp := e |}) with (IZR m * bpow radix2 e)%R in C by reflexivity.
  rewrite fexp_eq in C. change (round_mode mode_NE) with ZnearestE in C.
  assert (G : generic_format radix2 fexp64 (IZR m * bpow radix2 e)).
  { apply generic_format_FLT. apply FLT_spec with (Float radix2 m e); [reflexivity|exact H|exact (proj1 He)]. }
  rewrite (round_generic radix2 fexp64 ZnearestE _ G) in C.
  rewrite Rlt_bool_true in C.
  - destruct C as [C1 [C2 _]]. split; assumption.
  - rewrite Rabs_mult. rewrite (Rabs_pos_eq (bpow radix2 e)) by apply bpow_ge_0.
    apply Rle_lt_trans with (Rabs (IZR m) * 1)%R.
    + apply Rmult_le_compat_l; [apply Rabs_pos|].
      change 1%R with (bpow radix2 0). apply bpow_le. lia.
    + rewrite Rmult_1_r. apply bpow_emax_big. lia.
Qed.

Lemma prefix_cells isz ns nc c : 1 <= nc -> 0 <= c < ns * nc ->
  byte_offset isz nc (c / nc) (c mod nc) = isz * c /\ 0 <= c / nc < ns /\ 0 <= c mod nc < nc.
Proof.
  intros Hnc Hc. destruct (byte_offset_surj isz nc c Hnc (proj1 Hc)) as [H1 H2].
  split; [exact H1|]. split; [|exact H2]. split.
  - apply Z.div_pos; lia.
  - apply Z.div_lt_upper_bound; lia.
Qed.

(* ------------------------------------------------------------------ *)
(* The reader as a stateful object                                     *)
(* ------------------------------------------------------------------ *)

Lemma open_bin_open_at online isz nbytes nc fts fs :
  open_bin online isz nbytes nc fts fs = fst (open_at online isz nbytes nc fts fs).
Proof.
  unfold open_bin, open_at.
  destruct (reader_ns online isz nbytes nc fts fs); try reflexivity.
  destruct (reader_ns online isz nbytes nc _ fs); reflexivity.
Qed.

(* the second component of open_at (meta fileTimeSecs afterwards) when the open succeeds *)
Lemma open_at_opened online isz cur nc fts fs k nc' f rw :
  open_bin online isz cur nc fts fs = Opened k nc' f rw ->
  open_at online isz cur nc fts fs = (Opened k nc' f rw, f).
Proof.
  unfold open_bin, open_at.
  destruct (reader_ns online isz cur nc fts fs); try discriminate.
  destruct (reader_ns online isz cur nc _ fs); try discriminate.
  destruct (memmap_ok isz cur ns0 nc); try discriminate.
  intros H. injection H as <- <- <- <-. reflexivity.
Qed.

(* OnlineReader.open: floor of the CURRENT size *)
Lemma open_at_online isz cur nc fts fs :
  isz_ok isz -> 1 <= nc -> isz * nc < 2 ^ 53 -> 1 <= cur < 2 ^ 53 ->
  let k := cur / (isz * nc) in
  let rw := negb (nc * k * isz =? cur) in
  let fts' := if rw then Some (rl k fs) else fts in
  open_at true isz cur nc fts fs = (Opened k nc fts' rw, fts').
Proof.
  intros Hisz Hnc Hinc Hnb k rw fts'. apply open_at_opened.
  exact (open_online_floor isz cur nc fts fs Hisz Hnc Hinc Hnb).
Qed.

(* Reader.open (offline): floor of the CURRENT size as well (since repair aa7f63d the claim is
   compared with a fresh stat) *)
Lemma open_at_offline isz cur nc t fs ns0 :
  1 <= nc -> 1 <= isz -> 1 <= cur -> cur / (isz * nc) <= 2 ^ 50 -> fs_ok fs ->
  ns_meta (Some t) fs = NsOk ns0 ->
  let k := cur / (isz * nc) in
  let rw := negb (nc * ns0 * isz =? cur) in
  let fts' := if rw then Some (rl k fs) else Some t in
  open_at false isz cur nc (Some t) fs = (Opened k nc fts' rw, fts').
Proof.
  intros Hnc Hisz Hnb Hk Hfs Hns0 k rw fts'. apply open_at_opened.
  exact (open_offline_floor isz cur nc t fs ns0 Hnc Hisz Hnb Hk Hfs Hns0).
Qed.

(* --- histories on one reader object --- *)
(* sizes the file may take: at least one byte; OnlineReader: below 2^53; Reader: at most 2^50 frames *)
Definition size_ok (online : bool) (isz nc n : Z) : Prop :=
  if online then 1 <= n < 2 ^ 53 else 1 <= n /\ n / (isz * nc) <= 2 ^ 50.

Definition op_ok (online : bool) (isz nc : Z) (o : op) : Prop :=
  match o with OpResize n => size_ok online isz nc n | _ => True end.

(* what holds of every snapshot of a history, for both classes: every open attempt succeeds, maps
   exactly the floor of the size the file has at that moment, and sr.ns then equals it *)
Definition snap_ok (isz nc : Z) (s : (Z * reader) * option outcome) : Prop :=
  let '((cur, r), out) := s in
  let k := cur / (isz * nc) in
  forall o, out = Some o ->
    r_mapped r = Some k /\ live_ns cur r = NsOk k /\
    exists fts' rw, o = Opened k nc fts' rw /\ r_fts r = fts'.

(* what differs: OnlineReader.ns follows the file at every moment, also before any open and
   between opens; Reader.ns is whatever the meta dictionary currently says *)
Definition online_snap_ok (isz nc : Z) (s : (Z * reader) * option outcome) : Prop :=
  let '((cur, r), _) := s in live_ns cur r = NsOk (cur / (isz * nc)).
Definition offline_snap_ok (s : (Z * reader) * option outcome) : Prop :=
  let '((cur, r), _) := s in live_ns cur r = ns_meta (r_fts r) (r_fs r).

Definition online_inv (isz nc : Z) (w : Z * reader) : Prop :=
  r_online (snd w) = true /\ r_isz (snd w) = isz /\ r_nc (snd w) = nc /\ 1 <= fst w < 2 ^ 53.

Definition offline_inv (isz nc : Z) (fs : b64) (w : Z * reader) : Prop :=
  r_online (snd w) = false /\ r_isz (snd w) = isz /\ r_nc (snd w) = nc /\ r_fs (snd w) = fs /\
  size_ok false isz nc (fst w) /\
  exists t ns0, r_fts (snd w) = Some t /\ ns_meta (Some t) fs = NsOk ns0.

Section OnlineHistory.
Variables isz nc : Z.
Hypothesis Hisz : isz_ok isz.
Hypothesis Hnc : 1 <= nc.
Hypothesis Hinc : isz * nc < 2 ^ 53.
Set Default Proof Using "Hisz Hnc Hinc".

Lemma live_ns_online cur r : online_inv isz nc (cur, r) ->
  live_ns cur r = NsOk (cur / (isz * nc)).
Proof.
  intros [Ho [Hi [Hn Hc]]]. cbn [fst snd] in *. unfold live_ns, reader_ns. rewrite Ho, Hi, Hn.
  apply ns_online_floor; auto; lia.
Qed.

Lemma do_open_online cur r : online_inv isz nc (cur, r) ->
  let '(r', out) := do_open cur r in
  online_inv isz nc (cur, r') /\ snap_ok isz nc ((cur, r'), Some out).
Proof.
  intros [Ho [Hi [Hn Hc]]]. cbn [fst snd] in *. unfold do_open.
  rewrite Ho, Hi, Hn. rewrite (open_at_online isz cur nc (r_fts r) (r_fs r) Hisz Hnc Hinc Hc).
  assert (Hinv' : forall f m, online_inv isz nc (cur, mkReader true isz nc (r_fs r) f m))
    by (intros; repeat split; cbn; auto; lia).
  split; [apply Hinv'|].
  intros o Eo. injection Eo as <-. cbn [r_mapped r_fts]. split; [reflexivity|].
  split; [apply live_ns_online, Hinv'|]. eauto.
Qed.

Lemma step_online w o : online_inv isz nc w -> op_ok true isz nc o ->
  online_inv isz nc (fst (step w o)) /\ snap_ok isz nc (step w o) /\ online_snap_ok isz nc (step w o).
Proof.
  intros Hinv Hop. destruct w as [cur r]. destruct o as [n| |]; cbn [step].
  - assert (Hinv' : online_inv isz nc (n, r)).
    { destruct Hinv as [Ho [Hi [Hn _]]]. repeat split; cbn in *; auto; lia. }
    split; [exact Hinv'|]. split; [intros o E; discriminate|]. apply live_ns_online; assumption.
  - pose proof (do_open_online cur r Hinv) as H. destruct (do_open cur r) as [r' out].
    destruct H as [H1 H2]. split; [exact H1|]. split; [exact H2|]. apply live_ns_online; exact H1.
  - destruct (r_mapped r) eqn:Em.
    + split; [exact Hinv|]. split; [intros o E; discriminate|]. apply live_ns_online; assumption.
    + pose proof (do_open_online cur r Hinv) as H. destruct (do_open cur r) as [r' out].
      destruct H as [H1 H2]. split; [exact H1|]. split; [exact H2|]. apply live_ns_online; exact H1.
Qed.

Lemma exec_online ops : forall w, online_inv isz nc w -> Forall (op_ok true isz nc) ops ->
  Forall (fun s => snap_ok isz nc s /\ online_snap_ok isz nc s) (exec w ops).
Proof.
  induction ops as [|o tl IH]; intros w Hinv Hops; cbn [exec]; [constructor|].
  inversion Hops as [|? ? Ho Htl]; subst.
  pose proof (step_online w o Hinv Ho) as [Hinv' Hsnap].
  destruct (step w o) as [w' out]. constructor; [exact Hsnap|]. apply IH; assumption.
Qed.

(* every history of appends / cuts / opens / re-opens / context-manager entries on an OnlineReader *)
Lemma history_online fs fts cur0 do_op ops :
  size_ok true isz nc cur0 -> Forall (op_ok true isz nc) ops ->
  Forall (fun s => snap_ok isz nc s /\ online_snap_ok isz nc s) (history true isz nc fs fts cur0 do_op ops).
Proof.
  intros Hc Hops. unfold history, construct. cbn [size_ok] in Hc.
  set (r0 := mkReader true isz nc fs fts None).
  assert (Hinv0 : online_inv isz nc (cur0, r0)) by (repeat split; cbn; auto; lia).
  destruct do_op.
  - pose proof (step_online (cur0, r0) OpOpen Hinv0 I) as [Hinv' Hsnap].
    destruct (step (cur0, r0) OpOpen) as [w' out]. constructor; [exact Hsnap|].
    apply exec_online; assumption.
  - constructor.
    + split; [intros o E; discriminate|]. apply live_ns_online; assumption.
    + apply exec_online; assumption.
Qed.
End OnlineHistory.

Section OfflineHistory.
Variables isz nc : Z.
Variable fs : b64.
Hypothesis Hisz : 1 <= isz.
Hypothesis Hnc : 1 <= nc.
Hypothesis Hfs : fs_ok fs.
Set Default Proof Using "Hisz Hnc Hfs".

Lemma live_ns_offline cur r : r_online r = false -> live_ns cur r = ns_meta (r_fts r) (r_fs r).
Proof. intros Ho. unfold live_ns, reader_ns. now rewrite Ho. Qed.

Lemma do_open_offline cur r : offline_inv isz nc fs (cur, r) ->
  let '(r', out) := do_open cur r in
  offline_inv isz nc fs (cur, r') /\ snap_ok isz nc ((cur, r'), Some out).
Proof.
  intros [Ho [Hi [Hn [Hf [[Hc1 Hc2] [t [ns0 [Ht Hns0]]]]]]]]. cbn [fst snd] in *. unfold do_open.
  rewrite Ho, Hi, Hn, Hf, Ht.
  rewrite (open_at_offline isz cur nc t fs ns0 Hnc Hisz Hc1 Hc2 Hfs Hns0).
  set (k := cur / (isz * nc)).
  destruct (floor_frames isz cur nc Hnc Hisz ltac:(lia)) as [_ Hk0]. fold k in Hk0.
  (* whatever branch: the fileTimeSecs afterwards reads back as k samples *)
  assert (Hread : ns_meta (if negb (nc * ns0 * isz =? cur) then Some (rl k fs) else Some t) fs = NsOk k).
  { destruct (negb (nc * ns0 * isz =? cur)) eqn:E.
    - unfold rl. apply ns_meta_round_trip; [fold k in Hc2; lia|exact Hfs].
    - apply negb_false_iff, Z.eqb_eq in E. rewrite Hns0.
      now rewrite (exact_frames isz cur nc ns0 Hnc Hisz E). }
  split.
  - repeat split; cbn [fst snd r_online r_isz r_nc r_fs r_fts]; auto.
    destruct (negb (nc * ns0 * isz =? cur)); eauto.
  - intros o Eo. injection Eo as <-. cbn [r_mapped r_fts]. split; [reflexivity|].
    split; [|eauto]. unfold live_ns, reader_ns. cbn [r_online r_fts r_fs]. exact Hread.
Qed.

Lemma step_offline w o : offline_inv isz nc fs w -> op_ok false isz nc o ->
  offline_inv isz nc fs (fst (step w o)) /\ snap_ok isz nc (step w o) /\ offline_snap_ok (step w o).
Proof.
  intros Hinv Hop. destruct w as [cur r]. destruct o as [n| |]; cbn [step].
  - destruct Hinv as [Ho [Hi [Hn [Hf [_ Hex]]]]]. cbn [fst snd] in *.
    split; [repeat split; cbn [fst snd]; auto; apply Hop|].
    split; [intros o E; discriminate|]. apply live_ns_offline; exact Ho.
  - pose proof (do_open_offline cur r Hinv) as H. destruct (do_open cur r) as [r' out].
    destruct H as [H1 H2]. split; [exact H1|]. split; [exact H2|]. apply live_ns_offline. apply H1.
  - destruct (r_mapped r) eqn:Em.
    + split; [exact Hinv|]. split; [intros o E; discriminate|]. apply live_ns_offline. apply Hinv.
    + pose proof (do_open_offline cur r Hinv) as H. destruct (do_open cur r) as [r' out].
      destruct H as [H1 H2]. split; [exact H1|]. split; [exact H2|]. apply live_ns_offline. apply H1.
Qed.

Lemma exec_offline ops : forall w, offline_inv isz nc fs w -> Forall (op_ok false isz nc) ops ->
  Forall (fun s => snap_ok isz nc s /\ offline_snap_ok s) (exec w ops).
Proof.
  induction ops as [|o tl IH]; intros w Hinv Hops; cbn [exec]; [constructor|].
  inversion Hops as [|? ? Ho Htl]; subst.
  pose proof (step_offline w o Hinv Ho) as [Hinv' Hsnap].
  destruct (step w o) as [w' out]. constructor; [exact Hsnap|]. apply IH; assumption.
Qed.

(* every history on an offline Reader whose meta file has a convertible fileTimeSecs *)
Lemma history_offline t ns0 cur0 do_op ops :
  ns_meta (Some t) fs = NsOk ns0 ->
  size_ok false isz nc cur0 -> Forall (op_ok false isz nc) ops ->
  Forall (fun s => snap_ok isz nc s /\ offline_snap_ok s) (history false isz nc fs (Some t) cur0 do_op ops).
Proof.
  intros Hns0 Hc Hops. unfold history, construct.
  set (r0 := mkReader false isz nc fs (Some t) None).
  assert (Hinv0 : offline_inv isz nc fs (cur0, r0)).
  { unfold offline_inv. cbn [fst snd r0 r_online r_isz r_nc r_fs r_fts].
    split; [reflexivity|]. split; [reflexivity|]. split; [reflexivity|]. split; [reflexivity|].
    split; [exact Hc|]. exists t, ns0. split; [reflexivity|exact Hns0]. }
  destruct do_op.
  - pose proof (step_offline (cur0, r0) OpOpen Hinv0 I) as [Hinv' Hsnap].
    destruct (step (cur0, r0) OpOpen) as [w' out]. constructor; [exact Hsnap|].
    apply exec_offline; assumption.
  - constructor.
    + split; [intros o E; discriminate|]. reflexivity.
    + apply exec_offline; assumption.
Qed.
End OfflineHistory.

(* ------------------------------------------------------------------ *)
(* Discharging the hypothesis "Reader.ns can convert the fileTimeSecs"  *)
(* ------------------------------------------------------------------ *)
Unset Default Proof Using.
Local Open Scope R_scope.

(* any finite duration up to 2^100 s (a meta file holds a non-negative decimal number) *)
Lemma ns_meta_total t fs : is_finite t = true -> fs_ok fs -> Rabs (B2R t) <= bpow radix2 100 ->
  exists n, ns_meta (Some t) fs = NsOk n.
Proof.
  intros Ht [Hlo Hhi] Hb.
  assert (HF : 0 < B2R fs) by lra.
  pose proof (pos_finite fs HF) as Hfsfin.
  destruct (fmul_correct t fs) as [P1 P2].
  { apply rnd64_bounded. rewrite Rabs_mult. rewrite (Rabs_pos_eq (B2R fs)) by lra.
    apply Rle_trans with (bpow radix2 100 * bpow radix2 64).
    - apply Rmult_le_compat; [apply Rabs_pos|lra|exact Hb|].
      change (bpow radix2 64) with 18446744073709551616. exact Hhi.
    - rewrite <- bpow_plus. apply bpow_le. lia. }
  unfold ns_meta, int_round, py_int.
  destruct (Bnearbyint_correct prec emax Hemax mode_NE (fmul t fs)) as [_ [N2 _]].
  rewrite N2, P2, Ht, Hfsfin. cbn [andb]. eauto.
Qed.

Local Open Scope Z_scope.

(* an empty file never opens: np.memmap refuses to map an empty file *)
Lemma empty_file_never_opens online isz nc fts fs ns nc' f rw :
  open_bin online isz 0 nc fts fs <> Opened ns nc' f rw.
Proof.
  unfold open_bin.
  destruct (reader_ns online isz 0 nc fts fs); try discriminate.
  destruct (reader_ns online isz 0 nc _ fs); discriminate.
Qed.

(* ------------------------------------------------------------------ *)
(* Readers without a meta file                                         *)
(* ------------------------------------------------------------------ *)

(* offline, caller's ns: the array has exactly the caller's ns frames, and the open succeeds
   exactly when those frames fit in the (non-empty) file; nothing is ever adjusted *)
Lemma open_nometa_offline isz nbytes nc ns :
  open_nometa false isz nbytes nc ns =
    if memmap_ok isz nbytes ns nc then Opened ns nc None false else MmapError.
Proof. reflexivity. Qed.

Lemma open_nometa_offline_iff isz nbytes nc ns :
  (exists n c f rw, open_nometa false isz nbytes nc ns = Opened n c f rw) <->
  0 < nbytes /\ 0 <= ns * nc * isz <= nbytes.
Proof.
  rewrite open_nometa_offline. rewrite <- memmap_ok_spec.
  destruct (memmap_ok isz nbytes ns nc); split.
  - reflexivity.
  - intros _. eauto.
  - intros [n [c [f [rw H]]]]. discriminate.
  - discriminate.
Qed.

(* OnlineReader without meta file: floor of the size, the caller's ns is ignored *)
Lemma open_nometa_online isz nbytes nc ns :
  isz_ok isz -> 1 <= nc -> isz * nc < 2 ^ 53 -> 1 <= nbytes < 2 ^ 53 ->
  open_nometa true isz nbytes nc ns = Opened (nbytes / (isz * nc)) nc None false.
Proof.
  intros Hisz Hnc Hinc Hnb. unfold open_nometa.
  rewrite (ns_online_floor isz nbytes nc Hisz ltac:(lia) Hnc Hinc).
  assert (Hi1 : 1 <= isz) by (unfold isz_ok in Hisz; lia).
  destruct (floor_frames isz nbytes nc Hnc Hi1 ltac:(lia)) as [[Hlo Hhi] Hk0].
  replace (memmap_ok isz nbytes (nbytes / (isz * nc)) nc) with true; [reflexivity|].
  symmetry. apply memmap_ok_spec. nia.
Qed.

(* no arguments at all, int16: the channel count is guessed from the size and the frames are all of them *)
Lemma nometa_guess nbytes a :
  1 <= nbytes < 2 ^ 53 -> guess_nc nbytes = Some a ->
  (a = 384 \/ a = 385) /\ nbytes mod (2 * a) = 0 /\
  construct_nometa nbytes None None None = NmOk a (nbytes / (2 * a)) 30000 /\
  open_nometa false 2 nbytes a (nbytes / (2 * a)) = Opened (nbytes / (2 * a)) a None false.
Proof.
  intros Hnb Hg. unfold guess_nc in Hg.
  assert (Ha : (a = 384 \/ a = 385) /\ nbytes mod (2 * a) = 0).
  { destruct (nbytes mod (2 * 384) =? 0) eqn:E1.
    - injection Hg as <-. apply Z.eqb_eq in E1. auto.
    - destruct (nbytes mod (2 * 385) =? 0) eqn:E2; [|discriminate].
      injection Hg as <-. apply Z.eqb_eq in E2. auto. }
  destruct Ha as [Ha Hm]. split; [exact Ha|]. split; [exact Hm|].
  assert (Hns : ns_online 2 nbytes a = NsOk (nbytes / (2 * a))).
  { apply ns_online_floor; [right; left; reflexivity|lia|lia|lia]. }
  split.
  - unfold construct_nometa. unfold guess_nc.
    destruct Ha as [-> | ->].
    + replace (nbytes mod (2 * 384) =? 0) with true by (symmetry; apply Z.eqb_eq; exact Hm).
      rewrite Hns. reflexivity.
    + unfold guess_nc in Hg.
      destruct (nbytes mod (2 * 384) =? 0) eqn:E1; [discriminate|].
      replace (nbytes mod (2 * 385) =? 0) with true by (symmetry; apply Z.eqb_eq; exact Hm).
      rewrite Hns. reflexivity.
  - rewrite open_nometa_offline.
    replace (memmap_ok 2 nbytes (nbytes / (2 * a)) a) with true; [reflexivity|].
    symmetry. apply memmap_ok_spec.
    assert (0 < 2 * a) by lia.
    pose proof (Z.div_mod nbytes (2 * a) ltac:(lia)).
    assert (0 <= nbytes / (2 * a)) by (apply Z.div_pos; lia). nia.
Qed.
