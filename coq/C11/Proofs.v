(* C11 — lemmas about the model of Reader.open / OnlineReader.ns. *)
From Coq Require Import ZArith List Bool Lia Reals Lra.
From Flocq Require Import Core BinarySingleNaN.
From IBL.lib Require Import PyInt.
From IBL.C11 Require Import Model.
Import ListNotations.
Open Scope Z_scope.

(* ------------------------------------------------------------------ *)
(* Integer level (unbounded)                                           *)
(* ------------------------------------------------------------------ *)

Lemma memmap_ok_spec nbytes ns nc :
  memmap_ok nbytes ns nc = true <-> 0 < nbytes /\ 0 <= ns * nc * 2 <= nbytes.
Proof.
  unfold memmap_ok. rewrite !andb_true_iff, Z.ltb_lt, !Z.leb_le. lia.
Qed.

(* whatever the float arithmetic does: an open that succeeds never maps more
   than the file holds, hence exposes at most the complete frames *)
Lemma opened_within_file online wok nbytes nc fts fs ns nc' fts' rw :
  1 <= nc ->
  open_bin online wok nbytes nc fts fs = Opened ns nc' fts' rw ->
  nc' = nc /\ 0 <= ns /\ ns * nc * 2 <= nbytes /\ ns <= nbytes / (2 * nc).
Proof.
  intros Hnc. unfold open_bin.
  destruct (reader_ns online nbytes nc fts fs) as [ns0| |]; try discriminate.
  destruct (negb (nc * ns0 * 2 =? nbytes) && negb wok); try discriminate.
  destruct (reader_ns online nbytes nc _ fs) as [ns1| |]; try discriminate.
  destruct (memmap_ok nbytes ns1 nc) eqn:Hm; try discriminate.
  intros H. injection H as <- <- _ _.
  apply memmap_ok_spec in Hm. destruct Hm as [Hpos [Hlo Hhi]].
  split; [reflexivity|]. split; [nia|]. split; [lia|].
  apply Z.div_le_lower_bound; lia.
Qed.

(* every element of the exposed (ns, nc) array lies inside the file *)
Lemma reads_within_file nbytes ns nc i j :
  1 <= nc -> ns * nc * 2 <= nbytes -> 0 <= i < ns -> 0 <= j < nc ->
  0 <= byte_offset nc i j /\ byte_offset nc i j + 2 <= ns * nc * 2 /\ byte_offset nc i j + 2 <= nbytes.
Proof.
  unfold byte_offset. intros Hnc Hle Hi Hj.
  assert (i * nc <= (ns - 1) * nc) by (apply Z.mul_le_mono_nonneg_r; lia).
  assert (0 <= i * nc) by (apply Z.mul_nonneg_nonneg; lia).
  lia.
Qed.

(* distinct (i, j) read distinct, non-overlapping int16 cells: the array is the file prefix *)
Lemma byte_offset_inj nc i j i' j' :
  1 <= nc -> 0 <= j < nc -> 0 <= j' < nc ->
  byte_offset nc i j = byte_offset nc i' j' -> i = i' /\ j = j'.
Proof.
  unfold byte_offset. intros Hnc Hj Hj' H.
  assert (i = i') by nia. subst. lia.
Qed.

(* the k-th int16 cell of the file prefix is element (k / nc, k mod nc) *)
Lemma byte_offset_surj nc k :
  1 <= nc -> 0 <= k -> byte_offset nc (k / nc) (k mod nc) = 2 * k /\ 0 <= k mod nc < nc.
Proof.
  intros Hnc Hk. unfold byte_offset.
  pose proof (Z.div_mod k nc ltac:(lia)). pose proof (Z.mod_pos_bound k nc ltac:(lia)). nia.
Qed.

(* floor facts used by the statement of the property *)
Lemma floor_frames nbytes nc :
  1 <= nc -> 0 <= nbytes ->
  let k := nbytes / (2 * nc) in
  k * nc * 2 <= nbytes < (k + 1) * nc * 2 /\ 0 <= k.
Proof.
  intros Hnc Hn k. subst k.
  pose proof (Z.div_mod nbytes (2 * nc) ltac:(lia)).
  pose proof (Z.mod_pos_bound nbytes (2 * nc) ltac:(lia)).
  split; [nia|]. apply Z.div_pos; lia.
Qed.

Lemma exact_frames nbytes nc ns : 1 <= nc -> nc * ns * 2 = nbytes -> ns = nbytes / (2 * nc).
Proof.
  intros Hnc H. subst nbytes. replace (nc * ns * 2) with (ns * (2 * nc)) by ring.
  now rewrite Z.div_mul by lia.
Qed.
