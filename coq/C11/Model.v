(* C11 — model of how spikeglx.Reader / OnlineReader decide how many sample
   frames of a binary they expose (src/spikeglx.py, current tree, i.e. with
   the repairs f9ac653 "Reader.open exposes only the complete sample frames ...",
   381463f "no KeyError when the size-mismatch warning is formatted" and aa7f63d "Reader.open compares
   the announced size with the file's current size").

   Floats are IEEE binary64 as formalised by Flocq (BinarySingleNaN, prec 53,
   emax 1024), every operation rounded to nearest-even exactly as CPython /
   NumPy do.  Definitions only; proofs are in Proofs.v. *)
From Coq Require Import ZArith List Bool.
From Flocq Require Import Core BinarySingleNaN.
Import ListNotations.
Open Scope Z_scope.

Definition prec : Z := 53.
Definition emax : Z := 1024.
#[global] Instance Hprec : Prec_gt_0 prec := eq_refl.
#[global] Instance Hemax : Prec_lt_emax prec emax := eq_refl.

Definition b64 : Type := binary_float prec emax.

(* a float given exactly as m * 2^e (how the harness passes fs and
   fileTimeSecs; exact whenever |m| < 2^53 and the exponent is in range) *)
Definition of_me (m e : Z) : b64 := binary_normalize prec emax Hprec Hemax mode_NE m e false.

(* Python int -> float conversion in `int / float` (exact below 2^53,
   round-to-nearest-even above) *)
Definition of_Z (z : Z) : b64 := of_me z 0.

Definition fdiv (x y : b64) : b64 := Bdiv mode_NE x y.
Definition fmul (x y : b64) : b64 := Bmult mode_NE x y.

(* int(x) for a Python float: truncation; inf -> OverflowError, nan -> ValueError *)
Definition py_int (x : b64) : option Z :=
  if is_finite x then Some (Btrunc x) else None.

(* int(np.round(x)): np.round with 0 decimals is rint (half to even) *)
Definition int_round (x : b64) : option Z := py_int (Bnearbyint mode_NE x).

(* what evaluating `self.ns` can do *)
Inductive nsres :=
  | NsOk (ns : Z)
  | NsInt          (* int() of inf / nan: OverflowError / ValueError *)
  | NsType.        (* meta has no fileTimeSecs: None * float -> TypeError *)

(* Reader.ns (meta present):
     int(np.round(self.meta.get("fileTimeSecs") * self.fs)) *)
Definition ns_meta (fts : option b64) (fs : b64) : nsres :=
  match fts with
  | None => NsType
  | Some t => match int_round (fmul t fs) with Some n => NsOk n | None => NsInt end
  end.

(* OnlineReader.ns  (isz = self.dtype.itemsize):
     int(self.file_bin.stat().st_size / self.dtype.itemsize / self.nc)
   (int/int true division is correctly rounded; for st_size < 2^53 that is the
   float division of the two conversions; float / int converts the int) *)
Definition ns_online (isz nbytes nc : Z) : nsres :=
  match py_int (fdiv (fdiv (of_Z nbytes) (of_Z isz)) (of_Z nc)) with
  | Some n => NsOk n | None => NsInt end.

(* the `ns` property as seen by Reader.open, for either class *)
Definition reader_ns (online : bool) (isz nbytes nc : Z) (fts : option b64) (fs : b64) : nsres :=
  if online then ns_online isz nbytes nc else ns_meta fts fs.

Inductive outcome :=
  | Opened (ns nc : Z) (fts : option b64) (rewritten : bool)
      (* shape (ns, nc); meta.get('fileTimeSecs') afterwards; was it rewritten *)
  | MmapError     (* np.memmap raises ValueError *)
  | IntError      (* int() of inf / nan *)
  | TypeErr.      (* fileTimeSecs missing where Reader.ns needs it (offline Reader on the meta
                     file of a recording in progress): None * float *)

(* np.memmap(file, dtype=self.dtype, mode='r', shape=(ns, nc)):  mmap.mmap(fd, ns*nc*itemsize)
   raises when the length exceeds the file size, when the file is empty, or
   when the length is negative. *)
Definition memmap_ok (isz nbytes ns nc : Z) : bool :=
  (0 <? nbytes) && (0 <=? ns * nc * isz) && (ns * nc * isz <=? nbytes).

(* Reader.open, flat-binary branch (isz = self.dtype.itemsize; 2 for the default int16):
     if self.nc * self.ns * itemsize != self.file_bin.stat().st_size:
         ftsec = st_size // (itemsize * self.nc) / self.fs
         if self.meta is not None:
             if not self.ignore_warnings: _logger.warning(f"...{self.meta.get('fileSizeBytes')}...")   (cannot raise)
             self.meta["fileTimeSecs"] = ftsec
     self._raw = np.memmap(..., shape=(self.ns, self.nc)) *)
Definition open_bin (online : bool) (isz nbytes nc : Z) (fts : option b64) (fs : b64) : outcome :=
  match reader_ns online isz nbytes nc fts fs with
  | NsInt => IntError
  | NsType => TypeErr
  | NsOk ns0 =>
      let mismatch := negb (nc * ns0 * isz =? nbytes) in
      let fts' := if mismatch then Some (fdiv (of_Z (nbytes / (isz * nc))) fs) else fts in
      match reader_ns online isz nbytes nc fts' fs with
      | NsInt => IntError
      | NsType => TypeErr
      | NsOk ns1 =>
          if memmap_ok isz nbytes ns1 nc then Opened ns1 nc fts' mismatch else MmapError
      end
  end.

(* Reader.open, mtscomp branch: the .ch file announces (chns, chnc);
     if self._raw.shape != (self.ns, self.nc):
         ftsec = self._raw.shape[0] / self.fs
         if not self.ignore_warnings: _logger.warning(f"...{self.meta.get('fileTimeSecs')}...")
         self.meta["fileTimeSecs"] = ftsec
   no memmap; Reader.shape afterwards is (self.ns, self.nc). *)
Definition open_cbin (chns chnc nc : Z) (fts : option b64) (fs : b64) : outcome :=
  match ns_meta fts fs with
  | NsInt => IntError
  | NsType => TypeErr
  | NsOk ns0 =>
      let mismatch := negb ((chns =? ns0) && (chnc =? nc)) in
      let fts' := if mismatch then Some (fdiv (of_Z chns) fs) else fts in
      match ns_meta fts' fs with
      | NsInt => IntError
      | NsType => TypeErr
      | NsOk ns1 => Opened ns1 nc fts' mismatch
      end
  end.

(* Reader.rl:  self.ns / self.fs *)
Definition rl (ns : Z) (fs : b64) : b64 := fdiv (of_Z ns) fs.

(* byte offset in the file of sample i, channel j of the C-ordered memmap of shape
   (ns, nc) and item size isz: what self._raw[i, j] dereferences (isz bytes from there) *)
Definition byte_offset (isz nc i j : Z) : Z := isz * (i * nc + j).

(* ------------------------------------------------------------------ *)
(* The reader as a stateful object on a file whose size changes         *)
(* ------------------------------------------------------------------ *)
(* Reader.__init__ caches  self.nbytes = self.file_bin.stat().st_size , but since repair aa7f63d
   Reader.open no longer reads it: the mismatch test, the duration and np.memmap's length check all
   use the size the file has NOW (fresh stat), and OnlineReader.ns stats the file at every evaluation.
   `open_at online isz cur ...` is Reader.open on a file that currently has `cur` bytes; it returns
   the outcome and meta.get('fileTimeSecs') afterwards (the rewrite happens before np.memmap can raise). *)
Definition open_at (online : bool) (isz cur nc : Z) (fts : option b64) (fs : b64)
  : outcome * option b64 :=
  match reader_ns online isz cur nc fts fs with
  | NsInt => (IntError, fts)
  | NsType => (TypeErr, fts)
  | NsOk ns0 =>
      let mismatch := negb (nc * ns0 * isz =? cur) in
      let fts' := if mismatch then Some (fdiv (of_Z (cur / (isz * nc))) fs) else fts in
      match reader_ns online isz cur nc fts' fs with
      | NsInt => (IntError, fts')
      | NsType => (TypeErr, fts')
      | NsOk ns1 =>
          (if memmap_ok isz cur ns1 nc then Opened ns1 nc fts' mismatch else MmapError, fts')
      end
  end.

Record reader := mkReader {
  r_online : bool;            (* OnlineReader / Reader *)
  r_isz : Z;                  (* self.dtype.itemsize (the `dtype` argument; 2 for the default int16) *)
  r_nc : Z;                   (* nSavedChans *)
  r_fs : b64;                 (* sampling rate of the meta file *)
  r_fts : option b64;         (* self.meta.get('fileTimeSecs') *)
  r_mapped : option Z         (* frames of self._raw (None: not open) *)
}.

Inductive op :=
  | OpResize (newsize : Z)    (* the writer appends (or the file is cut): the file now has newsize bytes *)
  | OpOpen                    (* sr.open() — also a re-open of an already open reader *)
  | OpEnter.                  (* sr.__enter__(): opens only if not self.is_open *)

Definition do_open (cur : Z) (r : reader) : reader * outcome :=
  let '(o, fts') := open_at (r_online r) (r_isz r) cur (r_nc r) (r_fts r) (r_fs r) in
  (mkReader (r_online r) (r_isz r) (r_nc r) (r_fs r) fts'
            (match o with Opened ns _ _ _ => Some ns | _ => r_mapped r end), o).

(* one step: new (file size, reader), and the outcome of the open attempt if there was one *)
Definition step (w : Z * reader) (o : op) : (Z * reader) * option outcome :=
  let '(cur, r) := w in
  match o with
  | OpResize n => ((n, r), None)
  | OpOpen => let '(r', out) := do_open cur r in ((cur, r'), Some out)
  | OpEnter =>
      match r_mapped r with
      | Some _ => ((cur, r), None)
      | None => let '(r', out) := do_open cur r in ((cur, r'), Some out)
      end
  end.

(* Reader(file, open=...) / OnlineReader(file, open=...) on a file of `cur` bytes *)
Definition construct (online : bool) (isz nc : Z) (fs : b64) (fts : option b64) (cur : Z) (do_op : bool)
  : (Z * reader) * option outcome :=
  let r := mkReader online isz nc fs fts None in
  if do_op then step (cur, r) OpOpen else ((cur, r), None).

Fixpoint exec (w : Z * reader) (ops : list op) : list ((Z * reader) * option outcome) :=
  match ops with
  | [] => []
  | o :: tl => let '(w', out) := step w o in (w', out) :: exec w' tl
  end.

(* the whole history: state after the constructor, then after every operation *)
Definition history (online : bool) (isz nc : Z) (fs : b64) (fts : option b64) (cur0 : Z) (do_op : bool)
  (ops : list op) : list ((Z * reader) * option outcome) :=
  let '(w, out) := construct online isz nc fs fts cur0 do_op in (w, out) :: exec w ops.

(* sr.ns evaluated now (OnlineReader: fresh stat; Reader: from the meta dictionary) *)
Definition live_ns (cur : Z) (r : reader) : nsres :=
  reader_ns (r_online r) (r_isz r) cur (r_nc r) (r_fts r) (r_fs r).

(* ------------------------------------------------------------------ *)
(* Reader / OnlineReader WITHOUT a meta file                           *)
(* ------------------------------------------------------------------ *)
(* Reader.__init__, branch `if not meta_file.exists()`:
     if st_size / 384 % 2 == 0:   nc = nc or 384; ns = ns or st_size / 2 / 384; fs = fs or 30000
     elif st_size / 385 % 2 == 0: nc = nc or 385; ns = ns or st_size / 2 / 385; fs = fs or 30000
     assert nc is not None and fs is not None
     self.meta = None;  self._nc, self._fs, self._ns = (int(nc), int(fs), int(ns))
   nc / ns / fs are the caller's (integer) arguments or None; `x or d` takes d when x is None or 0.
   `st_size / 384 % 2 == 0` is modelled as st_size mod 768 = 0 (exact while the float quotient is exact,
   i.e. for every size below 2^40 and beyond); the guessed ns is the same float computation as
   OnlineReader.ns with item size 2. *)
Inductive nmres :=
  | NmOk (nc ns fs : Z)     (* self._nc, self._ns, self._fs *)
  | NmAssert                (* AssertionError: nc or fs missing *)
  | NmType                  (* int(None): ns missing and not guessable *)
  | NmInt.                  (* int() of inf / nan *)

Definition orz (o : option Z) (d : Z) : Z :=
  match o with Some v => if v =? 0 then d else v | None => d end.

Definition guess_nc (nbytes : Z) : option Z :=
  if nbytes mod (2 * 384) =? 0 then Some 384
  else if nbytes mod (2 * 385) =? 0 then Some 385 else None.

Definition construct_nometa (nbytes : Z) (nc ns fs : option Z) : nmres :=
  match guess_nc nbytes with
  | Some a =>
      match (match ns with Some v => if v =? 0 then ns_online 2 nbytes a else NsOk v
                         | None => ns_online 2 nbytes a end) with
      | NsOk n => NmOk (orz nc a) n (orz fs 30000)
      | _ => NmInt
      end
  | None =>
      match nc, fs with
      | Some c, Some f => match ns with Some n => NmOk c n f | None => NmType end
      | _, _ => NmAssert
      end
  end.

(* Reader.open with self.meta None: Reader.ns returns self._ns, OnlineReader.ns stats the file;
   the mismatch branch computes ftsec and discards it (`if self.meta is not None` false);
   np.memmap(shape=(ns, nc)) *)
Definition open_nometa (online : bool) (isz nbytes nc ns : Z) : outcome :=
  match (if online then ns_online isz nbytes nc else NsOk ns) with
  | NsOk n => if memmap_ok isz nbytes n nc then Opened n nc None false else MmapError
  | NsInt => IntError
  | NsType => TypeErr
  end.
