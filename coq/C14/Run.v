(* C14 — flat-integer interface of the model for the correspondence check.
   input : mode :: k :: N :: T :: C :: samples   (N*T*C integers, order (waveform, time, trace);
           the value nan_code = 2^40 stands for NaN; N = -1: a 2-D (T, C) input)
   mode 1 output: 1 :: N :: (trace, time, val) per waveform ++ (idx, max|.|) per (waveform, trace)
           ++ weight per (waveform, trace), or [0]
   output: [0] when the call raises; otherwise 1 :: N :: 24 integers per waveform:
           peak_trace_idx peak_time_idx peak_val invert_sign_peak trough_time_idx trough_val
           ratio_num ratio_den tip_time_idx tip_val (trough-peak) half_post_idx half_pre_idx
           half_post_val half_pre_val (half_post-half_pre) recovery_idx recovery_val
           depol_num depol_den repol_num repol_den recov_num recov_den
   (a quotient p/q with q = 0 is normalised to (sgn p, 0): nan / +inf / -inf). *)
From Coq Require Import ZArith List Bool.
From IBL.lib Require Import PyInt RunLib.
From IBL.C14 Require Import Model.
Import ListNotations.
Open Scope Z_scope.

Definition nan_code : Z := 1099511627776.
Definition dec_sample (z : Z) : option Z := if z =? nan_code then None else Some z.

(* cut l into `count` chunks of n elements *)
Fixpoint chunks {A} (count n : nat) (l : list A) : list (list A) :=
  match count with
  | O => []
  | S c => firstn n l :: chunks c n (skipn n l)
  end.

Definition dec_batch (N T C : nat) (data : list Z) : list (list (list (option Z))) :=
  map (fun wv => chunks T C (map dec_sample wv)) (chunks N (T * C) data).

Definition enc_q (p : Z * Z) : list Z :=
  let '(a, b) := p in if b =? 0 then [Z.sgn a; 0] else [a; b].

Definition enc_feats (f : feats) : list Z :=
  [zn (f_trace f); zn (f_peak f); f_peak_val f; f_sign f; zn (f_trough f); f_trough_val f]
  ++ enc_q (d_ratio f)
  ++ [zn (f_tip f); f_tip_val f; d_pt_dur f; zn (f_hpost f); zn (f_hpre f);
      f_hpost_val f; f_hpre_val f; d_hp_dur f; zn (f_rec f); f_rec_val f]
  ++ enc_q (d_depol f) ++ enc_q (d_repol f) ++ enc_q (d_recov f).

Definition mk_input (n t c : Z) (data : list Z) : input :=
  if n <? 0 then In2 (chunks (Z.to_nat t) (Z.to_nat c) (map dec_sample data))
  else In3 (dec_batch (Z.to_nat n) (Z.to_nat t) (Z.to_nat c) data).

Definition enc_peak (p : nat * nat * Z) : list Z :=
  let '(tr, pk, v) := p in [zn tr; zn pk; v].
Definition enc_pm (p : nat * Z) : list Z := [zn (fst p); snd p].

(* mode 2: the stage functions called directly on an (N, T) matrix with caller-chosen
   per-row parameters (peak index, peak value, sign flag, trough index) — not only the
   states compute_spike_features reaches.  data = N rows of  pk :: pv :: s :: tq :: T samples;
   k = idx_from_trough.  Output: arr_pre ++ arr_post per row (NaN = nan_code), then
   find_trough rows, find_tip rows (each [0] when the call raises, else 1 :: idx val pairs),
   half_peak_point rows (post, pre, post_val, pre_val), recovery_point ([0] when k >= T). *)
Definition hrow : Type := (nat * Z * Z * nat * list Z)%type.
Definition dec_hrows (N T : nat) (data : list Z) : list hrow :=
  map (fun ch => match ch with
                 | pk :: pv :: s :: tq :: a => (Z.to_nat pk, pv, s, Z.to_nat tq, a)
                 | _ => (O, 0, 0, O, [])
                 end) (chunks N (T + 4) data).
Definition enc_mask (l : list (option Z)) : list Z :=
  map (fun o => match o with Some v => v | None => nan_code end) l.
Definition enc_rows (o : option (list (nat * Z))) : list Z :=
  match o with None => [0] | Some l => 1 :: flat_map enc_pm l end.

Definition run_helpers (k T : nat) (rows : list hrow) : list Z :=
  flat_map (fun r => let '(pk, _, _, _, a) := r in enc_mask (mask_pre a pk) ++ enc_mask (mask_post a pk)) rows
  ++ enc_rows (sequence (map (fun r => let '(pk, _, s, _, a) := r in find_trough a pk s) rows))
  ++ enc_rows (sequence (map (fun r => let '(pk, _, s, _, a) := r in find_tip a pk s) rows))
  ++ flat_map (fun r => let '(pk, pv, s, _, a) := r in
                 let hpo := half_post a pk pv s in let hpr := half_pre a pk pv s in
                 [zn hpo; zn hpr; vat a hpo s; vat a hpr s]) rows
  ++ (if (T <=? k)%nat then [0]
      else 1 :: flat_map (fun r => let '(_, _, s, tq, a) := r in
                            let rc := recovery_idx T k tq in [zn rc; vat a rc s]) rows).

(* mode 0: compute_spike_features; mode 1: find_peak ++ pick_maxima ++ weights_spk_ch;
   mode 2: run_helpers.  n < 0 encodes a 2-D input (one waveform, no leading axis). *)
Definition run (inp : list Z) : list Z :=
  match inp with
  | mode :: k :: n :: t :: c :: data =>
      let i := mk_input n t c data in
      if mode =? 0 then
        match compute_spike_features (Z.to_nat k) i with
        | None => [0]
        | Some fs => 1 :: Z.of_nat (length fs) :: flat_map enc_feats fs
        end
      else if mode =? 1 then
        match find_peak i, pick_maxima_pub i, weights_spk_ch (validate_arr_in i) with
        | Some ps, Some pms, Some wts =>
            1 :: Z.of_nat (length ps) :: flat_map enc_peak ps
              ++ flat_map (fun pm => flat_map enc_pm pm) pms ++ flat_map (fun l => l) wts
        | _, _, _ => [0]
        end
      else run_helpers (Z.to_nat k) (Z.to_nat t) (dec_hrows (Z.to_nat n) (Z.to_nat t) data)
  | _ => [-999]
  end.

Definition mismatches := mismatches_of run.
