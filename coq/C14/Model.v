(* C14 — executable model of ibldsp.waveforms.compute_spike_features
   (src/ibldsp/waveforms.py).  Definitions only; proofs are in Proofs.v,
   property theorems in Props.v.

   A waveform is a time-major matrix  w : list (list (option Z))  (T rows of C
   samples; None = NaN), sample values are integers (the correspondence feeds
   integer-valued float64 arrays).  Sample positions are list positions (nat).

   Python                                      model
   ------                                      -----
   _validate_arr_in  (NaN -> 0)                denan / denan_wav
   np.argmax / np.nanargmax                    argmax / nanargmax  (None = ValueError)
   pick_maxima, pick_maximum, find_peak        pick_maxima, pick_peak
   get_array_peak                              chan (column of the peak trace)
   invert_peak_waveform                        invert, inv_sign
   arr_pre_post                                mask_pre, mask_post
   find_trough / find_tip                      find_trough / find_tip
   peak_to_trough_ratio (<= 1.5 test)          ratio_le_15  (cross-multiplied)
   find_tip_trough  (swap branch)              swap_row, swap_stage
   half_peak_point                             half_post, half_pre
   recovery_point                              recovery_idx
   compute_spike_features, one waveform        trace_features / features1
   compute_spike_features, a batch             batch_features (vectorised structure)
   2-D / 3-D input (_validate_arr_in)          input, validate_arr_in, compute_spike_features
   find_peak, pick_maxima (public), weights_spk_ch   find_peak, pick_maxima_pub, weights_spk_ch
   derived columns (ratio, durations, slopes)  d_* (numerator / denominator pairs)
*)
From Coq Require Import ZArith List Bool Lia.
Import ListNotations.
Open Scope Z_scope.

(* ---------- NumPy primitives ---------- *)

(* arr_in[np.isnan(arr_in)] = 0 *)
Definition denan (o : option Z) : Z := match o with Some v => v | None => 0 end.
Definition denan_wav (w : list (list (option Z))) : list (list Z) := map (map denan) w.

(* np.nanargmax on a 1-D float array: position and value of the first maximum
   among the non-NaN entries; None = "All-NaN slice encountered" / empty
   (ValueError). *)
Fixpoint nanargmax (l : list (option Z)) : option (nat * Z) :=
  match l with
  | [] => None
  | o :: r =>
      match o, nanargmax r with
      | None, None => None
      | None, Some (i, m) => Some (S i, m)
      | Some x, None => Some (O, x)
      | Some x, Some (i, m) => if m >? x then Some (S i, m) else Some (O, x)
      end
  end.

(* np.argmax / np.max on a NaN-free array (None = empty sequence, ValueError). *)
Definition argmax (l : list Z) : option (nat * Z) := nanargmax (map Some l).

(* np.argmax on a boolean array: first True, 0 when there is none. *)
Fixpoint find_first (l : list bool) : option nat :=
  match l with
  | [] => None
  | b :: r => if b then Some O else option_map S (find_first r)
  end.
Definition first_true (l : list bool) : nat :=
  match find_first l with Some i => i | None => O end.

(* (x > 0) on floats: NaN > 0 is False *)
Definition pos_opt (o : option Z) : bool := match o with Some v => v >? 0 | None => false end.

(* column c of a time-major matrix: arr_in[i, :, c] *)
Definition chan (w : list (list Z)) (c : nat) : list Z := map (fun row => nth c row 0) w.
Definition nchan (w : list (list Z)) : nat := length (hd [] w).
Definition chans (w : list (list Z)) : list (list Z) := map (chan w) (seq 0 (nchan w)).

(* ---------- pick_maxima / pick_maximum / find_peak ---------- *)

(* pick_maxima: per trace, argmax and max over time of |x| *)
Definition pick_maxima (cs : list (list Z)) : option (list (nat * Z)) :=
  fold_right (fun ch acc => match argmax (map Z.abs ch), acc with
                            | Some p, Some l => Some (p :: l)
                            | _, _ => None end) (Some []) cs.

(* pick_maximum: indx_trace = argmax over traces of max_vals; indx_peak = indx_maxs[indx_trace] *)
Definition pick_peak (cs : list (list Z)) : option (nat * nat) :=
  match pick_maxima cs with
  | None => None
  | Some pm => match argmax (map snd pm) with
               | None => None
               | Some (tr, _) => Some (tr, fst (nth tr pm (O, 0)))
               end
  end.

(* ---------- invert_peak_waveform ---------- *)
(* rows with peak_val > 0 are multiplied by -1; invert_sign_peak = -sign(peak_val) *)
Definition invert (x : list Z) (pv : Z) : list Z := if pv >? 0 then map Z.opp x else x.
Definition inv_sign (pv : Z) : Z := - Z.sgn pv.

(* ---------- arr_pre_post ---------- *)
(* arr_post: NaN before the peak (the peak sample itself is kept) *)
Fixpoint mask_post (a : list Z) (pk : nat) : list (option Z) :=
  match a with
  | [] => []
  | v :: r => match pk with
              | O => Some v :: mask_post r O
              | S k => None :: mask_post r k
              end
  end.
(* arr_pre: NaN from the peak (included) to the end *)
Fixpoint mask_pre (a : list Z) (pk : nat) : list (option Z) :=
  match a with
  | [] => []
  | v :: r => match pk with
              | O => None :: mask_pre r O
              | S k => Some v :: mask_pre r k
              end
  end.

(* ---------- find_trough / find_tip ---------- *)
(* value columns: arr_peak[i, idx] * invert_sign_peak *)
Definition vat (a : list Z) (i : nat) (s : Z) : Z := nth i a 0 * s.

Definition find_trough (a : list Z) (pk : nat) (s : Z) : option (nat * Z) :=
  match nanargmax (mask_post a pk) with
  | Some (tq, _) => Some (tq, vat a tq s)
  | None => None
  end.

Definition find_tip (a : list Z) (pk : nat) (s : Z) : option (nat * Z) :=
  match nanargmax (mask_pre a pk) with
  | Some (tp, _) => Some (tp, vat a tp s)
  | None => None
  end.

(* abs(peak_val / trough_val) <= 1.5   (x/0 = inf, never <= 1.5; integer
   operands: the float quotient is compared exactly, see notes) *)
Definition ratio_le_15 (pv tv : Z) : bool :=
  negb (tv =? 0) && (2 * Z.abs pv <=? 3 * Z.abs tv).

(* state carried through find_tip_trough for one row:
   peak index, peak value, sign flag, the stored ("inverted") trace arr_peak[i],
   trough index, trough value *)
Record st := mkSt { s_pk : nat; s_pv : Z; s_sg : Z; s_arr : list Z; s_tq : nat; s_tv : Z }.

(* first part of compute_spike_features for one row: peak value, inversion, trough *)
Definition stage1 (x : list Z) (pk : nat) : option st :=
  let pv := nth pk x 0 in
  let a := invert x pv in
  let s := inv_sign pv in
  match find_trough a pk s with
  | Some (tq, tv) => Some (mkSt pk pv s a tq tv)
  | None => None
  end.

Definition swap_cond (q : st) : bool := (s_pv q >? 0) && ratio_le_15 (s_pv q) (s_tv q).

(* the swap branch of find_tip_trough, for a selected row:
     peak := trough;  arr_peak_rows = arr_peak_real[i] is inverted by the sign of
     the new peak (invert_peak_waveform), stored back into arr_peak[i] (order of
     the two statements as repaired in e0eff43) and used for the new trough;
     invert_sign_peak is re-derived from the new peak value *)
Definition swap_row (x : list Z) (q : st) : option st :=
  let pv' := s_tv q in
  let pk' := s_tq q in
  let rows := invert x pv' in
  let s' := inv_sign pv' in
  match find_trough rows pk' s' with
  | Some (tq', tv') => Some (mkSt pk' pv' s' rows tq' tv')
  | None => None
  end.

Definition swap_stage (x : list Z) (q : st) : option st :=
  if swap_cond q then swap_row x q else Some q.

(* ---------- half_peak_point ---------- *)
(* arr_sub = arr_peak - (peak_val / 2) * invert_sign_peak ; only its sign is
   used, the model keeps 2 * arr_sub to stay in Z *)
Definition sub2 (a : list Z) (pv s : Z) : list Z := map (fun v => 2 * v - pv * s) a.

Definition half_post (a : list Z) (pk : nat) (pv s : Z) : nat :=
  first_true (map pos_opt (mask_post (sub2 a pv s) pk)).

(* fliplr, first True, one-hot, fliplr, argmax  ==  T - 1 - (first True of the flipped row) *)
Definition half_pre (a : list Z) (pk : nat) (pv s : Z) : nat :=
  (length a - 1 - first_true (rev (map pos_opt (mask_pre (sub2 a pv s) pk))))%nat.

(* ---------- recovery_point ---------- *)
(* idx_all = trough + k ; where idx_all >= T : T - 1 *)
Definition recovery_idx (T k tq : nat) : nat :=
  if (T <=? tq + k)%nat then (T - 1)%nat else (tq + k)%nat.

(* ---------- the feature row ---------- *)
Record feats := mkF {
  f_trace : nat; f_peak : nat; f_peak_val : Z; f_sign : Z;
  f_trough : nat; f_trough_val : Z;
  f_tip : nat; f_tip_val : Z;
  f_hpost : nat; f_hpre : nat; f_hpost_val : Z; f_hpre_val : Z;
  f_rec : nat; f_rec_val : Z }.

(* everything after find_trough/swap: tip, half-peak points, recovery point.
   k = idx_from_trough = int(round(recovery_duration_ms * fs / 1000)) (5 by default);
   recovery_point raises ValueError when k >= T. *)
Definition tail_stage (k tr : nat) (q : st) : option feats :=
  let a := s_arr q in
  let T := length a in
  match find_tip a (s_pk q) (s_sg q) with
  | None => None
  | Some (tp, tpv) =>
      if (T <=? k)%nat then None
      else
        let hpo := half_post a (s_pk q) (s_pv q) (s_sg q) in
        let hpr := half_pre a (s_pk q) (s_pv q) (s_sg q) in
        let rc := recovery_idx T k (s_tq q) in
        Some (mkF tr (s_pk q) (s_pv q) (s_sg q) (s_tq q) (s_tv q) tp tpv
                  hpo hpr (vat a hpo (s_sg q)) (vat a hpr (s_sg q))
                  rc (vat a rc (s_sg q)))
  end.

Definition trace_features (k tr : nat) (x : list Z) (pk : nat) : option feats :=
  match stage1 x pk with
  | None => None
  | Some q => match swap_stage x q with
              | None => None
              | Some q' => tail_stage k tr q'
              end
  end.

(* compute_spike_features on ONE waveform (a batch of one) *)
Definition features1 (k : nat) (w : list (list (option Z))) : option feats :=
  let cs := chans (denan_wav w) in
  match pick_peak cs with
  | None => None
  | Some (tr, pk) => trace_features k tr (nth tr cs []) pk
  end.

(* ---------- the batch, with the structure of the vectorised code ---------- *)
(* all rows of an optional list, or None if one is None (an exception anywhere
   aborts the whole call) *)
Fixpoint sequence {A} (l : list (option A)) : option (list A) :=
  match l with
  | [] => Some []
  | None :: _ => None
  | Some a :: r => match sequence r with Some r' => Some (a :: r') | None => None end
  end.

(* df.index[(peak_val > 0) & (ratio <= 1.5)] : positions of the selected rows *)
Fixpoint select_idx (i : nat) (qs : list st) : list nat :=
  match qs with
  | [] => []
  | q :: r => if swap_cond q then i :: select_idx (S i) r else select_idx (S i) r
  end.

(* df.loc[df_index] = df_rows ; arr_peak[df_index, :] = arr_peak_rows : scatter
   the recomputed rows back at their positions *)
Fixpoint scatter {A} (l : list A) (idx : list nat) (rows : list A) : list A :=
  match idx, rows with
  | i :: idx', r :: rows' => scatter (firstn i l ++ r :: skipn (S i) l) idx' rows'
  | _, _ => l
  end.

(* find_peak + get_array_peak + invert_peak_waveform + the first find_trough are
   row-wise array operations: per row (peak trace index, real trace, state) *)
Definition row_head (w : list (list (option Z))) : option (nat * list Z * st) :=
  let cs := chans (denan_wav w) in
  match pick_peak cs with
  | None => None
  | Some (tr, pk) =>
      let x := nth tr cs [] in
      match stage1 x pk with
      | None => None
      | Some q => Some (tr, x, q)
      end
  end.

Definition dummy_st : st := mkSt 0 0 0 [] 0 0.

Definition batch_features (k : nat) (ws : list (list (list (option Z)))) : option (list feats) :=
  match sequence (map row_head ws) with
  | None => None
  | Some hs =>
      let xs := map (fun h => snd (fst h)) hs in     (* arr_peak_real *)
      let qs := map snd hs in                        (* df / arr_peak rows *)
      (* the swap branch works on the selected subset only ... *)
      let idx := select_idx 0 qs in
      match sequence (map (fun i => swap_row (nth i xs []) (nth i qs dummy_st)) idx) with
      | None => None
      | Some rows =>
          (* ... and is written back by position *)
          let qs' := scatter qs idx rows in
          (* find_tip, half_peak_point, recovery_point: row-wise again *)
          sequence (map (fun hq => tail_stage k (fst (fst (fst hq))) (snd hq)) (combine hs qs'))
      end
  end.

(* ---------- the public entry points ---------- *)
(* _validate_arr_in: a 2-D array (time, traces) is one waveform: arr_in[np.newaxis, :, :]
   (NaN -> 0 is denan_wav, applied per waveform where the samples are read) *)
Inductive input :=
| In2 (w : list (list (option Z)))              (* arr_in.ndim == 2 *)
| In3 (ws : list (list (list (option Z)))).     (* (waveform, time, trace) *)
Definition validate_arr_in (i : input) : list (list (list (option Z))) :=
  match i with In2 w => [w] | In3 ws => ws end.

(* compute_spike_features(arr_in, fs, recovery_duration_ms) with
   k = int(round(recovery_duration_ms * fs / 1000)) *)
Definition compute_spike_features (k : nat) (i : input) : option (list feats) :=
  batch_features k (validate_arr_in i).

(* find_peak: data frame rows (peak_trace_idx, peak_time_idx, peak_val) *)
Definition find_peak1 (w : list (list (option Z))) : option (nat * nat * Z) :=
  let cs := chans (denan_wav w) in
  match pick_peak cs with
  | Some (tr, pk) => Some (tr, pk, nth pk (nth tr cs []) 0)
  | None => None
  end.
Definition find_peak (i : input) : option (list (nat * nat * Z)) :=
  sequence (map find_peak1 (validate_arr_in i)).

(* pick_maxima as a public function: per waveform, per trace (indx_maxs, max_vals) *)
Definition pick_maxima_pub (i : input) : option (list (list (nat * Z))) :=
  sequence (map (fun w => pick_maxima (chans (denan_wav w))) (validate_arr_in i)).

(* weights_spk_ch(arr, "peak"): reshape_wav_one_channel turns every (waveform, trace)
   into a single-trace waveform, find_peak gives its peak_val (the SIGNED sample at
   the first largest |sample|), reshaped back to (waveform, trace) *)
Definition weights1 (w : list (list (option Z))) : option (list Z) :=
  sequence (map (fun ch => match argmax (map Z.abs ch) with
                           | Some (i, _) => Some (nth i ch 0)
                           | None => None end) (chans (denan_wav w))).
Definition weights_spk_ch (ws : list (list (list (option Z)))) : option (list (list Z)) :=
  sequence (map weights1 ws).

(* ---------- derived columns (pure functions of the row) ---------- *)
(* a ratio p/q is carried as the pair (p, q); q = 0 stands for the float
   result of the division by zero (nan when p = 0, +-inf otherwise). *)
Definition zn (n : nat) : Z := Z.of_nat n.
(* peak_to_trough_ratio = |peak_val / trough_val| *)
Definition d_ratio (f : feats) : Z * Z := (Z.abs (f_peak_val f), Z.abs (f_trough_val f)).
(* peak_to_trough_duration * fs ; half_peak_duration * fs *)
Definition d_pt_dur (f : feats) : Z := zn (f_trough f) - zn (f_peak f).
Definition d_hp_dur (f : feats) : Z := zn (f_hpost f) - zn (f_hpre f).
(* slopes / fs *)
Definition d_depol (f : feats) : Z * Z := (f_peak_val f - f_tip_val f, zn (f_peak f) - zn (f_tip f)).
Definition d_repol (f : feats) : Z * Z := (f_trough_val f - f_peak_val f, zn (f_trough f) - zn (f_peak f)).
Definition d_recov (f : feats) : Z * Z := (f_rec_val f - f_trough_val f, zn (f_rec f) - zn (f_trough f)).

(* ---------- scaling (used by the equivariance theorem) ---------- *)
Definition scale_wav (c : Z) (w : list (list (option Z))) : list (list (option Z)) :=
  map (map (option_map (Z.mul c))) w.
Definition scale_feats (c : Z) (f : feats) : feats :=
  mkF (f_trace f) (f_peak f) (c * f_peak_val f) (f_sign f)
      (f_trough f) (c * f_trough_val f) (f_tip f) (c * f_tip_val f)
      (f_hpost f) (f_hpre f) (c * f_hpost_val f) (c * f_hpre_val f)
      (f_rec f) (c * f_rec_val f).
