(* C14 — lemmas about the model of compute_spike_features. *)
From Coq Require Import ZArith List Bool Lia Arith.
From IBL.C14 Require Import Model.
Import ListNotations.
Open Scope Z_scope.

(* ------------------------------------------------------------------ *)
(* nanargmax / argmax                                                  *)
(* ------------------------------------------------------------------ *)
Definition is_nanargmax (l : list (option Z)) (i : nat) (m : Z) : Prop :=
  nth_error l i = Some (Some m) /\
  (forall j v, nth_error l j = Some (Some v) -> v <= m) /\
  (forall j v, (j < i)%nat -> nth_error l j = Some (Some v) -> v < m).

Lemma nanargmax_none : forall l, nanargmax l = None ->
  forall j v, nth_error l j <> Some (Some v).
Proof.
  induction l as [|o r IH]; intros H j v.
  - destruct j; discriminate.
  - cbn in H. destruct o as [x|]; destruct (nanargmax r) as [[i' m']|] eqn:E; try discriminate.
    + destruct (m' >? x); discriminate.
    + destruct j; cbn; [discriminate|]. apply IH; reflexivity.
Qed.

Lemma nanargmax_spec : forall l i m, nanargmax l = Some (i, m) -> is_nanargmax l i m.
Proof.
  induction l as [|o r IH]; intros i m H; cbn in H; [discriminate|].
  destruct o as [x|]; destruct (nanargmax r) as [[i' m']|] eqn:E.
  - destruct (IH _ _ eq_refl) as (A & B & Cc).
    destruct (Z.gtb_spec m' x) as [Hgt|Hle]; inversion H; subst; clear H.
    + split; [exact A|]. split.
      * intros [|j] v Hj; cbn in Hj; [inversion Hj; lia|eauto].
      * intros [|j] v Hlt Hj; cbn in Hj; [inversion Hj; lia|]. apply (Cc j); [lia|auto].
    + split; [reflexivity|]. split.
      * intros [|j] v Hj; cbn in Hj; [inversion Hj; lia|]. specialize (B _ _ Hj). lia.
      * intros j v Hlt; lia.
  - inversion H; subst; clear H. split; [reflexivity|]. split.
    + intros [|j] v Hj; cbn in Hj; [inversion Hj; lia|].
      exfalso. eapply nanargmax_none; eauto.
    + intros j v Hlt; lia.
  - destruct (IH _ _ eq_refl) as (A & B & Cc). inversion H; subst; clear H.
    split; [exact A|]. split.
    + intros [|j] v Hj; cbn in Hj; [discriminate|eauto].
    + intros [|j] v Hlt Hj; cbn in Hj; [discriminate|]. apply (Cc j); [lia|auto].
  - discriminate.
Qed.

Lemma is_nanargmax_unique l i m i' m' :
  is_nanargmax l i m -> is_nanargmax l i' m' -> i = i' /\ m = m'.
Proof.
  intros (A & B & Cc) (A' & B' & Cc').
  pose proof (B _ _ A') as H1. pose proof (B' _ _ A) as H2.
  assert (m = m') by lia. subst m'. split; [|reflexivity].
  destruct (lt_eq_lt_dec i i') as [[Hlt|Heq]|Hgt]; [|assumption|].
  - specialize (Cc' _ _ Hlt A). lia.
  - specialize (Cc _ _ Hgt A'). lia.
Qed.

Lemma nanargmax_complete l i m : is_nanargmax l i m -> nanargmax l = Some (i, m).
Proof.
  intros H. destruct (nanargmax l) as [[i' m']|] eqn:E.
  - apply nanargmax_spec in E. destruct (is_nanargmax_unique _ _ _ _ _ E H); subst; reflexivity.
  - destruct H as (A & _). exfalso. eapply nanargmax_none; eauto.
Qed.

Lemma nanargmax_exists l j v : nth_error l j = Some (Some v) ->
  exists i m, nanargmax l = Some (i, m).
Proof.
  intros H. destruct (nanargmax l) as [[i m]|] eqn:E; [eauto|].
  exfalso. eapply nanargmax_none; eauto.
Qed.

Lemma nanargmax_scale c : 0 < c -> forall l,
  nanargmax (map (option_map (Z.mul c)) l) =
  option_map (fun p => (fst p, c * snd p)) (nanargmax l).
Proof.
  intros Hc. induction l as [|o r IH]; [reflexivity|].
  cbn [map nanargmax]. rewrite IH.
  destruct o as [x|]; destruct (nanargmax r) as [[i m]|]; cbn; try reflexivity.
  replace (c * m >? c * x) with (m >? x).
  - destruct (m >? x); reflexivity.
  - destruct (Z.gtb_spec m x), (Z.gtb_spec (c * m) (c * x)); try reflexivity; nia.
Qed.

(* first maximum of a NaN-free list on the index range [lo, hi) *)
Definition first_max_on (a : list Z) (lo hi i : nat) : Prop :=
  (lo <= i < hi)%nat /\
  (forall t, (lo <= t < hi)%nat -> nth t a 0 <= nth i a 0) /\
  (forall t, (lo <= t < i)%nat -> nth t a 0 < nth i a 0).

Lemma first_max_on_unique a lo hi i j :
  first_max_on a lo hi i -> first_max_on a lo hi j -> i = j.
Proof.
  intros (R & A & B) (R' & A' & B').
  destruct (lt_eq_lt_dec i j) as [[Hlt|Heq]|Hgt]; [|assumption|].
  - specialize (B' i ltac:(lia)). specialize (A j ltac:(lia)). lia.
  - specialize (B j ltac:(lia)). specialize (A' i ltac:(lia)). lia.
Qed.

Lemma nth_error_some_nth {A} (l : list A) t d v :
  nth_error l t = Some v -> (t < length l)%nat /\ nth t l d = v.
Proof.
  intros H. split.
  - apply nth_error_Some. congruence.
  - apply nth_error_nth with (d := d) in H. exact H.
Qed.

Lemma nth_error_of_nth {A} (l : list A) t d : (t < length l)%nat ->
  nth_error l t = Some (nth t l d).
Proof. intros H. apply nth_error_nth'. exact H. Qed.

(* ------------------------------------------------------------------ *)
(* masks                                                               *)
(* ------------------------------------------------------------------ *)
Lemma mask_post_nth : forall a pk t, nth_error (mask_post a pk) t =
  option_map (fun v => if (t <? pk)%nat then None else Some v) (nth_error a t).
Proof.
  induction a as [|v r IH]; intros pk t.
  - destruct t; reflexivity.
  - destruct t as [|t], pk as [|k]; cbn [mask_post nth_error option_map]; try reflexivity.
    + rewrite IH. reflexivity.
    + rewrite IH. reflexivity.
Qed.

Lemma mask_pre_nth : forall a pk t, nth_error (mask_pre a pk) t =
  option_map (fun v => if (t <? pk)%nat then Some v else None) (nth_error a t).
Proof.
  induction a as [|v r IH]; intros pk t.
  - destruct t; reflexivity.
  - destruct t as [|t], pk as [|k]; cbn [mask_pre nth_error option_map]; try reflexivity.
    + rewrite IH. reflexivity.
    + rewrite IH. reflexivity.
Qed.

Lemma mask_post_length : forall a pk, length (mask_post a pk) = length a.
Proof. induction a; intros [|k]; cbn; auto. Qed.
Lemma mask_pre_length : forall a pk, length (mask_pre a pk) = length a.
Proof. induction a; intros [|k]; cbn; auto. Qed.

Lemma mask_post_some a pk t v :
  nth_error (mask_post a pk) t = Some (Some v) <->
  (pk <= t < length a)%nat /\ nth t a 0 = v.
Proof.
  rewrite mask_post_nth. split.
  - destruct (nth_error a t) as [u|] eqn:E; cbn [option_map]; [|discriminate].
    apply nth_error_some_nth with (d := 0) in E. destruct E as [L N].
    destruct (Nat.ltb_spec t pk) as [Hc|Hc]; intros Hx; inversion Hx; subst. split; [lia|reflexivity].
  - intros [R N]. rewrite (nth_error_of_nth a t 0) by lia. cbn [option_map].
    destruct (Nat.ltb_spec t pk); [lia|]. now rewrite N.
Qed.

Lemma mask_pre_some a pk t v :
  nth_error (mask_pre a pk) t = Some (Some v) <->
  (t < pk /\ t < length a)%nat /\ nth t a 0 = v.
Proof.
  rewrite mask_pre_nth. split.
  - destruct (nth_error a t) as [u|] eqn:E; cbn [option_map]; [|discriminate].
    apply nth_error_some_nth with (d := 0) in E. destruct E as [L N].
    destruct (Nat.ltb_spec t pk) as [Hc|Hc]; intros Hx; inversion Hx; subst. split; [lia|reflexivity].
  - intros [R N]. rewrite (nth_error_of_nth a t 0) by lia. cbn [option_map].
    destruct (Nat.ltb_spec t pk); [|lia]. now rewrite N.
Qed.

(* nanargmax of the post mask = first maximum on [pk, T) *)
Lemma nanargmax_post a pk i m :
  nanargmax (mask_post a pk) = Some (i, m) <->
  first_max_on a pk (length a) i /\ m = nth i a 0.
Proof.
  split.
  - intros H. apply nanargmax_spec in H. destruct H as (A & B & Cc).
    apply mask_post_some in A. destruct A as [R N]. split; [|auto].
    split; [exact R|]. rewrite N. split.
    + intros t Ht. apply (B t). apply mask_post_some. auto.
    + intros t Ht. apply (Cc t); [lia|]. apply mask_post_some. split; [lia|auto].
  - intros [(R & A & B) ->]. apply nanargmax_complete. split; [|split].
    + apply mask_post_some. auto.
    + intros j v Hj. apply mask_post_some in Hj. destruct Hj as [Rj <-]. auto.
    + intros j v Hlt Hj. apply mask_post_some in Hj. destruct Hj as [Rj <-]. apply B. lia.
Qed.

Lemma nanargmax_pre a pk i m :
  nanargmax (mask_pre a pk) = Some (i, m) <->
  first_max_on a 0 (Nat.min pk (length a)) i /\ m = nth i a 0.
Proof.
  split.
  - intros H. apply nanargmax_spec in H. destruct H as (A & B & Cc).
    apply mask_pre_some in A. destruct A as [R N]. split; [|auto].
    split; [lia|]. rewrite N. split.
    + intros t Ht. apply (B t). apply mask_pre_some. split; [lia|auto].
    + intros t Ht. apply (Cc t); [lia|]. apply mask_pre_some. split; [lia|auto].
  - intros [(R & A & B) ->]. apply nanargmax_complete. split; [|split].
    + apply mask_pre_some. split; [lia|auto].
    + intros j v Hj. apply mask_pre_some in Hj. destruct Hj as [Rj <-]. apply A. lia.
    + intros j v Hlt Hj. apply mask_pre_some in Hj. destruct Hj as [Rj <-]. apply B. lia.
Qed.

Lemma nanargmax_post_total a pk : (pk < length a)%nat ->
  exists i m, nanargmax (mask_post a pk) = Some (i, m).
Proof.
  intros H. apply (nanargmax_exists _ pk (nth pk a 0)). apply mask_post_some. split; [lia|auto].
Qed.

Lemma nanargmax_pre_total a pk : (1 <= pk)%nat -> (1 <= length a)%nat ->
  exists i m, nanargmax (mask_pre a pk) = Some (i, m).
Proof.
  intros H L. apply (nanargmax_exists _ O (nth O a 0)). apply mask_pre_some. split; [lia|auto].
Qed.

Lemma nanargmax_pre_none a : nanargmax (mask_pre a 0) = None.
Proof.
  destruct (nanargmax (mask_pre a 0)) as [[i m]|] eqn:E; [|reflexivity].
  apply nanargmax_pre in E. destruct E as [(R & _) _]. simpl in R. lia.
Qed.

(* argmax on NaN-free lists *)
Lemma argmax_spec l i m : argmax l = Some (i, m) <->
  first_max_on l 0 (length l) i /\ m = nth i l 0.
Proof.
  unfold argmax. split.
  - intros H. apply nanargmax_spec in H. destruct H as (A & B & Cc).
    rewrite nth_error_map in A. destruct (nth_error l i) as [u|] eqn:E; [|discriminate].
    cbn in A. inversion A; subst u. apply nth_error_some_nth with (d := 0) in E. destruct E as [L N].
    split; [|auto]. split; [lia|]. rewrite N. split.
    + intros t Ht. apply (B t). rewrite nth_error_map, (nth_error_of_nth l t 0) by lia. reflexivity.
    + intros t Ht. apply (Cc t); [lia|]. rewrite nth_error_map, (nth_error_of_nth l t 0) by lia. reflexivity.
  - intros [(R & A & B) ->]. apply nanargmax_complete. split; [|split].
    + rewrite nth_error_map, (nth_error_of_nth l i 0) by lia. reflexivity.
    + intros j v Hj. rewrite nth_error_map in Hj. destruct (nth_error l j) as [u|] eqn:E; [|discriminate].
      cbn in Hj. inversion Hj; subst u. apply nth_error_some_nth with (d := 0) in E. destruct E as [L <-].
      apply A. lia.
    + intros j v Hlt Hj. rewrite nth_error_map in Hj. destruct (nth_error l j) as [u|] eqn:E; [|discriminate].
      cbn in Hj. inversion Hj; subst u. apply nth_error_some_nth with (d := 0) in E. destruct E as [L <-].
      apply B. lia.
Qed.

Lemma argmax_total l : (1 <= length l)%nat -> exists i m, argmax l = Some (i, m).
Proof.
  intros H. unfold argmax. apply (nanargmax_exists _ O (nth O l 0)).
  rewrite nth_error_map, (nth_error_of_nth l O 0) by lia. reflexivity.
Qed.

Lemma argmax_scale c l : 0 < c ->
  argmax (map (Z.mul c) l) = option_map (fun p => (fst p, c * snd p)) (argmax l).
Proof.
  intros Hc. unfold argmax. rewrite <- (nanargmax_scale c Hc). f_equal.
  rewrite !map_map. reflexivity.
Qed.

Lemma recovery_idx_spec T k tq : (tq < T)%nat ->
  (recovery_idx T k tq < T)%nat /\
  ((tq + k < T)%nat -> recovery_idx T k tq = (tq + k)%nat) /\
  ((T <= tq + k)%nat -> recovery_idx T k tq = (T - 1)%nat).
Proof.
  intros H. unfold recovery_idx. destruct (Nat.leb_spec T (tq + k)); lia.
Qed.

(* ------------------------------------------------------------------ *)
(* inversion, values                                                   *)
(* ------------------------------------------------------------------ *)
(* the factor by which invert_peak_waveform multiplies a row *)
Definition sg (pv : Z) : Z := if pv >? 0 then -1 else 1.

Lemma sg_cases pv : (0 < pv /\ sg pv = -1) \/ (pv <= 0 /\ sg pv = 1).
Proof. unfold sg. destruct (Z.gtb_spec pv 0); lia. Qed.

Lemma sg_sq pv : sg pv * sg pv = 1.
Proof. destruct (sg_cases pv) as [[_ ->]|[_ ->]]; reflexivity. Qed.

Lemma inv_sign_sg pv : pv <> 0 -> inv_sign pv = sg pv.
Proof. intros H. unfold inv_sign. destruct (sg_cases pv) as [[P ->]|[P ->]]; lia. Qed.

Lemma invert_map x pv : invert x pv = map (Z.mul (sg pv)) x.
Proof.
  unfold invert, sg. destruct (pv >? 0).
  - apply map_ext. intros; lia.
  - rewrite <- (map_id x) at 1. apply map_ext. intros; lia.
Qed.

Lemma nth_scale s a t : nth t (map (Z.mul s) a) 0 = s * nth t a 0.
Proof.
  replace (nth t (map (Z.mul s) a) 0) with (nth t (map (Z.mul s) a) (s * 0)) by (f_equal; lia).
  apply map_nth.
Qed.

Lemma map_mul_1 x : map (Z.mul 1) x = x.
Proof. rewrite <- (map_id x) at 2. apply map_ext. intros; lia. Qed.

Lemma find_trough_some a pk s tq tv :
  find_trough a pk s = Some (tq, tv) <-> first_max_on a pk (length a) tq /\ tv = vat a tq s.
Proof.
  unfold find_trough. destruct (nanargmax (mask_post a pk)) as [[i m]|] eqn:E.
  - apply nanargmax_post in E. destruct E as [F _]. split.
    + intros H. inversion H; subst. auto.
    + intros [F' ->]. rewrite (first_max_on_unique _ _ _ _ _ F F'). reflexivity.
  - split; [discriminate|]. intros [F _]. exfalso.
    assert (nanargmax (mask_post a pk) = Some (tq, nth tq a 0)) by (apply nanargmax_post; auto).
    congruence.
Qed.

Lemma find_tip_some a pk s tp tv :
  find_tip a pk s = Some (tp, tv) <->
  first_max_on a 0 (Nat.min pk (length a)) tp /\ tv = vat a tp s.
Proof.
  unfold find_tip. destruct (nanargmax (mask_pre a pk)) as [[i m]|] eqn:E.
  - apply nanargmax_pre in E. destruct E as [F _]. split.
    + intros H. inversion H; subst. auto.
    + intros [F' ->]. rewrite (first_max_on_unique _ _ _ _ _ F F'). reflexivity.
  - split; [discriminate|]. intros [F _]. exfalso.
    assert (nanargmax (mask_pre a pk) = Some (tp, nth tp a 0)) by (apply nanargmax_pre; auto).
    congruence.
Qed.

(* ------------------------------------------------------------------ *)
(* boolean searches (half-peak points)                                 *)
(* ------------------------------------------------------------------ *)
Lemma find_first_spec : forall l,
  match find_first l with
  | Some i => (i < length l)%nat /\ nth i l false = true /\
              forall j, (j < i)%nat -> nth j l false = false
  | None => forall j, nth j l false = false
  end.
Proof.
  induction l as [|b r IH]; cbn [find_first].
  - intros [|j]; reflexivity.
  - destruct b.
    + cbn. split; [lia|]. split; [reflexivity|]. intros j Hj; lia.
    + destruct (find_first r) as [i|]; cbn [option_map].
      * destruct IH as (L & A & B). cbn [length nth]. split; [lia|]. split; [exact A|].
        intros [|j] Hj; [reflexivity|]. apply B. lia.
      * intros [|j]; [reflexivity|]. cbn. apply IH.
Qed.

Lemma nth_bool_true (l : list bool) t :
  nth t l false = true <-> nth_error l t = Some true.
Proof.
  split.
  - intros H. destruct (nth_error l t) as [b|] eqn:E.
    + apply nth_error_some_nth with (d := false) in E. destruct E as [_ E]. congruence.
    + apply nth_error_None in E. rewrite nth_overflow in H by lia. discriminate.
  - intros H. apply nth_error_some_nth with (d := false) in H. tauto.
Qed.

Lemma nth_sub2 a pv s t : (t < length a)%nat ->
  nth t (sub2 a pv s) 0 = 2 * nth t a 0 - pv * s.
Proof.
  intros H. unfold sub2.
  rewrite (nth_indep _ 0 ((fun v => 2 * v - pv * s) 0)) by (rewrite map_length; lia).
  apply (map_nth (fun v => 2 * v - pv * s)).
Qed.

Lemma sub2_length a pv s : length (sub2 a pv s) = length a.
Proof. apply map_length. Qed.

Lemma post_bool a pk pv s t :
  nth t (map pos_opt (mask_post (sub2 a pv s) pk)) false = true <->
  (pk <= t < length a)%nat /\ 2 * nth t a 0 - pv * s > 0.
Proof.
  rewrite nth_bool_true, nth_error_map. split.
  - destruct (nth_error (mask_post (sub2 a pv s) pk) t) as [[v|]|] eqn:E; cbn [option_map pos_opt]; try discriminate.
    intros H. inversion H as [H1]. apply Z.gtb_lt in H1. apply mask_post_some in E. rewrite sub2_length in E.
    destruct E as [R N]. rewrite nth_sub2 in N by lia. split; [exact R|]. lia.
  - intros [R Hp].
    assert (E : nth_error (mask_post (sub2 a pv s) pk) t = Some (Some (2 * nth t a 0 - pv * s))).
    { apply mask_post_some. rewrite sub2_length. split; [exact R|]. apply nth_sub2. lia. }
    rewrite E. cbn [option_map pos_opt]. f_equal. apply Z.gtb_lt. lia.
Qed.

Lemma pre_bool a pk pv s t :
  nth t (map pos_opt (mask_pre (sub2 a pv s) pk)) false = true <->
  (t < pk /\ t < length a)%nat /\ 2 * nth t a 0 - pv * s > 0.
Proof.
  rewrite nth_bool_true, nth_error_map. split.
  - destruct (nth_error (mask_pre (sub2 a pv s) pk) t) as [[v|]|] eqn:E; cbn [option_map pos_opt]; try discriminate.
    intros H. inversion H as [H1]. apply Z.gtb_lt in H1. apply mask_pre_some in E. rewrite sub2_length in E.
    destruct E as [R N]. rewrite nth_sub2 in N by lia. split; [exact R|]. lia.
  - intros [R Hp].
    assert (E : nth_error (mask_pre (sub2 a pv s) pk) t = Some (Some (2 * nth t a 0 - pv * s))).
    { apply mask_pre_some. rewrite sub2_length. split; [exact R|]. apply nth_sub2. lia. }
    rewrite E. cbn [option_map pos_opt]. f_equal. apply Z.gtb_lt. lia.
Qed.

(* half_post: the first sample from the peak on whose (stored) trace exceeds the
   half-peak level; 0 when there is none (argmax of an all-False row) *)
Lemma half_post_spec a pk pv s :
  let P t := (pk <= t < length a)%nat /\ 2 * nth t a 0 - pv * s > 0 in
  (forall t, P t -> P (half_post a pk pv s) /\ (half_post a pk pv s <= t)%nat) /\
  ((forall t, ~ P t) -> half_post a pk pv s = O).
Proof.
  intros P. unfold half_post, first_true.
  pose proof (find_first_spec (map pos_opt (mask_post (sub2 a pv s) pk))) as F.
  destruct (find_first _) as [i|].
  - destruct F as (L & A & B). apply post_bool in A. split.
    + intros t Ht. split; [exact A|].
      destruct (le_lt_dec i t) as [|Hlt]; [assumption|]. exfalso.
      specialize (B t Hlt). apply post_bool in Ht. congruence.
    + intros H. exfalso. exact (H i A).
  - split; [|reflexivity]. intros t Ht. apply post_bool in Ht. rewrite F in Ht. discriminate.
Qed.

(* half_pre: the last sample before the peak above the half-peak level;
   T - 1 when there is none *)
Lemma half_pre_spec a pk pv s :
  let Q t := (t < pk /\ t < length a)%nat /\ 2 * nth t a 0 - pv * s > 0 in
  (forall t, Q t -> Q (half_pre a pk pv s) /\ (t <= half_pre a pk pv s)%nat) /\
  ((forall t, ~ Q t) -> half_pre a pk pv s = (length a - 1)%nat).
Proof.
  intros Q. unfold half_pre, first_true.
  set (bl := map pos_opt (mask_pre (sub2 a pv s) pk)).
  assert (Lb : length bl = length a).
  { unfold bl. rewrite map_length, mask_pre_length. apply sub2_length. }
  pose proof (find_first_spec (rev bl)) as F.
  destruct (find_first (rev bl)) as [i|].
  - destruct F as (L & A & B). rewrite rev_length in L.
    rewrite rev_nth in A by lia.
    replace (length bl - S i)%nat with (length a - 1 - i)%nat in A by lia.
    apply pre_bool in A. split.
    + intros t Ht. split; [exact A|].
      destruct (le_lt_dec t (length a - 1 - i)) as [|Hlt]; [assumption|]. exfalso.
      assert (Ht' := Ht). destruct Ht' as [[_ Lt] _].
      specialize (B (length a - 1 - t)%nat ltac:(lia)).
      rewrite rev_nth in B by lia.
      replace (length bl - S (length a - 1 - t))%nat with t in B by lia.
      apply pre_bool in Ht. fold bl in Ht. congruence.
    + intros H. exfalso. exact (H _ A).
  - split; [|intros _; lia]. intros t Ht. exfalso.
    assert (Ht' := Ht). destruct Ht' as [[_ Lt] _].
    specialize (F (length a - 1 - t)%nat).
    rewrite rev_nth in F by lia.
    replace (length bl - S (length a - 1 - t))%nat with t in F by lia.
    apply pre_bool in Ht. fold bl in Ht. congruence.
Qed.

(* ------------------------------------------------------------------ *)
(* the per-row pipeline                                                *)
(* ------------------------------------------------------------------ *)
Section Trace.
Variable x : list Z.

(* what is known about the state handed to the tip / half-peak / recovery code *)
Definition wf (q : st) : Prop :=
  (s_pk q < length x)%nat /\ s_pv q = nth (s_pk q) x 0 /\ s_pv q <> 0 /\
  s_sg q = sg (s_pv q) /\
  first_max_on (map (Z.mul (s_sg q)) x) (s_pk q) (length x) (s_tq q) /\
  s_tv q = nth (s_tq q) x 0 /\ length (s_arr q) = length x.

(* the stored trace is the real trace times the sign flag *)
Definition consistent (q : st) : Prop := s_arr q = map (Z.mul (s_sg q)) x.

Lemma trough_of pk pv : (pk < length x)%nat -> pv = nth pk x 0 -> pv <> 0 ->
  exists tq, find_trough (invert x pv) pk (inv_sign pv) = Some (tq, nth tq x 0) /\
             first_max_on (map (Z.mul (sg pv)) x) pk (length x) tq.
Proof.
  intros L E N. rewrite invert_map, inv_sign_sg by assumption.
  destruct (nanargmax_post_total (map (Z.mul (sg pv)) x) pk) as (i & m & H).
  { rewrite map_length. exact L. }
  apply nanargmax_post in H. destruct H as [F _]. rewrite map_length in F.
  exists i. split; [|exact F]. apply find_trough_some. rewrite map_length. split; [exact F|].
  unfold vat. rewrite nth_scale.
  destruct (sg_cases pv) as [[_ ->]|[_ ->]]; lia.
Qed.

Lemma stage1_spec pk : (pk < length x)%nat -> nth pk x 0 <> 0 ->
  exists q, stage1 x pk = Some q /\ wf q /\ consistent q /\ s_pk q = pk.
Proof.
  intros L N. unfold stage1.
  destruct (trough_of pk (nth pk x 0) L eq_refl N) as (tq & H & F).
  rewrite H. eexists. split; [reflexivity|].
  unfold wf, consistent; cbn [s_pk s_pv s_sg s_arr s_tq s_tv].
  rewrite inv_sign_sg by assumption. rewrite invert_map, map_length. auto 10.
Qed.

Lemma swap_cond_true q : swap_cond q = true ->
  0 < s_pv q /\ s_tv q <> 0 /\ 2 * Z.abs (s_pv q) <= 3 * Z.abs (s_tv q).
Proof.
  unfold swap_cond, ratio_le_15. intros H.
  apply andb_prop in H. destruct H as [H1 H2]. apply andb_prop in H2. destruct H2 as [H2 H3].
  apply Z.gtb_lt in H1. apply Z.leb_le in H3. apply negb_true_iff in H2. apply Z.eqb_neq in H2. auto.
Qed.

Lemma swap_row_spec q : wf q -> swap_cond q = true ->
  exists q', swap_row x q = Some q' /\ wf q' /\ consistent q' /\ s_pk q' = s_tq q /\ s_pv q' = s_tv q.
Proof.
  intros (L & Pv & Nz & Sg & F & Tv & La) Hs.
  destruct (swap_cond_true q Hs) as (_ & Tnz & _).
  assert (L' : (s_tq q < length x)%nat) by (destruct F as [R _]; lia).
  unfold swap_row.
  destruct (trough_of (s_tq q) (s_tv q) L' Tv Tnz) as (tq & H & F').
  rewrite H. eexists. split; [reflexivity|].
  unfold wf, consistent; cbn [s_pk s_pv s_sg s_arr s_tq s_tv].
  rewrite inv_sign_sg by assumption. rewrite invert_map, map_length. auto 10.
Qed.

(* state after find_trough + swap branch *)
Definition final_state (pk : nat) (q : st) : Prop :=
  exists q0, stage1 x pk = Some q0 /\ swap_stage x q0 = Some q.

Lemma final_state_total pk : (pk < length x)%nat -> nth pk x 0 <> 0 ->
  exists q, final_state pk q.
Proof.
  intros L N. destruct (stage1_spec pk L N) as (q0 & H0 & W0 & C0 & P0).
  unfold final_state, swap_stage. destruct (swap_cond q0) eqn:Hs.
  - destruct (swap_row_spec q0 W0 Hs) as (q' & H' & _). exists q', q0. rewrite Hs. auto.
  - exists q0, q0. rewrite Hs. auto.
Qed.

(* the decision taken on the first trough, in terms of the trace only *)
Definition swap_decision (pk tq0 : nat) : bool :=
  (nth pk x 0 >? 0) && ratio_le_15 (nth pk x 0) (nth tq0 x 0).

Lemma final_state_spec pk q : (pk < length x)%nat -> nth pk x 0 <> 0 ->
  final_state pk q ->
  wf q /\ (pk <= s_pk q)%nat /\
  (exists tq0, first_max_on (map (Z.mul (sg (nth pk x 0))) x) pk (length x) tq0 /\
               (s_pk q, s_pv q) = if swap_decision pk tq0 then (tq0, nth tq0 x 0) else (pk, nth pk x 0)) /\
  consistent q.
Proof.
  intros L N (q0 & H0 & Hq).
  destruct (stage1_spec pk L N) as (q0' & H0' & W0 & C0 & P0).
  rewrite H0 in H0'. inversion H0'; subst q0'; clear H0'.
  assert (W0' := W0). destruct W0' as (L0 & Pv0 & Nz0 & Sg0 & F0 & Tv0 & La0).
  rewrite P0 in *. rewrite Sg0, Pv0 in F0.
  assert (Dec : swap_decision pk (s_tq q0) = swap_cond q0).
  { unfold swap_decision, swap_cond. rewrite Pv0, Tv0. reflexivity. }
  unfold swap_stage in Hq. destruct (swap_cond q0) eqn:Hs.
  - destruct (swap_row_spec q0 W0 Hs) as (q' & H' & W' & C' & Pk' & Pv').
    rewrite Hq in H'. inversion H'; subst q'; clear H'.
    split; [exact W'|]. split; [destruct F0 as [R _]; lia|]. split; [|exact C'].
    exists (s_tq q0). split; [exact F0|]. rewrite Dec, Pk', Pv', Tv0. reflexivity.
  - inversion Hq; subst q; clear Hq. split; [exact W0|]. split; [lia|]. split; [|exact C0].
    exists (s_tq q0). split; [exact F0|]. rewrite Dec, P0, Pv0. reflexivity.
Qed.

(* inversion of the last stage *)
Lemma tail_stage_inv k tr q f : tail_stage k tr q = Some f ->
  let a := s_arr q in
  (k < length a)%nat /\
  first_max_on a 0 (Nat.min (s_pk q) (length a)) (f_tip f) /\
  f = mkF tr (s_pk q) (s_pv q) (s_sg q) (s_tq q) (s_tv q) (f_tip f) (vat a (f_tip f) (s_sg q))
          (half_post a (s_pk q) (s_pv q) (s_sg q)) (half_pre a (s_pk q) (s_pv q) (s_sg q))
          (vat a (half_post a (s_pk q) (s_pv q) (s_sg q)) (s_sg q))
          (vat a (half_pre a (s_pk q) (s_pv q) (s_sg q)) (s_sg q))
          (recovery_idx (length a) k (s_tq q))
          (vat a (recovery_idx (length a) k (s_tq q)) (s_sg q)).
Proof.
  unfold tail_stage. destruct (find_tip (s_arr q) (s_pk q) (s_sg q)) as [[tp tpv]|] eqn:E; [|discriminate].
  apply find_tip_some in E. destruct E as [F ->].
  destruct (Nat.leb_spec (length (s_arr q)) k) as [Hk|Hk]; [discriminate|].
  intros Hf. inversion Hf; subst f; clear Hf. cbn [f_tip]. auto.
Qed.

Lemma tail_stage_total k tr q : (1 <= s_pk q)%nat -> (k < length (s_arr q))%nat ->
  exists f, tail_stage k tr q = Some f.
Proof.
  intros Hp Hk. unfold tail_stage.
  destruct (nanargmax_pre_total (s_arr q) (s_pk q) Hp ltac:(lia)) as (i & m & E).
  unfold find_tip. rewrite E.
  destruct (Nat.leb_spec (length (s_arr q)) k); [lia|]. eauto.
Qed.

Lemma tail_stage_fails k tr q : (s_pk q = 0%nat \/ length (s_arr q) <= k)%nat ->
  tail_stage k tr q = None.
Proof.
  intros [H|H]; unfold tail_stage, find_tip.
  - rewrite H, nanargmax_pre_none. reflexivity.
  - destruct (nanargmax _) as [[? ?]|]; [|reflexivity].
    destruct (Nat.leb_spec (length (s_arr q)) k); [reflexivity|lia].
Qed.

Lemma trace_features_unfold k tr pk f : trace_features k tr x pk = Some f <->
  exists q, final_state pk q /\ tail_stage k tr q = Some f.
Proof.
  unfold trace_features, final_state. split.
  - destruct (stage1 x pk) as [q0|]; [|discriminate].
    destruct (swap_stage x q0) as [q|] eqn:E; [|discriminate]. intros H. exists q. eauto.
  - intros (q & (q0 & H0 & Hq) & Ht). rewrite H0, Hq. exact Ht.
Qed.

End Trace.

(* ------------------------------------------------------------------ *)
(* from the waveform to the peak trace                                 *)
(* ------------------------------------------------------------------ *)
Definition rect (w : list (list (option Z))) (T C : nat) : Prop :=
  length w = T /\ forall row, In row w -> length row = C.

(* trace c of the waveform after NaN -> 0, and sample (t, c) *)
Definition trace_of (w : list (list (option Z))) (c : nat) : list Z :=
  map (fun row => denan (nth c row None)) w.
Definition smp (w : list (list (option Z))) (t c : nat) : Z := nth t (trace_of w c) 0.

Lemma trace_of_length w c : length (trace_of w c) = length w.
Proof. apply map_length. Qed.

Lemma chan_denan w c : chan (denan_wav w) c = trace_of w c.
Proof.
  unfold chan, denan_wav, trace_of. rewrite map_map. apply map_ext. intros row.
  change 0 with (denan None). apply map_nth.
Qed.

Lemma chans_rect w T C : rect w T C -> (1 <= T)%nat ->
  chans (denan_wav w) = map (trace_of w) (seq 0 C).
Proof.
  intros [L R] HT. unfold chans.
  assert (N : nchan (denan_wav w) = C).
  { unfold nchan, denan_wav. destruct w as [|row r]; [simpl in L; lia|].
    cbn. rewrite map_length. apply R. left; reflexivity. }
  rewrite N. apply map_ext. intros c. apply chan_denan.
Qed.

Lemma chans_nil w T C : rect w T C -> (T = 0 \/ C = 0)%nat -> chans (denan_wav w) = [].
Proof.
  intros [L R] H. unfold chans, nchan, denan_wav. destruct w as [|row r]; [reflexivity|].
  cbn [map hd]. rewrite map_length, (R row) by (left; reflexivity).
  destruct H as [H|H]; [simpl in L; lia|]. rewrite H. reflexivity.
Qed.

Lemma nth_abs l t : nth t (map Z.abs l) 0 = Z.abs (nth t l 0).
Proof. change 0 with (Z.abs 0) at 1. apply map_nth. Qed.

Lemma pick_maxima_spec : forall cs, (forall ch, In ch cs -> (1 <= length ch)%nat) ->
  exists pm, pick_maxima cs = Some pm /\ length pm = length cs /\
    forall c, (c < length cs)%nat ->
      argmax (map Z.abs (nth c cs [])) = Some (nth c pm (O, 0)).
Proof.
  induction cs as [|ch r IH]; intros H.
  - exists []. split; [reflexivity|]. split; [reflexivity|]. intros c Hc. simpl in Hc. lia.
  - destruct IH as (pm & E & L & A). { intros ch' Hin. apply H. right; assumption. }
    destruct (argmax_total (map Z.abs ch)) as (i & m & Ea).
    { rewrite map_length. apply H. left; reflexivity. }
    exists ((i, m) :: pm). cbn [pick_maxima fold_right]. fold (pick_maxima r). rewrite Ea, E.
    split; [reflexivity|]. split; [simpl; lia|].
    intros [|c] Hc; [exact Ea|]. cbn [nth]. apply A. simpl in Hc. lia.
Qed.

Lemma pick_peak_spec cs : (1 <= length cs)%nat -> (forall ch, In ch cs -> (1 <= length ch)%nat) ->
  exists tr pk, pick_peak cs = Some (tr, pk) /\ (tr < length cs)%nat /\
    (pk < length (nth tr cs []))%nat /\
    (forall c t, (c < length cs)%nat -> (t < length (nth c cs []))%nat ->
        Z.abs (nth t (nth c cs []) 0) <= Z.abs (nth pk (nth tr cs []) 0)) /\
    (forall c t, (c < tr)%nat -> (t < length (nth c cs []))%nat ->
        Z.abs (nth t (nth c cs []) 0) < Z.abs (nth pk (nth tr cs []) 0)) /\
    (forall t, (t < pk)%nat -> Z.abs (nth t (nth tr cs []) 0) < Z.abs (nth pk (nth tr cs []) 0)).
Proof.
  intros L H. destruct (pick_maxima_spec cs H) as (pm & E & Lp & A).
  destruct (argmax_total (map snd pm)) as (tr & M & Ea). { rewrite map_length. lia. }
  unfold pick_peak. rewrite E, Ea.
  apply argmax_spec in Ea. rewrite map_length in Ea. destruct Ea as [(R & B & Cc) EM].
  assert (Snd : forall c, nth c (map snd pm) 0 = snd (nth c pm (O, 0))).
  { intros c. change 0 with (snd (O, 0)) at 1. apply map_nth. }
  (* per-channel facts *)
  assert (Ch : forall c, (c < length cs)%nat ->
            let ic := fst (nth c pm (O, 0)) in
            (ic < length (nth c cs []))%nat /\
            snd (nth c pm (O, 0)) = Z.abs (nth ic (nth c cs []) 0) /\
            (forall t, (t < length (nth c cs []))%nat ->
                Z.abs (nth t (nth c cs []) 0) <= snd (nth c pm (O, 0))) /\
            (forall t, (t < ic)%nat -> Z.abs (nth t (nth c cs []) 0) < snd (nth c pm (O, 0)))).
  { intros c Hc. specialize (A c Hc). destruct (nth c pm (O, 0)) as [ic mc] eqn:En. cbn [fst snd].
    apply argmax_spec in A. rewrite map_length in A. destruct A as [(R1 & B1 & C1) E1].
    rewrite nth_abs in E1. split; [lia|]. split; [exact E1|]. split.
    - intros t Ht. specialize (B1 t ltac:(lia)). rewrite !nth_abs in B1. lia.
    - intros t Ht. specialize (C1 t ltac:(lia)). rewrite !nth_abs in C1. lia. }
  exists tr, (fst (nth tr pm (O, 0))). split; [reflexivity|].
  destruct (Ch tr ltac:(lia)) as (I1 & I2 & I3 & I4).
  split; [lia|]. split; [exact I1|]. rewrite <- I2. split; [|split].
  - intros c t Hc Ht. destruct (Ch c Hc) as (_ & _ & J3 & _). specialize (J3 t Ht).
    specialize (B c ltac:(lia)). rewrite !Snd in B. lia.
  - intros c t Hc Ht. destruct (Ch c ltac:(lia)) as (_ & _ & J3 & _). specialize (J3 t Ht).
    specialize (Cc c ltac:(lia)). rewrite !Snd in Cc. lia.
  - exact I4.
Qed.

Lemma pick_peak_nil : pick_peak [] = None.
Proof. reflexivity. Qed.

(* the extremum the property speaks of: first channel holding the largest
   |sample| of the whole waveform, first position of that value in it *)
Definition is_extremum (w : list (list (option Z))) (T C tr pk0 : nat) : Prop :=
  (tr < C)%nat /\ (pk0 < T)%nat /\
  (forall t c, (t < T)%nat -> (c < C)%nat -> Z.abs (smp w t c) <= Z.abs (smp w pk0 tr)) /\
  (forall t c, (t < T)%nat -> (c < tr)%nat -> Z.abs (smp w t c) < Z.abs (smp w pk0 tr)) /\
  (forall t, (t < pk0)%nat -> Z.abs (smp w t tr) < Z.abs (smp w pk0 tr)).

Lemma is_extremum_unique w T C tr pk tr' pk' :
  is_extremum w T C tr pk -> is_extremum w T C tr' pk' -> tr = tr' /\ pk = pk'.
Proof.
  intros (A1 & A2 & A3 & A4 & A5) (B1 & B2 & B3 & B4 & B5).
  assert (tr = tr').
  { destruct (lt_eq_lt_dec tr tr') as [[H|H]|H]; [|assumption|].
    - specialize (B4 pk tr A2 H). specialize (A3 pk' tr' B2 B1). lia.
    - specialize (A4 pk' tr' B2 H). specialize (B3 pk tr A2 A1). lia. }
  subst tr'. split; [reflexivity|].
  destruct (lt_eq_lt_dec pk pk') as [[H|H]|H]; [|assumption|].
  - specialize (B5 pk H). specialize (A3 pk' tr B2 A1). lia.
  - specialize (A5 pk' H). specialize (B3 pk tr A2 A1). lia.
Qed.

Lemma pick_peak_wave w T C : rect w T C -> (1 <= T)%nat -> (1 <= C)%nat ->
  exists tr pk, pick_peak (chans (denan_wav w)) = Some (tr, pk) /\
                nth tr (chans (denan_wav w)) [] = trace_of w tr /\
                is_extremum w T C tr pk.
Proof.
  intros Hr HT HC. rewrite (chans_rect w T C Hr HT). destruct Hr as [L R].
  set (cs := map (trace_of w) (seq 0 C)).
  assert (Lc : length cs = C) by (unfold cs; rewrite map_length, seq_length; reflexivity).
  assert (Nc : forall c, (c < C)%nat -> nth c cs [] = trace_of w c).
  { intros c Hc. unfold cs. rewrite (nth_indep _ [] (trace_of w 0)) by (rewrite map_length, seq_length; lia).
    rewrite map_nth, seq_nth by lia. reflexivity. }
  destruct (pick_peak_spec cs) as (tr & pk & E & Ltr & Lpk & A & B & Cc).
  { lia. }
  { intros ch Hin. unfold cs in Hin. apply in_map_iff in Hin. destruct Hin as (c & <- & _).
    rewrite trace_of_length. lia. }
  rewrite Lc in *. exists tr, pk. split; [exact E|]. split; [apply Nc; exact Ltr|].
  rewrite (Nc tr Ltr) in *. rewrite trace_of_length, L in Lpk.
  unfold is_extremum, smp. split; [exact Ltr|]. split; [exact Lpk|]. split; [|split].
  - intros t c Ht Hc. specialize (A c t Hc). rewrite (Nc c Hc), trace_of_length, L in A. auto.
  - intros t c Ht Hc. specialize (B c t Hc). rewrite (Nc c ltac:(lia)), trace_of_length, L in B. auto.
  - exact Cc.
Qed.

Lemma stage1_fields x pk q0 : stage1 x pk = Some q0 -> s_pk q0 = pk /\ s_pv q0 = nth pk x 0.
Proof.
  unfold stage1. destruct (find_trough _ _ _) as [[tq tv]|]; [|discriminate].
  intros H. inversion H; subst. auto.
Qed.

Lemma final_state_length x pk q : final_state x pk q -> length (s_arr q) = length x.
Proof.
  intros (q0 & H0 & Hq). unfold stage1 in H0.
  destruct (find_trough _ _ _) as [[tq tv]|]; [|discriminate]. inversion H0; subst q0; clear H0.
  unfold swap_stage in Hq. destruct (swap_cond _).
  - unfold swap_row in Hq. destruct (find_trough _ _ _) as [[tq' tv']|]; [|discriminate].
    inversion Hq; subst q. cbn [s_arr]. rewrite invert_map. apply map_length.
  - inversion Hq; subst q. cbn [s_arr]. rewrite invert_map. apply map_length.
Qed.

(* a successful call: the original extremum, the state after the swap branch, the tail *)
Lemma features1_inv k w T C f : rect w T C -> features1 k w = Some f ->
  exists pk0 q,
    is_extremum w T C (f_trace f) pk0 /\ nth pk0 (trace_of w (f_trace f)) 0 <> 0 /\
    final_state (trace_of w (f_trace f)) pk0 q /\ tail_stage k (f_trace f) q = Some f /\
    (k < T)%nat /\ (1 <= s_pk q)%nat.
Proof.
  intros Hr Hf. unfold features1 in Hf.
  destruct (le_lt_dec T 0) as [HT|HT].
  { rewrite (chans_nil w T C Hr) in Hf by lia. discriminate. }
  destruct (le_lt_dec C 0) as [HC|HC].
  { rewrite (chans_nil w T C Hr) in Hf by lia. discriminate. }
  destruct (pick_peak_wave w T C Hr HT HC) as (tr & pk & E & Nx & Ex).
  rewrite E, Nx in Hf. set (x := trace_of w tr) in *.
  apply trace_features_unfold in Hf. destruct Hf as (q & Fs & Ht).
  assert (Ftr : f_trace f = tr).
  { apply tail_stage_inv in Ht. destruct Ht as (_ & _ & ->). reflexivity. }
  assert (Lx : length x = T) by (unfold x; rewrite trace_of_length; apply Hr).
  assert (Spk : (1 <= s_pk q)%nat /\ (k < T)%nat).
  { destruct (le_lt_dec 1 (s_pk q)) as [H1|H1].
    - split; [exact H1|]. apply tail_stage_inv in Ht. destruct Ht as (Hk & F & _).
      rewrite (final_state_length _ _ _ Fs) in Hk. lia.
    - rewrite tail_stage_fails in Ht by lia. discriminate. }
  rewrite Ftr. exists pk, q. split; [exact Ex|]. split; [|tauto].
  intros Z0. destruct Fs as (q0 & H0 & Hq).
  destruct (stage1_fields _ _ _ H0) as [P0 V0].
  assert (pk = 0)%nat.
  { destruct Ex as (_ & _ & _ & _ & E5). destruct pk; [reflexivity|].
    specialize (E5 O ltac:(lia)). unfold smp in E5. unfold x in *. rewrite Z0 in E5. lia. }
  fold x in Z0. unfold swap_stage, swap_cond in Hq. rewrite V0, Z0 in Hq. cbn in Hq. inversion Hq; subst q. lia.
Qed.

(* ------------------------------------------------------------------ *)
(* statements about a successful call                                  *)
(* ------------------------------------------------------------------ *)
Lemma tail_fields k tr q f : tail_stage k tr q = Some f ->
  let a := s_arr q in
  f_trace f = tr /\ f_peak f = s_pk q /\ f_peak_val f = s_pv q /\ f_sign f = s_sg q /\
  f_trough f = s_tq q /\ f_trough_val f = s_tv q /\
  first_max_on a 0 (Nat.min (s_pk q) (length a)) (f_tip f) /\
  f_tip_val f = vat a (f_tip f) (s_sg q) /\
  f_hpost f = half_post a (s_pk q) (s_pv q) (s_sg q) /\
  f_hpre f = half_pre a (s_pk q) (s_pv q) (s_sg q) /\
  f_hpost_val f = vat a (f_hpost f) (s_sg q) /\
  f_hpre_val f = vat a (f_hpre f) (s_sg q) /\
  f_rec f = recovery_idx (length a) k (s_tq q) /\
  f_rec_val f = vat a (f_rec f) (s_sg q) /\ (k < length a)%nat.
Proof.
  intros H a. apply tail_stage_inv in H. destruct H as (Hk & F & E). fold a in Hk, F, E.
  rewrite E. cbn [f_trace f_peak f_peak_val f_sign f_trough f_trough_val f_tip f_tip_val
                  f_hpost f_hpre f_hpost_val f_hpre_val f_rec f_rec_val].
  auto 20.
Qed.

(* "sample value v is back within half of the peak value pv" (one-sided, strict:
   exactly the test the code performs on the sign-corrected trace) *)
Definition within_half (pv v : Z) : Prop := (0 < pv /\ 2 * v < pv) \/ (pv < 0 /\ pv < 2 * v).

Lemma within_half_iff pv v : pv <> 0 ->
  (2 * (sg pv * v) - pv * sg pv > 0 <-> within_half pv v).
Proof.
  intros N. unfold within_half. destruct (sg_cases pv) as [[P ->]|[P ->]]; lia.
Qed.

(* totality under the guard *)
Lemma pub_total k w T C : rect w T C -> (1 <= C)%nat -> (k < T)%nat ->
  (exists t c, (1 <= t < T)%nat /\ (c < C)%nat /\
     forall c', (c' < C)%nat -> Z.abs (smp w 0 c') < Z.abs (smp w t c)) ->
  exists f, features1 k w = Some f.
Proof.
  intros Hr HC Hk (t & c & Ht & Hc & G).
  destruct (pick_peak_wave w T C Hr ltac:(lia) HC) as (tr & pk & E & Nx & Ex).
  unfold features1. rewrite E, Nx.
  destruct Ex as (E1 & E2 & E3 & E4 & E5). unfold smp in *.
  set (x := trace_of w tr) in *.
  assert (Lx : length x = T) by (unfold x; rewrite trace_of_length; apply Hr).
  assert (Pk : (1 <= pk)%nat).
  { destruct pk; [exfalso|lia]. specialize (G tr E1). specialize (E3 t c ltac:(lia) Hc).
    unfold x in *. lia. }
  assert (Nz : nth pk x 0 <> 0).
  { specialize (E5 O ltac:(lia)). lia. }
  destruct (final_state_total x pk ltac:(lia) Nz) as (q & Fs).
  destruct (final_state_spec x pk q ltac:(lia) Nz Fs) as (W & Hle & _).
  destruct (tail_stage_total k tr q ltac:(lia)) as (f & Hf).
  { destruct W as (_ & _ & _ & _ & _ & _ & La). lia. }
  exists f. apply trace_features_unfold. eauto.
Qed.

(* the peak *)
Lemma pub_peak k w T C f : rect w T C -> features1 k w = Some f ->
  let x := trace_of w (f_trace f) in
  exists pk0, is_extremum w T C (f_trace f) pk0 /\
    (exists tq0, first_max_on (map (Z.mul (sg (nth pk0 x 0))) x) pk0 T tq0 /\
       (f_peak f, f_peak_val f) =
         if swap_decision x pk0 tq0 then (tq0, nth tq0 x 0) else (pk0, nth pk0 x 0)) /\
    f_peak_val f = nth (f_peak f) x 0 /\ f_peak_val f <> 0 /\
    f_sign f = - Z.sgn (f_peak_val f) /\ (pk0 <= f_peak f < T)%nat.
Proof.
  intros Hr Hf x. destruct (features1_inv k w T C f Hr Hf) as (pk0 & q & Ex & Nz & Fs & Ht & Hk & Hp).
  fold x in Nz, Fs.
  assert (Lx : length x = T) by (unfold x; rewrite trace_of_length; apply Hr).
  assert (Lp : (pk0 < length x)%nat) by (destruct Ex as (_ & ? & _); lia).
  destruct (final_state_spec x pk0 q Lp Nz Fs) as (W & Hle & (tq0 & F0 & Epk) & _).
  destruct (tail_fields _ _ _ _ Ht) as (_ & F2 & F3 & F4 & _).
  destruct W as (L & Pv & Nzq & Sg & _).
  exists pk0. split; [exact Ex|]. rewrite F2, F3, F4. split.
  - exists tq0. rewrite <- Lx. auto.
  - split; [exact Pv|]. split; [exact Nzq|]. split; [|lia].
    rewrite Sg. symmetry. apply inv_sign_sg. exact Nzq.
Qed.

(* ordering, trough, recovery index: hold for every successful call *)
Lemma pub_order k w T C f : rect w T C -> features1 k w = Some f ->
  let x := trace_of w (f_trace f) in
  (f_tip f < f_peak f)%nat /\ (f_peak f <= f_trough f)%nat /\ (f_trough f < T)%nat /\
  first_max_on (map (Z.mul (f_sign f)) x) (f_peak f) T (f_trough f) /\
  f_trough_val f = nth (f_trough f) x 0 /\
  (f_rec f < T)%nat /\
  ((f_trough f + k < T)%nat -> f_rec f = (f_trough f + k)%nat) /\
  ((T <= f_trough f + k)%nat -> f_rec f = (T - 1)%nat).
Proof.
  intros Hr Hf x. destruct (features1_inv k w T C f Hr Hf) as (pk0 & q & Ex & Nz & Fs & Ht & Hk & Hp).
  fold x in Nz, Fs.
  assert (Lx : length x = T) by (unfold x; rewrite trace_of_length; apply Hr).
  assert (Lp : (pk0 < length x)%nat) by (destruct Ex as (_ & ? & _); lia).
  destruct (final_state_spec x pk0 q Lp Nz Fs) as (W & _).
  destruct (tail_fields _ _ _ _ Ht) as (_ & F2 & _ & F4 & F5 & F6 & Ftip & _ & _ & _ & _ & _ & F13 & _).
  destruct W as (L & Pv & Nzq & Sg & Ftr & Tv & La).
  rewrite F2, F4, F5, F6, F13, La, <- Lx.
  destruct Ftip as (Rt & _). destruct Ftr as (Rq & Aq & Bq).
  destruct (recovery_idx_spec (length x) k (s_tq q) ltac:(lia)) as (R1 & R2 & R3).
  repeat split; try lia; auto.
Qed.

(* tip, values, half-peak points *)
Lemma pub_consistent k w T C f : rect w T C -> features1 k w = Some f ->
  let x := trace_of w (f_trace f) in
  let W t := within_half (f_peak_val f) (nth t x 0) in
  first_max_on (map (Z.mul (f_sign f)) x) 0 (f_peak f) (f_tip f) /\
  f_tip_val f = nth (f_tip f) x 0 /\
  f_hpost_val f = nth (f_hpost f) x 0 /\ f_hpre_val f = nth (f_hpre f) x 0 /\
  f_rec_val f = nth (f_rec f) x 0 /\
  (forall t, (f_peak f < t < T)%nat -> W t -> (f_peak f < f_hpost f <= t)%nat /\ W (f_hpost f)) /\
  ((forall t, (f_peak f < t < T)%nat -> ~ W t) -> f_hpost f = O) /\
  (forall t, (t < f_peak f)%nat -> W t -> (t <= f_hpre f < f_peak f)%nat /\ W (f_hpre f)) /\
  ((forall t, (t < f_peak f)%nat -> ~ W t) -> f_hpre f = (T - 1)%nat).
Proof.
  intros Hr Hf x W.
  destruct (features1_inv k w T C f Hr Hf) as (pk0 & q & Ex & Nz & Fs & Ht & Hk & Hp).
  fold x in Nz, Fs.
  assert (Lx : length x = T) by (unfold x; rewrite trace_of_length; apply Hr).
  assert (Lp : (pk0 < length x)%nat) by (destruct Ex as (_ & ? & _); lia).
  destruct (final_state_spec x pk0 q Lp Nz Fs) as (Wq & _ & _ & Cons).
  unfold consistent in Cons.
  destruct (tail_fields _ _ _ _ Ht) as
    (_ & F2 & F3 & F4 & F5 & F6 & Ftip & F8 & F9 & F10 & F11 & F12 & F13 & F14 & _).
  destruct Wq as (L & Pv & Nzq & Sg & Ftr & Tv & La).
  assert (Val : forall i, vat (s_arr q) i (s_sg q) = nth i x 0).
  { intros i. unfold vat. rewrite Cons, nth_scale, Sg.
    destruct (sg_cases (s_pv q)) as [[_ ->]|[_ ->]]; lia. }
  assert (Cond : forall t, 2 * nth t (s_arr q) 0 - s_pv q * s_sg q > 0 <-> within_half (s_pv q) (nth t x 0)).
  { intros t. rewrite Cons, nth_scale, Sg. apply within_half_iff. exact Nzq. }
  assert (NotPk : ~ within_half (s_pv q) (nth (s_pk q) x 0)).
  { rewrite <- Pv. unfold within_half. lia. }
  unfold W. rewrite F2, F3, F4, F8, F11, F12, F14, !Val.
  rewrite Nat.min_l in Ftip by lia. rewrite Cons in Ftip.
  split; [exact Ftip|]. do 4 (split; [reflexivity|]).
  pose proof (half_post_spec (s_arr q) (s_pk q) (s_pv q) (s_sg q)) as [Po1 Po2].
  pose proof (half_pre_spec (s_arr q) (s_pk q) (s_pv q) (s_sg q)) as [Pr1 Pr2].
  rewrite <- F9 in Po1, Po2. rewrite <- F10 in Pr1, Pr2. rewrite La, Lx in *.
  split; [|split; [|split]].
  - intros t Rt Wt. destruct (Po1 t) as [[R1 C1] R2].
    { split; [lia|]. apply Cond. exact Wt. }
    apply Cond in C1. split; [|exact C1].
    destruct (Nat.eq_dec (f_hpost f) (s_pk q)) as [Eq|Ne]; [|lia].
    rewrite Eq in C1. contradiction.
  - intros Hn. apply Po2. intros t [Rt Ct]. apply Cond in Ct.
    destruct (Nat.eq_dec t (s_pk q)) as [Eq|Ne]; [subst t; contradiction|].
    apply (Hn t); [lia|exact Ct].
  - intros t Rt Wt. destruct (Pr1 t) as [[R1 C1] R2].
    { split; [lia|]. apply Cond. exact Wt. }
    apply Cond in C1. split; [lia|exact C1].
  - intros Hn. apply Pr2. intros t [Rt Ct]. apply Cond in Ct. apply (Hn t); [lia|exact Ct].
Qed.

(* ------------------------------------------------------------------ *)
(* positive scaling                                                    *)
(* ------------------------------------------------------------------ *)
Section Scale.
Variable c : Z.
Hypothesis Hc : 0 < c.

Definition scale_p (p : nat * Z) : nat * Z := (fst p, c * snd p).
Definition scale_st (q : st) : st :=
  mkSt (s_pk q) (c * s_pv q) (s_sg q) (map (Z.mul c) (s_arr q)) (s_tq q) (c * s_tv q).

Lemma denan_scale o : denan (option_map (Z.mul c) o) = c * denan o.
Proof. destruct o; cbn [option_map denan]; lia. Qed.

Lemma trace_of_scale w j : trace_of (scale_wav c w) j = map (Z.mul c) (trace_of w j).
Proof.
  unfold trace_of, scale_wav. rewrite !map_map. apply map_ext. intros row.
  change (@None Z) with (option_map (Z.mul c) None) at 1. rewrite map_nth. apply denan_scale.
Qed.

Lemma chans_scale w : chans (denan_wav (scale_wav c w)) = map (map (Z.mul c)) (chans (denan_wav w)).
Proof.
  unfold chans.
  assert (N : nchan (denan_wav (scale_wav c w)) = nchan (denan_wav w)).
  { unfold nchan, denan_wav, scale_wav. destruct w as [|row r]; [reflexivity|].
    cbn [map hd]. rewrite !map_length. reflexivity. }
  rewrite N, map_map. apply map_ext. intros j. rewrite !chan_denan. apply trace_of_scale.
Qed.

Lemma abs_scale l : map Z.abs (map (Z.mul c) l) = map (Z.mul c) (map Z.abs l).
Proof. rewrite !map_map. apply map_ext. intros v. rewrite Z.abs_mul. rewrite (Z.abs_eq c) by lia. reflexivity. Qed.

Lemma argmax_scale' l : argmax (map (Z.mul c) l) = option_map scale_p (argmax l).
Proof. apply argmax_scale. exact Hc. Qed.

Lemma pick_maxima_scale cs :
  pick_maxima (map (map (Z.mul c)) cs) = option_map (map scale_p) (pick_maxima cs).
Proof.
  induction cs as [|ch r IH]; [reflexivity|].
  cbn [map pick_maxima fold_right]. fold (pick_maxima (map (map (Z.mul c)) r)). fold (pick_maxima r).
  rewrite IH, abs_scale, argmax_scale'.
  destruct (argmax (map Z.abs ch)) as [p|]; destruct (pick_maxima r) as [l|]; reflexivity.
Qed.

Lemma nth_fst_scale : forall pm tr, fst (nth tr (map scale_p pm) (O, 0)) = fst (nth tr pm (O, 0)).
Proof. induction pm as [|p r IH]; intros [|tr]; cbn; auto. Qed.

Lemma pick_peak_scale cs : pick_peak (map (map (Z.mul c)) cs) = pick_peak cs.
Proof.
  unfold pick_peak. rewrite pick_maxima_scale.
  destruct (pick_maxima cs) as [pm|]; [|reflexivity]. cbn [option_map].
  replace (map snd (map scale_p pm)) with (map (Z.mul c) (map snd pm))
    by (rewrite !map_map; reflexivity).
  rewrite argmax_scale'. destruct (argmax (map snd pm)) as [[tr M]|]; [|reflexivity].
  cbn [option_map scale_p fst snd]. rewrite nth_fst_scale. reflexivity.
Qed.

Lemma gtb_scale v : (c * v >? 0) = (v >? 0).
Proof. destruct (Z.gtb_spec (c * v) 0), (Z.gtb_spec v 0); try reflexivity; nia. Qed.

Lemma invert_scale x pv : invert (map (Z.mul c) x) (c * pv) = map (Z.mul c) (invert x pv).
Proof.
  unfold invert. rewrite gtb_scale. destruct (pv >? 0); [|reflexivity].
  rewrite !map_map. apply map_ext. intros; lia.
Qed.

Lemma inv_sign_scale pv : inv_sign (c * pv) = inv_sign pv.
Proof. unfold inv_sign. rewrite Z.sgn_mul. rewrite (Z.sgn_pos c) by lia. lia. Qed.

Lemma mask_post_scale : forall a pk,
  mask_post (map (Z.mul c) a) pk = map (option_map (Z.mul c)) (mask_post a pk).
Proof. induction a as [|v r IH]; intros [|k]; cbn [map mask_post option_map]; try rewrite IH; reflexivity. Qed.

Lemma mask_pre_scale : forall a pk,
  mask_pre (map (Z.mul c) a) pk = map (option_map (Z.mul c)) (mask_pre a pk).
Proof. induction a as [|v r IH]; intros [|k]; cbn [map mask_pre option_map]; try rewrite IH; reflexivity. Qed.

Lemma vat_scale a i s : vat (map (Z.mul c) a) i s = c * vat a i s.
Proof. unfold vat. rewrite nth_scale. ring. Qed.

Lemma find_trough_scale a pk s :
  find_trough (map (Z.mul c) a) pk s = option_map scale_p (find_trough a pk s).
Proof.
  unfold find_trough. rewrite mask_post_scale, (nanargmax_scale c Hc).
  destruct (nanargmax (mask_post a pk)) as [[i m]|]; [|reflexivity].
  cbn [option_map fst snd]. unfold scale_p. cbn [fst snd]. rewrite vat_scale. reflexivity.
Qed.

Lemma find_tip_scale a pk s :
  find_tip (map (Z.mul c) a) pk s = option_map scale_p (find_tip a pk s).
Proof.
  unfold find_tip. rewrite mask_pre_scale, (nanargmax_scale c Hc).
  destruct (nanargmax (mask_pre a pk)) as [[i m]|]; [|reflexivity].
  cbn [option_map fst snd]. unfold scale_p. cbn [fst snd]. rewrite vat_scale. reflexivity.
Qed.

Lemma stage1_scale x pk : stage1 (map (Z.mul c) x) pk = option_map scale_st (stage1 x pk).
Proof.
  unfold stage1. rewrite nth_scale, invert_scale, inv_sign_scale, find_trough_scale.
  destruct (find_trough _ _ _) as [[tq tv]|]; reflexivity.
Qed.

Lemma swap_cond_scale q : swap_cond (scale_st q) = swap_cond q.
Proof.
  unfold swap_cond, ratio_le_15, scale_st; cbn [s_pv s_tv]. rewrite gtb_scale. f_equal. f_equal.
  - f_equal. destruct (Z.eqb_spec (c * s_tv q) 0), (Z.eqb_spec (s_tv q) 0); try reflexivity; nia.
  - rewrite !Z.abs_mul, (Z.abs_eq c) by lia.
    destruct (Z.leb_spec (2 * (c * Z.abs (s_pv q))) (3 * (c * Z.abs (s_tv q)))),
             (Z.leb_spec (2 * Z.abs (s_pv q)) (3 * Z.abs (s_tv q))); try reflexivity; nia.
Qed.

Lemma swap_row_scale x q :
  swap_row (map (Z.mul c) x) (scale_st q) = option_map scale_st (swap_row x q).
Proof.
  unfold swap_row.
  change (s_tv (scale_st q)) with (c * s_tv q). change (s_tq (scale_st q)) with (s_tq q).
  rewrite invert_scale, inv_sign_scale, find_trough_scale.
  destruct (find_trough _ _ _) as [[tq tv]|]; reflexivity.
Qed.

Lemma swap_stage_scale x q :
  swap_stage (map (Z.mul c) x) (scale_st q) = option_map scale_st (swap_stage x q).
Proof.
  unfold swap_stage. rewrite swap_cond_scale. destruct (swap_cond q); [apply swap_row_scale|reflexivity].
Qed.

Lemma sub2_scale a pv s : sub2 (map (Z.mul c) a) (c * pv) s = map (Z.mul c) (sub2 a pv s).
Proof. unfold sub2. rewrite !map_map. apply map_ext. intros; ring. Qed.

Lemma pos_opt_scale o : pos_opt (option_map (Z.mul c) o) = pos_opt o.
Proof. destruct o; cbn [option_map pos_opt]; [apply gtb_scale|reflexivity]. Qed.

Lemma half_post_scale a pk pv s : half_post (map (Z.mul c) a) pk (c * pv) s = half_post a pk pv s.
Proof.
  unfold half_post. rewrite sub2_scale, mask_post_scale, map_map. f_equal.
  apply map_ext. intros; apply pos_opt_scale.
Qed.

Lemma half_pre_scale a pk pv s : half_pre (map (Z.mul c) a) pk (c * pv) s = half_pre a pk pv s.
Proof.
  unfold half_pre. rewrite sub2_scale, mask_pre_scale, map_map, map_length. f_equal. f_equal. f_equal.
  apply map_ext. intros; apply pos_opt_scale.
Qed.

Lemma tail_stage_scale k tr q :
  tail_stage k tr (scale_st q) = option_map (scale_feats c) (tail_stage k tr q).
Proof.
  unfold tail_stage, scale_st; cbn [s_pk s_pv s_sg s_arr s_tq s_tv].
  rewrite find_tip_scale, map_length.
  destruct (find_tip (s_arr q) (s_pk q) (s_sg q)) as [[tp tpv]|]; [|reflexivity].
  cbn [option_map scale_p fst snd].
  destruct (length (s_arr q) <=? k)%nat; [reflexivity|].
  cbn [option_map]. unfold scale_feats; cbn [f_trace f_peak f_peak_val f_sign f_trough f_trough_val f_tip f_tip_val
                  f_hpost f_hpre f_hpost_val f_hpre_val f_rec f_rec_val].
  rewrite half_post_scale, half_pre_scale, !vat_scale. reflexivity.
Qed.

Lemma trace_features_scale k tr x pk :
  trace_features k tr (map (Z.mul c) x) pk = option_map (scale_feats c) (trace_features k tr x pk).
Proof.
  unfold trace_features. rewrite stage1_scale.
  destruct (stage1 x pk) as [q|]; [|reflexivity]. cbn [option_map].
  rewrite swap_stage_scale. destruct (swap_stage x q) as [q'|]; [|reflexivity]. cbn [option_map].
  apply tail_stage_scale.
Qed.

Lemma nth_map_nil {A B} (g : list A -> list B) (l : list (list A)) n :
  g [] = [] -> nth n (map g l) [] = g (nth n l []).
Proof. intros H. rewrite <- H at 1. apply map_nth. Qed.

Lemma pub_scale k w :
  features1 k (scale_wav c w) = option_map (scale_feats c) (features1 k w).
Proof.
  unfold features1. rewrite chans_scale, pick_peak_scale.
  destruct (pick_peak (chans (denan_wav w))) as [[tr pk]|]; [|reflexivity].
  rewrite (nth_map_nil (map (Z.mul c))) by reflexivity. apply trace_features_scale.
Qed.

End Scale.

(* ------------------------------------------------------------------ *)
(* the batch is the map of the single-waveform function                *)
(* ------------------------------------------------------------------ *)
Definition obind {A B} (o : option A) (f : A -> option B) : option B :=
  match o with Some a => f a | None => None end.

Lemma features1_as_bind k w :
  features1 k w = obind (row_head w) (fun h =>
                    obind (swap_stage (snd (fst h)) (snd h)) (tail_stage k (fst (fst h)))).
Proof.
  unfold features1, row_head, trace_features.
  destruct (pick_peak _) as [[tr pk]|]; [|reflexivity].
  destruct (stage1 _ _); reflexivity.
Qed.

Lemma sequence_bind {A B C} (f : A -> option B) (g : B -> option C) : forall l,
  sequence (map (fun a => obind (f a) g) l) =
  obind (sequence (map f l)) (fun bs => sequence (map g bs)).
Proof.
  induction l as [|a r IH]; [reflexivity|].
  cbn [map sequence]. destruct (f a) as [b|]; cbn [obind]; [|reflexivity].
  rewrite IH. destruct (sequence (map f r)) as [bs|]; cbn [obind map sequence].
  - reflexivity.
  - destruct (g b); reflexivity.
Qed.

Lemma sequence_bind2 {A B C} (S : A -> option B) (T : A -> B -> option C) : forall hs,
  sequence (map (fun h => obind (S h) (T h)) hs) =
  obind (sequence (map S hs))
        (fun qs => sequence (map (fun hq => T (fst hq) (snd hq)) (combine hs qs))).
Proof.
  induction hs as [|h r IH]; [reflexivity|].
  cbn [map sequence]. destruct (S h) as [b|]; cbn [obind]; [|reflexivity].
  rewrite IH. destruct (sequence (map S r)) as [bs|]; cbn [obind combine map sequence fst snd].
  - reflexivity.
  - destruct (T h b); reflexivity.
Qed.

Lemma firstn_len_app {A} (p l : list A) : firstn (length p) (p ++ l) = p.
Proof. rewrite firstn_app, Nat.sub_diag, firstn_all. cbn. apply app_nil_r. Qed.

Lemma skipn_len_app {A} (p l : list A) a : skipn (S (length p)) (p ++ a :: l) = l.
Proof.
  induction p as [|b p IH]; [reflexivity|]. cbn [length app]. exact IH.
Qed.

Lemma swap_scatter : forall (post : list st) (postx : list (list Z)) (pre pre' : list st) (prex : list (list Z)),
  length prex = length pre -> length pre' = length pre -> length postx = length post ->
  match sequence (map (fun i => swap_row (nth i (prex ++ postx) []) (nth i (pre ++ post) dummy_st))
                      (select_idx (length pre) post)) with
  | Some rows => Some (scatter (pre' ++ post) (select_idx (length pre) post) rows)
  | None => None
  end = option_map (app pre') (sequence (map (fun xq => swap_stage (fst xq) (snd xq)) (combine postx post))).
Proof.
  induction post as [|q post IH]; intros postx pre pre' prex L1 L2 L3.
  - destruct postx; [|discriminate]. reflexivity.
  - destruct postx as [|x postx]; [discriminate|].
    cbn [combine map sequence fst snd select_idx]. unfold swap_stage at 1.
    assert (Len : length (pre ++ [q]) = S (length pre)) by (rewrite app_length; cbn; lia).
    destruct (swap_cond q) eqn:Hs.
    + cbn [map sequence].
      replace (nth (length pre) (prex ++ x :: postx) []) with x
        by (rewrite <- L1; symmetry; apply nth_middle).
      replace (nth (length pre) (pre ++ q :: post) dummy_st) with q
        by (symmetry; apply nth_middle).
      destruct (swap_row x q) as [r|]; [|reflexivity].
      specialize (IH postx (pre ++ [q]) (pre' ++ [r]) (prex ++ [x])).
      rewrite <- !app_assoc in IH. cbn [app] in IH. rewrite Len in IH.
      specialize (IH ltac:(rewrite !app_length; cbn; lia) ltac:(rewrite !app_length; cbn; lia) ltac:(cbn in L3; lia)).
      destruct (sequence (map _ (select_idx (S (length pre)) post))) as [rows|] eqn:E.
      * cbn [scatter].
        replace (firstn (length pre) (pre' ++ q :: post)) with pre'
          by (rewrite <- L2; symmetry; apply firstn_len_app).
        replace (skipn (S (length pre)) (pre' ++ q :: post)) with post
          by (rewrite <- L2; symmetry; apply skipn_len_app).
        rewrite IH. destruct (sequence (map _ (combine postx post))) as [r'|]; cbn [option_map]; [|reflexivity].
        rewrite <- app_assoc. reflexivity.
      * destruct (sequence (map _ (combine postx post))) as [r'|]; cbn [option_map] in *; [discriminate|reflexivity].
    + specialize (IH postx (pre ++ [q]) (pre' ++ [q]) (prex ++ [x])).
      rewrite <- !app_assoc in IH. cbn [app] in IH. rewrite Len in IH.
      rewrite IH by (rewrite ?app_length; cbn in *; lia). clear IH.
      destruct (sequence (map _ (combine postx post))) as [r'|]; cbn [option_map]; [|reflexivity].
      rewrite <- app_assoc. reflexivity.
Qed.

Lemma combine_map2 {A B C} (f : A -> B) (g : A -> C) : forall l,
  combine (map f l) (map g l) = map (fun a => (f a, g a)) l.
Proof. induction l as [|a r IH]; [reflexivity|]. cbn. rewrite IH. reflexivity. Qed.

Lemma option_map_app_nil {A} (o : option (list A)) : option_map (app []) o = o.
Proof. destruct o; reflexivity. Qed.

Lemma pub_batch k ws : batch_features k ws = sequence (map (features1 k) ws).
Proof.
  rewrite (map_ext _ _ (features1_as_bind k)). rewrite sequence_bind.
  unfold batch_features. destruct (sequence (map row_head ws)) as [hs|]; [|reflexivity].
  cbn [obind]. rewrite sequence_bind2.
  pose proof (swap_scatter (map snd hs) (map (fun h => snd (fst h)) hs) [] [] []
                eq_refl eq_refl ltac:(rewrite !map_length; reflexivity)) as H.
  cbn [app length] in H. rewrite option_map_app_nil in H.
  rewrite combine_map2, map_map in H. cbn [fst snd] in H. rewrite <- H. clear H.
  destruct (sequence (map _ (select_idx 0 (map snd hs)))) as [rows|]; reflexivity.
Qed.

(* ------------------------------------------------------------------ *)
(* channel permutation                                                 *)
(* ------------------------------------------------------------------ *)
Definition with_trace (tr : nat) (f : feats) : feats :=
  mkF tr (f_peak f) (f_peak_val f) (f_sign f) (f_trough f) (f_trough_val f) (f_tip f) (f_tip_val f)
      (f_hpost f) (f_hpre f) (f_hpost_val f) (f_hpre_val f) (f_rec f) (f_rec_val f).

Lemma tail_stage_trace k tr tr' q :
  tail_stage k tr' q = option_map (with_trace tr') (tail_stage k tr q).
Proof.
  unfold tail_stage. destruct (find_tip _ _ _) as [[tp tpv]|]; [|reflexivity].
  destruct (_ <=? _)%nat; reflexivity.
Qed.

Lemma trace_features_trace k tr tr' x pk :
  trace_features k tr' x pk = option_map (with_trace tr') (trace_features k tr x pk).
Proof.
  unfold trace_features. destruct (stage1 x pk) as [q|]; [|reflexivity].
  destruct (swap_stage x q) as [q'|]; [|reflexivity]. apply tail_stage_trace.
Qed.

Lemma features1_pick k w T C tr pk : rect w T C -> is_extremum w T C tr pk ->
  features1 k w = trace_features k tr (trace_of w tr) pk.
Proof.
  intros Hr Ex.
  assert (HT : (1 <= T)%nat) by (destruct Ex as (_ & ? & _); lia).
  assert (HC : (1 <= C)%nat) by (destruct Ex as (? & _); lia).
  destruct (pick_peak_wave w T C Hr HT HC) as (tr' & pk' & E & Nx & Ex').
  destruct (is_extremum_unique _ _ _ _ _ _ _ Ex Ex') as [<- <-].
  unfold features1. rewrite E, Nx. reflexivity.
Qed.

Lemma pub_perm k w w' T C (sigma tau : nat -> nat) tr pk0 :
  rect w T C -> rect w' T C ->
  (forall c, (c < C)%nat -> (sigma c < C)%nat /\ (tau c < C)%nat /\
                            sigma (tau c) = c /\ tau (sigma c) = c) ->
  (forall t c, (t < T)%nat -> (c < C)%nat -> smp w' t c = smp w t (sigma c)) ->
  is_extremum w T C tr pk0 ->
  (forall t c, (t < T)%nat -> (c < C)%nat -> c <> tr -> Z.abs (smp w t c) < Z.abs (smp w pk0 tr)) ->
  features1 k w' = option_map (with_trace (tau tr)) (features1 k w).
Proof.
  intros Hr Hr' Hperm Hsmp Ex Uq.
  assert (Ex0 := Ex). destruct Ex0 as (E1 & E2 & E3 & E4 & E5).
  destruct (Hperm tr E1) as (_ & P2 & P3 & _).
  assert (Sm : forall t, (t < T)%nat -> smp w' t (tau tr) = smp w t tr).
  { intros t Ht. rewrite Hsmp by assumption. rewrite P3. reflexivity. }
  assert (Ex' : is_extremum w' T C (tau tr) pk0).
  { unfold is_extremum. rewrite (Sm pk0 E2). split; [exact P2|]. split; [exact E2|]. split; [|split].
    - intros t c Ht Hc. rewrite Hsmp by assumption. apply E3; [assumption|]. apply Hperm; assumption.
    - intros t c Ht Hc. assert (Hc' : (c < C)%nat) by lia. rewrite Hsmp by assumption.
      apply Uq; [assumption|apply Hperm; assumption|].
      intros Eq. destruct (Hperm c Hc') as (_ & _ & _ & P4). rewrite Eq in P4. lia.
    - intros t Ht. rewrite Sm by lia. apply E5. exact Ht. }
  assert (Tr : trace_of w' (tau tr) = trace_of w tr).
  { apply (nth_ext _ _ 0 0).
    - rewrite !trace_of_length. destruct Hr as [-> _], Hr' as [-> _]. reflexivity.
    - intros t Ht. rewrite trace_of_length in Ht. destruct Hr' as [L' _]. rewrite L' in Ht.
      exact (Sm t Ht). }
  rewrite (features1_pick k w' T C _ _ Hr' Ex'), (features1_pick k w T C _ _ Hr Ex), Tr.
  apply trace_features_trace.
Qed.

Lemma sequence_option_map {A B} (f : A -> option B) (g : B -> B) : forall l,
  sequence (map (fun a => option_map g (f a)) l) = option_map (map g) (sequence (map f l)).
Proof.
  induction l as [|a r IH]; [reflexivity|]. cbn [map sequence]. rewrite IH.
  destruct (f a); cbn [option_map]; [|reflexivity]. destruct (sequence (map f r)); reflexivity.
Qed.

Lemma pub_batch_scale c k ws : 0 < c ->
  batch_features k (map (scale_wav c) ws) = option_map (map (scale_feats c)) (batch_features k ws).
Proof.
  intros Hc. rewrite !pub_batch, map_map.
  rewrite (map_ext _ _ (pub_scale c Hc k)). apply sequence_option_map.
Qed.

(* ------------------------------------------------------------------ *)
(* round 2: rational scaling, NaN handling, 2-D input, helpers, derived *)
(* ------------------------------------------------------------------ *)
Definition same_indices (f1 f2 : feats) : Prop :=
  f_trace f1 = f_trace f2 /\ f_peak f1 = f_peak f2 /\ f_sign f1 = f_sign f2 /\
  f_trough f1 = f_trough f2 /\ f_tip f1 = f_tip f2 /\ f_hpost f1 = f_hpost f2 /\
  f_hpre f1 = f_hpre f2 /\ f_rec f1 = f_rec f2.

(* c1 * (values of f1) = c2 * (values of f2) *)
Definition values_prop (c1 c2 : Z) (f1 f2 : feats) : Prop :=
  c1 * f_peak_val f1 = c2 * f_peak_val f2 /\ c1 * f_trough_val f1 = c2 * f_trough_val f2 /\
  c1 * f_tip_val f1 = c2 * f_tip_val f2 /\ c1 * f_hpost_val f1 = c2 * f_hpost_val f2 /\
  c1 * f_hpre_val f1 = c2 * f_hpre_val f2 /\ c1 * f_rec_val f1 = c2 * f_rec_val f2.

(* w2 = (c1/c2) w1 for positive integers c1, c2, i.e. any positive rational factor
   (and any two dyadic-valued, hence any two float-valued, proportional waveforms
   after clearing the common power of two) *)
Lemma pub_scale_rational c1 c2 k w1 w2 : 0 < c1 -> 0 < c2 ->
  scale_wav c1 w1 = scale_wav c2 w2 ->
  match features1 k w1, features1 k w2 with
  | Some f1, Some f2 => same_indices f1 f2 /\ values_prop c1 c2 f1 f2
  | None, None => True
  | _, _ => False
  end.
Proof.
  intros H1 H2 E.
  pose proof (pub_scale c1 H1 k w1) as P1. pose proof (pub_scale c2 H2 k w2) as P2.
  rewrite E in P1. rewrite P1 in P2. clear P1 E.
  destruct (features1 k w1) as [f1|], (features1 k w2) as [f2|]; cbn in P2; try discriminate; [|exact I].
  unfold scale_feats in P2. inversion P2. unfold same_indices, values_prop. auto 20.
Qed.

(* NaN is read as 0 *)
Lemma pub_nan_zero k w : features1 k (map (map (fun o => Some (denan o))) w) = features1 k w.
Proof.
  unfold features1. replace (denan_wav (map (map (fun o => Some (denan o))) w)) with (denan_wav w); [reflexivity|].
  unfold denan_wav. rewrite map_map. apply map_ext. intros row. rewrite map_map. reflexivity.
Qed.

Lemma smp_eq w t c : (t < length w)%nat -> smp w t c = denan (nth c (nth t w []) None).
Proof.
  intros H. unfold smp, trace_of.
  rewrite (nth_indep _ 0 ((fun row => denan (nth c row None)) [])) by (rewrite map_length; exact H).
  apply (map_nth (fun row => denan (nth c row None))).
Qed.

(* a channel that is NaN (or zero) throughout is never the peak channel of a successful call,
   wherever it sits; more generally the reported peak sample is never a NaN *)
Lemma pub_nan_channel k w T C f c : rect w T C -> features1 k w = Some f ->
  (forall t, (t < T)%nat -> nth c (nth t w []) None = None) -> f_trace f <> c.
Proof.
  intros Hr Hf Hn Eq.
  destruct (features1_inv k w T C f Hr Hf) as (pk0 & q & Ex & Nz & _).
  destruct Ex as (_ & Lp & _). apply Nz. rewrite Eq.
  change (smp w pk0 c = 0). destruct Hr as [L _]. rewrite smp_eq by lia. rewrite Hn by exact Lp. reflexivity.
Qed.

Lemma pub_peak_not_nan k w T C f : rect w T C -> features1 k w = Some f ->
  nth (f_trace f) (nth (f_peak f) w []) None <> None.
Proof.
  intros Hr Hf Hn. destruct (pub_peak k w T C f Hr Hf) as (pk0 & _ & _ & Pv & Nz & _ & Rg).
  apply Nz. rewrite Pv. change (smp w (f_peak f) (f_trace f) = 0).
  destruct Hr as [L _]. rewrite smp_eq by lia. rewrite Hn. reflexivity.
Qed.

(* 2-D input = a batch of one; 3-D input = the map *)
Lemma pub_input k i : compute_spike_features k i =
  match i with
  | In2 w => option_map (fun f => [f]) (features1 k w)
  | In3 ws => sequence (map (features1 k) ws)
  end.
Proof.
  unfold compute_spike_features. rewrite pub_batch. destruct i as [w|ws]; cbn [validate_arr_in map sequence]; [|reflexivity].
  destruct (features1 k w); reflexivity.
Qed.

(* find_peak returns the extremum the feature row starts from *)
Lemma pub_find_peak w T C : rect w T C -> (1 <= T)%nat -> (1 <= C)%nat ->
  exists tr pk, find_peak1 w = Some (tr, pk, smp w pk tr) /\ is_extremum w T C tr pk.
Proof.
  intros Hr HT HC. destruct (pick_peak_wave w T C Hr HT HC) as (tr & pk & E & Nx & Ex).
  exists tr, pk. split; [|exact Ex]. unfold find_peak1. rewrite E, Nx. reflexivity.
Qed.

Lemma sequence_map_total {A B} (g : A -> option B) (h : A -> B) : forall l,
  (forall a, In a l -> g a = Some (h a)) -> sequence (map g l) = Some (map h l).
Proof.
  induction l as [|a r IH]; intros H; [reflexivity|].
  cbn [map sequence]. rewrite (H a) by (left; reflexivity). rewrite IH by (intros; apply H; right; assumption).
  reflexivity.
Qed.

(* weights_spk_ch: per trace the SIGNED sample at the first largest |sample|; the
   peak channel of the feature row is the first trace of largest |weight| and, when
   no swap occurs, peak_val is that weight *)
Lemma pub_weights w T C : rect w T C -> (1 <= T)%nat ->
  exists ws, weights1 w = Some ws /\ length ws = C /\
    forall c, (c < C)%nat -> exists i, (i < T)%nat /\ nth c ws 0 = smp w i c /\
      (forall t, (t < T)%nat -> Z.abs (smp w t c) <= Z.abs (smp w i c)) /\
      (forall t, (t < i)%nat -> Z.abs (smp w t c) < Z.abs (smp w i c)).
Proof.
  intros Hr HT. unfold weights1. rewrite (chans_rect w T C Hr HT).
  set (g := fun ch : list Z => match argmax (map Z.abs ch) with Some (i, _) => Some (nth i ch 0) | None => None end).
  set (h := fun ch : list Z => match argmax (map Z.abs ch) with Some (i, _) => nth i ch 0 | None => 0 end).
  assert (Lt : forall c, length (trace_of w c) = T) by (intros c; rewrite trace_of_length; apply Hr).
  rewrite (sequence_map_total g h).
  - eexists. split; [reflexivity|]. split; [rewrite !map_length, seq_length; reflexivity|].
    intros c Hc. rewrite map_map.
    rewrite (nth_indep _ 0 (h (trace_of w 0))) by (rewrite map_length, seq_length; lia).
    rewrite (map_nth (fun c => h (trace_of w c))), seq_nth by lia. cbn [Nat.add]. unfold h.
    destruct (argmax_total (map Z.abs (trace_of w c))) as (i & m & E). { rewrite map_length, Lt. lia. }
    rewrite E. apply argmax_spec in E. rewrite map_length, Lt in E. destruct E as [(R & A & B) _].
    exists i. split; [lia|]. split; [reflexivity|]. unfold smp. split.
    + intros t Ht. specialize (A t ltac:(lia)). rewrite !nth_abs in A. exact A.
    + intros t Ht. specialize (B t ltac:(lia)). rewrite !nth_abs in B. exact B.
  - intros ch Hin. apply in_map_iff in Hin. destruct Hin as (c & <- & _). unfold g, h.
    destruct (argmax_total (map Z.abs (trace_of w c))) as (i & m & E). { rewrite map_length, Lt. lia. }
    rewrite E. reflexivity.
Qed.

Lemma pub_weights_peak w T C ws tr pk0 : rect w T C -> weights1 w = Some ws ->
  is_extremum w T C tr pk0 ->
  nth tr ws 0 = smp w pk0 tr /\
  (forall c, (c < C)%nat -> Z.abs (nth c ws 0) <= Z.abs (nth tr ws 0)) /\
  (forall c, (c < tr)%nat -> Z.abs (nth c ws 0) < Z.abs (nth tr ws 0)).
Proof.
  intros Hr Hw Ex. assert (Ex' := Ex). destruct Ex' as (E1 & E2 & E3 & E4 & E5).
  destruct (pub_weights w T C Hr ltac:(lia)) as (ws' & Hw' & _ & Sp). rewrite Hw in Hw'. inversion Hw'; subst ws'.
  assert (Wtr : nth tr ws 0 = smp w pk0 tr).
  { destruct (Sp tr E1) as (i & Li & Ei & A & B). rewrite Ei.
    destruct (lt_eq_lt_dec i pk0) as [[H|H]|H]; [|subst; reflexivity|].
    - specialize (E5 i H). specialize (A pk0 E2). lia.
    - specialize (B pk0 H). specialize (E3 i tr Li E1). lia. }
  split; [exact Wtr|]. rewrite Wtr. split.
  - intros c Hc. destruct (Sp c Hc) as (i & Li & Ei & _). rewrite Ei. apply E3; assumption.
  - intros c Hc. destruct (Sp c ltac:(lia)) as (i & Li & Ei & _). rewrite Ei. apply E4; assumption.
Qed.

(* derived columns: quotients of differences of the points specified above;
   a zero denominator only ever meets a zero numerator (nan, never +-inf) *)
Lemma pub_derived k w T C f : rect w T C -> features1 k w = Some f ->
  let x := trace_of w (f_trace f) in
  d_ratio f = (Z.abs (nth (f_peak f) x 0), Z.abs (nth (f_trough f) x 0)) /\ 0 < fst (d_ratio f) /\
  d_depol f = (nth (f_peak f) x 0 - nth (f_tip f) x 0, zn (f_peak f) - zn (f_tip f)) /\
  0 < snd (d_depol f) /\
  d_repol f = (nth (f_trough f) x 0 - nth (f_peak f) x 0, zn (f_trough f) - zn (f_peak f)) /\
  0 <= snd (d_repol f) /\ (snd (d_repol f) = 0 -> fst (d_repol f) = 0) /\
  d_recov f = (nth (f_rec f) x 0 - nth (f_trough f) x 0, zn (f_rec f) - zn (f_trough f)) /\
  0 <= snd (d_recov f) /\ (snd (d_recov f) = 0 -> fst (d_recov f) = 0) /\
  0 <= d_pt_dur f.
Proof.
  intros Hr Hf x.
  destruct (pub_peak k w T C f Hr Hf) as (pk0 & _ & _ & Pv & Nz & _).
  destruct (pub_order k w T C f Hr Hf) as (O1 & O2 & O3 & _ & Tv & R1 & R2 & R3).
  destruct (pub_consistent k w T C f Hr Hf) as (_ & Tipv & _ & _ & Rv & _).
  fold x in Pv, Tv, Tipv, Rv.
  unfold d_ratio, d_depol, d_repol, d_recov, d_pt_dur, zn; cbn [fst snd].
  rewrite Pv, Tv, Tipv, Rv.
  assert (Hrec : (f_trough f <= f_rec f)%nat).
  { destruct (le_lt_dec T (f_trough f + k)) as [H|H]; [rewrite (R3 H)|rewrite (R2 H)]; lia. }
  repeat split; try lia.
  - intros H. assert (E : f_trough f = f_peak f) by lia. rewrite E. lia.
  - intros H. assert (E : f_rec f = f_trough f) by lia. rewrite E. lia.
Qed.

(* ------------------------------------------------------------------ *)
(* padding: an all-NaN channel inserted at any position                *)
(* ------------------------------------------------------------------ *)
Definition insert_at {A} (j : nat) (a : A) (l : list A) : list A := firstn j l ++ a :: skipn j l.
Definition insert_nan_channel (j : nat) (w : list (list (option Z))) : list (list (option Z)) :=
  map (insert_at j None) w.
Definition shift_idx (j c : nat) : nat := if (c <? j)%nat then c else S c.

Lemma insert_at_length {A} j (a : A) l : length (insert_at j a l) = S (length l).
Proof.
  unfold insert_at. rewrite app_length. cbn [length]. rewrite firstn_length, skipn_length. lia.
Qed.

Lemma nth_insert_shift {A} j (a : A) l d c : (j <= length l)%nat ->
  nth (shift_idx j c) (insert_at j a l) d = nth c l d.
Proof.
  intros Hj. unfold shift_idx, insert_at.
  assert (Lf : length (firstn j l) = j) by (rewrite firstn_length; lia).
  destruct (Nat.ltb_spec c j) as [H|H].
  - rewrite app_nth1 by lia. rewrite <- (firstn_skipn j l) at 2. rewrite app_nth1 by lia. reflexivity.
  - rewrite app_nth2 by lia. rewrite Lf. replace (S c - j)%nat with (S (c - j)) by lia. cbn [nth].
    rewrite <- (firstn_skipn j l) at 2. rewrite app_nth2 by lia. rewrite Lf. reflexivity.
Qed.

Lemma nth_insert_self {A} j (a : A) l d : (j <= length l)%nat -> nth j (insert_at j a l) d = a.
Proof.
  intros Hj. unfold insert_at.
  assert (Lf : length (firstn j l) = j) by (rewrite firstn_length; lia).
  rewrite app_nth2 by lia. rewrite Lf, Nat.sub_diag. reflexivity.
Qed.

Lemma rect_insert j w T C : rect w T C -> rect (insert_nan_channel j w) T (S C).
Proof.
  intros [L R]. split; [unfold insert_nan_channel; rewrite map_length; exact L|].
  intros row Hin. apply in_map_iff in Hin. destruct Hin as (r & <- & Hr).
  rewrite insert_at_length, (R r Hr). reflexivity.
Qed.

Lemma trace_insert_shift j w T C c : rect w T C -> (j <= C)%nat ->
  trace_of (insert_nan_channel j w) (shift_idx j c) = trace_of w c.
Proof.
  intros [L R] Hj. unfold trace_of, insert_nan_channel. rewrite map_map. apply map_ext_in.
  intros row Hin. rewrite nth_insert_shift by (rewrite (R row Hin); exact Hj). reflexivity.
Qed.

Lemma nth_const_zero {A} : forall (l : list A) t, nth t (map (fun _ => 0) l) 0 = 0.
Proof. induction l as [|a r IH]; intros [|t]; cbn; auto. Qed.

Lemma smp_insert_self j w T C t : rect w T C -> (j <= C)%nat -> smp (insert_nan_channel j w) t j = 0.
Proof.
  intros [L R] Hj. unfold smp, trace_of, insert_nan_channel. rewrite map_map.
  rewrite (map_ext_in _ (fun _ => 0)).
  - apply nth_const_zero.
  - intros row Hin. rewrite nth_insert_self by (rewrite (R row Hin); exact Hj). reflexivity.
Qed.

Lemma shift_cases j c' : c' = j \/ exists c, c' = shift_idx j c /\ (c' < j -> c = c')%nat /\ (j < c' -> S c = c')%nat.
Proof.
  destruct (lt_eq_lt_dec c' j) as [[H|H]|H].
  - right. exists c'. unfold shift_idx. destruct (Nat.ltb_spec c' j); [|lia]. split; [reflexivity|]. lia.
  - left. exact H.
  - right. exists (c' - 1)%nat. unfold shift_idx. destruct (Nat.ltb_spec (c' - 1) j); [lia|]. split; lia.
Qed.

Lemma zero_none k w T C : rect w T C -> (forall t c, smp w t c = 0) -> features1 k w = None.
Proof.
  intros Hr Hz. destruct (features1 k w) as [f|] eqn:E; [|reflexivity]. exfalso.
  destruct (features1_inv k w T C f Hr E) as (pk0 & q & _ & Nz & _). apply Nz. apply Hz.
Qed.

Lemma trace_features_f_trace k tr x pk f : trace_features k tr x pk = Some f -> f_trace f = tr.
Proof.
  intros H. apply trace_features_unfold in H. destruct H as (q & _ & Ht).
  apply tail_fields in Ht. tauto.
Qed.

Lemma pub_nan_insert k j w T C : rect w T C -> (j <= C)%nat ->
  features1 k (insert_nan_channel j w) =
  option_map (fun f => with_trace (shift_idx j (f_trace f)) f) (features1 k w).
Proof.
  intros Hr Hj. pose proof (rect_insert j w T C Hr) as Hr'.
  set (w' := insert_nan_channel j w) in *.
  assert (Ssh : forall t c, smp w' t (shift_idx j c) = smp w t c).
  { intros t c. unfold smp, w'. rewrite (trace_insert_shift j w T C c Hr Hj). reflexivity. }
  assert (Sj : forall t, smp w' t j = 0) by (intros t; apply (smp_insert_self j w T C t Hr Hj)).
  assert (Zero : (forall t c, smp w t c = 0) -> features1 k w' = option_map (fun f => with_trace (shift_idx j (f_trace f)) f) (features1 k w)).
  { intros Hz. rewrite (zero_none k w T C Hr Hz). apply (zero_none k w' T (S C) Hr').
    intros t c'. destruct (shift_cases j c') as [->|(c & -> & _)]; [apply Sj|]. rewrite Ssh. apply Hz. }
  destruct (le_lt_dec T 0) as [HT|HT].
  { apply Zero. intros t c. unfold smp. apply nth_overflow. rewrite trace_of_length. destruct Hr as [-> _]. lia. }
  destruct (le_lt_dec C 0) as [HC|HC].
  { apply Zero. intros t c. destruct Hr as [L R]. unfold smp, trace_of.
    rewrite (map_ext_in _ (fun _ => 0)).
    - apply nth_const_zero.
    - intros row Hin. specialize (R row Hin). destruct row; [|simpl in R; lia]. destruct c; reflexivity. }
  destruct (pick_peak_wave w T C Hr HT HC) as (tr & pk0 & _ & _ & Ex).
  assert (Ex0 := Ex). destruct Ex0 as (E1 & E2 & E3 & E4 & E5).
  destruct (Z.eq_dec (smp w pk0 tr) 0) as [Mz|Mnz].
  { apply Zero. intros t c. destruct (le_lt_dec T t) as [Ht|Ht].
    - unfold smp. apply nth_overflow. rewrite trace_of_length. destruct Hr as [-> _]. exact Ht.
    - destruct (le_lt_dec C c) as [Hc|Hc].
      + destruct Hr as [L R]. rewrite smp_eq by lia. rewrite nth_overflow; [reflexivity|].
        rewrite (R (nth t w [])) by (apply nth_In; lia). exact Hc.
      + specialize (E3 t c Ht Hc). rewrite Mz in E3. lia. }
  assert (Ex' : is_extremum w' T (S C) (shift_idx j tr) pk0).
  { unfold is_extremum. rewrite Ssh. split; [unfold shift_idx; destruct (tr <? j)%nat; lia|].
    split; [exact E2|]. split; [|split].
    - intros t c' Ht Hc'. destruct (shift_cases j c') as [->|(c & -> & B1 & B2)].
      + rewrite Sj. lia.
      + rewrite Ssh. apply E3; [exact Ht|]. unfold shift_idx in Hc'. destruct (Nat.ltb_spec c j); lia.
    - intros t c' Ht Hc'. destruct (shift_cases j c') as [->|(c & -> & B1 & B2)].
      + rewrite Sj. lia.
      + rewrite Ssh. apply E4; [exact Ht|]. unfold shift_idx in Hc'.
        destruct (Nat.ltb_spec c j), (Nat.ltb_spec tr j); lia.
    - intros t Ht. rewrite Ssh. apply E5. exact Ht. }
  rewrite (features1_pick k w' T (S C) _ _ Hr' Ex'), (features1_pick k w T C _ _ Hr Ex).
  unfold w'. rewrite (trace_insert_shift j w T C tr Hr Hj).
  rewrite (trace_features_trace k tr (shift_idx j tr)).
  destruct (trace_features k tr (trace_of w tr) pk0) as [f|] eqn:E; [|reflexivity].
  cbn [option_map]. rewrite (trace_features_f_trace _ _ _ _ _ E). reflexivity.
Qed.
