(* C14 — the one place where float rounding decides an index: the swap test
   abs(peak_val / trough_val) <= 1.5 of find_tip_trough.  For integer-valued
   samples (|trough| < 2^52) the binary64 round-to-nearest-even quotient passes
   the test exactly when 2|peak| <= 3|trough| — the model's ratio_le_15.
   (Flocq, real-number semantics of IEEE division: round(a/b); no overflow can
   occur since |a/b| <= |a|.) *)
From Coq Require Import ZArith Reals Lia Lra.
From Flocq Require Import Core.
From IBL.C14 Require Import Model.
Open Scope R_scope.

Definition fexp64 := FLT_exp (-1074) 53.
Definition rnd64 (x : R) : R := round radix2 fexp64 ZnearestE x.

Local Instance valid64 : Valid_exp fexp64.
Proof. apply FLT_exp_valid. unfold Prec_gt_0. lia. Qed.

Lemma fmt_3_2 : generic_format radix2 fexp64 (3 / 2).
Proof.
  apply generic_format_FLT. exists (Float radix2 3 (-1)).
  - unfold F2R. simpl. lra.
  - simpl. lia.
  - simpl. lia.
Qed.

Lemma fmt_2 : generic_format radix2 fexp64 2.
Proof.
  apply generic_format_FLT. exists (Float radix2 1 1).
  - unfold F2R. simpl. lra.
  - simpl. lia.
  - simpl. lia.
Qed.

Lemma rnd64_le x y : x <= y -> rnd64 x <= rnd64 y.
Proof. intros H. apply round_le; auto with typeclass_instances. Qed.

Lemma lt_div c A B : 0 < B -> c * B < A -> c < A / B.
Proof.
  intros HB H. apply Rmult_lt_reg_r with B; [exact HB|].
  unfold Rdiv. rewrite Rmult_assoc, Rinv_l by lra. lra.
Qed.

Lemma div_le c A B : 0 < B -> A <= c * B -> A / B <= c.
Proof.
  intros HB H. apply Rmult_le_reg_r with B; [exact HB|].
  unfold Rdiv. rewrite Rmult_assoc, Rinv_l by lra. lra.
Qed.

Lemma ratio_pos (a b : Z) : (0 < a)%Z -> (0 < b)%Z -> (b < 2 ^ 52)%Z ->
  (rnd64 (IZR a / IZR b) <= 3 / 2 <-> (2 * a <= 3 * b)%Z).
Proof.
  intros Ha Hb Hb52.
  assert (HA : 0 < IZR a) by (apply IZR_lt; lia).
  assert (HB : 0 < IZR b) by (apply IZR_lt; lia).
  assert (HB52 : IZR b < 4503599627370496) by (apply IZR_lt; lia).
  split.
  - (* a/b > 3/2 would be rounded to something > 3/2 *)
    intros Hr. destruct (Z_le_gt_dec (2 * a) (3 * b)) as [H|H]; [exact H|]. exfalso.
    assert (H1 : (3 * b + 1 <= 2 * a)%Z) by lia.
    apply IZR_le in H1. rewrite plus_IZR, !mult_IZR in H1.
    set (x := IZR a / IZR b) in *.
    assert (Hx : 3 / 2 + / 9007199254740992 < x).
    { unfold x. apply lt_div; [exact HB|].
      assert (IZR b * / 9007199254740992 < / 2) by lra. lra. }
    destruct (Rle_lt_dec 2 x) as [H2|H2].
    + assert (2 <= rnd64 x).
      { rewrite <- (round_generic radix2 fexp64 ZnearestE 2 fmt_2). apply rnd64_le. exact H2. }
      lra.
    + pose proof (error_le_half_ulp radix2 fexp64 (fun z => negb (Z.even z)) x) as He.
      fold (rnd64 x) in He.
      assert (Hu : ulp radix2 fexp64 x = / 4503599627370496).
      { rewrite ulp_neq_0 by lra. unfold cexp.
        rewrite (mag_unique radix2 x 1).
        - unfold fexp64, FLT_exp. simpl. lra.
        - simpl. rewrite Rabs_pos_eq by lra. lra. }
      rewrite Hu in He. apply Rabs_le_inv in He. lra.
  - intros H. apply IZR_le in H. rewrite !mult_IZR in H.
    rewrite <- (round_generic radix2 fexp64 ZnearestE (3 / 2) fmt_3_2). apply rnd64_le.
    apply div_le; [exact HB|]. lra.
Qed.

Lemma ratio_test_float64 (pv tv : Z) : tv <> 0%Z -> (Z.abs tv < 2 ^ 52)%Z ->
  (Rabs (rnd64 (IZR pv / IZR tv)) <= 3 / 2 <-> ratio_le_15 pv tv = true).
Proof.
  intros Hnz Hb.
  assert (Hm : ratio_le_15 pv tv = true <-> (2 * Z.abs pv <= 3 * Z.abs tv)%Z).
  { unfold ratio_le_15. destruct (Z.eqb_spec tv 0) as [E|E]; [contradiction|]. simpl.
    apply Z.leb_le. }
  rewrite Hm. unfold rnd64. rewrite <- round_NE_abs; auto with typeclass_instances.
  fold (rnd64 (Rabs (IZR pv / IZR tv))).
  assert (Habs : Rabs (IZR pv / IZR tv) = IZR (Z.abs pv) / IZR (Z.abs tv)).
  { unfold Rdiv. rewrite Rabs_mult, Rabs_inv, <- !abs_IZR. reflexivity. }
  rewrite Habs.
  destruct (Z.eq_dec pv 0) as [Ez|Ez].
  - subst pv. change (Z.abs 0) with 0%Z. unfold Rdiv. rewrite Rmult_0_l. unfold rnd64.
    rewrite round_0; auto with typeclass_instances.
    split; [intros _; lia|intros _; lra].
  - apply ratio_pos; lia.
Qed.
