(* C14 — property theorems.  Statements closed by `exact <lemma>` and the Print
   Assumptions the check collects.

   Vocabulary (definitions in Model.v / Proofs.v):
     w : list (list (option Z))   one waveform, T rows (time) x C samples (traces), None = NaN
     rect w T C                   w is a T x C matrix
     smp w t c                    sample (t, c) after NaN -> 0;  trace_of w c = that column
     features1 k w                compute_spike_features on the single waveform w
                                  (k = idx_from_trough, 5 with the default arguments); None = the call raises
     batch_features k ws          compute_spike_features on a batch, with the gather/scatter
                                  structure of the vectorised swap branch
     is_extremum w T C tr pk0     (pk0, tr) is the first channel / first sample holding the largest |sample|
     first_max_on a lo hi i       i is the first position of the maximum of a on [lo, hi)
     sg v                         -1 if v > 0 else 1 : the factor that makes a peak of value v point down
     within_half pv v             v is back within half of the peak value pv (0 < pv: 2v < pv;  pv < 0: pv < 2v)
   Domain: all integer-valued waveforms of every size (no bound on T, C or the values). *)
From Coq Require Import ZArith List Bool Lia.
From IBL.C14 Require Import Model Proofs.
Import ListNotations.
Open Scope Z_scope.

(* Feature extraction succeeds whenever the window is longer than the recovery
   offset and the largest deflection is not on the first sample. *)
Theorem C14_features_total : forall k w T C, rect w T C -> (1 <= C)%nat -> (k < T)%nat ->
  (exists t c, (1 <= t < T)%nat /\ (c < C)%nat /\
     forall c', (c' < C)%nat -> Z.abs (smp w 0 c') < Z.abs (smp w t c)) ->
  exists f, features1 k w = Some f.
Proof. exact pub_total. Qed.
Print Assumptions C14_features_total.

(* The reported peak is the global |.| extremum (first channel, first sample
   holding it) or, when that extremum x[pk0] is positive and the first minimum
   x[tq0] after it satisfies |x[pk0] / x[tq0]| <= 1.5, that minimum on the same
   trace.  The sign flag is minus the sign of the reported peak value. *)
Theorem C14_peak_is_extremum : forall k w T C f, rect w T C -> features1 k w = Some f ->
  let x := trace_of w (f_trace f) in
  exists pk0, is_extremum w T C (f_trace f) pk0 /\
    (exists tq0, first_max_on (map (Z.mul (sg (nth pk0 x 0))) x) pk0 T tq0 /\
       (f_peak f, f_peak_val f) =
         if swap_decision x pk0 tq0 then (tq0, nth tq0 x 0) else (pk0, nth pk0 x 0)) /\
    f_peak_val f = nth (f_peak f) x 0 /\ f_peak_val f <> 0 /\
    f_sign f = - Z.sgn (f_peak_val f) /\ (pk0 <= f_peak f < T)%nat.
Proof. exact pub_peak. Qed.
Print Assumptions C14_peak_is_extremum.

(* tip < peak <= trough < T; the trough is the first largest opposite deflection
   from the peak on and its value is the trace sample; the recovery index is
   trough + k, or the last sample when that runs past the end. *)
Theorem C14_order_trough_recovery : forall k w T C f, rect w T C -> features1 k w = Some f ->
  let x := trace_of w (f_trace f) in
  (f_tip f < f_peak f)%nat /\ (f_peak f <= f_trough f)%nat /\ (f_trough f < T)%nat /\
  first_max_on (map (Z.mul (f_sign f)) x) (f_peak f) T (f_trough f) /\
  f_trough_val f = nth (f_trough f) x 0 /\
  (f_rec f < T)%nat /\
  ((f_trough f + k < T)%nat -> f_rec f = (f_trough f + k)%nat) /\
  ((T <= f_trough f + k)%nat -> f_rec f = (T - 1)%nat).
Proof. exact pub_order. Qed.
Print Assumptions C14_order_trough_recovery.

(* The tip is the first largest opposite deflection before the peak, every
   reported value is the trace sample at the reported index, and the half-peak
   points are the nearest samples after / before the peak that are back within
   half of the peak value (0 resp. T-1 when there is none: NumPy's argmax of an
   all-False row).  Since the repair e0eff43 this holds for every successful
   call (before it, it failed for a positive peak that stays positive after the
   peak/trough swap: F-C14-b). *)
Theorem C14_tip_halfpeak_values : forall k w T C f, rect w T C -> features1 k w = Some f ->
  let x := trace_of w (f_trace f) in
  let W t := within_half (f_peak_val f) (nth t x 0) in
  first_max_on (map (Z.mul (f_sign f)) x) 0 (f_peak f) (f_tip f) /\
  f_tip_val f = nth (f_tip f) x 0 /\
  f_hpost_val f = nth (f_hpost f) x 0 /\ f_hpre_val f = nth (f_hpre f) x 0 /\
  f_rec_val f = nth (f_rec f) x 0 /\
  (forall t, (f_peak f < t < T)%nat -> W t -> (f_peak f < f_hpost f <= t)%nat /\ W (f_hpost f)) /\
  ((forall t, (f_peak f < t < T)%nat -> ~ W t) -> f_hpost f = O) /\
  (forall t, (t < f_peak f)%nat -> W t -> (t <= f_hpre f < f_peak f)%nat /\ W (f_hpre f)) /\
  ((forall t, (t < f_peak f)%nat -> ~ W t) -> f_hpre f = (T - 1)%nat).
Proof. exact pub_consistent. Qed.
Print Assumptions C14_tip_halfpeak_values.

(* Scaling by c > 0 (integer; two waveforms related by a positive rational factor
   are both integer multiples of a common one): indices unchanged, values x c.
   Holds for EVERY waveform, failing calls included, and for batches. *)
Theorem C14_scale_equivariance : forall c k w, 0 < c ->
  features1 k (scale_wav c w) = option_map (scale_feats c) (features1 k w).
Proof. intros c k w Hc. exact (pub_scale c Hc k w). Qed.
Print Assumptions C14_scale_equivariance.

Theorem C14_scale_equivariance_batch : forall c k ws, 0 < c ->
  batch_features k (map (scale_wav c) ws) = option_map (map (scale_feats c)) (batch_features k ws).
Proof. exact pub_batch_scale. Qed.
Print Assumptions C14_scale_equivariance_batch.

(* Permuting channels (w' channel c = w channel sigma c) moves only the peak
   channel index, provided one channel alone holds the largest |sample|
   (with a tie the first such channel is picked, so the pick may change). *)
Theorem C14_channel_permutation : forall k w w' T C (sigma tau : nat -> nat) tr pk0,
  rect w T C -> rect w' T C ->
  (forall c, (c < C)%nat -> (sigma c < C)%nat /\ (tau c < C)%nat /\
                            sigma (tau c) = c /\ tau (sigma c) = c) ->
  (forall t c, (t < T)%nat -> (c < C)%nat -> smp w' t c = smp w t (sigma c)) ->
  is_extremum w T C tr pk0 ->
  (forall t c, (t < T)%nat -> (c < C)%nat -> c <> tr -> Z.abs (smp w t c) < Z.abs (smp w pk0 tr)) ->
  features1 k w' = option_map (with_trace (tau tr)) (features1 k w).
Proof. exact pub_perm. Qed.
Print Assumptions C14_channel_permutation.

(* Batch independence: the vectorised pipeline (row-wise stages, swap branch on
   the selected subset written back by position) returns, for each waveform,
   exactly what it returns for that waveform alone; it raises iff one of them does. *)
Theorem C14_batch_independent : forall k ws,
  batch_features k ws = sequence (map (features1 k) ws).
Proof. exact pub_batch. Qed.
Print Assumptions C14_batch_independent.

(* ---- the hypotheses are satisfiable on non-trivial inputs ---- *)
(* a negative spike on channel 1 of 2, with a NaN-padded sample *)
Definition ex_w : list (list (option Z)) :=
  [[Some 1; Some 0]; [Some 0; Some 2]; [None; Some (-30)]; [Some 3; Some (-8)]; [Some 1; Some 12];
   [Some 0; Some 9]; [Some (-1); Some 4]; [Some 0; Some 1]; [Some 0; Some 0]; [Some 1; Some 0]].
Example ex_features : features1 5 ex_w =
  Some (mkF 1 2 (-30) 1 4 12 1 2 3 1 (-8) 2 9 0).
Proof. vm_compute. reflexivity. Qed.
Example ex_extremum : is_extremum ex_w 10 2 1 2.
Proof.
  unfold is_extremum. split; [lia|]. split; [lia|]. split; [|split].
  - intros t c Ht Hc. do 10 (destruct t as [|t]; [do 2 (destruct c as [|c]; [vm_compute; discriminate|]); lia|]). lia.
  - intros t c Ht Hc. assert (c = 0)%nat by lia. subst c.
    do 10 (destruct t as [|t]; [vm_compute; reflexivity|]). lia.
  - intros t Ht. do 2 (destruct t as [|t]; [vm_compute; reflexivity|]). lia.
Qed.
(* a positive spike whose trough triggers the swap (ratio 10/8 <= 1.5), in a batch with the one above *)
Definition ex_w2 : list (list (option Z)) :=
  map (fun v => [Some v; Some 0]) [0; 1; 2; 10; -3; -8; 6; 3; 1; 0].
Example ex_batch : batch_features 5 [ex_w; ex_w2] =
  Some [mkF 1 2 (-30) 1 4 12 1 2 3 1 (-8) 2 9 0; mkF 0 5 (-8) 1 6 6 3 10 6 4 6 (-3) 9 0].
Proof. vm_compute. reflexivity. Qed.

(* the former F-C14-b witness (positive peak on the last sample, still positive after
   the swap): tip = the lowest sample before the peak (t=2, -2), half_peak_pre = the
   nearest sample below half the peak (t=9, 0), values are the trace samples *)
Definition wit : list (list (option Z)) :=
  map (fun v => [Some v]) [0; 1; -2; 3; -1; 4; 6; 3; 1; 0; 5; 10].
Example ex_former_witness : features1 5 wit = Some (mkF 0 11 10 (-1) 11 10 2 (-2) 0 9 0 0 11 10).
Proof. vm_compute. reflexivity. Qed.
