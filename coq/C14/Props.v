(* C14 — property theorems.  Statements closed by `exact <lemma>` and the Print
   Assumptions the check collects.

   Vocabulary (definitions in Model.v / Proofs.v):
     w : list (list (option Z))   one waveform, T rows (time) x C samples (traces), None = NaN
     rect w T C                   w is a T x C matrix
     smp w t c                    sample (t, c) after NaN -> 0;  trace_of w c = that column
     features1 k w                compute_spike_features on the single waveform w
                                  (k = idx_from_trough, 5 with the default arguments); None = the call raises
     batch_features k ws          compute_spike_features on a batch, with the gather/scatter
                                  structure of the vectorised swap branch
     is_extremum w T C tr pk0     (pk0, tr) is the first channel / first sample holding the largest |sample|
     first_max_on a lo hi i       i is the first position of the maximum of a on [lo, hi)
     sg v                         -1 if v > 0 else 1 : the factor that makes a peak of value v point down
     within_half pv v             v is back within half of the peak value pv (0 < pv: 2v < pv;  pv < 0: pv < 2v)
   Domain: all integer-valued waveforms of every size (no bound on T, C or the values). *)
From Coq Require Import ZArith List Bool Lia Reals.
From IBL.C14 Require Import Model Proofs.
From IBL.C14 Require Float.
Import ListNotations.
Open Scope Z_scope.

(* Feature extraction succeeds whenever the window is longer than the recovery
   offset and the largest deflection is not on the first sample. *)
Theorem C14_features_total : forall k w T C, rect w T C -> (1 <= C)%nat -> (k < T)%nat ->
  (exists t c, (1 <= t < T)%nat /\ (c < C)%nat /\
     forall c', (c' < C)%nat -> Z.abs (smp w 0 c') < Z.abs (smp w t c)) ->
  exists f, features1 k w = Some f.
Proof. exact pub_total. Qed.
Print Assumptions C14_features_total.

(* The reported peak is the global |.| extremum (first channel, first sample
   holding it) or, when that extremum x[pk0] is positive and the first minimum
   x[tq0] after it satisfies |x[pk0] / x[tq0]| <= 1.5, that minimum on the same
   trace.  The sign flag is minus the sign of the reported peak value. *)
Theorem C14_peak_is_extremum : forall k w T C f, rect w T C -> features1 k w = Some f ->
  let x := trace_of w (f_trace f) in
  exists pk0, is_extremum w T C (f_trace f) pk0 /\
    (exists tq0, first_max_on (map (Z.mul (sg (nth pk0 x 0))) x) pk0 T tq0 /\
       (f_peak f, f_peak_val f) =
         if swap_decision x pk0 tq0 then (tq0, nth tq0 x 0) else (pk0, nth pk0 x 0)) /\
    f_peak_val f = nth (f_peak f) x 0 /\ f_peak_val f <> 0 /\
    f_sign f = - Z.sgn (f_peak_val f) /\ (pk0 <= f_peak f < T)%nat.
Proof. exact pub_peak. Qed.
Print Assumptions C14_peak_is_extremum.

(* tip < peak <= trough < T; the trough is the first largest opposite deflection
   from the peak on and its value is the trace sample; the recovery index is
   trough + k, or the last sample when that runs past the end. *)
Theorem C14_order_trough_recovery : forall k w T C f, rect w T C -> features1 k w = Some f ->
  let x := trace_of w (f_trace f) in
  (f_tip f < f_peak f)%nat /\ (f_peak f <= f_trough f)%nat /\ (f_trough f < T)%nat /\
  first_max_on (map (Z.mul (f_sign f)) x) (f_peak f) T (f_trough f) /\
  f_trough_val f = nth (f_trough f) x 0 /\
  (f_rec f < T)%nat /\
  ((f_trough f + k < T)%nat -> f_rec f = (f_trough f + k)%nat) /\
  ((T <= f_trough f + k)%nat -> f_rec f = (T - 1)%nat).
Proof. exact pub_order. Qed.
Print Assumptions C14_order_trough_recovery.

(* The tip is the first largest opposite deflection before the peak, every
   reported value is the trace sample at the reported index, and the half-peak
   points are the nearest samples after / before the peak that are back within
   half of the peak value (0 resp. T-1 when there is none: NumPy's argmax of an
   all-False row).  Since the repair e0eff43 this holds for every successful
   call (before it, it failed for a positive peak that stays positive after the
   peak/trough swap: F-C14-b). *)
Theorem C14_tip_halfpeak_values : forall k w T C f, rect w T C -> features1 k w = Some f ->
  let x := trace_of w (f_trace f) in
  let W t := within_half (f_peak_val f) (nth t x 0) in
  first_max_on (map (Z.mul (f_sign f)) x) 0 (f_peak f) (f_tip f) /\
  f_tip_val f = nth (f_tip f) x 0 /\
  f_hpost_val f = nth (f_hpost f) x 0 /\ f_hpre_val f = nth (f_hpre f) x 0 /\
  f_rec_val f = nth (f_rec f) x 0 /\
  (forall t, (f_peak f < t < T)%nat -> W t -> (f_peak f < f_hpost f <= t)%nat /\ W (f_hpost f)) /\
  ((forall t, (f_peak f < t < T)%nat -> ~ W t) -> f_hpost f = O) /\
  (forall t, (t < f_peak f)%nat -> W t -> (t <= f_hpre f < f_peak f)%nat /\ W (f_hpre f)) /\
  ((forall t, (t < f_peak f)%nat -> ~ W t) -> f_hpre f = (T - 1)%nat).
Proof. exact pub_consistent. Qed.
Print Assumptions C14_tip_halfpeak_values.

(* Scaling by c > 0 (integer; two waveforms related by a positive rational factor
   are both integer multiples of a common one): indices unchanged, values x c.
   Holds for EVERY waveform, failing calls included, and for batches. *)
Theorem C14_scale_equivariance : forall c k w, 0 < c ->
  features1 k (scale_wav c w) = option_map (scale_feats c) (features1 k w).
Proof. intros c k w Hc. exact (pub_scale c Hc k w). Qed.
Print Assumptions C14_scale_equivariance.

Theorem C14_scale_equivariance_batch : forall c k ws, 0 < c ->
  batch_features k (map (scale_wav c) ws) = option_map (map (scale_feats c)) (batch_features k ws).
Proof. exact pub_batch_scale. Qed.
Print Assumptions C14_scale_equivariance_batch.

(* Permuting channels (w' channel c = w channel sigma c) moves only the peak
   channel index, provided one channel alone holds the largest |sample|
   (with a tie the first such channel is picked, so the pick may change). *)
Theorem C14_channel_permutation : forall k w w' T C (sigma tau : nat -> nat) tr pk0,
  rect w T C -> rect w' T C ->
  (forall c, (c < C)%nat -> (sigma c < C)%nat /\ (tau c < C)%nat /\
                            sigma (tau c) = c /\ tau (sigma c) = c) ->
  (forall t c, (t < T)%nat -> (c < C)%nat -> smp w' t c = smp w t (sigma c)) ->
  is_extremum w T C tr pk0 ->
  (forall t c, (t < T)%nat -> (c < C)%nat -> c <> tr -> Z.abs (smp w t c) < Z.abs (smp w pk0 tr)) ->
  features1 k w' = option_map (with_trace (tau tr)) (features1 k w).
Proof. exact pub_perm. Qed.
Print Assumptions C14_channel_permutation.

(* Batch independence: the vectorised pipeline (row-wise stages, swap branch on
   the selected subset written back by position) returns, for each waveform,
   exactly what it returns for that waveform alone; it raises iff one of them does. *)
Theorem C14_batch_independent : forall k ws,
  batch_features k ws = sequence (map (features1 k) ws).
Proof. exact pub_batch. Qed.
Print Assumptions C14_batch_independent.

(* Scaling by ANY positive rational: w2 = (c1/c2) w1, stated without division as
   c1*w1 = c2*w2 sample by sample.  Both calls fail together; otherwise every index
   (and the sign flag) agrees and c1 * value(w1) = c2 * value(w2).  Finite floats are
   dyadic rationals, so in exact arithmetic this covers every pair of proportional
   float waveforms. *)
Theorem C14_scale_equivariance_rational : forall c1 c2 k w1 w2, 0 < c1 -> 0 < c2 ->
  scale_wav c1 w1 = scale_wav c2 w2 ->
  match features1 k w1, features1 k w2 with
  | Some f1, Some f2 => same_indices f1 f2 /\ values_prop c1 c2 f1 f2
  | None, None => True
  | _, _ => False
  end.
Proof. exact pub_scale_rational. Qed.
Print Assumptions C14_scale_equivariance_rational.

(* _validate_arr_in: NaN is read as 0; a 2-D array is a batch of one. *)
Theorem C14_nan_is_zero : forall k w,
  features1 k (map (map (fun o => Some (denan o))) w) = features1 k w.
Proof. exact pub_nan_zero. Qed.
Print Assumptions C14_nan_is_zero.

Theorem C14_input_rank : forall k i, compute_spike_features k i =
  match i with
  | In2 w => option_map (fun f => [f]) (features1 k w)
  | In3 ws => sequence (map (features1 k) ws)
  end.
Proof. exact pub_input. Qed.
Print Assumptions C14_input_rank.

(* NaN padding: a channel that is NaN throughout is never the peak channel of a
   successful call, wherever it sits, and the reported peak sample is never a NaN. *)
Theorem C14_nan_channel_never_peak : forall k w T C f c, rect w T C -> features1 k w = Some f ->
  (forall t, (t < T)%nat -> nth c (nth t w []) None = None) -> f_trace f <> c.
Proof. exact pub_nan_channel. Qed.
Print Assumptions C14_nan_channel_never_peak.

Theorem C14_peak_sample_not_nan : forall k w T C f, rect w T C -> features1 k w = Some f ->
  nth (f_trace f) (nth (f_peak f) w []) None <> None.
Proof. exact pub_peak_not_nan. Qed.
Print Assumptions C14_peak_sample_not_nan.

(* Inserting an all-NaN channel at ANY position j (0..C) changes nothing but the
   peak channel index, which moves past the inserted channel; failing calls keep
   failing.  No uniqueness hypothesis: a padded channel can never win a tie. *)
Theorem C14_nan_channel_insertion : forall k j w T C, rect w T C -> (j <= C)%nat ->
  features1 k (insert_nan_channel j w) =
  option_map (fun f => with_trace (shift_idx j (f_trace f)) f) (features1 k w).
Proof. exact pub_nan_insert. Qed.
Print Assumptions C14_nan_channel_insertion.

(* find_peak (public) returns the extremum the feature row starts from;
   weights_spk_ch returns per trace the signed sample at the first largest |sample|,
   the peak channel is the first trace of largest |weight| and carries the extremum. *)
Theorem C14_find_peak_extremum : forall w T C, rect w T C -> (1 <= T)%nat -> (1 <= C)%nat ->
  exists tr pk, find_peak1 w = Some (tr, pk, smp w pk tr) /\ is_extremum w T C tr pk.
Proof. exact pub_find_peak. Qed.
Print Assumptions C14_find_peak_extremum.

Theorem C14_weights_spec : forall w T C, rect w T C -> (1 <= T)%nat ->
  exists ws, weights1 w = Some ws /\ length ws = C /\
    forall c, (c < C)%nat -> exists i, (i < T)%nat /\ nth c ws 0 = smp w i c /\
      (forall t, (t < T)%nat -> Z.abs (smp w t c) <= Z.abs (smp w i c)) /\
      (forall t, (t < i)%nat -> Z.abs (smp w t c) < Z.abs (smp w i c)).
Proof. exact pub_weights. Qed.
Print Assumptions C14_weights_spec.

Theorem C14_weights_peak_channel : forall w T C ws tr pk0, rect w T C -> weights1 w = Some ws ->
  is_extremum w T C tr pk0 ->
  nth tr ws 0 = smp w pk0 tr /\
  (forall c, (c < C)%nat -> Z.abs (nth c ws 0) <= Z.abs (nth tr ws 0)) /\
  (forall c, (c < tr)%nat -> Z.abs (nth c ws 0) < Z.abs (nth tr ws 0)).
Proof. exact pub_weights_peak. Qed.
Print Assumptions C14_weights_peak_channel.

(* Derived columns (peak_to_trough_ratio, slopes, peak-to-trough duration) as
   numerator / denominator pairs: quotients of differences of the points specified
   above; the depolarisation denominator is positive, the other two are >= 0 and a
   zero denominator only meets a zero numerator (nan, never +-inf); the ratio's
   numerator is positive (inf exactly when the trough sample is 0). *)
Theorem C14_derived_columns : forall k w T C f, rect w T C -> features1 k w = Some f ->
  let x := trace_of w (f_trace f) in
  d_ratio f = (Z.abs (nth (f_peak f) x 0), Z.abs (nth (f_trough f) x 0)) /\ 0 < fst (d_ratio f) /\
  d_depol f = (nth (f_peak f) x 0 - nth (f_tip f) x 0, zn (f_peak f) - zn (f_tip f)) /\
  0 < snd (d_depol f) /\
  d_repol f = (nth (f_trough f) x 0 - nth (f_peak f) x 0, zn (f_trough f) - zn (f_peak f)) /\
  0 <= snd (d_repol f) /\ (snd (d_repol f) = 0 -> fst (d_repol f) = 0) /\
  d_recov f = (nth (f_rec f) x 0 - nth (f_trough f) x 0, zn (f_rec f) - zn (f_trough f)) /\
  0 <= snd (d_recov f) /\ (snd (d_recov f) = 0 -> fst (d_recov f) = 0) /\
  0 <= d_pt_dur f.
Proof. exact pub_derived. Qed.
Print Assumptions C14_derived_columns.

(* The only float rounding that decides an index: the swap test
   abs(peak_val / trough_val) <= 1.5.  With binary64 round-to-nearest-even division
   (Flocq: rnd64 (a / b)) of integer-valued samples, |trough| < 2^52, the test is
   true exactly when the model's exact test 2|peak| <= 3|trough| is.
   (Uses the standard library's real-number axioms, listed by Print Assumptions.) *)
Theorem C14_ratio_test_float64 : forall pv tv : Z, tv <> 0 -> Z.abs tv < 2 ^ 52 ->
  ((Rabs (Float.rnd64 (IZR pv / IZR tv)) <= 3 / 2)%R <-> ratio_le_15 pv tv = true).
Proof. exact Float.ratio_test_float64. Qed.
Print Assumptions C14_ratio_test_float64.

(* ---- the hypotheses are satisfiable on non-trivial inputs ---- *)
(* a negative spike on channel 1 of 2, with a NaN-padded sample *)
Definition ex_w : list (list (option Z)) :=
  [[Some 1; Some 0]; [Some 0; Some 2]; [None; Some (-30)]; [Some 3; Some (-8)]; [Some 1; Some 12];
   [Some 0; Some 9]; [Some (-1); Some 4]; [Some 0; Some 1]; [Some 0; Some 0]; [Some 1; Some 0]].
Example ex_features : features1 5 ex_w =
  Some (mkF 1 2 (-30) 1 4 12 1 2 3 1 (-8) 2 9 0).
Proof. vm_compute. reflexivity. Qed.
Example ex_extremum : is_extremum ex_w 10 2 1 2.
Proof.
  unfold is_extremum. split; [lia|]. split; [lia|]. split; [|split].
  - intros t c Ht Hc. do 10 (destruct t as [|t]; [do 2 (destruct c as [|c]; [vm_compute; discriminate|]); lia|]). lia.
  - intros t c Ht Hc. assert (c = 0)%nat by lia. subst c.
    do 10 (destruct t as [|t]; [vm_compute; reflexivity|]). lia.
  - intros t Ht. do 2 (destruct t as [|t]; [vm_compute; reflexivity|]). lia.
Qed.
(* a positive spike whose trough triggers the swap (ratio 10/8 <= 1.5), in a batch with the one above *)
Definition ex_w2 : list (list (option Z)) :=
  map (fun v => [Some v; Some 0]) [0; 1; 2; 10; -3; -8; 6; 3; 1; 0].
Example ex_batch : batch_features 5 [ex_w; ex_w2] =
  Some [mkF 1 2 (-30) 1 4 12 1 2 3 1 (-8) 2 9 0; mkF 0 5 (-8) 1 6 6 3 10 6 4 6 (-3) 9 0].
Proof. vm_compute. reflexivity. Qed.

(* the former F-C14-b witness (positive peak on the last sample, still positive after
   the swap): tip = the lowest sample before the peak (t=2, -2), half_peak_pre = the
   nearest sample below half the peak (t=9, 0), values are the trace samples *)
Definition wit : list (list (option Z)) :=
  map (fun v => [Some v]) [0; 1; -2; 3; -1; 4; 6; 3; 1; 0; 5; 10].
Example ex_former_witness : features1 5 wit = Some (mkF 0 11 10 (-1) 11 10 2 (-2) 0 9 0 0 11 10).
Proof. vm_compute. reflexivity. Qed.

(* rational scaling: w1 = 2 * u, w2 = 3 * u  (w2 = 1.5 * w1); a padded channel inserted in front *)
Example ex_rational : scale_wav 3 (scale_wav 2 ex_w2) = scale_wav 2 (scale_wav 3 ex_w2) /\
  features1 5 (scale_wav 2 ex_w2) = Some (mkF 0 5 (-16) 1 6 12 3 20 6 4 12 (-6) 9 0) /\
  features1 5 (scale_wav 3 ex_w2) = Some (mkF 0 5 (-24) 1 6 18 3 30 6 4 18 (-9) 9 0).
Proof. vm_compute. auto. Qed.
Example ex_padding : features1 5 (insert_nan_channel 0 ex_w) = Some (mkF 2 2 (-30) 1 4 12 1 2 3 1 (-8) 2 9 0)
  /\ weights1 ex_w = Some [3; -30].
Proof. vm_compute. auto. Qed.

(* ---- round 3: every hypothesis used above is satisfiable on these concrete inputs ---- *)
Example ex_rect : rect ex_w 10 2 /\ rect ex_w2 10 2 /\ rect wit 12 1 /\ rect (insert_nan_channel 0 ex_w) 10 3.
Proof.
  repeat split; try reflexivity; intros row Hin;
    repeat (destruct Hin as [<-|Hin]; [reflexivity|]); destruct Hin.
Qed.
(* guard of C14_features_total: sample (2, 1) exceeds every first-row sample *)
Example ex_total_guard : (1 <= 2)%nat /\ (5 < 10)%nat /\
  exists t c, (1 <= t < 10)%nat /\ (c < 2)%nat /\
    forall c', (c' < 2)%nat -> Z.abs (smp ex_w 0 c') < Z.abs (smp ex_w t c).
Proof.
  split; [lia|]. split; [lia|]. exists 2%nat, 1%nat. split; [lia|]. split; [lia|].
  intros c' Hc'. do 2 (destruct c' as [|c']; [vm_compute; reflexivity|]). lia.
Qed.
(* hypothesis of C14_nan_channel_never_peak: channel 0 of the padded waveform is NaN throughout,
   and the call succeeds with peak channel 2 (ex_padding) *)
Example ex_nan_channel : forall t, (t < 10)%nat -> nth 0 (nth t (insert_nan_channel 0 ex_w) []) None = None.
Proof. intros t Ht. do 10 (destruct t as [|t]; [reflexivity|]). lia. Qed.
(* hypotheses of C14_channel_permutation: ex_w with its two channels exchanged *)
Definition ex_w_swapped : list (list (option Z)) := map (fun row => [nth 1 row None; nth 0 row None]) ex_w.
Definition ex_sigma (c : nat) : nat := (1 - c)%nat.
Example ex_permutation_hyps :
  rect ex_w_swapped 10 2 /\
  (forall c, (c < 2)%nat -> (ex_sigma c < 2)%nat /\ (ex_sigma c < 2)%nat /\
                            ex_sigma (ex_sigma c) = c /\ ex_sigma (ex_sigma c) = c) /\
  (forall t c, (t < 10)%nat -> (c < 2)%nat -> smp ex_w_swapped t c = smp ex_w t (ex_sigma c)) /\
  (forall t c, (t < 10)%nat -> (c < 2)%nat -> c <> 1%nat -> Z.abs (smp ex_w t c) < Z.abs (smp ex_w 2 1)) /\
  features1 5 ex_w_swapped = option_map (with_trace (ex_sigma 1)) (features1 5 ex_w).
Proof.
  split; [|split; [|split; [|split]]].
  - split; [reflexivity|]. intros row Hin. repeat (destruct Hin as [<-|Hin]; [reflexivity|]). destruct Hin.
  - intros c Hc. do 2 (destruct c as [|c]; [vm_compute; repeat split; lia|]). lia.
  - intros t c Ht Hc.
    do 10 (destruct t as [|t]; [do 2 (destruct c as [|c]; [vm_compute; reflexivity|]); lia|]). lia.
  - intros t c Ht Hc Hn. destruct c as [|c]; [|lia].
    do 10 (destruct t as [|t]; [vm_compute; reflexivity|]). lia.
  - vm_compute. reflexivity.
Qed.
