(* C01 — lemmas joining C08's geometry index with the reader's channel order,
   and the lifting of the sync sweep. *)
From Coq Require Import ZArith List Bool Lia Permutation.
From IBL.lib Require Import PyInt RunLib.
From IBL.C01 Require Import Model Proofs Geometry.
Require IBL.C08.Model IBL.C08.Proofs.
Import ListNotations.
Open Scope Z_scope.
Module G8 := IBL.C08.Model.

Lemma zrange_app a b : zrange (a + b) = zrange a ++ arith (Z.of_nat a) 1 b.
Proof.
  induction b as [|b IH].
  - rewrite Nat.add_0_r. unfold arith. cbn. now rewrite app_nil_r.
  - rewrite Nat.add_succ_r, zrange_S, IH, arith_snoc, <- app_assoc. do 3 f_equal. lia.
Qed.

Lemma zget_app_l {T} (l t : list T) i : 0 <= i < zlen l -> zget (l ++ t) i = zget l i.
Proof.
  intros H. unfold zget, zlen in *. destruct (i <? 0); [reflexivity|].
  apply nth_error_app1. lia.
Qed.

Lemma zget_app_r {T} (l t : list T) i : zlen l <= i -> zget (l ++ t) i = zget t (i - zlen l).
Proof.
  intros H. unfold zget, zlen in *.
  destruct (i <? 0) eqn:E1; [apply Z.ltb_lt in E1; lia|].
  destruct (i - Z.of_nat (length l) <? 0) eqn:E2; [apply Z.ltb_lt in E2; lia|].
  rewrite nth_error_app2 by lia. f_equal. lia.
Qed.

Lemma zget_znth (l : list Z) i : 0 <= i < zlen l -> zget l i = Some (G8.znth l i).
Proof.
  intros H. unfold zget, G8.znth, zlen in *. destruct (i <? 0) eqn:E; [apply Z.ltb_lt in E; lia|].
  apply nth_error_nth'. lia.
Qed.

(* raw_channel_order built from a permutation of the n <= nc site positions *)
Lemma reader_order_spec nc n inds :
  Permutation inds (zrange n) -> Z.of_nat n <= nc ->
  exists order, reader_order nc (Some inds) = Some order /\ order_ok order nc /\
    Permutation order (zrange (Z.to_nat nc)) /\
    (forall i, 0 <= i < Z.of_nat n -> zget order i = Some (G8.znth inds i)) /\
    (forall i, Z.of_nat n <= i < nc -> zget order i = Some i).
Proof.
  intros Hp Hn.
  assert (Hlen : zlen inds = Z.of_nat n).
  { unfold zlen. rewrite (Permutation_length Hp), zrange_length. reflexivity. }
  unfold reader_order. rewrite Hlen.
  destruct (Z.of_nat n <=? nc) eqn:E; [|apply Z.leb_gt in E; lia].
  set (m := Z.to_nat (nc - Z.of_nat n)).
  eexists. split; [reflexivity|]. split; [split|]; [| |split; [|split]].
  - unfold zlen in *. rewrite app_length, arith_length. lia.
  - apply Forall_app. split.
    + apply Forall_forall. intros c Hc. apply (Permutation_in _ Hp) in Hc. apply in_zrange in Hc. lia.
    + apply arith_Forall. intros k Hk. lia.
  - replace (Z.to_nat nc) with (n + m)%nat by lia. rewrite zrange_app.
    apply Permutation_app_tail. exact Hp.
  - intros i Hi. rewrite zget_app_l by lia. apply zget_znth. lia.
  - intros i Hi. rewrite zget_app_r by lia. rewrite Hlen, zget_arith by lia. f_equal. lia.
Qed.

(* sorting off: the geometry index is arange(n), the channel order the identity *)
Lemma reader_order_identity nc n : Z.of_nat n <= nc ->
  reader_order nc (Some (zrange n)) = Some (zrange (Z.to_nat nc)).
Proof.
  intros Hn. unfold reader_order, zlen. rewrite zrange_length.
  destruct (Z.of_nat n <=? nc) eqn:E; [|apply Z.leb_gt in E; lia].
  replace (Z.to_nat nc) with (n + Z.to_nat (nc - Z.of_nat n))%nat by lia.
  now rewrite zrange_app.
Qed.

Require IBL.C08.Props.
Module P8 := IBL.C08.Proofs.
Module T8 := IBL.C08.Props.

Lemma sorted_alignment {A G V : Type} (cal : A -> G -> V) g e sites split t' inds raw ns nc gain :
  G8.geometry g e sites split true = Some (t', inds) ->
  zlen inds <= nc -> rect raw ns nc -> zlen gain = nc ->
  exists order t M,
    reader_order nc (Some inds) = Some order /\
    order_ok order nc /\ Permutation order (zrange (Z.to_nat nc)) /\
    (forall i, 0 <= i < Z.of_nat (G8.gsize t) -> zget order i = Some (G8.znth inds i)) /\
    (forall i, Z.of_nat (G8.gsize t) <= i < nc -> zget order i = Some i) /\
    G8.geometry g e sites split false = Some (t, zrange (G8.gsize t)) /\
    reader_order nc (Some (zrange (G8.gsize t))) = Some (zrange (Z.to_nat nc)) /\
    G8.columns t' = map (G8.gather inds) (G8.columns t) /\
    (forall i j, 0 <= i -> i < j -> j < Z.of_nat (G8.gsize t') ->
       P8.ordered_at (G8.g_shank t') (G8.g_row t') (G8.g_col t') (G8.g_ind t') i j) /\
    calibrated_sorted cal raw order gain = Some M /\
    (forall i j v,
       (exists Mrow, zget M i = Some Mrow /\ zget Mrow j = Some v) <->
       (exists row c a gn, zget raw i = Some row /\ zget order j = Some c /\
                           zget row c = Some a /\ zget gain c = Some gn /\ v = cal a gn)) /\
    (forall nsel csel, is_fancy nsel && is_fancy csel = false ->
       ((exists x, sel_positions ns nsel = Ok x) \/ (exists x, sel_positions nc csel = Ok x)) ->
       read cal None raw nc order gain nsel csel = np_index2 M ns nc nsel csel).
Proof.
  intros Hg Hlen Hrect Hgain.
  destruct (T8.C08_sort_is_permutation _ _ _ _ _ _ Hg) as [t [Hf [Hinds [Hperm [_ [Hl _]]]]]].
  destruct (T8.C08_attributes_move_together _ _ _ _ _ _ Hg) as [t0 [Hf0 [Hcols _]]].
  rewrite Hf in Hf0. inversion Hf0; subst t0. clear Hf0.
  assert (Hn : Z.of_nat (G8.gsize t) <= nc) by (unfold zlen in Hlen; lia).
  destruct (reader_order_spec nc (G8.gsize t) inds Hperm Hn) as [order [Ho [Hok [Hp [Hlo Hhi]]]]].
  destruct (calibrated_sorted_total cal raw ns nc order gain Hrect Hok Hgain) as [M HM].
  exists order, t, M.
  split; [exact Ho|]. split; [exact Hok|]. split; [exact Hp|]. split; [exact Hlo|].
  split; [exact Hhi|]. split; [exact Hf|].
  split; [apply reader_order_identity; exact Hn|]. split; [exact Hcols|].
  split; [exact (T8.C08_sort_is_sorted_stable _ _ _ _ _ _ Hg)|]. split; [exact HM|].
  split.
  - intros i j v. exact (calibrated_sorted_cell cal raw ns nc order gain Hrect Hok Hgain M i j v HM).
  - intros nsel csel. exact (read_eq_np_index cal raw ns nc order gain Hrect Hok Hgain M nsel csel HM).
Qed.

(* ---------------------------------------------------------------- gains: joint with C09 *)
Require IBL.C09.Model IBL.C09.Props.
Module M9 := IBL.C09.Model.
Module T9 := IBL.C09.Props.

(* any vector C09's model assigns to the stream, used as the reader's gain vector *)
Lemma gain_alignment {A V : Type} (cal : A -> M9.conv -> V) d r mi g raw ns nc order :
  M9.sample2volts d = Some (r, mi, g) -> zlen g = nc -> rect raw ns nc -> order_ok order nc ->
  exists M, calibrated_sorted cal raw order g = Some M /\
    (forall i j v,
       (exists Mrow, zget M i = Some Mrow /\ zget Mrow j = Some v) <->
       (exists row c a gc, zget raw i = Some row /\ zget order j = Some c /\
                           zget row c = Some a /\ zget g c = Some gc /\ v = cal a gc)) /\
    (forall nsel csel, is_fancy nsel && is_fancy csel = false ->
       ((exists x, sel_positions ns nsel = Ok x) \/ (exists x, sel_positions nc csel = Ok x)) ->
       read cal None raw nc order g nsel csel = np_index2 M ns nc nsel csel).
Proof.
  intros _ Hg Hrect Hok.
  destruct (calibrated_sorted_total cal raw ns nc order g Hrect Hok Hg) as [M HM].
  exists M. split; [exact HM|]. split.
  - intros i j v. exact (calibrated_sorted_cell cal raw ns nc order g Hrect Hok Hg M i j v HM).
  - intros nsel csel. exact (read_eq_np_index cal raw ns nc order g Hrect Hok Hg M nsel csel HM).
Qed.

Lemma zget_app_pos {T} (l t : list T) i : zlen l <= i -> zget (l ++ t) i = zget t (i - zlen l).
Proof. apply zget_app_r. Qed.

Lemma zlen_zrepeat {T} (a : T) n : 0 <= n -> zlen (M9.zrepeat a n) = n.
Proof. intros H. unfold zlen, M9.zrepeat. rewrite repeat_length. lia. Qed.

Lemma zget_zrepeat {T} (a : T) n i : 0 <= i < n -> zget (M9.zrepeat a n) i = Some a.
Proof.
  intros H. unfold zget, M9.zrepeat. destruct (i <? 0) eqn:E; [apply Z.ltb_lt in E; lia|].
  rewrite (nth_error_nth' _ a) by (rewrite repeat_length; lia). now rewrite nth_repeat.
Qed.

(* nidq: on-disk channel c is scaled by range/maxint/niMNGain (c < MN), /niMAGain (next MA),
   range/maxint (next XA), and left unscaled (the DW digital words) — whatever the four
   counts are, zero included *)
Lemma nidq_gain_classes (gmn gma : M9.dec) c0 c1 c2 c3 c :
  0 <= c0 -> 0 <= c1 -> 0 <= c2 -> 0 <= c3 ->
  let vec := M9.zrepeat (M9.CG gmn) c0 ++ M9.zrepeat (M9.CG gma) c1 ++
             M9.zrepeat (M9.CG (1, O)) c2 ++ M9.zrepeat M9.C1 c3 in
  zlen vec = c0 + c1 + c2 + c3 /\
  (0 <= c < c0 -> zget vec c = Some (M9.CG gmn)) /\
  (c0 <= c < c0 + c1 -> zget vec c = Some (M9.CG gma)) /\
  (c0 + c1 <= c < c0 + c1 + c2 -> zget vec c = Some (M9.CG (1, O))) /\
  (c0 + c1 + c2 <= c < c0 + c1 + c2 + c3 -> zget vec c = Some M9.C1).
Proof.
  intros H0 H1 H2 H3 vec. subst vec.
  split; [|split; [|split; [|split]]].
  - unfold zlen. rewrite !app_length. fold (zlen (M9.zrepeat (M9.CG gmn) c0)).
    unfold M9.zrepeat. rewrite !repeat_length. lia.
  - intros H. rewrite zget_app_l by (rewrite zlen_zrepeat; lia). apply zget_zrepeat. lia.
  - intros H. rewrite zget_app_r by (rewrite zlen_zrepeat; lia). rewrite zlen_zrepeat by lia.
    rewrite zget_app_l by (rewrite zlen_zrepeat; lia). apply zget_zrepeat. lia.
  - intros H. rewrite zget_app_r by (rewrite zlen_zrepeat; lia). rewrite zlen_zrepeat by lia.
    rewrite zget_app_r by (rewrite zlen_zrepeat; lia). rewrite zlen_zrepeat by lia.
    rewrite zget_app_l by (rewrite zlen_zrepeat; lia). apply zget_zrepeat. lia.
  - intros H. rewrite zget_app_r by (rewrite zlen_zrepeat; lia). rewrite zlen_zrepeat by lia.
    rewrite zget_app_r by (rewrite zlen_zrepeat; lia). rewrite zlen_zrepeat by lia.
    rewrite zget_app_r by (rewrite zlen_zrepeat; lia). rewrite zlen_zrepeat by lia.
    apply zget_zrepeat. lia.
Qed.
