(* C01 — reader state around `read`: the open guard, and the constructor without
   meta data (shape guessed from the file size).  Definitions only.

   Reader.read:      if not self.is_open: raise IOError("Reader not open; call `open` before `read`")
   Reader.__init__ (no .meta next to the file):
       if st_size / 384 % 2 == 0:   nc = nc or 384; ns = ns or st_size / 2 / 384; fs = fs or 30000
       elif st_size / 385 % 2 == 0: nc = nc or 385; ns = ns or st_size / 2 / 385; fs = fs or 30000
                                    nsync = nsync or 1
       assert nc is not None and fs is not None ...
       self._nc, self._fs, self._ns = (int(nc), int(fs), int(ns));  self._nsync = nsync or 0
   (float true division of integers below 2^53 is exact whenever the quotient is an integer, and
   x % 2 == 0 on a non-integral quotient is false: the test is "768 | st_size" / "770 | st_size") *)
From Coq Require Import ZArith List Bool.
From IBL.C01 Require Import Model.
Import ListNotations.
Open Scope Z_scope.

Inductive outcome (T : Type) := NotOpen | Ran (r : res T).
Arguments NotOpen {T}.
Arguments Ran {T} _.

Definition reader_read {A G V : Type} (cal : A -> G -> V) (opened : bool) cbin raw nc order gain nsel csel
  : outcome (result V) :=
  if opened then Ran (read cal cbin raw nc order gain nsel csel) else NotOpen.

(* __getitem__ reaches read only for a non-tuple or a 2-tuple; other tuples return None
   whether the reader is open or not *)
Definition reader_getitem {A G V : Type} (cal : A -> G -> V) (opened : bool) cbin raw nc order gain (it : item)
  : outcome (option (result V)) :=
  match it with
  | ITuple [_; _] | ISel _ => if opened then Ran (getitem cal cbin raw nc order gain it) else NotOpen
  | ITuple _ => Ran (Ok None)
  end.

(* (nc, ns, nsync) guessed by the constructor when nc / ns / nsync are not given; None = the
   assertion fails (neither 384 nor 385 int16 columns fit the size) *)
Definition guess_shape (nbytes : Z) : option (Z * Z * Z) :=
  if nbytes mod 768 =? 0 then Some (384, nbytes / 768, 0)
  else if nbytes mod 770 =? 0 then Some (385, nbytes / 770, 1)
  else None.
