(* C01 — how Reader.__init__ turns the geometry index (C08's model of
   geometry_from_meta(return_index=True)) into raw_channel_order.  Definitions only.

     self.geometry, order = geometry_from_meta(self.meta, return_index=True, sort=sort)
     self.raw_channel_order = np.arange(self.nc)
     if self.geometry is not None:            # nidq: no geometry, identity order
         self.raw_channel_order[:order.size] = order
*)
From Coq Require Import ZArith List Bool.
From IBL.lib Require Import PyInt.
From IBL.C01 Require Import Model.
Require IBL.C08.Model.
Import ListNotations.
Open Scope Z_scope.


(* None = the assignment fails (more sites than channels: ValueError in NumPy) *)
Definition reader_order (nc : Z) (inds : option (list Z)) : option (list Z) :=
  match inds with
  | None => Some (zrange (Z.to_nat nc))
  | Some l =>
      if zlen l <=? nc then Some (l ++ arith (zlen l) 1 (Z.to_nat (nc - zlen l))) else None
  end.

(* geometry_from_meta as the reader calls it: probe generation (None: no
   neuropixel version, e.g. nidq), encoding (None: no site map in the meta, or an
   empty one), site table, NP2.4_shank key, sort flag *)
Definition reader_geometry (g : option IBL.C08.Model.gen) (e : option IBL.C08.Model.encoding) (sites : list IBL.C08.Model.site)
           (split : option Z) (sort : bool) : option (option (IBL.C08.Model.geom * list Z)) :=
  match e, sites with
  | Some enc, _ :: _ =>
      match g with
      | Some gg => match IBL.C08.Model.geometry gg enc sites split sort with
                   | Some r => Some (Some r)
                   | None => None                 (* outside C08's domain *)
                   end
      | None => None
      end
  | _, _ =>
      match g with
      | None => Some None                         (* "returning defaults": no geometry *)
      | Some gg => match IBL.C08.Model.geometry_default gg with
                   | Some r => Some (Some r)
                   | None => None
                   end
      end
  end.

(* raw_channel_order of Reader(file, sort=sort) *)
Definition reader_channel_order (nc : Z) g e sites split sort : option (list Z) :=
  match reader_geometry g e sites split sort with
  | Some (Some (_, inds)) => reader_order nc (Some inds)
  | Some None => reader_order nc None
  | None => None
  end.

(* since /repo 569e533: in the no-map branch geometry_from_meta also returns no geometry when the
   stream is a nidq one (`major_version is None or _get_type_from_meta(meta) == "nidq"`), so a
   nidq file of the 3A era (which carries a neuropixel version) keeps the identity order *)
Definition reader_geometry_t (nidq : bool) (g : option IBL.C08.Model.gen) (e : option IBL.C08.Model.encoding)
           (sites : list IBL.C08.Model.site) (split : option Z) (sort : bool)
  : option (option (IBL.C08.Model.geom * list Z)) :=
  match e, sites with
  | Some _, _ :: _ => reader_geometry g e sites split sort
  | _, _ => if nidq then Some None else reader_geometry g e sites split sort
  end.

Definition reader_channel_order_t (nc : Z) (nidq : bool) g e sites split sort : option (list Z) :=
  match reader_geometry_t nidq g e sites split sort with
  | Some (Some (_, inds)) => reader_order nc (Some inds)
  | Some None => reader_order nc None
  | None => None
  end.
