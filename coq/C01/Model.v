(* C01 — executable model of spikeglx.Reader.__getitem__ / read / read_samples
   (src/spikeglx.py) and of the part of mtscomp.Reader.__getitem__ that
   Reader.read reaches on .cbin files.  Definitions only.

   Python                                          model
   ------                                          -----
   int | slice | list/array selector               sel  (SInt | SSlice | SList)
   slice.indices(n)  (PySlice_Unpack/AdjustIndices) slice_adjust / slice_len / slice_indices
   numpy check_and_adjust_index                    norm_index
   a[s] on a 1-D array                             np_index1  (= gather a (sel_positions (len a) s))
   self.raw_channel_order[csel]                    np_index1 order csel
   self._raw[nsel, :]   (np.memmap)                row_positions None    + gather raw
   self._raw[nsel, :]   (mtscomp.Reader)           row_positions (Some chunk_bounds) + gather raw
   .astype(float32)[..., csel]; darray *= s2v[csel] last-axis gather + gain gather + cal
   Reader.read(nsel, csel, sync=False)             read
   Reader.__getitem__(item)                        getitem
   D_cal_sorted[nsel, csel]  (NumPy, reference)    np_index2 (calibrated_sorted raw order gain)

   The element types are abstract: A (a raw int16 sample), G (a volts-per-bit
   factor), V (a calibrated value), cal : A -> G -> V  (float32(x) * g in the
   real code).  The run instance (Run.v) takes A = (sample, on-disk channel),
   G = gain index, V = the triple, so that the harness can check every output
   cell of the real reader against float32(D[s, c]) * s2v[g]. *)
From Coq Require Import ZArith List Bool Lia.
From IBL.lib Require Import PyInt.
Import ListNotations.
Open Scope Z_scope.

(* ---- selectors, outcomes ------------------------------------------------ *)
Inductive sel :=
| SInt (i : Z)
| SSlice (start stop step : option Z)
| SList (l : list Z).

(* exception classes that the modelled code can raise *)
Inductive err := EIndex | EValue | ENotImpl | EInternal.

Inductive res (T : Type) := Ok (t : T) | Err (e : err).
Arguments Ok {T} _.
Arguments Err {T} _.

Definition bind {S T} (x : res S) (f : S -> res T) : res T :=
  match x with Ok s => f s | Err e => Err e end.

Definition of_option {T} (o : option T) (e : err) : res T :=
  match o with Some t => Ok t | None => Err e end.

Fixpoint mapM {S T} (f : S -> option T) (l : list S) : option (list T) :=
  match l with
  | [] => Some []
  | x :: r => match f x with
              | Some y => match mapM f r with Some r' => Some (y :: r') | None => None end
              | None => None
              end
  end.

(* ---- CPython slice arithmetic ------------------------------------------- *)
(* PySlice_AdjustIndices, one bound:
     if (v < 0) { v += n; if (v < 0) v = (step < 0) ? -1 : 0; }
     else if (v >= n) v = (step < 0) ? n - 1 : n;                      *)
Definition adj (n step v : Z) : Z :=
  if v <? 0 then (if v + n <? 0 then (if step <? 0 then -1 else 0) else v + n)
  else if n <=? v then (if step <? 0 then n - 1 else n)
  else v.

(* PySlice_Unpack defaults (None): step 1; start 0 / stop n for step > 0,
   start n-1 / stop -1 ("before the beginning") for step < 0.  None = step 0
   (ValueError: slice step cannot be zero). *)
Definition slice_adjust (n : Z) (start stop step : option Z) : option (Z * Z * Z) :=
  let st := match step with None => 1 | Some s => s end in
  if st =? 0 then None
  else
    let lo := match start with
              | None => if st <? 0 then n - 1 else 0
              | Some v => adj n st v end in
    let hi := match stop with
              | None => if st <? 0 then -1 else n
              | Some v => adj n st v end in
    Some (lo, hi, st).

(* slice length, as PySlice_AdjustIndices returns it *)
Definition slice_len (lo hi st : Z) : Z :=
  if st <? 0 then (if hi <? lo then (lo - hi - 1) / (- st) + 1 else 0)
  else (if lo <? hi then (hi - lo - 1) / st + 1 else 0).

Definition arith (lo st : Z) (count : nat) : list Z :=
  map (fun k => lo + k * st) (zrange count).

Definition slice_indices (n : Z) (start stop step : option Z) : option (list Z) :=
  match slice_adjust n start stop step with
  | None => None
  | Some (lo, hi, st) => Some (arith lo st (Z.to_nat (slice_len lo hi st)))
  end.

(* numpy integer index on an axis of size n: negative wraps once, otherwise IndexError *)
Definition norm_index (n i : Z) : option Z :=
  if (- n <=? i) && (i <? n) then Some (if i <? 0 then i + n else i) else None.

(* positions selected on an axis of size n; the flag says that the axis is
   dropped from the result (integer selector). *)
Definition sel_positions (n : Z) (s : sel) : res (bool * list Z) :=
  match s with
  | SInt i => match norm_index n i with
              | Some k => Ok (true, [k])
              | None => Err EIndex end
  | SSlice a b c => match slice_indices n a b c with
                    | Some l => Ok (false, l)
                    | None => Err EValue end
  | SList l => match mapM (norm_index n) l with
               | Some l' => Ok (false, l')
               | None => Err EIndex end
  end.

Definition zget {T} (l : list T) (p : Z) : option T :=
  if p <? 0 then None else nth_error l (Z.to_nat p).

Definition gather {T} (l : list T) (ps : list Z) : option (list T) :=
  mapM (zget l) ps.

Definition zlen {T} (l : list T) : Z := Z.of_nat (length l).

(* a[s] for a 1-D array a.  EInternal cannot happen (Proofs.np_index1_total). *)
Definition np_index1 {T} (l : list T) (s : sel) : res (bool * list T) :=
  bind (sel_positions (zlen l) s) (fun '(d, ps) =>
  bind (of_option (gather l ps) EInternal) (fun xs => Ok (d, xs))).

(* the integer / integer-array result of raw_channel_order[csel], used again as an index *)
Definition as_sel (x : bool * list Z) : sel :=
  match x with
  | (true, [c]) => SInt c
  | (_, cs) => SList cs
  end.

(* ---- mtscomp.Reader.__getitem__((nsel, slice(None))) --------------------- *)
Definition clip (x a b : Z) : Z := Z.max a (Z.min b x).

(* _validate_index *)
Definition validate_index (n : Z) (i : option Z) (dflt : Z) : Z :=
  match i with
  | None => dflt
  | Some i => clip (if i <? 0 then i + n else i) 0 n
  end.

(* bisect.bisect_right on a sorted list = number of leading elements <= x *)
Fixpoint bisect_prefix (l : list Z) (x : Z) : Z :=
  match l with
  | [] => 0
  | b :: t => if b <=? x then 1 + bisect_prefix t x else 0
  end.
Definition bisect_right (l : list Z) (x lo : Z) : Z :=
  lo + bisect_prefix (skipn (Z.to_nat lo) l) x.

(* _chunks_for_interval (its assertions hold for sorted bounds 0 = b0 < .. < bk = n;
   they are not modelled) *)
Definition chunks_for_interval (bounds : list Z) (n i0 i1 : Z) : Z * Z :=
  let nchunks := zlen bounds - 1 in
  let i0 := clip i0 0 (n - 1) in
  let i1 := clip i1 i0 (n - 1) in
  let first := clip (bisect_right bounds i0 0 - 1) 0 (nchunks - 1) in
  let last := clip (bisect_right bounds i1 first - 1) 0 (nchunks - 1) in
  (first, last).

Definition bound (bounds : list Z) (k : Z) : Z :=
  match zget bounds k with Some b => b | None => 0 end.

(* chunk k of the compressed file holds rows [b_k, b_{k+1}) of the original
   recording (lossless compression is property C02): the decompressed chunk is
   represented by the positions of its rows in the original. *)
Definition chunk_positions (bounds : list Z) (k : Z) : list Z :=
  arith (bound bounds k) 1 (Z.to_nat (bound bounds (k + 1) - bound bounds k)).

(* self[slice]:
     i0 = validate(start, 0); i1 = validate(stop, n); if i1 <= i0: return empty
     arr = concatenate(chunks first..last); a = i0 - b_first; b = i1 - b_first
     out = arr[a:b:step]                                                          *)
Definition mts_slice (bounds : list Z) (n : Z) (start stop step : option Z) : res (list Z) :=
  let i0 := validate_index n start 0 in
  let i1 := validate_index n stop n in
  if i1 <=? i0 then Ok []
  else
    let '(first, last) := chunks_for_interval bounds n i0 i1 in
    let arr := flat_map (chunk_positions bounds)
                 (arith first 1 (Z.to_nat (last - first + 1))) in
    let a := i0 - bound bounds first in
    let b := i1 - bound bounds first in
    bind (np_index1 arr (SSlice (Some a) (Some b) step)) (fun '(_, out) => Ok out).

(* self[(nsel, slice(None))]:
     np.isscalar(nsel) -> self[nsel][:]   with  self[int]: negative wraps by any
                          multiple of n, IndexError above n-1, then self[i:i+1][0]
     slice            -> self[nsel][:, :]
     list / ndarray   -> NotImplementedError                                        *)
Definition mts_positions (bounds : list Z) (n : Z) (s : sel) : res (bool * list Z) :=
  match s with
  | SInt i =>
      let i' := if i <? 0 then i + n * (- (i / n)) else i in
      if (0 <=? i') && (i' <? n) then
        bind (mts_slice bounds n (Some i') (Some (i' + 1)) None) (fun out =>
        match out with
        | p :: _ => Ok (true, [p])
        | [] => Err EIndex            (* out[0] on an empty array *)
        end)
      else Err EIndex
  | SSlice a b c => bind (mts_slice bounds n a b c) (fun out => Ok (false, out))
  | SList _ => Err ENotImpl
  end.

(* self._raw[nsel, :] as positions of rows of the recording *)
Definition row_positions (cbin : option (list Z)) (ns : Z) (nsel : sel) : res (bool * list Z) :=
  match cbin with
  | None => sel_positions ns nsel
  | Some bounds => mts_positions bounds ns nsel
  end.

(* ---- the result of a 2-D read --------------------------------------------- *)
(* (row axis dropped, column axis dropped, number of columns, cells by row);
   NumPy shape: [#rows unless dropped] ++ [#columns unless dropped]. *)
Definition result (V : Type) : Type := (bool * bool * Z * list (list V))%type.

Section Reader.
  Context {A G V : Type}.
  Variable cal : A -> G -> V.

  Fixpoint zip_cal (xs : list A) (gs : list G) : list V :=
    match xs, gs with
    | x :: xs', g :: gs' => cal x g :: zip_cal xs' gs'
    | _, _ => []
    end.

  (* Reader.read(nsel, csel, sync=False):
       csel = self.raw_channel_order[csel]
       darray = self._raw[nsel, :].astype(np.float32, copy=True)[..., csel]
       darray *= self.channel_conversion_sample2v[self.type][csel]            *)
  Definition read (cbin : option (list Z)) (raw : list (list A)) (nc : Z)
             (order : list Z) (gain : list G) (nsel csel : sel) : res (result V) :=
    bind (np_index1 order csel) (fun oc =>
    let cd := fst oc in
    let s' := as_sel oc in
    bind (row_positions cbin (zlen raw) nsel) (fun '(rd, rps) =>
    bind (of_option (gather raw rps) EInternal) (fun rows =>
    bind (sel_positions nc s') (fun '(_, cps) =>
    bind (of_option (mapM (fun row => gather row cps) rows) EInternal) (fun cells =>
    bind (np_index1 gain s') (fun '(_, gs) =>
    Ok (rd, cd, zlen cps, map (fun row => zip_cal row gs) cells))))))).

  (* Reader.__getitem__ (after fix 76db94c):
       if not isinstance(item, tuple): return self.read(nsel=item, sync=False)
       elif len(item) == 2: return self.read(nsel=item[0], csel=item[1], sync=False)
       (tuples of another length fall off the end: returns None)               *)
  Inductive item := ISel (s : sel) | ITuple (l : list sel).

  Definition getitem cbin raw nc order gain (it : item) : res (option (result V)) :=
    let rd n c := bind (read cbin raw nc order gain n c) (fun r => Ok (Some r)) in
    match it with
    | ISel s => rd s (SSlice None None None)
    | ITuple [a; b] => rd a b
    | ITuple _ => Ok None
    end.

  (* Reader.read_samples(first, last, channels)  (data part of the returned pair) *)
  Definition read_samples cbin raw nc order gain (first last : option Z) (channels : option sel) :=
    read cbin raw nc order gain (SSlice first last None)
         (match channels with None => SSlice None None None | Some c => c end).

  (* ---- reference: NumPy indexing of the whole calibrated, sorted array ------ *)
  Definition cal_cell (gain : list G) (row : list A) (c : Z) : option V :=
    match zget row c, zget gain c with
    | Some a, Some g => Some (cal a g)
    | _, _ => None
    end.

  (* D.astype(float32)[:, order] * s2v[order] *)
  Definition calibrated_sorted (raw : list (list A)) (order : list Z) (gain : list G)
    : option (list (list V)) :=
    mapM (fun row => mapM (cal_cell gain row) order) raw.
End Reader.

Definition is_fancy (s : sel) : bool := match s with SList _ => true | _ => false end.

(* M[nsel, csel] for a 2-D array M of shape (ns, nc), NumPy semantics:
   integer and slice selectors are validated first, in axis order, then index
   lists; with at most one index list the result is the outer selection
   (rows x columns); with two index lists they are paired (broadcast when one
   has a single entry; otherwise "shape mismatch" IndexError). *)
Definition np_index2 {V} (M : list (list V)) (ns nc : Z) (nsel csel : sel) : res (result V) :=
  let r := sel_positions ns nsel in
  let c := sel_positions nc csel in
  let '(e1, e2) := if is_fancy nsel && negb (is_fancy csel) then (c, r) else (r, c) in
  match e1, e2 with
  | Err e, _ => Err e
  | _, Err e => Err e
  | _, _ =>
    bind r (fun '(rd, rps) =>
    bind c (fun '(cd, cps) =>
    bind (of_option (gather M rps) EInternal) (fun rows =>
    if is_fancy nsel && is_fancy csel then
      (* pairwise *)
      let n1 := length rps in let n2 := length cps in
      let pair_up (rws : list (list V)) (cs : list Z) :=
        bind (of_option (mapM (fun '(row, cp) => zget row cp) (combine rws cs)) EInternal)
             (fun v => Ok (false, true, 1, map (fun x => [x]) v)) in
      if Nat.eqb n1 n2 then pair_up rows cps
      else if Nat.eqb n1 1 then pair_up (repeat (hd [] rows) n2) cps
      else if Nat.eqb n2 1 then pair_up rows (repeat (hd 0 cps) n1)
      else Err EIndex
    else
      bind (of_option (mapM (fun row => gather row cps) rows) EInternal) (fun cells =>
      Ok (rd, cd, zlen cps, cells)))))
  end.

(* rectangular (ns x nc) *)
Definition rect {T} (M : list (list T)) (ns nc : Z) : Prop :=
  zlen M = ns /\ Forall (fun row => zlen row = nc) M.

(* raw_channel_order: nc entries, each a valid on-disk column *)
Definition order_ok (order : list Z) (nc : Z) : Prop :=
  zlen order = nc /\ Forall (fun c => 0 <= c < nc) order.
