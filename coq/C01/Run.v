(* C01 — flat-integer interface of the model for the correspondence check.
   input : api :: cbin :: nb :: bounds(nb) ++ ns :: nc :: order(nc) ++ items
             api 0: read(nsel, csel)          items = enc(nsel) ++ enc(csel)
             api 1: reader[s]                 items = enc(s)
             api 2: reader[(s1, .., sk)]      items = k :: enc(s1) ++ .. ++ enc(sk)
           enc(SInt i) = [0; i]; enc(SSlice a b c) = 1 :: opt a ++ opt b ++ opt c
           (opt None = [0;0], opt (Some v) = [1;v]); enc(SList l) = 2 :: len :: l
   The recording is symbolic: raw[i][c] = (i, c), gain[c] = c, cal (i,c) g = (i,c,g).
   output: [1; e]  exception (1 IndexError, 2 ValueError, 3 NotImplementedError, 9 internal)
           [2]     returns None
   api 3 (channel order of Reader(file, sort=srt), through C08's geometry model):
     input  [3; gen; enc; srt; split; nc; n; shank_0; a_0; b_0; flag_0; ...]
            gen -1 none | 0 NP1 | 1 NP2.1 | 2 NP2.4 | 3 NPultra; enc 0 shank map | 1 geometry map
            | 2 no map; split -1 or the NP2.4_shank value
     output 1 :: raw_channel_order   or [0] (outside the model's domain)
   api 6: as api 3 with the stream type first: [6; nidq(0|1); gen; enc; srt; split; nc; n; sites..]
   api 5 (constructor without meta data): input [5; nbytes] -> [1; nc; ns; nsync] or [0]
   api 10 / 11 / 12: as 0 / 1 / 2 on a reader that is NOT open: [1; 4] (IOError) wherever the call
     reaches read
   api 4 (volts-per-bit vector of the reader, through C09's model of the meta file):
     input  4 :: code points of the .meta text
     output 1 :: rm :: rs :: maxint :: n :: conv_0 .. (range = rm / 10^rs; conv: CG (m,s) -> [0;m;s]
            = range/maxint/(m/10^s), C1 -> [1;0;0] = 1), on-disk channel order;  or [0]
           0 :: row_dropped :: col_dropped :: nrows :: ncols :: cells (sample, disk channel,
           gain index for each cell, row-major). *)
From Coq Require Import ZArith List Bool.
From IBL.lib Require Import PyInt RunLib.
From IBL.C01 Require Import Model Geometry Gains State.
Require IBL.C08.Run IBL.C09.Run.
Import ListNotations.
Open Scope Z_scope.

Definition dec_opt (l : list Z) : option Z * list Z :=
  match l with
  | f :: v :: r => ((if f =? 0 then None else Some v), r)
  | _ => (None, [])
  end.

Definition dec_sel (l : list Z) : option (sel * list Z) :=
  match l with
  | 0 :: i :: r => Some (SInt i, r)
  | 1 :: r => let '(a, r1) := dec_opt r in
              let '(b, r2) := dec_opt r1 in
              let '(c, r3) := dec_opt r2 in Some (SSlice a b c, r3)
  | 2 :: n :: r => let '(xs, r') := take_z n r in Some (SList xs, r')
  | _ => None
  end.

Fixpoint dec_sels (k : nat) (l : list Z) : option (list sel) :=
  match k with
  | O => Some []
  | S k' => match dec_sel l with
            | Some (s, r) => match dec_sels k' r with Some ss => Some (s :: ss) | None => None end
            | None => None
            end
  end.

Definition sym_raw (ns nc : Z) : list (list (Z * Z)) :=
  map (fun i => map (fun c => (i, c)) (zrange (Z.to_nat nc))) (zrange (Z.to_nat ns)).

Definition sym_cal (a : Z * Z) (g : Z) : Z * Z * Z := (fst a, snd a, g).

Definition enc_err (e : err) : Z :=
  match e with EIndex => 1 | EValue => 2 | ENotImpl => 3 | EInternal => 9 end.

Definition enc_cell (v : Z * Z * Z) : list Z := let '(s, c, g) := v in [s; c; g].

Definition enc_result (r : result (Z * Z * Z)) : list Z :=
  let '(rd, cd, ncols, cells) := r in
  0 :: enc_bool rd :: enc_bool cd :: Z.of_nat (length cells) :: ncols
    :: flat_map (flat_map enc_cell) cells.

Definition run_order_t (inp : list Z) : list Z :=
  match inp with
  | nidq :: g :: e :: srt :: split :: nc :: n :: rest =>
      let sites := IBL.C08.Run.dec_sites (Z.to_nat n) rest in
      match reader_channel_order_t nc (nidq =? 1)
              (if g <? 0 then None else Some (IBL.C08.Run.dec_gen g))
              (if e =? 0 then Some IBL.C08.Model.ShankMap else if e =? 1 then Some IBL.C08.Model.GeomMap else None)
              sites (if split <? 0 then None else Some split) (srt =? 1) with
      | Some o => 1 :: o
      | None => [0]
      end
  | _ => [-999]
  end.

Definition run_order (inp : list Z) : list Z :=
  match inp with
  | g :: e :: srt :: split :: nc :: n :: rest =>
      let sites := IBL.C08.Run.dec_sites (Z.to_nat n) rest in
      match reader_channel_order nc
              (if g <? 0 then None else Some (IBL.C08.Run.dec_gen g))
              (if e =? 0 then Some IBL.C08.Model.ShankMap else if e =? 1 then Some IBL.C08.Model.GeomMap else None)
              sites (if split <? 0 then None else Some split) (srt =? 1) with
      | Some o => 1 :: o
      | None => [0]
      end
  | _ => [-999]
  end.

Definition run_gains (text : list Z) : list Z :=
  match reader_gains text with
  | Some (r, mi, l) => 1 :: IBL.C09.Run.enc_dec r ++ mi :: enc_list IBL.C09.Run.enc_conv l
  | None => [0]
  end.

Definition run (inp : list Z) : list Z :=
  match inp with
  | [5; nbytes] => match guess_shape nbytes with
                   | Some (nc, ns, nsync) => [1; nc; ns; nsync]
                   | None => [0]
                   end
  | 3 :: r => run_order r
  | 6 :: r => run_order_t r
  | 4 :: r => run_gains r
  | api0 :: cb :: nb :: r0 =>
      let opened := api0 <? 10 in
      let api := if opened then api0 else api0 - 10 in
      let '(bounds, r1) := take_z nb r0 in
      match r1 with
      | ns :: nc :: r2 =>
          let '(order, r3) := take_z nc r2 in
          let cbin := if cb =? 0 then None else Some bounds in
          let raw := sym_raw ns nc in
          let gain := zrange (Z.to_nat nc) in
          if api =? 0 then
            match dec_sels 2 r3 with
            | Some [a; b] =>
                match reader_read sym_cal opened cbin raw nc order gain a b with
                | Ran (Ok r) => enc_result r
                | Ran (Err e) => [1; enc_err e]
                | NotOpen => [1; 4]
                end
            | _ => [-998]
            end
          else
            let it := if api =? 1 then
                        match dec_sel r3 with Some (s, _) => Some (ISel s) | None => None end
                      else
                        match r3 with
                        | k :: r4 => match dec_sels (Z.to_nat k) r4 with
                                     | Some ss => Some (ITuple ss) | None => None end
                        | _ => None
                        end in
            match it with
            | Some it =>
                match reader_getitem sym_cal opened cbin raw nc order gain it with
                | Ran (Ok (Some r)) => enc_result r
                | Ran (Ok None) => [2]
                | Ran (Err e) => [1; enc_err e]
                | NotOpen => [1; 4]
                end
            | None => [-997]
            end
      | _ => [-999]
      end
  | _ => [-999]
  end.

Definition mismatches := mismatches_of run.
