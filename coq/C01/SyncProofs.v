(* C01 — lifting the exhaustive sync sweep to a forall over int16. *)
From Coq Require Import ZArith List Bool Lia.
From IBL.lib Require Import RunLib.
From IBL.C03 Require Import F32 RtLib.
From IBL.C01 Require Import SyncSweep.
Import ListNotations.
Open Scope Z_scope.

Lemma zlist_eqb_eq a : forall b, zlist_eqb a b = true -> a = b.
Proof.
  induction a as [|x a IH]; intros [|y b] H; cbn in H; try discriminate; [reflexivity|].
  apply andb_true_iff in H. destruct H as [H1 H2]. apply Z.eqb_eq in H1. subst.
  f_equal. now apply IH.
Qed.

Lemma sync_unscaled_all r : -32768 <= r <= 32767 ->
  f32_parts (sample2v gain_one r) = f32_parts (z32 r) /\ trunc32 (sample2v gain_one r) = r.
Proof.
  intros Hr. pose proof chk as H. unfold sync_check in H. rewrite forallb_forall in H.
  specialize (H r (in_all_i16 r Hr)). unfold sync_ok in H.
  apply andb_true_iff in H. destruct H as [H1 H2].
  split; [now apply zlist_eqb_eq|now apply Z.eqb_eq].
Qed.
