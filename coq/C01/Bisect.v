(* C01 — CPython's bisect.bisect_right (the binary search mtscomp calls) equals the
   model's `bisect_right` (number of leading elements <= x, Model.v) on sorted lists.
   Discharges the assumption "bisect_right on the sorted chunk bounds = count of
   leading bounds <= x" of the cbin theorems. *)
From Coq Require Import ZArith List Bool Lia.
From IBL.lib Require Import PyInt.
From IBL.C01 Require Import Model Proofs.
Import ListNotations.
Open Scope Z_scope.

(* Lib/bisect.py:
     def bisect_right(a, x, lo=0, hi=None):
         if hi is None: hi = len(a)
         while lo < hi:
             mid = (lo + hi) // 2
             if x < a[mid]: hi = mid
             else: lo = mid + 1
         return lo                                                   *)
Fixpoint bsearch (fuel : nat) (a : list Z) (x lo hi : Z) : Z :=
  match fuel with
  | O => lo
  | S f =>
      if lo <? hi then
        let mid := (lo + hi) / 2 in
        match zget a mid with
        | Some v => if x <? v then bsearch f a x lo mid else bsearch f a x (mid + 1) hi
        | None => lo
        end
      else lo
  end.
(* fuel: the interval shrinks at every iteration, len(a) iterations always suffice *)
Definition bisect_right_bin (a : list Z) (x lo : Z) : Z := bsearch (length a) a x lo (zlen a).

Definition sorted (a : list Z) : Prop :=
  forall i j vi vj, i <= j -> zget a i = Some vi -> zget a j = Some vj -> vi <= vj.

Definition is_split (a : list Z) (x r : Z) : Prop :=
  (forall i v, 0 <= i < r -> zget a i = Some v -> v <= x) /\
  (forall i v, r <= i -> zget a i = Some v -> x < v).

Lemma bsearch_spec fuel : forall a x lo hi, sorted a -> 0 <= lo <= hi -> hi <= zlen a ->
  (forall i v, 0 <= i < lo -> zget a i = Some v -> v <= x) ->
  (forall i v, hi <= i -> zget a i = Some v -> x < v) ->
  (Z.to_nat (hi - lo) <= fuel)%nat ->
  lo <= bsearch fuel a x lo hi <= hi /\ is_split a x (bsearch fuel a x lo hi).
Proof.
  induction fuel as [|f IH]; intros a x lo hi Hs Hlh Hlen Hlo Hhi Hf; cbn [bsearch].
  - assert (lo = hi) by lia. subst hi. split; [lia|]. split; assumption.
  - destruct (lo <? hi) eqn:E.
    + apply Z.ltb_lt in E. set (mid := (lo + hi) / 2).
      assert (Hmid : lo <= mid < hi).
      { subst mid. split; [apply Z.div_le_lower_bound; lia|apply Z.div_lt_upper_bound; lia]. }
      destruct (zget_in_range a mid) as [v Hv]; [lia|]. rewrite Hv.
      destruct (x <? v) eqn:Ex.
      * apply Z.ltb_lt in Ex.
        destruct (IH a x lo mid Hs ltac:(lia) ltac:(lia) Hlo) as [H1 H2].
        { intros i w Hi Hw. pose proof (Hs mid i v w ltac:(lia) Hv Hw). lia. }
        { lia. }
        split; [lia|exact H2].
      * apply Z.ltb_ge in Ex.
        destruct (IH a x (mid + 1) hi Hs ltac:(lia) ltac:(lia)) as [H1 H2].
        { intros i w Hi Hw. pose proof (Hs i mid w v ltac:(lia) Hw Hv). lia. }
        { exact Hhi. }
        { lia. }
        split; [lia|exact H2].
    + apply Z.ltb_ge in E. assert (lo = hi) by lia. subst hi. split; [lia|]. split; assumption.
Qed.

Lemma split_unique a x r1 r2 : is_split a x r1 -> is_split a x r2 ->
  0 <= r1 <= zlen a -> 0 <= r2 <= zlen a -> r1 = r2.
Proof.
  intros [A1 B1] [A2 B2] H1 H2.
  destruct (Z.lt_trichotomy r1 r2) as [L|[E|L]]; [|exact E|]; exfalso.
  - destruct (zget_in_range a r1) as [v Hv]; [lia|].
    pose proof (A2 r1 v ltac:(lia) Hv). pose proof (B1 r1 v ltac:(lia) Hv). lia.
  - destruct (zget_in_range a r2) as [v Hv]; [lia|].
    pose proof (A1 r2 v ltac:(lia) Hv). pose proof (B2 r2 v ltac:(lia) Hv). lia.
Qed.

Lemma prefix_split a x : sorted a -> is_split a x (bisect_prefix a x).
Proof.
  intros Hs. pose proof (bisect_prefix_bounds a x) as Hb. split.
  - intros i v Hi Hv. destruct (bisect_prefix_le a x i Hi) as [b [Hb1 Hb2]]. congruence.
  - intros i v Hi Hv. pose proof (zget_Some_range a i v Hv) as Hr.
    destruct (zget_in_range a (bisect_prefix a x)) as [w Hw]; [lia|].
    pose proof (bisect_prefix_gt a x w Hw). pose proof (Hs _ _ _ _ Hi Hw Hv). lia.
Qed.

Lemma sorted_skipn a lo : 0 <= lo -> sorted a -> sorted (skipn (Z.to_nat lo) a).
Proof.
  intros Hlo Hs i j vi vj Hij Hi Hj.
  pose proof (zget_Some_range _ _ _ Hi) as Ri. pose proof (zget_Some_range _ _ _ Hj) as Rj.
  rewrite zget_skipn in Hi, Hj by lia. exact (Hs (lo + i) (lo + j) vi vj ltac:(lia) Hi Hj).
Qed.

(* the binary search and the model agree *)
Lemma bisect_bin_eq a x lo : sorted a -> 0 <= lo <= zlen a ->
  (forall i v, 0 <= i < lo -> zget a i = Some v -> v <= x) ->
  bisect_right_bin a x lo = bisect_right a x lo.
Proof.
  intros Hs Hlo Hpre. unfold bisect_right_bin.
  destruct (bsearch_spec (length a) a x lo (zlen a) Hs ltac:(lia) ltac:(lia) Hpre) as [Hr Hsp].
  { intros i v Hi Hv. pose proof (zget_Some_range a i v Hv). lia. }
  { unfold zlen. lia. }
  apply (split_unique a x); [exact Hsp| |lia|].
  - unfold bisect_right. set (t := skipn (Z.to_nat lo) a).
    pose proof (prefix_split t x (sorted_skipn a lo ltac:(lia) Hs)) as [A B].
    pose proof (bisect_prefix_bounds t x) as Hb. split.
    + intros i v Hi Hv. destruct (Z_lt_ge_dec i lo) as [L|G]; [exact (Hpre i v ltac:(lia) Hv)|].
      apply (A (i - lo) v); [lia|]. subst t. rewrite zget_skipn by lia.
      replace (lo + (i - lo)) with i by lia. exact Hv.
    + intros i v Hi Hv. apply (B (i - lo) v); [lia|]. subst t. rewrite zget_skipn by lia.
      replace (lo + (i - lo)) with i by lia. exact Hv.
  - unfold bisect_right. pose proof (bisect_prefix_bounds (skipn (Z.to_nat lo) a) x) as Hb.
    unfold zlen in *. rewrite skipn_length in Hb. lia.
Qed.

(* ---- the two calls mtscomp makes ---- *)
Lemma bounds_chain bounds n : bounds_ok bounds n ->
  forall k i, 0 <= i -> i + Z.of_nat k < zlen bounds -> bound bounds i <= bound bounds (i + Z.of_nat k).
Proof.
  intros [_ [_ [_ Hmono]]] k. induction k as [|k IH]; intros i Hi Hk.
  - replace (i + Z.of_nat 0) with i by lia. lia.
  - pose proof (IH i Hi ltac:(lia)). pose proof (Hmono (i + Z.of_nat k) ltac:(lia) ltac:(lia)).
    replace (i + Z.of_nat (S k)) with (i + Z.of_nat k + 1) by lia. lia.
Qed.

Lemma bounds_sorted bounds n : bounds_ok bounds n -> sorted bounds.
Proof.
  intros Hok i j vi vj Hij Hi Hj.
  pose proof (zget_Some_range _ _ _ Hi) as Ri. pose proof (zget_Some_range _ _ _ Hj) as Rj.
  pose proof (bounds_chain bounds n Hok (Z.to_nat (j - i)) i ltac:(lia) ltac:(lia)) as H.
  replace (i + Z.of_nat (Z.to_nat (j - i))) with j in H by lia.
  rewrite (bound_zget _ _ _ Hi), (bound_zget _ _ _ Hj) in H. exact H.
Qed.

(* _chunks_for_interval with the real binary search *)
Definition chunks_for_interval_bin (bounds : list Z) (n i0 i1 : Z) : Z * Z :=
  let nchunks := zlen bounds - 1 in
  let i0 := clip i0 0 (n - 1) in
  let i1 := clip i1 i0 (n - 1) in
  let first := clip (bisect_right_bin bounds i0 0 - 1) 0 (nchunks - 1) in
  let last := clip (bisect_right_bin bounds i1 first - 1) 0 (nchunks - 1) in
  (first, last).

Lemma chunks_bin_eq bounds n i0 i1 : bounds_ok bounds n -> 0 <= i0 < i1 -> i1 <= n ->
  chunks_for_interval_bin bounds n i0 i1 = chunks_for_interval bounds n i0 i1.
Proof.
  intros Hok Hi Hn. pose proof (bounds_sorted bounds n Hok) as Hs.
  pose proof Hok as [Hlen _].
  unfold chunks_for_interval_bin, chunks_for_interval. cbv zeta.
  set (i0c := clip i0 0 (n - 1)). set (i1c := clip i1 i0c (n - 1)).
  rewrite (bisect_bin_eq bounds i0c 0 Hs ltac:(lia)) by (intros; lia).
  set (f := clip (bisect_right bounds i0c 0 - 1) 0 (zlen bounds - 1 - 1)).
  assert (Hf : 0 <= f <= zlen bounds) by (subst f; unfold clip; lia).
  assert (E : chunks_for_interval bounds n i0 i1 =
              (f, clip (bisect_right bounds i1c f - 1) 0 (zlen bounds - 1 - 1))) by reflexivity.
  destruct (chunks_facts bounds n i0 i1 _ _ Hok Hi Hn E) as [Hfl [Hl [Hb _]]].
  rewrite (bisect_bin_eq bounds i1c f Hs Hf); [reflexivity|].
  intros i v Hi' Hv.
  destruct (zget_in_range bounds f) as [w Hw]; [lia|].
  pose proof (Hs i f v w ltac:(lia) Hv Hw). rewrite (bound_zget _ _ _ Hw) in Hb.
  subst i1c i0c. unfold clip. lia.
Qed.
