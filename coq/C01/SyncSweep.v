(* C01 — exhaustive kernel evaluation over all 65 536 int16 values of the sync
   channel path of Reader.read:  float32(x) * 1.0f.  Own module (it is the only
   expensive file; coqchk takes it as given, coqc checks it in the build). *)
From Coq Require Import ZArith List Bool.
From IBL.lib Require Import RunLib.
From IBL.C03 Require Import F32.
Open Scope Z_scope.

(* same class / sign / mantissa / exponent as float32(x), and the C cast back is x *)
Definition sync_ok (r : Z) : bool :=
  zlist_eqb (f32_parts (sample2v gain_one r)) (f32_parts (z32 r)) &&
  (trunc32 (sample2v gain_one r) =? r).
Definition sync_check : bool := forallb sync_ok all_i16.

Lemma chk : sync_check = true.
Proof. vm_cast_no_check (eq_refl true). Qed.
