(* C01 — lemmas. *)
From Coq Require Import ZArith List Bool Lia.
From IBL.lib Require Import PyInt.
From IBL.C01 Require Import Model.
Import ListNotations.
Open Scope Z_scope.

(* ---------------------------------------------------------------- mapM *)
Lemma mapM_length {S T} (f : S -> option T) l l' : mapM f l = Some l' -> length l' = length l.
Proof.
  revert l'. induction l as [|x r IH]; intros l' H; cbn in H.
  - inversion H. reflexivity.
  - destruct (f x); [|discriminate]. destruct (mapM f r) eqn:E; [|discriminate].
    inversion H. cbn. f_equal. apply IH. reflexivity.
Qed.

Lemma mapM_Forall {S T} (f : S -> option T) (P : T -> Prop) l l' :
  (forall x y, f x = Some y -> P y) -> mapM f l = Some l' -> Forall P l'.
Proof.
  intros Hf. revert l'. induction l as [|x r IH]; intros l' H; cbn in H.
  - inversion H. constructor.
  - destruct (f x) eqn:Ex; [|discriminate]. destruct (mapM f r) eqn:E; [|discriminate].
    inversion H. constructor; eauto.
Qed.

Lemma mapM_total {S T} (f : S -> option T) l :
  Forall (fun x => exists y, f x = Some y) l -> exists l', mapM f l = Some l'.
Proof.
  induction 1 as [|x r [y Hy] _ [r' Hr']]; cbn.
  - eexists; reflexivity.
  - rewrite Hy, Hr'. eexists; reflexivity.
Qed.

Lemma mapM_ext {S T} (f g : S -> option T) l :
  Forall (fun x => f x = g x) l -> mapM f l = mapM g l.
Proof. induction 1 as [|x r Hx _ IH]; cbn; [reflexivity|]. now rewrite Hx, IH. Qed.

(* ---------------------------------------------------------------- slices *)
Lemma arith_Forall (P : Z -> Prop) lo st count :
  (forall k, 0 <= k < Z.of_nat count -> P (lo + k * st)) -> Forall P (arith lo st count).
Proof.
  intros H. unfold arith. apply Forall_forall. intros x Hx.
  apply in_map_iff in Hx. destruct Hx as [k [<- Hk]]. apply in_zrange in Hk. auto.
Qed.

Lemma arith_length lo st count : length (arith lo st count) = count.
Proof. unfold arith. now rewrite map_length, zrange_length. Qed.

Lemma adj_range_pos n st v : 0 <= n -> 0 < st -> 0 <= adj n st v <= n.
Proof.
  intros Hn Hs. unfold adj.
  repeat match goal with |- context[if ?c then _ else _] => destruct c eqn:? end; lia.
Qed.

Lemma adj_range_neg n st v : 0 <= n -> st < 0 -> -1 <= adj n st v <= n - 1.
Proof.
  intros Hn Hs. unfold adj.
  repeat match goal with |- context[if ?c then _ else _] => destruct c eqn:? end; lia.
Qed.

Lemma slice_pos_in_range lo hi st k :
  0 < st -> lo < hi -> 0 <= k < (hi - lo - 1) / st + 1 -> lo <= lo + k * st < hi.
Proof.
  intros Hs Hl Hk.
  pose proof (Z.mul_div_le (hi - lo - 1) st Hs).
  assert (k * st <= (hi - lo - 1) / st * st) by nia. nia.
Qed.

Lemma slice_neg_in_range lo hi st k :
  st < 0 -> hi < lo -> 0 <= k < (lo - hi - 1) / (- st) + 1 -> hi < lo + k * st <= lo.
Proof.
  intros Hs Hl Hk.
  pose proof (Z.mul_div_le (lo - hi - 1) (- st) ltac:(lia)).
  assert (k * (- st) <= (lo - hi - 1) / (- st) * (- st)) by nia. nia.
Qed.

Lemma slice_indices_range n a b c l : 0 <= n ->
  slice_indices n a b c = Some l -> Forall (fun p => 0 <= p < n) l.
Proof.
  intros Hn H. unfold slice_indices, slice_adjust in H.
  set (st := match c with Some s => s | None => 1 end) in *.
  destruct (st =? 0) eqn:Est; [discriminate|]. apply Z.eqb_neq in Est.
  inversion H; subst l; clear H.
  apply arith_Forall. intros k Hk. unfold slice_len in Hk.
  destruct (st <? 0) eqn:Eneg.
  - apply Z.ltb_lt in Eneg.
    match type of Hk with context[if ?x <? ?y then _ else _] => destruct (x <? y) eqn:El end;
      [|cbn in Hk; lia]. apply Z.ltb_lt in El.
    match type of El with ?hi < ?lo => set (HI := hi) in *; set (LO := lo) in * end.
    assert (-1 <= HI) by (subst HI; destruct b; [apply adj_range_neg|]; lia).
    assert (LO <= n - 1) by (subst LO; destruct a; [apply adj_range_neg|]; lia).
    rewrite Z2Nat.id in Hk by (pose proof (Z.div_pos (LO - HI - 1) (- st)); lia).
    pose proof (slice_neg_in_range LO HI st k Eneg El Hk). lia.
  - apply Z.ltb_ge in Eneg. assert (0 < st) by lia.
    match type of Hk with context[if ?x <? ?y then _ else _] => destruct (x <? y) eqn:El end;
      [|cbn in Hk; lia]. apply Z.ltb_lt in El.
    match type of El with ?lo < ?hi => set (HI := hi) in *; set (LO := lo) in * end.
    assert (HI <= n) by (subst HI; destruct b; [apply adj_range_pos|]; lia).
    assert (0 <= LO) by (subst LO; destruct a; [apply adj_range_pos|]; lia).
    rewrite Z2Nat.id in Hk by (pose proof (Z.div_pos (HI - LO - 1) st); lia).
    pose proof (slice_pos_in_range LO HI st k H El Hk). lia.
Qed.

Lemma norm_index_range n i k : norm_index n i = Some k -> 0 <= k < n.
Proof.
  unfold norm_index. destruct ((- n <=? i) && (i <? n)) eqn:E; [|discriminate].
  apply andb_true_iff in E. destruct E as [E1 E2]. apply Z.leb_le in E1. apply Z.ltb_lt in E2.
  intros H. inversion H. destruct (i <? 0) eqn:E3; [apply Z.ltb_lt in E3|apply Z.ltb_ge in E3]; lia.
Qed.

Lemma sel_positions_range n s d ps : 0 <= n ->
  sel_positions n s = Ok (d, ps) -> Forall (fun p => 0 <= p < n) ps.
Proof.
  intros Hn H. destruct s as [i|a b c|l]; cbn in H.
  - destruct (norm_index n i) eqn:E; [|discriminate]. inversion H; subst.
    constructor; [|constructor]. eapply norm_index_range; eauto.
  - destruct (slice_indices n a b c) eqn:E; [|discriminate]. inversion H; subst.
    eapply slice_indices_range; eauto.
  - destruct (mapM (norm_index n) l) eqn:E; [|discriminate]. inversion H; subst.
    eapply mapM_Forall; [|exact E]. intros x y. apply norm_index_range.
Qed.

(* ---------------------------------------------------------------- gather *)
Lemma zlen_nonneg {T} (l : list T) : 0 <= zlen l.
Proof. unfold zlen. lia. Qed.

Lemma zget_in_range {T} (l : list T) p : 0 <= p < zlen l -> exists x, zget l p = Some x.
Proof.
  intros H. unfold zget. destruct (p <? 0) eqn:E; [apply Z.ltb_lt in E; lia|].
  destruct (nth_error l (Z.to_nat p)) eqn:En; [eauto|].
  apply nth_error_None in En. unfold zlen in H. lia.
Qed.

Lemma zget_Some_range {T} (l : list T) p x : zget l p = Some x -> 0 <= p < zlen l.
Proof.
  unfold zget. destruct (p <? 0) eqn:E; [discriminate|]. apply Z.ltb_ge in E.
  intros H. assert (Hn : nth_error l (Z.to_nat p) <> None) by congruence.
  apply nth_error_Some in Hn. unfold zlen. lia.
Qed.

Lemma gather_total {T} (l : list T) ps :
  Forall (fun p => 0 <= p < zlen l) ps -> exists xs, gather l ps = Some xs.
Proof.
  intros H. apply mapM_total. eapply Forall_impl; [|exact H]. intros p. apply zget_in_range.
Qed.

(* a[s] never fails internally: it is Ok, or the selector's own error *)
Lemma np_index1_total {T} (l : list T) s :
  (exists d ps xs, sel_positions (zlen l) s = Ok (d, ps) /\ gather l ps = Some xs /\
                   np_index1 l s = Ok (d, xs)) \/
  (exists e, sel_positions (zlen l) s = Err e /\ np_index1 l s = Err e).
Proof.
  unfold np_index1. destruct (sel_positions (zlen l) s) as [[d ps]|e] eqn:E.
  - left. pose proof (sel_positions_range _ _ _ _ (zlen_nonneg l) E) as Hr.
    destruct (gather_total l ps Hr) as [xs Hxs]. exists d, ps, xs. cbn. rewrite Hxs. auto.
  - right. exists e. auto.
Qed.

(* ---------------------------------------------------------------- mapM algebra *)
Lemma zget_mapM {S T} (f : S -> option T) l l' p : mapM f l = Some l' ->
  zget l' p = match zget l p with Some x => f x | None => None end.
Proof.
  unfold zget. destruct (p <? 0); [reflexivity|]. generalize (Z.to_nat p) as k. clear p.
  revert l'. induction l as [|x r IH]; intros l' k H; cbn in H.
  - inversion H. destruct k; reflexivity.
  - destruct (f x) eqn:Ex; [|discriminate]. destruct (mapM f r) eqn:E; [|discriminate].
    inversion H; subst. destruct k; cbn; [now rewrite Ex|]. now apply IH.
Qed.

Lemma gather_mapM {S T} (f : S -> option T) l l' ps : mapM f l = Some l' ->
  gather l' ps = match gather l ps with Some xs => mapM f xs | None => None end.
Proof.
  intros H. unfold gather. induction ps as [|p r IH]; cbn; [reflexivity|].
  rewrite (zget_mapM f l l' p H). destruct (zget l p) as [x|]; [|reflexivity].
  rewrite IH. destruct (mapM (zget l) r) as [xs|]; cbn.
  - reflexivity.
  - destruct (f x); reflexivity.
Qed.

Lemma mapM_compose {S T U} (f : S -> option T) (g : T -> option U) l l' : mapM f l = Some l' ->
  mapM g l' = mapM (fun x => match f x with Some y => g y | None => None end) l.
Proof.
  revert l'. induction l as [|x r IH]; intros l' H; cbn in H.
  - inversion H. reflexivity.
  - destruct (f x) eqn:Ex; [|discriminate]. destruct (mapM f r) as [r'|] eqn:E; [|discriminate].
    inversion H; subst. cbn. rewrite Ex. now rewrite (IH r' eq_refl).
Qed.

Lemma mapM_option_map {S T U} (f : S -> option T) (h : T -> U) l :
  mapM (fun x => option_map h (f x)) l = option_map (map h) (mapM f l).
Proof.
  induction l as [|x r IH]; cbn; [reflexivity|]. destruct (f x); cbn; [|reflexivity].
  rewrite IH. destruct (mapM f r); reflexivity.
Qed.

Lemma mapM_In_Some {S T} (f : S -> option T) l l' x : mapM f l = Some l' -> In x l ->
  exists y, f x = Some y.
Proof.
  revert l'. induction l as [|a r IH]; intros l' H Hin; [destruct Hin|]. cbn in H.
  destruct (f a) eqn:Ea; [|discriminate]. destruct (mapM f r) eqn:E; [|discriminate].
  destruct Hin as [<-|Hin]; [eauto|]. eapply IH; eauto.
Qed.

Lemma zget_In {T} (l : list T) p x : zget l p = Some x -> In x l.
Proof. unfold zget. destruct (p <? 0); [discriminate|]. apply nth_error_In. Qed.

Lemma gather_In {T} (l : list T) ps xs : gather l ps = Some xs -> Forall (fun x => In x l) xs.
Proof. intros H. eapply mapM_Forall; [|exact H]. intros p x. apply zget_In. Qed.

Lemma mapM_id_Some {S} (f : S -> option S) l : Forall (fun x => f x = Some x) l -> mapM f l = Some l.
Proof. induction 1 as [|x r Hx _ IH]; cbn; [reflexivity|]. now rewrite Hx, IH. Qed.

(* ---------------------------------------------------------------- the reader *)
Lemma norm_index_id n c : 0 <= c < n -> norm_index n c = Some c.
Proof.
  intros H. unfold norm_index.
  destruct (- n <=? c) eqn:E1; [|apply Z.leb_gt in E1; lia].
  destruct (c <? n) eqn:E2; [|apply Z.ltb_ge in E2; lia]. cbn.
  destruct (c <? 0) eqn:E3; [apply Z.ltb_lt in E3; lia|reflexivity].
Qed.

(* raw_channel_order[csel], used again as an index on an axis of size nc, selects itself *)
Lemma as_sel_positions nc cd cs :
  Forall (fun c => 0 <= c < nc) cs -> exists d, sel_positions nc (as_sel (cd, cs)) = Ok (d, cs).
Proof.
  intros H.
  assert (HL : sel_positions nc (SList cs) = Ok (false, cs)).
  { cbn. rewrite mapM_id_Some; [reflexivity|]. eapply Forall_impl; [|exact H].
    intros c. apply norm_index_id. }
  destruct cd; [|exists false; exact HL].
  destruct cs as [|c [|c' r]]; try (exists false; exact HL).
  exists true. cbn. inversion H; subst. now rewrite norm_index_id.
Qed.

Section ReaderProofs.
  Context {A G V : Type}.
  Variable cal : A -> G -> V.

  Lemma cal_cell_zip (gain : list G) (row : list A) cs xs gs :
    gather row cs = Some xs -> gather gain cs = Some gs ->
    mapM (cal_cell cal gain row) cs = Some (zip_cal cal xs gs).
  Proof.
    unfold gather. revert xs gs. induction cs as [|c r IH]; intros xs gs Hx Hg; cbn in *.
    - inversion Hx; inversion Hg. reflexivity.
    - unfold cal_cell at 1.
      destruct (zget row c) as [a|]; [|discriminate]. destruct (zget gain c) as [g|]; [|discriminate].
      destruct (mapM (zget row) r) as [xs'|]; [|discriminate].
      destruct (mapM (zget gain) r) as [gs'|]; [|discriminate].
      inversion Hx; inversion Hg; subst. rewrite (IH xs' gs' eq_refl eq_refl). reflexivity.
  Qed.

  Variables (raw : list (list A)) (ns nc : Z) (order : list Z) (gain : list G).
  Hypothesis Hrect : rect raw ns nc.
  Hypothesis Horder : order_ok order nc.
  Hypothesis Hgain : zlen gain = nc.
  Set Default Proof Using "Hrect Horder Hgain".

  Lemma nc_nonneg : 0 <= nc.
  Proof. destruct Horder as [H _]. rewrite <- H. apply zlen_nonneg. Qed.

  (* what read computes when both selectors are valid *)
  Lemma read_bin_ok nsel csel rd rps cd cps :
    sel_positions ns nsel = Ok (rd, rps) -> sel_positions nc csel = Ok (cd, cps) ->
    exists rows cs gs cells,
      gather raw rps = Some rows /\ gather order cps = Some cs /\ gather gain cs = Some gs /\
      mapM (fun row => gather row cs) rows = Some cells /\
      Forall (fun c => 0 <= c < nc) cs /\
      read cal None raw nc order gain nsel csel
        = Ok (rd, cd, zlen cps, map (fun xs => zip_cal cal xs gs) cells).
  Proof.
    intros Hr Hc. destruct Hrect as [Hns Hrows]. destruct Horder as [Hol Hoe].
    pose proof nc_nonneg as Hnc.
    assert (Hns0 : 0 <= ns) by (rewrite <- Hns; apply zlen_nonneg).
    pose proof (sel_positions_range _ _ _ _ Hnc Hc) as Hcr.
    pose proof (sel_positions_range _ _ _ _ Hns0 Hr) as Hrr.
    destruct (gather_total order cps) as [cs Hcs]; [now rewrite Hol|].
    destruct (gather_total raw rps) as [rows Hrows']; [now rewrite Hns|].
    assert (Hcsr : Forall (fun c => 0 <= c < nc) cs).
    { pose proof (gather_In _ _ _ Hcs) as Hin. rewrite Forall_forall in *. intros c Hc'.
      apply Hoe. apply Hin. exact Hc'. }
    destruct (gather_total gain cs) as [gs Hgs]; [now rewrite Hgain|].
    assert (Hcells : exists cells, mapM (fun row => gather row cs) rows = Some cells).
    { apply mapM_total. pose proof (gather_In _ _ _ Hrows') as Hin.
      rewrite Forall_forall in *. intros row Hrow. apply gather_total.
      rewrite (Hrows row (Hin row Hrow)). apply Forall_forall. exact Hcsr. }
    destruct Hcells as [cells Hcells].
    exists rows, cs, gs, cells. repeat (split; [assumption|]).
    destruct (as_sel_positions nc cd cs Hcsr) as [d Hd].
    unfold read, np_index1. rewrite Hol, Hc. cbn [bind]. rewrite Hcs. cbn [of_option bind fst].
    unfold row_positions. rewrite Hns, Hr. cbn [bind]. rewrite Hrows'. cbn [of_option bind].
    rewrite Hd. cbn [bind]. rewrite Hcells. cbn [of_option bind].
    rewrite Hgain, Hd. cbn [bind]. rewrite Hgs. cbn [of_option bind].
    unfold zlen. rewrite (mapM_length _ _ _ Hcs). reflexivity.
  Qed.

  Lemma read_csel_err cbin nsel csel e :
    sel_positions nc csel = Err e -> read cal cbin raw nc order gain nsel csel = Err e.
  Proof.
    intros Hc. destruct Horder as [Hol _]. unfold read, np_index1. rewrite Hol, Hc. reflexivity.
  Qed.

  Lemma read_nsel_err nsel csel cd cps e :
    sel_positions nc csel = Ok (cd, cps) -> sel_positions ns nsel = Err e ->
    read cal None raw nc order gain nsel csel = Err e.
  Proof.
    intros Hc Hr. destruct Hrect as [Hns _]. destruct Horder as [Hol _].
    pose proof (sel_positions_range _ _ _ _ nc_nonneg Hc) as Hcr.
    destruct (gather_total order cps) as [cs Hcs]; [now rewrite Hol|].
    unfold read, np_index1. rewrite Hol, Hc. cbn [bind]. rewrite Hcs. cbn [of_option bind].
    unfold row_positions. rewrite Hns, Hr. reflexivity.
  Qed.

  (* the calibrated, sorted array exists and has the announced cells *)
  Lemma calibrated_sorted_total : exists M, calibrated_sorted cal raw order gain = Some M.
  Proof.
    destruct Hrect as [_ Hrows]. destruct Horder as [_ Hoe].
    apply mapM_total. rewrite Forall_forall in *. intros row Hrow. apply mapM_total.
    apply Forall_forall. intros c Hc. unfold cal_cell.
    destruct (zget_in_range row c) as [a Ha]; [rewrite (Hrows row Hrow); auto|].
    destruct (zget_in_range gain c) as [g Hg]; [rewrite Hgain; auto|].
    rewrite Ha, Hg. eauto.
  Qed.

  Lemma calibrated_sorted_cell M i j v :
    calibrated_sorted cal raw order gain = Some M ->
    (exists Mrow, zget M i = Some Mrow /\ zget Mrow j = Some v) <->
    (exists row c a g, zget raw i = Some row /\ zget order j = Some c /\ zget row c = Some a /\
                       zget gain c = Some g /\ v = cal a g).
  Proof.
    intros HM. unfold calibrated_sorted in HM. split.
    - intros [Mrow [Hi Hj]]. rewrite (zget_mapM _ _ _ i HM) in Hi.
      destruct (zget raw i) as [row|] eqn:Er; [|discriminate].
      rewrite (zget_mapM _ _ _ j Hi) in Hj.
      destruct (zget order j) as [c|] eqn:Ec; [|discriminate].
      unfold cal_cell in Hj. destruct (zget row c) as [a|] eqn:Ea; [|discriminate].
      destruct (zget gain c) as [g|] eqn:Eg; [|discriminate]. inversion Hj.
      exists row, c, a, g. auto.
    - intros [row [c [a [g [Hr [Hc [Ha [Hg ->]]]]]]]].
      destruct (mapM_In_Some _ _ _ row HM (zget_In _ _ _ Hr)) as [Mrow HMrow].
      exists Mrow. split.
      + rewrite (zget_mapM _ _ _ i HM), Hr. exact HMrow.
      + rewrite (zget_mapM _ _ _ j HMrow), Hc. unfold cal_cell. now rewrite Ha, Hg.
  Qed.

  Lemma calibrated_sorted_rect M :
    calibrated_sorted cal raw order gain = Some M -> rect M ns nc.
  Proof.
    intros HM. destruct Hrect as [Hns _]. destruct Horder as [Hol _]. unfold calibrated_sorted in HM.
    split.
    - unfold zlen in *. now rewrite (mapM_length _ _ _ HM).
    - assert (H : forall l M', mapM (fun row => mapM (cal_cell cal gain row) order) l = Some M' ->
                  Forall (fun row => zlen row = nc) M').
      { induction l as [|row r IH]; intros M' H; cbn in H.
        - inversion H. constructor.
        - destruct (mapM (cal_cell cal gain row) order) eqn:E1; [|discriminate].
          destruct (mapM _ r) eqn:E2; [|discriminate]. inversion H. constructor; [|auto].
          unfold zlen in *. now rewrite (mapM_length _ _ _ E1). }
      eauto.
  Qed.

  (* NumPy indexing of the calibrated sorted array, both selectors valid, outer case *)
  Lemma ref_outer_ok M nsel csel rd rps cd cps rows cs gs cells :
    calibrated_sorted cal raw order gain = Some M ->
    sel_positions ns nsel = Ok (rd, rps) -> sel_positions nc csel = Ok (cd, cps) ->
    gather raw rps = Some rows -> gather order cps = Some cs -> gather gain cs = Some gs ->
    mapM (fun row => gather row cs) rows = Some cells ->
    exists Mrows, gather M rps = Some Mrows /\
      mapM (fun row => gather row cps) Mrows = Some (map (fun xs => zip_cal cal xs gs) cells).
  Proof.
    intros HM Hr Hc Hrows Hcs Hgs Hcells. unfold calibrated_sorted in HM.
    pose proof (gather_mapM _ _ _ rps HM) as HG. rewrite Hrows in HG.
    assert (HF : Forall (fun row => exists Mrow, mapM (cal_cell cal gain row) order = Some Mrow) rows).
    { pose proof (gather_In _ _ _ Hrows) as Hin. rewrite Forall_forall in *. intros row Hrow.
      apply (mapM_In_Some (fun row => mapM (cal_cell cal gain row) order) raw M row HM).
      apply Hin. exact Hrow. }
    destruct (mapM_total _ _ HF) as [Mrows HMrows]. rewrite HMrows in HG.
    exists Mrows. split; [exact HG|].
    rewrite (mapM_compose _ (fun row => gather row cps) _ _ HMrows).
    rewrite (mapM_ext _ (fun row => option_map (fun xs => zip_cal cal xs gs) (gather row cs))).
    - rewrite mapM_option_map, Hcells. reflexivity.
    - rewrite Forall_forall in *. intros row Hrow. destruct (HF row Hrow) as [Mrow HMrow].
      rewrite HMrow. rewrite (gather_mapM _ _ _ cps HMrow), Hcs.
      destruct (mapM_In_Some _ _ _ row Hcells Hrow) as [xs Hxs]. rewrite Hxs. cbn.
      apply cal_cell_zip; assumption.
  Qed.

  Lemma np_index2_unfold_ok {T} (M : list (list T)) nsel csel rd rps cd cps :
    sel_positions ns nsel = Ok (rd, rps) -> sel_positions nc csel = Ok (cd, cps) ->
    (is_fancy nsel && is_fancy csel = false) ->
    np_index2 M ns nc nsel csel =
      bind (of_option (gather M rps) EInternal) (fun rows =>
      bind (of_option (mapM (fun row => gather row cps) rows) EInternal) (fun cells =>
      Ok (rd, cd, zlen cps, cells))).
  Proof.
    intros Hr Hc Hf. unfold np_index2. rewrite Hr, Hc, Hf.
    destruct (is_fancy nsel && negb (is_fancy csel)); reflexivity.
  Qed.

  (* main: at most one invalid selector, not two index lists *)
  Lemma read_eq_np_index M nsel csel :
    calibrated_sorted cal raw order gain = Some M ->
    is_fancy nsel && is_fancy csel = false ->
    ((exists x, sel_positions ns nsel = Ok x) \/ (exists x, sel_positions nc csel = Ok x)) ->
    read cal None raw nc order gain nsel csel = np_index2 M ns nc nsel csel.
  Proof.
    intros HM Hf Hone.
    destruct (sel_positions ns nsel) as [[rd rps]|er] eqn:Hr;
      destruct (sel_positions nc csel) as [[cd cps]|ec] eqn:Hc.
    - destruct (read_bin_ok nsel csel rd rps cd cps Hr Hc)
        as [rows [cs [gs [cells [H1 [H2 [H3 [H4 [_ H5]]]]]]]]].
      rewrite H5. rewrite (np_index2_unfold_ok M nsel csel rd rps cd cps Hr Hc Hf).
      destruct (ref_outer_ok M nsel csel rd rps cd cps rows cs gs cells HM Hr Hc H1 H2 H3 H4)
        as [Mrows [H6 H7]].
      rewrite H6. cbn [of_option bind]. rewrite H7. reflexivity.
    - rewrite (read_csel_err None nsel csel ec Hc). unfold np_index2. rewrite Hr, Hc.
      destruct (is_fancy nsel && negb (is_fancy csel)); reflexivity.
    - rewrite (read_nsel_err nsel csel cd cps er Hc Hr). unfold np_index2. rewrite Hr, Hc.
      destruct (is_fancy nsel && negb (is_fancy csel)); reflexivity.
    - destruct Hone as [[x Hx]|[x Hx]]; discriminate.
  Qed.

  (* reader[s] for a non-tuple s = NumPy row indexing M[s] = M[s, :] *)
  Lemma getitem_single M s :
    calibrated_sorted cal raw order gain = Some M ->
    getitem cal None raw nc order gain (ISel s)
      = bind (np_index2 M ns nc s (SSlice None None None)) (fun r => Ok (Some r)).
  Proof.
    intros HM. unfold getitem. rewrite (read_eq_np_index M s (SSlice None None None) HM).
    - reflexivity.
    - apply andb_false_r.
    - right. eexists. reflexivity.
  Qed.

  (* both selectors invalid: both sides raise; the reader reports the channel selector's error *)
  Lemma read_both_invalid (M : list (list V)) nsel csel er ec :
    sel_positions ns nsel = Err er -> sel_positions nc csel = Err ec ->
    read cal None raw nc order gain nsel csel = Err ec /\
    exists e, np_index2 M ns nc nsel csel = Err e.
  Proof.
    intros Hr Hc. split; [apply read_csel_err; exact Hc|].
    unfold np_index2. rewrite Hr, Hc.
    destruct (is_fancy nsel && negb (is_fancy csel)); eauto.
  Qed.

  (* two index lists: the reader returns the outer (orthogonal) selection *)
  Lemma read_outer M l1 l2 rps cps :
    calibrated_sorted cal raw order gain = Some M ->
    sel_positions ns (SList l1) = Ok (false, rps) -> sel_positions nc (SList l2) = Ok (false, cps) ->
    exists Mrows cellsM,
      gather M rps = Some Mrows /\ mapM (fun row => gather row cps) Mrows = Some cellsM /\
      read cal None raw nc order gain (SList l1) (SList l2) = Ok (false, false, zlen cps, cellsM).
  Proof.
    intros HM Hr Hc.
    destruct (read_bin_ok _ _ _ _ _ _ Hr Hc) as [rows [cs [gs [cells [H1 [H2 [H3 [H4 [_ H5]]]]]]]]].
    destruct (ref_outer_ok M _ _ _ _ _ _ rows cs gs cells HM Hr Hc H1 H2 H3 H4) as [Mrows [H6 H7]].
    exists Mrows, (map (fun xs => zip_cal cal xs gs) cells). auto.
  Qed.
End ReaderProofs.
Unset Default Proof Using.

(* ---------------------------------------------------------------- cbin: mtscomp path *)
Lemma nth_error_map_seq {T} (f : nat -> T) a n k :
  (k < n)%nat -> nth_error (map f (seq a n)) k = Some (f (a + k)%nat).
Proof.
  revert a k. induction n as [|n IH]; intros a k H; [lia|]. destruct k; cbn.
  - do 2 f_equal. lia.
  - rewrite IH by lia. do 2 f_equal. lia.
Qed.

Lemma zget_arith lo st cnt p : 0 <= p < Z.of_nat cnt -> zget (arith lo st cnt) p = Some (lo + p * st).
Proof.
  intros H. unfold zget. destruct (p <? 0) eqn:E; [apply Z.ltb_lt in E; lia|].
  unfold arith, zrange. rewrite map_map. rewrite nth_error_map_seq by lia.
  do 3 f_equal. lia.
Qed.

Lemma gather_map {T} (l : list T) (g : Z -> T) ps :
  (forall p, In p ps -> zget l p = Some (g p)) -> gather l ps = Some (map g ps).
Proof.
  unfold gather. induction ps as [|p r IH]; intros H; cbn; [reflexivity|].
  rewrite (H p (or_introl eq_refl)). rewrite IH; [reflexivity|]. intros q Hq. apply H. now right.
Qed.

Lemma zrange_S n : zrange (S n) = zrange n ++ [Z.of_nat n].
Proof. unfold zrange. rewrite seq_S, map_app. reflexivity. Qed.

Lemma arith_snoc lo st n : arith lo st (S n) = arith lo st n ++ [lo + Z.of_nat n * st].
Proof. unfold arith. rewrite zrange_S, map_app. reflexivity. Qed.

Lemma arith_app lo st a b :
  arith lo st (a + b) = arith lo st a ++ arith (lo + Z.of_nat a * st) st b.
Proof.
  induction b as [|b IH].
  - rewrite Nat.add_0_r. unfold arith at 3. cbn. now rewrite app_nil_r.
  - rewrite Nat.add_succ_r, !arith_snoc, IH, app_assoc. do 2 f_equal. lia.
Qed.

Lemma zget_cons {T} (x : T) l j : 0 < j -> zget (x :: l) j = zget l (j - 1).
Proof.
  intros H. unfold zget. destruct (j <? 0) eqn:E1; [apply Z.ltb_lt in E1; lia|].
  destruct (j - 1 <? 0) eqn:E2; [apply Z.ltb_lt in E2; lia|].
  replace (Z.to_nat j) with (S (Z.to_nat (j - 1))) by lia. reflexivity.
Qed.

Lemma bisect_prefix_bounds l x : 0 <= bisect_prefix l x <= zlen l.
Proof.
  unfold zlen. induction l as [|b t IH]; cbn [bisect_prefix length]; [lia|].
  destruct (b <=? x); lia.
Qed.

Lemma bisect_prefix_le l x j : 0 <= j < bisect_prefix l x -> exists b, zget l j = Some b /\ b <= x.
Proof.
  revert j. induction l as [|b t IH]; intros j H; cbn [bisect_prefix] in H; [lia|].
  destruct (b <=? x) eqn:E; [|lia]. apply Z.leb_le in E.
  destruct (Z.eq_dec j 0) as [->|Hj].
  - exists b. split; [reflexivity|exact E].
  - rewrite zget_cons by lia. apply IH. lia.
Qed.

Lemma bisect_prefix_gt l x b : zget l (bisect_prefix l x) = Some b -> x < b.
Proof.
  induction l as [|a t IH]; cbn [bisect_prefix]; [discriminate|].
  destruct (a <=? x) eqn:E.
  - pose proof (bisect_prefix_bounds t x). rewrite zget_cons by lia.
    replace (1 + bisect_prefix t x - 1) with (bisect_prefix t x) by lia. exact IH.
  - apply Z.leb_gt in E. cbn. intros H. inversion H. lia.
Qed.

Lemma nth_error_skipn {T} n (l : list T) k : nth_error (skipn n l) k = nth_error l (n + k).
Proof.
  revert l. induction n as [|n IH]; intros l; [reflexivity|].
  destruct l; cbn; [now destruct k|]. apply IH.
Qed.

Lemma zget_skipn {T} lo (l : list T) j : 0 <= lo -> 0 <= j ->
  zget (skipn (Z.to_nat lo) l) j = zget l (lo + j).
Proof.
  intros H1 H2. unfold zget.
  destruct (j <? 0) eqn:E1; [apply Z.ltb_lt in E1; lia|].
  destruct (lo + j <? 0) eqn:E2; [apply Z.ltb_lt in E2; lia|].
  rewrite nth_error_skipn. f_equal. lia.
Qed.

(* chunk bounds as mtscomp writes them: b_0 = 0, last = n, non-decreasing, >= 1 chunk *)
Definition bounds_ok (bounds : list Z) (n : Z) : Prop :=
  2 <= zlen bounds /\ zget bounds 0 = Some 0 /\ zget bounds (zlen bounds - 1) = Some n /\
  (forall j, 0 <= j -> j + 1 < zlen bounds -> bound bounds j <= bound bounds (j + 1)).

Lemma bound_zget bounds k b : zget bounds k = Some b -> bound bounds k = b.
Proof. unfold bound. now intros ->. Qed.

Lemma concat_chunks bounds n m first : bounds_ok bounds n ->
  0 <= first -> first + Z.of_nat m < zlen bounds ->
  bound bounds first <= bound bounds (first + Z.of_nat m) /\
  flat_map (chunk_positions bounds) (arith first 1 m) =
    arith (bound bounds first) 1 (Z.to_nat (bound bounds (first + Z.of_nat m) - bound bounds first)).
Proof.
  intros [_ [_ [_ Hmono]]] Hf. induction m as [|m IH]; intros Hm.
  - replace (first + Z.of_nat 0) with first by lia. split; [lia|].
    rewrite Z.sub_diag. reflexivity.
  - destruct IH as [IH1 IH2]; [lia|].
    pose proof (Hmono (first + Z.of_nat m) ltac:(lia) ltac:(lia)) as Hstep.
    replace (first + Z.of_nat (S m)) with (first + Z.of_nat m + 1) by lia.
    split; [lia|].
    rewrite arith_snoc, flat_map_app, IH2. cbn [flat_map]. rewrite app_nil_r.
    replace (first + Z.of_nat m * 1) with (first + Z.of_nat m) by lia.
    unfold chunk_positions.
    set (b0 := bound bounds first) in *. set (b1 := bound bounds (first + Z.of_nat m)) in *.
    set (b2 := bound bounds (first + Z.of_nat m + 1)) in *.
    replace (Z.to_nat (b2 - b0)) with (Z.to_nat (b1 - b0) + Z.to_nat (b2 - b1))%nat by lia.
    rewrite arith_app. do 2 f_equal. lia.
Qed.

Lemma chunks_facts bounds n i0 i1 first last : bounds_ok bounds n ->
  0 <= i0 < i1 -> i1 <= n ->
  chunks_for_interval bounds n i0 i1 = (first, last) ->
  0 <= first <= last /\ last + 1 < zlen bounds /\
  bound bounds first <= i0 /\ i1 <= bound bounds (last + 1).
Proof.
  intros Hok Hi Hn H. pose proof Hok as [Hlen [H0 [Hlast Hmono]]].
  unfold chunks_for_interval, bisect_right in H.
  replace (clip i0 0 (n - 1)) with i0 in H by (unfold clip; lia).
  set (i1c := clip i1 i0 (n - 1)) in H.
  assert (Hi1c : i0 <= i1c <= n - 1 /\ i1 - 1 <= i1c) by (subst i1c; unfold clip; lia).
  cbn [Z.to_nat skipn] in H. rewrite Z.add_0_l in H.
  set (c0 := bisect_prefix bounds i0) in H.
  pose proof (bisect_prefix_bounds bounds i0) as Hc0. fold c0 in Hc0.
  assert (Hc0lo : 1 <= c0).
  { destruct bounds as [|b t]; [discriminate|]. cbn in H0. inversion H0; subst b.
    subst c0. cbn [bisect_prefix]. destruct (0 <=? i0) eqn:E; [|apply Z.leb_gt in E; lia].
    pose proof (bisect_prefix_bounds t i0). lia. }
  assert (Hc0hi : c0 <= zlen bounds - 1).
  { destruct (Z_le_gt_dec c0 (zlen bounds - 1)) as [?|Hgt]; [assumption|].
    destruct (bisect_prefix_le bounds i0 (zlen bounds - 1)) as [b [Hb Hle]]; [fold c0; lia|].
    rewrite Hlast in Hb. inversion Hb. lia. }
  replace (clip (c0 - 1) 0 (zlen bounds - 1 - 1)) with (c0 - 1) in H by (unfold clip; lia).
  set (f := c0 - 1) in *.
  destruct (bisect_prefix_le bounds i0 f) as [bf [Hbf Hbfle]]; [fold c0; lia|].
  set (p := bisect_prefix (skipn (Z.to_nat f) bounds) i1c) in H.
  pose proof (bisect_prefix_bounds (skipn (Z.to_nat f) bounds) i1c) as Hp. fold p in Hp.
  assert (Hplo : 1 <= p).
  { subst p. pose proof (zget_skipn f bounds 0 ltac:(lia) ltac:(lia)) as Hs.
    rewrite Z.add_0_r, Hbf in Hs.
    destruct (skipn (Z.to_nat f) bounds) as [|b t]; [discriminate|]. cbn in Hs. inversion Hs; subst b.
    cbn [bisect_prefix]. destruct (bf <=? i1c) eqn:E; [|apply Z.leb_gt in E; lia].
    pose proof (bisect_prefix_bounds t i1c). lia. }
  assert (Hphi : f + p <= zlen bounds - 1).
  { destruct (Z_le_gt_dec (f + p) (zlen bounds - 1)) as [?|Hgt]; [assumption|].
    destruct (bisect_prefix_le (skipn (Z.to_nat f) bounds) i1c (zlen bounds - 1 - f)) as [b [Hb Hle]];
      [fold p; lia|].
    rewrite zget_skipn in Hb by lia. replace (f + (zlen bounds - 1 - f)) with (zlen bounds - 1) in Hb by lia.
    rewrite Hlast in Hb. inversion Hb. lia. }
  replace (clip (f + p - 1) 0 (zlen bounds - 1 - 1)) with (f + p - 1) in H by (unfold clip; lia).
  inversion H; subst first last. clear H.
  split; [lia|]. split; [lia|]. split; [rewrite (bound_zget _ _ _ Hbf); exact Hbfle|].
  replace (f + p - 1 + 1) with (f + p) by lia.
  destruct (zget_in_range bounds (f + p)) as [b Hb]; [lia|].
  rewrite (bound_zget _ _ _ Hb).
  assert (Hgt : i1c < b).
  { apply (bisect_prefix_gt (skipn (Z.to_nat f) bounds)). fold p. rewrite zget_skipn by lia. exact Hb. }
  lia.
Qed.

Lemma validate_adj n st v d : 0 <= n -> 0 < st -> validate_index n (Some v) d = adj n st v.
Proof.
  intros Hn Hs. unfold validate_index, adj, clip.
  destruct (v <? 0) eqn:E1; [apply Z.ltb_lt in E1|apply Z.ltb_ge in E1].
  - destruct (v + n <? 0) eqn:E2; [apply Z.ltb_lt in E2|apply Z.ltb_ge in E2];
      destruct (st <? 0) eqn:E3; try (apply Z.ltb_lt in E3); lia.
  - destruct (n <=? v) eqn:E2; [apply Z.leb_le in E2|apply Z.leb_gt in E2];
      destruct (st <? 0) eqn:E3; try (apply Z.ltb_lt in E3); lia.
Qed.

Lemma slice_len_shift lo hi st k : slice_len (lo - k) (hi - k) st = slice_len lo hi st.
Proof.
  unfold slice_len.
  replace (hi - k <? lo - k) with (hi <? lo) by (destruct (hi <? lo) eqn:E; symmetry;
    [apply Z.ltb_lt; apply Z.ltb_lt in E|apply Z.ltb_ge; apply Z.ltb_ge in E]; lia).
  replace (lo - k <? hi - k) with (lo <? hi) by (destruct (lo <? hi) eqn:E; symmetry;
    [apply Z.ltb_lt; apply Z.ltb_lt in E|apply Z.ltb_ge; apply Z.ltb_ge in E]; lia).
  replace (lo - k - (hi - k) - 1) with (lo - hi - 1) by lia.
  replace (hi - k - (lo - k) - 1) with (hi - lo - 1) by lia. reflexivity.
Qed.

(* a slice with a positive (or default) step: the chunked read selects exactly the
   rows Python's slice selects *)
Lemma mts_slice_pos bounds n a b c : bounds_ok bounds n -> 1 <= n ->
  0 < match c with None => 1 | Some s => s end ->
  exists l, slice_indices n a b c = Some l /\ mts_slice bounds n a b c = Ok l.
Proof.
  intros Hok Hn Hst. set (st := match c with None => 1 | Some s => s end) in *.
  unfold slice_indices, slice_adjust. fold st.
  destruct (st =? 0) eqn:E0; [apply Z.eqb_eq in E0; lia|].
  destruct (st <? 0) eqn:En; [apply Z.ltb_lt in En; lia|].
  set (lo := match a with None => 0 | Some v => adj n st v end).
  set (hi := match b with None => n | Some v => adj n st v end).
  eexists. split; [reflexivity|].
  unfold mts_slice.
  assert (Hlo : validate_index n a 0 = lo).
  { subst lo. destruct a; [apply validate_adj; lia|reflexivity]. }
  assert (Hhi : validate_index n b n = hi).
  { subst hi. destruct b; [apply validate_adj; lia|reflexivity]. }
  rewrite Hlo, Hhi.
  assert (Hlor : 0 <= lo <= n) by (subst lo; destruct a; [apply adj_range_pos|]; lia).
  assert (Hhir : 0 <= hi <= n) by (subst hi; destruct b; [apply adj_range_pos|]; lia).
  destruct (hi <=? lo) eqn:Ele.
  - apply Z.leb_le in Ele. unfold slice_len. rewrite En.
    destruct (lo <? hi) eqn:E; [apply Z.ltb_lt in E; lia|]. reflexivity.
  - apply Z.leb_gt in Ele.
    destruct (chunks_for_interval bounds n lo hi) as [first last] eqn:Ech.
    destruct (chunks_facts bounds n lo hi first last Hok ltac:(lia) ltac:(lia) Ech)
      as [Hfl [Hl [Hbf Hbl]]].
    destruct (concat_chunks bounds n (Z.to_nat (last - first + 1)) first Hok ltac:(lia) ltac:(lia))
      as [Hmono Harr].
    replace (first + Z.of_nat (Z.to_nat (last - first + 1))) with (last + 1) in * by lia.
    rewrite Harr. set (bf := bound bounds first) in *. set (bl := bound bounds (last + 1)) in *.
    set (L := bl - bf).
    unfold np_index1. unfold zlen at 1. rewrite arith_length, Z2Nat.id by lia. fold L.
    unfold sel_positions, slice_indices, slice_adjust. fold st. rewrite E0. rewrite ?En.
    assert (Ha : adj L st (lo - bf) = lo - bf).
    { unfold adj. destruct (lo - bf <? 0) eqn:E1; [apply Z.ltb_lt in E1; lia|].
      destruct (L <=? lo - bf) eqn:E2; [apply Z.leb_le in E2; lia|reflexivity]. }
    assert (Hb : adj L st (hi - bf) = hi - bf).
    { unfold adj. destruct (hi - bf <? 0) eqn:E1; [apply Z.ltb_lt in E1; lia|].
      destruct (L <=? hi - bf) eqn:E2; [apply Z.leb_le in E2; rewrite En; lia|reflexivity]. }
    rewrite Ha, Hb, slice_len_shift. cbn [bind].
    set (cnt := Z.to_nat (slice_len lo hi st)).
    rewrite (gather_map _ (fun p => bf + p * 1)).
    + cbn [of_option bind]. f_equal. unfold arith. rewrite map_map. apply map_ext. intros k. lia.
    + intros p Hp. apply zget_arith. rewrite Z2Nat.id by lia.
      unfold arith in Hp. apply in_map_iff in Hp. destruct Hp as [k [<- Hk]]. apply in_zrange in Hk.
      subst cnt. unfold slice_len in Hk. rewrite En in Hk.
      destruct (lo <? hi) eqn:E; [|cbn in Hk; lia].
      rewrite Z2Nat.id in Hk by (pose proof (Z.div_pos (hi - lo - 1) st); lia).
      pose proof (slice_pos_in_range lo hi st k Hst ltac:(lia) Hk). lia.
Qed.

(* self._raw[nsel, :] on a .cbin = on the .bin, for every slice with step None or > 0
   and every in-range Python int *)
Lemma cbin_positions_eq bounds n s : bounds_ok bounds n -> 1 <= n ->
  match s with
  | SInt i => - n <= i < n
  | SSlice a b c => 0 < match c with None => 1 | Some st => st end
  | SList _ => False
  end ->
  mts_positions bounds n s = sel_positions n s.
Proof.
  intros Hok Hn Hs. destruct s as [i|a b c|l]; [| |destruct Hs].
  - unfold mts_positions, sel_positions, norm_index.
    destruct (- n <=? i) eqn:E1; [|apply Z.leb_gt in E1; lia].
    destruct (i <? n) eqn:E2; [|apply Z.ltb_ge in E2; lia]. cbn [andb].
    set (i' := if i <? 0 then i + n * - (i / n) else i).
    assert (Hi' : i' = (if i <? 0 then i + n else i)).
    { subst i'. destruct (i <? 0) eqn:E3; [|reflexivity]. apply Z.ltb_lt in E3.
      assert (i / n = -1) by (symmetry; apply (Z.div_unique i n (-1) (i + n)); lia). lia. }
    assert (Hr : 0 <= i' < n).
    { rewrite Hi'. destruct (i <? 0) eqn:E3; [apply Z.ltb_lt in E3|apply Z.ltb_ge in E3]; lia. }
    destruct (0 <=? i') eqn:E4; [|apply Z.leb_gt in E4; lia].
    destruct (i' <? n) eqn:E5; [|apply Z.ltb_ge in E5; lia]. cbn [andb].
    destruct (mts_slice_pos bounds n (Some i') (Some (i' + 1)) None Hok Hn ltac:(lia)) as [l [Hl Hm]].
    rewrite Hm. cbn [bind].
    unfold slice_indices, slice_adjust in Hl. cbn [Z.eqb Z.ltb Z.compare] in Hl.
    assert (A1 : adj n 1 i' = i').
    { unfold adj. destruct (i' <? 0) eqn:F1; [apply Z.ltb_lt in F1; lia|].
      destruct (n <=? i') eqn:F2; [apply Z.leb_le in F2; lia|reflexivity]. }
    assert (A2 : adj n 1 (i' + 1) = i' + 1).
    { unfold adj. destruct (i' + 1 <? 0) eqn:F1; [apply Z.ltb_lt in F1; lia|].
      destruct (n <=? i' + 1) eqn:F2; [apply Z.leb_le in F2; cbn; lia|reflexivity]. }
    rewrite A1, A2 in Hl.
    assert (SL : slice_len i' (i' + 1) 1 = 1).
    { unfold slice_len. cbn [Z.ltb Z.compare].
      destruct (i' <? i' + 1) eqn:F; [|apply Z.ltb_ge in F; lia].
      replace (i' + 1 - i' - 1) with 0 by lia. reflexivity. }
    rewrite SL in Hl. inversion Hl; subst l. change (Pos.to_nat 1) with 1%nat. replace (arith i' 1 1) with [i'] by (unfold arith, zrange; cbn; f_equal; lia). rewrite <- Hi'. reflexivity.
  - unfold mts_positions, sel_positions.
    destruct (mts_slice_pos bounds n a b c Hok Hn Hs) as [l [Hl Hm]]. now rewrite Hm, Hl.
Qed.


Lemma cbin_read_eq {A G V : Type} (cal : A -> G -> V) raw nc order gain bounds nsel csel :
  bounds_ok bounds (zlen raw) -> 1 <= zlen raw ->
  match nsel with
  | SInt i => - zlen raw <= i < zlen raw
  | SSlice a b c => 0 < match c with None => 1 | Some st => st end
  | SList _ => False
  end ->
  read cal (Some bounds) raw nc order gain nsel csel = read cal None raw nc order gain nsel csel.
Proof.
  intros Hok Hn Hs. unfold read, row_positions.
  rewrite (cbin_positions_eq bounds (zlen raw) nsel Hok Hn Hs). reflexivity.
Qed.

Lemma zget_zrange n j : 0 <= j < Z.of_nat n -> zget (zrange n) j = Some j.
Proof.
  intros H. unfold zget, zrange. destruct (j <? 0) eqn:E; [apply Z.ltb_lt in E; lia|].
  rewrite nth_error_map_seq by lia. f_equal. lia.
Qed.

Lemma identity_order_ok nc : 0 <= nc -> order_ok (zrange (Z.to_nat nc)) nc.
Proof.
  intros H. split.
  - unfold zlen. rewrite zrange_length. lia.
  - apply Forall_forall. intros c Hc. apply in_zrange in Hc. lia.
Qed.
