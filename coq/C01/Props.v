(* C01 — property theorems.  Only statements closed by `exact <lemma>` (or a
   short wrapper), each followed by Print Assumptions, and Examples showing that
   the hypotheses are satisfiable on concrete inputs.

   Reading guide.  A recording is raw : list (list A) (ns rows of nc samples),
   order = raw_channel_order, gain = volts-per-bit per on-disk channel,
   cal a g = float32(a) * g (abstract: the theorems hold for every cal).
   read cal None ..  = Reader.read on a .bin,  read cal (Some bounds) .. on a .cbin.
   A result is (row axis dropped, column axis dropped, #columns, cells by row). *)
From Coq Require Import String.
From Coq Require Import ZArith List Bool Lia.
From IBL.lib Require Import PyInt.
From IBL.C01 Require Import Model Proofs Geometry Gains AlignProofs SyncProofs Bisect State.
Require IBL.C08.Model IBL.C08.Proofs IBL.C08.Props.
Require IBL.C03.F32.
Require IBL.C11.Model IBL.C11.Proofs IBL.C11.Props.
From Coq Require Import Permutation.
Import ListNotations.
Open Scope Z_scope.

(* Every position a selector picks on an axis of size n is inside [0, n). *)
Theorem C01_selected_positions_in_range : forall n s d ps, 0 <= n ->
  sel_positions n s = Ok (d, ps) -> Forall (fun p => 0 <= p < n) ps.
Proof. exact sel_positions_range. Qed.
Print Assumptions C01_selected_positions_in_range.

(* The calibrated array in geometry order exists, is ns x nc, and its cell (i, j)
   is cal(raw[i][order[j]], gain[order[j]]): the sample AND the gain are taken
   from the same on-disk channel order[j]. *)
Theorem C01_calibrated_sorted_cells :
  forall (A G V : Type) (cal : A -> G -> V) raw ns nc order gain,
  rect raw ns nc -> order_ok order nc -> zlen gain = nc ->
  exists M, calibrated_sorted cal raw order gain = Some M /\ rect M ns nc /\
    forall i j v,
      (exists Mrow, zget M i = Some Mrow /\ zget Mrow j = Some v) <->
      (exists row c a g, zget raw i = Some row /\ zget order j = Some c /\
                         zget row c = Some a /\ zget gain c = Some g /\ v = cal a g).
Proof.
  intros A G V cal raw ns nc order gain Hr Ho Hg.
  destruct (calibrated_sorted_total cal raw ns nc order gain Hr Ho Hg) as [M HM].
  exists M. split; [exact HM|]. split.
  - exact (calibrated_sorted_rect cal raw ns nc order gain Hr Ho Hg M HM).
  - intros i j v. exact (calibrated_sorted_cell cal raw ns nc order gain Hr Ho Hg M i j v HM).
Qed.
Print Assumptions C01_calibrated_sorted_cells.

(* MAIN.  Uncompressed file, any rectangular content, any channel order with
   entries < nc, any gains, any pair of selectors that are not both index lists
   and of which at most one is invalid: Reader.read returns exactly NumPy
   indexing of the calibrated sorted array — same cells, same rank/shape, and the
   same exception (IndexError for an out-of-range integer / list entry,
   ValueError for a zero step) when one selector is invalid. *)
Theorem C01_read_eq_np_index :
  forall (A G V : Type) (cal : A -> G -> V) raw ns nc order gain M nsel csel,
  rect raw ns nc -> order_ok order nc -> zlen gain = nc ->
  calibrated_sorted cal raw order gain = Some M ->
  is_fancy nsel && is_fancy csel = false ->
  ((exists x, sel_positions ns nsel = Ok x) \/ (exists x, sel_positions nc csel = Ok x)) ->
  read cal None raw nc order gain nsel csel = np_index2 M ns nc nsel csel.
Proof.
  intros A G V cal raw ns nc order gain M nsel csel Hr Ho Hg.
  exact (read_eq_np_index cal raw ns nc order gain Hr Ho Hg M nsel csel).
Qed.
Print Assumptions C01_read_eq_np_index.

(* reader[s] with a single non-tuple selector s (Python int, NumPy int, slice,
   list/array of sample indices) is read(nsel=s): NumPy row indexing M[s] = M[s, :]
   of the calibrated sorted array — rows for a list, one row (rank 1) for an int,
   IndexError / ValueError for an invalid s.  (Before fix 76db94c a 2-element list
   was taken as (sample, channel) and other lists returned None: F-C01-b/d.) *)
Theorem C01_getitem_single_selector :
  forall (A G V : Type) (cal : A -> G -> V) raw ns nc order gain M s,
  rect raw ns nc -> order_ok order nc -> zlen gain = nc ->
  calibrated_sorted cal raw order gain = Some M ->
  getitem cal None raw nc order gain (ISel s)
    = bind (np_index2 M ns nc s (SSlice None None None)) (fun r => Ok (Some r)).
Proof.
  intros A G V cal raw ns nc order gain M s Hr Ho Hg.
  exact (getitem_single cal raw ns nc order gain Hr Ho Hg M s).
Qed.
Print Assumptions C01_getitem_single_selector.

(* Both selectors invalid: both the reader and NumPy raise; the reader reports
   the channel selector's exception (it is evaluated first), NumPy the one of
   the first basic index in axis order. *)
Theorem C01_read_both_invalid_raise :
  forall (A G V : Type) (cal : A -> G -> V) raw ns nc order gain (M : list (list V)) nsel csel er ec,
  rect raw ns nc -> order_ok order nc -> zlen gain = nc ->
  sel_positions ns nsel = Err er -> sel_positions nc csel = Err ec ->
  read cal None raw nc order gain nsel csel = Err ec /\
  exists e, np_index2 M ns nc nsel csel = Err e.
Proof.
  intros A G V cal raw ns nc order gain M nsel csel er ec Hr Ho Hg.
  exact (read_both_invalid cal raw ns nc order gain Hr Ho Hg M nsel csel er ec).
Qed.
Print Assumptions C01_read_both_invalid_raise.

(* Two index lists: the reader returns the OUTER selection rows x columns of the
   calibrated sorted array (what the suite pins with read([], [])); NumPy itself
   would pair the two lists, so this case is outside "as NumPy would". *)
Theorem C01_read_outer :
  forall (A G V : Type) (cal : A -> G -> V) raw ns nc order gain M l1 l2 rps cps,
  rect raw ns nc -> order_ok order nc -> zlen gain = nc ->
  calibrated_sorted cal raw order gain = Some M ->
  sel_positions ns (SList l1) = Ok (false, rps) -> sel_positions nc (SList l2) = Ok (false, cps) ->
  exists Mrows cellsM,
    gather M rps = Some Mrows /\ mapM (fun row => gather row cps) Mrows = Some cellsM /\
    read cal None raw nc order gain (SList l1) (SList l2) = Ok (false, false, zlen cps, cellsM).
Proof.
  intros A G V cal raw ns nc order gain M l1 l2 rps cps Hr Ho Hg.
  exact (read_outer cal raw ns nc order gain Hr Ho Hg M l1 l2 rps cps).
Qed.
Print Assumptions C01_read_outer.

(* Sorting off: raw_channel_order is the identity, so column j of every read is
   on-disk channel j with its own gain. *)
Theorem C01_unsorted_is_disk_order :
  forall (A G V : Type) (cal : A -> G -> V) raw ns nc gain,
  rect raw ns nc -> zlen gain = nc -> 0 <= nc ->
  order_ok (zrange (Z.to_nat nc)) nc /\
  exists M, calibrated_sorted cal raw (zrange (Z.to_nat nc)) gain = Some M /\
    forall i j v, 0 <= j < nc ->
      ((exists Mrow, zget M i = Some Mrow /\ zget Mrow j = Some v) <->
       (exists row a g, zget raw i = Some row /\ zget row j = Some a /\ zget gain j = Some g /\
                        v = cal a g)).
Proof.
  intros A G V cal raw ns nc gain Hr Hg Hnc.
  pose proof (identity_order_ok nc Hnc) as Ho. split; [exact Ho|].
  destruct (calibrated_sorted_total cal raw ns nc _ gain Hr Ho Hg) as [M HM].
  exists M. split; [exact HM|]. intros i j v Hj.
  rewrite (calibrated_sorted_cell cal raw ns nc _ gain Hr Ho Hg M i j v HM).
  rewrite (zget_zrange (Z.to_nat nc) j) by lia. split.
  - intros [row [c [a [g [H1 [H2 [H3 [H4 H5]]]]]]]]. inversion H2; subst c. exists row, a, g. auto.
  - intros [row [a [g [H1 [H3 [H4 H5]]]]]]. exists row, j, a, g. auto.
Qed.
Print Assumptions C01_unsorted_is_disk_order.

(* Compressed file = uncompressed file on the supported selector domain: for any
   chunk bounds 0 = b0 <= b1 <= .. <= bk = ns (k >= 1), every sample slice whose
   step is None or positive (any start/stop) and every Python int in [-ns, ns),
   with any channel selector, the mtscomp path returns what the memmap path
   returns (so C01_read_eq_np_index transfers).  Index lists raise
   NotImplementedError there, negative steps are refuted below. *)
Theorem C01_cbin_eq_bin :
  forall (A G V : Type) (cal : A -> G -> V) raw nc order gain bounds nsel csel,
  bounds_ok bounds (zlen raw) -> 1 <= zlen raw ->
  match nsel with
  | SInt i => - zlen raw <= i < zlen raw
  | SSlice a b c => 0 < match c with None => 1 | Some st => st end
  | SList _ => False
  end ->
  read cal (Some bounds) raw nc order gain nsel csel = read cal None raw nc order gain nsel csel.
Proof. intros A G V. exact (@cbin_read_eq A G V). Qed.
Print Assumptions C01_cbin_eq_bin.

(* SORTED ALIGNMENT (joint with C08: IBL.C08.Model.geometry is C08's model of
   geometry_from_meta(return_index=True), reader_order is Reader.__init__'s
   `raw_channel_order = arange(nc); raw_channel_order[:order.size] = order`).
   The channel order is no longer data.  For every probe generation, encoding, site
   table with at most nc entries, NP2.4_shank key, recording and gains, sorting ON:
   - raw_channel_order exists, has nc valid entries, is a permutation of the on-disk
     channels; entry i < #sites is the geometry index inds[i]; the remaining (sync)
     columns stay in place;
   - every column of the reader's (sorted) geometry is the unsorted column re-indexed
     by the same inds: entry i describes on-disk site inds[i];
   - the sorted geometry is ordered by shank, then row, then descending column (ties:
     recording order);
   - the calibrated array M in that order exists, its cell (i, j) is
     cal(raw[i][order[j]], gain[order[j]]), and every read (selectors as in
     C01_read_eq_np_index) is NumPy indexing of M.
   Sorting OFF: the geometry index is arange and raw_channel_order is the identity. *)
Theorem C01_sorted_alignment :
  forall (A G V : Type) (cal : A -> G -> V) g e sites split t' inds raw ns nc gain,
  G8.geometry g e sites split true = Some (t', inds) ->
  zlen inds <= nc -> rect raw ns nc -> zlen gain = nc ->
  exists order t M,
    reader_order nc (Some inds) = Some order /\
    order_ok order nc /\ Permutation order (zrange (Z.to_nat nc)) /\
    (forall i, 0 <= i < Z.of_nat (G8.gsize t) -> zget order i = Some (G8.znth inds i)) /\
    (forall i, Z.of_nat (G8.gsize t) <= i < nc -> zget order i = Some i) /\
    G8.geometry g e sites split false = Some (t, zrange (G8.gsize t)) /\
    reader_order nc (Some (zrange (G8.gsize t))) = Some (zrange (Z.to_nat nc)) /\
    G8.columns t' = map (G8.gather inds) (G8.columns t) /\
    (forall i j, 0 <= i -> i < j -> j < Z.of_nat (G8.gsize t') ->
       P8.ordered_at (G8.g_shank t') (G8.g_row t') (G8.g_col t') (G8.g_ind t') i j) /\
    calibrated_sorted cal raw order gain = Some M /\
    (forall i j v,
       (exists Mrow, zget M i = Some Mrow /\ zget Mrow j = Some v) <->
       (exists row c a gn, zget raw i = Some row /\ zget order j = Some c /\
                           zget row c = Some a /\ zget gain c = Some gn /\ v = cal a gn)) /\
    (forall nsel csel, is_fancy nsel && is_fancy csel = false ->
       ((exists x, sel_positions ns nsel = Ok x) \/ (exists x, sel_positions nc csel = Ok x)) ->
       read cal None raw nc order gain nsel csel = np_index2 M ns nc nsel csel).
Proof. intros A G V. exact (@sorted_alignment A G V). Qed.
Print Assumptions C01_sorted_alignment.

(* SYNC UNSCALED (Flocq binary32, exhaustive over all 65 536 int16 values; the sweep
   is SyncSweep.v): float32(x) * 1.0f has the class, sign, mantissa and exponent of
   float32(x) — the sync word is returned bit for bit — and the C cast back to an
   integer gives x. *)
Theorem C01_sync_unscaled : forall x, -32768 <= x <= 32767 ->
  IBL.C03.F32.f32_parts (IBL.C03.F32.sample2v IBL.C03.F32.gain_one x)
    = IBL.C03.F32.f32_parts (IBL.C03.F32.z32 x) /\
  IBL.C03.F32.trunc32 (IBL.C03.F32.sample2v IBL.C03.F32.gain_one x) = x.
Proof. exact sync_unscaled_all. Qed.
Print Assumptions C01_sync_unscaled.

(* GAIN ALIGNMENT (joint with C09: IBL.C09.Model.sample2volts is C09's model of
   _conversion_sample2v_from_meta + Reader.sample2volts on the parsed meta text; entries
   CG g = range/maxint/g, C1 = 1).  Whatever vector C09's model assigns to the stream, used
   as the reader's gain vector in ON-DISK order: the calibrated array exists, its cell (i, j)
   is cal(raw[i][order[j]], g[order[j]]), and every read is NumPy indexing of it. *)
Theorem C01_gain_alignment :
  forall (A V : Type) (cal : A -> M9.conv -> V) d r mi g raw ns nc order,
  M9.sample2volts d = Some (r, mi, g) -> zlen g = nc -> rect raw ns nc -> order_ok order nc ->
  exists M, calibrated_sorted cal raw order g = Some M /\
    (forall i j v,
       (exists Mrow, zget M i = Some Mrow /\ zget Mrow j = Some v) <->
       (exists row c a gc, zget raw i = Some row /\ zget order j = Some c /\
                           zget row c = Some a /\ zget g c = Some gc /\ v = cal a gc)) /\
    (forall nsel csel, is_fancy nsel && is_fancy csel = false ->
       ((exists x, sel_positions ns nsel = Ok x) \/ (exists x, sel_positions nc csel = Ok x)) ->
       read cal None raw nc order g nsel csel = np_index2 M ns nc nsel csel).
Proof. intros A V. exact (@gain_alignment A V). Qed.
Print Assumptions C01_gain_alignment.

(* nidq streams, every layout snsMnMaXaDw = MN,MA,XA,DW with counts >= 0 — ZERO INCLUDED
   (no digital word saved, analog-only, digital-only): the reader's gain vector has
   MN+MA+XA+DW entries; on-disk channel c is scaled by range/maxint/niMNGain for c < MN, by
   range/maxint/niMAGain for the next MA, by range/maxint for the next XA, and is left
   unscaled exactly on the last DW channels; reads are NumPy indexing of the array
   calibrated with these factors. *)
Theorem C01_nidq_gain_alignment :
  forall (A V : Type) (cal : A -> M9.conv -> V) d rng mi gmn gma c0 c1 c2 c3 raw ns nc order,
  M9.int2volt d = Some (rng, mi) ->
  M9.lookup (M9.lit "imroTbl"%string) d = None ->
  M9.lookup (M9.lit "niMNGain"%string) d = Some (M9.VNum gmn) ->
  M9.lookup (M9.lit "niMAGain"%string) d = Some (M9.VNum gma) ->
  M9.lookup (M9.lit "snsMnMaXaDw"%string) d = Some (M9.VList [c0; c1; c2; c3]) ->
  0 <= M9.dec_trunc c0 -> 0 <= M9.dec_trunc c1 -> 0 <= M9.dec_trunc c2 -> 0 <= M9.dec_trunc c3 ->
  M9.get_type d = Some (Some M9.SNidq) ->
  nc = M9.dec_trunc c0 + M9.dec_trunc c1 + M9.dec_trunc c2 + M9.dec_trunc c3 ->
  rect raw ns nc -> order_ok order nc ->
  let n0 := M9.dec_trunc c0 in let n1 := M9.dec_trunc c1 in
  let n2 := M9.dec_trunc c2 in let n3 := M9.dec_trunc c3 in
  exists g M,
    M9.sample2volts d = Some (rng, mi, g) /\ zlen g = nc /\
    (forall c, (0 <= c < n0 -> zget g c = Some (M9.CG gmn)) /\
               (n0 <= c < n0 + n1 -> zget g c = Some (M9.CG gma)) /\
               (n0 + n1 <= c < n0 + n1 + n2 -> zget g c = Some (M9.CG (1, O))) /\
               (n0 + n1 + n2 <= c < nc -> zget g c = Some M9.C1)) /\
    calibrated_sorted cal raw order g = Some M /\
    (forall i j v,
       (exists Mrow, zget M i = Some Mrow /\ zget Mrow j = Some v) <->
       (exists row c a gc, zget raw i = Some row /\ zget order j = Some c /\
                           zget row c = Some a /\ zget g c = Some gc /\ v = cal a gc)) /\
    (forall nsel csel, is_fancy nsel && is_fancy csel = false ->
       ((exists x, sel_positions ns nsel = Ok x) \/ (exists x, sel_positions nc csel = Ok x)) ->
       read cal None raw nc order g nsel csel = np_index2 M ns nc nsel csel).
Proof.
  intros A V cal d rng mi gmn gma c0 c1 c2 c3 raw ns nc order Hi Ht Hmn Hma Hx H0 H1 H2 H3 Hty Hnc Hr Ho.
  cbv zeta.
  destruct (T9.C09_s2v_nidq d rng mi gmn gma c0 c1 c2 c3 Hi Ht Hmn Hma Hx H0 H1 H2 H3) as [Hs _].
  set (g := M9.zrepeat (M9.CG gmn) (M9.dec_trunc c0) ++ M9.zrepeat (M9.CG gma) (M9.dec_trunc c1) ++
            M9.zrepeat (M9.CG (1, O)) (M9.dec_trunc c2) ++ M9.zrepeat M9.C1 (M9.dec_trunc c3)) in *.
  destruct (T9.C09_sample2volts_table d rng mi) as [_ Htab].
  pose proof (Htab g Hs Hty) as Hsv.
  assert (Hlen : zlen g = nc).
  { subst nc. exact (proj1 (nidq_gain_classes gmn gma _ _ _ _ 0 H0 H1 H2 H3)). }
  destruct (gain_alignment cal d rng mi g raw ns nc order Hsv Hlen Hr Ho) as [M [HM [Hc Hrd]]].
  exists g, M. split; [exact Hsv|]. split; [exact Hlen|]. split.
  - intros c. subst nc. destruct (nidq_gain_classes gmn gma _ _ _ _ c H0 H1 H2 H3) as [_ [A1 [A2 [A3 A4]]]].
    auto.
  - auto.
Qed.
Print Assumptions C01_nidq_gain_alignment.

(* mtscomp's own assertions in _chunks_for_interval hold on the calls the reader makes
   (so not modelling them loses nothing): for chunk bounds 0 = b0 <= .. <= bk = ns and a
   non-empty clipped interval i0 < i1 <= ns, 0 <= first <= last <= n_chunks - 1,
   bounds[first] <= i0 and i1 <= bounds[last + 1]. *)
Theorem C01_mtscomp_assertions_hold : forall bounds n i0 i1 first last,
  bounds_ok bounds n -> 0 <= i0 < i1 -> i1 <= n ->
  chunks_for_interval bounds n i0 i1 = (first, last) ->
  0 <= first <= last /\ last + 1 < zlen bounds /\
  bound bounds first <= i0 /\ i1 <= bound bounds (last + 1).
Proof. exact chunks_facts. Qed.
Print Assumptions C01_mtscomp_assertions_hold.

(* CPython's bisect.bisect_right — the binary search, modelled literally (Bisect.bsearch) —
   equals the model's bisect_right (number of leading elements <= x) on every sorted list, from
   any start lo below which all elements are <= x; and _chunks_for_interval computed with the
   real binary search is the model's chunks_for_interval on every valid chunk table.  This
   discharges the former assumption "bisect_right = count of leading bounds <= x". *)
Theorem C01_bisect_right_is_binary_search :
  (forall a x lo, sorted a -> 0 <= lo <= zlen a ->
     (forall i v, 0 <= i < lo -> zget a i = Some v -> v <= x) ->
     bisect_right_bin a x lo = bisect_right a x lo) /\
  (forall bounds n i0 i1, bounds_ok bounds n -> 0 <= i0 < i1 -> i1 <= n ->
     chunks_for_interval_bin bounds n i0 i1 = chunks_for_interval bounds n i0 i1).
Proof. split; [exact bisect_bin_eq|exact chunks_bin_eq]. Qed.
Print Assumptions C01_bisect_right_is_binary_search.

(* WHOLE FILE (joint with C11's model of Reader.open on an uncompressed int16 file): whatever
   duration the .meta claims (more, fewer or as many frames; ignore_warnings only gates a log
   line) and whatever incomplete trailing frame the file has, the reader exposes exactly
   k = floor(nbytes / (2 nc)) frames — all the whole frames physically present — and every read
   (selectors as in C01_read_eq_np_index, negative indices and steps counted from THAT k) is
   NumPy indexing of the calibrated k x nc array. *)
Theorem C01_reads_whole_file :
  forall (A G V : Type) (cal : A -> G -> V) nbytes nc t fs ns0 raw order gain M nsel csel,
  1 <= nc -> 1 <= nbytes -> nbytes / (2 * nc) <= 2 ^ 50 -> IBL.C11.Proofs.fs_ok fs ->
  IBL.C11.Model.ns_meta (Some t) fs = IBL.C11.Model.NsOk ns0 ->
  let k := nbytes / (2 * nc) in
  let rw := negb (nc * ns0 * 2 =? nbytes) in
  IBL.C11.Model.open_bin false 2 nbytes nc (Some t) fs =
    IBL.C11.Model.Opened k nc (if rw then Some (IBL.C11.Model.rl k fs) else Some t) rw /\
  (rect raw k nc -> order_ok order nc -> zlen gain = nc ->
   calibrated_sorted cal raw order gain = Some M ->
   is_fancy nsel && is_fancy csel = false ->
   ((exists x, sel_positions k nsel = Ok x) \/ (exists x, sel_positions nc csel = Ok x)) ->
   read cal None raw nc order gain nsel csel = np_index2 M k nc nsel csel).
Proof.
  intros A G V cal nbytes nc t fs ns0 raw order gain M nsel csel Hnc Hnb Hk Hfs Hns. cbv zeta. split.
  - exact (IBL.C11.Props.C11_offline_exposes_floor 2 nbytes nc t fs ns0 Hnc ltac:(lia) Hnb Hk Hfs Hns).
  - intros Hr Ho Hg. exact (read_eq_np_index cal raw _ nc order gain Hr Ho Hg M nsel csel).
Qed.
Print Assumptions C01_reads_whole_file.

(* The open guard: a reader that was constructed with open=False (or closed) answers no read —
   read, read_samples and reader[...] raise IOError — except reader[tuple of length <> 2], which
   returns None without reading; once opened the calls are the ones described above. *)
Theorem C01_open_guard :
  forall (A G V : Type) (cal : A -> G -> V) cbin raw nc order gain,
  (forall nsel csel, reader_read cal false cbin raw nc order gain nsel csel = NotOpen) /\
  (forall nsel csel, reader_read cal true cbin raw nc order gain nsel csel
                     = Ran (read cal cbin raw nc order gain nsel csel)) /\
  (forall s, reader_getitem cal false cbin raw nc order gain (ISel s) = NotOpen) /\
  (forall a b, reader_getitem cal false cbin raw nc order gain (ITuple [a; b]) = NotOpen) /\
  (forall opened l, length l <> 2%nat ->
     reader_getitem cal opened cbin raw nc order gain (ITuple l) = Ran (Ok None)) /\
  (forall it, reader_getitem cal true cbin raw nc order gain it
              = Ran (getitem cal cbin raw nc order gain it)).
Proof.
  intros A G V cal cbin raw nc order gain. repeat split; try reflexivity.
  - intros opened l Hl. destruct l as [|a [|b [|c r]]]; try reflexivity. contradiction.
  - intros it. destruct it as [s|l]; [reflexivity|]. destruct l as [|a [|b [|c r]]]; reflexivity.
Qed.
Print Assumptions C01_open_guard.

(* The constructor without meta data: the guessed shape covers the file exactly (nc * ns int16
   samples = the file size), it is 384 columns without sync or 385 columns with one sync
   column, 384 having priority when both fit; no guess when neither fits. *)
Theorem C01_guessed_shape_fits_file : forall nbytes,
  (forall nc ns nsync, guess_shape nbytes = Some (nc, ns, nsync) ->
     nc * ns * 2 = nbytes /\ ((nc = 384 /\ nsync = 0) \/ (nc = 385 /\ nsync = 1 /\ nbytes mod 768 <> 0))) /\
  (nbytes mod 768 = 0 -> guess_shape nbytes = Some (384, nbytes / 768, 0)) /\
  (guess_shape nbytes = None <-> nbytes mod 768 <> 0 /\ nbytes mod 770 <> 0).
Proof.
  intros nbytes. unfold guess_shape.
  destruct (nbytes mod 768 =? 0) eqn:E1; [apply Z.eqb_eq in E1|apply Z.eqb_neq in E1].
  - split; [|split].
    + intros nc ns nsync H. inversion H; subst. split; [|left; auto].
      pose proof (Z.div_mod nbytes 768 ltac:(lia)). lia.
    + reflexivity.
    + split; [discriminate|intros [H _]; contradiction].
  - destruct (nbytes mod 770 =? 0) eqn:E2; [apply Z.eqb_eq in E2|apply Z.eqb_neq in E2].
    + split; [|split].
      * intros nc ns nsync H. inversion H; subst. split; [|right; auto].
        pose proof (Z.div_mod nbytes 770 ltac:(lia)). lia.
      * intros H. contradiction.
      * split; [discriminate|intros [_ H]; contradiction].
    + split; [|split].
      * intros nc ns nsync H. discriminate.
      * intros H. contradiction.
      * split; auto.
Qed.
Print Assumptions C01_guessed_shape_fits_file.

(* ---- refuted clauses (faithful model; confirmed on the real code, see notes) ---- *)
Definition ex_raw : list (list (Z * Z)) :=
  map (fun i => map (fun c => (i, c)) [0; 1; 2]) [0; 1; 2; 3].
Definition ex_cal (a : Z * Z) (g : Z) : Z * Z * Z := (fst a, snd a, g).

(* F-C01-a: on a .cbin (here 4 samples in chunks [0,2) [2,4)) reader[::-1] returns
   no rows, while the same call on the .bin returns the 4 rows reversed. *)
Theorem C01_cbin_negstep_refuted :
  exists bounds raw nc order gain nsel csel,
    rect raw 4 nc /\ order_ok order nc /\ zlen gain = nc /\
    read ex_cal (Some bounds) raw nc order gain nsel csel
      <> read ex_cal None raw nc order gain nsel csel.
Proof.
  exists [0; 2; 4], ex_raw, 3, [2; 0; 1], [0; 1; 2],
         (SSlice None None (Some (-1))), (SSlice None None None).
  repeat split; try (repeat constructor; lia). vm_compute. discriminate.
Qed.
Print Assumptions C01_cbin_negstep_refuted.

Example C01_example_bounds_ok : bounds_ok [0; 2; 4] (zlen ex_raw).
Proof.
  repeat split; try (vm_compute; congruence).
  intros j H0 H1. change (zlen [0; 2; 4]) with 3 in H1.
  assert (j = 0 \/ j = 1) as [-> | ->] by lia; vm_compute; congruence.
Qed.

(* ---- non-vacuity ---- *)
Example C01_example_read :
  rect ex_raw 4 3 /\ order_ok [2; 0; 1] 3 /\
  read ex_cal None ex_raw 3 [2; 0; 1] [0; 1; 2] (SSlice (Some (-1)) None (Some (-2))) (SList [0; -1])
    = Ok (false, false, 2, [[(3, 2, 2); (3, 1, 1)]; [(1, 2, 2); (1, 1, 1)]]) /\
  read ex_cal None ex_raw 3 [2; 0; 1] [0; 1; 2] (SInt 4) (SInt 0) = Err EIndex /\
  read ex_cal None ex_raw 3 [2; 0; 1] [0; 1; 2] (SInt (-4)) (SInt (-3)) = Ok (true, true, 1, [[(0, 2, 2)]]) /\
  read ex_cal None ex_raw 3 [2; 0; 1] [0; 1; 2] (SSlice None None (Some 0)) (SInt 0) = Err EValue /\
  read ex_cal (Some [0; 3; 4]) ex_raw 3 [2; 0; 1] [0; 1; 2] (SSlice (Some 1) None (Some 2)) (SInt 1)
    = Ok (false, true, 1, [[(1, 0, 0)]; [(3, 0, 0)]]) /\
  getitem ex_cal None ex_raw 3 [2; 0; 1] [0; 1; 2] (ISel (SList [1; 2]))
    = Ok (Some (false, false, 3, [[(1, 2, 2); (1, 0, 0); (1, 1, 1)]; [(2, 2, 2); (2, 0, 0); (2, 1, 1)]])) /\
  getitem ex_cal None ex_raw 3 [2; 0; 1] [0; 1; 2] (ITuple [SInt 0; SInt 0; SInt 0]) = Ok None.
Proof. repeat split; try (repeat constructor; lia). Qed.

(* hypotheses of C01_read_both_invalid_raise / C01_read_outer on a concrete recording *)
Example C01_example_invalid_and_outer :
  sel_positions 4 (SInt 7) = Err EIndex /\ sel_positions 3 (SSlice None None (Some 0)) = Err EValue /\
  read ex_cal None ex_raw 3 [2; 0; 1] [0; 1; 2] (SInt 7) (SSlice None None (Some 0)) = Err EValue /\
  sel_positions 4 (SList [3; -4]) = Ok (false, [3; 0]) /\ sel_positions 3 (SList [-1; 0]) = Ok (false, [2; 0]) /\
  read ex_cal None ex_raw 3 [2; 0; 1] [0; 1; 2] (SList [3; -4]) (SList [-1; 0])
    = Ok (false, false, 2, [[(3, 1, 1); (3, 2, 2)]; [(0, 1, 1); (0, 2, 2)]]).
Proof. repeat split. Qed.

(* hypotheses of C01_sorted_alignment: an NP2.4 table of 6 sites cycling through shanks 0,1,2
   (imro order), 7 channels on disk (6 sites + sync): the model's geometry index and the
   reader's channel order — a 3-cycle structure, not an involution *)
Definition ex_sites : list G8.site :=
  [(0, 0, 0, 1); (1, 0, 0, 1); (2, 0, 0, 1); (0, 1, 1, 1); (1, 1, 1, 1); (2, 1, 1, 1)].
Example C01_example_alignment :
  exists t' inds, G8.geometry G8.NP24 G8.ShankMap ex_sites None true = Some (t', inds) /\
    inds = [0; 3; 1; 4; 2; 5] /\ zlen inds <= 7 /\
    reader_order 7 (Some inds) = Some [0; 3; 1; 4; 2; 5; 6] /\
    reader_channel_order 7 (Some G8.NP24) (Some G8.ShankMap) ex_sites None true = Some [0; 3; 1; 4; 2; 5; 6] /\
    reader_channel_order 7 (Some G8.NP24) (Some G8.ShankMap) ex_sites None false = Some [0; 1; 2; 3; 4; 5; 6] /\
    reader_channel_order 2 None None [] None true = Some [0; 1].
Proof. eexists. eexists. split; [vm_compute; reflexivity|]. repeat split; vm_compute; congruence. Qed.

(* hypotheses of C01_cbin_eq_bin on a concrete chunked recording (bounds_ok: C01_example_bounds_ok) *)
Example C01_example_cbin :
  1 <= zlen ex_raw /\
  read ex_cal (Some [0; 2; 4]) ex_raw 3 [2; 0; 1] [0; 1; 2] (SSlice (Some (-3)) None (Some 2)) (SInt (-1))
    = read ex_cal None ex_raw 3 [2; 0; 1] [0; 1; 2] (SSlice (Some (-3)) None (Some 2)) (SInt (-1)) /\
  read ex_cal None ex_raw 3 [2; 0; 1] [0; 1; 2] (SSlice (Some (-3)) None (Some 2)) (SInt (-1))
    = Ok (false, true, 1, [[(1, 1, 1)]; [(3, 1, 1)]]) /\
  chunks_for_interval [0; 2; 4] 4 1 4 = (0, 1).
Proof. repeat split; vm_compute; congruence. Qed.

(* hypotheses of C01_nidq_gain_alignment: a nidq meta with NO digital word (2 MN, 1 MA, 2 XA) *)
Definition ex_nidq_file : M9.str :=
  M9.lit ("typeThis=nidq" ++ T9.nl ++ "niAiRangeMax=5" ++ T9.nl ++ "niMNGain=200" ++ T9.nl ++
          "niMAGain=2.5" ++ T9.nl ++ "snsMnMaXaDw=2,1,2,0" ++ T9.nl ++ "nSavedChans=5" ++ T9.nl ++
          "niSampRate=30003.0003" ++ T9.nl)%string.
Example C01_example_nidq_gains : exists d, M9.read_meta ex_nidq_file = Some d /\
  M9.int2volt d = Some ((5, O), 32768) /\ M9.lookup (M9.lit "imroTbl"%string) d = None /\
  M9.lookup (M9.lit "niMNGain"%string) d = Some (M9.VNum (200, O)) /\
  M9.lookup (M9.lit "niMAGain"%string) d = Some (M9.VNum (25, 1%nat)) /\
  M9.lookup (M9.lit "snsMnMaXaDw"%string) d = Some (M9.VList [(2, O); (1, O); (2, O); (0, O)]) /\
  M9.get_type d = Some (Some M9.SNidq) /\
  reader_gains ex_nidq_file =
    Some ((5, O), 32768, [M9.CG (200, O); M9.CG (200, O); M9.CG (25, 1%nat); M9.CG (1, O); M9.CG (1, O)]).
Proof. eexists. split; [vm_compute; reflexivity|]. repeat split; vm_compute; reflexivity. Qed.

(* the binary search on a concrete table *)
Example C01_example_bisect :
  bisect_right_bin [0; 3; 3; 7; 10] 3 0 = 3 /\ bisect_right [0; 3; 3; 7; 10] 3 0 = 3 /\
  bisect_right_bin [0; 3; 3; 7; 10] 9 2 = 4 /\ chunks_for_interval_bin [0; 3; 7; 10] 10 2 8 = (0, 2).
Proof. repeat split. Qed.

Example C01_example_guess :
  guess_shape (5 * 385 * 2) = Some (385, 5, 1) /\ guess_shape (6 * 384 * 2) = Some (384, 6, 0) /\
  guess_shape (384 * 385 * 2) = Some (384, 385, 0) /\ guess_shape 1000 = None.
Proof. repeat split. Qed.

(* a nidq stream without site map keeps the identity order whatever probe generation its meta
   carries (3A-era nidq files); an imec stream without map takes the default geometry *)
Example C01_example_nidq_3a_order :
  reader_channel_order_t 5 true (Some G8.NP1) None [] None true = Some [0; 1; 2; 3; 4] /\
  reader_channel_order_t 5 true None None [] None true = Some [0; 1; 2; 3; 4] /\
  reader_channel_order_t 5 false (Some G8.NP1) None [] None true = None /\
  reader_channel_order_t 7 false (Some G8.NP24) (Some G8.ShankMap) ex_sites None true = Some [0; 3; 1; 4; 2; 5; 6].
Proof. repeat split; vm_compute; congruence. Qed.
