(* C01 — the gain side through C09's model of the meta file: the volts-per-bit
   vector the reader uses is C09's `sample2volts` of the parsed meta text
   (symbolic entries: CG g = range/maxint/g, C1 = 1), in ON-DISK channel order.
   Definitions only. *)
From Coq Require Import ZArith List Bool.
Require IBL.C09.Model.
Import ListNotations.
Open Scope Z_scope.

(* Reader.channel_conversion_sample2v[Reader.type] for a meta file given as text *)
Definition reader_gains (file : IBL.C09.Model.str)
  : option (IBL.C09.Model.dec * Z * list IBL.C09.Model.conv) :=
  match IBL.C09.Model.read_meta file with
  | Some d => IBL.C09.Model.sample2volts d
  | None => None
  end.
