(* Generic glue for the correspondence check: every property exposes
     run : list Z -> list Z
   (a flat integer encoding of one input and of the model's observable output).
   The harness either evaluates `mismatches` with vm_compute on generated cases
   or drives the OCaml extraction of `run` line by line. *)
From Coq Require Import ZArith List Bool.
Import ListNotations.
Open Scope Z_scope.

Fixpoint zlist_eqb (a b : list Z) : bool :=
  match a, b with
  | [], [] => true
  | x :: a', y :: b' => (x =? y) && zlist_eqb a' b'
  | _, _ => false
  end.

(* a case: (id, input, output observed on the implementation) *)
Definition mismatches_of (run : list Z -> list Z) (cs : list (Z * list Z * list Z)) : list Z :=
  flat_map (fun c => let '(id, inp, out) := c in
                     if zlist_eqb (run inp) out then [] else [id]) cs.

(* encoders *)
Definition enc_bool (b : bool) : Z := if b then 1 else 0.
Definition enc_list {A} (enc : A -> list Z) (l : list A) : list Z :=
  Z.of_nat (length l) :: flat_map enc l.
Definition enc_zlist (l : list Z) : list Z := Z.of_nat (length l) :: l.
Definition enc_option {A} (enc : A -> list Z) (o : option A) : list Z :=
  match o with None => [0] | Some a => 1 :: enc a end.

(* decoders: take n elements *)
Definition take_z (n : Z) (l : list Z) : list Z * list Z :=
  (firstn (Z.to_nat n) l, skipn (Z.to_nat n) l).
(* length-prefixed list *)
Definition dec_zlist (l : list Z) : list Z * list Z :=
  match l with [] => ([], []) | n :: r => take_z n r end.
