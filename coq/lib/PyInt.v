(* Python / NumPy integer idioms used by the models.  Definitions and a few
   characterising lemmas; Z only. *)
From Coq Require Import ZArith List Bool Lia.
Import ListNotations.
Open Scope Z_scope.

(* ceil(a / b) for b > 0, as an exact integer (Python: int(np.ceil(a / b))). *)
Definition cdiv (a b : Z) : Z := - ((- a) / b).

Lemma cdiv_spec a b : 0 < b -> (cdiv a b - 1) * b < a <= cdiv a b * b.
Proof.
  intros Hb. unfold cdiv.
  pose proof (Z.div_mod (- a) b ltac:(lia)) as Hdm.
  pose proof (Z.mod_pos_bound (- a) b Hb) as Hm.
  nia.
Qed.

Lemma cdiv_unique a b q : 0 < b -> (q - 1) * b < a <= q * b -> cdiv a b = q.
Proof.
  intros Hb Hq. pose proof (cdiv_spec a b Hb) as Hs. nia.
Qed.

Lemma cdiv_nonneg a b : 0 < b -> 0 <= a -> 0 <= cdiv a b.
Proof. intros Hb Ha. pose proof (cdiv_spec a b Hb). nia. Qed.

Lemma cdiv_pos a b : 0 < b -> 0 < a -> 0 < cdiv a b.
Proof. intros Hb Ha. pose proof (cdiv_spec a b Hb). nia. Qed.

Lemma cdiv_nonpos a b : 0 < b -> a <= 0 -> cdiv a b <= 0.
Proof. intros Hb Ha. pose proof (cdiv_spec a b Hb). nia. Qed.

(* range(n) as a list of Z, built from a nat count (counts are small). *)
Definition zrange (n : nat) : list Z := map Z.of_nat (seq 0 n).

Lemma zrange_length n : length (zrange n) = n.
Proof. unfold zrange. now rewrite map_length, seq_length. Qed.

Lemma in_zrange n k : In k (zrange n) <-> 0 <= k < Z.of_nat n.
Proof.
  unfold zrange. rewrite in_map_iff. split.
  - intros [i [<- Hi]]. apply in_seq in Hi. lia.
  - intros Hk. exists (Z.to_nat k). split; [lia|]. apply in_seq. lia.
Qed.

(* Python floor division and modulo coincide with Coq's Z.div / Z.modulo
   (both round towards minus infinity; sign of the remainder follows the
   divisor).  Named so that models read like the source. *)
Definition pydiv (a b : Z) : Z := a / b.
Definition pymod (a b : Z) : Z := a mod b.

(* int(x) on an exact quotient: truncation towards zero. *)
Definition pytrunc_div (a b : Z) : Z := Z.quot a b.
