(* C07 — lemmas about the fshift / parabolic_max model. *)
From Coq Require Import ZArith List Bool Lia Field Arith.
From IBL.C07 Require Import Model Sums.
Import ListNotations.

Section DFT.
Variable C : Type.
Variables (c0 c1 : C) (cadd cmul : C -> C -> C) (copp cinv cconj : C -> C).
Hypothesis Cf : field_theory c0 c1 cadd cmul (fsub C cadd copp) copp (fdiv C cmul cinv) cinv (@eq C).
Add Field Cfield2 : Cf.

Local Notation "a + b" := (cadd a b).
Local Notation "a * b" := (cmul a b).
Local Notation "a - b" := (fsub C cadd copp a b).
Local Notation "- a" := (copp a).
Local Notation "0" := c0.
Local Notation "1" := c1.
Local Notation sum := (sumn C c0 cadd).
Local Notation natC := (natC C c0 c1 cadd).
Local Notation re := (re C c1 cadd cmul cinv cconj).
Local Notation zn := Z.of_nat.

(* conj is a ring involution *)
Hypothesis conj_add : forall a b, cconj (a + b) = cconj a + cconj b.
Hypothesis conj_mul : forall a b, cconj (a * b) = cconj a * cconj b.
Hypothesis conj_inv : forall a, cconj (cconj a) = a.

Variable n : nat.
Hypothesis Hn : (1 <= n)%nat.
Variable w : Z -> C.
Hypothesis wadd : forall a b, w (a + b)%Z = w a * w b.
Hypothesis wn : w (zn n) = 1.
Hypothesis wprim : forall d, (0 < d < zn n)%Z -> w d <> 1.
Hypothesis wconj : forall k, cconj (w k) = w (- k)%Z.
Hypothesis nC_ne0 : natC n <> 0.
Hypothesis two_ne0 : 1 + 1 <> 0.

Set Default Proof Using "Cf conj_add conj_mul conj_inv Hn wadd wn wprim wconj nC_ne0 two_ne0".

Local Notation rfft := (rfft_at C c0 cadd cmul n w).
Local Notation irfft := (irfft_at C c0 c1 cadd cmul cinv cconj n w).
Local Notation fshift := (fshift_fun C c0 c1 cadd cmul cinv cconj n w).
Local Notation roll := (roll_fun C n).

(* ---- conj ---- *)
Lemma conj_0 : cconj 0 = 0.
Proof.
  pose proof (conj_add 0 0) as H. replace (0 + 0) with 0 in H by ring.
  assert (E : cconj 0 = (cconj 0 + cconj 0) - cconj 0) by ring.
  rewrite <- H in E. rewrite E. ring.
Qed.

Lemma conj_1 : cconj 1 = 1.
Proof.
  pose proof (conj_mul (cconj 1) 1) as H.
  replace (cconj 1 * 1) with (cconj 1) in H by ring.
  rewrite conj_inv in H. rewrite H at 2. ring.
Qed.

Lemma conj_opp a : cconj (- a) = - cconj a.
Proof.
  pose proof (conj_add a (- a)) as H. replace (a + - a) with 0 in H by ring.
  rewrite conj_0 in H.
  assert (E : cconj (- a) = (cconj a + cconj (- a)) - cconj a) by ring.
  rewrite <- H in E. rewrite E. ring.
Qed.

Lemma conj_sum f m : cconj (sum f m) = sum (fun i => cconj (f i)) m.
Proof. induction m as [|m IH]; cbn [sumn]; [apply conj_0|]. now rewrite conj_add, IH. Qed.

Lemma conj_natC m : cconj (natC m) = natC m.
Proof.
  unfold Model.natC. rewrite conj_sum. apply sum_ext with (cmul := cmul) (copp := copp) (cinv := cinv) (c1 := c1); auto.
  intros. apply conj_1.
Qed.

Lemma conj_cinv a : a <> 0 -> cconj (cinv a) = cinv (cconj a).
Proof.
  intros Ha.
  assert (Hca : cconj a <> 0).
  { intros E. apply Ha. rewrite <- (conj_inv a), E. apply conj_0. }
  pose proof (conj_mul a (cinv a)) as H.
  replace (a * cinv a) with 1 in H by (field; exact Ha). rewrite conj_1 in H.
  assert (E : cconj (cinv a) = cinv (cconj a) * (cconj a * cconj (cinv a))) by (field; exact Hca).
  rewrite <- H in E. rewrite E. ring.
Qed.

Lemma conj_two : cconj (1 + 1) = 1 + 1.
Proof. now rewrite conj_add, conj_1. Qed.

Lemma conj_re z : cconj (re z) = re z.
Proof.
  unfold Model.re. rewrite conj_mul, conj_add, conj_inv, conj_cinv, conj_two by exact two_ne0. ring.
Qed.

Lemma re_real_mul a z : cconj a = a -> re (a * z) = a * re z.
Proof. intros Ha. unfold Model.re. rewrite conj_mul, Ha. ring. Qed.

Lemma re_of_real a : cconj a = a -> re a = a.
Proof. intros Ha. unfold Model.re. rewrite Ha. field. exact two_ne0. Qed.

(* ---- the twiddle homomorphism ---- *)
Lemma w0 : w 0%Z = 1.
Proof.
  pose proof (wadd (zn n) 0) as H. rewrite Z.add_0_r, wn in H.
  rewrite H. ring.
Qed.

Lemma w_neg a : w (- a)%Z * w a = 1.
Proof. rewrite <- wadd. replace (- a + a)%Z with 0%Z by lia. apply w0. Qed.

Lemma w_ne0 a : w a <> 0.
Proof.
  intros E. pose proof (w_neg a) as H. rewrite E in H.
  replace (w (- a)%Z * 0) with 0 in H by ring.
  destruct Cf as [_ F10 _ _]. apply F10. now symmetry.
Qed.

Lemma w_nmul_nat m : w (zn n * zn m)%Z = 1.
Proof.
  induction m as [|m IH].
  - rewrite Z.mul_0_r. apply w0.
  - replace (zn n * zn (S m))%Z with (zn n * zn m + zn n)%Z by lia.
    rewrite wadd, IH, wn. ring.
Qed.

Lemma w_nmul m : w (zn n * m)%Z = 1.
Proof.
  destruct (Z_le_gt_dec 0 m) as [Hm|Hm].
  - rewrite <- (Z2Nat.id m Hm). apply w_nmul_nat.
  - pose proof (w_neg (zn n * (- m))%Z) as H.
    replace (- (zn n * - m))%Z with (zn n * m)%Z in H by lia.
    replace (- m)%Z with (zn (Z.to_nat (- m))) in H by lia.
    rewrite w_nmul_nat in H. rewrite <- H. ring.
Qed.

Lemma w_period a m : w (a + zn n * m)%Z = w a.
Proof. rewrite wadd, w_nmul. ring. Qed.

Lemma w_mod a : w a = w (a mod zn n)%Z.
Proof.
  rewrite (Z.div_mod a (zn n)) at 1 by lia.
  rewrite Z.add_comm. apply w_period.
Qed.

Lemma w_ne1 d : (d mod zn n <> 0)%Z -> w d <> 1.
Proof.
  intros Hd. rewrite w_mod. apply wprim.
  pose proof (Z.mod_pos_bound d (zn n) ltac:(lia)). lia.
Qed.

Lemma w_eq a b : ((a - b) mod zn n = 0)%Z -> w a = w b.
Proof.
  intros H. apply Z.mod_divide in H; [|lia]. destruct H as [q Hq].
  replace a with (b + zn n * q)%Z by lia. apply w_period.
Qed.

(* ---- geometric sum and orthogonality ---- *)
Lemma geom d m : (w d - 1) * sum (fun k => w (zn k * d)%Z) m = w (zn m * d)%Z - 1.
Proof.
  induction m as [|m IH]; cbn [sumn].
  - rewrite Z.mul_0_l, w0. ring.
  - replace (zn (S m) * d)%Z with (zn m * d + d)%Z by lia. rewrite wadd.
    transitivity ((w d - 1) * sum (fun k => w (zn k * d)%Z) m + (w d - 1) * w (zn m * d)%Z); [ring|].
    rewrite IH. ring.
Qed.

Lemma ortho d :
  sum (fun k => w (zn k * d)%Z) n = if (d mod zn n =? 0)%Z then natC n else 0.
Proof.
  destruct (d mod zn n =? 0)%Z eqn:E.
  - apply Z.eqb_eq in E.
    rewrite (sum_ext C c0 c1 cadd cmul copp cinv Cf _ (fun _ => 1)).
    + rewrite (sum_const C c0 c1 cadd cmul copp cinv Cf). ring.
    + intros i _. rewrite <- w0. apply w_eq.
      rewrite Z.sub_0_r, <- Zmult_mod_idemp_r, E, Z.mul_0_r. apply Z.mod_0_l. lia.
  - apply Z.eqb_neq in E.
    apply (mul_eq_0_l C c0 c1 cadd cmul copp cinv Cf (w d - 1)).
    + rewrite geom, w_nmul. ring.
    + intros H. apply (w_ne1 d E).
      assert (E2 : w d = (w d - 1) + 1) by ring. rewrite E2, H. ring.
Qed.


Local Notation S_ext := (sum_ext C c0 c1 cadd cmul copp cinv Cf).
Local Notation S_zero := (sum_zero C c0 c1 cadd cmul copp cinv Cf).
Local Notation S_add := (sum_add C c0 c1 cadd cmul copp cinv Cf).
Local Notation S_scale := (sum_scale C c0 c1 cadd cmul copp cinv Cf).
Local Notation S_scale_r := (sum_scale_r C c0 c1 cadd cmul copp cinv Cf).
Local Notation S_swap := (sum_swap C c0 c1 cadd cmul copp cinv Cf).
Local Notation S_split := (sum_split C c0 c1 cadd cmul copp cinv Cf).
Local Notation S_rev := (sum_rev C c0 c1 cadd cmul copp cinv Cf).
Local Notation S_single := (sum_single C c0 c1 cadd cmul copp cinv Cf).

(* full-spectrum DFT coefficient: the rfft formula at any bin k *)
(* sum_k F_k * mult_k * w(jk) with mult_k = w(-(k m)) is n * x[(j-m) mod n] *)
Lemma dft_shift_inv (x : nat -> C) (m : Z) (j : nat) :
  sum (fun k => rfft x k * w (- (zn k * m))%Z * w (zn j * zn k)%Z) n
  = natC n * roll m x j.
Proof.
  unfold rfft_at, roll_fun.
  set (l0 := Z.to_nat ((zn j - m) mod zn n)).
  assert (Hl0 : (l0 < n)%nat).
  { unfold l0. pose proof (Z.mod_pos_bound (zn j - m) (zn n) ltac:(lia)). lia. }
  rewrite (S_ext _ (fun k => sum (fun l => x l * w (zn k * (zn j - zn l - m))%Z) n)).
  2:{ intros k _. rewrite <- S_scale_r, <- S_scale_r. apply S_ext. intros l _.
      replace (zn k * (zn j - zn l - m))%Z with
        (- (zn l * zn k) + (- (zn k * m) + zn j * zn k))%Z by ring.
      rewrite !wadd. ring. }
  rewrite S_swap.
  rewrite (S_ext _ (fun l => x l * (if ((zn j - zn l - m) mod zn n =? 0)%Z then natC n else 0))).
  2:{ intros l _. rewrite S_scale. now rewrite ortho. }
  rewrite (S_single _ n l0 Hl0).
  - replace ((zn j - zn l0 - m) mod zn n =? 0)%Z with true; [ring|].
    symmetry. apply Z.eqb_eq. unfold l0.
    rewrite Z2Nat.id by (pose proof (Z.mod_pos_bound (zn j - m) (zn n) ltac:(lia)); lia).
    replace (zn j - (zn j - m) mod zn n - m)%Z with ((zn j - m) - (zn j - m) mod zn n)%Z by ring.
    rewrite Zminus_mod_idemp_r, Z.sub_diag. apply Z.mod_0_l. lia.
  - intros l Hl Hne.
    replace ((zn j - zn l - m) mod zn n =? 0)%Z with false; [ring|].
    symmetry. apply Z.eqb_neq. intros E. apply Hne. unfold l0.
    apply Z.mod_divide in E; [|lia]. destruct E as [q Hq].
    replace (zn j - m)%Z with (zn l + q * zn n)%Z by lia.
    rewrite Z.mod_add by lia. rewrite Z.mod_small by lia. lia.
Qed.

(* forward transform of an inverse transform gives back the spectrum *)
Lemma dft_forward_inv (Zs : nat -> C) (k : nat) : (k < n)%nat ->
  rfft (fun j => cinv (natC n) * sum (fun k' => Zs k' * w (zn j * zn k')%Z) n) k = Zs k.
Proof.
  intros Hk. unfold rfft_at.
  rewrite (S_ext _ (fun j => cinv (natC n) * sum (fun k' => Zs k' * w (zn j * (zn k' - zn k))%Z) n)).
  2:{ intros j _.
      transitivity (cinv (natC n) * (sum (fun k' => Zs k' * w (zn j * zn k')%Z) n * w (- (zn j * zn k))%Z)); [ring|].
      f_equal. rewrite <- S_scale_r. apply S_ext. intros k' _.
      replace (zn j * (zn k' - zn k))%Z with (zn j * zn k' + - (zn j * zn k))%Z by ring.
      rewrite wadd. ring. }
  rewrite S_scale, S_swap.
  rewrite (S_ext _ (fun k' => Zs k' * (if ((zn k' - zn k) mod zn n =? 0)%Z then natC n else 0))).
  2:{ intros k' _. rewrite S_scale. now rewrite ortho. }
  rewrite (S_single _ n k Hk).
  - rewrite Z.sub_diag, Z.mod_0_l by lia. cbn [Z.eqb]. field. exact nC_ne0.
  - intros k' Hk' Hne.
    replace ((zn k' - zn k) mod zn n =? 0)%Z with false; [ring|].
    symmetry. apply Z.eqb_neq. intros E. apply Hne.
    apply Z.mod_divide in E; [|lia]. destruct E as [q Hq].
    assert (Hq0 : (-1 < q < 1)%Z) by (split; apply (Zmult_lt_reg_r _ _ (zn n)); lia).
    lia.
Qed.

(* Hermitian symmetry of the spectrum of a real signal *)
Definition real_sig (x : nat -> C) : Prop := forall j, (j < n)%nat -> cconj (x j) = x j.

Lemma rfft_hermitian x k : real_sig x -> (k <= n)%nat -> rfft x (n - k) = cconj (rfft x k).
Proof.
  intros Hx Hk. unfold rfft_at. rewrite conj_sum. apply S_ext. intros j Hj.
  rewrite conj_mul, Hx, wconj by exact Hj. f_equal. apply w_eq.
  replace (- (zn j * zn (n - k)) - - - (zn j * zn k))%Z with (zn n * (- zn j))%Z
    by (rewrite Nat2Z.inj_sub by lia; ring).
  rewrite Z.mul_comm. apply Z.mod_mul. lia.
Qed.

Lemma rfft0_real x : real_sig x -> cconj (rfft x 0) = rfft x 0.
Proof.
  intros Hx. unfold rfft_at. rewrite conj_sum. apply S_ext. intros j Hj.
  rewrite conj_mul, Hx, wconj by exact Hj. rewrite Z.mul_0_r. reflexivity.
Qed.

Lemma rfft_nyq_real x : real_sig x -> Nat.even n = true ->
  cconj (rfft x (n / 2)) = rfft x (n / 2).
Proof.
  intros Hx He. rewrite <- rfft_hermitian by (auto; apply Nat.div_le_upper_bound; lia).
  f_equal. apply Nat.even_spec in He. destruct He as [q Hq].
  assert (n / 2 = q)%nat by (rewrite Hq, Nat.mul_comm; apply Nat.div_mul; lia). lia.
Qed.

(* ---- splitting a full sum into DC + mirrored pairs (+ Nyquist) ---- *)
Lemma sum_mirror_odd (G : nat -> C) m : n = (2 * m + 1)%nat ->
  sum G n = G 0%nat + sum (fun k' => G (S k') + G (n - S k')%nat) m.
Proof.
  intros E. rewrite S_add.
  replace n with (1 + m + m)%nat at 1 by lia. rewrite !S_split. cbn [sumn].
  rewrite (S_rev (fun i => G (1 + m + i)%nat) m).
  rewrite (S_ext (fun i => G (1 + m + (m - 1 - i))%nat) (fun k' => G (n - S k')%nat))
    by (intros; f_equal; lia).
  rewrite (S_ext (fun i => G (1 + i)%nat) (fun k' => G (S k'))) by reflexivity.
  ring.
Qed.

Lemma sum_mirror_even (G : nat -> C) m : n = (2 * m + 2)%nat ->
  sum G n = G 0%nat + sum (fun k' => G (S k') + G (n - S k')%nat) m + G (m + 1)%nat.
Proof.
  intros E. rewrite S_add.
  replace n with (1 + m + 1 + m)%nat at 1 by lia. rewrite !S_split. cbn [sumn].
  rewrite (S_rev (fun i => G (1 + m + 1 + i)%nat) m).
  rewrite (S_ext (fun i => G (1 + m + 1 + (m - 1 - i))%nat) (fun k' => G (n - S k')%nat))
    by (intros; f_equal; lia).
  rewrite (S_ext (fun i => G (1 + i)%nat) (fun k' => G (S k'))) by reflexivity.
  replace (1 + m + 0)%nat with (m + 1)%nat by lia.
  ring.
Qed.


(* ---- the half-spectrum path equals a full-spectrum multiplier ---- *)
(* effective multiplier on the full spectrum 0..n-1 induced by the half table p *)
Definition Pext (p : nat -> C) (k : nat) : C :=
  if (k =? 0)%nat then re (p 0%nat)
  else if (2 * k <? n)%nat then p k
  else if (2 * k =? n)%nat then re (p k)
  else cconj (p (n - k)%nat).

Lemma Pext_0 p : Pext p 0 = re (p 0%nat).
Proof. reflexivity. Qed.

Lemma Pext_low p k : (0 < k)%nat -> (2 * k < n)%nat -> Pext p k = p k.
Proof.
  intros H0 H1. unfold Pext.
  destruct (Nat.eqb_spec k 0); [lia|]. destruct (Nat.ltb_spec (2 * k) n); [reflexivity|lia].
Qed.

Lemma Pext_nyq p k : (2 * k = n)%nat -> Pext p k = re (p k).
Proof.
  intros H1. unfold Pext.
  destruct (Nat.eqb_spec k 0); [lia|]. destruct (Nat.ltb_spec (2 * k) n); [lia|].
  destruct (Nat.eqb_spec (2 * k) n); [reflexivity|lia].
Qed.

Lemma Pext_high p k : (n < 2 * k)%nat -> Pext p k = cconj (p (n - k)%nat).
Proof.
  intros H1. unfold Pext.
  destruct (Nat.eqb_spec k 0); [lia|]. destruct (Nat.ltb_spec (2 * k) n); [lia|].
  destruct (Nat.eqb_spec (2 * k) n); [lia|reflexivity].
Qed.

Lemma parity_cases :
  (exists m, n = (2 * m + 1)%nat /\ Nat.even n = false /\ ((n - 1) / 2 = m)%nat) \/
  (exists m, n = (2 * m + 2)%nat /\ Nat.even n = true /\ ((n - 1) / 2 = m)%nat /\ (n / 2 = m + 1)%nat).
Proof.
  destruct (Nat.even n) eqn:He.
  - right. apply Nat.even_spec in He. destruct He as [q Hq]. exists (q - 1)%nat.
    repeat split; try lia.
    + replace (n - 1)%nat with (1 + (q - 1) * 2)%nat by lia. rewrite Nat.div_add by lia. reflexivity.
    + replace n with (0 + q * 2)%nat by lia. rewrite Nat.div_add by lia. cbn. lia.
  - left. assert (Ho : Nat.odd n = true) by (unfold Nat.odd; now rewrite He).
    apply Nat.odd_spec in Ho. destruct Ho as [q Hq]. exists q. repeat split; try lia.
    replace (n - 1)%nat with (0 + q * 2)%nat by lia. rewrite Nat.div_add by lia. reflexivity.
Qed.

Lemma w_mirror j k : (k <= n)%nat -> w (zn j * zn (n - k))%Z = w (- (zn j * zn k))%Z.
Proof.
  intros Hk. apply w_eq.
  replace (zn j * zn (n - k) - - (zn j * zn k))%Z with (zn j * zn n)%Z
    by (rewrite Nat2Z.inj_sub by lia; ring).
  apply Z.mod_mul. lia.
Qed.

Lemma fshift_full p x j : real_sig x ->
  natC n * fshift p x j = sum (fun k => rfft x k * Pext p k * w (zn j * zn k)%Z) n.
Proof.
  intros Hx. unfold fshift_fun, irfft_at.
  assert (Hmid : forall m, (2 * m < n)%nat ->
    sum (fun k' => rfft x (S k') * p (S k') * w (zn j * zn (S k'))%Z + cconj (rfft x (S k') * p (S k')) * w (- (zn j * zn (S k')))%Z) m
    = sum (fun k' => rfft x (S k') * Pext p (S k') * w (zn j * zn (S k'))%Z
                     + rfft x (n - S k') * Pext p (n - S k') * w (zn j * zn (n - S k'))%Z) m).
  { intros m Hm. apply S_ext. intros k' Hk'.
    rewrite Pext_low by lia. rewrite Pext_high by lia.
    replace (n - (n - S k'))%nat with (S k') by lia.
    rewrite rfft_hermitian by (auto; lia). rewrite w_mirror by lia.
    rewrite conj_mul. ring. }
  destruct parity_cases as [[m (E & He & Hh)]|[m (E & He & Hh & Hh2)]].
  - rewrite (sum_mirror_odd _ m E), He, Hh, (Hmid m) by lia.
    rewrite Pext_0, Z.mul_0_r, w0.
    rewrite re_real_mul by (apply rfft0_real; exact Hx).
    field. exact nC_ne0.
  - rewrite (sum_mirror_even _ m E), He, Hh, Hh2, (Hmid m) by lia.
    rewrite Pext_0, Z.mul_0_r, w0. rewrite Pext_nyq by lia.
    rewrite re_real_mul by (apply rfft0_real; exact Hx).
    rewrite re_real_mul by (rewrite <- Hh2; apply rfft_nyq_real; auto).
    field. exact nC_ne0.
Qed.


Lemma mul_cancel_l a b c : a <> 0 -> a * b = a * c -> b = c.
Proof.
  intros Ha H. assert (E : b = cinv a * (a * b)) by (field; exact Ha).
  rewrite E, H. field. exact Ha.
Qed.

Lemma w_real_half j k : (2 * k = n)%nat -> cconj (w (zn j * zn k)%Z) = w (zn j * zn k)%Z.
Proof.
  intros Hk. rewrite wconj. apply w_eq.
  replace (- (zn j * zn k) - zn j * zn k)%Z with (zn n * (- zn j))%Z by lia.
  rewrite Z.mul_comm. apply Z.mod_mul. lia.
Qed.

(* ---- integer shift = circular roll (any sign, any magnitude) ---- *)
Lemma Pext_int p m : (forall k, (2 * k <= n)%nat -> p k = w (- (zn k * m))%Z) ->
  forall k, (k < n)%nat -> Pext p k = w (- (zn k * m))%Z.
Proof.
  intros Hp k Hk.
  destruct (Nat.eq_dec k 0) as [->|Hk0].
  - rewrite Pext_0, Hp by lia. cbn [Z.of_nat Z.mul Z.opp]. rewrite w0.
    apply re_of_real, conj_1.
  - destruct (lt_eq_lt_dec (2 * k) n) as [[Hlt|Heq]|Hgt].
    + rewrite Pext_low by lia. apply Hp. lia.
    + rewrite Pext_nyq, Hp by lia. apply re_of_real. rewrite wconj. apply w_eq.
      replace (- - (zn k * m) - - (zn k * m))%Z with (zn n * m)%Z by lia.
      rewrite Z.mul_comm. apply Z.mod_mul. lia.
    + rewrite Pext_high, Hp by lia. rewrite wconj. apply w_eq.
      replace (- - (zn (n - k) * m) - - (zn k * m))%Z with (zn n * m)%Z
        by (rewrite Nat2Z.inj_sub by lia; ring).
      rewrite Z.mul_comm. apply Z.mod_mul. lia.
Qed.

Lemma fshift_int_roll p x m j : real_sig x ->
  (forall k, (2 * k <= n)%nat -> p k = w (- (zn k * m))%Z) ->
  fshift p x j = roll m x j.
Proof.
  intros Hx Hp. apply (mul_cancel_l (natC n)); [exact nC_ne0|].
  rewrite fshift_full by exact Hx. rewrite <- dft_shift_inv.
  apply S_ext. intros k Hk. now rewrite (Pext_int p m Hp k Hk).
Qed.

Lemma roll_0 x j : (j < n)%nat -> roll 0 x j = x j.
Proof.
  intros Hj. unfold roll_fun. rewrite Z.sub_0_r, Z.mod_small by lia. now rewrite Nat2Z.id.
Qed.

Lemma fshift_id p x j : real_sig x -> (j < n)%nat ->
  (forall k, (2 * k <= n)%nat -> p k = 1) -> fshift p x j = x j.
Proof.
  intros Hx Hj Hp. rewrite (fshift_int_roll p x 0 j Hx); [now apply roll_0|].
  intros k Hk. rewrite Hp, Z.mul_0_r by exact Hk. cbn [Z.opp]. now rewrite w0.
Qed.

(* ---- the output is real ---- *)
Lemma fshift_real p x : real_sig (fshift p x).
Proof.
  intros j _. unfold fshift_fun, irfft_at.
  rewrite conj_mul, conj_cinv, conj_natC by exact nC_ne0. f_equal.
  rewrite !conj_add, conj_re, conj_sum. f_equal; [f_equal|].
  - apply S_ext. intros k' _.
    set (Yk := rfft x (S k') * p (S k')).
    rewrite conj_add, !conj_mul, conj_inv, !wconj, Z.opp_involutive. ring.
  - destruct (Nat.even n) eqn:He; [|apply conj_0].
    rewrite conj_mul, conj_re. f_equal. apply w_real_half.
    apply Nat.even_spec in He. destruct He as [q Hq].
    assert (n / 2 = q)%nat by (rewrite Hq, Nat.mul_comm; apply Nat.div_mul; lia). lia.
Qed.

Lemma rfft_ext x y k : (forall j, (j < n)%nat -> x j = y j) -> rfft x k = rfft y k.
Proof. intros H. unfold rfft_at. apply S_ext. intros j Hj. now rewrite H. Qed.

(* spectrum of the shifted signal *)
Lemma rfft_fshift p x k : real_sig x -> (k < n)%nat ->
  rfft (fshift p x) k = rfft x k * Pext p k.
Proof.
  intros Hx Hk.
  rewrite (rfft_ext _ (fun j => cinv (natC n) * sum (fun k' => (rfft x k' * Pext p k') * w (zn j * zn k')%Z) n)).
  - now apply (dft_forward_inv (fun k' => rfft x k' * Pext p k')).
  - intros j _. rewrite <- fshift_full by exact Hx. field. exact nC_ne0.
Qed.

(* ---- composition ---- *)
Definition pmul (p q : nat -> C) (k : nat) : C := p k * q k.

Lemma fshift_compose_full p q x j : real_sig x ->
  natC n * fshift q (fshift p x) j =
  sum (fun k => rfft x k * (Pext p k * Pext q k) * w (zn j * zn k)%Z) n.
Proof.
  intros Hx. rewrite fshift_full by apply fshift_real.
  apply S_ext. intros k Hk. rewrite rfft_fshift by auto. ring.
Qed.

Lemma Pext_pmul_low p q k : (0 < k)%nat -> (2 * k <> n)%nat ->
  Pext (pmul p q) k = Pext p k * Pext q k.
Proof.
  intros Hk Hne. destruct (lt_dec (2 * k) n).
  - now rewrite !Pext_low by lia.
  - rewrite !Pext_high by lia. unfold pmul. apply conj_mul.
Qed.

(* Successive shifts multiply their phase tables, exactly, provided the DC
   factors are "real-multiplicative" (true when both are 1) and, for even n,
   the Nyquist coefficient of x vanishes or the Nyquist factors are
   real-multiplicative (true when one of them is real, e.g. an integer shift). *)
Lemma fshift_compose p q x j : real_sig x ->
  re (p 0%nat * q 0%nat) = re (p 0%nat) * re (q 0%nat) ->
  (Nat.even n = true ->
     rfft x (n / 2) = 0 \/
     re (p (n / 2)%nat * q (n / 2)%nat) = re (p (n / 2)%nat) * re (q (n / 2)%nat)) ->
  fshift q (fshift p x) j = fshift (pmul p q) x j.
Proof.
  intros Hx Hdc Hnyq. apply (mul_cancel_l (natC n)); [exact nC_ne0|].
  rewrite fshift_compose_full, fshift_full by exact Hx.
  apply S_ext. intros k Hk.
  destruct (Nat.eq_dec k 0) as [->|Hk0].
  - rewrite !Pext_0. unfold pmul. rewrite Hdc. ring.
  - destruct (Nat.eq_dec (2 * k) n) as [Heq|Hne].
    + assert (He : Nat.even n = true) by (apply Nat.even_spec; exists k; lia).
      assert (Hh : (n / 2 = k)%nat).
      { rewrite <- Heq, Nat.mul_comm. apply Nat.div_mul. lia. }
      rewrite !Pext_nyq by exact Heq. unfold pmul.
      destruct (Hnyq He) as [H0|Hm]; rewrite Hh in *.
      * rewrite H0. ring.
      * rewrite Hm. ring.
    + rewrite Pext_pmul_low by lia. ring.
Qed.

(* The exact caveat: for even n the two differ by a multiple of the Nyquist
   sequence w(j n/2) = (-1)^j. *)
Lemma fshift_compose_defect p q x j : real_sig x -> Nat.even n = true ->
  re (p 0%nat * q 0%nat) = re (p 0%nat) * re (q 0%nat) ->
  fshift q (fshift p x) j =
  fshift (pmul p q) x j +
  cinv (natC n) * (rfft x (n / 2) *
     (re (p (n / 2)%nat) * re (q (n / 2)%nat) - re (p (n / 2)%nat * q (n / 2)%nat))
     * w (zn j * zn (n / 2))%Z).
Proof.
  intros Hx He Hdc.
  apply Nat.even_spec in He. destruct He as [h Hh].
  assert (Hh2 : (n / 2 = h)%nat) by (rewrite Hh, Nat.mul_comm; apply Nat.div_mul; lia).
  rewrite Hh2.
  apply (mul_cancel_l (natC n)); [exact nC_ne0|].
  set (D := rfft x h * (re (p h) * re (q h) - re (p h * q h)) * w (zn j * zn h)%Z).
  transitivity (natC n * fshift (pmul p q) x j + D); [|field; exact nC_ne0].
  rewrite fshift_compose_full, fshift_full by exact Hx.
  assert (Hs : sum (fun k => if (k =? h)%nat then D else 0) n = D).
  { rewrite (S_single (fun k => if (k =? h)%nat then D else 0) n h); [now rewrite Nat.eqb_refl|lia|].
    intros i _ Hi. destruct (Nat.eqb_spec i h); [contradiction|reflexivity]. }
  rewrite <- Hs, <- S_add.
  apply S_ext. intros k Hk.
  destruct (Nat.eqb_spec k h) as [->|Hne].
  - rewrite !Pext_nyq by lia. unfold pmul, D. ring.
  - destruct (Nat.eq_dec k 0) as [->|Hk0].
    + rewrite !Pext_0. unfold pmul. rewrite Hdc. ring.
    + rewrite Pext_pmul_low by lia. ring.
Qed.


(* ---- dependence on the arguments only through the indices actually read ---- *)
Lemma half_le : ((n - 1) / 2 <= n / 2)%nat.
Proof. apply Nat.div_le_mono; lia. Qed.

Lemma irfft_ext Y Y' j : (forall k, (k <= n / 2)%nat -> Y k = Y' k) -> irfft Y j = irfft Y' j.
Proof.
  intros H. unfold irfft_at. pose proof half_le as Hh.
  rewrite (H 0%nat) by lia. rewrite (H (n / 2)%nat) by lia.
  f_equal. f_equal. f_equal.
  apply S_ext. intros k' Hk'. rewrite (H (S k')) by lia. reflexivity.
Qed.

Lemma fshift_ext p p' x x' j :
  (forall k, (k <= n / 2)%nat -> p k = p' k) -> (forall i, (i < n)%nat -> x i = x' i) ->
  fshift p x j = fshift p' x' j.
Proof.
  intros Hp Hx. unfold fshift_fun. apply irfft_ext. intros k Hk.
  rewrite (rfft_ext x x' k Hx), Hp by exact Hk. reflexivity.
Qed.

Lemma two_k_le k : (k <= n / 2)%nat -> (2 * k <= n)%nat.
Proof. intros H. pose proof (Nat.mul_div_le n 2 ltac:(lia)). lia. Qed.

(* ---- phase tables generated by a shift: the algebraic content of
        np.exp(1j * np.angle(rfft(dephas)) * s) ---- *)
Section Phase.
Variable Sh : Type.                       (* shifts (real numbers in the code) *)
Variables (sh0 sh1 : Sh) (shadd : Sh -> Sh -> Sh) (shopp : Sh -> Sh).
Variable phase : Sh -> nat -> C.
Hypothesis ph0 : forall k, phase sh0 k = 1.
Hypothesis phadd : forall s t k, phase (shadd s t) k = phase s k * phase t k.
Hypothesis phopp : forall s k, phase (shopp s) k * phase s k = 1.
Hypothesis ph1 : forall k, (2 * k <= n)%nat -> phase sh1 k = w (- zn k)%Z.   (* = rfft(dephas)[k] *)
Hypothesis phdc : forall s, phase s 0%nat = 1.                             (* angle(1+0j) = 0 *)

Set Default Proof Using "Cf conj_add conj_mul conj_inv Hn wadd wn wprim wconj nC_ne0 two_ne0 ph0 phadd phopp ph1 phdc".

(* the integer m as a shift: m-fold sum of the unit shift *)
Definition shN (a : nat) : Sh := Nat.iter a (shadd sh1) sh0.
Definition shZ (m : Z) : Sh :=
  if (m <? 0)%Z then shopp (shN (Z.to_nat (- m))) else shN (Z.to_nat m).

Lemma phase_shN a k : (2 * k <= n)%nat -> phase (shN a) k = w (- (zn k * zn a))%Z.
Proof.
  intros Hk. induction a as [|a IH].
  - cbn [shN Nat.iter]. rewrite ph0, Z.mul_0_r. cbn [Z.opp]. now rewrite w0.
  - change (shN (S a)) with (shadd sh1 (shN a)). rewrite phadd, IH, ph1 by exact Hk.
    rewrite <- wadd. f_equal. lia.
Qed.

Lemma phase_shZ m k : (2 * k <= n)%nat -> phase (shZ m) k = w (- (zn k * m))%Z.
Proof.
  intros Hk. unfold shZ. destruct (Z.ltb_spec m 0) as [Hm|Hm].
  - pose proof (phopp (shN (Z.to_nat (- m))) k) as H. rewrite phase_shN in H by exact Hk.
    rewrite Z2Nat.id in H by lia.
    apply (mul_cancel_l (w (- (zn k * - m))%Z)); [apply w_ne0|].
    rewrite <- wadd. replace (- (zn k * - m) + - (zn k * m))%Z with 0%Z by lia. rewrite w0.
    rewrite <- H. ring.
  - rewrite phase_shN by exact Hk. rewrite Z2Nat.id by lia. reflexivity.
Qed.

Lemma ph_fshift_zero x j : real_sig x -> (j < n)%nat -> fshift (phase sh0) x j = x j.
Proof. intros Hx Hj. apply fshift_id; auto. Qed.

Lemma ph_fshift_int x m j : real_sig x -> fshift (phase (shZ m)) x j = roll m x j.
Proof. intros Hx. apply fshift_int_roll; auto. intros k Hk. now apply phase_shZ. Qed.

Lemma re_mul_real_r a b : cconj b = b -> re (a * b) = re a * re b.
Proof.
  intros Hb. rewrite (re_of_real b Hb). unfold Model.re. rewrite conj_mul, Hb. ring.
Qed.

Lemma re_mul_real_l a b : cconj a = a -> re (a * b) = re a * re b.
Proof.
  intros Ha. rewrite (re_of_real a Ha). unfold Model.re. rewrite conj_mul, Ha. ring.
Qed.

Lemma ph_fshift_compose s t x j : real_sig x ->
  (Nat.even n = true ->
     rfft x (n / 2) = 0 \/ cconj (phase s (n / 2)%nat) = phase s (n / 2)%nat
                       \/ cconj (phase t (n / 2)%nat) = phase t (n / 2)%nat) ->
  fshift (phase t) (fshift (phase s) x) j = fshift (phase (shadd s t)) x j.
Proof.
  intros Hx Hnyq. rewrite fshift_compose; auto.
  - apply fshift_ext; auto. intros k _. unfold pmul. now rewrite phadd.
  - rewrite !phdc. rewrite re_mul_real_l by apply conj_1. reflexivity.
  - intros He. destruct (Hnyq He) as [H|[H|H]]; [now left| |]; right.
    + now apply re_mul_real_l.
    + now apply re_mul_real_r.
Qed.

Lemma phase_shZ_nyq_real m : Nat.even n = true ->
  cconj (phase (shZ m) (n / 2)%nat) = phase (shZ m) (n / 2)%nat.
Proof.
  intros He. apply Nat.even_spec in He. destruct He as [h Hh].
  assert (Hh2 : (n / 2 = h)%nat) by (rewrite Hh, Nat.mul_comm; apply Nat.div_mul; lia).
  rewrite Hh2, phase_shZ by lia. rewrite wconj. apply w_eq.
  replace (- - (zn h * m) - - (zn h * m))%Z with (zn n * m)%Z by lia.
  rewrite Z.mul_comm. apply Z.mod_mul. lia.
Qed.

(* an integer shift composes exactly with any shift, in either order *)
Lemma ph_fshift_compose_int_r s m x j : real_sig x ->
  fshift (phase (shZ m)) (fshift (phase s) x) j = fshift (phase (shadd s (shZ m))) x j.
Proof. intros Hx. apply ph_fshift_compose; auto. intros He. right; right. now apply phase_shZ_nyq_real. Qed.

Lemma ph_fshift_compose_int_l s m x j : real_sig x ->
  fshift (phase s) (fshift (phase (shZ m)) x) j = fshift (phase (shadd (shZ m) s)) x j.
Proof. intros Hx. apply ph_fshift_compose; auto. intros He. right; left. now apply phase_shZ_nyq_real. Qed.

Lemma ph_fshift_compose_odd s t x j : real_sig x -> Nat.even n = false ->
  fshift (phase t) (fshift (phase s) x) j = fshift (phase (shadd s t)) x j.
Proof. intros Hx Ho. apply ph_fshift_compose; auto. intros He. congruence. Qed.

End Phase.
Set Default Proof Using "Cf conj_add conj_mul conj_inv Hn wadd wn wprim wconj nC_ne0 two_ne0".

(* ---- list level: the executable fshift1 / fshift_rows / roll_list ---- *)
Local Notation nthC := (nthC C c0).
Local Notation fshift1 := (fshift1 C c0 c1 cadd cmul cinv cconj n w).
Local Notation fshift_rows := (fshift_rows C c0 c1 cadd cmul cinv cconj n w).
Local Notation roll_list := (roll_list C c0 n).

Lemma nth_map_seq {A} (f : nat -> A) m k d : (k < m)%nat -> nth k (map f (seq 0 m)) d = f k.
Proof.
  intros Hk. rewrite (nth_indep _ d (f 0%nat)) by (now rewrite map_length, seq_length).
  rewrite (map_nth f (seq 0 m) 0%nat k), seq_nth by exact Hk. reflexivity.
Qed.

Lemma list_as_map (l : list C) : l = map (nthC l) (seq 0 (length l)).
Proof.
  apply (nth_ext _ _ c0 c0).
  - now rewrite map_length, seq_length.
  - intros k Hk. unfold Model.nthC. now rewrite nth_map_seq.
Qed.

Lemma fshift1_spec p x : (2 <= n)%nat -> length x = n -> length p = (n / 2 + 1)%nat ->
  fshift1 p x = Some (map (fshift (nthC p) (nthC x)) (seq 0 n)).
Proof.
  intros H2 Hx Hp. unfold Model.fshift1.
  rewrite Hx, Hp, Nat.eqb_refl, Nat.eqb_refl.
  destruct (Nat.leb_spec 2 n); [|lia]. cbn [andb]. f_equal.
  apply map_ext_in. intros j _. unfold fshift_fun. apply irfft_ext. intros k Hk.
  unfold Model.nthC at 1. rewrite nth_map_seq by lia.
  unfold Model.nthC at 1. rewrite nth_map_seq by lia. reflexivity.
Qed.

Lemma fshift1_some p x y : fshift1 p x = Some y ->
  (2 <= n)%nat /\ length x = n /\ length p = (n / 2 + 1)%nat.
Proof.
  unfold Model.fshift1. intros H.
  destruct (Nat.leb_spec 2 n); [|discriminate].
  destruct (Nat.eqb_spec (length x) n); [|discriminate].
  destruct (Nat.eqb_spec (length p) (n / 2 + 1)); [|discriminate]. auto.
Qed.

Definition real_list (x : list C) : Prop := forall v, In v x -> cconj v = v.

Lemma real_list_sig x : length x = n -> real_list x -> real_sig (nthC x).
Proof. intros Hl Hx j Hj. apply Hx. unfold Model.nthC. apply nth_In. lia. Qed.

(* shape and realness of the output *)
Lemma fshift1_shape_real p x y : fshift1 p x = Some y -> length y = n /\ real_list y.
Proof.
  intros H. destruct (fshift1_some p x y H) as (H2 & Hx & Hp).
  rewrite fshift1_spec in H by auto. injection H as <-. split.
  - now rewrite map_length, seq_length.
  - intros v Hv. apply in_map_iff in Hv. destruct Hv as [j [<- Hj]]. apply in_seq in Hj.
    apply fshift_real. lia.
Qed.

Lemma l_fshift_zero p x : (2 <= n)%nat -> length x = n -> real_list x ->
  length p = (n / 2 + 1)%nat -> (forall k, (k <= n / 2)%nat -> nthC p k = 1) ->
  fshift1 p x = Some x.
Proof.
  intros H2 Hl Hx Hp H1. rewrite fshift1_spec by auto. f_equal.
  etransitivity; [|symmetry; apply list_as_map]. rewrite Hl. apply map_ext_in. intros j Hj. apply in_seq in Hj.
  apply fshift_id; [now apply real_list_sig|lia|]. intros k Hk. apply H1.
  apply Nat.div_le_lower_bound; lia.
Qed.

Lemma l_fshift_int p x m : (2 <= n)%nat -> length x = n -> real_list x ->
  length p = (n / 2 + 1)%nat ->
  (forall k, (k <= n / 2)%nat -> nthC p k = w (- (zn k * m))%Z) ->
  fshift1 p x = Some (roll_list m x).
Proof.
  intros H2 Hl Hx Hp H1. rewrite fshift1_spec by auto. f_equal. unfold Model.roll_list.
  apply map_ext_in. intros j _.
  apply fshift_int_roll; [now apply real_list_sig|]. intros k Hk. apply H1.
  apply Nat.div_le_lower_bound; lia.
Qed.

Definition lmul (p q : list C) : list C := map (fun pq => fst pq * snd pq) (combine p q).

Lemma lmul_length p q : length p = length q -> length (lmul p q) = length p.
Proof. intros H. unfold lmul. rewrite map_length, combine_length. lia. Qed.

Lemma lmul_nth p q k : length p = length q -> (k < length p)%nat ->
  nthC (lmul p q) k = nthC p k * nthC q k.
Proof.
  intros Hl Hk. unfold lmul, Model.nthC.
  rewrite (nth_indep _ c0 ((fun pq => fst pq * snd pq) (c0, c0)))
    by (rewrite map_length, combine_length; lia).
  rewrite (map_nth (fun pq => fst pq * snd pq)), combine_nth by exact Hl. reflexivity.
Qed.

Lemma l_fshift_compose p q x y z : real_list x ->
  fshift1 p x = Some y -> fshift1 q y = Some z ->
  re (nthC p 0 * nthC q 0) = re (nthC p 0) * re (nthC q 0) ->
  (Nat.even n = true ->
     rfft (nthC x) (n / 2) = 0 \/
     re (nthC p (n / 2) * nthC q (n / 2)) = re (nthC p (n / 2)) * re (nthC q (n / 2))) ->
  fshift1 (lmul p q) x = Some z.
Proof.
  intros Hx Hy Hz Hdc Hnyq.
  destruct (fshift1_some _ _ _ Hy) as (H2 & Hlx & Hlp).
  destruct (fshift1_some _ _ _ Hz) as (_ & Hly & Hlq).
  rewrite fshift1_spec in Hy, Hz by auto. injection Hy as <-. injection Hz as <-.
  rewrite fshift1_spec by (auto; rewrite lmul_length; lia). f_equal.
  apply map_ext_in. intros j _.
  rewrite (fshift_ext (nthC q) (nthC q) _ (fshift (nthC p) (nthC x)) j).
  - rewrite fshift_compose by (auto; now apply real_list_sig).
    apply fshift_ext; auto. intros k Hk. unfold pmul. rewrite lmul_nth by lia. reflexivity.
  - auto.
  - intros i Hi. unfold Model.nthC at 1. now rewrite nth_map_seq.
Qed.

(* rows: every trace is shifted with its own phase table; the number of traces
   and their lengths are preserved *)
Lemma fshift_rows_spec ps X Y : fshift_rows ps X = Some Y ->
  length Y = length X /\ length ps = length X /\
  forall i, (i < length X)%nat ->
    fshift1 (nth i ps []) (nth i X []) = Some (nth i Y []).
Proof.
  revert X Y. induction ps as [|p ps IH]; intros [|x X] Y H; cbn [Model.fshift_rows] in H; try discriminate.
  - injection H as <-. repeat split; auto. intros i Hi. cbn in Hi. lia.
  - destruct (fshift1 p x) as [y|] eqn:E1; [|discriminate].
    destruct (fshift_rows ps X) as [Y'|] eqn:E2; [|discriminate].
    injection H as <-. destruct (IH X Y' E2) as (Ha & Hb & Hc).
    cbn [length]. repeat split; try lia.
    intros [|i] Hi; cbn [nth]; [exact E1|]. apply Hc. cbn [length] in Hi. lia.
Qed.

Lemma fshift_rows_total ps X : (2 <= n)%nat -> length ps = length X ->
  (forall x, In x X -> length x = n) -> (forall p, In p ps -> length p = (n / 2 + 1)%nat) ->
  exists Y, fshift_rows ps X = Some Y.
Proof.
  intros H2. revert X. induction ps as [|p ps IH]; intros [|x X] Hl HX HP; cbn [length] in Hl; try lia.
  - exists []. reflexivity.
  - cbn [Model.fshift_rows].
    assert (Hx : length x = n) by (apply HX; now left).
    assert (Hp : length p = (n / 2 + 1)%nat) by (apply HP; now left).
    rewrite fshift1_spec by assumption.
    destruct (IH X) as [Y' ->]; [lia| | |].
    + intros. apply HX. now right.
    + intros. apply HP. now right.
    + eexists. reflexivity.
Qed.


(* ---- additivity, and the action on one real sinusoid below Nyquist ---- *)
Lemma rfft_add x y k : rfft (fun j => x j + y j) k = rfft x k + rfft y k.
Proof.
  unfold rfft_at. rewrite <- S_add. apply S_ext. intros j _. ring.
Qed.

Lemma re_add a b : re (a + b) = re a + re b.
Proof. unfold Model.re. rewrite conj_add. ring. Qed.

Lemma irfft_add Y Y' j : irfft (fun k => Y k + Y' k) j = irfft Y j + irfft Y' j.
Proof.
  unfold irfft_at. rewrite !re_add.
  rewrite (S_ext _
     (fun k' => (Y (S k') * w (zn j * zn (S k'))%Z + cconj (Y (S k')) * w (- (zn j * zn (S k')))%Z)
              + (Y' (S k') * w (zn j * zn (S k'))%Z + cconj (Y' (S k')) * w (- (zn j * zn (S k')))%Z)))
    by (intros; rewrite conj_add; ring).
  rewrite S_add. destruct (Nat.even n); ring.
Qed.

Lemma fshift_additive p x y j :
  fshift p (fun i => x i + y i) j = fshift p x j + fshift p y j.
Proof.
  unfold fshift_fun. rewrite <- irfft_add. apply irfft_ext. intros k _.
  rewrite rfft_add. ring.
Qed.

Lemma sum_delta a v : (a < n)%nat -> sum (fun k => if (k =? a)%nat then v else 0) n = v.
Proof.
  intros Ha. rewrite (S_single _ n a Ha).
  - now rewrite Nat.eqb_refl.
  - intros i _ Hi. destruct (Nat.eqb_spec i a); [contradiction|reflexivity].
Qed.

(* spectrum of one complex exponential of frequency a *)
Lemma rfft_exponential c a k : (a < n)%nat -> (k < n)%nat ->
  rfft (fun j => c * w (zn j * zn a)%Z) k = if (k =? a)%nat then natC n * c else 0.
Proof.
  intros Ha Hk. unfold rfft_at.
  rewrite (S_ext _ (fun j => c * w (zn j * (zn a - zn k))%Z)).
  2:{ intros j _. replace (zn j * (zn a - zn k))%Z with (zn j * zn a + - (zn j * zn k))%Z by ring.
      rewrite wadd. ring. }
  rewrite S_scale, ortho.
  destruct (Nat.eqb_spec k a) as [->|Hne].
  - rewrite Z.sub_diag, Z.mod_0_l by lia. cbn [Z.eqb]. ring.
  - replace ((zn a - zn k) mod zn n =? 0)%Z with false; [ring|].
    symmetry. apply Z.eqb_neq. intros E. apply Hne.
    apply Z.mod_divide in E; [|lia]. destruct E as [q Hq].
    assert (Hq0 : (-1 < q < 1)%Z) by (split; apply (Zmult_lt_reg_r _ _ (zn n)); lia).
    lia.
Qed.

(* A real sinusoid  x_j = c w(ja) + conj(c) w(-ja)  with 0 < a < n/2 (strictly
   below Nyquist) comes out with its complex amplitude multiplied by p_a:
   for p_a = e^{-2 pi i a s / n} this is the analytically delayed sinusoid
   c e^{2 pi i a (j - s)/n} + c.c. *)
Lemma fshift_harmonic p c a j : (0 < a)%nat -> (2 * a < n)%nat ->
  fshift p (fun i => c * w (zn i * zn a)%Z + cconj c * w (- (zn i * zn a))%Z) j
  = (c * p a) * w (zn j * zn a)%Z + cconj (c * p a) * w (- (zn j * zn a))%Z.
Proof.
  intros Ha0 Ha.
  set (x := fun i => c * w (zn i * zn a)%Z + cconj c * w (- (zn i * zn a))%Z).
  assert (Hx : real_sig x).
  { intros i _. unfold x. rewrite conj_add, !conj_mul, conj_inv, !wconj, Z.opp_involutive. ring. }
  apply (mul_cancel_l (natC n)); [exact nC_ne0|].
  rewrite fshift_full by exact Hx.
  assert (Hr : forall k, (k < n)%nat ->
     rfft x k = (if (k =? a)%nat then natC n * c else 0) + (if (k =? n - a)%nat then natC n * cconj c else 0)).
  { intros k Hk. unfold x. rewrite rfft_add. f_equal.
    - now apply rfft_exponential; lia.
    - rewrite <- (rfft_exponential (cconj c) (n - a) k) by lia.
      apply rfft_ext. intros i _. f_equal. symmetry. apply w_mirror. lia. }
  rewrite (S_ext _ (fun k => (if (k =? a)%nat then natC n * c * p a * w (zn j * zn a)%Z else 0)
                             + (if (k =? n - a)%nat then natC n * cconj c * cconj (p a) * w (- (zn j * zn a))%Z else 0))).
  2:{ intros k Hk. rewrite (Hr k Hk).
      destruct (Nat.eqb_spec k a) as [E1|H1]; destruct (Nat.eqb_spec k (n - a)) as [E2|H2]; try lia.
      - rewrite E1, Pext_low by lia. ring.
      - rewrite E2, Pext_high by lia. replace (n - (n - a))%nat with a by lia.
        rewrite w_mirror by lia. ring.
      - ring. }
  rewrite S_add.
  rewrite !sum_delta by lia. rewrite conj_mul. ring.
Qed.

(* a constant (DC) signal is left unchanged when the DC phase factor is 1 *)
Lemma fshift_constant p c j : cconj c = c -> p 0%nat = 1 -> fshift p (fun _ => c) j = c.
Proof.
  intros Hc Hp.
  assert (Hx : real_sig (fun _ : nat => c)) by (intros i _; exact Hc).
  apply (mul_cancel_l (natC n)); [exact nC_ne0|].
  rewrite fshift_full by exact Hx.
  rewrite (S_ext _ (fun k => if (k =? 0)%nat then natC n * c else 0)).
  - rewrite sum_delta by lia. reflexivity.
  - intros k Hk.
    rewrite (rfft_ext _ (fun i => c * w (zn i * zn 0)%Z))
      by (intros i _; cbn [Z.of_nat]; rewrite Z.mul_0_r, w0; ring).
    rewrite rfft_exponential by lia.
    destruct (Nat.eqb_spec k 0) as [->|Hne]; [|ring].
    rewrite Pext_0, Hp, (re_of_real 1 conj_1). cbn [Z.of_nat]. rewrite Z.mul_0_r, w0. ring.
Qed.

(* ---- axis 0: transpose, rows, transpose ---- *)
Local Notation transpose := (transpose C c0).
Definition col (c : nat) (M : list (list C)) : list C := map (fun row => nth c row c0) M.

Lemma transpose_aux_spec m X c :
  transpose_aux C c0 m X c = map (fun c' => col c' X) (seq c m).
Proof.
  revert c. induction m as [|m IH]; intros c; cbn [transpose_aux seq map]; [reflexivity|].
  now rewrite IH.
Qed.

Lemma transpose_spec m X : transpose m X = map (fun c' => col c' X) (seq 0 m).
Proof. apply transpose_aux_spec. Qed.

Lemma transpose_length m X : length (transpose m X) = m.
Proof. now rewrite transpose_spec, map_length, seq_length. Qed.

Lemma transpose_nth m X c : (c < m)%nat -> nth c (transpose m X) [] = col c X.
Proof. intros Hc. rewrite transpose_spec. apply (nth_map_seq (fun c' => col c' X) m c [] Hc). Qed.

Local Notation fshift2 := (fshift2 C c0 c1 cadd cmul cinv cconj w).

Lemma fshift2_last_axis nr ps X : fshift2 false nr n ps X = fshift_rows ps X.
Proof. reflexivity. Qed.

(* along axis 0 (n = number of rows): column c of the result is column c of the
   input shifted with phase table ps[c]; the shape (n, nc) is preserved *)
Lemma fshift2_axis0 nc ps X Z : fshift2 true n nc ps X = Some Z ->
  length Z = n /\ (forall row, In row Z -> length row = nc) /\ length ps = nc /\
  forall c, (c < nc)%nat -> fshift1 (nth c ps []) (col c X) = Some (col c Z).
Proof.
  unfold Model.fshift2. destruct (fshift_rows ps (transpose nc X)) as [Y|] eqn:E; [|discriminate].
  intros H. injection H as <-.
  destruct (fshift_rows_spec _ _ _ E) as (Hl & Hps & Hrow). rewrite transpose_length in *.
  split; [|split; [|split]].
  - reflexivity.
  - intros row Hrow'. rewrite transpose_spec in Hrow'. apply in_map_iff in Hrow'.
    destruct Hrow' as [r [<- _]]. unfold col. now rewrite map_length.
  - exact Hps.
  - intros c Hc. specialize (Hrow c Hc). rewrite transpose_nth in Hrow by exact Hc.
    rewrite Hrow. f_equal.
    destruct (fshift1_shape_real _ _ _ Hrow) as [Hlen _].
    rewrite (list_as_map (nth c Y [])), Hlen.
    unfold col. rewrite transpose_spec, map_map. apply map_ext_in. intros r Hr. apply in_seq in Hr.
    unfold col. rewrite (nth_indep _ c0 (nth r [] c0)) by (rewrite map_length; lia).
    rewrite (map_nth (fun row => nth r row c0) Y [] c). reflexivity.
Qed.

(* ---- the frequency-domain entry point fshift(W, s, ns=n) ---- *)
Local Notation rfft_list := (rfft_list C c0 cadd cmul n w).
Local Notation irfft_list := (irfft_list C c0 c1 cadd cmul cinv cconj n w).
Local Notation fshift_freq := (fshift_freq C c0 cmul n).

Lemma rfft_list_length x : length (rfft_list x) = (n / 2 + 1)%nat.
Proof. unfold Model.rfft_list. now rewrite map_length, seq_length. Qed.

(* irfft(fshift(rfft(x), s, ns=n), n) is fshift(x, s): the time-domain path IS the
   frequency-domain path between an rfft and an irfft, and they refuse together *)
Lemma fshift1_via_freq p x : length x = n ->
  fshift1 p x = option_map irfft_list (fshift_freq p (rfft_list x)).
Proof.
  intros Hx. unfold Model.fshift1, Model.fshift_freq.
  rewrite rfft_list_length, Hx, !Nat.eqb_refl.
  destruct (2 <=? n)%nat; cbn [andb]; [|reflexivity].
  destruct (length p =? n / 2 + 1)%nat; reflexivity.
Qed.

Lemma fshift_freq_spec p W k : (2 <= n)%nat -> length W = (n / 2 + 1)%nat ->
  length p = (n / 2 + 1)%nat -> (k <= n / 2)%nat ->
  exists Y, fshift_freq p W = Some Y /\ length Y = (n / 2 + 1)%nat /\ nthC Y k = nthC W k * nthC p k.
Proof.
  intros H2 HW Hp Hk. unfold Model.fshift_freq. rewrite HW, Hp, !Nat.eqb_refl.
  destruct (Nat.leb_spec 2 n); [|lia]. cbn [andb]. eexists. split; [reflexivity|]. split.
  - unfold Model.spec_mul. now rewrite map_length, seq_length.
  - unfold Model.spec_mul. unfold Model.nthC at 1. rewrite nth_map_seq by lia. reflexivity.
Qed.

(* ---- cross spectrum of a signal and its shifted copy (get_apf_from2spikes, the exact
        core of wave_shift_phase): every bin strictly between DC and Nyquist carries the
        power |X_k|^2 times the CONJUGATE phase factor - its angle is +2 pi k s / n ---- *)
Local Notation xspec := (cross_spectrum_at C c0 cadd cmul cconj n w).

Lemma cross_spectrum_shifted p x k : real_sig x -> (k < n)%nat ->
  xspec x (fshift p x) k = (rfft x k * cconj (rfft x k)) * cconj (Pext p k).
Proof.
  intros Hx Hk. unfold cross_spectrum_at. rewrite rfft_fshift by assumption.
  rewrite conj_mul. ring.
Qed.

Lemma cross_spectrum_shifted_low p x k : real_sig x -> (0 < k)%nat -> (2 * k < n)%nat ->
  xspec x (fshift p x) k = (rfft x k * cconj (rfft x k)) * cconj (p k).
Proof.
  intros Hx H0 H1. rewrite cross_spectrum_shifted by (auto; lia). now rewrite Pext_low.
Qed.

End DFT.

Unset Default Proof Using.

(* The hypotheses of the DFT section as one record, so that the theorems of
   Props.v can be stated in closed form. *)
Record setting (C : Type) (c0 c1 : C) (cadd cmul : C -> C -> C) (copp cinv cconj : C -> C)
       (n : nat) (w : Z -> C) : Prop := {
  st_field : field_theory c0 c1 cadd cmul (fsub C cadd copp) copp (fdiv C cmul cinv) cinv (@eq C);
  st_conj_add : forall a b, cconj (cadd a b) = cadd (cconj a) (cconj b);
  st_conj_mul : forall a b, cconj (cmul a b) = cmul (cconj a) (cconj b);
  st_conj_inv : forall a, cconj (cconj a) = a;
  st_n : (1 <= n)%nat;
  st_wadd : forall a b, w (a + b)%Z = cmul (w a) (w b);
  st_wn : w (Z.of_nat n) = c1;
  st_wprim : forall d, (0 < d < Z.of_nat n)%Z -> w d <> c1;
  st_wconj : forall k, cconj (w k) = w (- k)%Z;
  st_n_ne0 : natC C c0 c1 cadd n <> c0;
  st_two_ne0 : cadd c1 c1 <> c0
}.

Section Pub.
Variable C : Type.
Variables (c0 c1 : C) (cadd cmul : C -> C -> C) (copp cinv cconj : C -> C).
Variable n : nat.
Variable w : Z -> C.
Hypothesis ST : setting C c0 c1 cadd cmul copp cinv cconj n w.

Local Notation fshift := (fshift_fun C c0 c1 cadd cmul cinv cconj n w).
Local Notation rfft := (rfft_at C c0 cadd cmul n w).
Local Notation re := (re C c1 cadd cmul cinv cconj).
Local Notation real := (real_sig C cconj n).

Ltac use L := destruct ST; eapply L; eauto.

Lemma pub_fshift_id p x j : real x -> (j < n)%nat ->
  (forall k, (2 * k <= n)%nat -> p k = c1) -> fshift p x j = x j.
Proof. use fshift_id. Qed.

Lemma pub_fshift_int_roll p x m j : real x ->
  (forall k, (2 * k <= n)%nat -> p k = w (- (Z.of_nat k * m))%Z) ->
  fshift p x j = roll_fun C n m x j.
Proof. use fshift_int_roll. Qed.

Lemma pub_fshift_real p x : real (fshift p x).
Proof. use fshift_real. Qed.

Lemma pub_fshift_compose p q x j : real x ->
  re (cmul (p 0%nat) (q 0%nat)) = cmul (re (p 0%nat)) (re (q 0%nat)) ->
  (Nat.even n = true ->
     rfft x (n / 2) = c0 \/
     re (cmul (p (n / 2)%nat) (q (n / 2)%nat)) = cmul (re (p (n / 2)%nat)) (re (q (n / 2)%nat))) ->
  fshift q (fshift p x) j = fshift (pmul C cmul p q) x j.
Proof. use fshift_compose. Qed.

Lemma pub_fshift_compose_defect p q x j : real x -> Nat.even n = true ->
  re (cmul (p 0%nat) (q 0%nat)) = cmul (re (p 0%nat)) (re (q 0%nat)) ->
  fshift q (fshift p x) j =
  cadd (fshift (pmul C cmul p q) x j)
   (cmul (cinv (natC C c0 c1 cadd n))
     (cmul (cmul (rfft x (n / 2))
        (fsub C cadd copp (cmul (re (p (n / 2)%nat)) (re (q (n / 2)%nat)))
                          (re (cmul (p (n / 2)%nat) (q (n / 2)%nat)))))
        (w (Z.of_nat j * Z.of_nat (n / 2))%Z))).
Proof. use fshift_compose_defect. Qed.

Local Notation fshift1 := (fshift1 C c0 c1 cadd cmul cinv cconj n w).
Local Notation frows := (fshift_rows C c0 c1 cadd cmul cinv cconj n w).
Local Notation rlist := (real_list C cconj).
Local Notation nthC := (nthC C c0).

Lemma pub_l_zero p x : (2 <= n)%nat -> length x = n -> rlist x ->
  length p = (n / 2 + 1)%nat -> (forall k, (k <= n / 2)%nat -> nthC p k = c1) ->
  fshift1 p x = Some x.
Proof. use l_fshift_zero. Qed.

Lemma pub_l_int p x m : (2 <= n)%nat -> length x = n -> rlist x ->
  length p = (n / 2 + 1)%nat ->
  (forall k, (k <= n / 2)%nat -> nthC p k = w (- (Z.of_nat k * m))%Z) ->
  fshift1 p x = Some (roll_list C c0 n m x).
Proof. use l_fshift_int. Qed.

Lemma pub_l_compose p q x y z : rlist x ->
  fshift1 p x = Some y -> fshift1 q y = Some z ->
  re (cmul (nthC p 0) (nthC q 0)) = cmul (re (nthC p 0)) (re (nthC q 0)) ->
  (Nat.even n = true ->
     rfft (nthC x) (n / 2) = c0 \/
     re (cmul (nthC p (n / 2)) (nthC q (n / 2))) = cmul (re (nthC p (n / 2))) (re (nthC q (n / 2)))) ->
  fshift1 (lmul C cmul p q) x = Some z.
Proof. use l_fshift_compose. Qed.

Lemma pub_shape_real p x y : fshift1 p x = Some y -> length y = n /\ rlist y.
Proof. use fshift1_shape_real. Qed.

Lemma pub_rows_spec ps X Y : frows ps X = Some Y ->
  length Y = length X /\ length ps = length X /\
  forall i, (i < length X)%nat -> fshift1 (nth i ps []) (nth i X []) = Some (nth i Y []).
Proof. use fshift_rows_spec. Qed.

Lemma pub_rows_total ps X : (2 <= n)%nat -> length ps = length X ->
  (forall x, In x X -> length x = n) -> (forall p, In p ps -> length p = (n / 2 + 1)%nat) ->
  exists Y, frows ps X = Some Y.
Proof. use fshift_rows_total. Qed.

Lemma pub_axis0 nc ps X Z :
  fshift2 C c0 c1 cadd cmul cinv cconj w true n nc ps X = Some Z ->
  length Z = n /\ (forall row, In row Z -> length row = nc) /\ length ps = nc /\
  forall c, (c < nc)%nat -> fshift1 (nth c ps []) (col C c0 c X) = Some (col C c0 c Z).
Proof. use fshift2_axis0. Qed.

Lemma pub_additive p x y j :
  fshift p (fun i => cadd (x i) (y i)) j = cadd (fshift p x j) (fshift p y j).
Proof. use fshift_additive. Qed.

Lemma pub_harmonic p c a j : (0 < a)%nat -> (2 * a < n)%nat ->
  fshift p (fun i => cadd (cmul c (w (Z.of_nat i * Z.of_nat a)%Z))
                          (cmul (cconj c) (w (- (Z.of_nat i * Z.of_nat a))%Z))) j
  = cadd (cmul (cmul c (p a)) (w (Z.of_nat j * Z.of_nat a)%Z))
         (cmul (cconj (cmul c (p a))) (w (- (Z.of_nat j * Z.of_nat a))%Z)).
Proof. use fshift_harmonic. Qed.

Lemma pub_constant p c j : cconj c = c -> p 0%nat = c1 -> fshift p (fun _ => c) j = c.
Proof. use fshift_constant. Qed.

Lemma pub_via_freq p x : length x = n ->
  fshift1 p x = option_map (irfft_list C c0 c1 cadd cmul cinv cconj n w)
                           (fshift_freq C c0 cmul n p (rfft_list C c0 cadd cmul n w x)).
Proof. use fshift1_via_freq. Qed.

Lemma pub_freq_spec p W k : (2 <= n)%nat -> length W = (n / 2 + 1)%nat ->
  length p = (n / 2 + 1)%nat -> (k <= n / 2)%nat ->
  exists Y, fshift_freq C c0 cmul n p W = Some Y /\ length Y = (n / 2 + 1)%nat /\
            nthC Y k = cmul (nthC W k) (nthC p k).
Proof. use fshift_freq_spec. Qed.

Lemma pub_cross_low p x k : real x -> (0 < k)%nat -> (2 * k < n)%nat ->
  cross_spectrum_at C c0 cadd cmul cconj n w x (fshift p x) k
  = cmul (cmul (rfft x k) (cconj (rfft x k))) (cconj (p k)).
Proof. use cross_spectrum_shifted_low. Qed.

Section PubPhase.
Variable Sh : Type.
Variables (sh0 sh1 : Sh) (shadd : Sh -> Sh -> Sh) (shopp : Sh -> Sh).
Variable phase : Sh -> nat -> C.
Hypothesis ph0 : forall k, phase sh0 k = c1.
Hypothesis phadd : forall s t k, phase (shadd s t) k = cmul (phase s k) (phase t k).
Hypothesis phopp : forall s k, cmul (phase (shopp s) k) (phase s k) = c1.
Hypothesis ph1 : forall k, (2 * k <= n)%nat -> phase sh1 k = w (- Z.of_nat k)%Z.
Hypothesis phdc : forall s, phase s 0%nat = c1.
Local Notation shZ := (shZ Sh sh0 sh1 shadd shopp).

Lemma pub_ph_zero x j : real x -> (j < n)%nat -> fshift (phase sh0) x j = x j.
Proof. use ph_fshift_zero. Qed.

Lemma pub_ph_int x m j : real x -> fshift (phase (shZ m)) x j = roll_fun C n m x j.
Proof. use ph_fshift_int. Qed.

Lemma pub_ph_compose s t x j : real x ->
  (Nat.even n = true ->
     rfft x (n / 2) = c0 \/ cconj (phase s (n / 2)%nat) = phase s (n / 2)%nat
                        \/ cconj (phase t (n / 2)%nat) = phase t (n / 2)%nat) ->
  fshift (phase t) (fshift (phase s) x) j = fshift (phase (shadd s t)) x j.
Proof. use ph_fshift_compose. Qed.

Lemma pub_ph_compose_int s m x j : real x ->
  fshift (phase (shZ m)) (fshift (phase s) x) j = fshift (phase (shadd s (shZ m))) x j /\
  fshift (phase s) (fshift (phase (shZ m)) x) j = fshift (phase (shadd (shZ m) s)) x j.
Proof. intros Hx. split; [use ph_fshift_compose_int_r | use ph_fshift_compose_int_l]. Qed.

Lemma pub_ph_compose_odd s t x j : real x -> Nat.even n = false ->
  fshift (phase t) (fshift (phase s) x) j = fshift (phase (shadd s t)) x j.
Proof. use ph_fshift_compose_odd. Qed.

End PubPhase.

End Pub.

(* ------------------------------------------------------------------------ *)
(* utils.parabolic_max *)
Section Parab.
Variable C : Type.
Variables (c0 c1 : C) (cadd cmul : C -> C -> C) (copp cinv : C -> C).
Hypothesis Cf : field_theory c0 c1 cadd cmul (fsub C cadd copp) copp (fdiv C cmul cinv) cinv (@eq C).
Add Field Cfield3 : Cf.
Variables (cleb ceqb : C -> C -> bool).
Hypothesis ceqb_true : forall a b, ceqb a b = true -> a = b.
Hypothesis two_ne0 : cadd c1 c1 <> c0.

Local Notation "a + b" := (cadd a b).
Local Notation "a * b" := (cmul a b).
Local Notation "a - b" := (fsub C cadd copp a b).
Local Notation "- a" := (copp a).
Local Notation "0" := c0.
Local Notation "1" := c1.
Local Notation ipeak := (parab_ipeak C c0 c1 cadd cmul copp cinv ceqb).
Local Notation maxi := (parab_maxi C c0 c1 cadd cmul copp cinv ceqb).
Local Notation pmax := (parabolic_max C c0 c1 cadd cmul copp cinv cleb ceqb).
Local Notation natC := (natC C c0 c1 cadd).

(* three samples y(-1), y(0), y(1) of  y(t) = al t^2 + be t + ga,  al <> 0:
   the interpolated offset v is the stationary point (2 al v + be = 0) and the
   interpolated maximum is y(v) *)
Lemma parab_vertex al be ga : al <> 0 ->
  let v := ipeak (al - be + ga) ga (al + be + ga) in
  v = - be * cinv ((1 + 1) * al) /\
  (1 + 1) * al * v + be = 0 /\
  maxi (al - be + ga) ga (al + be + ga) = al * v * v + be * v + ga.
Proof using Cf ceqb_true two_ne0.
  intros Hal.
  assert (Hp0 : parab_p0 C c1 cadd cmul copp cinv (al - be + ga) ga (al + be + ga) = al).
  { unfold parab_p0, half, csub. field. exact two_ne0. }
  assert (Hp1 : parab_p1 C c1 cadd cmul copp cinv (al - be + ga) (al + be + ga) = be).
  { unfold parab_p1, half, csub. field. exact two_ne0. }
  assert (Hv : ipeak (al - be + ga) ga (al + be + ga) = - be * cinv ((1 + 1) * al)).
  { unfold parab_ipeak. rewrite Hp0, Hp1.
    destruct (ceqb al 0) eqn:E; [apply ceqb_true in E; contradiction|].
    unfold half. field. split; assumption. }
  cbv zeta. split; [exact Hv|]. split.
  - rewrite Hv. field. split; assumption.
  - unfold parab_maxi. rewrite Hp0, Hp1, Hv. field. split; assumption.
Qed.

Lemma pmax_edge x i : argmax C cleb x = Some i -> i = 0%nat \/ i = (length x - 1)%nat ->
  pmax x = Some (true, natC i, nth i x 0).
Proof using.
  intros Ha Hi. unfold parabolic_max. rewrite Ha.
  destruct Hi as [-> | ->].
  - reflexivity.
  - rewrite Nat.eqb_refl, orb_true_r. reflexivity.
Qed.

Lemma pmax_interior x i : argmax C cleb x = Some i -> (0 < i)%nat -> (i < length x - 1)%nat ->
  pmax x = Some (false, ipeak (nth (i - 1) x 0) (nth i x 0) (nth (i + 1) x 0) + natC i,
                        maxi (nth (i - 1) x 0) (nth i x 0) (nth (i + 1) x 0)).
Proof using.
  intros Ha H0 H1. unfold parabolic_max. rewrite Ha.
  destruct (Nat.eqb_spec i 0); [lia|]. destruct (Nat.eqb_spec i (length x - 1)); [lia|].
  reflexivity.
Qed.

(* np.argmax: the first index carrying the maximum (cleb a total preorder) *)
Hypothesis cle_refl : forall a, cleb a a = true.
Hypothesis cle_trans : forall a b c, cleb a b = true -> cleb b c = true -> cleb a c = true.
Hypothesis cle_total : forall a b, cleb a b = false -> cleb b a = true.

Definition is_first_max (l : list C) (i : nat) : Prop :=
  (i < length l)%nat /\
  (forall j, (j < length l)%nat -> cleb (nth j l 0) (nth i l 0) = true) /\
  (forall j, (j < i)%nat -> cleb (nth i l 0) (nth j l 0) = false).

Lemma argmax_from_spec l : forall pre bi,
  is_first_max pre bi ->
  is_first_max (pre ++ l) (argmax_from C cleb l (length pre) bi (nth bi pre 0)).
Proof using cle_refl cle_trans cle_total.
  induction l as [|v t IH]; intros pre bi Hm.
  - rewrite app_nil_r. exact Hm.
  - destruct Hm as (Hb & Hall & Hfirst). cbn [argmax_from].
    replace (pre ++ v :: t) with ((pre ++ [v]) ++ t) by (now rewrite <- app_assoc).
    destruct (cleb v (nth bi pre 0)) eqn:E.
    + specialize (IH (pre ++ [v]) bi).
      rewrite app_length, Nat.add_1_r, app_nth1 in IH by exact Hb. apply IH.
      split; [rewrite app_length; lia|]. split.
      * intros j Hj. rewrite app_length in Hj. cbn [length] in Hj.
        rewrite (app_nth1 pre [v] 0 Hb).
        destruct (lt_dec j (length pre)).
        -- rewrite app_nth1 by lia. now apply Hall.
        -- rewrite app_nth2 by lia. replace (j - length pre)%nat with 0%nat by lia. exact E.
      * intros j Hj. rewrite !app_nth1 by lia. now apply Hfirst.
    + specialize (IH (pre ++ [v]) (length pre)).
      rewrite app_length, Nat.add_1_r, app_nth2, Nat.sub_diag in IH by lia. cbn [nth] in IH.
      apply IH.
      split; [rewrite app_length; cbn [length]; lia|].
      rewrite (app_nth2 pre [v] 0) by lia. rewrite Nat.sub_diag. cbn [nth]. split.
      * intros j Hj. rewrite app_length in Hj. cbn [length] in Hj.
        destruct (lt_dec j (length pre)).
        -- rewrite app_nth1 by lia. apply (cle_trans _ (nth bi pre 0)); [now apply Hall|now apply cle_total].
        -- rewrite app_nth2 by lia. replace (j - length pre)%nat with 0%nat by lia. apply cle_refl.
      * intros j Hj. rewrite app_nth1 by lia.
        destruct (cleb v (nth j pre 0)) eqn:E2; [|reflexivity].
        rewrite (cle_trans v (nth j pre 0) (nth bi pre 0) E2 (Hall j Hj)) in E. discriminate.
Qed.

Lemma argmax_spec x i : argmax C cleb x = Some i -> is_first_max x i.
Proof using cle_refl cle_trans cle_total.
  destruct x as [|v t]; [discriminate|]. cbn [argmax]. intros H. injection H as <-.
  apply (argmax_from_spec t [v] 0%nat).
  split; [cbn; lia|]. split.
  - intros [|j] Hj; cbn in Hj; [apply cle_refl|lia].
  - intros j Hj. lia.
Qed.

Lemma pmax_rule x :
  (x = [] -> pmax x = None) /\
  (x <> [] -> exists i, argmax C cleb x = Some i /\ is_first_max x i /\
     ((i = 0%nat \/ i = (length x - 1)%nat) -> pmax x = Some (true, natC i, nth i x 0)) /\
     ((0 < i)%nat -> (i < length x - 1)%nat ->
        pmax x = Some (false, ipeak (nth (i - 1) x 0) (nth i x 0) (nth (i + 1) x 0) + natC i,
                              maxi (nth (i - 1) x 0) (nth i x 0) (nth (i + 1) x 0)))).
Proof using cle_refl cle_trans cle_total.
  split.
  - intros ->. reflexivity.
  - intros Hx. destruct (argmax C cleb x) as [i|] eqn:E.
    + exists i. split; [reflexivity|]. split; [now apply argmax_spec|]. split.
      * now apply pmax_edge.
      * now apply pmax_interior.
    + destruct x; [contradiction|discriminate].
Qed.

Lemma argmax_none x : argmax C cleb x = None <-> x = [].
Proof using. destruct x; cbn [argmax]; split; intros H; congruence. Qed.

(* ---- scale invariance: x -> g x (g <> 0) keeps the interpolated index and scales the value ---- *)
Hypothesis ceqb_refl : forall a, ceqb a a = true.

Lemma mul_ne0 a b : a <> 0 -> b <> 0 -> a * b <> 0.
Proof using Cf.
  intros Ha Hb H. apply Hb. assert (E : b = cinv a * (a * b)) by (field; exact Ha). rewrite E, H. ring.
Qed.

(* the only case in which the offset is NOT scale invariant is zero curvature with a
   non-zero slope (the guard then divides by 1); it cannot occur when the middle sample is
   a maximum (a + c = 2b with a, c <= b forces a = b = c) *)
Lemma parab_scale g a b c : g <> 0 ->
  parab_p0 C c1 cadd cmul copp cinv a b c <> 0 \/ parab_p1 C c1 cadd cmul copp cinv a c = 0 ->
  ipeak (g * a) (g * b) (g * c) = ipeak a b c /\
  maxi (g * a) (g * b) (g * c) = g * maxi a b c.
Proof using Cf ceqb_true ceqb_refl two_ne0.
  intros Hg Hnd.
  assert (Hp0 : parab_p0 C c1 cadd cmul copp cinv (g * a) (g * b) (g * c)
                = g * parab_p0 C c1 cadd cmul copp cinv a b c)
    by (unfold parab_p0, half, csub; field; exact two_ne0).
  assert (Hp1 : parab_p1 C c1 cadd cmul copp cinv (g * a) (g * c)
                = g * parab_p1 C c1 cadd cmul copp cinv a c)
    by (unfold parab_p1, half, csub; field; exact two_ne0).
  assert (Hip : ipeak (g * a) (g * b) (g * c) = ipeak a b c).
  { unfold parab_ipeak. rewrite Hp0, Hp1.
    set (p0 := parab_p0 C c1 cadd cmul copp cinv a b c) in *.
    set (p1 := parab_p1 C c1 cadd cmul copp cinv a c) in *.
    destruct (ceqb p0 0) eqn:E.
    - apply ceqb_true in E. destruct Hnd as [Hnd|Hnd]; [contradiction|].
      rewrite E, Hnd. replace (g * 0) with 0 by ring. rewrite ceqb_refl. reflexivity.
    - assert (Hp : p0 <> 0) by (intros H; rewrite H, ceqb_refl in E; discriminate).
      pose proof (mul_ne0 g p0 Hg Hp) as Hgp.
      destruct (ceqb (g * p0) 0) eqn:E2; [apply ceqb_true in E2; contradiction|].
      unfold half. field. repeat split; assumption. }
  split; [exact Hip|].
  unfold parab_maxi. rewrite Hip, Hp0, Hp1. ring.
Qed.

Variable g : C.
Hypothesis g_ne0 : g <> 0.
Hypothesis cle_scale : forall x y, cleb (g * x) (g * y) = cleb x y.    (* g is positive *)

Lemma argmax_from_scale_gen l : forall i bi bv,
  argmax_from C cleb (map (cmul g) l) i bi (g * bv) = argmax_from C cleb l i bi bv.
Proof using cle_scale.
  induction l as [|v t IH]; intros i bi bv; [reflexivity|].
  cbn [map argmax_from]. rewrite cle_scale. destruct (cleb v bv); apply IH.
Qed.

Lemma argmax_scale_gen l : argmax C cleb (map (cmul g) l) = argmax C cleb l.
Proof using cle_scale.
  destruct l as [|v t]; [reflexivity|]. cbn [map argmax]. f_equal. apply argmax_from_scale_gen.
Qed.

Lemma nth_map_scale l i : nth i (map (cmul g) l) 0 = g * nth i l 0.
Proof using Cf.
  replace 0 with (g * 0) at 1 by ring. apply map_nth.
Qed.

(* parabolic_max(g * x) = (same interpolated index, g * value), for every array x *)
Lemma pmax_scale x :
  (forall i, argmax C cleb x = Some i -> i <> 0%nat -> i <> (length x - 1)%nat ->
     parab_p0 C c1 cadd cmul copp cinv (nth (i - 1) x 0) (nth i x 0) (nth (i + 1) x 0) <> 0 \/
     parab_p1 C c1 cadd cmul copp cinv (nth (i - 1) x 0) (nth (i + 1) x 0) = 0) ->
  pmax (map (cmul g) x) =
  match pmax x with Some (e, ip, mx) => Some (e, ip, g * mx) | None => None end.
Proof using Cf ceqb_true ceqb_refl two_ne0 g_ne0 cle_scale.
  intros Hnd. unfold parabolic_max. rewrite argmax_scale_gen, map_length.
  destruct (argmax C cleb x) as [i|] eqn:E; [|reflexivity].
  destruct ((i =? 0)%nat || (i =? length x - 1)%nat) eqn:Ee.
  - now rewrite nth_map_scale.
  - apply orb_false_iff in Ee. destruct Ee as [E0 E1].
    apply Nat.eqb_neq in E0. apply Nat.eqb_neq in E1.
    rewrite !nth_map_scale.
    destruct (parab_scale g (nth (i - 1) x 0) (nth i x 0) (nth (i + 1) x 0) g_ne0) as [H1 H2].
    { apply Hnd; [reflexivity|assumption|assumption]. }
    now rewrite H1, H2.
Qed.

End Parab.

(* ------------------------------------------------------------------------ *)
(* waveforms.wave_shift_corrmax: index arithmetic of the 'same'-mode correlation,
   over the integers (exact). *)
Section XCorrZ.
Local Open Scope Z_scope.
Local Notation zsum := (sumn Z 0 Z.add).
Local Notation xc := (xcorr_same_at Z 0 Z.add Z.mul).
Local Notation zn := Z.of_nat.

Lemma zsum_S f m : zsum f (S m) = zsum f m + f m.
Proof. reflexivity. Qed.

Lemma zsum_ext f g m : (forall i, (i < m)%nat -> f i = g i) -> zsum f m = zsum g m.
Proof.
  induction m as [|m IH]; intros H; [reflexivity|].
  rewrite !zsum_S, IH, H by (intros; auto with arith). reflexivity.
Qed.

Lemma zsum_zero m : zsum (fun _ => 0) m = 0.
Proof. induction m as [|m IH]; [reflexivity|]. rewrite zsum_S, IH. reflexivity. Qed.

Lemma zsum_add f g m : zsum (fun i => f i + g i) m = zsum f m + zsum g m.
Proof. induction m as [|m IH]; [reflexivity|]. rewrite !zsum_S, IH. ring. Qed.

Lemma zsum_le f g m : (forall i, (i < m)%nat -> f i <= g i) -> zsum f m <= zsum g m.
Proof.
  induction m as [|m IH]; intros H; [cbn; lia|].
  rewrite !zsum_S. pose proof (H m ltac:(lia)). pose proof (IH ltac:(intros; apply H; lia)). lia.
Qed.

Lemma zsum_swap (f : nat -> nat -> Z) a b :
  zsum (fun i => zsum (fun j => f i j) b) a = zsum (fun j => zsum (fun i => f i j) a) b.
Proof.
  induction a as [|a IH]; cbn [sumn].
  - now rewrite zsum_zero.
  - rewrite IH, <- zsum_add. reflexivity.
Qed.

Lemma zsum_single f m i0 : (i0 < m)%nat -> (forall i, (i < m)%nat -> i <> i0 -> f i = 0) ->
  zsum f m = f i0.
Proof.
  induction m as [|m IH]; intros Hi H; [lia|]. rewrite zsum_S.
  destruct (Nat.eq_dec i0 m) as [->|Hne].
  - rewrite (zsum_ext f (fun _ => 0)) by (intros; apply H; lia). rewrite zsum_zero. lia.
  - rewrite IH by (try lia; intros; apply H; lia). rewrite (H m) by lia. lia.
Qed.

Lemma xc_ext N a a' b b' i :
  (forall j, (j < N)%nat -> a j = a' j) -> (forall j, (j < N)%nat -> b j = b' j) ->
  xc N a b i = xc N a' b' i.
Proof.
  intros Ha Hb. unfold xcorr_same_at. apply zsum_ext. intros l Hl. cbv zeta.
  destruct ((0 <=? zn l + zn i - zn (N / 2)) && (zn l + zn i - zn (N / 2) <? zn N)) eqn:E; [|reflexivity].
  apply andb_prop in E. destruct E as [E1 E2]. apply Z.leb_le in E1. apply Z.ltb_lt in E2.
  rewrite Ha, Hb by lia. reflexivity.
Qed.

(* the zero-lag entry sits at index floor(N/2) for EVERY N and carries the energy *)
Lemma xc_zero_lag N a : xc N a a (N / 2) = zsum (fun l => a l * a l) N.
Proof.
  unfold xcorr_same_at. apply zsum_ext. intros l Hl. cbv zeta.
  replace (zn l + zn (N / 2) - zn (N / 2)) with (zn l) by lia.
  destruct (Z.leb_spec 0 (zn l)); [|lia]. destruct (Z.ltb_spec (zn l) (zn N)); [|lia].
  cbn [andb]. now rewrite Nat2Z.id.
Qed.

Definition impulse (q : nat) (A : Z) (j : nat) : Z := if (j =? q)%nat then A else 0.
Definition impulse_list (N q : nat) (A : Z) : list Z := map (impulse q A) (seq 0 N).

(* correlation of an impulse at q with an impulse at p2 = q + m: a single entry A^2 at
   index floor(N/2) - m *)
Lemma xc_impulse N q p2 A i : (q < N)%nat -> (p2 < N)%nat ->
  xc N (impulse q A) (impulse p2 A) i =
  if (zn i =? zn (N / 2) - (zn p2 - zn q)) then A * A else 0.
Proof.
  intros Hq Hp. unfold xcorr_same_at. rewrite (zsum_single _ N p2 Hp).
  - cbv zeta. unfold impulse. rewrite Nat.eqb_refl.
    destruct (Z.eqb_spec (zn i) (zn (N / 2) - (zn p2 - zn q))) as [E|E].
    + replace (zn p2 + zn i - zn (N / 2)) with (zn q) by lia.
      destruct (Z.leb_spec 0 (zn q)); [|lia]. destruct (Z.ltb_spec (zn q) (zn N)); [|lia].
      cbn [andb]. now rewrite Nat2Z.id, Nat.eqb_refl.
    + destruct ((0 <=? zn p2 + zn i - zn (N / 2)) && (zn p2 + zn i - zn (N / 2) <? zn N)) eqn:E2; [|reflexivity].
      apply andb_prop in E2. destruct E2 as [E1 E2]. apply Z.leb_le in E1.
      destruct (Nat.eqb_spec (Z.to_nat (zn p2 + zn i - zn (N / 2))) q); [lia|]. lia.
  - intros l Hl Hne. cbv zeta. unfold impulse at 2.
    destruct (Nat.eqb_spec l p2); [contradiction|].
    destruct ((0 <=? zn l + zn i - zn (N / 2)) && (zn l + zn i - zn (N / 2) <? zn N)); lia.
Qed.

Lemma nth_map_seq0 (f : nat -> Z) m k : (k < m)%nat -> nth k (map f (seq 0 m)) 0 = f k.
Proof.
  intros Hk. rewrite (nth_indep _ 0 (f 0%nat)) by (now rewrite map_length, seq_length).
  rewrite (map_nth f (seq 0 m) 0%nat k), seq_nth by exact Hk. reflexivity.
Qed.

Lemma impulse_list_length N q A : length (impulse_list N q A) = N.
Proof. unfold impulse_list. now rewrite map_length, seq_length. Qed.

Lemma xcorr_impulse_lists N q p2 A i0 : (q < N)%nat -> (p2 < N)%nat ->
  zn i0 = zn (N / 2) - (zn p2 - zn q) ->
  xcorr_same Z 0 Z.add Z.mul (impulse_list N q A) (impulse_list N p2 A) = impulse_list N i0 (A * A).
Proof.
  intros Hq Hp Hi0. unfold xcorr_same. rewrite impulse_list_length. unfold impulse_list at 3.
  apply map_ext_in. intros i Hi. apply in_seq in Hi.
  rewrite (xc_ext N _ (impulse q A) _ (impulse p2 A) i).
  - rewrite xc_impulse by assumption. unfold impulse.
    destruct (Z.eqb_spec (zn i) (zn (N / 2) - (zn p2 - zn q))); destruct (Nat.eqb_spec i i0); try reflexivity; lia.
  - intros j Hj. unfold nthC, impulse_list. now apply nth_map_seq0.
  - intros j Hj. unfold nthC, impulse_list. now apply nth_map_seq0.
Qed.

Lemma zle_refl a : (a <=? a) = true. Proof. apply Z.leb_refl. Qed.
Lemma zle_trans a b c : (a <=? b) = true -> (b <=? c) = true -> (a <=? c) = true.
Proof. rewrite !Z.leb_le. lia. Qed.
Lemma zle_total a b : (a <=? b) = false -> (b <=? a) = true.
Proof. rewrite Z.leb_gt, Z.leb_le. lia. Qed.

Lemma argmax_impulse_list N i0 B : (i0 < N)%nat -> 0 < B ->
  argmax Z Z.leb (impulse_list N i0 B) = Some i0.
Proof.
  intros Hi HB. destruct (argmax Z Z.leb (impulse_list N i0 B)) as [i|] eqn:E.
  - f_equal.
    destruct (argmax_spec Z 0 Z.leb zle_refl zle_trans zle_total _ _ E) as (Hlt & Hall & _).
    rewrite impulse_list_length in *. specialize (Hall i0 Hi). apply Z.leb_le in Hall.
    unfold impulse_list in Hall. rewrite !nth_map_seq0 in Hall by assumption.
    unfold impulse in Hall. rewrite Nat.eqb_refl in Hall.
    destruct (Nat.eqb_spec i i0); [assumption|lia].
  - apply argmax_none in E. pose proof (impulse_list_length N i0 B) as HL. rewrite E in HL. cbn in HL. lia.
Qed.

(* An impulse and its copy delayed by m samples (any sign), any length N of either
   parity: the 'same'-mode correlation is a single peak at index floor(N/2) - m, np.argmax
   finds it, and floor(N/2) - argmax gives back exactly m. *)
Lemma corr_peak_at_lag N q (m A : Z) : A <> 0 -> (q < N)%nat ->
  0 <= zn q + m < zn N -> 0 <= zn (N / 2) - m < zn N ->
  let a := impulse_list N q A in
  let b := impulse_list N (Z.to_nat (zn q + m)) A in
  let i0 := Z.to_nat (zn (N / 2) - m) in
  xcorr_same Z 0 Z.add Z.mul a b = impulse_list N i0 (A * A) /\
  argmax Z Z.leb (xcorr_same Z 0 Z.add Z.mul a b) = Some i0 /\
  int_delay_of_peak N i0 = m.
Proof.
  intros HA Hq Hp Hi. cbv zeta.
  assert (E : xcorr_same Z 0 Z.add Z.mul (impulse_list N q A) (impulse_list N (Z.to_nat (zn q + m)) A)
              = impulse_list N (Z.to_nat (zn (N / 2) - m)) (A * A)).
  { apply xcorr_impulse_lists; lia. }
  split; [exact E|]. split.
  - rewrite E. apply argmax_impulse_list; [lia|nia].
  - unfold int_delay_of_peak. lia.
Qed.

(* ---- Cauchy-Schwarz: a finitely supported signal and its delayed copy ---- *)
Definition inr (N : nat) (k : Z) : bool := (0 <=? k) && (k <? zn N).

Lemma zsum_pick (f : nat -> Z) N t :
  zsum (fun j => if (zn j =? t) then f j else 0) N = if inr N t then f (Z.to_nat t) else 0.
Proof.
  unfold inr. destruct ((0 <=? t) && (t <? zn N)) eqn:E.
  - apply andb_prop in E. destruct E as [E1 E2]. apply Z.leb_le in E1. apply Z.ltb_lt in E2.
    rewrite (zsum_single _ N (Z.to_nat t)).
    + destruct (Z.eqb_spec (zn (Z.to_nat t)) t); [reflexivity|lia].
    + lia.
    + intros j Hj Hne. destruct (Z.eqb_spec (zn j) t); [lia|reflexivity].
  - rewrite (zsum_ext _ (fun _ => 0)); [apply zsum_zero|].
    intros j Hj. destruct (Z.eqb_spec (zn j) t); [|reflexivity].
    apply andb_false_iff in E. destruct E as [E|E]; [apply Z.leb_gt in E|apply Z.ltb_ge in E]; lia.
Qed.

Lemma reindex_le (f : nat -> Z) N M d : (forall j, 0 <= f j) ->
  zsum (fun l => if inr N (zn l + d) then f (Z.to_nat (zn l + d)) else 0) M <= zsum f N.
Proof.
  intros Hf.
  rewrite (zsum_ext _ (fun l => zsum (fun j => if (zn j =? zn l + d) then f j else 0) N))
    by (intros l Hl; now rewrite zsum_pick).
  rewrite zsum_swap. apply zsum_le. intros j Hj.
  rewrite (zsum_ext _ (fun l => if (zn l =? zn j - d) then f j else 0)).
  - rewrite (zsum_pick (fun _ => f j) M (zn j - d)). destruct (inr M (zn j - d)); [lia|apply Hf].
  - intros l Hl. destruct (Z.eqb_spec (zn j) (zn l + d)); destruct (Z.eqb_spec (zn l) (zn j - d)); try reflexivity; lia.
Qed.

Lemma zsum_scale c f m : zsum (fun i => c * f i) m = c * zsum f m.
Proof. induction m as [|m IH]; [cbn; lia|]. rewrite !zsum_S, IH. ring. Qed.

(* every entry of the correlation is bounded by the mean of the two energies *)
Lemma xc_bound N a b i :
  2 * xc N a b i <= zsum (fun l => a l * a l) N + zsum (fun l => b l * b l) N.
Proof.
  set (d := zn i - zn (N / 2)).
  assert (E : xc N a b i = zsum (fun l => if inr N (zn l + d) then a (Z.to_nat (zn l + d)) * b l else 0) N).
  { unfold xcorr_same_at. apply zsum_ext. intros l Hl. cbv zeta. unfold inr, d.
    replace (zn l + (zn i - zn (N / 2))) with (zn l + zn i - zn (N / 2)) by lia. reflexivity. }
  rewrite E, <- zsum_scale.
  pose proof (reindex_le (fun l => a l * a l) N N d ltac:(intros; nia)) as Hr. cbv beta in Hr.
  assert (H1 : zsum (fun l => 2 * (if inr N (zn l + d) then a (Z.to_nat (zn l + d)) * b l else 0)) N
               <= zsum (fun l => (if inr N (zn l + d) then a (Z.to_nat (zn l + d)) * a (Z.to_nat (zn l + d)) else 0)
                                 + b l * b l) N).
  { assert (AG : forall x y : Z, 2 * (x * y) <= x * x + y * y)
      by (intros x y; pose proof (Z.square_nonneg (x - y)); nia).
    apply zsum_le. intros l Hl. destruct (inr N (zn l + d)); [apply AG|].
    pose proof (Z.square_nonneg (b l)). nia. }
  rewrite zsum_add in H1. lia.
Qed.

(* b = a delayed by m samples with nothing pushed out of the window (b l = a (l - m), zero
   where l - m falls outside): same energy, the entry at floor(N/2) - m equals it, and no
   entry exceeds it — the correlation peaks at the lag, for every N. *)
Lemma corr_delayed_copy_peak N a b (m : Z) :
  (forall l, (l < N)%nat -> b l = if inr N (zn l - m) then a (Z.to_nat (zn l - m)) else 0) ->
  zsum (fun l => b l * b l) N = zsum (fun l => a l * a l) N ->
  0 <= zn (N / 2) - m < zn N ->
  xc N a b (Z.to_nat (zn (N / 2) - m)) = zsum (fun l => a l * a l) N /\
  forall i, xc N a b i <= xc N a b (Z.to_nat (zn (N / 2) - m)).
Proof.
  intros Hb He Hi.
  assert (Hpk : xc N a b (Z.to_nat (zn (N / 2) - m)) = zsum (fun l => a l * a l) N).
  { rewrite <- He. unfold xcorr_same_at. apply zsum_ext. intros l Hl. cbv zeta.
    rewrite Z2Nat.id by lia.
    replace (zn l + (zn (N / 2) - m) - zn (N / 2)) with (zn l - m) by lia.
    rewrite (Hb l Hl). unfold inr.
    destruct ((0 <=? zn l - m) && (zn l - m <? zn N)); ring. }
  split; [exact Hpk|]. intros i. rewrite Hpk. pose proof (xc_bound N a b i). lia.
Qed.

(* ---- equality case of Cauchy-Schwarz: the peak is unique ---- *)
Lemma zsum_nonneg_zero f m : (forall i, (i < m)%nat -> 0 <= f i) -> zsum f m <= 0 ->
  forall i, (i < m)%nat -> f i = 0.
Proof.
  induction m as [|m IH]; intros Hf Hs i Hi; [lia|]. rewrite zsum_S in Hs.
  assert (H0 : 0 <= zsum f m).
  { pose proof (zsum_le (fun _ => 0) f m ltac:(intros j Hj; apply Hf; lia)) as H.
    now rewrite zsum_zero in H. }
  pose proof (Hf m ltac:(lia)) as Hm.
  destruct (Nat.eq_dec i m) as [->|Hne]; [lia|].
  apply IH; try lia. intros j Hj. apply Hf. lia.
Qed.

(* an entry that reaches the mean of the two energies forces b to be a advanced by its lag *)
Lemma xc_equality N a b i :
  zsum (fun l => a l * a l) N + zsum (fun l => b l * b l) N <= 2 * xc N a b i ->
  forall l, (l < N)%nat ->
    if inr N (zn l + (zn i - zn (N / 2)))
    then a (Z.to_nat (zn l + (zn i - zn (N / 2)))) = b l else b l = 0.
Proof.
  intros Hge. set (d := zn i - zn (N / 2)).
  assert (E : xc N a b i = zsum (fun l => if inr N (zn l + d) then a (Z.to_nat (zn l + d)) * b l else 0) N).
  { unfold xcorr_same_at. apply zsum_ext. intros l Hl. cbv zeta. unfold inr, d.
    replace (zn l + (zn i - zn (N / 2))) with (zn l + zn i - zn (N / 2)) by lia. reflexivity. }
  pose proof (reindex_le (fun l => a l * a l) N N d ltac:(intros; nia)) as Hr. cbv beta in Hr.
  set (G := fun l => if inr N (zn l + d) then a (Z.to_nat (zn l + d)) * a (Z.to_nat (zn l + d)) else 0) in *.
  set (T := fun l => if inr N (zn l + d) then a (Z.to_nat (zn l + d)) * b l else 0) in *.
  set (sl := fun l => (G l + b l * b l) + (-2) * T l).
  assert (Hsum : zsum sl N = zsum G N + zsum (fun l => b l * b l) N + (-2) * zsum T N).
  { unfold sl. rewrite zsum_add, zsum_add, zsum_scale. reflexivity. }
  assert (Hnn : forall l, (l < N)%nat -> 0 <= sl l).
  { intros l Hl. unfold sl, G, T. destruct (inr N (zn l + d)).
    - pose proof (Z.square_nonneg (a (Z.to_nat (zn l + d)) - b l)). nia.
    - pose proof (Z.square_nonneg (b l)). nia. }
  assert (Hle : zsum sl N <= 0) by (rewrite Hsum; rewrite E in Hge; lia).
  intros l Hl. pose proof (zsum_nonneg_zero sl N Hnn Hle l Hl) as H0.
  unfold sl, G, T in H0. destruct (inr N (zn l + d)).
  - assert (Hsq : (a (Z.to_nat (zn l + d)) - b l) * (a (Z.to_nat (zn l + d)) - b l) = 0) by nia.
    apply Z.mul_eq_0 in Hsq. lia.
  - assert (Hsq : b l * b l = 0) by nia. apply Z.mul_eq_0 in Hsq. lia.
Qed.

(* autocorrelation: every entry other than the zero-lag one is STRICTLY below the energy *)
Lemma autocorr_strict N a i : (i < N)%nat -> i <> (N / 2)%nat ->
  0 < zsum (fun l => a l * a l) N -> xc N a a i < zsum (fun l => a l * a l) N.
Proof.
  intros Hi Hne HE. destruct (Z_lt_ge_dec (xc N a a i) (zsum (fun l => a l * a l) N)) as [|Hge]; [assumption|].
  exfalso.
  pose proof (xc_equality N a a i ltac:(lia)) as Heq.
  set (d := zn i - zn (N / 2)) in *.
  assert (Hz : forall l, (l < N)%nat -> a l = 0).
  { destruct (Z_lt_ge_dec 0 d) as [Hd|Hd].
    - assert (Hk : forall k l, (l < N)%nat -> (N - l <= k)%nat -> a l = 0).
      { induction k as [|k IH]; intros l Hl Hk; [lia|].
        specialize (Heq l Hl). unfold inr in Heq.
        destruct ((0 <=? zn l + d) && (zn l + d <? zn N)) eqn:E.
        - apply andb_prop in E. destruct E as [E1 E2]. apply Z.leb_le in E1. apply Z.ltb_lt in E2.
          rewrite <- Heq. apply IH; lia.
        - exact Heq. }
      intros l Hl. apply (Hk N l Hl). lia.
    - assert (Hd' : d < 0) by (unfold d in *; lia).
      assert (Hk : forall k l, (l <= k)%nat -> (l < N)%nat -> a l = 0).
      { induction k as [|k IH]; intros l Hk Hl.
        - specialize (Heq l Hl). unfold inr in Heq.
          destruct ((0 <=? zn l + d) && (zn l + d <? zn N)) eqn:E; [|exact Heq].
          apply andb_prop in E. destruct E as [E1 _]. apply Z.leb_le in E1. lia.
        - destruct (Nat.eq_dec l (S k)) as [->|Hn]; [|apply IH; lia].
          specialize (Heq (S k) Hl). unfold inr in Heq.
          destruct ((0 <=? zn (S k) + d) && (zn (S k) + d <? zn N)) eqn:E; [|exact Heq].
          apply andb_prop in E. destruct E as [E1 E2]. apply Z.leb_le in E1. apply Z.ltb_lt in E2.
          rewrite <- Heq. apply IH; lia. }
      intros l Hl. apply (Hk l l); lia. }
  rewrite (zsum_ext _ (fun _ => 0)) in HE by (intros l Hl; rewrite (Hz l Hl); reflexivity).
  rewrite zsum_zero in HE. lia.
Qed.

(* wave_shift_corrmax(x, x) on any non-flat integer waveform of any length: np.argmax of the
   'same' correlation is exactly floor(N/2), i.e. the integer part of the delay is 0 *)
Lemma autocorr_argmax (x : list Z) :
  0 < zsum (fun l => nthC Z 0 x l * nthC Z 0 x l) (length x) ->
  argmax Z Z.leb (xcorr_same Z 0 Z.add Z.mul x x) = Some (length x / 2)%nat /\
  int_delay_of_peak (length x) (length x / 2) = 0.
Proof.
  intros HE. set (N := length x) in *.
  assert (HN : (1 <= N)%nat) by (destruct N; [cbn in HE; lia|lia]).
  assert (Hh : (N / 2 < N)%nat) by (apply Nat.div_lt; lia).
  split; [|unfold int_delay_of_peak; lia].
  assert (Hlen : length (xcorr_same Z 0 Z.add Z.mul x x) = N)
    by (unfold xcorr_same; now rewrite map_length, seq_length).
  assert (Hnth : forall i, (i < N)%nat ->
            nth i (xcorr_same Z 0 Z.add Z.mul x x) 0 = xc N (nthC Z 0 x) (nthC Z 0 x) i).
  { intros i Hi. unfold xcorr_same. fold N. now apply nth_map_seq0. }
  destruct (argmax Z Z.leb (xcorr_same Z 0 Z.add Z.mul x x)) as [i|] eqn:E.
  - f_equal.
    destruct (argmax_spec Z 0 Z.leb zle_refl zle_trans zle_total _ _ E) as (Hlt & Hall & _).
    rewrite Hlen in *. specialize (Hall (N / 2)%nat Hh). apply Z.leb_le in Hall.
    rewrite !Hnth in Hall by assumption. rewrite xc_zero_lag in Hall.
    destruct (Nat.eq_dec i (N / 2)) as [|Hne]; [assumption|].
    pose proof (autocorr_strict N (nthC Z 0 x) i Hlt Hne HE). lia.
  - apply argmax_none in E. rewrite E in Hlen. cbn in Hlen. lia.
Qed.

(* ---- uniqueness of the peak for a delayed copy ---- *)
(* a sequence on 0..N-1 whose every non-zero sample has an equal sample e places further,
   still inside the window (e <> 0), is identically zero *)
Lemma propagating_zero N (a : nat -> Z) e : e <> 0 ->
  (forall j, (j < N)%nat -> a j <> 0 -> inr N (zn j + e) = true /\ a (Z.to_nat (zn j + e)) = a j) ->
  forall j, (j < N)%nat -> a j = 0.
Proof.
  intros He H.
  destruct (Z_lt_ge_dec 0 e) as [Hp|Hn].
  - assert (Hk : forall k j, (j < N)%nat -> (N - j <= k)%nat -> a j = 0).
    { induction k as [|k IH]; intros j Hj Hk; [lia|].
      destruct (Z.eq_dec (a j) 0) as [|Hnz]; [assumption|].
      destruct (H j Hj Hnz) as [Hin Heq]. unfold inr in Hin.
      apply andb_prop in Hin. destruct Hin as [E1 E2]. apply Z.leb_le in E1. apply Z.ltb_lt in E2.
      rewrite <- Heq. apply IH; lia. }
    intros j Hj. apply (Hk N j Hj). lia.
  - assert (Hk : forall k j, (j <= k)%nat -> (j < N)%nat -> a j = 0).
    { induction k as [|k IH]; intros j Hk Hj.
      - destruct (Z.eq_dec (a j) 0) as [|Hnz]; [assumption|].
        destruct (H j Hj Hnz) as [Hin _]. unfold inr in Hin.
        apply andb_prop in Hin. destruct Hin as [E1 _]. apply Z.leb_le in E1. lia.
      - destruct (Nat.eq_dec j (S k)) as [->|Hne]; [|apply IH; lia].
        destruct (Z.eq_dec (a (S k)) 0) as [|Hnz]; [assumption|].
        destruct (H (S k) Hj Hnz) as [Hin Heq]. unfold inr in Hin.
        apply andb_prop in Hin. destruct Hin as [E1 E2]. apply Z.leb_le in E1. apply Z.ltb_lt in E2.
        rewrite <- Heq. apply IH; lia. }
    intros j Hj. apply (Hk j j); lia.
Qed.

(* b = a delayed by m, nothing pushed out of the window (stated pointwise): then EVERY entry
   of the correlation other than index floor(N/2) - m is STRICTLY below the energy *)
Lemma corr_delayed_copy_strict N a b (m : Z) i :
  (forall l, (l < N)%nat -> b l = if inr N (zn l - m) then a (Z.to_nat (zn l - m)) else 0) ->
  (forall j, (j < N)%nat -> inr N (zn j + m) = false -> a j = 0) ->
  zsum (fun l => b l * b l) N = zsum (fun l => a l * a l) N ->
  0 < zsum (fun l => a l * a l) N ->
  (i < N)%nat -> zn i <> zn (N / 2) - m ->
  xc N a b i < zsum (fun l => a l * a l) N.
Proof.
  intros Hb Hout He HE Hi Hne.
  destruct (Z_lt_ge_dec (xc N a b i) (zsum (fun l => a l * a l) N)) as [|Hge]; [assumption|].
  exfalso.
  pose proof (xc_equality N a b i ltac:(lia)) as Heq.
  set (d := zn i - zn (N / 2)) in *.
  assert (Hz : forall j, (j < N)%nat -> a j = 0).
  { apply (propagating_zero N a (d + m)); [lia|].
    intros j Hj Hnz.
    destruct (inr N (zn j + m)) eqn:Ein; [|rewrite (Hout j Hj Ein) in Hnz; contradiction].
    unfold inr in Ein. apply andb_prop in Ein. destruct Ein as [E1 E2].
    apply Z.leb_le in E1. apply Z.ltb_lt in E2.
    set (l := Z.to_nat (zn j + m)).
    assert (Hl : (l < N)%nat) by (unfold l; lia).
    assert (Hlj : zn l - m = zn j) by (unfold l; lia).
    pose proof (Hb l Hl) as Hbl. rewrite Hlj in Hbl.
    assert (Hinj : inr N (zn j) = true).
    { unfold inr. apply andb_true_intro. split; [apply Z.leb_le|apply Z.ltb_lt]; lia. }
    rewrite Hinj, Nat2Z.id in Hbl.
    specialize (Heq l Hl). replace (zn l + d) with (zn j + (d + m)) in Heq by (unfold l; lia).
    destruct (inr N (zn j + (d + m))).
    - split; [reflexivity|]. rewrite Heq, Hbl. reflexivity.
    - rewrite Hbl in Heq. contradiction. }
  rewrite (zsum_ext _ (fun _ => 0)) in HE by (intros l Hl; rewrite (Hz l Hl); reflexivity).
  rewrite zsum_zero in HE. lia.
Qed.

Lemma reindex_eq (f : nat -> Z) N M d :
  zsum (fun l => if inr N (zn l + d) then f (Z.to_nat (zn l + d)) else 0) M
  = zsum (fun j => if inr M (zn j - d) then f j else 0) N.
Proof.
  rewrite (zsum_ext _ (fun l => zsum (fun j => if (zn j =? zn l + d) then f j else 0) N))
    by (intros l Hl; now rewrite zsum_pick).
  rewrite zsum_swap. apply zsum_ext. intros j Hj.
  rewrite (zsum_ext _ (fun l => if (zn l =? zn j - d) then f j else 0)).
  - now rewrite (zsum_pick (fun _ => f j) M (zn j - d)).
  - intros l Hl. destruct (Z.eqb_spec (zn j) (zn l + d)); destruct (Z.eqb_spec (zn l) (zn j - d)); try reflexivity; lia.
Qed.

(* a delayed copy with nothing pushed out has the same energy *)
Lemma delayed_copy_energy N a b (m : Z) :
  (forall l, (l < N)%nat -> b l = if inr N (zn l - m) then a (Z.to_nat (zn l - m)) else 0) ->
  (forall j, (j < N)%nat -> inr N (zn j + m) = false -> a j = 0) ->
  zsum (fun l => b l * b l) N = zsum (fun l => a l * a l) N.
Proof.
  intros Hb Hout.
  rewrite (zsum_ext _ (fun l => if inr N (zn l + - m) then (fun j => a j * a j) (Z.to_nat (zn l + - m)) else 0)).
  - pose proof (reindex_eq (fun j => a j * a j) N N (- m)) as R. cbv beta in R. rewrite R.
    apply zsum_ext. intros j Hj.
    replace (zn j - - m) with (zn j + m) by lia.
    destruct (inr N (zn j + m)) eqn:E; [reflexivity|]. rewrite (Hout j Hj E). reflexivity.
  - intros l Hl. rewrite (Hb l Hl). replace (zn l + - m) with (zn l - m) by lia.
    destruct (inr N (zn l - m)); ring.
Qed.

(* wave_shift_corrmax on ANY integer waveform and its copy delayed by m samples (window
   containing both, waveform not flat), every length: the correlation equals the energy at
   index floor(N/2) - m and is strictly smaller everywhere else - np.argmax can only return
   that index, and floor(N/2) - argmax = m. *)
Lemma corr_delayed_copy_unique N a b (m : Z) :
  (forall l, (l < N)%nat -> b l = if inr N (zn l - m) then a (Z.to_nat (zn l - m)) else 0) ->
  (forall j, (j < N)%nat -> inr N (zn j + m) = false -> a j = 0) ->
  0 < zsum (fun l => a l * a l) N -> 0 <= zn (N / 2) - m < zn N ->
  xc N a b (Z.to_nat (zn (N / 2) - m)) = zsum (fun l => a l * a l) N /\
  (forall i, (i < N)%nat -> i <> Z.to_nat (zn (N / 2) - m) ->
     xc N a b i < xc N a b (Z.to_nat (zn (N / 2) - m))) /\
  int_delay_of_peak N (Z.to_nat (zn (N / 2) - m)) = m.
Proof.
  intros Hb Hout HE Hi.
  pose proof (delayed_copy_energy N a b m Hb Hout) as He.
  destruct (corr_delayed_copy_peak N a b m Hb He Hi) as [Hpk _].
  split; [exact Hpk|]. split.
  - intros i Hlt Hne. rewrite Hpk.
    apply (corr_delayed_copy_strict N a b m i Hb Hout He HE Hlt). lia.
  - unfold int_delay_of_peak. lia.
Qed.

End XCorrZ.

(* re-alignment with an integer delay: rolling back by m undoes a roll by m *)
Section RollBack.
Variable C : Type.
Variable c0 : C.

Lemma roll_list_length n m (x : list C) : length (roll_list C c0 n m x) = n.
Proof. unfold roll_list. now rewrite map_length, seq_length. Qed.

Lemma resync_undoes_roll (m : Z) (x : list C) : (1 <= length x)%nat ->
  resync_int C c0 m (roll_list C c0 (length x) m x) = x.
Proof.
  intros Hn. unfold resync_int. rewrite roll_list_length.
  set (n := length x) in *.
  apply (nth_ext _ _ c0 c0); [now rewrite roll_list_length|].
  intros j Hj. rewrite roll_list_length in Hj. unfold roll_list at 1.
  rewrite (nth_indep _ c0 (roll_fun C n (- m) (nthC C c0 (roll_list C c0 n m x)) 0%nat))
    by (now rewrite map_length, seq_length).
  rewrite (map_nth (roll_fun C n (- m) (nthC C c0 (roll_list C c0 n m x))) (seq 0 n) 0%nat j), seq_nth by exact Hj.
  cbn [Nat.add]. unfold roll_fun at 1, nthC at 1.
  assert (Hb : (Z.to_nat ((Z.of_nat j - - m) mod Z.of_nat n) < n)%nat).
  { pose proof (Z.mod_pos_bound (Z.of_nat j - - m) (Z.of_nat n) ltac:(lia)). lia. }
  unfold roll_list.
  rewrite (nth_indep _ c0 (roll_fun C n m (nthC C c0 x) 0%nat)) by (now rewrite map_length, seq_length).
  rewrite (map_nth (roll_fun C n m (nthC C c0 x)) (seq 0 n) 0%nat), seq_nth by exact Hb.
  cbn [Nat.add]. unfold roll_fun, nthC. f_equal.
  rewrite Z2Nat.id by (pose proof (Z.mod_pos_bound (Z.of_nat j - - m) (Z.of_nat n) ltac:(lia)); lia).
  rewrite Zminus_mod_idemp_l. replace (Z.of_nat j - - m - m)%Z with (Z.of_nat j) by lia.
  rewrite Z.mod_small by lia. apply Nat2Z.id.
Qed.

End RollBack.
