(* C07 — property theorems (statements only; proofs are in Proofs.v). *)
From Coq Require Import ZArith List Bool Field.
From IBL.C07 Require Import Model Sums Proofs.
Import ListNotations.

Theorem C07_integer_shift_is_roll_fun :
  forall (C : Type) (c0 c1 : C) (cadd cmul : C -> C -> C) (copp cinv cconj : C -> C)
         (n : nat) (w : Z -> C),
  setting C c0 c1 cadd cmul copp cinv cconj n w ->
  forall (p x : nat -> C) (m : Z) (j : nat),
  real_sig C cconj n x ->
  (forall k, (2 * k <= n)%nat -> p k = w (- (Z.of_nat k * m))%Z) ->
  fshift_fun C c0 c1 cadd cmul cinv cconj n w p x j = roll_fun C n m x j.
Proof. exact pub_fshift_int_roll. Qed.
Print Assumptions C07_integer_shift_is_roll_fun.
