(* C07 — property theorems.  Statements only; every proof is `exact <lemma>`
   (lemmas in Proofs.v / Inst.v).

   Common context of the fshift theorems (record `setting`, Proofs.v): C is ANY
   field (so in particular the complex numbers) with a ring involution cconj, of
   characteristic not dividing 2n; n >= 1 samples; w : Z -> C a homomorphism
   (w (a+b) = w a * w b) with w n = 1, w d <> 1 for 0 < d < n and
   cconj (w k) = w (-k) — i.e. w k = e^{2 pi i k/n}, the twiddle of
   scipy.fft.rfft / irfft.  A phase table p : k -> C (0 <= k <= n/2) stands for
   np.exp(1j * np.angle(rfft(dephas)) * s).  Signals are real: cconj x_j = x_j. *)
From Coq Require Import ZArith List Bool Field.
From IBL.C07 Require Import Model Sums Proofs Inst Waveform WaveProofs.
Import ListNotations.

Section Statements.
Variable C : Type.
Variables (c0 c1 : C) (cadd cmul : C -> C -> C) (copp cinv cconj : C -> C).
Variable n : nat.
Variable w : Z -> C.
Hypothesis ST : setting C c0 c1 cadd cmul copp cinv cconj n w.

Local Notation fshift := (fshift_fun C c0 c1 cadd cmul cinv cconj n w).
Local Notation fshift1 := (fshift1 C c0 c1 cadd cmul cinv cconj n w).
Local Notation frows := (fshift_rows C c0 c1 cadd cmul cinv cconj n w).
Local Notation rfft := (rfft_at C c0 cadd cmul n w).
Local Notation re := (re C c1 cadd cmul cinv cconj).
Local Notation real := (real_sig C cconj n).
Local Notation rlist := (real_list C cconj).
Local Notation nthC := (nthC C c0).

(* Shifting by zero (phase table identically 1) is the identity. *)
Theorem C07_zero_shift_is_identity : forall p x,
  (2 <= n)%nat -> length x = n -> rlist x -> length p = (n / 2 + 1)%nat ->
  (forall k, (k <= n / 2)%nat -> nthC p k = c1) ->
  fshift1 p x = Some x.
Proof. exact (pub_l_zero C c0 c1 cadd cmul copp cinv cconj n w ST). Qed.

(* Shifting by an integer m (any sign, any magnitude; phase table w(-k m), the
   m-th power of rfft(dephas)) is exactly np.roll(x, m). *)
Theorem C07_integer_shift_is_roll : forall p x (m : Z),
  (2 <= n)%nat -> length x = n -> rlist x -> length p = (n / 2 + 1)%nat ->
  (forall k, (k <= n / 2)%nat -> nthC p k = w (- (Z.of_nat k * m))%Z) ->
  fshift1 p x = Some (roll_list C c0 n m x).
Proof. exact (pub_l_int C c0 c1 cadd cmul copp cinv cconj n w ST). Qed.

(* Successive shifts: applying table p then table q equals one application of
   the product table, provided (DC) Re(p0 q0) = Re p0 Re q0 — true when
   p0 = q0 = 1 — and, for even n, the signal has no Nyquist component or
   Re(ph qh) = Re ph Re qh at the Nyquist bin h = n/2 (true when ph or qh is
   real, e.g. an integer shift).  For odd n there is no caveat. *)
Theorem C07_shifts_compose : forall p q x y z, rlist x ->
  fshift1 p x = Some y -> fshift1 q y = Some z ->
  re (cmul (nthC p 0) (nthC q 0)) = cmul (re (nthC p 0)) (re (nthC q 0)) ->
  (Nat.even n = true ->
     rfft (nthC x) (n / 2) = c0 \/
     re (cmul (nthC p (n / 2)) (nthC q (n / 2))) = cmul (re (nthC p (n / 2))) (re (nthC q (n / 2)))) ->
  fshift1 (lmul C cmul p q) x = Some z.
Proof. exact (pub_l_compose C c0 c1 cadd cmul copp cinv cconj n w ST). Qed.

(* The exact Nyquist caveat (even n): two successive shifts differ from the
   single shift by  X[n/2] (Re ph Re qh - Re(ph qh)) w(j n/2) / n,
   a multiple of the alternating sequence (-1)^j. *)
Theorem C07_compose_nyquist_defect : forall (p q x : nat -> C) (j : nat),
  real x -> Nat.even n = true ->
  re (cmul (p 0%nat) (q 0%nat)) = cmul (re (p 0%nat)) (re (q 0%nat)) ->
  fshift q (fshift p x) j =
  cadd (fshift (pmul C cmul p q) x j)
   (cmul (cinv (natC C c0 c1 cadd n))
     (cmul (cmul (rfft x (n / 2))
        (fsub C cadd copp (cmul (re (p (n / 2)%nat)) (re (q (n / 2)%nat)))
                          (re (cmul (p (n / 2)%nat) (q (n / 2)%nat)))))
        (w (Z.of_nat j * Z.of_nat (n / 2))%Z))).
Proof. exact (pub_fshift_compose_defect C c0 c1 cadd cmul copp cinv cconj n w ST). Qed.

(* Shape is preserved and the output is real, for any phase table. *)
Theorem C07_output_shape_and_real : forall p x y,
  fshift1 p x = Some y -> length y = n /\ rlist y.
Proof. exact (pub_shape_real C c0 c1 cadd cmul copp cinv cconj n w ST). Qed.

(* Per-trace shifts along the last axis: trace i is shifted with its own table
   ps[i]; the number of traces is preserved; the call succeeds on every
   rectangular input with n >= 2. *)
Theorem C07_per_trace_last_axis : forall ps X,
  (forall Y, frows ps X = Some Y ->
     length Y = length X /\ length ps = length X /\
     forall i, (i < length X)%nat -> fshift1 (nth i ps []) (nth i X []) = Some (nth i Y [])) /\
  ((2 <= n)%nat -> length ps = length X ->
   (forall x, In x X -> length x = n) -> (forall p, In p ps -> length p = (n / 2 + 1)%nat) ->
   exists Y, frows ps X = Some Y).
Proof.
  intros ps X. split.
  - intros Y. exact (pub_rows_spec C c0 c1 cadd cmul copp cinv cconj n w ST ps X Y).
  - exact (pub_rows_total C c0 c1 cadd cmul copp cinv cconj n w ST ps X).
Qed.

(* Per-trace shifts along axis 0 of an (n, nc) array: column c is shifted with
   ps[c]; the shape (n, nc) is preserved.  (Along the last axis fshift2 IS
   fshift_rows, by definition.) *)
Theorem C07_per_trace_axis0 : forall nc ps X Z,
  fshift2 C c0 c1 cadd cmul cinv cconj w true n nc ps X = Some Z ->
  length Z = n /\ (forall row, In row Z -> length row = nc) /\ length ps = nc /\
  forall c, (c < nc)%nat -> fshift1 (nth c ps []) (col C c0 c X) = Some (col C c0 c Z).
Proof. exact (pub_axis0 C c0 c1 cadd cmul copp cinv cconj n w ST). Qed.

(* Below Nyquist a fractional shift is the analytic delay: a real sinusoid of
   frequency 0 < a < n/2 with complex amplitude c comes out with amplitude
   c * p_a (p_a = e^{-2 pi i a s/n}: c e^{2 pi i a (j - s)/n} + c.c.); a constant is
   unchanged; the operator is additive, so this extends to every trigonometric
   polynomial with harmonics strictly below n/2. *)
Theorem C07_fractional_shift_delays_sinusoid : forall (p : nat -> C) (c : C) (a j : nat),
  (0 < a)%nat -> (2 * a < n)%nat ->
  fshift p (fun i => cadd (cmul c (w (Z.of_nat i * Z.of_nat a)%Z))
                          (cmul (cconj c) (w (- (Z.of_nat i * Z.of_nat a))%Z))) j
  = cadd (cmul (cmul c (p a)) (w (Z.of_nat j * Z.of_nat a)%Z))
         (cmul (cconj (cmul c (p a))) (w (- (Z.of_nat j * Z.of_nat a))%Z)).
Proof. exact (pub_harmonic C c0 c1 cadd cmul copp cinv cconj n w ST). Qed.

Theorem C07_shift_is_additive_and_keeps_constants : forall (p x y : nat -> C) (c : C) (j : nat),
  fshift p (fun i => cadd (x i) (y i)) j = cadd (fshift p x j) (fshift p y j) /\
  (cconj c = c -> p 0%nat = c1 -> fshift p (fun _ => c) j = c).
Proof.
  intros p x y c j. split.
  - exact (pub_additive C c0 c1 cadd cmul copp cinv cconj n w ST p x y j).
  - exact (pub_constant C c0 c1 cadd cmul copp cinv cconj n w ST p c j).
Qed.

(* ---- the same, with the phase table generated from the shift ----
   Sh = the type of shifts (reals in the code) with 0, 1, +, -;
   phase s k = np.exp(1j * np.angle(rfft(dephas))[k] * s): multiplicative in s,
   equal to rfft(dephas)[k] = w(-k) at s = 1, and identically 1 at the DC bin
   (np.angle(1+0j) = 0).  shZ m = the integer m as a shift. *)
Section Phase.
Variable Sh : Type.
Variables (sh0 sh1 : Sh) (shadd : Sh -> Sh -> Sh) (shopp : Sh -> Sh).
Variable phase : Sh -> nat -> C.
Hypothesis ph0 : forall k, phase sh0 k = c1.
Hypothesis phadd : forall s t k, phase (shadd s t) k = cmul (phase s k) (phase t k).
Hypothesis phopp : forall s k, cmul (phase (shopp s) k) (phase s k) = c1.
Hypothesis ph1 : forall k, (2 * k <= n)%nat -> phase sh1 k = w (- Z.of_nat k)%Z.
Hypothesis phdc : forall s, phase s 0%nat = c1.
Local Notation shZ := (shZ Sh sh0 sh1 shadd shopp).

Theorem C07_phase_zero_shift : forall x j, real x -> (j < n)%nat ->
  fshift (phase sh0) x j = x j.
Proof. intros. eapply pub_ph_zero; eauto. Qed.

Theorem C07_phase_integer_shift_is_roll : forall x (m : Z) j, real x ->
  fshift (phase (shZ m)) x j = roll_fun C n m x j.
Proof. intros. eapply pub_ph_int; eauto. Qed.

(* shifts add up: always for odd n; for even n when the signal has no Nyquist
   component or one of the two Nyquist phase factors is real *)
Theorem C07_phase_shifts_add : forall s t x j, real x ->
  (Nat.even n = true ->
     rfft x (n / 2) = c0 \/ cconj (phase s (n / 2)%nat) = phase s (n / 2)%nat
                        \/ cconj (phase t (n / 2)%nat) = phase t (n / 2)%nat) ->
  fshift (phase t) (fshift (phase s) x) j = fshift (phase (shadd s t)) x j.
Proof. intros. eapply pub_ph_compose; eauto. Qed.

(* an integer shift composes exactly with any shift, in either order, even n included *)
Theorem C07_phase_integer_shift_composes : forall s (m : Z) x j, real x ->
  fshift (phase (shZ m)) (fshift (phase s) x) j = fshift (phase (shadd s (shZ m))) x j /\
  fshift (phase s) (fshift (phase (shZ m)) x) j = fshift (phase (shadd (shZ m) s)) x j.
Proof. intros. eapply pub_ph_compose_int; eauto. Qed.

Theorem C07_phase_shifts_add_odd : forall s t x j, real x -> Nat.even n = false ->
  fshift (phase t) (fshift (phase s) x) j = fshift (phase (shadd s t)) x j.
Proof. intros. eapply pub_ph_compose_odd; eauto. Qed.

End Phase.
End Statements.

Print Assumptions C07_zero_shift_is_identity.
Print Assumptions C07_integer_shift_is_roll.
Print Assumptions C07_shifts_compose.
Print Assumptions C07_compose_nyquist_defect.
Print Assumptions C07_output_shape_and_real.
Print Assumptions C07_per_trace_last_axis.
Print Assumptions C07_per_trace_axis0.
Print Assumptions C07_fractional_shift_delays_sinusoid.
Print Assumptions C07_shift_is_additive_and_keeps_constants.
Print Assumptions C07_phase_zero_shift.
Print Assumptions C07_phase_integer_shift_is_roll.
Print Assumptions C07_phase_shifts_add.
Print Assumptions C07_phase_integer_shift_composes.
Print Assumptions C07_phase_shifts_add_odd.

(* The caveat is necessary: in the field F9 = F3[i] (n = 2, w k = (-1)^k, all
   hypotheses of `setting` hold) two half-sample shifts of the impulse [1, 0]
   (Nyquist phase factor i) give [1/2, 1/2] twice, while the single shift by the
   sum is the roll [0, 1].  The real code does the same:
   fshift(fshift([1., 0.], .5), .5) = [.5, .5], fshift([1., 0.], 1.) = [0., 1.]. *)
Theorem C07_compose_nyquist_refuted :
  exists (C : Type) (c0 c1 : C) (cadd cmul : C -> C -> C) (copp cinv cconj : C -> C) (w : Z -> C)
         (p x y z : list C),
    setting C c0 c1 cadd cmul copp cinv cconj 2 w /\
    real_list C cconj x /\
    re C c1 cadd cmul cinv cconj (cmul (nthC C c0 p 0) (nthC C c0 p 0))
      = cmul (re C c1 cadd cmul cinv cconj (nthC C c0 p 0)) (re C c1 cadd cmul cinv cconj (nthC C c0 p 0)) /\
    fshift1 C c0 c1 cadd cmul cinv cconj 2 w p x = Some y /\
    fshift1 C c0 c1 cadd cmul cinv cconj 2 w p y = Some z /\
    fshift1 C c0 c1 cadd cmul cinv cconj 2 w (lmul C cmul p p) x = Some (roll_list C c0 2 1 x) /\
    roll_list C c0 2 1 x <> z.
Proof.
  exists F9, z9, one9, add9, mul9, opp9, inv9, conj9, w9, p9, x9, h9, h9.
  split; [exact F9_setting | exact F9_compose_witness].
Qed.
Print Assumptions C07_compose_nyquist_refuted.

(* ---- utils.parabolic_max ---- *)
(* Three samples y(-1), y(0), y(1) of y(t) = al t^2 + be t + ga (al <> 0), over any
   field with 2 <> 0: the interpolated offset is the stationary point
   v = -be/(2 al) and the interpolated maximum is y(v). *)
Theorem C07_parabola_vertex :
  forall (C : Type) (c0 c1 : C) (cadd cmul : C -> C -> C) (copp cinv : C -> C) (ceqb : C -> C -> bool),
  field_theory c0 c1 cadd cmul (fsub C cadd copp) copp (fdiv C cmul cinv) cinv (@eq C) ->
  (forall a b, ceqb a b = true -> a = b) -> cadd c1 c1 <> c0 ->
  forall al be ga, al <> c0 ->
  let a := cadd (fsub C cadd copp al be) ga in
  let c := cadd (cadd al be) ga in
  let v := parab_ipeak C c0 c1 cadd cmul copp cinv ceqb a ga c in
  v = cmul (copp be) (cinv (cmul (cadd c1 c1) al)) /\
  cadd (cmul (cmul (cadd c1 c1) al) v) be = c0 /\
  parab_maxi C c0 c1 cadd cmul copp cinv ceqb a ga c
    = cadd (cadd (cmul (cmul al v) v) (cmul be v)) ga.
Proof.
  intros C c0 c1 cadd cmul copp cinv ceqb Cf Heq H2.
  exact (parab_vertex C c0 c1 cadd cmul copp cinv Cf ceqb Heq H2).
Qed.
Print Assumptions C07_parabola_vertex.

(* parabolic_max on a 1-D array: np.argmax picks the FIRST maximum (cleb a total
   preorder); at an edge the result is (imax, x[imax]); in the interior it is
   imax + the interpolated offset of the three samples around imax, and their
   interpolated maximum; an empty array is refused. *)
Theorem C07_parabolic_max_rule :
  forall (C : Type) (c0 c1 : C) (cadd cmul : C -> C -> C) (copp cinv : C -> C) (cleb ceqb : C -> C -> bool),
  (forall a, cleb a a = true) ->
  (forall a b c, cleb a b = true -> cleb b c = true -> cleb a c = true) ->
  (forall a b, cleb a b = false -> cleb b a = true) ->
  forall x,
  (x = [] -> parabolic_max C c0 c1 cadd cmul copp cinv cleb ceqb x = None) /\
  (x <> [] -> exists i, argmax C cleb x = Some i /\ is_first_max C c0 cleb x i /\
     ((i = 0%nat \/ i = (length x - 1)%nat) ->
        parabolic_max C c0 c1 cadd cmul copp cinv cleb ceqb x = Some (true, natC C c0 c1 cadd i, nth i x c0)) /\
     ((0 < i)%nat -> (i < length x - 1)%nat ->
        parabolic_max C c0 c1 cadd cmul copp cinv cleb ceqb x =
        Some (false,
              cadd (parab_ipeak C c0 c1 cadd cmul copp cinv ceqb (nth (i - 1) x c0) (nth i x c0) (nth (i + 1) x c0))
                   (natC C c0 c1 cadd i),
              parab_maxi C c0 c1 cadd cmul copp cinv ceqb (nth (i - 1) x c0) (nth i x c0) (nth (i + 1) x c0)))).
Proof.
  intros C c0 c1 cadd cmul copp cinv cleb ceqb Hr Ht Htot.
  exact (pmax_rule C c0 c1 cadd cmul copp cinv cleb ceqb Hr Ht Htot).
Qed.
Print Assumptions C07_parabolic_max_rule.

(* Non-vacuity: the hypotheses are satisfiable (F9, n = 2), and a concrete run of
   the model over F9: roll of [1, 0] by 1 and by -3. *)
Example C07_setting_inhabited : setting F9 z9 one9 add9 mul9 opp9 inv9 conj9 2 w9.
Proof. exact F9_setting. Qed.

Example C07_example_roll :
  fshift1 F9 z9 one9 add9 mul9 inv9 conj9 2 w9 [one9; w9 (-1)] x9 = Some [z9; one9] /\
  roll_list F9 z9 2 (-3) x9 = [z9; one9].
Proof. vm_compute. split; reflexivity. Qed.

(* ---- waveforms.wave_shift_corrmax: index arithmetic of the 'same'-mode correlation ----
   xcorr_same_at N a b i = scipy.signal.correlate(a, b, 'same')[i] on integer signals. *)
Local Open Scope Z_scope.

(* For EVERY length N (either parity) the zero-lag entry is at index floor(N/2): it carries
   the energy of the signal, and no entry of any correlation exceeds the mean energy. *)
Theorem C07_corr_zero_lag_at_floor_half : forall (N : nat) (a b : nat -> Z) (i : nat),
  xcorr_same_at Z 0 Z.add Z.mul N a a (N / 2) = sumn Z 0 Z.add (fun l => a l * a l) N /\
  2 * xcorr_same_at Z 0 Z.add Z.mul N a b i
    <= sumn Z 0 Z.add (fun l => a l * a l) N + sumn Z 0 Z.add (fun l => b l * b l) N.
Proof. intros N a b i. split; [exact (xc_zero_lag N a) | exact (xc_bound N a b i)]. Qed.
Print Assumptions C07_corr_zero_lag_at_floor_half.

(* An impulse and its copy delayed by m samples (any sign), any N: the correlation is a
   single peak at index floor(N/2) - m, np.argmax returns it, and the integer delay
   floor(N/2) - argmax is exactly the applied m (same sign as the applied shift). *)
Theorem C07_corr_impulse_peak_at_lag : forall (N q : nat) (m A : Z),
  A <> 0 -> (q < N)%nat -> 0 <= Z.of_nat q + m < Z.of_nat N ->
  0 <= Z.of_nat (N / 2) - m < Z.of_nat N ->
  let a := impulse_list N q A in
  let b := impulse_list N (Z.to_nat (Z.of_nat q + m)) A in
  let i0 := Z.to_nat (Z.of_nat (N / 2) - m) in
  xcorr_same Z 0 Z.add Z.mul a b = impulse_list N i0 (A * A) /\
  argmax Z Z.leb (xcorr_same Z 0 Z.add Z.mul a b) = Some i0 /\
  int_delay_of_peak N i0 = m.
Proof. exact corr_peak_at_lag. Qed.
Print Assumptions C07_corr_impulse_peak_at_lag.

(* Any signal a and its copy b delayed by m with nothing pushed out of the window
   (b_l = a_{l-m}, zero where l-m is outside; equal energies): the entry at index
   floor(N/2) - m equals the energy and is a maximum of the correlation — for every N. *)
Theorem C07_corr_delayed_copy_peaks_at_lag : forall (N : nat) (a b : nat -> Z) (m : Z),
  (forall l, (l < N)%nat ->
     b l = if inr N (Z.of_nat l - m) then a (Z.to_nat (Z.of_nat l - m)) else 0) ->
  sumn Z 0 Z.add (fun l => b l * b l) N = sumn Z 0 Z.add (fun l => a l * a l) N ->
  0 <= Z.of_nat (N / 2) - m < Z.of_nat N ->
  xcorr_same_at Z 0 Z.add Z.mul N a b (Z.to_nat (Z.of_nat (N / 2) - m))
    = sumn Z 0 Z.add (fun l => a l * a l) N /\
  forall i, xcorr_same_at Z 0 Z.add Z.mul N a b i
            <= xcorr_same_at Z 0 Z.add Z.mul N a b (Z.to_nat (Z.of_nat (N / 2) - m)).
Proof. exact corr_delayed_copy_peak. Qed.
Print Assumptions C07_corr_delayed_copy_peaks_at_lag.

(* Re-alignment: it is spike2 (the second argument) that is shifted, by MINUS the returned
   delay; for an integer delay m (where fshift is np.roll, C07_integer_shift_is_roll)
   this undoes a roll by m exactly, for every length and every m. *)
Theorem C07_resync_undoes_integer_delay : forall (C : Type) (c0 : C) (m : Z) (x : list C),
  (1 <= length x)%nat ->
  resync_int C c0 m (roll_list C c0 (length x) m x) = x.
Proof. exact resync_undoes_roll. Qed.
Print Assumptions C07_resync_undoes_integer_delay.

Example C07_example_corr_odd_lengths :
  (* lengths 7 = 3 mod 4 and 5 = 1 mod 4: delay 2 of an impulse *)
  xcorr_same Z 0 Z.add Z.mul [0;3;0;0;0;0;0] [0;0;0;3;0;0;0] = [0;9;0;0;0;0;0] /\
  int_delay_of_peak 7 1 = 2 /\
  xcorr_same Z 0 Z.add Z.mul [0;3;0;0;0] [0;0;0;3;0] = [9;0;0;0;0] /\
  int_delay_of_peak 5 0 = 2.
Proof. vm_compute. repeat split. Qed.

(* ---- round 2 ---- *)

(* The frequency-domain entry point fshift(W, s, ns=n) (complex W: only W * phase) and the
   time-domain path: irfft(fshift(rfft(x), s, ns=n), n) IS fshift(x, s), and both refuse
   together; on a half spectrum of the right length the result is the pointwise product. *)
Theorem C07_frequency_entry_equals_time_domain :
  forall (C : Type) (c0 c1 : C) (cadd cmul : C -> C -> C) (copp cinv cconj : C -> C)
         (n : nat) (w : Z -> C),
  setting C c0 c1 cadd cmul copp cinv cconj n w ->
  (forall p x, length x = n ->
     fshift1 C c0 c1 cadd cmul cinv cconj n w p x
     = option_map (irfft_list C c0 c1 cadd cmul cinv cconj n w)
                  (fshift_freq C c0 cmul n p (rfft_list C c0 cadd cmul n w x))) /\
  (forall p W k, (2 <= n)%nat -> length W = (n / 2 + 1)%nat -> length p = (n / 2 + 1)%nat ->
     (k <= n / 2)%nat ->
     exists Y, fshift_freq C c0 cmul n p W = Some Y /\ length Y = (n / 2 + 1)%nat /\
               nthC C c0 Y k = cmul (nthC C c0 W k) (nthC C c0 p k)).
Proof.
  intros C c0 c1 cadd cmul copp cinv cconj n w ST. split.
  - exact (pub_via_freq C c0 c1 cadd cmul copp cinv cconj n w ST).
  - exact (pub_freq_spec C c0 c1 cadd cmul copp cinv cconj n w ST).
Qed.
Print Assumptions C07_frequency_entry_equals_time_domain.

(* get_apf_from2spikes (the exact core of wave_shift_phase): the cross spectrum
   rfft(x) * conj(rfft(fshift(x, s))) carries, at every bin strictly between DC and Nyquist,
   the power |X_k|^2 times the conjugate phase factor (angle +2 pi k s / n: a phase slope
   proportional to the shift). *)
Theorem C07_cross_spectrum_of_shifted_copy :
  forall (C : Type) (c0 c1 : C) (cadd cmul : C -> C -> C) (copp cinv cconj : C -> C)
         (n : nat) (w : Z -> C),
  setting C c0 c1 cadd cmul copp cinv cconj n w ->
  forall (p x : nat -> C) (k : nat), real_sig C cconj n x -> (0 < k)%nat -> (2 * k < n)%nat ->
  cross_spectrum_at C c0 cadd cmul cconj n w x (fshift_fun C c0 c1 cadd cmul cinv cconj n w p x) k
  = cmul (cmul (rfft_at C c0 cadd cmul n w x k) (cconj (rfft_at C c0 cadd cmul n w x k))) (cconj (p k)).
Proof.
  intros C c0 c1 cadd cmul copp cinv cconj n w ST.
  exact (pub_cross_low C c0 c1 cadd cmul copp cinv cconj n w ST).
Qed.
Print Assumptions C07_cross_spectrum_of_shifted_copy.

(* Equality case of Cauchy-Schwarz: an entry of the correlation that reaches the mean of the
   two energies forces b to be a advanced by that entry's lag; hence the autocorrelation of a
   non-flat signal is STRICTLY below its energy everywhere but at index floor(N/2), and
   np.argmax of correlate(x, x, 'same') is exactly floor(N/2) (integer delay 0), for every
   length N of either parity. *)
Theorem C07_corr_peak_is_unique :
  (forall (N : nat) (a b : nat -> Z) (i : nat),
     sumn Z 0 Z.add (fun l => a l * a l) N + sumn Z 0 Z.add (fun l => b l * b l) N
       <= 2 * xcorr_same_at Z 0 Z.add Z.mul N a b i ->
     forall l, (l < N)%nat ->
       if inr N (Z.of_nat l + (Z.of_nat i - Z.of_nat (N / 2)))
       then a (Z.to_nat (Z.of_nat l + (Z.of_nat i - Z.of_nat (N / 2)))) = b l else b l = 0) /\
  (forall (N : nat) (a : nat -> Z) (i : nat), (i < N)%nat -> i <> (N / 2)%nat ->
     0 < sumn Z 0 Z.add (fun l => a l * a l) N ->
     xcorr_same_at Z 0 Z.add Z.mul N a a i < sumn Z 0 Z.add (fun l => a l * a l) N) /\
  (forall x : list Z,
     0 < sumn Z 0 Z.add (fun l => nthC Z 0 x l * nthC Z 0 x l) (length x) ->
     argmax Z Z.leb (xcorr_same Z 0 Z.add Z.mul x x) = Some (length x / 2)%nat /\
     int_delay_of_peak (length x) (length x / 2) = 0).
Proof. split; [exact xc_equality | split; [exact autocorr_strict | exact autocorr_argmax]]. Qed.
Print Assumptions C07_corr_peak_is_unique.

(* shift_waveform on an already aligned cluster (k >= 1 identical integer spikes, ntr traces,
   nt samples, any parity): the median template is (twice) the spike, and whatever peak trace
   find_peak (C14's pick_peak) selects — provided the spike is not flat on it — every
   integer delay floor(nt/2) - argmax is 0 and rolling by the delays returns the cluster. *)
Theorem C07_aligned_cluster_is_fixed_point :
  forall (ntr nt : nat) (sp : list (list Z)) (k tr : nat),
  (1 <= k)%nat -> length sp = ntr -> (forall row, In row sp -> length row = nt) ->
  peak_trace (template2 ntr nt (repeat sp k)) = Some tr -> (tr < ntr)%nat ->
  0 < sumn Z 0 Z.add (fun l => nthC Z 0 (nth tr sp []) l * nthC Z 0 (nth tr sp []) l) nt ->
  spike_delays_int ntr nt (repeat sp k) = Some (tr, repeat (Some 0) k) /\
  apply_int_delays nt (repeat sp k) (repeat 0 k) = repeat sp k.
Proof. exact aligned_cluster_fixed. Qed.
Print Assumptions C07_aligned_cluster_is_fixed_point.

Example C07_example_aligned_cluster :
  spike_delays_int 2 7 (repeat [[0;1;3;1;0;0;0]; [0;2;9;2;0;0;0]] 3) = Some (1%nat, [Some 0; Some 0; Some 0]) /\
  spike_delays_int 2 7 [[[0;1;3;1;0;0;0]; [0;2;9;2;0;0;0]]; [[0;0;1;3;1;0;0]; [0;0;2;9;2;0;0]];
                        [[0;1;3;1;0;0;0]; [0;2;9;2;0;0;0]]] = Some (1%nat, [Some 0; Some (-1); Some 0]).
Proof. vm_compute. split; reflexivity. Qed.

(* ---- round 3: scale invariance of the peak interpolation ----
   x -> g x keeps the interpolated offset and multiplies the interpolated value by g, for any
   g <> 0 in any field (so for 1e-12 as for 1e12): the zero-curvature guard is an EXACT test.
   The one excluded configuration, zero curvature with non-zero slope, cannot occur around a
   maximum.  On arrays: with g positive (order preserved), parabolic_max(g x) returns the
   same edge flag and interpolated index and g times the value. *)
Theorem C07_parabola_scale_invariant :
  forall (C : Type) (c0 c1 : C) (cadd cmul : C -> C -> C) (copp cinv : C -> C) (ceqb : C -> C -> bool),
  field_theory c0 c1 cadd cmul (fsub C cadd copp) copp (fdiv C cmul cinv) cinv (@eq C) ->
  (forall a b, ceqb a b = true -> a = b) -> (forall a, ceqb a a = true) -> cadd c1 c1 <> c0 ->
  forall g a b c, g <> c0 ->
  parab_p0 C c1 cadd cmul copp cinv a b c <> c0 \/ parab_p1 C c1 cadd cmul copp cinv a c = c0 ->
  parab_ipeak C c0 c1 cadd cmul copp cinv ceqb (cmul g a) (cmul g b) (cmul g c)
    = parab_ipeak C c0 c1 cadd cmul copp cinv ceqb a b c /\
  parab_maxi C c0 c1 cadd cmul copp cinv ceqb (cmul g a) (cmul g b) (cmul g c)
    = cmul g (parab_maxi C c0 c1 cadd cmul copp cinv ceqb a b c).
Proof.
  intros C c0 c1 cadd cmul copp cinv ceqb Cf Ht Hr H2.
  exact (parab_scale C c0 c1 cadd cmul copp cinv Cf ceqb Ht H2 Hr).
Qed.
Print Assumptions C07_parabola_scale_invariant.

Theorem C07_parabolic_max_scale_invariant :
  forall (C : Type) (c0 c1 : C) (cadd cmul : C -> C -> C) (copp cinv : C -> C) (cleb ceqb : C -> C -> bool),
  field_theory c0 c1 cadd cmul (fsub C cadd copp) copp (fdiv C cmul cinv) cinv (@eq C) ->
  (forall a b, ceqb a b = true -> a = b) -> (forall a, ceqb a a = true) -> cadd c1 c1 <> c0 ->
  forall g, g <> c0 -> (forall x y, cleb (cmul g x) (cmul g y) = cleb x y) ->
  forall x : list C,
  (forall i, argmax C cleb x = Some i -> i <> 0%nat -> i <> (length x - 1)%nat ->
     parab_p0 C c1 cadd cmul copp cinv (nth (i - 1) x c0) (nth i x c0) (nth (i + 1) x c0) <> c0 \/
     parab_p1 C c1 cadd cmul copp cinv (nth (i - 1) x c0) (nth (i + 1) x c0) = c0) ->
  parabolic_max C c0 c1 cadd cmul copp cinv cleb ceqb (map (cmul g) x) =
  match parabolic_max C c0 c1 cadd cmul copp cinv cleb ceqb x with
  | Some (e, ip, mx) => Some (e, ip, cmul g mx) | None => None end.
Proof.
  intros C c0 c1 cadd cmul copp cinv cleb ceqb Cf Ht Hr H2 g Hg Hs.
  exact (pmax_scale C c0 c1 cadd cmul copp cinv Cf cleb ceqb Ht H2 Hr g Hg Hs).
Qed.
Print Assumptions C07_parabolic_max_scale_invariant.

(* ---- round 3 (consolidation): the peak of a delayed copy is UNIQUE ----
   Any integer waveform a (not flat) and its copy b delayed by m samples, both inside the window
   (stated pointwise; the equal-energy hypothesis of C07_corr_delayed_copy_peaks_at_lag is now
   derived), every length N: the 'same'-mode correlation equals the energy at index
   floor(N/2) - m and is STRICTLY smaller at every other index, so np.argmax can only return that
   index and floor(N/2) - argmax = m. *)
Theorem C07_corr_delayed_copy_peak_is_unique : forall (N : nat) (a b : nat -> Z) (m : Z),
  (forall l, (l < N)%nat ->
     b l = if inr N (Z.of_nat l - m) then a (Z.to_nat (Z.of_nat l - m)) else 0) ->
  (forall j, (j < N)%nat -> inr N (Z.of_nat j + m) = false -> a j = 0) ->
  0 < sumn Z 0 Z.add (fun l => a l * a l) N -> 0 <= Z.of_nat (N / 2) - m < Z.of_nat N ->
  xcorr_same_at Z 0 Z.add Z.mul N a b (Z.to_nat (Z.of_nat (N / 2) - m))
    = sumn Z 0 Z.add (fun l => a l * a l) N /\
  (forall i, (i < N)%nat -> i <> Z.to_nat (Z.of_nat (N / 2) - m) ->
     xcorr_same_at Z 0 Z.add Z.mul N a b i
       < xcorr_same_at Z 0 Z.add Z.mul N a b (Z.to_nat (Z.of_nat (N / 2) - m))) /\
  int_delay_of_peak N (Z.to_nat (Z.of_nat (N / 2) - m)) = m.
Proof. exact corr_delayed_copy_unique. Qed.
Print Assumptions C07_corr_delayed_copy_peak_is_unique.

(* ---- satisfiability of the hypotheses on non-trivial inputs ---- *)
(* a second instance of `setting` with a bin strictly between DC and Nyquist: F9, n = 4, w = powers
   of i; the phase-level hypotheses hold for Sh = Z, phase s k = w(-(k s)) *)
Example C07_setting_inhabited_n4 : setting F9 z9 one9 add9 mul9 opp9 inv9 conj9 4 w4.
Proof. exact F9_setting4. Qed.

Example C07_phase_hypotheses_inhabited :
  (forall k, phase4 0 k = one9) /\
  (forall s t k, phase4 (s + t) k = mul9 (phase4 s k) (phase4 t k)) /\
  (forall s k, mul9 (phase4 (- s) k) (phase4 s k) = one9) /\
  (forall k, (2 * k <= 4)%nat -> phase4 1 k = w4 (- Z.of_nat k)%Z) /\
  (forall s, phase4 s 0 = one9).
Proof. exact phase4_hyps. Qed.

(* concrete runs over F9, n = 4, on a real signal with DC, bin-1 and Nyquist content: integer
   tables of either sign give rolls, the table of ones the identity, a table with p_1 = i
   followed by an integer table composes to the product table and really moves the signal, and
   a bin-1 sinusoid with amplitude 1 + i comes out with amplitude (1 + i) i *)
Example C07_examples_n4 :
  real_list F9 conj9 x4 /\
  fs4 (pint4 1) x4 = Some (roll_list F9 z9 4 1 x4) /\
  fs4 (pint4 (-7)) x4 = Some (roll_list F9 z9 4 (-7) x4) /\
  fs4 (pint4 0) x4 = Some x4 /\
  (exists y z, fs4 pquart4 x4 = Some y /\ fs4 (pint4 1) y = Some z /\
               fs4 (lmul F9 mul9 pquart4 (pint4 1)) x4 = Some z /\ y <> x4) /\
  (forall j, (j < 4)%nat ->
     ff4 (fun k => nth k pquart4 z9)
         (fun i => add9 (mul9 (A1, A1) (w4 (Z.of_nat i * 1))) (mul9 (conj9 (A1, A1)) (w4 (- (Z.of_nat i * 1))))) j
     = add9 (mul9 (mul9 (A1, A1) i9) (w4 (Z.of_nat j * 1)))
            (mul9 (conj9 (mul9 (A1, A1) i9)) (w4 (- (Z.of_nat j * 1))))).
Proof. exact F9_examples4. Qed.

(* delayed copy: hypotheses of C07_corr_delayed_copy_peak_is_unique on a length-7 (= 3 mod 4)
   asymmetric pulse delayed by 2, and the resulting correlation; parabola / scale hypotheses over Q
   are exercised by the run instance (Run.v op 2) *)
Example C07_example_delayed_copy :
  xcorr_same Z 0 Z.add Z.mul [0;2;-5;9;0;0;0] [0;0;0;2;-5;9;0] = [-55; 110; -55; 18; 0; 0; 0] /\
  argmax Z Z.leb (xcorr_same Z 0 Z.add Z.mul [0;2;-5;9;0;0;0] [0;0;0;2;-5;9;0]) = Some 1%nat /\
  int_delay_of_peak 7 1 = 2 /\ 2 * 2 + (-5) * (-5) + 9 * 9 = 110.
Proof. vm_compute. repeat split. Qed.
