(* C07 — model of waveforms.shift_waveform (src/ibldsp/waveforms.py) on integer-valued
   clusters; the peak-trace selection is C14's model of find_peak / pick_maximum.

     wfs_avg  = np.nanmedian(wf_cluster, axis=0)                  (trace, time)
     template = peak trace of find_peak(wfs_avg as (1, time, trace))
     for every spike i:
         _, shift_i = wave_shift_corrmax(wf_cluster[i, peak_trace, :], template)
         wf_out[i]  = fshift(wf_cluster[i], shift_i)              (all traces, same shift)

   The median of integers is an integer or a half-integer: the model carries
   TWICE the median (median2).  Everything downstream is invariant under a positive
   scaling of the template (argmax of |.|, argmax of the correlation, vertex of the
   parabola), which is why 2*template can stand for the template.  NaN samples
   (nanmedian) are not modelled. *)
From Coq Require Import ZArith List Bool.
From IBL.C07 Require Import Model.
From IBL.C14 Require Model.
Import ListNotations.
Open Scope Z_scope.

Fixpoint insert_sorted (v : Z) (l : list Z) : list Z :=
  match l with
  | [] => [v]
  | h :: t => if v <=? h then v :: l else h :: insert_sorted v t
  end.
Definition sort_z (l : list Z) : list Z := fold_right insert_sorted [] l.

(* 2 * np.median(l), l non-empty *)
Definition median2 (l : list Z) : Z :=
  let s := sort_z l in
  let k := length s in
  if Nat.odd k then 2 * nth (k / 2) s 0 else nth (k / 2 - 1) s 0 + nth (k / 2) s 0.

(* cluster: list over spikes of (list over traces of (list over time)) *)
Definition sample (sp : list (list Z)) (tr t : nat) : Z := nth t (nth tr sp []) 0.
Definition template2 (ntr nt : nat) (wf : list (list (list Z))) : list (list Z) :=
  map (fun tr => map (fun t => median2 (map (fun sp => sample sp tr t) wf)) (seq 0 nt)) (seq 0 ntr).

(* peak trace of the template: pick_maximum = C14's pick_peak (first maxima) *)
Definition peak_trace (tpl : list (list Z)) : option nat :=
  option_map fst (IBL.C14.Model.pick_peak tpl).

(* integer part of the delay of every spike against the template, on the peak trace:
   floor(nt/2) - argmax(correlate(raw, template, 'same')) *)
Definition spike_delays_int (ntr nt : nat) (wf : list (list (list Z))) : option (nat * list (option Z)) :=
  let tpl := template2 ntr nt wf in
  match peak_trace tpl with
  | None => None
  | Some tr =>
      Some (tr, map (fun sp =>
                  option_map (int_delay_of_peak nt)
                             (argmax Z Z.leb (xcorr_same Z 0 Z.add Z.mul (nth tr sp []) (nth tr tpl []))))
                wf)
  end.

(* for integer delays the output is every trace of spike i rolled by its delay *)
Definition apply_int_delays (nt : nat) (wf : list (list (list Z))) (d : list Z) : list (list (list Z)) :=
  map (fun spd => map (roll_list Z 0 nt (snd spd)) (fst spd)) (combine wf d).
