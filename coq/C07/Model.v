(* C07 — executable model of ibldsp.fourier.fshift (src/ibldsp/fourier.py) and
   ibldsp.utils.parabolic_max (src/ibldsp/utils.py).
   Definitions only; lemmas are in Sums.v / Proofs.v, property theorems in Props.v.

   Everything is polymorphic in a carrier C with operations
       c0 c1 cadd cmul copp cinv cconj
   (theorems: any field with an involution; run instance: Gaussian rationals,
   see Run.v).  The complex exponentials the code obtains from NumPy/SciPy enter
   as *functions / tables*:
       w k      = e^{+2 pi i k / n}          (twiddle of scipy.fft.rfft / irfft)
       p k      = np.exp(1j * np.angle(rfft(dephas))[k] * s),  0 <= k <= n/2

   Python (fourier.fshift, real input)             model
   -----------------------------------             -----
   ns = w.shape[axis]                              n
   dephas[1] = 1 (np.put raises for ns = 1)        guard 2 <= n
   W = scipy.fft.rfft(w, axis)                     rfft_at       (bins 0..n/2)
   W *= np.exp(1j * np.angle(dephas) * s)          pointwise product with p
   np.real(scipy.fft.irfft(W, ns, axis))           irfft_at      (C2R: imaginary part of
                                                   the DC and Nyquist bins is ignored)
   s.reshape(w.shape with axis -> 1)               one phase table per trace (fshift_rows)
   axis = 0 / -1                                   fshift2 (transpose, rows, transpose)
   np.roll(x, m)                                   roll_fun
*)
From Coq Require Import ZArith List Bool.
Import ListNotations.

Section Generic.
Variable C : Type.
Variables (c0 c1 : C) (cadd cmul : C -> C -> C) (copp cinv cconj : C -> C).

(* sum_{i < m} f i *)
Fixpoint sumn (f : nat -> C) (m : nat) : C :=
  match m with O => c0 | S m' => cadd (sumn f m') (f m') end.

(* the natural number m in C *)
Definition natC (m : nat) : C := sumn (fun _ => c1) m.

(* real part (z + conj z) / 2 *)
Definition re (z : C) : C := cmul (cadd z (cconj z)) (cinv (cadd c1 c1)).

Section Len.
Variable n : nat.          (* number of samples along the shifted axis *)
Variable w : Z -> C.       (* w k = e^{2 pi i k / n} *)

(* scipy.fft.rfft(x)[k] = sum_j x_j e^{-2 pi i j k / n},  0 <= k <= n/2 *)
Definition rfft_at (x : nat -> C) (k : nat) : C :=
  sumn (fun j => cmul (x j) (w (- (Z.of_nat j * Z.of_nat k)))) n.

(* scipy.fft.irfft(Y, n)[j]: Hermitian completion of the half spectrum
   Y_0 .. Y_{n/2}; bins 1 .. ceil(n/2)-1 enter with their conjugate mirror, the
   DC bin and (n even) the Nyquist bin enter with their real part only. *)
Definition irfft_at (Y : nat -> C) (j : nat) : C :=
  cmul (cinv (natC n))
    (cadd (cadd (re (Y 0%nat))
       (sumn (fun k' =>
                cadd (cmul (Y (S k')) (w (Z.of_nat j * Z.of_nat (S k'))))
                     (cmul (cconj (Y (S k'))) (w (- (Z.of_nat j * Z.of_nat (S k'))))))
             ((n - 1) / 2)))
       (if Nat.even n
        then cmul (re (Y (n / 2)%nat)) (w (Z.of_nat j * Z.of_nat (n / 2)))
        else c0)).

(* fshift on index functions: sample j of the shifted signal; p = phase table *)
Definition fshift_fun (p : nat -> C) (x : nat -> C) (j : nat) : C :=
  irfft_at (fun k => cmul (rfft_at x k) (p k)) j.

(* np.roll(x, m)[j] = x[(j - m) mod n] *)
Definition roll_fun (m : Z) (x : nat -> C) (j : nat) : C :=
  x (Z.to_nat ((Z.of_nat j - m) mod Z.of_nat n)).

Definition nthC (l : list C) (j : nat) : C := nth j l c0.

(* fshift of one trace, on lists (spectrum computed once).  None = the real
   code raises (ns < 2: np.put(dephas, 1, 1) is out of bounds) or the shapes do
   not fit. *)
Definition fshift1 (p : list C) (x : list C) : option (list C) :=
  if ((2 <=? n) && (length x =? n) && (length p =? n / 2 + 1))%nat then
    let X := map (rfft_at (nthC x)) (seq 0 (n / 2 + 1)) in
    let Y := map (fun k => cmul (nthC X k) (nthC p k)) (seq 0 (n / 2 + 1)) in
    Some (map (irfft_at (nthC Y)) (seq 0 n))
  else None.

Definition roll_list (m : Z) (x : list C) : list C :=
  map (roll_fun m (nthC x)) (seq 0 n).

(* The frequency-domain entry point  fshift(W, s, ns=n)  with a COMPLEX W (an rfft
   half spectrum): do_fft is False, the code only does  W *= phase  and returns W
   (in place: the argument itself is modified - aliasing is not modelled).
   None = shapes that do not broadcast / n < 2. *)
Definition rfft_list (x : list C) : list C := map (rfft_at (nthC x)) (seq 0 (n / 2 + 1)).
Definition spec_mul (p W : list C) : list C :=
  map (fun k => cmul (nthC W k) (nthC p k)) (seq 0 (n / 2 + 1)).
Definition irfft_list (Y : list C) : list C := map (irfft_at (nthC Y)) (seq 0 n).
Definition fshift_freq (p W : list C) : option (list C) :=
  if ((2 <=? n) && (length W =? n / 2 + 1) && (length p =? n / 2 + 1))%nat
  then Some (spec_mul p W) else None.

(* waveforms.get_apf_from2spikes: C = rfft(spike) * conj(rfft(spike2)) (amp = |C|,
   phase = unwrap(angle(C)) are taken from it) *)
Definition cross_spectrum_at (x y : nat -> C) (k : nat) : C :=
  cmul (rfft_at x k) (cconj (rfft_at y k)).
Definition cross_spectrum (x y : list C) : list C :=
  map (cross_spectrum_at (nthC x) (nthC y)) (seq 0 (n / 2 + 1)).

(* traces along the last axis: row i is shifted with its own phase table ps[i] *)
Fixpoint fshift_rows (ps : list (list C)) (X : list (list C)) : option (list (list C)) :=
  match ps, X with
  | [], [] => Some []
  | p :: ps', x :: X' =>
      match fshift1 p x, fshift_rows ps' X' with
      | Some y, Some Y' => Some (y :: Y')
      | _, _ => None
      end
  | _, _ => None
  end.

End Len.

(* 2-D helpers (row-major list of rows) *)
Fixpoint transpose_aux (ncol : nat) (X : list (list C)) (c : nat) : list (list C) :=
  match ncol with
  | O => []
  | S m => map (fun row => nth c row c0) X :: transpose_aux m X (S c)
  end.
Definition transpose (ncol : nat) (X : list (list C)) : list (list C) := transpose_aux ncol X 0.

(* fshift(w, s, axis): w has shape (nr, nc).  axis = 1 (or -1): n = nc, one
   phase table per row; axis = 0: n = nr, one phase table per column. *)
Definition fshift2 (w : Z -> C) (axis0 : bool) (nr nc : nat)
           (ps : list (list C)) (X : list (list C)) : option (list (list C)) :=
  if axis0 then
    match fshift_rows nr w ps (transpose nc X) with
    | Some Y => Some (transpose nr Y)
    | None => None
    end
  else fshift_rows nc w ps X.

(* ------------------------------------------------------------------------ *)
(* utils.parabolic_max, 1-D branch.
     imax = np.argmax(x)                                   (first maximum)
     v010 = x[clip(imax + [-1, 0, 1], 0, ns - 1)]
     poly = 0.5 * [[1,-2,1],[-1,0,1],[0,2,0]] @ v010
     ipeak = -poly[1] / (poly[0] + (poly[0] == 0)) / 2
     maxi  = poly[2] + ipeak*poly[1] + ipeak**2 * poly[0];  ipeak += imax
     edges (imax == 0 or imax == ns-1): (imax, x[imax])                     *)
Variable cleb : C -> C -> bool.     (* a <= b *)
Variable ceqb : C -> C -> bool.     (* a == b *)

Definition half : C := cinv (cadd c1 c1).
Definition csub (a b : C) : C := cadd a (copp b).

(* offset of the vertex from the middle sample, and interpolated maximum *)
Definition parab_p0 (a b c : C) : C := cmul half (cadd (csub a (cadd b b)) c).
Definition parab_p1 (a c : C) : C := cmul half (csub c a).
Definition parab_ipeak (a b c : C) : C :=
  let p0 := parab_p0 a b c in
  cmul (cmul (copp (parab_p1 a c)) (cinv (cadd p0 (if ceqb p0 c0 then c1 else c0)))) half.
Definition parab_maxi (a b c : C) : C :=
  let ip := parab_ipeak a b c in
  cadd (cadd b (cmul ip (parab_p1 a c))) (cmul (cmul ip ip) (parab_p0 a b c)).

(* np.argmax: index of the first maximum; (best index, best value) running state *)
Fixpoint argmax_from (l : list C) (i : nat) (bi : nat) (bv : C) : nat :=
  match l with
  | [] => bi
  | v :: t => if cleb v bv then argmax_from t (S i) bi bv else argmax_from t (S i) i v
  end.
Definition argmax (l : list C) : option nat :=
  match l with [] => None | v :: t => Some (argmax_from t 1 0 v) end.

(* result: (edge?, ipeak, maxi);  None = np.argmax of an empty array raises *)
Definition parabolic_max (x : list C) : option (bool * C * C) :=
  match argmax x with
  | None => None
  | Some imax =>
      let ns := length x in
      let b := nth imax x c0 in
      if ((imax =? 0) || (imax =? ns - 1))%nat then Some (true, natC imax, b)
      else
        let a := nth (imax - 1) x c0 in
        let c := nth (imax + 1) x c0 in
        Some (false, cadd (parab_ipeak a b c) (natC imax), parab_maxi a b c)
  end.

(* 2-D branch (x.ndim != 1): the same rule applied to every row (argmax along the last axis,
   neighbours gathered per row, edges overwritten per row) *)
Definition parabolic_max_rows (X : list (list C)) : list (option (bool * C * C)) :=
  map parabolic_max X.

(* ------------------------------------------------------------------------ *)
(* waveforms.wave_shift_corrmax(spike, spike2)   (src/ibldsp/waveforms.py)
     c = scipy.signal.correlate(spike, spike2, mode='same')
     ipeak, maxi = parabolic_max(c)
     shift_computed = (ipeak - np.floor(sig_len / 2)) * -1
     spike_resync = fshift(spike2, -shift_computed)

   scipy.signal.correlate(a, b, 'full')[k] = sum_l a[l + k - (N-1)] b[l]; 'same'
   keeps N entries starting at (N-1)//2, so entry i has lag i - (N - 1 - (N-1)//2)
   = i - floor(N/2):  the zero-lag entry is at index floor(N/2) for EVERY N
   (both parities).  Samples outside 0..N-1 are zero. *)
Definition xcorr_same_at (N : nat) (a b : nat -> C) (i : nat) : C :=
  sumn (fun l =>
          let k := (Z.of_nat l + Z.of_nat i - Z.of_nat (N / 2))%Z in
          if ((0 <=? k) && (k <? Z.of_nat N))%Z then cmul (a (Z.to_nat k)) (b l) else c0) N.

Definition xcorr_same (a b : list C) : list C :=
  map (xcorr_same_at (length a) (nthC a) (nthC b)) (seq 0 (length a)).

(* the returned delay: -(ipeak - floor(N/2)); None = the assert on equal lengths /
   np.argmax of an empty array *)
Definition corrmax_shift (spike spike2 : list C) : option (bool * C) :=
  if (length spike =? length spike2)%nat then
    match parabolic_max (xcorr_same spike spike2) with
    | Some (edge, ip, _) => Some (edge, copp (csub ip (natC (length spike / 2))))
    | None => None
    end
  else None.

(* for an integer delay m the re-aligned copy fshift(spike2, -m) is np.roll(spike2, -m) *)
Definition resync_int (m : Z) (spike2 : list C) : list C :=
  roll_list (length spike2) (- m) spike2.

(* index of the 'same'-mode correlation entry that carries lag d, and back *)
Definition lag_index (N : nat) (d : Z) : Z := (Z.of_nat (N / 2) + d)%Z.
Definition int_delay_of_peak (N : nat) (imax : nat) : Z := (Z.of_nat (N / 2) - Z.of_nat imax)%Z.

End Generic.
