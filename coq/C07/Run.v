(* C07 — flat-integer interface of the model for the correspondence check.

   The polymorphic model of Model.v is instantiated at the Gaussian rationals
   Q(i) (pairs of stdlib Q, Qred after every operation).  Twiddle factors and
   phase factors are DATA supplied by the harness (taken from NumPy, rounded to
   SC = 2^48 fractional bits), exactly as DESIGN section 3 prescribes for irrational
   constants.

   input:
     1 :: axis0 :: nr :: nc :: nsh :: x (nr*nc integers, row-major)
       ++ twiddles  (n pairs  re,im  of w_k * 2^48, k = 0..n-1;  n = nc, or nr if axis0 = 1)
       ++ phases    (nsh tables of (n/2+1) pairs re,im of p_k * 2^48; one per entry of the shift
                     vector — the real code needs nsh = number of traces = nr, or nc if axis0 = 1)
         -> 1 :: floor(y * 2^40) for every output sample (row-major)   | 0 if the model refuses
     2 :: ns :: x (ns integers)
         -> 1 :: edge :: num ipeak :: den ipeak :: num maxi :: den maxi  | 0 (empty input)
     3 :: m :: ns :: x (ns integers)          np.roll(x, m)
         -> the rolled list
     4 :: N :: a (N integers) ++ b (N integers)   wave_shift_corrmax(a, b) on integer signals
         -> c = correlate(a, b, 'same') (N exact integers, evaluated over Z)
            ++ [argmax c; integer part of the delay floor(N/2) - argmax]
            ++ (1 :: edge :: num shift :: den shift  |  0)      (parabolic peak over Q)
     5 :: n :: W (n/2+1 pairs re,im, Gaussian integers) ++ phases (n/2+1 pairs * 2^48)
         -> 1 :: floor(re * 2^40), floor(im * 2^40) of W_k * p_k  | 0     fshift(W, s, ns=n), complex W
     6 :: n :: x (n ints) ++ y (n ints) ++ twiddles (n pairs * 2^48)
         -> floor(re * 2^20), floor(im * 2^20) of rfft(x)_k conj(rfft(y)_k), k = 0..n/2   (get_apf_from2spikes)
     7 :: nsp :: ntr :: nt :: cluster (nsp*ntr*nt ints, spike-major, then trace, then time)
         -> 1 :: peak trace :: per spike (1 :: integer delay :: (1 :: edge :: num :: den | 0) | 0)  |  0
     8 :: nr :: nc :: x (nr*nc ints, row-major)     parabolic_max on a 2-D array
         -> per row the output of op 2
*)
From Coq Require Import ZArith List Bool QArith Qreduction.
From IBL.lib Require Import PyInt RunLib.
From IBL.C07 Require Import Model Waveform.
Import ListNotations.
Open Scope Z_scope.

(* ---- Gaussian rationals ---- *)
Definition qc := (Q * Q)%type.
Definition q0 : qc := (0#1, 0#1)%Q.
Definition q1 : qc := (1#1, 0#1)%Q.
Definition qadd (a b : qc) : qc := (Qred (fst a + fst b), Qred (snd a + snd b))%Q.
Definition qmul (a b : qc) : qc :=
  (Qred (fst a * fst b - snd a * snd b), Qred (fst a * snd b + snd a * fst b))%Q.
Definition qopp (a : qc) : qc := (Qopp (fst a), Qopp (snd a)).
Definition qconj (a : qc) : qc := (fst a, Qopp (snd a)).
Definition qinv (a : qc) : qc :=
  let d := (fst a * fst a + snd a * snd a)%Q in
  (Qred (fst a / d), Qred (- snd a / d))%Q.
Definition qleb (a b : qc) : bool := Qle_bool (fst a) (fst b).
Definition qeqb (a b : qc) : bool := Qeq_bool (fst a) (fst b) && Qeq_bool (snd a) (snd b).

Definition SC : positive := 281474976710656.      (* 2^48 *)
Definition OUTSC : Z := 1099511627776.             (* 2^40 *)

Definition q_of_int (z : Z) : qc := (z # 1, 0 # 1)%Q.
Definition q_of_pair (re im : Z) : qc := (Qred (re # SC), Qred (im # SC)).

Fixpoint pairs_of (l : list Z) : list qc :=
  match l with a :: b :: t => q_of_pair a b :: pairs_of t | _ => [] end.

(* split a list into chunks of length m (cnt chunks) *)
Fixpoint chunks {A} (cnt m : nat) (l : list A) : list (list A) :=
  match cnt with O => [] | S c => firstn m l :: chunks c m (skipn m l) end.

Definition qfloor_scaled (q : Q) : Z := (Qnum q * OUTSC) / Zpos (Qden q).

Definition wtable (n : nat) (tab : list qc) (k : Z) : qc :=
  nth (Z.to_nat (k mod Z.of_nat n)) tab q0.

Definition run_fshift (axis0 nr nc nsh : Z) (r : list Z) : list Z :=
  let nrn := Z.to_nat nr in let ncn := Z.to_nat nc in
  let n := if axis0 =? 1 then nrn else ncn in
  let ntr := Z.to_nat nsh in
  let xs := firstn (nrn * ncn) r in
  let r1 := skipn (nrn * ncn) r in
  let tw := pairs_of (firstn (2 * n) r1) in
  let r2 := skipn (2 * n) r1 in
  let ph := chunks ntr (n / 2 + 1) (pairs_of (firstn (2 * ntr * (n / 2 + 1)) r2)) in
  let X := chunks nrn ncn (map q_of_int xs) in
  match fshift2 qc q0 q1 qadd qmul qinv qconj (wtable n tw) (axis0 =? 1) nrn ncn ph X with
  | Some Y => 1 :: flat_map (map (fun z : qc => qfloor_scaled (fst z))) Y
  | None => [0]
  end.

Definition run_parab (r : list Z) : list Z :=
  match parabolic_max qc q0 q1 qadd qmul qopp qinv qleb qeqb (map q_of_int r) with
  | Some (edge, ip, mx) =>
      [1; enc_bool edge; Qnum (fst ip); Zpos (Qden (fst ip)); Qnum (fst mx); Zpos (Qden (fst mx))]
  | None => [0]
  end.

Definition zxcorr (a b : list Z) : list Z := xcorr_same Z 0 Z.add Z.mul a b.

Definition run_corrmax (N : Z) (r : list Z) : list Z :=
  let n := Z.to_nat N in
  let a := firstn n r in
  let b := firstn n (skipn n r) in
  let c := zxcorr a b in
  c ++ (match argmax Z Z.leb c with
        | Some i => [Z.of_nat i; int_delay_of_peak n i]
        | None => [-1; 0]
        end)
    ++ (match corrmax_shift qc q0 q1 qadd qmul qopp qinv qleb qeqb (map q_of_int a) (map q_of_int b) with
        | Some (edge, sh) => [1; enc_bool edge; Qnum (fst sh); Zpos (Qden (fst sh))]
        | None => [0]
        end).

Definition gauss_pairs (l : list Z) : list qc :=
  (fix go (l : list Z) := match l with a :: b :: t => (a # 1, b # 1)%Q :: go t | _ => [] end) l.
Definition enc_qc (sc : Z) (z : qc) : list Z :=
  [(Qnum (fst z) * sc) / Zpos (Qden (fst z)); (Qnum (snd z) * sc) / Zpos (Qden (snd z))].

Definition run_freq (N : Z) (r : list Z) : list Z :=
  let n := Z.to_nat N in
  let h := (n / 2 + 1)%nat in
  let W := gauss_pairs (firstn (2 * h) r) in
  let p := pairs_of (firstn (2 * h) (skipn (2 * h) r)) in
  match fshift_freq qc q0 qmul n p W with
  | Some Y => 1 :: flat_map (enc_qc OUTSC) Y
  | None => [0]
  end.

Definition run_cross (N : Z) (r : list Z) : list Z :=
  let n := Z.to_nat N in
  let x := map q_of_int (firstn n r) in
  let y := map q_of_int (firstn n (skipn n r)) in
  let tw := pairs_of (firstn (2 * n) (skipn (2 * n) r)) in
  flat_map (enc_qc 1048576) (cross_spectrum qc q0 qadd qmul qconj n (wtable n tw) x y).

Definition run_cluster (nsp ntr nt : Z) (r : list Z) : list Z :=
  let a := Z.to_nat nsp in let b := Z.to_nat ntr in let c := Z.to_nat nt in
  let wf := map (chunks b c) (chunks a (b * c) (firstn (a * b * c) r)) in
  match spike_delays_int b c wf with
  | None => [0]
  | Some (tr, ds) =>
      let tpl := nth tr (template2 b c wf) [] in
      1 :: Z.of_nat tr ::
      flat_map (fun spd =>
        match snd spd with
        | None => [0]
        | Some d =>
            1 :: d ::
            match corrmax_shift qc q0 q1 qadd qmul qopp qinv qleb qeqb
                    (map q_of_int (nth tr (fst spd) [])) (map q_of_int tpl) with
            | Some (edge, sh) => [1; enc_bool edge; Qnum (fst sh); Zpos (Qden (fst sh))]
            | None => [0]
            end
        end) (combine wf ds)
  end.

Definition run (inp : list Z) : list Z :=
  match inp with
  | 1 :: axis0 :: nr :: nc :: nsh :: r => run_fshift axis0 nr nc nsh r
  | 2 :: ns :: r => run_parab (firstn (Z.to_nat ns) r)
  | 3 :: m :: ns :: r =>
      let x := firstn (Z.to_nat ns) r in
      roll_list Z 0 (Z.to_nat ns) m x
  | 4 :: N :: r => run_corrmax N r
  | 5 :: N :: r => run_freq N r
  | 6 :: N :: r => run_cross N r
  | 7 :: nsp :: ntr :: nt :: r => run_cluster nsp ntr nt r
  | 8 :: nr :: nc :: r =>
      flat_map (fun o => match o with
                         | Some (edge, ip, mx) =>
                             [1; enc_bool edge; Qnum (fst ip); Zpos (Qden (fst ip)); Qnum (fst mx); Zpos (Qden (fst mx))]
                         | None => [0]
                         end)
               (parabolic_max_rows qc q0 q1 qadd qmul qopp qinv qleb qeqb
                  (map (map q_of_int) (chunks (Z.to_nat nr) (Z.to_nat nc) (firstn (Z.to_nat nr * Z.to_nat nc) r))))
  | _ => [-999]
  end.

Definition mismatches := mismatches_of run.
