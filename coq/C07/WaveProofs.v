(* C07 — lemmas about the shift_waveform model (Waveform.v). *)
From Coq Require Import ZArith List Bool Lia Arith.
From IBL.C07 Require Import Model Sums Proofs Waveform.
Import ListNotations.
Open Scope Z_scope.

Local Notation zsum := (sumn Z 0 Z.add).
Local Notation xc := (xcorr_same_at Z 0 Z.add Z.mul).

(* ---- median of equal values ---- *)
Lemma sort_repeat c k : sort_z (repeat c k) = repeat c k.
Proof.
  induction k as [|k IH]; [reflexivity|]. cbn [repeat sort_z fold_right]. fold (sort_z (repeat c k)).
  rewrite IH. destruct k; cbn [repeat insert_sorted]; [reflexivity|]. now rewrite Z.leb_refl.
Qed.

Lemma nth_repeat_lt (c : Z) k j : (j < k)%nat -> nth j (repeat c k) 0 = c.
Proof. revert j. induction k as [|k IH]; intros [|j] H; cbn; try lia; auto. apply IH. lia. Qed.

Lemma median2_repeat c k : (1 <= k)%nat -> median2 (repeat c k) = 2 * c.
Proof.
  intros Hk. unfold median2. rewrite sort_repeat, repeat_length.
  assert (Hh : (k / 2 < k)%nat) by (apply Nat.div_lt; lia).
  destruct (Nat.odd k) eqn:E.
  - rewrite nth_repeat_lt by exact Hh. reflexivity.
  - rewrite !nth_repeat_lt by lia. lia.
Qed.

Lemma map_repeat {A B} (f : A -> B) a k : map f (repeat a k) = repeat (f a) k.
Proof. induction k; cbn; [reflexivity|]. now rewrite IHk. Qed.

(* the template of k >= 1 identical spikes is (twice) the spike *)
Lemma template2_identical ntr nt sp k : (1 <= k)%nat ->
  template2 ntr nt (repeat sp k) =
  map (fun tr => map (fun t => 2 * sample sp tr t) (seq 0 nt)) (seq 0 ntr).
Proof.
  intros Hk. unfold template2. apply map_ext. intros tr. apply map_ext. intros t.
  rewrite map_repeat. now apply median2_repeat.
Qed.

(* ---- the delay of x against g*x (g > 0) is that of x against x ---- *)
Lemma xc_scale_r N a b g i : xc N a (fun l => g * b l) i = g * xc N a b i.
Proof.
  unfold xcorr_same_at. rewrite <- zsum_scale. apply zsum_ext. intros l Hl. cbv zeta.
  destruct ((0 <=? Z.of_nat l + Z.of_nat i - Z.of_nat (N / 2)) &&
            (Z.of_nat l + Z.of_nat i - Z.of_nat (N / 2) <? Z.of_nat N)); ring.
Qed.

Lemma argmax_from_scale g l : 0 < g -> forall i bi bv,
  argmax_from Z Z.leb (map (Z.mul g) l) i bi (g * bv) = argmax_from Z Z.leb l i bi bv.
Proof.
  intros Hg. induction l as [|v t IH]; intros i bi bv; [reflexivity|].
  cbn [map argmax_from].
  replace (g * v <=? g * bv) with (v <=? bv).
  - destruct (v <=? bv); apply IH.
  - destruct (Z.leb_spec v bv); destruct (Z.leb_spec (g * v) (g * bv)); try reflexivity; nia.
Qed.

Lemma argmax_scale g l : 0 < g -> argmax Z Z.leb (map (Z.mul g) l) = argmax Z Z.leb l.
Proof.
  intros Hg. destruct l as [|v t]; [reflexivity|]. cbn [map argmax]. f_equal. now apply argmax_from_scale.
Qed.

Lemma xcorr_scaled_copy (x : list Z) g :
  xcorr_same Z 0 Z.add Z.mul x (map (Z.mul g) x) = map (Z.mul g) (xcorr_same Z 0 Z.add Z.mul x x).
Proof.
  unfold xcorr_same. rewrite map_map. apply map_ext_in. intros i Hi.
  rewrite <- xc_scale_r. apply xc_ext; [reflexivity|].
  intros j Hj. unfold nthC.
  rewrite (nth_indep _ 0 (g * 0)) by (now rewrite map_length).
  apply (map_nth (Z.mul g)).
Qed.

(* a non-flat trace against g times itself: integer delay 0, for every length *)
Lemma scaled_copy_delay0 (x : list Z) g : 0 < g ->
  0 < zsum (fun l => nthC Z 0 x l * nthC Z 0 x l) (length x) ->
  option_map (int_delay_of_peak (length x))
             (argmax Z Z.leb (xcorr_same Z 0 Z.add Z.mul x (map (Z.mul g) x))) = Some 0.
Proof.
  intros Hg HE. rewrite xcorr_scaled_copy, argmax_scale by exact Hg.
  destruct (autocorr_argmax x HE) as [-> H0]. cbn [option_map]. now rewrite H0.
Qed.

Lemma list_as_map_z (l : list Z) : l = map (fun t => nth t l 0) (seq 0 (length l)).
Proof.
  apply (nth_ext _ _ 0 0); [now rewrite map_length, seq_length|].
  intros k Hk. now rewrite nth_map_seq0.
Qed.

(* ---- rolling by 0 changes nothing ---- *)
Lemma roll_list_0 (x : list Z) : roll_list Z 0 (length x) 0 x = x.
Proof.
  destruct x as [|v t] eqn:Ex; [reflexivity|]. rewrite <- Ex.
  assert (Hn : (1 <= length x)%nat) by (rewrite Ex; cbn; lia).
  pose proof (resync_undoes_roll Z 0 0 x Hn) as H. unfold resync_int in H.
  rewrite roll_list_length in H. cbn [Z.opp] in H.
  (* roll 0 (roll 0 x) = x and roll 0 is idempotent-free: prove directly *)
  clear H. apply (nth_ext _ _ 0 0); [now rewrite roll_list_length|].
  intros j Hj. rewrite roll_list_length in Hj. unfold roll_list.
  rewrite (nth_indep _ 0 (roll_fun Z (length x) 0 (nthC Z 0 x) 0%nat)) by (now rewrite map_length, seq_length).
  rewrite (map_nth (roll_fun Z (length x) 0 (nthC Z 0 x)) (seq 0 (length x)) 0%nat j), seq_nth by exact Hj.
  cbn [Nat.add]. unfold roll_fun, nthC. rewrite Z.sub_0_r, Z.mod_small by lia. now rewrite Nat2Z.id.
Qed.

Lemma apply_zero_delays nt (sp : list (list Z)) k :
  (forall row, In row sp -> length row = nt) ->
  apply_int_delays nt (repeat sp k) (repeat 0 k) = repeat sp k.
Proof.
  intros Hrect. unfold apply_int_delays.
  induction k as [|k IH]; [reflexivity|]. cbn [repeat combine map fst snd]. rewrite IH. f_equal.
  rewrite <- (map_id sp) at 2. apply map_ext_in. intros row Hrow.
  rewrite <- (Hrect row Hrow). apply roll_list_0.
Qed.

(* An already aligned cluster (k >= 1 identical spikes, any length nt of either parity) is a
   fixed point: whatever peak trace find_peak selects, provided the spike is not flat on
   it, every integer delay is 0 and the spikes are returned unchanged. *)
Lemma aligned_cluster_fixed ntr nt (sp : list (list Z)) k tr :
  (1 <= k)%nat -> length sp = ntr -> (forall row, In row sp -> length row = nt) ->
  peak_trace (template2 ntr nt (repeat sp k)) = Some tr -> (tr < ntr)%nat ->
  0 < zsum (fun l => nthC Z 0 (nth tr sp []) l * nthC Z 0 (nth tr sp []) l) nt ->
  spike_delays_int ntr nt (repeat sp k) = Some (tr, repeat (Some 0) k) /\
  apply_int_delays nt (repeat sp k) (repeat 0 k) = repeat sp k.
Proof.
  intros Hk Hntr Hrect Hpk Htr HE. split; [|now apply apply_zero_delays].
  unfold spike_delays_int. rewrite Hpk. f_equal. f_equal.
  rewrite map_repeat. f_equal.
  set (x := nth tr sp []).
  assert (Hx : length x = nt) by (apply Hrect; unfold x; apply nth_In; lia).
  assert (Htpl : nth tr (template2 ntr nt (repeat sp k)) [] = map (Z.mul 2) x).
  { rewrite template2_identical by exact Hk.
    rewrite (nth_indep _ [] ((fun tr0 => map (fun t => 2 * sample sp tr0 t) (seq 0 nt)) 0%nat))
      by (now rewrite map_length, seq_length).
    rewrite (map_nth (fun tr0 => map (fun t => 2 * sample sp tr0 t) (seq 0 nt)) (seq 0 ntr) 0%nat tr),
            seq_nth by exact Htr.
    cbn [Nat.add]. unfold sample. fold x.
    transitivity (map (Z.mul 2) (map (fun t => nth t x 0) (seq 0 (length x)))).
    - rewrite map_map, Hx. reflexivity.
    - f_equal. symmetry. apply list_as_map_z. }
  rewrite Htpl, <- Hx. apply scaled_copy_delay0; [lia|]. now rewrite Hx.
Qed.
