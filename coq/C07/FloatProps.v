(* C07 — the one float-side step of wave_shift_corrmax that the integer model takes for granted:
       np.floor(sig_len / 2)
   sig_len is a Python int, `/` is the correctly rounded binary64 quotient, np.floor is exact.
   For every 0 <= N < 2^53 the quotient N/2 is representable (mantissa N, exponent -1), so the
   division is exact and the floor is the integer quotient N // 2 = the model's (N / 2)%nat.
   (np.round of the same quotient is round-half-even: that is what two seeded changes used.)
   Flocq 4.1, binary64 = FLT format with emin = -1074, prec = 53.  Uses the standard-library
   axioms of the classical reals (reported by Print Assumptions). *)
From Coq Require Import ZArith Reals Lia.
From Flocq Require Import Core.
Open Scope Z_scope.

Definition b64_exp := FLT_exp (-1074) 53.
Definition b64_round (x : R) : R := round radix2 b64_exp ZnearestE x.

Lemma half_of_int_representable (N : Z) : Z.abs N < 2 ^ 53 ->
  generic_format radix2 b64_exp (IZR N / 2)%R.
Proof.
  intros HN. apply generic_format_FLT.
  exists (Float radix2 N (-1)).
  - unfold F2R. cbn [Fnum Fexp]. unfold Rdiv. f_equal.
  - cbn [Fnum]. exact HN.
  - cbn [Fexp]. lia.
Qed.

Lemma float_floor_half_lemma (N : Z) : 0 <= N < 2 ^ 53 ->
  b64_round (IZR N / 2) = (IZR N / 2)%R /\
  Zfloor (b64_round (IZR N / 2)) = N / 2.
Proof.
  intros HN.
  assert (Hr : b64_round (IZR N / 2) = (IZR N / 2)%R).
  { unfold b64_round. apply round_generic; [apply valid_rnd_N|].
    apply half_of_int_representable. lia. }
  split; [exact Hr|]. rewrite Hr. apply (Zfloor_div N 2). lia.
Qed.

(* np.floor(sig_len / 2) = sig_len // 2 for every length below 2^53, and that is the index used
   by the model (Nat division) *)
Theorem C07_float_floor_half_is_exact : forall N : nat, Z.of_nat N < 2 ^ 53 ->
  b64_round (IZR (Z.of_nat N) / 2) = (IZR (Z.of_nat N) / 2)%R /\
  Zfloor (b64_round (IZR (Z.of_nat N) / 2)) = Z.of_nat (N / 2)%nat.
Proof.
  intros N HN. destruct (float_floor_half_lemma (Z.of_nat N) ltac:(lia)) as [H1 H2].
  split; [exact H1|]. rewrite H2. rewrite Nat2Z.inj_div. reflexivity.
Qed.
Print Assumptions C07_float_floor_half_is_exact.
