(* C07 — a concrete instance of the abstract setting: the field F9 = F3[i]
   with its Frobenius conjugation, n = 2, w k = (-1)^k.  Shows that the
   hypotheses of the theorems are jointly satisfiable with a non-trivial
   conjugation, and carries the witness for the Nyquist caveat of composition
   (two half-sample shifts, phase factor i at the Nyquist bin). *)
From Coq Require Import ZArith List Bool Field Lia.
From IBL.C07 Require Import Model Sums Proofs.
Import ListNotations.

Inductive F3 : Type := A0 | A1 | A2.
Definition f3add (a b : F3) : F3 :=
  match a, b with
  | A0, x => x | A1, A0 => A1 | A1, A1 => A2 | A1, A2 => A0
  | A2, A0 => A2 | A2, A1 => A0 | A2, A2 => A1
  end.
Definition f3mul (a b : F3) : F3 :=
  match a, b with
  | A0, _ => A0 | A1, x => x | A2, A0 => A0 | A2, A1 => A2 | A2, A2 => A1
  end.
Definition f3opp (a : F3) : F3 := match a with A0 => A0 | A1 => A2 | A2 => A1 end.

Definition F9 : Type := (F3 * F3)%type.
Definition z9 : F9 := (A0, A0).
Definition one9 : F9 := (A1, A0).
Definition i9 : F9 := (A0, A1).
Definition add9 (x y : F9) : F9 := (f3add (fst x) (fst y), f3add (snd x) (snd y)).
Definition mul9 (x y : F9) : F9 :=
  (f3add (f3mul (fst x) (fst y)) (f3opp (f3mul (snd x) (snd y))),
   f3add (f3mul (fst x) (snd y)) (f3mul (snd x) (fst y))).
Definition opp9 (x : F9) : F9 := (f3opp (fst x), f3opp (snd x)).
Definition conj9 (x : F9) : F9 := (fst x, f3opp (snd x)).
(* 1/z = conj z / |z|^2, and in F3 every non-zero element is its own inverse *)
Definition inv9 (x : F9) : F9 :=
  mul9 (conj9 x) (f3add (f3mul (fst x) (fst x)) (f3mul (snd x) (snd x)), A0).

Ltac cases9 := intros; repeat match goal with x : F9 |- _ => destruct x as [[] []] end.

Lemma F9_field : field_theory z9 one9 add9 mul9 (fsub F9 add9 opp9) opp9 (fdiv F9 mul9 inv9) inv9 eq.
Proof.
  constructor; [constructor| | |].
  all: try (cases9; reflexivity).
  - discriminate.
  - intros p Hp. destruct p as [[] []]; try reflexivity. exfalso. apply Hp. reflexivity.
Qed.

Definition w9 (k : Z) : F9 := if Z.even k then one9 else (A2, A0).

Lemma F9_setting : setting F9 z9 one9 add9 mul9 opp9 inv9 conj9 2 w9.
Proof.
  constructor.
  - exact F9_field.
  - cases9; reflexivity.
  - cases9; reflexivity.
  - cases9; reflexivity.
  - auto.
  - intros a b. unfold w9. rewrite Z.even_add. destruct (Z.even a), (Z.even b); reflexivity.
  - reflexivity.
  - intros d Hd. assert (d = 1%Z) by (cbn in Hd; lia). subst d. discriminate.
  - intros k. unfold w9. rewrite Z.even_opp. destruct (Z.even k); reflexivity.
  - discriminate.
  - discriminate.
Qed.

Definition fs9 := fshift1 F9 z9 one9 add9 mul9 inv9 conj9 2 w9.
Definition x9 : list F9 := [one9; z9].            (* the impulse [1, 0] *)
Definition p9 : list F9 := [one9; i9].            (* phase table of a half-sample shift: e^{i pi/2} = i at Nyquist *)
Definition h9 : list F9 := [(A2, A0); (A2, A0)].  (* [1/2, 1/2]  (2 = 1/2 in F3) *)

Lemma F9_compose_witness :
  real_list F9 conj9 x9 /\
  re F9 one9 add9 mul9 inv9 conj9 (mul9 (nthC F9 z9 p9 0) (nthC F9 z9 p9 0))
    = mul9 (re F9 one9 add9 mul9 inv9 conj9 (nthC F9 z9 p9 0)) (re F9 one9 add9 mul9 inv9 conj9 (nthC F9 z9 p9 0)) /\
  fs9 p9 x9 = Some h9 /\ fs9 p9 h9 = Some h9 /\
  fs9 (lmul F9 mul9 p9 p9) x9 = Some (roll_list F9 z9 2 1 x9) /\
  roll_list F9 z9 2 1 x9 <> h9.
Proof.
  split; [|split; [|split; [|split; [|split]]]]; try (vm_compute; reflexivity).
  - intros v [<-|[<-|[]]]; reflexivity.
  - vm_compute. discriminate.
Qed.
