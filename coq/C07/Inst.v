(* C07 — a concrete instance of the abstract setting: the field F9 = F3[i]
   with its Frobenius conjugation, n = 2, w k = (-1)^k.  Shows that the
   hypotheses of the theorems are jointly satisfiable with a non-trivial
   conjugation, and carries the witness for the Nyquist caveat of composition
   (two half-sample shifts, phase factor i at the Nyquist bin). *)
From Coq Require Import ZArith List Bool Field Lia.
From IBL.C07 Require Import Model Sums Proofs.
Import ListNotations.

Inductive F3 : Type := A0 | A1 | A2.
Definition f3add (a b : F3) : F3 :=
  match a, b with
  | A0, x => x | A1, A0 => A1 | A1, A1 => A2 | A1, A2 => A0
  | A2, A0 => A2 | A2, A1 => A0 | A2, A2 => A1
  end.
Definition f3mul (a b : F3) : F3 :=
  match a, b with
  | A0, _ => A0 | A1, x => x | A2, A0 => A0 | A2, A1 => A2 | A2, A2 => A1
  end.
Definition f3opp (a : F3) : F3 := match a with A0 => A0 | A1 => A2 | A2 => A1 end.

Definition F9 : Type := (F3 * F3)%type.
Definition z9 : F9 := (A0, A0).
Definition one9 : F9 := (A1, A0).
Definition i9 : F9 := (A0, A1).
Definition add9 (x y : F9) : F9 := (f3add (fst x) (fst y), f3add (snd x) (snd y)).
Definition mul9 (x y : F9) : F9 :=
  (f3add (f3mul (fst x) (fst y)) (f3opp (f3mul (snd x) (snd y))),
   f3add (f3mul (fst x) (snd y)) (f3mul (snd x) (fst y))).
Definition opp9 (x : F9) : F9 := (f3opp (fst x), f3opp (snd x)).
Definition conj9 (x : F9) : F9 := (fst x, f3opp (snd x)).
(* 1/z = conj z / |z|^2, and in F3 every non-zero element is its own inverse *)
Definition inv9 (x : F9) : F9 :=
  mul9 (conj9 x) (f3add (f3mul (fst x) (fst x)) (f3mul (snd x) (snd x)), A0).

Ltac cases9 := intros; repeat match goal with x : F9 |- _ => destruct x as [[] []] end.

Lemma F9_field : field_theory z9 one9 add9 mul9 (fsub F9 add9 opp9) opp9 (fdiv F9 mul9 inv9) inv9 eq.
Proof.
  constructor; [constructor| | |].
  all: try (cases9; reflexivity).
  - discriminate.
  - intros p Hp. destruct p as [[] []]; try reflexivity. exfalso. apply Hp. reflexivity.
Qed.

Definition w9 (k : Z) : F9 := if Z.even k then one9 else (A2, A0).

Lemma F9_setting : setting F9 z9 one9 add9 mul9 opp9 inv9 conj9 2 w9.
Proof.
  constructor.
  - exact F9_field.
  - cases9; reflexivity.
  - cases9; reflexivity.
  - cases9; reflexivity.
  - auto.
  - intros a b. unfold w9. rewrite Z.even_add. destruct (Z.even a), (Z.even b); reflexivity.
  - reflexivity.
  - intros d Hd. assert (d = 1%Z) by (cbn in Hd; lia). subst d. discriminate.
  - intros k. unfold w9. rewrite Z.even_opp. destruct (Z.even k); reflexivity.
  - discriminate.
  - discriminate.
Qed.

Definition fs9 := fshift1 F9 z9 one9 add9 mul9 inv9 conj9 2 w9.
Definition x9 : list F9 := [one9; z9].            (* the impulse [1, 0] *)
Definition p9 : list F9 := [one9; i9].            (* phase table of a half-sample shift: e^{i pi/2} = i at Nyquist *)
Definition h9 : list F9 := [(A2, A0); (A2, A0)].  (* [1/2, 1/2]  (2 = 1/2 in F3) *)

Lemma F9_compose_witness :
  real_list F9 conj9 x9 /\
  re F9 one9 add9 mul9 inv9 conj9 (mul9 (nthC F9 z9 p9 0) (nthC F9 z9 p9 0))
    = mul9 (re F9 one9 add9 mul9 inv9 conj9 (nthC F9 z9 p9 0)) (re F9 one9 add9 mul9 inv9 conj9 (nthC F9 z9 p9 0)) /\
  fs9 p9 x9 = Some h9 /\ fs9 p9 h9 = Some h9 /\
  fs9 (lmul F9 mul9 p9 p9) x9 = Some (roll_list F9 z9 2 1 x9) /\
  roll_list F9 z9 2 1 x9 <> h9.
Proof.
  split; [|split; [|split; [|split; [|split]]]]; try (vm_compute; reflexivity).
  - intros v [<-|[<-|[]]]; reflexivity.
  - vm_compute. discriminate.
Qed.

(* ---- a second instance with a bin strictly between DC and Nyquist: F9, n = 4, w = powers of i ---- *)
Definition w4 (k : Z) : F9 :=
  match (k mod 4)%Z with 0%Z => one9 | 1%Z => i9 | 2%Z => (A2, A0) | _ => (A0, A2) end.

Lemma mod4_cases k : (k mod 4 = 0 \/ k mod 4 = 1 \/ k mod 4 = 2 \/ k mod 4 = 3)%Z.
Proof. pose proof (Z.mod_pos_bound k 4 ltac:(lia)). lia. Qed.

Lemma F9_setting4 : setting F9 z9 one9 add9 mul9 opp9 inv9 conj9 4 w4.
Proof.
  constructor.
  - exact F9_field.
  - cases9; reflexivity.
  - cases9; reflexivity.
  - cases9; reflexivity.
  - auto.
  - intros a b. unfold w4. rewrite Z.add_mod by lia.
    destruct (mod4_cases a) as [Ha|[Ha|[Ha|Ha]]]; destruct (mod4_cases b) as [Hb|[Hb|[Hb|Hb]]];
      rewrite Ha, Hb; reflexivity.
  - reflexivity.
  - intros d Hd. assert (H : (d = 1 \/ d = 2 \/ d = 3)%Z) by (cbn in Hd; lia).
    destruct H as [ H | [ H | H ] ]; subst d; discriminate.
  - intros k. unfold w4.
    replace (- k)%Z with (- (k mod 4) + (- (k / 4)) * 4)%Z by (pose proof (Z.div_mod k 4 ltac:(lia)); lia).
    rewrite Z_mod_plus_full.
    destruct (mod4_cases k) as [Ha|[Ha|[Ha|Ha]]]; rewrite Ha; reflexivity.
  - vm_compute. discriminate.
  - discriminate.
Qed.

(* integer shifts as the abstract shift type of the phase-level theorems: Sh = Z,
   phase s k = w(-(k s)) *)
Definition phase4 (s : Z) (k : nat) : F9 := w4 (- (Z.of_nat k * s))%Z.

Lemma phase4_hyps :
  (forall k, phase4 0 k = one9) /\
  (forall s t k, phase4 (s + t) k = mul9 (phase4 s k) (phase4 t k)) /\
  (forall s k, mul9 (phase4 (- s) k) (phase4 s k) = one9) /\
  (forall k, (2 * k <= 4)%nat -> phase4 1 k = w4 (- Z.of_nat k)%Z) /\
  (forall s, phase4 s 0 = one9).
Proof.
  destruct F9_setting4 as [_ _ _ _ _ wadd _ _ _ _ _].
  assert (H0 : w4 0 = one9) by reflexivity.
  split; [|split; [|split; [|split]]].
  - intros k. unfold phase4. now rewrite Z.mul_0_r.
  - intros s t k. unfold phase4. rewrite <- wadd. f_equal. lia.
  - intros s k. unfold phase4. rewrite <- wadd. rewrite <- H0. f_equal. lia.
  - intros k _. unfold phase4. f_equal. lia.
  - intros s. unfold phase4. reflexivity.
Qed.

Definition fs4 := fshift1 F9 z9 one9 add9 mul9 inv9 conj9 4 w4.
Definition ff4 := fshift_fun F9 z9 one9 add9 mul9 inv9 conj9 4 w4.
(* a real signal with DC, bin-1 and Nyquist content, and its phase tables *)
Definition x4 : list F9 := [(A1, A0); (A2, A0); z9; (A1, A0)].
Definition pint4 (m : Z) : list F9 := map (phase4 m) [0; 1; 2]%nat.
Definition pquart4 : list F9 := [one9; i9; one9].        (* a "fractional" table: i at bin 1, real at Nyquist *)

Lemma F9_examples4 :
  real_list F9 conj9 x4 /\
  (* integer shifts of either sign are rolls *)
  fs4 (pint4 1) x4 = Some (roll_list F9 z9 4 1 x4) /\
  fs4 (pint4 (-7)) x4 = Some (roll_list F9 z9 4 (-7) x4) /\
  fs4 (pint4 0) x4 = Some x4 /\
  (* composition: fractional then integer table = product table (Nyquist factor real) *)
  (exists y z, fs4 pquart4 x4 = Some y /\ fs4 (pint4 1) y = Some z /\
               fs4 (lmul F9 mul9 pquart4 (pint4 1)) x4 = Some z /\ y <> x4) /\
  (* a sinusoid at bin 1 (0 < 1 < 4/2) with complex amplitude c = 1 + i, table with p_1 = i:
     amplitude multiplied by p_1 *)
  (forall j, (j < 4)%nat ->
     ff4 (fun k => nth k pquart4 z9)
         (fun i => add9 (mul9 (A1, A1) (w4 (Z.of_nat i * 1))) (mul9 (conj9 (A1, A1)) (w4 (- (Z.of_nat i * 1))))) j
     = add9 (mul9 (mul9 (A1, A1) i9) (w4 (Z.of_nat j * 1)))
            (mul9 (conj9 (mul9 (A1, A1) i9)) (w4 (- (Z.of_nat j * 1))))).
Proof.
  split; [intros v [<-|[<-|[<-|[<-|[]]]]]; reflexivity|].
  split; [vm_compute; reflexivity|]. split; [vm_compute; reflexivity|]. split; [vm_compute; reflexivity|].
  split.
  - eexists. eexists. split; [vm_compute; reflexivity|]. split; [vm_compute; reflexivity|].
    split; [vm_compute; reflexivity|]. vm_compute. discriminate.
  - intros j Hj. destruct j as [|[|[|[|j]]]]; try lia; vm_compute; reflexivity.
Qed.
