(* C07 — finite sums over an abstract field (own library, self-contained). *)
From Coq Require Import ZArith List Bool Lia Field Arith.
From IBL.C07 Require Import Model.
Import ListNotations.

Section Sums.
Variable C : Type.
Variables (c0 c1 : C) (cadd cmul : C -> C -> C) (copp cinv : C -> C).
Definition fsub (a b : C) : C := cadd a (copp b).
Definition fdiv (a b : C) : C := cmul a (cinv b).
Hypothesis Cf : field_theory c0 c1 cadd cmul fsub copp fdiv cinv (@eq C).
Add Field Cfield : Cf.
Set Default Proof Using "Cf".

Local Notation "a + b" := (cadd a b).
Local Notation "a * b" := (cmul a b).
Local Notation "a - b" := (fsub a b).
Local Notation "- a" := (copp a).
Local Notation "0" := c0.
Local Notation "1" := c1.
Local Notation sum := (sumn C c0 cadd).
Local Notation natC := (natC C c0 c1 cadd).

Lemma sum_S f m : sum f (S m) = sum f m + f m.
Proof. reflexivity. Qed.

Lemma sum_ext f g m : (forall i, (i < m)%nat -> f i = g i) -> sum f m = sum g m.
Proof.
  induction m as [|m IH]; intros H; [reflexivity|].
  rewrite !sum_S, IH, H by (intros; auto with arith). reflexivity.
Qed.

Lemma sum_zero m : sum (fun _ => 0) m = 0.
Proof. induction m as [|m IH]; [reflexivity|]. rewrite sum_S, IH. ring. Qed.

Lemma sum_add f g m : sum (fun i => f i + g i) m = sum f m + sum g m.
Proof. induction m as [|m IH]; cbn [sumn]; [ring|]. rewrite IH. ring. Qed.

Lemma sum_scale c f m : sum (fun i => c * f i) m = c * sum f m.
Proof. induction m as [|m IH]; cbn [sumn]; [ring|]. rewrite IH. ring. Qed.

Lemma sum_scale_r c f m : sum (fun i => f i * c) m = sum f m * c.
Proof. induction m as [|m IH]; cbn [sumn]; [ring|]. rewrite IH. ring. Qed.

Lemma sum_swap (f : nat -> nat -> C) a b :
  sum (fun i => sum (fun j => f i j) b) a = sum (fun j => sum (fun i => f i j) a) b.
Proof.
  induction a as [|a IH]; cbn [sumn].
  - now rewrite sum_zero.
  - rewrite IH, <- sum_add. reflexivity.
Qed.

Lemma sum_split f a b : sum f (a + b) = sum f a + sum (fun i => f (a + i)%nat) b.
Proof.
  induction b as [|b IH]; cbn [sumn].
  - rewrite Nat.add_0_r. ring.
  - rewrite Nat.add_succ_r. cbn [sumn]. rewrite IH. ring.
Qed.

Lemma sum_rev f m : sum f m = sum (fun i => f (m - 1 - i)%nat) m.
Proof.
  revert f. induction m as [|m IH]; intros f; [reflexivity|].
  rewrite sum_S.
  replace (S m) with (1 + m)%nat by lia. rewrite sum_split. cbn [sumn].
  rewrite (IH f).
  replace (f (1 + m - 1 - 0)%nat) with (f m) by (f_equal; lia).
  rewrite (sum_ext (fun i => f (1 + m - 1 - (1 + i))%nat) (fun i => f (m - 1 - i)%nat))
    by (intros; f_equal; lia).
  ring.
Qed.

(* only one non-zero term *)
Lemma sum_single f m i0 : (i0 < m)%nat -> (forall i, (i < m)%nat -> i <> i0 -> f i = 0) ->
  sum f m = f i0.
Proof.
  induction m as [|m IH]; intros Hi H; [lia|]. rewrite sum_S.
  destruct (Nat.eq_dec i0 m) as [->|Hne].
  - rewrite (sum_ext f (fun _ => 0)) by (intros; apply H; lia). rewrite sum_zero. ring.
  - rewrite IH by (try lia; intros; apply H; lia). rewrite (H m) by lia. ring.
Qed.

Lemma natC_S m : natC (S m) = natC m + 1.
Proof. reflexivity. Qed.

Lemma sum_const c m : sum (fun _ => c) m = natC m * c.
Proof. induction m as [|m IH]; cbn [sumn Model.natC]; [ring|]. fold (natC m). rewrite IH. ring. Qed.

(* integral domain *)
Lemma mul_eq_0_l a b : a * b = 0 -> a <> 0 -> b = 0.
Proof.
  intros H Ha. assert (E : b = cinv a * (a * b)) by (field; exact Ha).
  rewrite E, H. ring.
Qed.

End Sums.
