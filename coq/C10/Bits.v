(* C10 — lemmas about split_sync (bit level), including the exhaustive kernel evaluation. *)
From Coq Require Import ZArith List Bool Lia Sorted.
From IBL.lib Require Import PyInt.
From IBL.C10 Require Import Model.
Import ListNotations.
Open Scope Z_scope.

(* ------------------------------------------------------------------ *)
(* split_sync: bit level                                               *)
(* ------------------------------------------------------------------ *)

Lemma to_int16_mod v : to_int16 v mod 65536 = v mod 65536.
Proof.
  unfold to_int16. rewrite Zminus_mod_idemp_l. f_equal. lia.
Qed.

Lemma to_int16_range v : -32768 <= to_int16 v < 32768.
Proof.
  unfold to_int16. pose proof (Z.mod_pos_bound (v + 32768) 65536 ltac:(lia)). lia.
Qed.

Lemma to_int16_id v : -32768 <= v < 32768 -> to_int16 v = v.
Proof.
  intros H. unfold to_int16. rewrite Z.mod_small by lia. lia.
Qed.

Lemma to_int16_periodic v m : to_int16 (v + 65536 * m) = to_int16 v.
Proof.
  unfold to_int16. replace (v + 65536 * m + 32768) with (v + 32768 + m * 65536) by lia.
  now rewrite Z_mod_plus_full.
Qed.

Lemma div_mod2_bit b k : 0 <= k -> (b / 2 ^ k) mod 2 = Z.b2z (Z.testbit b k).
Proof. intros Hk. symmetry. now apply Z.testbit_spec'. Qed.

(* the 16 columns, written out *)
Lemma split_word_unfold v :
  let u := v mod 65536 in
  let lo := u mod 256 in let hi := u / 256 in
  split_word v =
  [ (lo / 2^0) mod 2; (lo / 2^1) mod 2; (lo / 2^2) mod 2; (lo / 2^3) mod 2;
    (lo / 2^4) mod 2; (lo / 2^5) mod 2; (lo / 2^6) mod 2; (lo / 2^7) mod 2;
    (hi / 2^0) mod 2; (hi / 2^1) mod 2; (hi / 2^2) mod 2; (hi / 2^3) mod 2;
    (hi / 2^4) mod 2; (hi / 2^5) mod 2; (hi / 2^6) mod 2; (hi / 2^7) mod 2 ].
Proof.
  intros u lo hi. unfold split_word, u8_view. rewrite to_int16_mod.
  fold u. fold lo. fold hi.
  generalize lo hi. intros a b.
  unfold unpack8, roll. cbn [flat_map map app length Nat.sub skipn firstn rev].
  reflexivity.
Qed.

Lemma testbit_lo v k : 0 <= k < 8 ->
  Z.testbit ((v mod 65536) mod 256) k = Z.testbit v k.
Proof.
  intros Hk. change 256 with (2 ^ 8). change 65536 with (2 ^ 16).
  rewrite Z.mod_pow2_bits_low by lia. rewrite Z.mod_pow2_bits_low by lia. reflexivity.
Qed.

Lemma testbit_hi v k : 0 <= k < 8 ->
  Z.testbit ((v mod 65536) / 256) k = Z.testbit v (k + 8).
Proof.
  intros Hk. change 256 with (2 ^ 8). change 65536 with (2 ^ 16).
  rewrite Z.div_pow2_bits by lia. rewrite Z.mod_pow2_bits_low by lia. reflexivity.
Qed.

(* General bit-level statement: for EVERY integer v (the int16 conversion
   keeps the low 16 bits; Z.testbit on negative numbers is two's complement),
   column k of the decoded row is bit k of v. *)
Lemma split_word_bits v k : 0 <= k < 16 ->
  nth (Z.to_nat k) (split_word v) 0 = Z.b2z (Z.testbit v k).
Proof.
  intros Hk. rewrite split_word_unfold. cbv zeta.
  set (n := Z.to_nat k). assert (Hn : (n < 16)%nat) by lia.
  assert (Hkn : k = Z.of_nat n) by lia. rewrite Hkn. clearbody n. clear Hkn Hk.
  do 16 (destruct n as [|n];
    [ cbn [nth Z.of_nat Pos.of_succ_nat Pos.succ];
      rewrite div_mod2_bit by lia;
      first [ rewrite testbit_lo by lia; reflexivity
            | rewrite testbit_hi by lia; reflexivity ] | ]).
  lia.
Qed.

Lemma split_word_length v : length (split_word v) = 16%nat.
Proof. rewrite split_word_unfold. reflexivity. Qed.

Lemma split_word_binary v x : In x (split_word v) -> x = 0 \/ x = 1.
Proof.
  rewrite split_word_unfold. cbv zeta. intros H.
  repeat (destruct H as [<- | H];
          [ match goal with |- ?a mod 2 = 0 \/ _ =>
              pose proof (Z.mod_pos_bound a 2 ltac:(lia)); lia end | ]).
  destruct H.
Qed.

(* int16 <-> uint16: a word and any integer congruent to it modulo 2^16
   (in particular the signed and the unsigned reading of the same 16 bits)
   decode to the same row. *)
Lemma split_word_periodic v m : split_word (v + 65536 * m) = split_word v.
Proof. unfold split_word. now rewrite to_int16_periodic. Qed.

Lemma split_word_signed_unsigned v : split_word (v mod 65536) = split_word v.
Proof.
  rewrite (Z.div_mod v 65536) at 2 by lia.
  replace (65536 * (v / 65536) + v mod 65536) with (v mod 65536 + 65536 * (v / 65536)) by lia.
  now rewrite split_word_periodic.
Qed.
