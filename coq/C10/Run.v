(* C10 — flat-integer interface of the model for the correspondence check.
   First integer = operation:
   0  split_sync      [0; v...]                                   -> concatenated 16-column rows
   1  fronts 1-D      [1; step; rstep; fstep; mode; x...]         -> (mode 0) fronts ind, sign, rises, falls
                                                                     (mode 1) rises, falls with analog=True
                                                                     (mode 2/3) bool / uint8 container: ind, sign, rises, falls | -7 (TypeError)
   2  fronts 2-D      [2; axis; step; rstep; fstep; mode; nr; nc; data...]  (row-major data)
   4  read_sync       [4; typ; c0; c1; c2; c3; ntr; start; stop; step; one; thr; gain; usefloor;
                       thr_default; nrows; data...]
                      -> read_sync, read_sync_digital, read_sync_analog (volts * one), Reader.read(...)[1];
                         each: 0 (exception) | 1 :: rows   (analog: 2 = returns None)
   6  selector read   [6; typ; c0..c3; ntr; one; thr; gain; usefloor; thr_default; len; selector...; nrows; data...]
                      selector = 0 i | 1 hs start he stop ht step | 2 items...   -> read_sync(sel), read(sel)[1]
   5  TTL round trip  [5; ns; (init; nev; evs...) x 16]            -> words, then per line ind, sign
*)
From Coq Require Import ZArith List Bool.
From IBL.lib Require Import PyInt RunLib.
From IBL.C10 Require Import Model Select.
Import ListNotations.
Open Scope Z_scope.

Fixpoint chunks (nr : nat) (nc : nat) (data : list Z) : list (list Z) :=
  match nr with
  | O => []
  | S r => firstn nc data :: chunks r nc (skipn nc data)
  end.

Definition enc_triple (p : Z * Z * Z) : list Z := let '(a, b, c) := p in [a; b; c].
Definition enc_pair (p : Z * Z) : list Z := [fst p; snd p].

(* 16 x (init; nev; evs...) *)
Fixpoint dec_lines (n : nat) (l : list Z) : list (Z * list Z) :=
  match n with
  | O => []
  | S m => match l with
           | init :: rest => let '(evs, rest') := dec_zlist rest in (init, evs) :: dec_lines m rest'
           | [] => []
           end
  end.

(* l[::k] for k >= 1 *)
Fixpoint every_aux (fuel k i : nat) (l : list (list Z)) : list (list Z) :=
  match l with
  | [] => []
  | r :: t => match i with
              | O => r :: every_aux fuel k (k - 1) t
              | S j => every_aux fuel k j t
              end
  end.
Definition every (k : nat) (l : list (list Z)) : list (list Z) := every_aux 0 k 0 l.

Definition enc_rows (o : option (list (list Z))) : list Z :=
  match o with None => [0] | Some rows => 1 :: enc_list enc_zlist rows end.

Definition run (inp : list Z) : list Z :=
  match inp with
  | 0 :: vs => concat (split_sync vs)
  | 1 :: step :: rstep :: fstep :: mode :: x =>
      if mode =? 0 then
        let '(ind, sg) := fronts1 step x in
        enc_zlist ind ++ enc_zlist sg ++ enc_zlist (rises1 rstep false x) ++ enc_zlist (falls1 fstep false x)
      else if mode =? 1 then enc_zlist (rises1 rstep true x) ++ enc_zlist (falls1 fstep true x)
      else (* mode 2 = bool input, mode 3 = uint8 input *)
        let kind := mode - 1 in
        let '(ind, sg) := fronts1_c kind step x in
        enc_zlist ind ++ enc_zlist sg ++ enc_zlist (rises1_c kind rstep x)
        ++ match falls1_c kind fstep x with None => [-7] | Some l => enc_zlist l end
  | 2 :: axis :: step :: rstep :: fstep :: mode :: nr :: nc :: data =>
      let x := chunks (Z.to_nat nr) (Z.to_nat nc) data in
      if mode =? 0 then
        enc_list enc_triple (fronts2 axis step x) ++ enc_list enc_pair (rises2 axis rstep false x)
        ++ enc_list enc_pair (falls2 axis fstep false x)
      else enc_list enc_pair (rises2 axis rstep true x) ++ enc_list enc_pair (falls2 axis fstep true x)
  | 4 :: typ :: c0 :: c1 :: c2 :: c3 :: ntr :: start0 :: stop0 :: step :: one :: thr :: gain :: usefloor
      :: thr_default :: nrows :: data =>
      let raw0 := chunks (Z.to_nat nrows) (Z.to_nat ntr) data in
      (* a stepped read raw[start:stop:step] (step >= 1) is every step-th row of raw[start:stop]: the
         readers then see exactly those rows (everything downstream is per selected row / per column) *)
      let raw := if step =? 1 then raw0 else every (Z.to_nat step) (slice_rows start0 stop0 raw0) in
      let start := if step =? 1 then start0 else 0 in
      let stop := if step =? 1 then stop0 else Z.of_nat (length raw) in
      enc_rows (read_sync typ ntr c0 c1 c2 c3 start stop one thr gain (usefloor =? 1) raw)
      ++ enc_rows (read_sync_digital typ ntr c0 c1 c2 c3 start stop raw)
      ++ match read_sync_analog typ ntr c0 c1 c2 c3 start stop gain raw with
         | None => [0]
         | Some None => [2]
         | Some (Some m) => 1 :: enc_list enc_zlist m
         end
      ++ enc_rows (reader_read_sync typ ntr c0 c1 c2 c3 start stop one thr_default gain raw)
  | 6 :: typ :: c0 :: c1 :: c2 :: c3 :: ntr :: one :: thr :: gain :: usefloor :: thr_default :: rest =>
      let '(senc, rest') := dec_zlist rest in
      let sel := match senc with
                 | [0; i] => Some (IBL.C01.Model.SInt i)
                 | [1; hs; st; he; en; ht; sp] =>
                     Some (IBL.C01.Model.SSlice (if hs =? 1 then Some st else None) (if he =? 1 then Some en else None)
                                     (if ht =? 1 then Some sp else None))
                 | 2 :: l => Some (IBL.C01.Model.SList l)
                 | _ => None
                 end in
      match sel, rest' with
      | Some s, nrows :: data =>
          let raw := chunks (Z.to_nat nrows) (Z.to_nat ntr) data in
          enc_rows (read_sync_sel typ ntr c0 c1 c2 c3 s one thr gain (usefloor =? 1) raw)
          ++ enc_rows (reader_read_sync_sel typ ntr c0 c1 c2 c3 s one thr_default gain raw)
      | _, _ => [-997]
      end
  | 5 :: ns :: rest =>
      let lines := dec_lines 16 rest in
      let words := map encode_word (render (Z.to_nat ns) lines) in
      enc_zlist words ++
      flat_map (fun k => let '(ind, sg) := ttl_roundtrip (Z.to_nat ns) lines k in
                         enc_zlist ind ++ enc_zlist sg) (seq 0 16)
  | _ => [-999]
  end.

Definition mismatches := mismatches_of run.
