(* C10 x C11 — joint statement: the rows read_sync returns are the complete
   frames the FILE holds, whatever duration the meta file announces.
   Reader.open is property C11's model (Flocq binary64 for fileTimeSecs * fs);
   this file only composes its theorem C11_offline_exposes_floor with
   C10_sync_layout.  Theorems here inherit C11's standard-library axioms
   (classical reals, through Flocq). *)
From Coq Require Import ZArith List Bool Lia.
From IBL.C11 Require Model Proofs Props.
From IBL.C10 Require Import Model Bits Proofs.
Import ListNotations.
Open Scope Z_scope.

(* A flat int16 binary of nbytes bytes with ntr channels, any meta duration t
   that Reader.ns can evaluate (ns0 samples — fewer or more than the file
   holds): Reader.open exposes k = nbytes / (2 * ntr) frames; with `raw` those k
   frames, read_sync over the whole recording returns exactly k rows (one per
   complete frame in the file), row j being frame j decoded. *)
Theorem C10_rows_are_the_complete_frames :
  forall nbytes ntr t fs ns0 typ c0 c1 c2 c3 one thr gain use_floor raw,
  1 <= ntr -> 1 <= nbytes -> nbytes / (2 * ntr) <= 2 ^ 50 -> IBL.C11.Proofs.fs_ok fs ->
  IBL.C11.Model.ns_meta (Some t) fs = IBL.C11.Model.NsOk ns0 ->
  Z.of_nat (length raw) = nbytes / (2 * ntr) ->
  nsync_of typ c0 c1 c2 c3 = 1 ->
  (forall r, In r raw -> Z.of_nat (length r) = ntr) ->
  (forall i, In i (analog_indices typ c0 c1 c2 c3) -> 0 <= i < ntr) ->
  (use_floor = false \/ raw <> [] \/ analog_indices typ c0 c1 c2 c3 = []) ->
  exists fts' rw rows,
    IBL.C11.Model.open_bin false 2 nbytes ntr (Some t) fs =
      IBL.C11.Model.Opened (nbytes / (2 * ntr)) ntr fts' rw /\
    read_sync typ ntr c0 c1 c2 c3 0 (Z.of_nat (length raw)) one thr gain use_floor raw = Some rows /\
    Z.of_nat (length rows) = nbytes / (2 * ntr) /\
    forall j, (j < length raw)%nat ->
      firstn 16 (nth j rows []) = split_word (nth (Z.to_nat (ntr - 1)) (nth j raw []) 0).
Proof.
  intros nbytes ntr t fs ns0 typ c0 c1 c2 c3 one thr gain use_floor raw
         Hntr Hnb Hk Hfs Hns0 Hlen Hns Hrect Hidx Hfl.
  pose proof (IBL.C11.Props.C11_offline_exposes_floor 2 nbytes ntr t fs ns0 Hntr ltac:(lia) Hnb Hk Hfs Hns0) as Hopen.
  cbv zeta in Hopen.
  eexists. eexists. eexists. split; [exact Hopen|].
  assert (Hfl' : use_floor = false \/ slice_rows 0 (Z.of_nat (length raw)) raw <> [] \/
                 analog_indices typ c0 c1 c2 c3 = []) by (rewrite slice_rows_all; exact Hfl).
  split; [apply (read_sync_layout typ ntr c0 c1 c2 c3 0 (Z.of_nat (length raw)) one thr gain use_floor raw
                   Hns Hntr Hrect Hidx Hfl')|].
  cbv zeta. rewrite slice_rows_all. split; [rewrite map_length; exact Hlen|].
  intros j Hj.
  match goal with |- firstn 16 (nth j (map ?F raw) []) = _ => set (F0 := F) end.
  rewrite (nth_indep _ [] (F0 [])) by (rewrite map_length; exact Hj).
  rewrite (map_nth F0). unfold F0.
  rewrite firstn_app. rewrite split_word_length. replace (16 - 16)%nat with 0%nat by lia.
  rewrite firstn_O, app_nil_r. apply firstn_all2. rewrite split_word_length. lia.
Qed.
Print Assumptions C10_rows_are_the_complete_frames.

(* ------------------------------------------------------------------ *)
(* C10 x C09: the analog sync lines use their own volts-per-bit          *)
(* ------------------------------------------------------------------ *)
From Coq Require Import String.
From IBL.C09 Require Model Props.

Lemma nth_block {A} (a b c e dflt : A) (n0 n1 n2 n3 i : nat) :
  (n0 + n1 <= i < n0 + n1 + n2)%nat ->
  nth i (repeat a n0 ++ repeat b n1 ++ repeat c n2 ++ repeat e n3) dflt = c.
Proof.
  intros Hi.
  rewrite app_nth2 by (rewrite repeat_length; lia). rewrite repeat_length.
  rewrite app_nth2 by (rewrite repeat_length; lia). rewrite repeat_length.
  rewrite app_nth1 by (rewrite repeat_length; lia).
  assert (Hin : In (nth (i - n0 - n1) (repeat c n2) dflt) (repeat c n2))
    by (apply nth_In; rewrite repeat_length; lia).
  now apply repeat_spec in Hin.
Qed.

(* Property C09's model of _conversion_sample2v_from_meta on a nidq meta
   (any niAiRangeMax, any amplifier gains niMNGain / niMAGain, channel counts
   m0 MN, m1 MA, m2 XA, m3 DW): the channels read_sync thresholds — C10's
   analog_indices, which are C09's analog sync traces — all carry the factor
   range / maxint / 1: neither amplifier gain enters.  Together with
   C10_analog_line_alone (whose `gain` is that one factor): analog line k of
   read_sync = [XA sample x (range/maxint) - floor >= threshold]. *)
Theorem C10_analog_lines_use_the_XA_gain :
  forall d rng mi gmn gma m0 m1 m2 m3,
  IBL.C09.Model.int2volt d = Some (rng, mi) ->
  IBL.C09.Model.lookup (IBL.C09.Model.lit "imroTbl"%string) d = None ->
  IBL.C09.Model.lookup (IBL.C09.Model.lit "niMNGain"%string) d = Some (IBL.C09.Model.VNum gmn) ->
  IBL.C09.Model.lookup (IBL.C09.Model.lit "niMAGain"%string) d = Some (IBL.C09.Model.VNum gma) ->
  IBL.C09.Model.lookup (IBL.C09.Model.lit "snsMnMaXaDw"%string) d =
    Some (IBL.C09.Model.VList [(m0, O); (m1, O); (m2, O); (m3, O)]) ->
  0 <= m0 -> 0 <= m1 -> 0 <= m2 -> 0 <= m3 ->
  IBL.C09.Model.get_type d = Some (Some IBL.C09.Model.SNidq) ->
  exists g,
    IBL.C09.Model.sample2volts d = Some (rng, mi, g) /\
    Z.of_nat (List.length g) = m0 + m1 + m2 + m3 /\
    IBL.C09.Model.analog_sync d = Some (m0 + m1, Z.max 0 m2) /\
    (forall i, In i (analog_indices 1 m0 m1 m2 m3) <-> m0 + m1 <= i < m0 + m1 + m2) /\
    (forall i, In i (analog_indices 1 m0 m1 m2 m3) ->
       nth (Z.to_nat i) g IBL.C09.Model.C1 = IBL.C09.Model.CG (1, O)) /\
    (* ascending on-disk order: analog line k of read_sync (column 16 + k, C10_analog_line_alone) is
       the k-th XA channel, file column m0 + m1 + k *)
    List.length (analog_indices 1 m0 m1 m2 m3) = Z.to_nat m2 /\
    (forall k, (k < Z.to_nat m2)%nat -> nth k (analog_indices 1 m0 m1 m2 m3) 0 = m0 + m1 + Z.of_nat k) /\
    Sorted.StronglySorted Z.lt (analog_indices 1 m0 m1 m2 m3).
Proof.
  intros d rng mi gmn gma m0 m1 m2 m3 Hi Ht Hmn Hma Hx H0 H1 H2 H3 Hty.
  destruct (IBL.C09.Props.C09_s2v_nidq d rng mi gmn gma (m0, O) (m1, O) (m2, O) (m3, O)
              Hi Ht Hmn Hma Hx) as [Hs Hl];
    try (unfold IBL.C09.Model.dec_trunc; cbn; rewrite Z.div_1_r; assumption).
  eexists. split.
  - apply (proj2 (IBL.C09.Props.C09_sample2volts_table d rng mi) _ Hs Hty).
  - assert (Hin : forall i, In i (analog_indices 1 m0 m1 m2 m3) <-> m0 + m1 <= i < m0 + m1 + m2).
    { intros i. rewrite analog_indices_spec. change (1 =? 1) with true. cbv iota.
      rewrite in_map_iff. split.
      - intros [k [<- Hk]]. apply in_seq in Hk. lia.
      - intros Hr. exists (Z.to_nat (i - m0 - m1)). split; [lia|]. apply in_seq. lia. }
    assert (E : forall m, IBL.C09.Model.dec_trunc (m, O) = m)
      by (intros m; unfold IBL.C09.Model.dec_trunc; cbn; apply Z.div_1_r).
    split; [rewrite Hl, !E; reflexivity|]. split.
    + apply (proj2 (IBL.C09.Props.C09_analog_sync_table d) m0 m1 m2 (m3, O) Hty Hx).
    + split; [exact Hin|]. split; [|exact (analog_indices_order m0 m1 m2 m3)].
      intros i Hi'. apply Hin in Hi'.
      unfold IBL.C09.Model.zrepeat.
      rewrite !E. apply nth_block. lia.
Qed.
Print Assumptions C10_analog_lines_use_the_XA_gain.

(* hypotheses satisfiable: C09's example nidq meta (range 5 V, niMNGain 200,
   niMAGain 2.5, 2 MN + 1 MA + 2 XA + 1 DW): the XA channels 3 and 4 carry CG 1,
   the MA channel next to them carries CG 2.5 *)
Example C10_example_hyp_xa_gain : exists d,
  IBL.C09.Model.read_meta IBL.C09.Props.nidq_file = Some d /\
  IBL.C09.Model.int2volt d = Some ((5, O), 32768) /\
  IBL.C09.Model.lookup (IBL.C09.Model.lit "imroTbl"%string) d = None /\
  IBL.C09.Model.lookup (IBL.C09.Model.lit "niMNGain"%string) d = Some (IBL.C09.Model.VNum (200, O)) /\
  IBL.C09.Model.lookup (IBL.C09.Model.lit "niMAGain"%string) d = Some (IBL.C09.Model.VNum (25, 1%nat)) /\
  IBL.C09.Model.lookup (IBL.C09.Model.lit "snsMnMaXaDw"%string) d =
    Some (IBL.C09.Model.VList [(2, O); (1, O); (2, O); (1, O)]) /\
  IBL.C09.Model.get_type d = Some (Some IBL.C09.Model.SNidq) /\
  analog_indices 1 2 1 2 1 = [3; 4] /\
  option_map (fun r => snd r) (IBL.C09.Model.sample2volts d) =
    Some [IBL.C09.Model.CG (200, O); IBL.C09.Model.CG (200, O); IBL.C09.Model.CG (25, 1%nat);
          IBL.C09.Model.CG (1, O); IBL.C09.Model.CG (1, O); IBL.C09.Model.C1].
Proof. eexists. split; [vm_compute; reflexivity|]. repeat split; vm_compute; reflexivity. Qed.

(* ------------------------------------------------------------------ *)
(* C10 x C01: one row per selected sample for every selector form       *)
(* ------------------------------------------------------------------ *)
From IBL.C10 Require Import Select.

(* Integer, slice (any step) or integer-list selector s accepted by NumPy on
   the sample axis (C01's np_index1 / sel_positions): read_sync(s) and
   read(s)[1] return one row per selected sample, in selector order, each the
   16 decoded lines of that sample followed by its thresholded analog lines
   (floors over the selected samples).  An integer selector keeps a (1, .) row.
   An empty selection gives zero rows, floor on or off.  Domain: one sync word, any
   number of analog channels, every selector form. *)
Theorem C10_rows_follow_the_selector :
  forall typ ntr c0 c1 c2 c3 s one thr gain use_floor raw d rows,
  nsync_of typ c0 c1 c2 c3 = 1 -> 1 <= ntr ->
  (forall r, In r raw -> Z.of_nat (List.length r) = ntr) ->
  (forall i, In i (analog_indices typ c0 c1 c2 c3) -> 0 <= i < ntr) ->
  IBL.C01.Model.np_index1 raw s = IBL.C01.Model.Ok (d, rows) ->
  let floors := floors_of use_floor (analog_volts typ c0 c1 c2 c3 gain rows)
                          (List.length (analog_indices typ c0 c1 c2 c3)) in
  read_sync_sel typ ntr c0 c1 c2 c3 s one thr gain use_floor raw =
  Some (map (fun r => split_word (nth (Z.to_nat (ntr - 1)) r 0)
                      ++ digitise_row (10 * one) (10 * thr) 10 floors
                           (map (fun v => v * gain) (analog_cols typ c0 c1 c2 c3 r)))
            rows).
Proof. exact read_sync_sel_layout. Qed.
Print Assumptions C10_rows_follow_the_selector.

(* No analog sync channel (every imec file, digital-only nidq): the rows
   returned for s are the same selector applied to the fully decoded
   recording — in particular read_sync(-1) is its last row. *)
Theorem C10_selector_commutes_with_decoding :
  forall typ ntr c0 c1 c2 c3 s one thr gain use_floor raw d rows full,
  nsync_of typ c0 c1 c2 c3 = 1 -> 1 <= ntr ->
  (forall r, In r raw -> Z.of_nat (List.length r) = ntr) ->
  analog_indices typ c0 c1 c2 c3 = [] ->
  IBL.C01.Model.np_index1 raw s = IBL.C01.Model.Ok (d, rows) ->
  read_sync typ ntr c0 c1 c2 c3 0 (Z.of_nat (List.length raw)) one thr gain use_floor raw = Some full ->
  exists sel_rows,
    read_sync_sel typ ntr c0 c1 c2 c3 s one thr gain use_floor raw = Some sel_rows /\
    IBL.C01.Model.np_index1 full s = IBL.C01.Model.Ok (d, sel_rows) /\ List.length sel_rows = List.length rows.
Proof. exact read_sync_sel_is_selection. Qed.
Print Assumptions C10_selector_commutes_with_decoding.

(* For ALL inputs (repairs ccd27fe, bb56ef1): read_sync(i) = read_sync([i]) — same
   outcome, error included —, and any two selectors that pick the same samples
   (e.g. the one-element slice) return the same rows; floor on or off, any
   number of analog channels.  read_sync(-1) is the last sample, never the
   empty slice(-1, 0). *)
Theorem C10_integer_selector_with_analog :
  (forall typ ntr c0 c1 c2 c3 i one thr gain use_floor raw,
     read_sync_sel typ ntr c0 c1 c2 c3 (IBL.C01.Model.SInt i) one thr gain use_floor raw =
     read_sync_sel typ ntr c0 c1 c2 c3 (IBL.C01.Model.SList [i]) one thr gain use_floor raw) /\
  (forall typ ntr c0 c1 c2 c3 s1 s2 one thr gain use_floor raw d1 d2 rows,
     IBL.C01.Model.np_index1 raw s1 = IBL.C01.Model.Ok (d1, rows) ->
     IBL.C01.Model.np_index1 raw s2 = IBL.C01.Model.Ok (d2, rows) ->
     read_sync_sel typ ntr c0 c1 c2 c3 s1 one thr gain use_floor raw =
     read_sync_sel typ ntr c0 c1 c2 c3 s2 one thr gain use_floor raw).
Proof. split; [exact read_sync_sel_int_list|exact read_sync_sel_same_rows]. Qed.
Print Assumptions C10_integer_selector_with_analog.

Example C10_example_integer_selector :
  let raw := [[100; 27000; 1]; [20000; 27000; 2]; [10; 27000; -1]] in
  let rs := fun s fl => read_sync_sel 1 3 0 0 2 1 s 1024 1200 1 fl raw in
  rs (IBL.C01.Model.SInt 1) false = Some [split_word 2 ++ [1; 1]] /\
  rs (IBL.C01.Model.SInt (-1)) true = Some [split_word (-1) ++ [0; 0]] /\
  rs (IBL.C01.Model.SSlice (Some 2) (Some 3) None) true = Some [split_word (-1) ++ [0; 0]] /\
  rs (IBL.C01.Model.SSlice (Some (-1)) (Some 0) None) true = Some [] /\
  rs (IBL.C01.Model.SInt 3) true = None.
Proof. vm_compute. repeat split. Qed.
