(* C10 x C11 — joint statement: the rows read_sync returns are the complete
   frames the FILE holds, whatever duration the meta file announces.
   Reader.open is property C11's model (Flocq binary64 for fileTimeSecs * fs);
   this file only composes its theorem C11_offline_exposes_floor with
   C10_sync_layout.  Theorems here inherit C11's standard-library axioms
   (classical reals, through Flocq). *)
From Coq Require Import ZArith List Bool Lia.
From IBL.C11 Require Model Proofs Props.
From IBL.C10 Require Import Model Bits Proofs.
Import ListNotations.
Open Scope Z_scope.

(* A flat int16 binary of nbytes bytes with ntr channels, any meta duration t
   that Reader.ns can evaluate (ns0 samples — fewer or more than the file
   holds): Reader.open exposes k = nbytes / (2 * ntr) frames; with `raw` those k
   frames, read_sync over the whole recording returns exactly k rows (one per
   complete frame in the file), row j being frame j decoded. *)
Theorem C10_rows_are_the_complete_frames :
  forall nbytes ntr t fs ns0 typ c0 c1 c2 c3 one thr gain use_floor raw,
  1 <= ntr -> 1 <= nbytes -> nbytes / (2 * ntr) <= 2 ^ 50 -> IBL.C11.Proofs.fs_ok fs ->
  IBL.C11.Model.ns_meta (Some t) fs = IBL.C11.Model.NsOk ns0 ->
  Z.of_nat (length raw) = nbytes / (2 * ntr) ->
  nsync_of typ c0 c1 c2 c3 = 1 ->
  (forall r, In r raw -> Z.of_nat (length r) = ntr) ->
  (forall i, In i (analog_indices typ c0 c1 c2 c3) -> 0 <= i < ntr) ->
  (use_floor = false \/ raw <> [] \/ analog_indices typ c0 c1 c2 c3 = []) ->
  exists fts' rw rows,
    IBL.C11.Model.open_bin false 2 nbytes ntr (Some t) fs =
      IBL.C11.Model.Opened (nbytes / (2 * ntr)) ntr fts' rw /\
    read_sync typ ntr c0 c1 c2 c3 0 (Z.of_nat (length raw)) one thr gain use_floor raw = Some rows /\
    Z.of_nat (length rows) = nbytes / (2 * ntr) /\
    forall j, (j < length raw)%nat ->
      firstn 16 (nth j rows []) = split_word (nth (Z.to_nat (ntr - 1)) (nth j raw []) 0).
Proof.
  intros nbytes ntr t fs ns0 typ c0 c1 c2 c3 one thr gain use_floor raw
         Hntr Hnb Hk Hfs Hns0 Hlen Hns Hrect Hidx Hfl.
  pose proof (IBL.C11.Props.C11_offline_exposes_floor 2 nbytes ntr t fs ns0 Hntr ltac:(lia) Hnb Hk Hfs Hns0) as Hopen.
  cbv zeta in Hopen.
  eexists. eexists. eexists. split; [exact Hopen|].
  assert (Hfl' : use_floor = false \/ slice_rows 0 (Z.of_nat (length raw)) raw <> [] \/
                 analog_indices typ c0 c1 c2 c3 = []) by (rewrite slice_rows_all; exact Hfl).
  split; [apply (read_sync_layout typ ntr c0 c1 c2 c3 0 (Z.of_nat (length raw)) one thr gain use_floor raw
                   Hns Hntr Hrect Hidx Hfl')|].
  cbv zeta. rewrite slice_rows_all. split; [rewrite map_length; exact Hlen|].
  intros j Hj.
  match goal with |- firstn 16 (nth j (map ?F raw) []) = _ => set (F0 := F) end.
  rewrite (nth_indep _ [] (F0 [])) by (rewrite map_length; exact Hj).
  rewrite (map_nth F0). unfold F0.
  rewrite firstn_app. rewrite split_word_length. replace (16 - 16)%nat with 0%nat by lia.
  rewrite firstn_O, app_nil_r. apply firstn_all2. rewrite split_word_length. lia.
Qed.
Print Assumptions C10_rows_are_the_complete_frames.
