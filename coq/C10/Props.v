(* C10 — property theorems.  Only statements closed by `exact <lemma>` and the
   Print Assumptions the check collects. *)
From Coq Require Import ZArith List Bool Lia Sorted.
From IBL.lib Require Import PyInt.
From IBL.C10 Require Import Model Bits Proofs.
Import ListNotations.
Open Scope Z_scope.

(* ---- split_sync ---------------------------------------------------- *)

(* Exhaustive: for each of the 65536 sync words w and each line k, column k of
   the decoded row is bit k of w (kernel evaluation of all words, lifted with
   forallb_forall). *)
Theorem C10_split_sync_bits_exhaustive : forall w k, 0 <= w < 65536 -> 0 <= k < 16 ->
  nth (Z.to_nat k) (split_word w) 0 = Z.b2z (Z.testbit w k).
Proof. exact split_word_bits_exhaustive. Qed.
Print Assumptions C10_split_sync_bits_exhaustive.

(* Structural: the same for EVERY integer (np.int16() keeps the low 16 bits,
   Z.testbit is two's complement on negative numbers); every row has exactly
   16 entries, each 0 or 1. *)
Theorem C10_split_sync_bits : forall v k, 0 <= k < 16 ->
  nth (Z.to_nat k) (split_word v) 0 = Z.b2z (Z.testbit v k).
Proof. exact split_word_bits. Qed.
Print Assumptions C10_split_sync_bits.
