(* C10 — property theorems.  Only statements closed by `exact <lemma>` (or a 1–3
   line wrapper) and the Print Assumptions the check collects.
   Notation from Proofs.v:  at_ x i = nth (Z.to_nat i) x 0 ;
   front_pairs step x = combine (fst (fronts1 step x)) (snd (fronts1 step x)) ;
   at2 x r c = x[r][c] ; binary l = every entry is 0 or 1. *)
From Coq Require Import ZArith List Bool Lia Sorted.
From IBL.lib Require Import PyInt.
From IBL.C10 Require Import Model Bits Sweep Proofs.
Import ListNotations.
Open Scope Z_scope.

(* ---- split_sync ---------------------------------------------------- *)

(* Exhaustive: for each of the 65536 sync words w and each line k, column k of
   the decoded row is bit k of w (kernel evaluation of all words, lifted with
   forallb_forall). *)
Theorem C10_split_sync_bits_exhaustive : forall w k, 0 <= w < 65536 -> 0 <= k < 16 ->
  nth (Z.to_nat k) (split_word w) 0 = Z.b2z (Z.testbit w k).
Proof. exact split_word_bits_exhaustive. Qed.
Print Assumptions C10_split_sync_bits_exhaustive.

(* Structural: the same for EVERY integer (np.int16() keeps the low 16 bits,
   Z.testbit is two's complement on negative numbers). *)
Theorem C10_split_sync_bits : forall v k, 0 <= k < 16 ->
  nth (Z.to_nat k) (split_word v) 0 = Z.b2z (Z.testbit v k).
Proof. exact split_word_bits. Qed.
Print Assumptions C10_split_sync_bits.

(* one row per word; every row has exactly 16 entries, each 0 or 1 *)
Theorem C10_split_sync_shape : forall tr,
  length (split_sync tr) = length tr /\
  forall row, In row (split_sync tr) -> length row = 16%nat /\ binary row.
Proof. exact split_sync_shape. Qed.
Print Assumptions C10_split_sync_shape.

(* int16 <-> uint16: the signed and the unsigned reading of the same 16 bits
   (and any integer congruent modulo 2^16) decode to the same row; for a signed
   int16 value the row holds the bits of its two's complement pattern. *)
Theorem C10_int16_uint16_view :
  (forall v m, split_word (v + 65536 * m) = split_word v) /\
  (forall v, split_word (v mod 65536) = split_word v) /\
  (forall s k, -32768 <= s < 32768 -> 0 <= k < 16 ->
     nth (Z.to_nat k) (split_word s) 0 = Z.b2z (Z.testbit (s mod 65536) k) /\
     Z.testbit (s mod 65536) k = Z.testbit s k).
Proof.
  split; [exact split_word_periodic|]. split; [exact split_word_signed_unsigned|].
  exact split_word_bits_exhaustive_signed.
Qed.
Print Assumptions C10_int16_uint16_view.

(* ---- fronts / rises / falls on one trace ---------------------------- *)

(* fronts(x, step), any list, any step: the indices are exactly the positions
   i >= 1 with |x[i] - x[i-1]| >= step, strictly ascending; the j-th polarity is
   x[i_j] - x[i_j - 1]. *)
Theorem C10_fronts_spec : forall step x,
  (forall i, In i (fst (fronts1 step x)) <->
     1 <= i < Z.of_nat (length x) /\ step <= Z.abs (at_ x i - at_ x (i - 1))) /\
  StronglySorted Z.lt (fst (fronts1 step x)) /\
  length (snd (fronts1 step x)) = length (fst (fronts1 step x)) /\
  (forall j, (j < length (fst (fronts1 step x)))%nat ->
     let i := nth j (fst (fronts1 step x)) 0 in
     nth j (snd (fronts1 step x)) 0 = at_ x i - at_ x (i - 1)).
Proof.
  intros step x. split; [intros i; apply in_fronts1_ind|]. split; [apply fronts1_sorted|].
  split; [apply fronts1_lengths|apply fronts1_sign].
Qed.
Print Assumptions C10_fronts_spec.

(* 0/1 trains, default step 1: a front at every change and only there;
   polarity +1 exactly on 0 -> 1, -1 exactly on 1 -> 0. *)
Theorem C10_fronts_ttl : forall x, binary x ->
  (forall i, In i (fst (fronts1 1 x)) <-> 1 <= i < Z.of_nat (length x) /\ at_ x i <> at_ x (i - 1)) /\
  (forall i s, In (i, s) (front_pairs 1 x) ->
     (s = 1 /\ at_ x (i - 1) = 0 /\ at_ x i = 1) \/ (s = -1 /\ at_ x (i - 1) = 1 /\ at_ x i = 0)).
Proof. exact fronts_ttl. Qed.
Print Assumptions C10_fronts_ttl.

(* rises(x, step) / falls(x, step) (falls = rises(-x, -step)), plain and analog=True *)
Theorem C10_rises_falls_spec : forall s x i,
  (In i (rises1 s false x) <-> 1 <= i < Z.of_nat (length x) /\ s <= at_ x i - at_ x (i - 1)) /\
  (In i (falls1 s false x) <-> 1 <= i < Z.of_nat (length x) /\ at_ x i - at_ x (i - 1) <= s) /\
  (In i (rises1 s true x) <-> 1 <= i < Z.of_nat (length x) /\ s < at_ x i /\ ~ s < at_ x (i - 1)) /\
  (In i (falls1 s true x) <-> 1 <= i < Z.of_nat (length x) /\ at_ x i < s /\ ~ at_ x (i - 1) < s) /\
  (forall a, StronglySorted Z.lt (rises1 s a x) /\ StronglySorted Z.lt (falls1 s a x)).
Proof.
  intros s x i. split; [apply in_rises1|]. split; [apply in_falls1|]. split; [apply in_rises1_analog|].
  split; [apply in_falls1_analog|]. intros a. split; [apply rises1_sorted|apply falls1_sorted].
Qed.
Print Assumptions C10_rises_falls_spec.

(* rises and falls are the two halves of fronts: for a positive step s,
   rises(x, s) = the fronts with positive polarity, falls(x, -s) = those with
   negative polarity, as lists. *)
Theorem C10_rises_falls_halves : forall s x, 0 < s ->
  rises1 s false x = map fst (filter (fun p => 0 <? snd p) (front_pairs s x)) /\
  falls1 (- s) false x = map fst (filter (fun p => snd p <? 0) (front_pairs s x)).
Proof. intros s x Hs. split; [now apply rises_is_positive_half|now apply falls_is_negative_half]. Qed.
Print Assumptions C10_rises_falls_halves.

(* A 0/1 train held in a bool or uint8 array (kind 1 / 2): the indices are
   still exactly the changes of the line (fronts and rises alike) ... *)
Theorem C10_unsigned_container_indices : forall kind x, kind = 1 \/ kind = 2 -> binary x ->
  fst (fronts1_c kind 1 x) = fst (fronts1 1 x) /\ rises1_c kind 1 x = fst (fronts1 1 x).
Proof. exact fronts_c_indices. Qed.
Print Assumptions C10_unsigned_container_indices.

(* ... but the polarity is lost: on the train 1,0 (one fall at sample 1) the
   polarity reported is True (bool) / 255 (uint8) instead of -1, rises reports
   the fall as a rise, and falls raises (bool) or reports every change (uint8:
   on 0,1 — one rise — falls returns sample 1).  The faithful model violates
   "with the right polarity" here; confirmed on the real code (F-C10-e). *)
Theorem C10_unsigned_container_polarity_refuted :
  fronts1 1 [1; 0] = ([1], [-1]) /\ rises1 1 false [1; 0] = [] /\ falls1 (-1) false [1; 0] = [1] /\
  fronts1_c 1 1 [1; 0] = ([1], [1]) /\ rises1_c 1 1 [1; 0] = [1] /\ falls1_c 1 (-1) [1; 0] = None /\
  fronts1_c 2 1 [1; 0] = ([1], [255]) /\ rises1_c 2 1 [1; 0] = [1] /\
  falls1_c 2 (-1) [0; 1] = Some [1] /\ falls1 (-1) false [0; 1] = [].
Proof. vm_compute. repeat split. Qed.
Print Assumptions C10_unsigned_container_polarity_refuted.

(* ---- 2-D ------------------------------------------------------------ *)

(* axis 1 (= the default axis -1): the result is, row after row, the fronts of
   that row tagged with the row number — as a list, so order included. *)
Theorem C10_fronts_2d_rows : forall step x, fronts2 1 step x = per_row_fronts 0 step x.
Proof. exact fronts2_axis1. Qed.
Print Assumptions C10_fronts_2d_rows.

(* axis 0, rectangular input: (r, c, s) is returned iff r is a front of column c
   with polarity s; spelled out on the entries as well. *)
Theorem C10_fronts_2d_columns : forall step nc x r c s,
  Forall (fun row => length row = nc) x ->
  (In (r, c, s) (fronts2 0 step x) <->
     0 <= c < Z.of_nat nc /\ In (r, s) (front_pairs step (column (Z.to_nat c) x))) /\
  (In (r, c, s) (fronts2 0 step x) <->
     1 <= r < Z.of_nat (length x) /\ 0 <= c < Z.of_nat nc /\
     s = at2 x r c - at2 x (r - 1) c /\ step <= Z.abs s).
Proof.
  intros step nc x r c s H. split; [now apply fronts2_axis0_per_column|now apply in_fronts2_axis0].
Qed.
Print Assumptions C10_fronts_2d_columns.

(* the 2-D output is in np.where's row-major order: strictly increasing in
   (row, column), for either axis (no duplicates either) *)
Theorem C10_fronts_2d_order : forall axis step x, StronglySorted lex_lt (fronts2 axis step x).
Proof. exact fronts2_sorted. Qed.
Print Assumptions C10_fronts_2d_order.

(* rises / falls on 2-D input (plain and analog=True): along axis 1 they are,
   row after row, the rises / falls of that row (list equality); along axis 0
   (rectangular input) (r, c) is returned iff r is a rise / fall of column c. *)
Theorem C10_rises_falls_2d : forall s a x,
  rises2 1 s a x = per_row_idx 0 (rises1 s a) x /\
  falls2 1 s a x = per_row_idx 0 (falls1 s a) x /\
  forall nc r c, Forall (fun row => length row = nc) x ->
    (In (r, c) (rises2 0 s a x) <->
       0 <= c < Z.of_nat nc /\ In r (rises1 s a (column (Z.to_nat c) x))) /\
    (In (r, c) (falls2 0 s a x) <->
       0 <= c < Z.of_nat nc /\ In r (falls1 s a (column (Z.to_nat c) x))).
Proof.
  intros s a x. split; [apply rises2_axis1|]. split; [apply falls2_axis1|].
  intros nc r c H. split; [now apply rises2_axis0|now apply falls2_axis0].
Qed.
Print Assumptions C10_rises_falls_2d.

(* ---- end to end ------------------------------------------------------ *)

(* decoding the word that encodes 16 line levels returns the levels; the word
   fits the int16 sync channel *)
Theorem C10_decode_encode : forall levels, length levels = 16%nat -> binary levels ->
  split_word (encode_word levels) = levels /\ -32768 <= encode_word levels < 32768.
Proof. intros l Hl Hb. split; [now apply decode_encode|apply encode_word_int16]. Qed.
Print Assumptions C10_decode_encode.

(* Any event trains on the 16 lines (line k: initial level `init`, strictly
   increasing toggle times `evs` in [1, ns); lines with evs = [] are the lines
   outside the chosen subset), written as int16 words, decoded with split_sync
   and front-detected on line k: the indices are exactly evs, and the j-th
   polarity is +1 when the line was low before the event, -1 when it was high
   (the level after the event being the opposite). *)
Theorem C10_ttl_end_to_end : forall ns lines k init evs,
  length lines = 16%nat -> (k < 16)%nat -> nth k lines (0, []) = (init, evs) ->
  StronglySorted Z.lt evs -> (forall e, In e evs -> 1 <= e < Z.of_nat ns) ->
  fst (ttl_roundtrip ns lines k) = evs /\
  length (snd (ttl_roundtrip ns lines k)) = length evs /\
  forall j, (j < length evs)%nat ->
    let e := nth j evs 0 in
    nth j (snd (ttl_roundtrip ns lines k)) 0 = 1 - 2 * level init evs (e - 1) /\
    level init evs e = 1 - level init evs (e - 1).
Proof. exact ttl_end_to_end. Qed.
Print Assumptions C10_ttl_end_to_end.

(* polarity in closed form: the j-th event of a line that starts at level
   `init` is a rise (+1) when init + j is even and a fall (-1) otherwise *)
Theorem C10_ttl_polarity_alternates : forall ns lines k init evs,
  length lines = 16%nat -> (k < 16)%nat -> nth k lines (0, []) = (init, evs) ->
  StronglySorted Z.lt evs -> (forall e, In e evs -> 1 <= e < Z.of_nat ns) ->
  forall j, (j < length evs)%nat ->
    nth j (snd (ttl_roundtrip ns lines k)) 0 = 1 - 2 * ((init + Z.of_nat j) mod 2).
Proof. exact ttl_polarity_alternates. Qed.
Print Assumptions C10_ttl_polarity_alternates.

(* The whole path through the reader: a raw int16 matrix (any number of
   channels, imec or nidq with analog sync channels, arbitrary content) whose
   LAST column holds the words encoding the event trains; read_sync over the
   whole file; fronts on column k of what it returns: exactly the events of
   line k, with alternating polarity starting from the initial level. *)
Theorem C10_ttl_through_reader :
  forall typ ntr c0 c1 c2 c3 one thr gain use_floor raw lines k init evs,
  nsync_of typ c0 c1 c2 c3 = 1 -> 1 <= ntr ->
  (forall r, In r raw -> Z.of_nat (length r) = ntr) ->
  (forall i, In i (analog_indices typ c0 c1 c2 c3) -> 0 <= i < ntr) ->
  (use_floor = false \/ raw <> [] \/ analog_indices typ c0 c1 c2 c3 = []) ->
  map (fun r => nth (Z.to_nat (ntr - 1)) r 0) raw = map encode_word (render (length raw) lines) ->
  length lines = 16%nat -> (k < 16)%nat -> nth k lines (0, []) = (init, evs) ->
  StronglySorted Z.lt evs -> (forall e, In e evs -> 1 <= e < Z.of_nat (length raw)) ->
  exists rows,
    read_sync typ ntr c0 c1 c2 c3 0 (Z.of_nat (length raw)) one thr gain use_floor raw = Some rows /\
    length rows = length raw /\
    fst (fronts1 1 (column k rows)) = evs /\
    forall j, (j < length evs)%nat ->
      nth j (snd (fronts1 1 (column k rows))) 0 = 1 - 2 * ((init + Z.of_nat j) mod 2).
Proof. exact ttl_through_reader. Qed.
Print Assumptions C10_ttl_through_reader.

(* ---- read_sync ------------------------------------------------------- *)

(* One sync word per sample (every SpikeGLX imec file; nidq with one digital
   word), rectangular raw data: read_sync returns one row per selected sample,
   in order; each row is the 16 decoded lines of that sample's word (last
   column) followed by the thresholded analog sync channels; the floors are
   the model's own np.percentile(analog, 10, axis=0) of the selected samples
   (units: 1/(10*one) volt, see Model.v). *)
Theorem C10_sync_layout : forall typ ntr c0 c1 c2 c3 start stop one thr gain use_floor raw,
  nsync_of typ c0 c1 c2 c3 = 1 -> 1 <= ntr ->
  (forall r, In r raw -> Z.of_nat (length r) = ntr) ->
  (forall i, In i (analog_indices typ c0 c1 c2 c3) -> 0 <= i < ntr) ->
  let sel := slice_rows start stop raw in
  let floors := floors_of use_floor (analog_volts typ c0 c1 c2 c3 gain sel)
                          (length (analog_indices typ c0 c1 c2 c3)) in
  read_sync typ ntr c0 c1 c2 c3 start stop one thr gain use_floor raw =
    Some (map (fun r => split_word (nth (Z.to_nat (ntr - 1)) r 0)
                        ++ digitise_row (10 * one) (10 * thr) 10 floors
                             (map (fun v => v * gain) (analog_cols typ c0 c1 c2 c3 r)))
              sel) /\
  length sel = Z.to_nat (snd (slice_first_count start stop (Z.of_nat (length raw)))) /\
  (forall j, (j < length sel)%nat ->
     nth j sel [] =
     nth (Z.to_nat (fst (slice_first_count start stop (Z.of_nat (length raw)))) + j) raw []) /\
  analog_indices typ c0 c1 c2 c3 =
    (if typ =? 1 then map (fun i => c0 + c1 + Z.of_nat i) (seq 0 (Z.to_nat c2)) else []).
Proof.
  intros. split; [now apply read_sync_layout_total|]. split; [apply slice_rows_length|].
  split; [intros j Hj; now apply slice_rows_nth|apply analog_indices_spec].
Qed.
Print Assumptions C10_sync_layout.

(* read_sync is its two halves glued row by row: the rows of read_sync_digital
   followed by the thresholded rows of read_sync_analog (which returns None
   exactly when the recording has no analog sync channel). *)
Theorem C10_read_sync_decomposition :
  forall typ ntr c0 c1 c2 c3 start stop one thr gain use_floor raw,
  nsync_of typ c0 c1 c2 c3 = 1 -> 1 <= ntr ->
  (forall r, In r raw -> Z.of_nat (length r) = ntr) ->
  (forall i, In i (analog_indices typ c0 c1 c2 c3) -> 0 <= i < ntr) ->
  (use_floor = false \/ slice_rows start stop raw <> [] \/ analog_indices typ c0 c1 c2 c3 = []) ->
  exists D A,
    read_sync_digital typ ntr c0 c1 c2 c3 start stop raw = Some D /\
    read_sync_analog typ ntr c0 c1 c2 c3 start stop gain raw =
      Some (match analog_indices typ c0 c1 c2 c3 with [] => None | _ => Some A end) /\
    length D = length (slice_rows start stop raw) /\ length A = length D /\
    read_sync typ ntr c0 c1 c2 c3 start stop one thr gain use_floor raw =
      Some (map (fun da => fst da ++
                   digitise_row (10 * one) (10 * thr) 10
                     (floors_of use_floor A (length (analog_indices typ c0 c1 c2 c3))) (snd da))
                (combine D A)).
Proof. exact read_sync_decomposition. Qed.
Print Assumptions C10_read_sync_decomposition.

(* Reader.read(nsel, csel, sync=True)[1] is read_sync(nsel) with the default
   threshold and the floor on (the model function mirrors `return darray,
   self.read_sync(nsel)`; kept as a theorem so that a model change that breaks
   the identity breaks the build; the real code is tied to it by the
   correspondence, which observes read(...)[1] separately). *)
Theorem C10_reader_read_sync : forall typ ntr c0 c1 c2 c3 start stop one thr_default gain raw,
  reader_read_sync typ ntr c0 c1 c2 c3 start stop one thr_default gain raw =
  read_sync typ ntr c0 c1 c2 c3 start stop one thr_default gain true raw.
Proof. reflexivity. Qed.
Print Assumptions C10_reader_read_sync.

(* The floor: np.percentile(column, 10) (times 10, to stay in Z) is the linear
   interpolation  s[lo] + (s[hi]-s[lo]) * g/10  between two consecutive order
   statistics of the column (s = the column sorted, (n-1) = 10*lo + g,
   hi = min(lo+1, n-1)); it lies between them, and is exactly s[lo] when g = 0
   or the two coincide. *)
Theorem C10_percentile_floor : forall col, col <> [] ->
  let s := sort col in let n := Z.of_nat (length col) in
  let a := nth (Z.to_nat (pct_lo n)) s 0 in let b := nth (Z.to_nat (pct_hi n)) s 0 in
  (Permutation.Permutation s col /\ StronglySorted Z.le s /\
   pct10x col = 10 * a + (b - a) * pct_g n /\
   a <= b /\ 10 * a <= pct10x col <= 10 * b /\
   (pct_g n = 0 \/ a = b -> pct10x col = 10 * a)) /\
  (0 <= pct_lo n /\ pct_lo n <= pct_hi n /\ pct_hi n <= n - 1 /\ pct_hi n <= pct_lo n + 1 /\
   0 <= pct_g n < 10 /\ 10 * pct_lo n + pct_g n = n - 1).
Proof.
  intros col Hne. split; [now apply pct10x_spec|]. apply pct_indices.
  destruct col; [congruence|cbn [length]; lia].
Qed.
Print Assumptions C10_percentile_floor.

(* Each analog line depends on its own channel alone: entry 16+k of row j is
   the thresholded value of channel ch = analog_indices[k] at sample j, the
   floor being the 10th percentile of THAT channel over the selected samples.
   No other column of the raw data appears in the formula. *)
Theorem C10_analog_line_alone :
  forall typ ntr c0 c1 c2 c3 start stop one thr gain use_floor raw rows k j,
  nsync_of typ c0 c1 c2 c3 = 1 -> 1 <= ntr ->
  (forall r, In r raw -> Z.of_nat (length r) = ntr) ->
  (forall i, In i (analog_indices typ c0 c1 c2 c3) -> 0 <= i < ntr) ->
  read_sync typ ntr c0 c1 c2 c3 start stop one thr gain use_floor raw = Some rows ->
  let sel := slice_rows start stop raw in
  let ch := Z.to_nat (nth k (analog_indices typ c0 c1 c2 c3) 0) in
  (k < length (analog_indices typ c0 c1 c2 c3))%nat -> (j < length sel)%nat ->
  nth (16 + k) (nth j rows []) 0 =
  digitise (10 * one) (10 * thr)
    (if use_floor then pct10x (map (fun r => nth ch r 0 * gain) sel) else 0)
    (nth ch (nth j sel []) 0 * gain * 10).
Proof. exact analog_line_alone. Qed.
Print Assumptions C10_analog_line_alone.

(* the analog part: entry k is the thresholded value of analog channel k; for
   a positive threshold it is 1 iff (sample*gain - floor) >= threshold, else 0;
   always 0 or 1; for a threshold <= 0 it is constantly 1 (the zeros written
   by the first assignment pass the second test). *)
Theorem C10_analog_threshold : forall one thr gain floors vals k fl v,
  0 < one ->
  ((k < length vals)%nat ->
     nth k (digitise_row one thr gain floors vals) 0 =
     digitise one thr (floor_at floors k) (nth k vals 0 * gain)) /\
  length (digitise_row one thr gain floors vals) = length vals /\
  (0 < thr -> digitise one thr fl v = if thr <=? v - fl then 1 else 0) /\
  (thr <= 0 -> digitise one thr fl v = 1) /\
  (digitise one thr fl v = 0 \/ digitise one thr fl v = 1).
Proof.
  intros one thr gain floors vals k fl v Ho.
  split; [apply digitise_row_nth|]. split; [apply digitise_row_length|].
  split; [now apply digitise_spec|]. split; [now apply digitise_nonpos_thr|now apply digitise_binary].
Qed.
Print Assumptions C10_analog_threshold.

(* Totality in the one-word domain: read_sync always returns, one row per
   selected sample; an empty selection gives zero rows, floor on or off
   (repair 5bea0f5; before it the floor raised on an empty analog block). *)
Theorem C10_read_sync_total :
  forall typ ntr c0 c1 c2 c3 start stop one thr gain use_floor raw,
  nsync_of typ c0 c1 c2 c3 = 1 -> 1 <= ntr ->
  (forall r, In r raw -> Z.of_nat (length r) = ntr) ->
  (forall i, In i (analog_indices typ c0 c1 c2 c3) -> 0 <= i < ntr) ->
  exists rows, read_sync typ ntr c0 c1 c2 c3 start stop one thr gain use_floor raw = Some rows /\
    length rows = length (slice_rows start stop raw) /\
    (slice_rows start stop raw = [] -> rows = []).
Proof. exact read_sync_total. Qed.
Print Assumptions C10_read_sync_total.

(* The floor is a function of the multiset of the column's samples (their
   order in time does not matter), and a constant offset added to the channel
   moves the floor by exactly that offset (times 10, the model's scale): the
   DC-offset removal read_sync's docstring promises is exact. *)
Theorem C10_floor_multiset_and_offset :
  (forall l l', Permutation.Permutation l l' -> pct10x l = pct10x l') /\
  (forall d col, col <> [] -> pct10x (map (fun v => v + d) col) = pct10x col + 10 * d).
Proof. split; [exact pct10x_perm_invariant|exact pct10x_shift]. Qed.
Print Assumptions C10_floor_multiset_and_offset.

(* an empty sample selection on a recording with analog sync channels: zero
   rows, floor on or off (was C10_empty_selection_refuted before repair 5bea0f5) *)
Theorem C10_empty_selection :
  exists raw, read_sync 1 2 0 0 1 1 1 1 1024 1200 1 true raw = Some [] /\ length raw = 2%nat
              /\ read_sync 1 2 0 0 1 1 1 1 1024 1200 1 false raw = Some [].
Proof. exists [[5; 1]; [6; 3]]. vm_compute. auto. Qed.
Print Assumptions C10_empty_selection.

(* Outside the property's domain (the property speaks of THE 16-bit sync word
   of a sample): what the faithful model — and the real code — do for other
   nidq layouts.  Two digital words: exception for >= 2 selected samples, one
   row per WORD for a single selected sample; analog channels without a
   digital word: exception.  Recorded as observations, not as failures. *)
Theorem C10_other_layouts_observed :
  (exists raw, read_sync 1 3 0 0 1 2 0 2 1024 1200 1 false raw = None /\ length raw = 2%nat
               /\ exists rows, read_sync_digital 1 3 0 0 1 2 1 2 raw = Some rows /\ length rows = 2%nat) /\
  (exists raw, read_sync 1 2 1 0 1 0 0 2 1024 1200 1 false raw = None /\ length raw = 2%nat).
Proof.
  split.
  - exists [[5; 1; 2]; [6; 3; 4]]. vm_compute. split; [reflexivity|]. split; [reflexivity|].
    eexists. split; reflexivity.
  - exists [[5; 1]; [6; 3]]. vm_compute. auto.
Qed.
Print Assumptions C10_other_layouts_observed.

(* ---- non-vacuity ------------------------------------------------------ *)

Example C10_example_words :
  split_sync [1; -32768; 40000 - 65536; 0x5555] =
  [[1;0;0;0;0;0;0;0;0;0;0;0;0;0;0;0]; [0;0;0;0;0;0;0;0;0;0;0;0;0;0;0;1];
   [0;0;0;0;0;0;1;0;0;0;1;1;1;0;0;1]; [1;0;1;0;1;0;1;0;1;0;1;0;1;0;1;0]].
Proof. vm_compute. reflexivity. Qed.

Example C10_example_fronts :
  fronts1 1 [0; 0; 1; 1; 0; 1] = ([2; 4; 5], [1; -1; 1]) /\
  rises1 1 false [0; 0; 1; 1; 0; 1] = [2; 5] /\ falls1 (-1) false [0; 0; 1; 1; 0; 1] = [4] /\
  fronts2 0 1 [[0; 0; 1]; [1; 0; 1]; [0; 0; 0]] = [(1, 0, 1); (2, 0, -1); (2, 2, -1)] /\
  fronts2 1 1 [[0; 0; 1]; [1; 0; 1]; [0; 0; 0]] = [(0, 2, 1); (1, 1, -1); (1, 2, 1)].
Proof. vm_compute. repeat split. Qed.

(* the hypotheses of the end-to-end theorem are met by a concrete recording:
   line 0 starts low and toggles at 1 and 3, line 15 starts high and toggles at 4 *)
Example C10_example_ttl :
  let lines := [(0, [1; 3])] ++ repeat (0, []) 14 ++ [(1, [4])] in
  length lines = 16%nat /\
  map encode_word (render 6 lines) = [-32768; -32767; -32767; -32768; 0; 0] /\
  ttl_roundtrip 6 lines 0 = ([1; 3], [1; -1]) /\ ttl_roundtrip 6 lines 15 = ([4], [-1]) /\
  ttl_roundtrip 6 lines 7 = ([], []).
Proof. vm_compute. repeat split. Qed.

(* nidq, 3 channels (1 MN, 1 analog sync, 1 digital word), unit 1/1024 V, gain 1,
   threshold 1200/1024 V; 11 samples so that the 10th percentile is the second
   smallest analog value (100): samples 1300 and 1299 counts sit just above /
   just below floor + threshold *)
Example C10_example_read_sync :
  let raw := [[7; 100; 1]; [7; 1300; 2]; [7; 1299; -1]; [7; 100; 0]; [7; 100; 0]; [7; 100; 0];
              [7; 100; 0]; [7; 100; 0]; [7; 100; 0]; [7; 90; 0]; [7; 100; 0]] in
  pct10x [100; 1300; 1299; 100; 100; 100; 100; 100; 100; 90; 100] = 1000 /\
  option_map (firstn 3) (read_sync 1 3 1 0 1 1 0 10000 1024 1200 1 true raw)
  = Some [[1;0;0;0;0;0;0;0;0;0;0;0;0;0;0;0; 0]; [0;1;0;0;0;0;0;0;0;0;0;0;0;0;0;0; 1];
          [1;1;1;1;1;1;1;1;1;1;1;1;1;1;1;1; 0]] /\
  pct10x [0; 10; 20; 30] = 30 /\ pct10x [5] = 50 /\ pct10x [40; 0; 20; 10; 30; 50] = 50.
Proof. vm_compute. repeat split. Qed.

(* the through-the-reader hypotheses on a concrete 3-channel nidq recording
   (one analog sync channel, one digital word) *)
Example C10_example_through_reader :
  let lines := [(0, [1; 3])] ++ repeat (0, []) 14 ++ [(1, [2])] in
  let raw := [[9; 500; -32768]; [9; 20000; -32767]; [9; 20000; 1]; [9; 500; 0]] in
  map (fun r => nth 2 r 0) raw = map encode_word (render 4 lines) /\
  exists rows, read_sync 1 3 1 0 1 1 0 4 1024 1200 1 true raw = Some rows /\
    fronts1 1 (column 0 rows) = ([1; 3], [1; -1]) /\ fronts1 1 (column 15 rows) = ([2], [-1]) /\
    column 16 rows = [0; 1; 1; 0].
Proof. vm_compute. split; [reflexivity|]. eexists. repeat split. Qed.

(* ---- the hypotheses of the theorems above are satisfiable --------------- *)

Example ex_binary_train : binary [0; 0; 1; 1; 0; 1].
Proof. intros b H. cbn in H. intuition lia. Qed.

(* C10_fronts_ttl, C10_unsigned_container_indices: a binary train with a rise, a fall, a rise *)
Example C10_example_hyp_fronts_ttl :
  binary [0; 0; 1; 1; 0; 1] /\
  fst (fronts1 1 [0; 0; 1; 1; 0; 1]) = [2; 4; 5] /\
  fst (fronts1_c 1 1 [0; 0; 1; 1; 0; 1]) = [2; 4; 5] /\ rises1_c 2 1 [0; 0; 1; 1; 0; 1] = [2; 4; 5].
Proof. split; [exact ex_binary_train|vm_compute; repeat split]. Qed.

(* C10_fronts_2d_columns, C10_rises_falls_2d: a rectangular 3 x 3 input *)
Example C10_example_hyp_rect :
  Forall (fun row : list Z => length row = 3%nat) [[0; 0; 1]; [1; 0; 1]; [0; 0; 0]] /\
  rises2 0 1 false [[0; 0; 1]; [1; 0; 1]; [0; 0; 0]] = [(1, 0)] /\
  falls2 0 (-1) false [[0; 0; 1]; [1; 0; 1]; [0; 0; 0]] = [(2, 0); (2, 2)] /\
  rises1 1 false (column 0 [[0; 0; 1]; [1; 0; 1]; [0; 0; 0]]) = [1].
Proof. split; [repeat constructor|vm_compute; repeat split]. Qed.

(* C10_decode_encode: 16 binary levels *)
Example C10_example_hyp_levels :
  let lv := [1; 0; 1; 1; 0; 0; 0; 1; 0; 0; 0; 0; 1; 0; 0; 1] in
  length lv = 16%nat /\ binary lv /\ encode_word lv = -28531 /\ split_word (-28531) = lv.
Proof.
  cbv zeta. split; [reflexivity|]. split; [intros b H; cbn in H; intuition lia|]. vm_compute. split; reflexivity.
Qed.

(* C10_ttl_end_to_end / _polarity_alternates: lines, strictly increasing events inside [1, ns) *)
Example C10_example_hyp_ttl :
  let lines := [(0, [1; 3])] ++ repeat (0, []) 14 ++ [(1, [4])] in
  length lines = 16%nat /\ nth 0 lines (0, []) = (0, [1; 3]) /\ nth 15 lines (0, []) = (1, [4]) /\
  StronglySorted Z.lt [1; 3] /\ (forall e, In e [1; 3] -> 1 <= e < Z.of_nat 6) /\
  StronglySorted Z.lt [4] /\ (forall e, In e [4] -> 1 <= e < Z.of_nat 6).
Proof.
  cbv zeta. split; [reflexivity|]. split; [reflexivity|]. split; [reflexivity|].
  split; [repeat (constructor; try lia)|]. split; [intros e H; cbn in H; intuition lia|].
  split; [repeat (constructor; try lia)|intros e H; cbn in H; intuition lia].
Qed.

(* C10_sync_layout, _decomposition, _analog_line_alone, _ttl_through_reader,
   _read_sync_fails_exactly_when: a 4-sample, 3-channel nidq recording
   (snsMnMaXaDw = 1,0,1,1: channel 1 analog sync, channel 2 the digital word) *)
Example ex_raw : list (list Z) := [[9; 500; -32768]; [9; 20000; -32767]; [9; 20000; 1]; [9; 500; 0]].

Example ex_raw_hyps :
  nsync_of 1 1 0 1 1 = 1 /\ 1 <= 3 /\
  (forall r, In r ex_raw -> Z.of_nat (length r) = 3) /\
  (forall i, In i (analog_indices 1 1 0 1 1) -> 0 <= i < 3) /\
  True.
Proof.
  split; [reflexivity|]. split; [lia|]. split.
  - intros r H. cbn in H. intuition (subst; reflexivity).
  - split; [intros i H; vm_compute in H; destruct H as [<-|[]]; lia|exact I].
Qed.

(* ... and the theorem applied to it: the analog line of sample 1 is the
   thresholded channel 1 with the floor of channel 1 (5000 = 10 * 500) *)
Example C10_example_hyp_reader :
  exists rows, read_sync 1 3 1 0 1 1 0 4 1024 1200 1 true ex_raw = Some rows /\
    nth (16 + 0) (nth 1 rows []) 0 = digitise (10 * 1024) (10 * 1200) 5000 (20000 * 1 * 10) /\
    nth 16 (nth 1 rows []) 0 = 1 /\ nth 16 (nth 3 rows []) 0 = 0.
Proof.
  destruct ex_raw_hyps as (H1 & H2 & H3 & H4 & H5).
  pose proof (C10_sync_layout 1 3 1 0 1 1 0 4 1024 1200 1 true ex_raw H1 H2 H3 H4) as [HL _].
  eexists. split; [exact HL|].
  split; [|vm_compute; split; reflexivity].
  pose proof (C10_analog_line_alone 1 3 1 0 1 1 0 4 1024 1200 1 true ex_raw _ 0%nat 1%nat H1 H2 H3 H4 HL) as HA.
  cbv zeta in HA. rewrite HA by (vm_compute; lia). vm_compute. reflexivity.
Qed.
