(* C10 x C01 — sync rows for every selector form.
   Reader.read(nsel)[1] and Reader.read_sync(nsel) receive whatever sample
   selector the caller passes: an integer, a slice (any step, negative too) or
   an integer list/array.  The row selection is property C01's model of NumPy
   basic/advanced indexing on one axis (`sel`, `np_index1`, CPython slice
   arithmetic included); everything downstream is C10's read_sync on the
   selected rows.
     digital = split_sync(self._raw[nsel, sync_indices])
     analog  = self.read(nsel, csel=analog_indices, sync=False)
   integer selector: the sample axis is dropped; `_raw[i, [w]]` is the 1-D
   vector of the sample's word(s) and split_sync still returns one row per
   word; the analog part is made a (1, k) row (np.atleast_2d) before the floor. *)
From Coq Require Import ZArith List Bool Lia.
From IBL.lib Require Import PyInt.
From IBL.C01 Require Model.
From IBL.C10 Require Import Model Bits Proofs.
Import ListNotations.
Open Scope Z_scope.



Definition read_sync_sel (typ ntr c0 c1 c2 c3 : Z) (s : IBL.C01.Model.sel) (one thr gain : Z) (use_floor : bool)
  (raw : list (list Z)) : option (list (list Z)) :=
  match IBL.C01.Model.np_index1 raw s with
  | IBL.C01.Model.Err _ => None                        (* IndexError / ValueError (slice step 0) *)
  | IBL.C01.Model.Ok (_, rows) =>
      (* whether the selector dropped the sample axis does not matter any more (repairs ccd27fe,
         bb56ef1): the analog vector of an integer selector is made a (1, k) row BEFORE the floor *)
      read_sync typ ntr c0 c1 c2 c3 0 (Z.of_nat (length rows)) one thr gain use_floor rows
  end.

(* Reader.read(nsel, ...)[1] = read_sync(nsel) with the defaults *)
Definition reader_read_sync_sel (typ ntr c0 c1 c2 c3 : Z) (s : IBL.C01.Model.sel) (one thr_default gain : Z)
  (raw : list (list Z)) : option (list (list Z)) :=
  read_sync_sel typ ntr c0 c1 c2 c3 s one thr_default gain true raw.

(* ---- a[s] commutes with a row-wise map -------------------------------- *)
Lemma zget_map {A B} (f : A -> B) l p : IBL.C01.Model.zget (map f l) p = option_map f (IBL.C01.Model.zget l p).
Proof. unfold IBL.C01.Model.zget. destruct (p <? 0); [reflexivity|]. apply nth_error_map. Qed.

Lemma gather_map {A B} (f : A -> B) l ps :
  IBL.C01.Model.gather (map f l) ps = option_map (map f) (IBL.C01.Model.gather l ps).
Proof.
  unfold IBL.C01.Model.gather. induction ps as [|p ps IH]; cbn [IBL.C01.Model.mapM]; [reflexivity|].
  rewrite zget_map. destruct (IBL.C01.Model.zget l p); cbn [option_map]; [|reflexivity].
  rewrite IH. destruct (IBL.C01.Model.mapM (IBL.C01.Model.zget l) ps); reflexivity.
Qed.

Lemma np_index1_map {A B} (f : A -> B) l s d rows :
  IBL.C01.Model.np_index1 l s = IBL.C01.Model.Ok (d, rows) -> IBL.C01.Model.np_index1 (map f l) s = IBL.C01.Model.Ok (d, map f rows).
Proof.
  unfold IBL.C01.Model.np_index1, IBL.C01.Model.zlen. rewrite map_length.
  destruct (IBL.C01.Model.sel_positions (Z.of_nat (length l)) s) as [[d' ps]|e]; cbn [IBL.C01.Model.bind]; [|discriminate].
  rewrite gather_map. destruct (IBL.C01.Model.gather l ps) as [xs|]; cbn [IBL.C01.Model.of_option IBL.C01.Model.bind option_map]; [|discriminate].
  intros H. injection H as -> <-. reflexivity.
Qed.

Lemma np_index1_in {A} (l : list A) s d rows r :
  IBL.C01.Model.np_index1 l s = IBL.C01.Model.Ok (d, rows) -> In r rows -> In r l.
Proof.
  unfold IBL.C01.Model.np_index1.
  destruct (IBL.C01.Model.sel_positions (IBL.C01.Model.zlen l) s) as [[d' ps]|e]; cbn [IBL.C01.Model.bind]; [|discriminate].
  destruct (IBL.C01.Model.gather l ps) as [xs|] eqn:G; cbn [IBL.C01.Model.of_option IBL.C01.Model.bind]; [|discriminate].
  intros H. injection H as _ <-. revert xs G. unfold IBL.C01.Model.gather.
  induction ps as [|p ps IH]; intros xs G Hin; cbn [IBL.C01.Model.mapM] in G.
  - injection G as <-. destruct Hin.
  - destruct (IBL.C01.Model.zget l p) as [y|] eqn:Z; [|discriminate].
    destruct (IBL.C01.Model.mapM (IBL.C01.Model.zget l) ps) as [ys|]; [|discriminate]. injection G as <-.
    destruct Hin as [<-|Hin]; [|now apply (IH ys)].
    unfold IBL.C01.Model.zget in Z. destruct (p <? 0); [discriminate|]. now apply nth_error_In in Z.
Qed.

(* One row per selected sample, in selector order, for every selector form.
   Domain: one sync word, rectangular raw, selector accepted by NumPy; an
   integer selector only on recordings without analog sync channels.  F is the
   row function of C10_sync_layout, the floors being those of the selected rows. *)
Lemma read_sync_sel_layout typ ntr c0 c1 c2 c3 s one thr gain use_floor raw d rows :
  nsync_of typ c0 c1 c2 c3 = 1 -> 1 <= ntr ->
  (forall r, In r raw -> Z.of_nat (length r) = ntr) ->
  (forall i, In i (analog_indices typ c0 c1 c2 c3) -> 0 <= i < ntr) ->
  IBL.C01.Model.np_index1 raw s = IBL.C01.Model.Ok (d, rows) ->
  let floors := floors_of use_floor (analog_volts typ c0 c1 c2 c3 gain rows)
                          (length (analog_indices typ c0 c1 c2 c3)) in
  read_sync_sel typ ntr c0 c1 c2 c3 s one thr gain use_floor raw =
  Some (map (fun r => split_word (nth (Z.to_nat (ntr - 1)) r 0)
                      ++ digitise_row (10 * one) (10 * thr) 10 floors
                           (map (fun v => v * gain) (analog_cols typ c0 c1 c2 c3 r)))
            rows).
Proof.
  intros Hns Hntr Hrect Hidx Hsel floors.
  assert (Hrect' : forall r, In r rows -> Z.of_nat (length r) = ntr)
    by (intros r Hr; apply Hrect; eapply np_index1_in; eauto).
  pose proof (read_sync_layout_total typ ntr c0 c1 c2 c3 0 (Z.of_nat (length rows)) one thr gain use_floor rows
                Hns Hntr Hrect' Hidx) as HL. cbv zeta in HL. rewrite slice_rows_all in HL.
  unfold read_sync_sel. rewrite Hsel. exact HL.
Qed.

(* Without analog sync channels (every imec file): the rows returned for a
   selector are the same selector applied to the fully decoded recording. *)
Lemma read_sync_sel_is_selection typ ntr c0 c1 c2 c3 s one thr gain use_floor raw d rows full :
  nsync_of typ c0 c1 c2 c3 = 1 -> 1 <= ntr ->
  (forall r, In r raw -> Z.of_nat (length r) = ntr) ->
  analog_indices typ c0 c1 c2 c3 = [] ->
  IBL.C01.Model.np_index1 raw s = IBL.C01.Model.Ok (d, rows) ->
  read_sync typ ntr c0 c1 c2 c3 0 (Z.of_nat (length raw)) one thr gain use_floor raw = Some full ->
  exists sel_rows,
    read_sync_sel typ ntr c0 c1 c2 c3 s one thr gain use_floor raw = Some sel_rows /\
    IBL.C01.Model.np_index1 full s = IBL.C01.Model.Ok (d, sel_rows) /\ length sel_rows = length rows.
Proof.
  intros Hns Hntr Hrect Hno Hsel Hfull.
  assert (Hidx : forall i, In i (analog_indices typ c0 c1 c2 c3) -> 0 <= i < ntr)
    by (rewrite Hno; intros i []).
  assert (Hfl0 : use_floor = false \/ slice_rows 0 (Z.of_nat (length raw)) raw <> [] \/
                 analog_indices typ c0 c1 c2 c3 = []) by (right; right; exact Hno).
  pose proof (read_sync_layout typ ntr c0 c1 c2 c3 0 (Z.of_nat (length raw)) one thr gain use_floor raw
                Hns Hntr Hrect Hidx Hfl0) as HL. cbv zeta in HL. rewrite slice_rows_all in HL.
  pose proof (read_sync_sel_layout typ ntr c0 c1 c2 c3 s one thr gain use_floor raw d rows
                Hns Hntr Hrect Hidx Hsel) as HS. cbv zeta in HS.
  assert (Hdig : forall fl r, digitise_row (10 * one) (10 * thr) 10 fl
                   (map (fun v => v * gain) (analog_cols typ c0 c1 c2 c3 r)) = []).
  { intros fl r. unfold analog_cols. rewrite Hno. reflexivity. }
  set (F := fun r : list Z => split_word (nth (Z.to_nat (ntr - 1)) r 0) ++ []).
  assert (HLF : read_sync typ ntr c0 c1 c2 c3 0 (Z.of_nat (length raw)) one thr gain use_floor raw =
                Some (map F raw)).
  { rewrite HL. apply f_equal. apply map_ext. intros r. unfold F. now rewrite Hdig. }
  assert (HSF : read_sync_sel typ ntr c0 c1 c2 c3 s one thr gain use_floor raw = Some (map F rows)).
  { rewrite HS. apply f_equal. apply map_ext. intros r. unfold F. now rewrite Hdig. }
  rewrite HLF in Hfull. apply some_inj in Hfull. subst full.
  exists (map F rows). split; [exact HSF|]. split; [|apply map_length].
  apply np_index1_map. exact Hsel.
Qed.

(* the result depends on the selected rows only: selectors that pick the same samples give the same rows *)
Lemma read_sync_sel_same_rows typ ntr c0 c1 c2 c3 s1 s2 one thr gain use_floor raw d1 d2 rows :
  IBL.C01.Model.np_index1 raw s1 = IBL.C01.Model.Ok (d1, rows) ->
  IBL.C01.Model.np_index1 raw s2 = IBL.C01.Model.Ok (d2, rows) ->
  read_sync_sel typ ntr c0 c1 c2 c3 s1 one thr gain use_floor raw =
  read_sync_sel typ ntr c0 c1 c2 c3 s2 one thr gain use_floor raw.
Proof. intros H1 H2. unfold read_sync_sel. now rewrite H1, H2. Qed.

(* an integer selector and the one-element list pick the same sample *)
Lemma np_index1_int_list {A} (l : list A) i :
  match IBL.C01.Model.np_index1 l (IBL.C01.Model.SInt i), IBL.C01.Model.np_index1 l (IBL.C01.Model.SList [i]) with
  | IBL.C01.Model.Ok (_, r1), IBL.C01.Model.Ok (_, r2) => r1 = r2
  | IBL.C01.Model.Err _, IBL.C01.Model.Err _ => True
  | _, _ => False
  end.
Proof.
  unfold IBL.C01.Model.np_index1, IBL.C01.Model.sel_positions. cbn [IBL.C01.Model.mapM].
  destruct (IBL.C01.Model.norm_index (IBL.C01.Model.zlen l) i) as [k|]; cbn [IBL.C01.Model.bind]; [|exact I].
  destruct (IBL.C01.Model.gather l [k]); cbn; auto.
Qed.

Lemma read_sync_sel_int_list typ ntr c0 c1 c2 c3 i one thr gain use_floor raw :
  read_sync_sel typ ntr c0 c1 c2 c3 (IBL.C01.Model.SInt i) one thr gain use_floor raw =
  read_sync_sel typ ntr c0 c1 c2 c3 (IBL.C01.Model.SList [i]) one thr gain use_floor raw.
Proof.
  unfold read_sync_sel. pose proof (np_index1_int_list raw i) as H.
  destruct (IBL.C01.Model.np_index1 raw (IBL.C01.Model.SInt i)) as [[d1 r1]|e1];
    destruct (IBL.C01.Model.np_index1 raw (IBL.C01.Model.SList [i])) as [[d2 r2]|e2]; try contradiction.
  - now subst.
  - reflexivity.
Qed.
