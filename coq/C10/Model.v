(* C10 — executable model of the sync decoding and front detection code.
   Definitions only; proofs are in Proofs.v, property theorems in Props.v.

   Python (src/spikeglx.py, src/ibldsp/utils.py)          model
   ------                                                 -----
   np.int16(array)  (C cast, wraps)                       to_int16
   sync_tr.view(np.uint8)  (little-endian host)           u8_view
   np.unpackbits (MSB first inside every byte)            unpack8
   np.roll(out, 8, axis=1) ; np.flip(., axis=1)           roll ; rev
   split_sync                                             split_word / split_sync
   _get_sync_trace_indices_from_meta                      sync_indices
   _get_analog_sync_trace_indices_from_meta               analog_indices
   Reader.read_sync_digital / read_sync_analog / read_sync read_sync_digital / read_sync_analog / read_sync
   np.percentile(., 10, axis=0)                           sort / pct10x / floors10
   Reader.read(...)[1]                                    reader_read_sync
   utils.fronts / rises / falls (1-D, 2-D either axis)    fronts1 / rises1 / falls1 / fronts2 / rises2 / falls2
*)
From Coq Require Import ZArith List Bool Lia.
From IBL.lib Require Import PyInt.
Import ListNotations.
Open Scope Z_scope.

(* ------------------------------------------------------------------ *)
(* split_sync                                                          *)
(* ------------------------------------------------------------------ *)

(* sync_tr = np.int16(np.copy(sync_tr)): conversion of an integer array to
   int16 keeps the low 16 bits (two's complement). *)
Definition to_int16 (v : Z) : Z := (v + 32768) mod 65536 - 32768.

(* sync_tr.view(np.uint8): the two bytes of an int16 in memory order; on a
   little-endian host the low byte comes first.  The byte values are those of
   the unsigned 16-bit pattern v mod 65536. *)
Definition u8_view (v : Z) : list Z :=
  let u := v mod 65536 in [u mod 256; u / 256].

(* np.unpackbits on one uint8: most significant bit first. *)
Definition unpack8 (b : Z) : list Z :=
  map (fun k => (b / 2 ^ k) mod 2) [7; 6; 5; 4; 3; 2; 1; 0].

(* np.roll(row, k): the last k entries come first. *)
Definition roll {A} (k : nat) (l : list A) : list A :=
  skipn (length l - k) l ++ firstn (length l - k) l.

(* one word -> the 16 columns of its output row:
   out = np.unpackbits(view).reshape(size, 16); np.flip(np.roll(out, 8, axis=1), axis=1) *)
Definition split_word (v : Z) : list Z :=
  rev (roll 8 (flat_map unpack8 (u8_view (to_int16 v)))).

(* split_sync on an array: one row of 16 per element, in C (row-major) order
   of the input (the harness passes the flattened array). *)
Definition split_sync (tr : list Z) : list (list Z) := map split_word tr.

(* ------------------------------------------------------------------ *)
(* Reader.read_sync                                                    *)
(* ------------------------------------------------------------------ *)

(* Python slice(start, stop) with step 1 on a length-n axis
   (PySlice_AdjustIndices): returns (first, count). *)
Definition adjust (i n : Z) : Z :=
  if i <? 0 then Z.max (i + n) 0 else Z.min i n.

Definition slice_first_count (start stop n : Z) : Z * Z :=
  let a := adjust start n in
  let b := adjust stop n in
  (a, Z.max (b - a) 0).

Definition slice_rows {A} (start stop : Z) (rows : list A) : list A :=
  let '(a, c) := slice_first_count start stop (Z.of_nat (length rows)) in
  firstn (Z.to_nat c) (skipn (Z.to_nat a) rows).

(* recording type: 0 = imec ap/lf (snsApLfSy = [ap; lf; sy]),
                   1 = nidq       (snsMnMaXaDw = [mn; ma; xa; dw]).
   The four counts are passed as c0..c3 (c3 unused for imec). *)

(* _get_sync_trace_indices_from_meta: list(range(ntr - nsync, ntr)) *)
Definition nsync_of (typ c0 c1 c2 c3 : Z) : Z := if typ =? 1 then c3 else c2.
Definition sync_indices (typ ntr c0 c1 c2 c3 : Z) : list Z :=
  let ns := nsync_of typ c0 c1 c2 c3 in
  map (fun i => ntr - ns + i) (zrange (Z.to_nat ns)).

(* _get_analog_sync_trace_indices_from_meta:
     [] unless nidq; list(range(mn + ma, mn + ma + xa)) *)
Definition analog_indices (typ c0 c1 c2 c3 : Z) : list Z :=
  if typ =? 1 then map (fun i => c0 + c1 + i) (zrange (Z.to_nat c2)) else [].

(* a[:, idx] on one row, NumPy index semantics: negative indices wrap, out of
   range is an IndexError (None). *)
Definition get_col (row : list Z) (i : Z) : option Z :=
  let n := Z.of_nat (length row) in
  let j := if i <? 0 then i + n else i in
  if (0 <=? j) && (j <? n) then nth_error row (Z.to_nat j) else None.

Fixpoint all_some {A} (l : list (option A)) : option (list A) :=
  match l with
  | [] => Some []
  | None :: _ => None
  | Some a :: t => match all_some t with Some r => Some (a :: r) | None => None end
  end.

Definition gather_cols (row : list Z) (idx : list Z) : option (list Z) :=
  all_some (map (get_col row) idx).

(* read_sync_digital: split_sync(self._raw[_slice, sync_indices]).
   One sync word per sample (the only layout SpikeGLX probes produce):
   one output row per selected sample.  No sync word: the fancy index is
   empty, split_sync returns a (0, 16) array.  Two or more words per sample:
   the fancy-indexed block is not C-contiguous and `.view(np.uint8)` raises
   ValueError (None here; an empty selection still passes, a single selected
   sample yields one row per word) — see Props.v C10_multiword_digital_refuted. *)
Definition read_sync_digital (typ ntr c0 c1 c2 c3 start stop : Z) (raw : list (list Z))
  : option (list (list Z)) :=
  let rows := slice_rows start stop raw in
  match sync_indices typ ntr c0 c1 c2 c3 with
  | [] => Some []
  | [i] => match all_some (map (fun r => get_col r i) rows) with
           | Some ws => Some (split_sync ws)
           | None => None
           end
  | idx => match rows with
           | [] => Some []
           | [r] =>        (* a (1, k) block is contiguous: k rows come back for the one sample *)
               match gather_cols r idx with Some ws => Some (split_sync ws) | None => None end
           | _ => None
           end
  end.

(* Analog values are handled as exact integers in units of 1/one volt
   (one > 0): sample * gain, gain = int2volt * one (the harness uses ranges for
   which this is an integer, so the float32 products are exact).

   read_sync_analog: None (python) when the recording has no analog sync
   channel, else self.read(nsel=_slice, csel=analog_indices, sync=False): the
   selected samples of those channels in volts.
   outer None = exception (index out of range); Some None = returns None. *)
Definition read_sync_analog (typ ntr c0 c1 c2 c3 start stop gain : Z) (raw : list (list Z))
  : option (option (list (list Z))) :=
  match analog_indices typ c0 c1 c2 c3 with
  | [] => Some None
  | idx =>
      match all_some (map (fun r => gather_cols r idx) (slice_rows start stop raw)) with
      | None => None
      | Some an => Some (Some (map (map (fun v => v * gain)) an))
      end
  end.

(* np.percentile(column, 10), default method 'linear': with s the sorted
   column and n its length, virtual index (n-1)*0.1, lo = floor, hi = min(lo+1, n-1),
   gamma = ((n-1) mod 10)/10, result s[lo] + (s[hi]-s[lo])*gamma.
   Exact arithmetic, scaled by 10 to stay in Z:  pct10x = 10 * percentile. *)
Fixpoint insert (a : Z) (l : list Z) : list Z :=
  match l with
  | [] => [a]
  | b :: t => if a <=? b then a :: l else b :: insert a t
  end.

Definition sort (l : list Z) : list Z := fold_right insert [] l.

Definition pct_lo (n : Z) : Z := (n - 1) / 10.
Definition pct_g (n : Z) : Z := (n - 1) mod 10.
Definition pct_hi (n : Z) : Z := Z.min (pct_lo n + 1) (n - 1).

Definition pct10x (col : list Z) : Z :=
  let s := sort col in
  let n := Z.of_nat (length col) in
  let a := nth (Z.to_nat (pct_lo n)) s 0 in
  let b := nth (Z.to_nat (pct_hi n)) s 0 in
  10 * a + (b - a) * pct_g n.

Definition column (k : nat) (m : list (list Z)) : list Z := map (fun r => nth k r 0) m.

(* np.percentile(analog, 10, axis=0): one floor per analog column, each from
   that column alone *)
Definition floors10 (an : list (list Z)) (ncol : nat) : list Z :=
  map (fun k => pct10x (column k an)) (seq 0 ncol).

(* analog[analog < thr] = 0 ; analog[analog >= thr] = 1 ; np.int8(analog) *)
Definition digitise (one thr fl v : Z) : Z :=
  let a0 := v - fl in
  let a1 := if a0 <? thr then 0 else a0 in
  let a2 := if thr <=? a1 then one else a1 in
  Z.quot a2 one.

(* floors: None when floor_percentile is falsy (no subtraction at all),
   Some [p_0; ...] = the value subtracted from each analog column. *)
Definition floor_at (floors : option (list Z)) (k : nat) : Z :=
  match floors with None => 0 | Some l => nth k l 0 end.

Definition digitise_row (one thr gain : Z) (floors : option (list Z)) (vals : list Z) : list Z :=
  map (fun kv => digitise one thr (floor_at floors (fst kv)) (snd kv * gain))
      (combine (seq 0 (length vals)) vals).

(* row-wise concatenation np.concatenate((digital, analog), axis=1): needs the
   same number of rows (ValueError otherwise). *)
Fixpoint hconcat (a b : list (list Z)) : option (list (list Z)) :=
  match a, b with
  | [], [] => Some []
  | x :: a', y :: b' => match hconcat a' b' with Some r => Some ((x ++ y) :: r) | None => None end
  | _, _ => None
  end.

(* the floors read_sync subtracts, in units of 1/(10*one) volt *)
Definition floors_of (use_floor : bool) (an : list (list Z)) (ncol : nat) : option (list Z) :=
  if use_floor then Some (floors10 an ncol) else None.

(* read_sync(_slice, threshold, floor_percentile):
     digital = self.read_sync_digital(_slice); analog = self.read_sync_analog(_slice)
     if analog is not None and floor_percentile and analog.size: analog -= np.percentile(analog, 10, axis=0)
     if analog is None: return digital
     analog[analog < threshold] = 0; analog[analog >= threshold] = 1
     return np.concatenate((digital, np.int8(analog)), axis=1)
   use_floor = truthiness of floor_percentile (its value is not used by the code).
   The thresholding runs in units of 1/(10*one) volt so that the interpolated
   floor stays an integer: volts * 10 against 10 * thr. *)
Definition read_sync (typ ntr c0 c1 c2 c3 start stop one thr gain : Z)
  (use_floor : bool) (raw : list (list Z)) : option (list (list Z)) :=
  match read_sync_digital typ ntr c0 c1 c2 c3 start stop raw with
  | None => None
  | Some digital =>
      match read_sync_analog typ ntr c0 c1 c2 c3 start stop gain raw with
      | None => None
      | Some None => Some digital
      | Some (Some an) =>
          (* `... and floor_percentile and analog.size`: an empty selection skips the floor; with no
             row the floors are never looked at, so no case distinction is needed here *)
          let floors := floors_of use_floor an (length (analog_indices typ c0 c1 c2 c3)) in
          hconcat digital (map (digitise_row (10 * one) (10 * thr) 10 floors) an)
      end
  end.

(* Reader.read(nsel, csel, sync=True) returns (darray, self.read_sync(nsel)):
   the sync part is read_sync with its default arguments (threshold 1.2 —
   passed as thr_default in model units —, floor on).  The voltage part is
   property C01's subject. *)
Definition reader_read_sync (typ ntr c0 c1 c2 c3 start stop one thr_default gain : Z)
  (raw : list (list Z)) : option (list (list Z)) :=
  read_sync typ ntr c0 c1 c2 c3 start stop one thr_default gain true raw.

(* ------------------------------------------------------------------ *)
(* fronts / rises / falls                                              *)
(* ------------------------------------------------------------------ *)

(* np.diff on a 1-D array *)
Fixpoint diff (l : list Z) : list Z :=
  match l with
  | a :: (b :: _) as t => (b - a) :: diff t
  | _ => []
  end.

(* np.where(cond)[0] on a 1-D array, positions counted from i *)
Fixpoint where_from (i : Z) (f : Z -> bool) (l : list Z) : list Z :=
  match l with
  | [] => []
  | v :: t => if f v then i :: where_from (i + 1) f t else where_from (i + 1) f t
  end.

Definition gather (d : list Z) (ind : list Z) : list Z :=
  map (fun i => nth (Z.to_nat i) d 0) ind.

(* fronts(x, step) on 1-D:
     d = np.diff(x); ind = np.where(np.abs(d) >= step); sign = d[ind]; ind += 1 *)
Definition fronts1 (step : Z) (x : list Z) : list Z * list Z :=
  let d := diff x in
  let ind := where_from 0 (fun v => step <=? Z.abs v) d in
  (map (fun i => i + 1) ind, gather d ind).

(* rises(x, step, analog) on 1-D:
     if analog: x = (x > step).astype(float); step = 1
     ind = np.where(np.diff(x) >= step); ind += 1 *)
Definition binarise (step : Z) (x : list Z) : list Z :=
  map (fun v => if step <? v then 1 else 0) x.

Definition rises1 (step : Z) (analog : bool) (x : list Z) : list Z :=
  let x' := if analog then binarise step x else x in
  let s' := if analog then 1 else step in
  map (fun i => i + 1) (where_from 0 (fun v => s' <=? v) (diff x')).

(* falls(x, step, analog) = rises(-x, step=-step, analog=analog) *)
Definition falls1 (step : Z) (analog : bool) (x : list Z) : list Z :=
  rises1 (- step) analog (map Z.opp x).

(* Containers without a sign (kind 1 = bool, kind 2 = uint8), 1-D:
   np.diff on bool is element-wise `!=`; on uint8 it wraps modulo 256;
   np.abs is the identity on both; sign = d[ind] is True / the wrapped value;
   falls negates the input: TypeError on bool (None), wraps on uint8. *)
Fixpoint diff_c (kind : Z) (l : list Z) : list Z :=
  match l with
  | a :: (b :: _) as t =>
      (if kind =? 1 then (if a =? b then 0 else 1) else (b - a) mod 256) :: diff_c kind t
  | _ => []
  end.

Definition fronts1_c (kind step : Z) (x : list Z) : list Z * list Z :=
  let d := diff_c kind x in
  let ind := where_from 0 (fun v => step <=? v) d in
  (map (fun i => i + 1) ind, gather d ind).

Definition rises1_c (kind step : Z) (x : list Z) : list Z :=
  map (fun i => i + 1) (where_from 0 (fun v => step <=? v) (diff_c kind x)).

Definition falls1_c (kind step : Z) (x : list Z) : option (list Z) :=
  if kind =? 1 then None
  else Some (rises1_c kind (- step) (map (fun v => (- v) mod 256) x)).

(* 2-D arrays: list of rows.  np.diff along axis 1 = diff of every row;
   along axis 0 = difference of consecutive rows. *)
Fixpoint map2 (f : Z -> Z -> Z) (a b : list Z) : list Z :=
  match a, b with
  | x :: a', y :: b' => f x y :: map2 f a' b'
  | _, _ => []
  end.

Fixpoint diff_rows (x : list (list Z)) : list (list Z) :=
  match x with
  | a :: (b :: _) as t => map2 Z.sub b a :: diff_rows t
  | _ => []
  end.

Definition diff2 (axis : Z) (x : list (list Z)) : list (list Z) :=
  if axis =? 0 then diff_rows x else map diff x.

(* np.where(cond) on 2-D: (row, column) of every True, in row-major order;
   here together with the value found there (sign = d[tuple(ind)]). *)
Fixpoint where2_from (r : Z) (f : Z -> bool) (d : list (list Z)) : list (Z * Z * Z) :=
  match d with
  | [] => []
  | row :: t =>
      map (fun c => (r, c, nth (Z.to_nat c) row 0)) (where_from 0 f row)
      ++ where2_from (r + 1) f t
  end.

(* ind[axis] += 1 *)
Definition bump (axis : Z) (p : Z * Z * Z) : Z * Z * Z :=
  let '(r, c, v) := p in if axis =? 0 then (r + 1, c, v) else (r, c + 1, v).

(* axis is 0 or 1 (the harness maps -1 to 1 and -2 to 0 for 2-D input) *)
Definition fronts2 (axis step : Z) (x : list (list Z)) : list (Z * Z * Z) :=
  map (bump axis) (where2_from 0 (fun v => step <=? Z.abs v) (diff2 axis x)).

Definition rises2 (axis step : Z) (analog : bool) (x : list (list Z)) : list (Z * Z) :=
  let x' := if analog then map (binarise step) x else x in
  let s' := if analog then 1 else step in
  map (fun p => fst (bump axis p)) (where2_from 0 (fun v => s' <=? v) (diff2 axis x')).

Definition falls2 (axis step : Z) (analog : bool) (x : list (list Z)) : list (Z * Z) :=
  rises2 axis (- step) analog (map (map Z.opp) x).

(* ------------------------------------------------------------------ *)
(* writing TTL event trains into sync words (the end-to-end statement)  *)
(* ------------------------------------------------------------------ *)

(* a sample of 16 line levels (entries 0/1, line 0 first) -> the 16-bit word,
   stored as int16 in the file *)
Fixpoint encode_bits (levels : list Z) : Z :=
  match levels with
  | [] => 0
  | b :: t => b + 2 * encode_bits t
  end.

Definition encode_word (levels : list Z) : Z := to_int16 (encode_bits levels).

(* level of one line at sample t: initial level toggled once per event time <= t *)
Definition count_le (t : Z) (evs : list Z) : Z :=
  Z.of_nat (length (filter (fun e => e <=? t) evs)).

Definition level (init : Z) (evs : list Z) (t : Z) : Z := (init + count_le t evs) mod 2.

(* lines : 16 pairs (initial level, toggle times); ns samples *)
Definition render (ns : nat) (lines : list (Z * list Z)) : list (list Z) :=
  map (fun t => map (fun l => level (fst l) (snd l) t) lines) (zrange ns).

(* write the trains, read them back, detect fronts on line k *)
Definition ttl_roundtrip (ns : nat) (lines : list (Z * list Z)) (k : nat) : list Z * list Z :=
  fronts1 1 (column k (split_sync (map encode_word (render ns lines)))).
