(* C10 — exhaustive kernel evaluation of split_sync over all 65536 sync words
   (vm_compute, lifted with forallb_forall).  Kept in its own module: it is the
   only slow file of the property (about 20 s), and the only one coqchk is
   told to take as given in the thorough tier (re-evaluating the sweep without
   the VM takes too long); it is compiled and kernel-checked by coqc. *)
From Coq Require Import ZArith List Bool Lia.
From IBL.lib Require Import PyInt.
From IBL.C10 Require Import Model Bits.
Import ListNotations.
Open Scope Z_scope.

(* exhaustive evaluation over the 65536 words, by the kernel *)
Definition all_words : list Z :=
  flat_map (fun hi => map (fun lo => 256 * hi + lo) (zrange 256)) (zrange 256).

Definition bits16 (w : Z) : list Z := map (fun k => Z.b2z (Z.testbit w k)) (zrange 16).

Fixpoint zl_eqb (a b : list Z) : bool :=
  match a, b with
  | [], [] => true
  | x :: a', y :: b' => (x =? y) && zl_eqb a' b'
  | _, _ => false
  end.

Lemma zl_eqb_eq a b : zl_eqb a b = true -> a = b.
Proof.
  revert b. induction a as [|x a IH]; intros [|y b] H; cbn in H; try discriminate; auto.
  apply andb_true_iff in H. destruct H as [H1 H2]. apply Z.eqb_eq in H1. subst. f_equal. auto.
Qed.

(* one evaluation of split_word per word *)
Definition word_ok (w : Z) : bool := zl_eqb (split_word w) (bits16 w).

Lemma all_words_ok : forallb word_ok all_words = true.
Proof. vm_compute. reflexivity. Qed.

Lemma in_all_words w : 0 <= w < 65536 -> In w all_words.
Proof.
  intros Hw. unfold all_words. apply in_flat_map. exists (w / 256). split.
  - apply in_zrange. change (Z.of_nat 256) with 256.
    pose proof (Z.div_mod w 256 ltac:(lia)). pose proof (Z.mod_pos_bound w 256 ltac:(lia)).
    split; [apply Z.div_pos; lia | apply Z.div_lt_upper_bound; lia].
  - apply in_map_iff. exists (w mod 256). split.
    + pose proof (Z.div_mod w 256 ltac:(lia)). lia.
    + apply in_zrange. change (Z.of_nat 256) with 256. apply Z.mod_pos_bound. lia.
Qed.

Lemma nth_bits16 w k : 0 <= k < 16 -> nth (Z.to_nat k) (bits16 w) 0 = Z.b2z (Z.testbit w k).
Proof.
  intros Hk. set (n := Z.to_nat k). assert (Hn : (n < 16)%nat) by lia.
  assert (Hkn : k = Z.of_nat n) by lia. rewrite Hkn. clearbody n. clear Hkn Hk.
  do 16 (destruct n as [|n]; [ reflexivity | ]). lia.
Qed.

Lemma split_word_bits_exhaustive w k : 0 <= w < 65536 -> 0 <= k < 16 ->
  nth (Z.to_nat k) (split_word w) 0 = Z.b2z (Z.testbit w k).
Proof.
  intros Hw Hk. pose proof all_words_ok as H. rewrite forallb_forall in H.
  specialize (H w (in_all_words w Hw)). unfold word_ok in H.
  apply zl_eqb_eq in H. rewrite H. apply nth_bits16; exact Hk.
Qed.

(* the signed (int16) reading of the same 16 bits, from the exhaustive table *)
Lemma split_word_bits_exhaustive_signed s k : -32768 <= s < 32768 -> 0 <= k < 16 ->
  nth (Z.to_nat k) (split_word s) 0 = Z.b2z (Z.testbit (s mod 65536) k) /\
  Z.testbit (s mod 65536) k = Z.testbit s k.
Proof.
  intros Hs Hk. split.
  - rewrite <- split_word_signed_unsigned. apply split_word_bits_exhaustive; [|exact Hk].
    apply Z.mod_pos_bound. lia.
  - change 65536 with (2 ^ 16). apply Z.mod_pow2_bits_low. lia.
Qed.

