(* C10 — lemmas about the model (coq/C10/Model.v): fronts, TTL round trip, read_sync layout.
   The bit-level lemmas on split_sync are in Bits.v. *)
From Coq Require Import ZArith List Bool Lia Sorted.
From IBL.lib Require Import PyInt.
From IBL.C10 Require Import Model Bits.
Import ListNotations.
Open Scope Z_scope.

(* ------------------------------------------------------------------ *)
(* fronts / rises / falls on one trace                                 *)
(* ------------------------------------------------------------------ *)

Definition at_ (x : list Z) (i : Z) : Z := nth (Z.to_nat i) x 0.

Lemma diff_length l : length (diff l) = (length l - 1)%nat.
Proof.
  induction l as [|a [|b t] IH]; cbn [diff length] in *; try reflexivity. lia.
Qed.

Lemma nth_diff l : forall i, (S i < length l)%nat -> nth i (diff l) 0 = nth (S i) l 0 - nth i l 0.
Proof.
  induction l as [|a [|b t] IH]; intros i Hi; cbn [length] in Hi; try lia.
  destruct i as [|i].
  - reflexivity.
  - change (diff (a :: b :: t)) with ((b - a) :: diff (b :: t)).
    cbn [nth]. rewrite IH by (cbn [length]; lia). reflexivity.
Qed.

Lemma diff_cons2 a b t : diff (a :: b :: t) = (b - a) :: diff (b :: t).
Proof. reflexivity. Qed.

Lemma diff_opp l : diff (map Z.opp l) = map Z.opp (diff l).
Proof.
  induction l as [|a t IH]; [reflexivity|]. destruct t as [|b t]; [reflexivity|].
  change (map Z.opp (a :: b :: t)) with (- a :: - b :: map Z.opp t).
  rewrite !diff_cons2. change (- b :: map Z.opp t) with (map Z.opp (b :: t)). rewrite IH.
  cbn [map]. f_equal. lia.
Qed.

(* where with values *)
Fixpoint wv (i : Z) (f : Z -> bool) (l : list Z) : list (Z * Z) :=
  match l with
  | [] => []
  | v :: t => if f v then (i, v) :: wv (i + 1) f t else wv (i + 1) f t
  end.

Lemma wv_fst i f l : map fst (wv i f l) = where_from i f l.
Proof.
  revert i. induction l as [|v t IH]; intros i; cbn [wv where_from]; [reflexivity|].
  destruct (f v); cbn [map fst]; now rewrite IH.
Qed.

Lemma in_wv f l : forall i j v, In (j, v) (wv i f l) <->
  i <= j < i + Z.of_nat (length l) /\ v = nth (Z.to_nat (j - i)) l 0 /\ f v = true.
Proof.
  induction l as [|a t IH]; intros i j v; cbn [wv length].
  - split; [intros []|]. lia.
  - assert (Hstep : In (j, v) (wv (i + 1) f t) <->
              i + 1 <= j < i + Z.of_nat (S (length t)) /\ v = nth (Z.to_nat (j - i)) (a :: t) 0 /\ f v = true).
    { rewrite IH. split.
      - intros (H1 & H2 & H3). split; [lia|]. split; [|exact H3].
        replace (Z.to_nat (j - i)) with (S (Z.to_nat (j - (i + 1)))) by lia. exact H2.
      - intros (H1 & H2 & H3). split; [lia|]. split; [|exact H3].
        replace (Z.to_nat (j - i)) with (S (Z.to_nat (j - (i + 1)))) in H2 by lia. exact H2. }
    destruct (f a) eqn:Fa.
    + cbn [In]. rewrite Hstep. split.
      * intros [H | H].
        -- inversion H; subst. replace (j - j) with 0 by lia. cbn. split; [lia|]. auto.
        -- destruct H as (H1 & H2 & H3). split; [lia|]. auto.
      * intros (H1 & H2 & H3). destruct (Z.eq_dec j i) as [->|Hne].
        -- left. replace (i - i) with 0 in H2 by lia. cbn in H2. now subst.
        -- right. split; [lia|]. auto.
    + rewrite Hstep. split.
      * intros (H1 & H2 & H3). split; [lia|]. auto.
      * intros (H1 & H2 & H3). destruct (Z.eq_dec j i) as [->|Hne].
        -- replace (i - i) with 0 in H2 by lia. cbn in H2. subst. congruence.
        -- split; [lia|]. auto.
Qed.

Lemma wv_lower f l : forall i p, In p (wv i f l) -> i <= fst p.
Proof.
  intros i [j v] H. apply in_wv in H. cbn. lia.
Qed.

Lemma wv_sorted f l : forall i, StronglySorted Z.lt (map fst (wv i f l)).
Proof.
  induction l as [|a t IH]; intros i; cbn [wv]; [constructor|].
  destruct (f a); [|apply IH].
  cbn [map fst]. constructor; [apply IH|].
  apply Forall_forall. intros j Hj. apply in_map_iff in Hj. destruct Hj as [p [<- Hp]].
  apply wv_lower in Hp. lia.
Qed.

Lemma wv_snd f l : forall i,
  map snd (wv i f l) = map (fun j => nth (Z.to_nat (j - i)) l 0) (where_from i f l).
Proof.
  intros i. rewrite <- wv_fst. rewrite map_map. apply map_ext_in.
  intros [j v] H. apply in_wv in H. cbn. tauto.
Qed.

Lemma combine_map_fst_snd {A B C} (g : A -> C) (L : list (A * B)) :
  combine (map g (map fst L)) (map snd L) = map (fun p => (g (fst p), snd p)) L.
Proof. induction L as [|[a b] L IH]; cbn; [reflexivity|]. now rewrite IH. Qed.

(* the (index, polarity) pairs fronts returns *)
Definition front_pairs (step : Z) (x : list Z) : list (Z * Z) :=
  combine (fst (fronts1 step x)) (snd (fronts1 step x)).

Lemma fronts1_wv step x :
  fst (fronts1 step x) = map (fun i => i + 1) (map fst (wv 0 (fun v => step <=? Z.abs v) (diff x))) /\
  snd (fronts1 step x) = map snd (wv 0 (fun v => step <=? Z.abs v) (diff x)).
Proof.
  unfold fronts1. cbn [fst snd]. rewrite wv_fst. split; [reflexivity|].
  rewrite wv_snd. unfold gather. apply map_ext. intros j. now rewrite Z.sub_0_r.
Qed.

Lemma front_pairs_wv step x :
  front_pairs step x = map (fun p => (fst p + 1, snd p)) (wv 0 (fun v => step <=? Z.abs v) (diff x)).
Proof.
  unfold front_pairs. destruct (fronts1_wv step x) as [-> ->].
  apply (combine_map_fst_snd (fun i => i + 1)).
Qed.

Lemma fronts1_lengths step x : length (snd (fronts1 step x)) = length (fst (fronts1 step x)).
Proof. destruct (fronts1_wv step x) as [-> ->]. now rewrite !map_length. Qed.

Lemma diff_at x j : 0 <= j -> j + 1 < Z.of_nat (length x) ->
  nth (Z.to_nat j) (diff x) 0 = at_ x (j + 1) - at_ x j.
Proof.
  intros H0 H1. unfold at_. rewrite nth_diff by lia.
  replace (Z.to_nat (j + 1)) with (S (Z.to_nat j)) by lia. reflexivity.
Qed.

(* pairs: exactly the positions i >= 1 where the jump is at least `step`, with the jump *)
Lemma in_front_pairs step x i s :
  In (i, s) (front_pairs step x) <->
  1 <= i < Z.of_nat (length x) /\ s = at_ x i - at_ x (i - 1) /\ step <= Z.abs s.
Proof.
  rewrite front_pairs_wv, in_map_iff. split.
  - intros [[j v] [Heq H]]. cbn in Heq. inversion Heq; subst. apply in_wv in H.
    rewrite diff_length in H. destruct H as (H1 & H2 & H3).
    rewrite Z.sub_0_r in H2. rewrite diff_at in H2 by lia.
    replace (j + 1 - 1) with j by lia. apply Z.leb_le in H3. split; [lia|]. split; [exact H2|exact H3].
  - intros (H1 & H2 & H3). exists (i - 1, s). cbn. split; [f_equal; lia|].
    apply in_wv. rewrite diff_length. split; [lia|]. split.
    + rewrite Z.sub_0_r, diff_at by lia. replace (i - 1 + 1) with i by lia. exact H2.
    + apply Z.leb_le. exact H3.
Qed.

Lemma in_combine_fst {A B} (l : list A) (l' : list B) a : length l = length l' ->
  In a l -> exists b, In (a, b) (combine l l').
Proof.
  revert l'. induction l as [|x l IH]; intros [|y l'] Hl Hin; cbn in *; try lia; try tauto.
  destruct Hin as [->|Hin]; [exists y; auto|].
  destruct (IH l' ltac:(lia) Hin) as [b Hb]. exists b. auto.
Qed.

Lemma in_fronts1_ind step x i :
  In i (fst (fronts1 step x)) <->
  1 <= i < Z.of_nat (length x) /\ step <= Z.abs (at_ x i - at_ x (i - 1)).
Proof.
  split.
  - intros H. destruct (in_combine_fst _ (snd (fronts1 step x)) i (eq_sym (fronts1_lengths step x)) H) as [s Hs].
    apply in_front_pairs in Hs. destruct Hs as (H1 & -> & H3). auto.
  - intros [H1 H2].
    assert (Hp : In (i, at_ x i - at_ x (i - 1)) (front_pairs step x)) by (apply in_front_pairs; auto).
    apply in_combine_l in Hp. exact Hp.
Qed.

Lemma sorted_map_succ l : StronglySorted Z.lt l -> StronglySorted Z.lt (map (fun i => i + 1) l).
Proof.
  induction 1 as [|a l Hs IH Hf]; cbn; constructor; auto.
  apply Forall_forall. intros y Hy. apply in_map_iff in Hy. destruct Hy as [z [<- Hz]].
  rewrite Forall_forall in Hf. specialize (Hf z Hz). lia.
Qed.

Lemma fronts1_sorted step x : StronglySorted Z.lt (fst (fronts1 step x)).
Proof. destruct (fronts1_wv step x) as [-> _]. apply sorted_map_succ, wv_sorted. Qed.

(* polarity of the j-th front *)
Lemma fronts1_sign step x j : (j < length (fst (fronts1 step x)))%nat ->
  let i := nth j (fst (fronts1 step x)) 0 in
  nth j (snd (fronts1 step x)) 0 = at_ x i - at_ x (i - 1).
Proof.
  intros Hj i.
  assert (Hp : In (i, nth j (snd (fronts1 step x)) 0) (front_pairs step x)).
  { unfold front_pairs. subst i.
    rewrite <- (combine_nth _ _ j 0 0 (eq_sym (fronts1_lengths step x))).
    apply nth_In. rewrite combine_length, fronts1_lengths. lia. }
  apply in_front_pairs in Hp. tauto.
Qed.

(* rises / falls *)
Lemma in_where_from f l i j : In j (where_from i f l) <->
  i <= j < i + Z.of_nat (length l) /\ f (nth (Z.to_nat (j - i)) l 0) = true.
Proof.
  rewrite <- wv_fst, in_map_iff. split.
  - intros [[j' v] [Hj H]]. cbn in Hj. subst j'. apply in_wv in H. destruct H as (H1 & -> & H3). auto.
  - intros [H1 H2]. exists (j, nth (Z.to_nat (j - i)) l 0). split; [reflexivity|]. apply in_wv. auto.
Qed.

Lemma in_rises_raw s x i :
  In i (map (fun i => i + 1) (where_from 0 (fun v => s <=? v) (diff x))) <->
  1 <= i < Z.of_nat (length x) /\ s <= at_ x i - at_ x (i - 1).
Proof.
  rewrite in_map_iff. split.
  - intros [j [<- H]]. apply in_where_from in H. rewrite diff_length, Z.sub_0_r in H.
    destruct H as [H1 H2]. rewrite diff_at in H2 by lia. apply Z.leb_le in H2.
    replace (j + 1 - 1) with j by lia. split; [lia|exact H2].
  - intros [H1 H2]. exists (i - 1). split; [lia|]. apply in_where_from.
    rewrite diff_length, Z.sub_0_r. split; [lia|]. rewrite diff_at by lia. apply Z.leb_le.
    replace (i - 1 + 1) with i by lia. exact H2.
Qed.

Lemma in_rises1 s x i :
  In i (rises1 s false x) <-> 1 <= i < Z.of_nat (length x) /\ s <= at_ x i - at_ x (i - 1).
Proof. unfold rises1. apply in_rises_raw. Qed.

Lemma at_map g x i : 0 <= i < Z.of_nat (length x) -> g 0 = 0 \/ True -> at_ (map g x) i = g (at_ x i).
Proof.
  intros Hi _. unfold at_. rewrite (nth_indep _ 0 (g 0)) by (rewrite map_length; lia).
  apply map_nth.
Qed.

Lemma in_falls1 s x i :
  In i (falls1 s false x) <-> 1 <= i < Z.of_nat (length x) /\ at_ x i - at_ x (i - 1) <= s.
Proof.
  unfold falls1. rewrite in_rises1, map_length. split.
  - intros [H1 H2]. rewrite !at_map in H2 by (auto; lia). split; [lia|lia].
  - intros [H1 H2]. split; [lia|]. rewrite !at_map by (auto; lia). lia.
Qed.

Lemma in_rises1_analog s x i :
  In i (rises1 s true x) <-> 1 <= i < Z.of_nat (length x) /\ s < at_ x i /\ ~ s < at_ x (i - 1).
Proof.
  unfold rises1. rewrite in_rises_raw. unfold binarise. rewrite map_length. split.
  - intros [H1 H2]. rewrite !at_map in H2 by (auto; lia).
    destruct (s <? at_ x i) eqn:E1; destruct (s <? at_ x (i - 1)) eqn:E2;
      try apply Z.ltb_lt in E1; try apply Z.ltb_ge in E1;
      try apply Z.ltb_lt in E2; try apply Z.ltb_ge in E2; lia.
  - intros (H1 & H2 & H3). split; [lia|]. rewrite !at_map by (auto; lia).
    destruct (s <? at_ x i) eqn:E1; destruct (s <? at_ x (i - 1)) eqn:E2;
      try apply Z.ltb_lt in E1; try apply Z.ltb_ge in E1;
      try apply Z.ltb_lt in E2; try apply Z.ltb_ge in E2; lia.
Qed.

Lemma in_falls1_analog s x i :
  In i (falls1 s true x) <-> 1 <= i < Z.of_nat (length x) /\ at_ x i < s /\ ~ at_ x (i - 1) < s.
Proof.
  unfold falls1. rewrite in_rises1_analog, map_length. split.
  - intros (H1 & H2 & H3). rewrite !at_map in * by (auto; lia). lia.
  - intros (H1 & H2 & H3). rewrite !at_map by (auto; lia). lia.
Qed.

Lemma rises1_sorted s a x : StronglySorted Z.lt (rises1 s a x).
Proof. unfold rises1. apply sorted_map_succ. rewrite <- wv_fst. apply wv_sorted. Qed.

Lemma falls1_sorted s a x : StronglySorted Z.lt (falls1 s a x).
Proof. unfold falls1. apply rises1_sorted. Qed.

(* rises / falls are the positive / negative halves of fronts (step > 0) *)
Lemma wv_filter_pos s l : 0 < s -> forall i,
  filter (fun p => 0 <? snd p) (wv i (fun v => s <=? Z.abs v) l) = wv i (fun v => s <=? v) l.
Proof.
  intros Hs. induction l as [|v t IH]; intros i; cbn [wv]; [reflexivity|].
  destruct (s <=? Z.abs v) eqn:E1; destruct (s <=? v) eqn:E2;
    try apply Z.leb_le in E1; try apply Z.leb_gt in E1; try apply Z.leb_le in E2; try apply Z.leb_gt in E2;
    cbn [filter snd]; try lia.
  - destruct (0 <? v) eqn:E3; [|apply Z.ltb_ge in E3; lia]. now rewrite IH.
  - destruct (0 <? v) eqn:E3; [apply Z.ltb_lt in E3; lia|]. apply IH.
  - apply IH.
Qed.

Lemma wv_filter_neg s l : 0 < s -> forall i,
  filter (fun p => snd p <? 0) (wv i (fun v => s <=? Z.abs v) l) = wv i (fun v => v <=? - s) l.
Proof.
  intros Hs. induction l as [|v t IH]; intros i; cbn [wv]; [reflexivity|].
  destruct (s <=? Z.abs v) eqn:E1; destruct (v <=? - s) eqn:E2;
    try apply Z.leb_le in E1; try apply Z.leb_gt in E1; try apply Z.leb_le in E2; try apply Z.leb_gt in E2;
    cbn [filter snd]; try lia.
  - destruct (v <? 0) eqn:E3; [|apply Z.ltb_ge in E3; lia]. now rewrite IH.
  - destruct (v <? 0) eqn:E3; [apply Z.ltb_lt in E3; lia|]. apply IH.
  - apply IH.
Qed.

Lemma filter_map_comm {A B} (g : A -> B) (p : B -> bool) (l : list A) :
  filter p (map g l) = map g (filter (fun a => p (g a)) l).
Proof. induction l as [|a l IH]; cbn; [reflexivity|]. destruct (p (g a)); cbn; now rewrite IH. Qed.

Lemma wv_ext f g l : (forall v, f v = g v) -> forall i, wv i f l = wv i g l.
Proof. intros H. induction l as [|v t IH]; intros i; cbn; [reflexivity|]. rewrite H, IH. reflexivity. Qed.

Lemma rises_is_positive_half s x : 0 < s ->
  rises1 s false x = map fst (filter (fun p => 0 <? snd p) (front_pairs s x)).
Proof.
  intros Hs. rewrite front_pairs_wv, filter_map_comm. cbn [snd].
  rewrite (wv_filter_pos s _ Hs). rewrite map_map. cbn [fst].
  unfold rises1. rewrite <- wv_fst, map_map. reflexivity.
Qed.

Lemma falls_is_negative_half s x : 0 < s ->
  falls1 (- s) false x = map fst (filter (fun p => snd p <? 0) (front_pairs s x)).
Proof.
  intros Hs. rewrite front_pairs_wv, filter_map_comm. cbn [snd].
  rewrite (wv_filter_neg s _ Hs). rewrite map_map. cbn [fst].
  unfold falls1, rises1. rewrite Z.opp_involutive, diff_opp. rewrite <- wv_fst, map_map.
  generalize (diff x) 0. clear. intros l.
  induction l as [|v t IH]; intros i; cbn [map wv]; [reflexivity|].
  replace (s <=? - v) with (v <=? - s).
  - destruct (v <=? - s); cbn [map fst]; now rewrite IH.
  - destruct (v <=? - s) eqn:E1; destruct (s <=? - v) eqn:E2; try reflexivity;
      try apply Z.leb_le in E1; try apply Z.leb_gt in E1; try apply Z.leb_le in E2; try apply Z.leb_gt in E2; lia.
Qed.

(* two strictly increasing lists with the same members are equal *)
Lemma sorted_ext (a b : list Z) : StronglySorted Z.lt a -> StronglySorted Z.lt b ->
  (forall x, In x a <-> In x b) -> a = b.
Proof.
  revert b. induction a as [|x a IH]; intros b Ha Hb H.
  - destruct b as [|y b]; [reflexivity|]. exfalso. apply (H y). left; reflexivity.
  - destruct b as [|y b]; [exfalso; apply (H x); left; reflexivity|].
    inversion Ha as [|? ? Ha' Fa]; subst. inversion Hb as [|? ? Hb' Fb]; subst.
    rewrite Forall_forall in Fa, Fb.
    assert (x = y).
    { destruct (proj1 (H x) (or_introl eq_refl)) as [->|Hx]; [reflexivity|].
      destruct (proj2 (H y) (or_introl eq_refl)) as [->|Hy]; [reflexivity|].
      specialize (Fa y Hy). specialize (Fb x Hx). lia. }
    subst y. f_equal. apply IH; auto. intros z. split; intros Hz.
    + destruct (proj1 (H z) (or_intror Hz)) as [->|]; [|assumption]. specialize (Fa z Hz). lia.
    + destruct (proj2 (H z) (or_intror Hz)) as [->|]; [|assumption]. specialize (Fb z Hz). lia.
Qed.

(* ------------------------------------------------------------------ *)
(* writing TTL trains into words and reading them back                 *)
(* ------------------------------------------------------------------ *)

Definition binary (l : list Z) : Prop := forall b, In b l -> b = 0 \/ b = 1.

Lemma encode_bits_testbit l : binary l -> forall k, 0 <= k ->
  Z.b2z (Z.testbit (encode_bits l) k) = nth (Z.to_nat k) l 0.
Proof.
  induction l as [|b t IH]; intros Hb k Hk.
  - cbn [encode_bits]. rewrite Z.testbit_0_l. destruct (Z.to_nat k); reflexivity.
  - cbn [encode_bits].
    assert (Hbt : binary t) by (intros c Hc; apply Hb; right; exact Hc).
    assert (Hb0 : exists bb, b = Z.b2z bb).
    { destruct (Hb b (or_introl eq_refl)) as [->| ->]; [exists false|exists true]; reflexivity. }
    destruct Hb0 as [bb ->].
    replace (Z.b2z bb + 2 * encode_bits t) with (2 * encode_bits t + Z.b2z bb) by lia.
    destruct (Z.eq_dec k 0) as [->|Hne].
    + rewrite Z.testbit_0_r. reflexivity.
    + replace k with (Z.succ (k - 1)) at 1 by lia. rewrite Z.testbit_succ_r by lia.
      rewrite IH by (auto; lia).
      replace (Z.to_nat k) with (S (Z.to_nat (k - 1))) by lia. reflexivity.
Qed.

Lemma testbit_to_int16 v k : 0 <= k < 16 -> Z.testbit (to_int16 v) k = Z.testbit v k.
Proof.
  intros Hk. rewrite <- (Z.mod_pow2_bits_low (to_int16 v) 16 k) by lia.
  change (2 ^ 16) with 65536. rewrite to_int16_mod. change 65536 with (2 ^ 16).
  apply Z.mod_pow2_bits_low. lia.
Qed.

(* decoding the word that encodes 16 line levels gives the levels back *)
Lemma decode_encode levels : length levels = 16%nat -> binary levels ->
  split_word (encode_word levels) = levels.
Proof.
  intros Hl Hb. apply (nth_ext _ _ 0 0).
  - now rewrite split_word_length.
  - intros n Hn. rewrite split_word_length in Hn.
    replace n with (Z.to_nat (Z.of_nat n)) by lia.
    rewrite split_word_bits by lia. unfold encode_word.
    rewrite testbit_to_int16 by lia. apply encode_bits_testbit; [exact Hb|lia].
Qed.

Lemma encode_bits_range l : binary l -> 0 <= encode_bits l < 2 ^ Z.of_nat (length l).
Proof.
  induction l as [|b t IH]; intros Hb.
  - cbn. lia.
  - assert (Hbt : binary t) by (intros c Hc; apply Hb; right; exact Hc).
    specialize (IH Hbt). cbn [encode_bits length].
    rewrite Nat2Z.inj_succ, Z.pow_succ_r by lia.
    destruct (Hb b (or_introl eq_refl)) as [->| ->]; lia.
Qed.

Lemma encode_word_int16 l : -32768 <= encode_word l < 32768.
Proof. apply to_int16_range. Qed.

Lemma nth_zrange n i : (i < n)%nat -> nth i (zrange n) 0 = Z.of_nat i.
Proof.
  intros Hi. unfold zrange. rewrite (nth_indep _ 0 (Z.of_nat 0)) by (rewrite map_length, seq_length; lia).
  rewrite map_nth, seq_nth by lia. reflexivity.
Qed.

Lemma at_train g ns i : 0 <= i < Z.of_nat ns -> at_ (map g (zrange ns)) i = g i.
Proof.
  intros Hi. unfold at_. rewrite (nth_indep _ 0 (g 0)) by (rewrite map_length, zrange_length; lia).
  rewrite map_nth, nth_zrange by lia. f_equal. lia.
Qed.

Lemma sorted_lt_NoDup l : StronglySorted Z.lt l -> NoDup l.
Proof.
  induction 1 as [|a l Hs IH Hf]; constructor; auto.
  intros Hin. rewrite Forall_forall in Hf. specialize (Hf a Hin). lia.
Qed.

Lemma count_le_step t evs : NoDup evs ->
  (In t evs -> count_le t evs = count_le (t - 1) evs + 1) /\
  (~ In t evs -> count_le t evs = count_le (t - 1) evs).
Proof.
  unfold count_le. induction 1 as [|e evs Hnin Hnd IH]; [cbn; tauto|].
  cbn [filter]. destruct IH as [IH1 IH2].
  destruct (Z.eq_dec e t) as [->|Hne].
  - rewrite Z.leb_refl. replace (t <=? t - 1) with false by (symmetry; apply Z.leb_gt; lia).
    split; [intros _|intros Hc; exfalso; apply Hc; left; reflexivity].
    cbn [length]. rewrite Nat2Z.inj_succ. specialize (IH2 Hnin). lia.
  - assert (Heq : (e <=? t) = (e <=? t - 1)).
    { destruct (e <=? t) eqn:E1; destruct (e <=? t - 1) eqn:E2; try reflexivity;
        try apply Z.leb_le in E1; try apply Z.leb_gt in E1; try apply Z.leb_le in E2; try apply Z.leb_gt in E2; lia. }
    rewrite Heq. split.
    + intros [Hc|Hin]; [congruence|]. specialize (IH1 Hin).
      destruct (e <=? t - 1); cbn [length]; rewrite ?Nat2Z.inj_succ; lia.
    + intros Hnin'. assert (Hn : ~ In t evs) by (intros Hc; apply Hnin'; right; exact Hc).
      specialize (IH2 Hn). destruct (e <=? t - 1); cbn [length]; rewrite ?Nat2Z.inj_succ; lia.
Qed.

Lemma level_binary init evs t : level init evs t = 0 \/ level init evs t = 1.
Proof. unfold level. pose proof (Z.mod_pos_bound (init + count_le t evs) 2 ltac:(lia)). lia. Qed.

Lemma level_toggle init evs t : NoDup evs -> In t evs ->
  level init evs t = 1 - level init evs (t - 1).
Proof.
  intros Hnd Hin. unfold level. destruct (count_le_step t evs Hnd) as [H _]. rewrite (H Hin).
  replace (init + (count_le (t - 1) evs + 1)) with (init + count_le (t - 1) evs + 1) by lia.
  generalize (init + count_le (t - 1) evs). intros a.
  pose proof (Z.div_mod a 2 ltac:(lia)). pose proof (Z.mod_pos_bound a 2 ltac:(lia)).
  pose proof (Z.div_mod (a + 1) 2 ltac:(lia)). pose proof (Z.mod_pos_bound (a + 1) 2 ltac:(lia)). lia.
Qed.

Lemma level_keep init evs t : NoDup evs -> ~ In t evs ->
  level init evs t = level init evs (t - 1).
Proof.
  intros Hnd Hin. unfold level. destruct (count_le_step t evs Hnd) as [_ H]. now rewrite (H Hin).
Qed.

(* fronts on a rendered line: exactly the event times, each with the polarity
   of the transition *)
Lemma fronts_of_train init evs ns :
  StronglySorted Z.lt evs -> (forall e, In e evs -> 1 <= e < Z.of_nat ns) ->
  let L := map (level init evs) (zrange ns) in
  fst (fronts1 1 L) = evs /\
  length (snd (fronts1 1 L)) = length evs /\
  forall j, (j < length evs)%nat ->
    let e := nth j evs 0 in
    nth j (snd (fronts1 1 L)) 0 = 1 - 2 * level init evs (e - 1) /\
    level init evs e = 1 - level init evs (e - 1).
Proof.
  intros Hs Hr L. pose proof (sorted_lt_NoDup evs Hs) as Hnd.
  assert (HL : length L = ns) by (unfold L; now rewrite map_length, zrange_length).
  assert (Hind : fst (fronts1 1 L) = evs).
  { apply sorted_ext; [apply fronts1_sorted|exact Hs|]. intros i. rewrite in_fronts1_ind, HL. split.
    - intros [H1 H2]. unfold L in H2. rewrite !at_train in H2 by lia.
      destruct (in_dec Z.eq_dec i evs) as [Hin|Hnin]; [exact Hin|].
      rewrite (level_keep init evs i Hnd Hnin) in H2. lia.
    - intros Hin. specialize (Hr i Hin). split; [lia|]. unfold L. rewrite !at_train by lia.
      rewrite (level_toggle init evs i Hnd Hin).
      destruct (level_binary init evs (i - 1)) as [->| ->]; cbn; lia. }
  split; [exact Hind|]. split; [rewrite fronts1_lengths, Hind; reflexivity|].
  intros j Hj e.
  assert (Hin : In e evs) by (apply nth_In; exact Hj).
  pose proof (Hr e Hin) as He.
  split; [|apply level_toggle; auto].
  pose proof (fronts1_sign 1 L j) as Hsg. rewrite Hind in Hsg. specialize (Hsg Hj). cbv zeta in Hsg.
  fold e in Hsg. rewrite Hsg. unfold L. rewrite !at_train by lia.
  rewrite (level_toggle init evs e Hnd Hin). lia.
Qed.

Lemma render_row_ok lines t :
  binary (map (fun l : Z * list Z => level (fst l) (snd l) t) lines).
Proof.
  intros b Hb. apply in_map_iff in Hb. destruct Hb as [l [<- _]]. apply level_binary.
Qed.

Lemma column_roundtrip ns lines k : length lines = 16%nat -> (k < 16)%nat ->
  column k (split_sync (map encode_word (render ns lines))) =
  map (level (fst (nth k lines (0, []))) (snd (nth k lines (0, [])))) (zrange ns).
Proof.
  intros Hl Hk. unfold column, split_sync, render. rewrite !map_map. apply map_ext. intros t.
  rewrite decode_encode; [|now rewrite map_length|apply render_row_ok].
  rewrite (nth_indep _ 0 ((fun l : Z * list Z => level (fst l) (snd l) t) (0, [])))
    by (rewrite map_length; lia).
  exact (map_nth (fun l : Z * list Z => level (fst l) (snd l) t) lines (0, []) k).
Qed.

(* End to end. *)
Lemma ttl_end_to_end ns lines k init evs :
  length lines = 16%nat -> (k < 16)%nat -> nth k lines (0, []) = (init, evs) ->
  StronglySorted Z.lt evs -> (forall e, In e evs -> 1 <= e < Z.of_nat ns) ->
  fst (ttl_roundtrip ns lines k) = evs /\
  length (snd (ttl_roundtrip ns lines k)) = length evs /\
  forall j, (j < length evs)%nat ->
    let e := nth j evs 0 in
    nth j (snd (ttl_roundtrip ns lines k)) 0 = 1 - 2 * level init evs (e - 1) /\
    level init evs e = 1 - level init evs (e - 1).
Proof.
  intros Hl Hk Hnth Hs Hr. unfold ttl_roundtrip. rewrite column_roundtrip by assumption.
  rewrite Hnth. cbn [fst snd]. apply fronts_of_train; assumption.
Qed.

(* the words written are a faithful image of the levels: decoding any of them
   gives the 16 levels of that sample *)
Lemma words_decode ns lines t : length lines = 16%nat -> (t < ns)%nat ->
  nth t (split_sync (map encode_word (render ns lines))) [] =
  map (fun l : Z * list Z => level (fst l) (snd l) (Z.of_nat t)) lines.
Proof.
  intros Hl Ht. unfold split_sync, render. rewrite !map_map.
  set (g := fun x => split_word (encode_word
     (map (fun l : Z * list Z => level (fst l) (snd l) x) lines))).
  rewrite (nth_indep _ [] (g 0)) by (rewrite map_length, zrange_length; lia).
  rewrite (map_nth g), nth_zrange by lia. unfold g.
  apply decode_encode; [now rewrite map_length|apply render_row_ok].
Qed.

(* ------------------------------------------------------------------ *)
(* analog thresholding                                                 *)
(* ------------------------------------------------------------------ *)

Lemma digitise_spec one thr fl v : 0 < one -> 0 < thr ->
  digitise one thr fl v = if thr <=? v - fl then 1 else 0.
Proof.
  intros Ho Ht. unfold digitise.
  destruct (v - fl <? thr) eqn:E1; [apply Z.ltb_lt in E1|apply Z.ltb_ge in E1].
  - replace (thr <=? 0) with false by (symmetry; apply Z.leb_gt; lia).
    replace (thr <=? v - fl) with false by (symmetry; apply Z.leb_gt; lia).
    apply Z.quot_0_l. lia.
  - replace (thr <=? v - fl) with true by (symmetry; apply Z.leb_le; lia).
    apply Z.quot_same. lia.
Qed.

Lemma digitise_nonpos_thr one thr fl v : 0 < one -> thr <= 0 -> digitise one thr fl v = 1.
Proof.
  intros Ho Ht. unfold digitise.
  destruct (v - fl <? thr) eqn:E1; [apply Z.ltb_lt in E1|apply Z.ltb_ge in E1].
  - replace (thr <=? 0) with true by (symmetry; apply Z.leb_le; lia). apply Z.quot_same. lia.
  - replace (thr <=? v - fl) with true by (symmetry; apply Z.leb_le; lia). apply Z.quot_same. lia.
Qed.

Lemma digitise_binary one thr fl v : 0 < one -> digitise one thr fl v = 0 \/ digitise one thr fl v = 1.
Proof.
  intros Ho. destruct (Z_lt_le_dec 0 thr) as [Ht|Ht].
  - rewrite digitise_spec by assumption. destruct (thr <=? v - fl); auto.
  - right. now apply digitise_nonpos_thr.
Qed.

(* ------------------------------------------------------------------ *)
(* read_sync layout                                                    *)
(* ------------------------------------------------------------------ *)

Lemma slice_rows_length {A} start stop (rows : list A) :
  length (slice_rows start stop rows) =
  Z.to_nat (snd (slice_first_count start stop (Z.of_nat (length rows)))).
Proof.
  unfold slice_rows, slice_first_count, adjust.
  set (n := Z.of_nat (length rows)).
  rewrite firstn_length, skipn_length. cbn [snd].
  destruct (start <? 0) eqn:E1; destruct (stop <? 0) eqn:E2;
    try apply Z.ltb_lt in E1; try apply Z.ltb_ge in E1; try apply Z.ltb_lt in E2; try apply Z.ltb_ge in E2;
    subst n; lia.
Qed.

Lemma nth_firstn_lt {A} (l : list A) d : forall n j, (j < n)%nat -> nth j (firstn n l) d = nth j l d.
Proof.
  induction l as [|a l IH]; intros [|n] [|j] H; cbn; try reflexivity; try lia. apply IH. lia.
Qed.

Lemma nth_skipn_add {A} (l : list A) d : forall n j, nth j (skipn n l) d = nth (n + j) l d.
Proof.
  induction l as [|a l IH]; intros [|n] j; cbn [skipn Nat.add]; try reflexivity.
  - destruct j; reflexivity.
  - cbn [nth]. apply IH.
Qed.

Lemma slice_rows_nth {A} start stop (rows : list A) d j :
  (j < length (slice_rows start stop rows))%nat ->
  nth j (slice_rows start stop rows) d =
  nth (Z.to_nat (fst (slice_first_count start stop (Z.of_nat (length rows)))) + j) rows d.
Proof.
  intros Hj. pose proof (slice_rows_length start stop rows) as Hl.
  unfold slice_rows in *. destruct (slice_first_count start stop (Z.of_nat (length rows))) as [a c].
  cbn [fst snd] in *. rewrite firstn_length in Hj.
  rewrite nth_firstn_lt by lia. apply nth_skipn_add.
Qed.

Lemma In_firstn {A} (l : list A) x : forall n, In x (firstn n l) -> In x l.
Proof. induction l as [|a l IH]; intros [|n] H; cbn in *; try tauto. destruct H; auto. right. eauto. Qed.

Lemma In_skipn {A} (l : list A) x : forall n, In x (skipn n l) -> In x l.
Proof. induction l as [|a l IH]; intros [|n] H; cbn in *; try tauto. right. eauto. Qed.

Lemma slice_rows_incl {A} start stop (rows : list A) r :
  In r (slice_rows start stop rows) -> In r rows.
Proof.
  unfold slice_rows. destruct (slice_first_count _ _ _) as [a c]. intros H.
  apply In_firstn in H. now apply In_skipn in H.
Qed.

Lemma get_col_ok row i : 0 <= i < Z.of_nat (length row) ->
  get_col row i = Some (nth (Z.to_nat i) row 0).
Proof.
  intros Hi. unfold get_col. replace (i <? 0) with false by (symmetry; apply Z.ltb_ge; lia).
  replace (0 <=? i) with true by (symmetry; apply Z.leb_le; lia).
  replace (i <? Z.of_nat (length row)) with true by (symmetry; apply Z.ltb_lt; lia).
  cbn [andb]. apply nth_error_nth'. lia.
Qed.

Lemma all_some_map {A B} (f : A -> option B) (g : A -> B) l :
  (forall x, In x l -> f x = Some (g x)) -> all_some (map f l) = Some (map g l).
Proof.
  induction l as [|a l IH]; intros H; cbn [map all_some]; [reflexivity|].
  rewrite (H a (or_introl eq_refl)), IH by (intros x Hx; apply H; right; exact Hx). reflexivity.
Qed.

Lemma hconcat_map {A} (f g : A -> list Z) l :
  hconcat (map f l) (map g l) = Some (map (fun r => f r ++ g r) l).
Proof. induction l as [|a l IH]; cbn [map hconcat]; [reflexivity|]. now rewrite IH. Qed.

Lemma combine_self_map {A B} (h : A -> B) l : combine l (map h l) = map (fun k => (k, h k)) l.
Proof. induction l as [|a l IH]; cbn; [reflexivity|]. now rewrite IH. Qed.

(* entry k of the digitised analog part *)
Lemma digitise_row_nth one thr gain floors vals k : (k < length vals)%nat ->
  nth k (digitise_row one thr gain floors vals) 0 =
  digitise one thr (floor_at floors k) (nth k vals 0 * gain).
Proof.
  intros Hk. unfold digitise_row.
  set (F := fun kv : nat * Z => digitise one thr (floor_at floors (fst kv)) (snd kv * gain)).
  rewrite (nth_indep _ 0 (F (0%nat, 0))) by (rewrite map_length, combine_length, seq_length; lia).
  rewrite (map_nth F). rewrite combine_nth by (now rewrite seq_length).
  rewrite seq_nth by lia. reflexivity.
Qed.

Lemma digitise_row_length one thr gain floors vals :
  length (digitise_row one thr gain floors vals) = length vals.
Proof. unfold digitise_row. rewrite map_length, combine_length, seq_length. lia. Qed.

Lemma analog_indices_spec typ c0 c1 c2 c3 :
  analog_indices typ c0 c1 c2 c3 =
  if typ =? 1 then map (fun i => c0 + c1 + Z.of_nat i) (seq 0 (Z.to_nat c2)) else [].
Proof. unfold analog_indices, zrange. destruct (typ =? 1); [|reflexivity]. now rewrite map_map. Qed.

(* the analog values of one raw row *)
Definition analog_cols (typ c0 c1 c2 c3 : Z) (r : list Z) : list Z :=
  map (fun i => nth (Z.to_nat i) r 0) (analog_indices typ c0 c1 c2 c3).

(* the analog volts of the selected rows, as read_sync_analog returns them *)
Definition analog_volts (typ c0 c1 c2 c3 gain : Z) (sel : list (list Z)) : list (list Z) :=
  map (fun r => map (fun v => v * gain) (analog_cols typ c0 c1 c2 c3 r)) sel.

Lemma read_sync_digital_one typ ntr c0 c1 c2 c3 start stop raw :
  nsync_of typ c0 c1 c2 c3 = 1 -> 1 <= ntr ->
  (forall r, In r raw -> Z.of_nat (length r) = ntr) ->
  read_sync_digital typ ntr c0 c1 c2 c3 start stop raw =
  Some (map (fun r => split_word (nth (Z.to_nat (ntr - 1)) r 0)) (slice_rows start stop raw)).
Proof.
  intros Hns Hntr Hrect. set (sel := slice_rows start stop raw).
  assert (Hsel : forall r, In r sel -> Z.of_nat (length r) = ntr).
  { intros r Hr. apply Hrect. unfold sel in Hr. now apply slice_rows_incl in Hr. }
  unfold read_sync_digital, sync_indices. rewrite Hns. fold sel.
  change (zrange (Z.to_nat 1)) with [0]. cbn [map].
  rewrite (all_some_map _ (fun r => nth (Z.to_nat (ntr - 1)) r 0)).
  - unfold split_sync. now rewrite map_map.
  - intros r Hr. replace (ntr - 1 + 0) with (ntr - 1) by lia. apply get_col_ok.
    rewrite (Hsel r Hr). lia.
Qed.

Lemma read_sync_analog_ok typ ntr c0 c1 c2 c3 start stop gain raw :
  (forall r, In r raw -> Z.of_nat (length r) = ntr) ->
  (forall i, In i (analog_indices typ c0 c1 c2 c3) -> 0 <= i < ntr) ->
  read_sync_analog typ ntr c0 c1 c2 c3 start stop gain raw =
  Some (match analog_indices typ c0 c1 c2 c3 with
        | [] => None
        | _ => Some (analog_volts typ c0 c1 c2 c3 gain (slice_rows start stop raw))
        end).
Proof.
  intros Hrect Hidx. set (sel := slice_rows start stop raw).
  assert (Hsel : forall r, In r sel -> Z.of_nat (length r) = ntr).
  { intros r Hr. apply Hrect. unfold sel in Hr. now apply slice_rows_incl in Hr. }
  unfold read_sync_analog, analog_volts, analog_cols. fold sel.
  destruct (analog_indices typ c0 c1 c2 c3) as [|i0 idx] eqn:Eidx; [reflexivity|].
  rewrite (all_some_map _ (fun r => map (fun i => nth (Z.to_nat i) r 0) (i0 :: idx))).
  - now rewrite map_map.
  - intros r Hr. unfold gather_cols. apply all_some_map. intros i Hi. apply get_col_ok.
    rewrite (Hsel r Hr). apply Hidx. exact Hi.
Qed.

(* read_sync = digital lines ++ thresholded analog lines, row by row; total in the one-word
   domain (since repair 5bea0f5 an empty selection skips the floor and returns zero rows) *)
Lemma read_sync_layout_total typ ntr c0 c1 c2 c3 start stop one thr gain use_floor raw :
  nsync_of typ c0 c1 c2 c3 = 1 -> 1 <= ntr ->
  (forall r, In r raw -> Z.of_nat (length r) = ntr) ->
  (forall i, In i (analog_indices typ c0 c1 c2 c3) -> 0 <= i < ntr) ->
  let sel := slice_rows start stop raw in
  let an := analog_volts typ c0 c1 c2 c3 gain sel in
  let floors := floors_of use_floor an (length (analog_indices typ c0 c1 c2 c3)) in
  read_sync typ ntr c0 c1 c2 c3 start stop one thr gain use_floor raw =
  Some (map (fun r => split_word (nth (Z.to_nat (ntr - 1)) r 0)
                      ++ digitise_row (10 * one) (10 * thr) 10 floors
                           (map (fun v => v * gain) (analog_cols typ c0 c1 c2 c3 r)))
            sel).
Proof.
  intros Hns Hntr Hrect Hidx sel an floors.
  unfold read_sync. rewrite (read_sync_digital_one _ _ _ _ _ _ _ _ _ Hns Hntr Hrect).
  rewrite (read_sync_analog_ok _ _ _ _ _ _ _ _ _ _ Hrect Hidx). fold sel.
  unfold floors, an, analog_volts, analog_cols.
  destruct (analog_indices typ c0 c1 c2 c3) as [|i0 idx] eqn:Eidx.
  - apply f_equal. apply map_ext. intros r. cbn [map]. unfold digitise_row.
    cbn [length seq combine map]. symmetry. apply app_nil_r.
  - rewrite map_map. apply hconcat_map.
Qed.

(* the same with the (now unnecessary) side condition of earlier rounds, kept for the lemmas built on it *)
Lemma read_sync_layout typ ntr c0 c1 c2 c3 start stop one thr gain use_floor raw :
  nsync_of typ c0 c1 c2 c3 = 1 -> 1 <= ntr ->
  (forall r, In r raw -> Z.of_nat (length r) = ntr) ->
  (forall i, In i (analog_indices typ c0 c1 c2 c3) -> 0 <= i < ntr) ->
  (use_floor = false \/ slice_rows start stop raw <> [] \/ analog_indices typ c0 c1 c2 c3 = []) ->
  let sel := slice_rows start stop raw in
  let an := analog_volts typ c0 c1 c2 c3 gain sel in
  let floors := floors_of use_floor an (length (analog_indices typ c0 c1 c2 c3)) in
  read_sync typ ntr c0 c1 c2 c3 start stop one thr gain use_floor raw =
  Some (map (fun r => split_word (nth (Z.to_nat (ntr - 1)) r 0)
                      ++ digitise_row (10 * one) (10 * thr) 10 floors
                           (map (fun v => v * gain) (analog_cols typ c0 c1 c2 c3 r)))
            sel).
Proof. intros Hns Hntr Hrect Hidx _. now apply read_sync_layout_total. Qed.

(* ------------------------------------------------------------------ *)
(* fronts on 2-D arrays                                                *)
(* ------------------------------------------------------------------ *)

(* axis 1 (the default, axis=-1): the rows one after the other, each with its own fronts *)
Fixpoint per_row_fronts (r step : Z) (x : list (list Z)) : list (Z * Z * Z) :=
  match x with
  | [] => []
  | row :: t => map (fun p => (r, fst p, snd p)) (front_pairs step row) ++ per_row_fronts (r + 1) step t
  end.

Lemma where2_row f d r :
  map (bump 1) (map (fun c => (r, c, nth (Z.to_nat c) d 0)) (where_from 0 f d)) =
  map (fun p => (r, fst p + 1, snd p)) (wv 0 f d).
Proof.
  rewrite <- wv_fst, !map_map. apply map_ext_in. intros [j v] H. apply in_wv in H.
  cbn [fst snd bump]. change (1 =? 0) with false. cbv iota.
  destruct H as (_ & -> & _). now rewrite Z.sub_0_r.
Qed.

Lemma fronts2_axis1 step x : fronts2 1 step x = per_row_fronts 0 step x.
Proof.
  unfold fronts2, diff2. change (1 =? 0) with false. cbv iota. generalize 0.
  induction x as [|row t IH]; intros r; cbn [map where2_from per_row_fronts]; [reflexivity|].
  rewrite map_app, IH. f_equal. rewrite where2_row, front_pairs_wv, map_map. reflexivity.
Qed.

(* axis 0: differences of consecutive rows *)
Definition at2 (x : list (list Z)) (r c : Z) : Z := nth (Z.to_nat c) (nth (Z.to_nat r) x []) 0.

Lemma map2_length f a : forall b, length (map2 f a b) = Nat.min (length a) (length b).
Proof. induction a as [|x a IH]; intros [|y b]; cbn; try reflexivity. now rewrite IH. Qed.

Lemma nth_map2 f a : forall b c, (c < length a)%nat -> (c < length b)%nat ->
  nth c (map2 f a b) 0 = f (nth c a 0) (nth c b 0).
Proof.
  induction a as [|x a IH]; intros [|y b] [|c] Ha Hb; cbn in *; try lia; try reflexivity.
  apply IH; lia.
Qed.

Lemma diff_rows_cons2 a b t : diff_rows (a :: b :: t) = map2 Z.sub b a :: diff_rows (b :: t).
Proof. reflexivity. Qed.

Lemma diff_rows_length x : length (diff_rows x) = (length x - 1)%nat.
Proof.
  induction x as [|a t IH]; [reflexivity|]. destruct t as [|b t]; [reflexivity|].
  rewrite diff_rows_cons2. cbn [length] in *. rewrite IH. lia.
Qed.

Lemma nth_diff_rows x : forall i, (S i < length x)%nat ->
  nth i (diff_rows x) [] = map2 Z.sub (nth (S i) x []) (nth i x []).
Proof.
  induction x as [|a t IH]; intros i Hi; [cbn in Hi; lia|].
  destruct t as [|b t]; [cbn in Hi; lia|]. rewrite diff_rows_cons2.
  destruct i as [|i]; [reflexivity|].
  cbn [nth]. rewrite IH by (cbn [length] in *; lia). reflexivity.
Qed.

Lemma in_where2_from f d : forall r0 r c v, In (r, c, v) (where2_from r0 f d) <->
  r0 <= r < r0 + Z.of_nat (length d) /\
  0 <= c < Z.of_nat (length (nth (Z.to_nat (r - r0)) d [])) /\
  v = nth (Z.to_nat c) (nth (Z.to_nat (r - r0)) d []) 0 /\ f v = true.
Proof.
  induction d as [|row t IH]; intros r0 r c v; cbn [where2_from length].
  - split; [intros []|lia].
  - rewrite in_app_iff, IH, in_map_iff. split.
    + intros [[c' [Heq Hc']] | (H1 & H2 & H3 & H4)].
      * inversion Heq; subst. apply in_where_from in Hc'. rewrite Z.sub_0_r in Hc'.
        replace (r - r) with 0 by lia. cbn [Z.to_nat nth]. split; [lia|]. split; [lia|]. tauto.
      * replace (Z.to_nat (r - r0)) with (S (Z.to_nat (r - (r0 + 1)))) by lia. cbn [nth].
        split; [lia|]. auto.
    + intros (H1 & H2 & H3 & H4). destruct (Z.eq_dec r r0) as [->|Hne].
      * left. replace (r0 - r0) with 0 in * by lia. cbn [Z.to_nat nth] in *.
        exists c. split; [now subst v|]. apply in_where_from. rewrite Z.sub_0_r. split; [lia|]. now subst v.
      * right. replace (Z.to_nat (r - r0)) with (S (Z.to_nat (r - (r0 + 1)))) in * by lia.
        cbn [nth] in *. split; [lia|]. auto.
Qed.

Lemma in_fronts2_axis0 step nc x r c s :
  Forall (fun row => length row = nc) x ->
  In (r, c, s) (fronts2 0 step x) <->
  1 <= r < Z.of_nat (length x) /\ 0 <= c < Z.of_nat nc /\
  s = at2 x r c - at2 x (r - 1) c /\ step <= Z.abs s.
Proof.
  intros Hrect. rewrite Forall_forall in Hrect.
  assert (Hlen : forall i, (i < length x)%nat -> length (nth i x []) = nc)
    by (intros i Hi; apply Hrect, nth_In, Hi).
  unfold fronts2, diff2. change (0 =? 0) with true. cbv iota.
  rewrite in_map_iff. split.
  - intros [[[r' c'] v] [Hb H]]. unfold bump in Hb. change (0 =? 0) with true in Hb. cbv iota in Hb.
    inversion Hb; subst. apply in_where2_from in H. rewrite diff_rows_length, Z.sub_0_r in H.
    destruct H as (H1 & H2 & H3 & H4).
    rewrite nth_diff_rows in H2, H3 by lia.
    rewrite map2_length, !Hlen in H2 by lia.
    rewrite nth_map2 in H3 by (rewrite Hlen; lia). apply Z.leb_le in H4.
    unfold at2. replace (Z.to_nat (r' + 1)) with (S (Z.to_nat r')) by lia.
    replace (r' + 1 - 1) with r' by lia. split; [lia|]. split; [lia|]. auto.
  - intros (H1 & H2 & H3 & H4). exists (r - 1, c, s). split.
    + unfold bump. change (0 =? 0) with true. cbv iota. f_equal. f_equal. lia.
    + apply in_where2_from. rewrite diff_rows_length, Z.sub_0_r.
      rewrite nth_diff_rows by lia. rewrite map2_length, !Hlen by lia.
      rewrite nth_map2 by (rewrite Hlen; lia).
      split; [lia|]. split; [lia|]. split; [|apply Z.leb_le; exact H4].
      unfold at2 in H3. replace (S (Z.to_nat (r - 1))) with (Z.to_nat r) by lia. exact H3.
Qed.

Lemma at_column x c r : at_ (column c x) r = at2 x r (Z.of_nat c).
Proof.
  unfold at_, at2, column. rewrite Nat2Z.id.
  assert (H0 : nth c (@nil Z) 0 = 0) by (destruct c; reflexivity).
  rewrite <- H0 at 1. exact (map_nth (fun row => nth c row 0) x [] (Z.to_nat r)).
Qed.

(* axis 0 = per-trace fronts of every column *)
Lemma fronts2_axis0_per_column step nc x r c s :
  Forall (fun row => length row = nc) x ->
  In (r, c, s) (fronts2 0 step x) <->
  0 <= c < Z.of_nat nc /\ In (r, s) (front_pairs step (column (Z.to_nat c) x)).
Proof.
  intros Hrect. rewrite (in_fronts2_axis0 step nc x r c s Hrect), in_front_pairs.
  unfold column at 1. rewrite map_length. rewrite !at_column.
  split.
  - intros (H1 & H2 & H3 & H4). rewrite Z2Nat.id by lia. tauto.
  - intros (H2 & H1 & H3 & H4). rewrite Z2Nat.id in H3 by lia. tauto.
Qed.

(* 0/1 trains with the default step *)
Lemma at_binary x i : binary x -> 0 <= i < Z.of_nat (length x) -> at_ x i = 0 \/ at_ x i = 1.
Proof. intros Hb Hi. apply Hb. unfold at_. apply nth_In. lia. Qed.

Lemma fronts_ttl x : binary x ->
  (forall i, In i (fst (fronts1 1 x)) <-> 1 <= i < Z.of_nat (length x) /\ at_ x i <> at_ x (i - 1)) /\
  (forall i s, In (i, s) (front_pairs 1 x) ->
     (s = 1 /\ at_ x (i - 1) = 0 /\ at_ x i = 1) \/ (s = -1 /\ at_ x (i - 1) = 1 /\ at_ x i = 0)).
Proof.
  intros Hb. split.
  - intros i. rewrite in_fronts1_ind. split.
    + intros [H1 H2]. split; [exact H1|]. intros Heq. rewrite Heq in H2. lia.
    + intros [H1 H2]. split; [exact H1|].
      destruct (at_binary x i Hb ltac:(lia)) as [E1|E1];
        destruct (at_binary x (i - 1) Hb ltac:(lia)) as [E2|E2]; rewrite E1, E2 in *; cbn; lia.
  - intros i s H. apply in_front_pairs in H. destruct H as (H1 & H2 & H3).
    destruct (at_binary x i Hb ltac:(lia)) as [E1|E1];
      destruct (at_binary x (i - 1) Hb ltac:(lia)) as [E2|E2]; rewrite E1, E2 in *; subst s; cbn in H3; lia.
Qed.

Lemma split_sync_shape tr :
  length (split_sync tr) = length tr /\
  forall row, In row (split_sync tr) -> length row = 16%nat /\ binary row.
Proof.
  unfold split_sync. split; [apply map_length|].
  intros row H. apply in_map_iff in H. destruct H as [v [<- _]].
  split; [apply split_word_length|]. intros b. apply split_word_binary.
Qed.

(* ------------------------------------------------------------------ *)
(* polarity in closed form; the round trip through read_sync           *)
(* ------------------------------------------------------------------ *)

Lemma count_le_none m t : Forall (fun x => m < x) t -> count_le m t = 0.
Proof.
  unfold count_le. induction 1 as [|x t Hx Hf IH]; [reflexivity|].
  cbn [filter]. replace (x <=? m) with false by (symmetry; apply Z.leb_gt; lia). exact IH.
Qed.

Lemma count_le_sorted_nth evs : StronglySorted Z.lt evs -> forall j, (j < length evs)%nat ->
  count_le (nth j evs 0 - 1) evs = Z.of_nat j.
Proof.
  induction 1 as [|a t Hs IH Hf]; intros j Hj; [cbn in Hj; lia|].
  destruct j as [|j].
  - cbn [nth]. unfold count_le. cbn [filter].
    replace (a <=? a - 1) with false by (symmetry; apply Z.leb_gt; lia).
    apply count_le_none. rewrite Forall_forall in *. intros x Hx. specialize (Hf x Hx). lia.
  - cbn [nth]. cbn [length] in Hj.
    assert (Hin : In (nth j t 0) t) by (apply nth_In; lia).
    rewrite Forall_forall in Hf. specialize (Hf _ Hin).
    unfold count_le. cbn [filter].
    replace (a <=? nth j t 0 - 1) with true by (symmetry; apply Z.leb_le; lia).
    cbn [length]. rewrite Nat2Z.inj_succ. fold (count_le (nth j t 0 - 1) t).
    rewrite IH by lia. lia.
Qed.

(* the j-th event of a line is a rise when init + j is even, a fall otherwise *)
Lemma ttl_polarity_alternates ns lines k init evs :
  length lines = 16%nat -> (k < 16)%nat -> nth k lines (0, []) = (init, evs) ->
  StronglySorted Z.lt evs -> (forall e, In e evs -> 1 <= e < Z.of_nat ns) ->
  forall j, (j < length evs)%nat ->
    nth j (snd (ttl_roundtrip ns lines k)) 0 = 1 - 2 * ((init + Z.of_nat j) mod 2).
Proof.
  intros Hl Hk Hn Hs Hr j Hj.
  destruct (ttl_end_to_end ns lines k init evs Hl Hk Hn Hs Hr) as (_ & _ & H).
  destruct (H j Hj) as [H1 _]. rewrite H1. unfold level.
  now rewrite count_le_sorted_nth.
Qed.

Lemma slice_rows_all {A} (rows : list A) : slice_rows 0 (Z.of_nat (length rows)) rows = rows.
Proof.
  unfold slice_rows, slice_first_count, adjust.
  change (0 <? 0) with false. cbv iota.
  replace (Z.of_nat (length rows) <? 0) with false by (symmetry; apply Z.ltb_ge; lia).
  rewrite Z.min_id. replace (Z.min 0 (Z.of_nat (length rows))) with 0 by lia.
  cbn [Z.to_nat skipn]. rewrite Z.sub_0_r, Z.max_l, Nat2Z.id by lia. apply firstn_all.
Qed.

(* the whole path: raw int16 matrix whose last column holds the written words
   (all other channels arbitrary) -> Reader.read_sync over the whole file ->
   fronts on column k of the returned array *)
Lemma ttl_through_reader typ ntr c0 c1 c2 c3 one thr gain use_floor raw lines k init evs :
  nsync_of typ c0 c1 c2 c3 = 1 -> 1 <= ntr ->
  (forall r, In r raw -> Z.of_nat (length r) = ntr) ->
  (forall i, In i (analog_indices typ c0 c1 c2 c3) -> 0 <= i < ntr) ->
  (use_floor = false \/ raw <> [] \/ analog_indices typ c0 c1 c2 c3 = []) ->
  map (fun r => nth (Z.to_nat (ntr - 1)) r 0) raw = map encode_word (render (length raw) lines) ->
  length lines = 16%nat -> (k < 16)%nat -> nth k lines (0, []) = (init, evs) ->
  StronglySorted Z.lt evs -> (forall e, In e evs -> 1 <= e < Z.of_nat (length raw)) ->
  exists rows,
    read_sync typ ntr c0 c1 c2 c3 0 (Z.of_nat (length raw)) one thr gain use_floor raw = Some rows /\
    length rows = length raw /\
    fst (fronts1 1 (column k rows)) = evs /\
    forall j, (j < length evs)%nat ->
      nth j (snd (fronts1 1 (column k rows))) 0 = 1 - 2 * ((init + Z.of_nat j) mod 2).
Proof.
  intros Hns Hntr Hrect Hidx Hfl Hw Hl Hk Hn Hs Hr.
  eexists. split.
  - apply read_sync_layout; try assumption. rewrite slice_rows_all. exact Hfl.
  - cbv zeta. rewrite slice_rows_all. split; [apply map_length|].
    match goal with |- fst (fronts1 1 (column k (map ?F raw))) = _ /\ _ =>
      assert (Hcol : column k (map F raw) =
                     column k (split_sync (map encode_word (render (length raw) lines)))) end.
    { rewrite <- Hw. unfold column, split_sync. rewrite !map_map. apply map_ext. intros r.
      apply app_nth1. rewrite split_word_length. exact Hk. }
    rewrite Hcol. fold (ttl_roundtrip (length raw) lines k).
    destruct (ttl_end_to_end (length raw) lines k init evs Hl Hk Hn Hs Hr) as (H1 & _ & _).
    split; [exact H1|]. intros j Hj.
    now apply (ttl_polarity_alternates (length raw) lines k init evs).
Qed.

(* ------------------------------------------------------------------ *)
(* rises / falls on 2-D arrays                                         *)
(* ------------------------------------------------------------------ *)

Fixpoint per_row_idx (r : Z) (g : list Z -> list Z) (x : list (list Z)) : list (Z * Z) :=
  match x with
  | [] => []
  | row :: t => map (fun c => (r, c)) (g row) ++ per_row_idx (r + 1) g t
  end.

Lemma per_row_idx_map g h x : forall r, per_row_idx r g (map h x) = per_row_idx r (fun row => g (h row)) x.
Proof. induction x as [|row t IH]; intros r; cbn; [reflexivity|]. now rewrite IH. Qed.

Lemma rises2_rows_gen f X : forall r0,
  map (fun p => fst (bump 1 p)) (where2_from r0 f (map diff X)) =
  per_row_idx r0 (fun row => map (fun i => i + 1) (where_from 0 f (diff row))) X.
Proof.
  induction X as [|row t IH]; intros r0; cbn [map where2_from per_row_idx]; [reflexivity|].
  rewrite map_app, IH. f_equal. rewrite !map_map. apply map_ext. intros c. reflexivity.
Qed.

Lemma rises2_axis1 s a x : rises2 1 s a x = per_row_idx 0 (rises1 s a) x.
Proof.
  unfold rises2, diff2. change (1 =? 0) with false. cbv iota.
  destruct a.
  - rewrite rises2_rows_gen, per_row_idx_map. reflexivity.
  - rewrite rises2_rows_gen. reflexivity.
Qed.

Lemma falls2_axis1 s a x : falls2 1 s a x = per_row_idx 0 (falls1 s a) x.
Proof. unfold falls2. rewrite rises2_axis1, per_row_idx_map. reflexivity. Qed.

Lemma in_where2_diff_rows f nc x r c v :
  Forall (fun row => length row = nc) x ->
  In (r, c, v) (where2_from 0 f (diff_rows x)) <->
  0 <= r /\ r + 1 < Z.of_nat (length x) /\ 0 <= c < Z.of_nat nc /\
  v = at2 x (r + 1) c - at2 x r c /\ f v = true.
Proof.
  intros Hrect. rewrite Forall_forall in Hrect.
  assert (Hlen : forall i, (i < length x)%nat -> length (nth i x []) = nc)
    by (intros i Hi; apply Hrect, nth_In, Hi).
  rewrite in_where2_from, diff_rows_length, Z.sub_0_r. split.
  - intros (H1 & H2 & H3 & H4).
    rewrite nth_diff_rows in H2, H3 by lia. rewrite map2_length, !Hlen in H2 by lia.
    rewrite nth_map2 in H3 by (rewrite Hlen; lia).
    unfold at2. replace (Z.to_nat (r + 1)) with (S (Z.to_nat r)) by lia.
    split; [lia|]. split; [lia|]. split; [lia|]. auto.
  - intros (H0 & H1 & H2 & H3 & H4).
    rewrite nth_diff_rows by lia. rewrite map2_length, !Hlen by lia.
    rewrite nth_map2 by (rewrite Hlen; lia).
    split; [lia|]. split; [lia|]. split; [|exact H4].
    unfold at2 in H3. replace (Z.to_nat (r + 1)) with (S (Z.to_nat r)) in H3 by lia. exact H3.
Qed.

Lemma rises2_axis0_plain s nc x r c :
  Forall (fun row => length row = nc) x ->
  In (r, c) (rises2 0 s false x) <->
  0 <= c < Z.of_nat nc /\ In r (rises1 s false (column (Z.to_nat c) x)).
Proof.
  intros Hrect. unfold rises2, diff2. change (0 =? 0) with true. cbv iota.
  rewrite in_rises1. unfold column at 1. rewrite map_length, !at_column.
  rewrite in_map_iff. split.
  - intros [[[r' c'] v] [Hb H]]. unfold bump in Hb. change (0 =? 0) with true in Hb. cbv iota in Hb.
    cbn [fst] in Hb. inversion Hb; subst.
    apply (in_where2_diff_rows _ nc x r' c v Hrect) in H. destruct H as (H0 & H1 & H2 & H3 & H4).
    apply Z.leb_le in H4. rewrite Z2Nat.id by lia. replace (r' + 1 - 1) with r' by lia.
    split; [lia|]. split; [lia|]. lia.
  - intros (H2 & H1 & H3). rewrite Z2Nat.id in H3 by lia.
    exists (r - 1, c, at2 x r c - at2 x (r - 1) c). split.
    + unfold bump. change (0 =? 0) with true. cbv iota. cbn [fst]. f_equal. lia.
    + apply (in_where2_diff_rows _ nc x (r - 1) c _ Hrect).
      replace (r - 1 + 1) with r by lia. split; [lia|]. split; [lia|]. split; [lia|].
      split; [reflexivity|]. apply Z.leb_le. exact H3.
Qed.

Lemma column_map g nc x c : g 0 = 0 \/ (c < nc)%nat ->
  Forall (fun row => length row = nc) x ->
  column c (map (map g) x) = map g (column c x).
Proof.
  intros Hc Hrect. unfold column. rewrite !map_map. apply map_ext_in. intros row Hr.
  rewrite Forall_forall in Hrect. specialize (Hrect row Hr).
  destruct (Nat.lt_ge_cases c (length row)) as [Hlt|Hge].
  - rewrite (nth_indep _ 0 (g 0)) by (rewrite map_length; exact Hlt). apply map_nth.
  - destruct Hc as [Hg|Hc]; [|lia].
    rewrite !nth_overflow by (rewrite ?map_length; lia). now rewrite Hg.
Qed.

Lemma rect_map g nc x : Forall (fun row : list Z => length row = nc) x ->
  Forall (fun row : list Z => length row = nc) (map (map g) x).
Proof.
  intros H. rewrite Forall_forall in *. intros row Hr. apply in_map_iff in Hr.
  destruct Hr as [row' [<- Hr']]. rewrite map_length. auto.
Qed.

Lemma rises2_axis0 s a nc x r c :
  Forall (fun row => length row = nc) x ->
  In (r, c) (rises2 0 s a x) <->
  0 <= c < Z.of_nat nc /\ In r (rises1 s a (column (Z.to_nat c) x)).
Proof.
  intros Hrect. destruct a; [|now apply rises2_axis0_plain].
  change (rises2 0 s true x) with (rises2 0 1 false (map (binarise s) x)).
  change (rises1 s true (column (Z.to_nat c) x)) with (rises1 1 false (binarise s (column (Z.to_nat c) x))).
  rewrite (rises2_axis0_plain 1 nc) by (apply rect_map; exact Hrect).
  split; intros [H1 H2]; (split; [exact H1|]).
  - unfold binarise in *. rewrite (column_map _ nc) in H2; auto. right. lia.
  - unfold binarise in *. rewrite (column_map _ nc); auto. right. lia.
Qed.

Lemma falls2_axis0 s a nc x r c :
  Forall (fun row => length row = nc) x ->
  In (r, c) (falls2 0 s a x) <->
  0 <= c < Z.of_nat nc /\ In r (falls1 s a (column (Z.to_nat c) x)).
Proof.
  intros Hrect. unfold falls2, falls1.
  rewrite (rises2_axis0 (- s) a nc) by (apply rect_map; exact Hrect).
  rewrite (column_map Z.opp nc) by (auto). reflexivity.
Qed.

(* ------------------------------------------------------------------ *)
(* order of the 2-D output: row-major (np.where)                        *)
(* ------------------------------------------------------------------ *)

Definition lex_lt (p q : Z * Z * Z) : Prop :=
  fst (fst p) < fst (fst q) \/ (fst (fst p) = fst (fst q) /\ snd (fst p) < snd (fst q)).

Lemma sorted_app {A} (R : A -> A -> Prop) l1 l2 :
  StronglySorted R l1 -> StronglySorted R l2 ->
  (forall a b, In a l1 -> In b l2 -> R a b) -> StronglySorted R (l1 ++ l2).
Proof.
  induction 1 as [|a l1 Hs IH Hf]; intros H2 H; cbn [app]; [exact H2|].
  constructor.
  - apply IH; [exact H2|]. intros x y Hx Hy. apply H; [right; exact Hx|exact Hy].
  - apply Forall_forall. intros y Hy. apply in_app_iff in Hy. destruct Hy as [Hy|Hy].
    + rewrite Forall_forall in Hf. now apply Hf.
    + apply H; [left; reflexivity|exact Hy].
Qed.

Lemma sorted_map {A B} (R : A -> A -> Prop) (R' : B -> B -> Prop) (g : A -> B) l :
  (forall a b, R a b -> R' (g a) (g b)) -> StronglySorted R l -> StronglySorted R' (map g l).
Proof.
  intros Hg. induction 1 as [|a l Hs IH Hf]; cbn [map]; constructor; [exact IH|].
  apply Forall_forall. intros y Hy. apply in_map_iff in Hy. destruct Hy as [x [<- Hx]].
  rewrite Forall_forall in Hf. apply Hg. now apply Hf.
Qed.

Lemma where2_sorted f d : forall r0,
  StronglySorted lex_lt (where2_from r0 f d) /\
  (forall p, In p (where2_from r0 f d) -> r0 <= fst (fst p)).
Proof.
  induction d as [|row t IH]; intros r0; cbn [where2_from].
  - split; [constructor|intros p []].
  - destruct (IH (r0 + 1)) as [IHs IHb]. split.
    + apply sorted_app.
      * apply (sorted_map Z.lt).
        -- intros a b Hab. right. cbn. split; [reflexivity|exact Hab].
        -- rewrite <- wv_fst. apply wv_sorted.
      * exact IHs.
      * intros a b Ha Hb. apply in_map_iff in Ha. destruct Ha as [c [<- _]].
        left. cbn. specialize (IHb b Hb). lia.
    + intros p Hp. apply in_app_iff in Hp. destruct Hp as [Hp|Hp].
      * apply in_map_iff in Hp. destruct Hp as [c [<- _]]. cbn. lia.
      * specialize (IHb p Hp). lia.
Qed.

Lemma fronts2_sorted axis step x : StronglySorted lex_lt (fronts2 axis step x).
Proof.
  unfold fronts2. apply (sorted_map lex_lt); [|apply where2_sorted].
  intros [[r c] v] [[r' c'] v'] H. unfold lex_lt, bump in *. cbn [fst snd] in *.
  destruct (axis =? 0); cbn [fst snd]; lia.
Qed.

(* ------------------------------------------------------------------ *)
(* the percentile floor                                                 *)
(* ------------------------------------------------------------------ *)
From Coq Require Import Permutation.

Lemma insert_perm a l : Permutation (insert a l) (a :: l).
Proof.
  induction l as [|b t IH]; cbn [insert]; [apply Permutation_refl|].
  destruct (a <=? b); [apply Permutation_refl|].
  eapply Permutation_trans; [apply perm_skip, IH|apply perm_swap].
Qed.

Lemma sort_perm l : Permutation (sort l) l.
Proof.
  induction l as [|a t IH]; [apply Permutation_refl|]. unfold sort. cbn [fold_right]. fold (sort t).
  eapply Permutation_trans; [apply insert_perm|now apply perm_skip].
Qed.

Lemma insert_hd b a t : b <= a -> HdRel Z.le b t -> HdRel Z.le b (insert a t).
Proof.
  intros Hba H. destruct t as [|c t]; cbn [insert]; [constructor; exact Hba|].
  inversion H; subst. destruct (a <=? c); constructor; assumption.
Qed.

Lemma insert_sorted a l : Sorted Z.le l -> Sorted Z.le (insert a l).
Proof.
  induction 1 as [|b t Hs IH Hh]; cbn [insert]; [repeat constructor|].
  destruct (a <=? b) eqn:E; [apply Z.leb_le in E|apply Z.leb_gt in E].
  - constructor; [constructor; assumption|constructor; exact E].
  - constructor; [exact IH|]. apply insert_hd; [lia|exact Hh].
Qed.

Lemma sort_sorted l : StronglySorted Z.le (sort l).
Proof.
  apply Sorted_StronglySorted; [intros x y z; apply Z.le_trans|].
  induction l as [|a t IH]; [constructor|]. unfold sort. cbn [fold_right]. now apply insert_sorted.
Qed.

Lemma sort_length l : length (sort l) = length l.
Proof. apply Permutation_length, sort_perm. Qed.

Lemma sorted_nth_le s : StronglySorted Z.le s -> forall i j, (i <= j)%nat -> (j < length s)%nat ->
  nth i s 0 <= nth j s 0.
Proof.
  induction 1 as [|a t Hs IH Hf]; intros i j Hij Hj; [cbn in Hj; lia|].
  destruct i as [|i]; destruct j as [|j]; cbn [nth length] in *; try lia.
  - rewrite Forall_forall in Hf. apply Hf, nth_In. lia.
  - apply IH; lia.
Qed.

Lemma pct_indices n : 1 <= n ->
  0 <= pct_lo n /\ pct_lo n <= pct_hi n /\ pct_hi n <= n - 1 /\ pct_hi n <= pct_lo n + 1 /\
  0 <= pct_g n < 10 /\ 10 * pct_lo n + pct_g n = n - 1.
Proof.
  intros Hn. unfold pct_hi, pct_lo, pct_g.
  pose proof (Z.div_mod (n - 1) 10 ltac:(lia)). pose proof (Z.mod_pos_bound (n - 1) 10 ltac:(lia)).
  assert (0 <= (n - 1) / 10) by (apply Z.div_pos; lia). lia.
Qed.

(* np.percentile(col, 10) = linear interpolation between two consecutive
   order statistics of the column *)
Lemma pct10x_spec col : col <> [] ->
  let s := sort col in let n := Z.of_nat (length col) in
  let a := nth (Z.to_nat (pct_lo n)) s 0 in let b := nth (Z.to_nat (pct_hi n)) s 0 in
  Permutation s col /\ StronglySorted Z.le s /\
  pct10x col = 10 * a + (b - a) * pct_g n /\
  a <= b /\ 10 * a <= pct10x col <= 10 * b /\
  (pct_g n = 0 \/ a = b -> pct10x col = 10 * a).
Proof.
  intros Hne s n a b.
  assert (Hn : 1 <= n) by (subst n; destruct col; [congruence|cbn [length]; lia]).
  destruct (pct_indices n Hn) as (H0 & H1 & H2 & H3 & H4 & H5).
  split; [apply sort_perm|]. split; [apply sort_sorted|]. split; [reflexivity|].
  assert (Hab : a <= b).
  { apply sorted_nth_le; [apply sort_sorted|lia|]. unfold s. rewrite sort_length. subst n. lia. }
  split; [exact Hab|]. unfold pct10x. fold s. fold n. fold a. fold b.
  split; [nia|]. intros [Hg| ->]; [rewrite Hg|]; lia.
Qed.

(* ------------------------------------------------------------------ *)
(* an analog line of read_sync depends on its own channel only          *)
(* ------------------------------------------------------------------ *)

Lemma some_inj {A} (a b : A) : Some a = Some b -> a = b.
Proof. congruence. Qed.

Lemma nth_map_mul gain l k : nth k (map (fun v => v * gain) l) 0 = nth k l 0 * gain.
Proof. exact (map_nth (fun v => v * gain) l 0 k). Qed.

Lemma analog_cols_nth typ c0 c1 c2 c3 r k : (k < length (analog_indices typ c0 c1 c2 c3))%nat ->
  nth k (analog_cols typ c0 c1 c2 c3 r) 0 =
  nth (Z.to_nat (nth k (analog_indices typ c0 c1 c2 c3) 0)) r 0.
Proof.
  intros Hk. unfold analog_cols.
  set (g := fun i : Z => nth (Z.to_nat i) r 0).
  rewrite (nth_indep _ 0 (g 0)) by (rewrite map_length; exact Hk).
  exact (map_nth g _ 0 k).
Qed.

Lemma column_analog_volts typ c0 c1 c2 c3 gain sel k :
  (k < length (analog_indices typ c0 c1 c2 c3))%nat ->
  column k (analog_volts typ c0 c1 c2 c3 gain sel) =
  map (fun r => nth (Z.to_nat (nth k (analog_indices typ c0 c1 c2 c3) 0)) r 0 * gain) sel.
Proof.
  intros Hk. unfold column, analog_volts. rewrite map_map. apply map_ext. intros r.
  rewrite nth_map_mul, analog_cols_nth by exact Hk. reflexivity.
Qed.

Lemma analog_line_alone typ ntr c0 c1 c2 c3 start stop one thr gain use_floor raw rows k j :
  nsync_of typ c0 c1 c2 c3 = 1 -> 1 <= ntr ->
  (forall r, In r raw -> Z.of_nat (length r) = ntr) ->
  (forall i, In i (analog_indices typ c0 c1 c2 c3) -> 0 <= i < ntr) ->
  read_sync typ ntr c0 c1 c2 c3 start stop one thr gain use_floor raw = Some rows ->
  let sel := slice_rows start stop raw in
  let ch := Z.to_nat (nth k (analog_indices typ c0 c1 c2 c3) 0) in
  (k < length (analog_indices typ c0 c1 c2 c3))%nat -> (j < length sel)%nat ->
  nth (16 + k) (nth j rows []) 0 =
  digitise (10 * one) (10 * thr)
    (if use_floor then pct10x (map (fun r => nth ch r 0 * gain) sel) else 0)
    (nth ch (nth j sel []) 0 * gain * 10).
Proof.
  intros Hns Hntr Hrect Hidx Hrs sel ch Hk Hj.
  assert (Hfl : use_floor = false \/ sel <> [] \/ analog_indices typ c0 c1 c2 c3 = []).
  { right. left. intros E. rewrite E in Hj. cbn in Hj. lia. }
  pose proof (read_sync_layout typ ntr c0 c1 c2 c3 start stop one thr gain use_floor raw
                Hns Hntr Hrect Hidx Hfl) as HL. cbv zeta in HL. fold sel in HL.
  rewrite HL in Hrs. apply some_inj in Hrs. rewrite <- Hrs. clear Hrs HL.
  match goal with |- nth _ (nth j (map ?F sel) []) 0 = _ => set (F0 := F) end.
  rewrite (nth_indep _ [] (F0 [])) by (rewrite map_length; exact Hj).
  rewrite (map_nth F0). unfold F0.
  rewrite app_nth2 by (rewrite split_word_length; lia).
  rewrite split_word_length. replace (16 + k - 16)%nat with k by lia.
  rewrite digitise_row_nth by (unfold analog_cols; rewrite !map_length; exact Hk).
  rewrite nth_map_mul, analog_cols_nth by exact Hk. fold ch.
  f_equal. unfold floors_of. destruct use_floor; [|reflexivity].
  cbn [floor_at]. unfold floors10.
  set (G := fun k0 : nat => pct10x (column k0 (analog_volts typ c0 c1 c2 c3 gain sel))).
  rewrite (nth_indep _ 0 (G 0%nat)) by (rewrite map_length, seq_length; exact Hk).
  rewrite (map_nth G), seq_nth by exact Hk. unfold G. cbn [Nat.add].
  now rewrite column_analog_volts.
Qed.

(* ------------------------------------------------------------------ *)
(* read_sync = read_sync_digital ++ thresholded read_sync_analog        *)
(* ------------------------------------------------------------------ *)

Lemma combine_map_map {A B C} (f : A -> B) (g : A -> C) l :
  combine (map f l) (map g l) = map (fun x => (f x, g x)) l.
Proof. induction l as [|a l IH]; cbn; [reflexivity|]. now rewrite IH. Qed.

Lemma read_sync_decomposition typ ntr c0 c1 c2 c3 start stop one thr gain use_floor raw :
  nsync_of typ c0 c1 c2 c3 = 1 -> 1 <= ntr ->
  (forall r, In r raw -> Z.of_nat (length r) = ntr) ->
  (forall i, In i (analog_indices typ c0 c1 c2 c3) -> 0 <= i < ntr) ->
  (use_floor = false \/ slice_rows start stop raw <> [] \/ analog_indices typ c0 c1 c2 c3 = []) ->
  exists D A,
    read_sync_digital typ ntr c0 c1 c2 c3 start stop raw = Some D /\
    read_sync_analog typ ntr c0 c1 c2 c3 start stop gain raw =
      Some (match analog_indices typ c0 c1 c2 c3 with [] => None | _ => Some A end) /\
    length D = length (slice_rows start stop raw) /\ length A = length D /\
    read_sync typ ntr c0 c1 c2 c3 start stop one thr gain use_floor raw =
      Some (map (fun da => fst da ++
                   digitise_row (10 * one) (10 * thr) 10
                     (floors_of use_floor A (length (analog_indices typ c0 c1 c2 c3))) (snd da))
                (combine D A)).
Proof.
  intros Hns Hntr Hrect Hidx Hfl.
  exists (map (fun r => split_word (nth (Z.to_nat (ntr - 1)) r 0)) (slice_rows start stop raw)).
  exists (analog_volts typ c0 c1 c2 c3 gain (slice_rows start stop raw)).
  split; [now apply read_sync_digital_one|]. split; [now apply read_sync_analog_ok|].
  split; [apply map_length|]. split; [unfold analog_volts; now rewrite !map_length|].
  rewrite (read_sync_layout typ ntr c0 c1 c2 c3 start stop one thr gain use_floor raw
             Hns Hntr Hrect Hidx Hfl). cbv zeta.
  unfold analog_volts at 3. rewrite combine_map_map, map_map. reflexivity.
Qed.

(* ------------------------------------------------------------------ *)
(* 0/1 trains held in containers without a sign (bool, uint8)           *)
(* ------------------------------------------------------------------ *)

Lemma where_from_map_eq (f g : Z -> bool) l : forall l' i,
  map f l = map g l' -> where_from i f l = where_from i g l'.
Proof.
  induction l as [|v t IH]; intros [|v' t'] i H; cbn in H; try discriminate; [reflexivity|].
  injection H as H1 H2. cbn [where_from]. rewrite H1, (IH t' (i + 1) H2). reflexivity.
Qed.

Lemma diff_c_changes kind x : kind = 1 \/ kind = 2 -> binary x ->
  map (fun v => 1 <=? v) (diff_c kind x) = map (fun v => 1 <=? Z.abs v) (diff x).
Proof.
  intros Hk. induction x as [|a t IH]; intros Hb; [reflexivity|].
  destruct t as [|b t]; [reflexivity|].
  assert (Hbt : binary (b :: t)) by (intros c Hc; apply Hb; right; exact Hc).
  change (diff_c kind (a :: b :: t)) with
    ((if kind =? 1 then (if a =? b then 0 else 1) else (b - a) mod 256) :: diff_c kind (b :: t)).
  rewrite diff_cons2. cbn [map]. rewrite (IH Hbt). f_equal.
  destruct (Hb a (or_introl eq_refl)) as [-> | ->];
    destruct (Hb b (or_intror (or_introl eq_refl))) as [-> | ->];
    destruct Hk as [-> | ->]; reflexivity.
Qed.

(* the indices are still every change of the line ... *)
Lemma fronts_c_indices kind x : kind = 1 \/ kind = 2 -> binary x ->
  fst (fronts1_c kind 1 x) = fst (fronts1 1 x) /\ rises1_c kind 1 x = fst (fronts1 1 x).
Proof.
  intros Hk Hb. unfold fronts1_c, rises1_c, fronts1. cbn [fst].
  rewrite (where_from_map_eq _ (fun v => 1 <=? Z.abs v) _ (diff x) 0 (diff_c_changes kind x Hk Hb)).
  split; reflexivity.
Qed.

(* ------------------------------------------------------------------ *)
(* round 3: when read_sync fails; the floor is a function of the multiset *)
(* ------------------------------------------------------------------ *)

(* In the one-word domain read_sync never fails (before repair 5bea0f5 it failed on an empty
   selection with analog channels and the floor on); an empty selection gives zero rows. *)
Lemma read_sync_total typ ntr c0 c1 c2 c3 start stop one thr gain use_floor raw :
  nsync_of typ c0 c1 c2 c3 = 1 -> 1 <= ntr ->
  (forall r, In r raw -> Z.of_nat (length r) = ntr) ->
  (forall i, In i (analog_indices typ c0 c1 c2 c3) -> 0 <= i < ntr) ->
  exists rows, read_sync typ ntr c0 c1 c2 c3 start stop one thr gain use_floor raw = Some rows /\
    length rows = length (slice_rows start stop raw) /\
    (slice_rows start stop raw = [] -> rows = []).
Proof.
  intros Hns Hntr Hrect Hidx. eexists. split; [now apply read_sync_layout_total|].
  cbv zeta. split; [apply map_length|]. intros ->. reflexivity.
Qed.

(* two sorted lists that are permutations of each other are equal *)
Lemma sorted_perm_eq (a b : list Z) :
  StronglySorted Z.le a -> StronglySorted Z.le b -> Permutation a b -> a = b.
Proof.
  revert b. induction a as [|x a IH]; intros b Ha Hb Hp.
  - apply Permutation_nil in Hp. now subst.
  - destruct b as [|y b]; [apply Permutation_sym, Permutation_nil in Hp; discriminate|].
    inversion Ha as [|? ? Ha' Fa]; subst. inversion Hb as [|? ? Hb' Fb]; subst.
    rewrite Forall_forall in Fa, Fb.
    assert (Hxy : x = y).
    { assert (Hx : In x (y :: b)) by (apply (Permutation_in _ Hp); left; reflexivity).
      assert (Hy : In y (x :: a)) by (apply (Permutation_in _ (Permutation_sym Hp)); left; reflexivity).
      destruct Hx as [->|Hx]; [reflexivity|]. destruct Hy as [->|Hy]; [reflexivity|].
      specialize (Fa y Hy). specialize (Fb x Hx). lia. }
    subst y. f_equal. apply IH; auto. now apply Permutation_cons_inv in Hp.
Qed.

Lemma sort_perm_invariant l l' : Permutation l l' -> sort l = sort l'.
Proof.
  intros Hp. apply sorted_perm_eq; [apply sort_sorted|apply sort_sorted|].
  eapply Permutation_trans; [apply sort_perm|].
  eapply Permutation_trans; [exact Hp|apply Permutation_sym, sort_perm].
Qed.

(* the floor does not depend on the order of the samples *)
Lemma pct10x_perm_invariant l l' : Permutation l l' -> pct10x l = pct10x l'.
Proof.
  intros Hp. unfold pct10x. rewrite (sort_perm_invariant l l' Hp), (Permutation_length Hp). reflexivity.
Qed.

(* a constant shift of the column shifts the floor (DC offset removal is exact) *)
Lemma insert_shift d a l : insert (a + d) (map (fun v => v + d) l) = map (fun v => v + d) (insert a l).
Proof.
  induction l as [|b t IH]; cbn [map insert]; [reflexivity|].
  replace (a + d <=? b + d) with (a <=? b).
  - destruct (a <=? b); cbn [map]; [reflexivity|now rewrite IH].
  - destruct (a <=? b) eqn:E1; destruct (a + d <=? b + d) eqn:E2; try reflexivity;
      try apply Z.leb_le in E1; try apply Z.leb_gt in E1; try apply Z.leb_le in E2; try apply Z.leb_gt in E2; lia.
Qed.

Lemma sort_shift d l : sort (map (fun v => v + d) l) = map (fun v => v + d) (sort l).
Proof.
  induction l as [|a t IH]; [reflexivity|]. unfold sort in *. cbn [map fold_right].
  rewrite IH. apply insert_shift.
Qed.

Lemma pct10x_shift d col : col <> [] -> pct10x (map (fun v => v + d) col) = pct10x col + 10 * d.
Proof.
  intros Hne. unfold pct10x. rewrite sort_shift, map_length.
  set (n := Z.of_nat (length col)).
  assert (Hn : 1 <= n) by (subst n; destruct col; [congruence|cbn [length]; lia]).
  destruct (pct_indices n Hn) as (H0 & H1 & H2 & H3 & H4 & H5).
  set (g := fun v => v + d).
  assert (Hnth : forall i, 0 <= i <= n - 1 -> nth (Z.to_nat i) (map g (sort col)) 0 = nth (Z.to_nat i) (sort col) 0 + d).
  { intros i Hi. rewrite (nth_indep _ 0 (g 0)) by (rewrite map_length, sort_length; subst n; lia).
    rewrite (map_nth g). reflexivity. }
  rewrite !Hnth by lia. ring.
Qed.

(* round 7: the analog lines come in ascending on-disk order *)
Lemma analog_indices_order c0 c1 c2 c3 :
  length (analog_indices 1 c0 c1 c2 c3) = Z.to_nat c2 /\
  (forall k, (k < Z.to_nat c2)%nat -> nth k (analog_indices 1 c0 c1 c2 c3) 0 = c0 + c1 + Z.of_nat k) /\
  StronglySorted Z.lt (analog_indices 1 c0 c1 c2 c3).
Proof.
  rewrite analog_indices_spec. change (1 =? 1) with true. cbv iota.
  split; [now rewrite map_length, seq_length|]. split.
  - intros k Hk. set (g := fun i : nat => c0 + c1 + Z.of_nat i).
    rewrite (nth_indep _ 0 (g 0%nat)) by (rewrite map_length, seq_length; exact Hk).
    rewrite (map_nth g), seq_nth by exact Hk. reflexivity.
  - generalize (Z.to_nat c2) 0%nat. intros n. induction n as [|n IH]; intros s; cbn [seq map]; constructor.
    + apply IH.
    + apply Forall_forall. intros y Hy. apply in_map_iff in Hy. destruct Hy as [j [<- Hj]].
      apply in_seq in Hj. lia.
Qed.
