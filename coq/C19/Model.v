(* C19 — executable model of ibldsp.utils.sync_timestamps (src/ibldsp/utils.py),
   exact arithmetic (integer clock ticks for the
   first pass, rationals Q afterwards).  Definitions only.

   The coarse offset delta_t (binned cross-correlation + parabolic_max) is an
   INPUT of the model; everything after line "do a first assignment at a DT
   threshold" is modelled:
     first pass   (utils.py:sync_timestamps, `for m in np.arange(tsa.shape[0])`)
     _interp_fcn  (np.polyfit degree 1 as closed-form least squares; linear map
                   or scipy interp1d(..., fill_value="extrapolate"))
     second pass  (`while ~np.all(np.isnan(dt))`)
     final _interp_fcn and the returned ib / drift_ppm / fcn_a2b.
   Index arrays are `list Z` with -1 = "not assigned" exactly as in the source. *)
From Coq Require Import ZArith QArith Qabs Qround List Bool.
Import ListNotations.
Open Scope Q_scope.

(* ---- comparisons and distance ------------------------------------------- *)
Definition qltb (x y : Q) : bool := negb (Qle_bool y x).           (* x < y *)
Definition qdist (x y : Q) : Q := Qabs (x - y).                    (* np.abs(x - y) *)

Fixpoint zmem (j : Z) (l : list Z) : bool :=
  match l with [] => false | k :: r => (j =? k)%Z || zmem j r end.

(* ---- first pass -----------------------------------------------------------
   The first pass only subtracts, takes absolute values and compares, so it is
   modelled on integer clock ticks (all times, delta_t and tbin are integer
   multiples of one tick 1/den of arbitrary resolution — every finite set of
   float64 values has such a tick); this is exact real arithmetic.
   dt = np.abs(tsa[m] - delta_t - tsb); inds = np.where(dt < threshold)[0]
   `near thr x tsb j0` = [(j, dt_j)] for j >= j0 in increasing order, x = tsa[m]-delta_t *)
Fixpoint near (thr x : Z) (tsb : list Z) (j : Z) : list (Z * Z) :=
  match tsb with
  | [] => []
  | b :: r => let d := Z.abs (x - b) in
              if (d <? thr)%Z then (j, d) :: near thr x r (j + 1)%Z
              else near thr x r (j + 1)%Z
  end.

(* inds[np.argmin(dt[inds])]: first minimal entry *)
Fixpoint argmin_first (best : Z * Z) (l : list (Z * Z)) : Z * Z :=
  match l with
  | [] => best
  | p :: r => if (snd p <? snd best)%Z then argmin_first p r else argmin_first best r
  end.

(*  if inds.size == 1: ib[m] = inds[0]
    elif inds.size > 1:
        candidates = inds[~np.isin(inds, ib[:m])]
        if candidates.size == 1: ib[m] = candidates[0]
        elif candidates.size > 1: ib[m] = inds[np.argmin(dt[inds])]     (sic: over inds)
    `prev` = ib[:m] (any order; only membership is used) *)
Definition assign1 (thr x : Z) (tsb : list Z) (prev : list Z) : Z :=
  let inds := near thr x tsb 0%Z in
  match inds with
  | [] => (-1)%Z
  | [p] => fst p
  | p :: rest =>
      match filter (fun q => negb (zmem (fst q) prev)) inds with
      | [] => (-1)%Z
      | [c] => fst c
      | _ => fst (argmin_first p rest)
      end
  end.

Fixpoint first_pass_from (thr delta : Z) (tsa tsb : list Z) (prev : list Z) : list Z :=
  match tsa with
  | [] => []
  | a :: r => let v := assign1 thr (a - delta)%Z tsb prev in
              v :: first_pass_from thr delta r tsb (v :: prev)
  end.

Definition first_pass (thr delta : Z) (tsa tsb : list Z) : list Z :=
  first_pass_from thr delta tsa tsb [].

(* ticks -> seconds *)
Definition tq (den : positive) (t : Z) : Q := Qmake t den.

(* ---- matched pairs:  tsa[ib >= 0], tsb[ib[ib >= 0]] ------------------------ *)
Fixpoint matched (tsa : list Q) (ib : list Z) (tsb : list Q) : list (Q * Q) :=
  match tsa, ib with
  | a :: ra, j :: rj =>
      if (0 <=? j)%Z then (a, nth (Z.to_nat j) tsb 0) :: matched ra rj tsb
      else matched ra rj tsb
  | _, _ => []
  end.

(* ---- np.polyfit(x, y, 1) as closed-form least squares ----------------------
   Sums are reduced at every step (Qred) to keep numerators small; Qred x == x. *)
Fixpoint qsum (l : list Q) : Q :=
  match l with [] => 0 | x :: r => Qred (x + qsum r) end.

Definition qlen {A} (l : list A) : Q := inject_Z (Z.of_nat (length l)).

(* returns (slope, intercept) of y ~ slope*x + intercept; None when the normal
   equations are singular (fewer than two distinct abscissae: numpy then raises
   TypeError on an empty vector or returns a minimum-norm solution with a
   RankWarning — outside the property's domain, not modelled) *)
Definition polyfit1 (pts : list (Q * Q)) : option (Q * Q) :=
  let n := qlen pts in
  let sx := qsum (map fst pts) in
  let sy := qsum (map snd pts) in
  let sxx := qsum (map (fun p => fst p * fst p) pts) in
  let sxy := qsum (map (fun p => fst p * snd p) pts) in
  let den := Qred (n * sxx - sx * sx) in
  if Qeq_bool den 0 then None
  else let s := Qred ((n * sxy - sx * sy) / den) in
       Some (s, Qred ((sy - s * sx) / n)).

(* ---- _interp_fcn ------------------------------------------------------------
   ab = np.polyfit(tsa[sel], tsb[ib[sel]] - tsa[sel], 1)
   linear:  lambda x: x * (1 + ab[0]) + ab[1]
   else:    interp1d(tsa[sel], tsb[ib[sel]], fill_value="extrapolate")  (kind linear) *)
Inductive a2b : Type :=
| FLin (s c : Q)
| FInt (knots : list (Q * Q)).

Definition lin2 (k0 k1 : Q * Q) (x : Q) : Q :=
  (snd k1 - snd k0) / (fst k1 - fst k0) * (x - fst k0) + snd k0.

(* scipy interp1d linear: idx = searchsorted(xk, x) (left), clipped to [1, n-1];
   segment (idx-1, idx).  Knots sorted by abscissa (tsa is sorted in the domain). *)
Fixpoint interp_seg (k0 k1 : Q * Q) (rest : list (Q * Q)) (x : Q) : Q :=
  match rest with
  | [] => lin2 k0 k1 x
  | k2 :: r => if Qle_bool x (fst k1) then lin2 k0 k1 x else interp_seg k1 k2 r x
  end.

Definition apply_a2b (f : a2b) (x : Q) : Q :=
  match f with
  | FLin s c => x * (1 + s) + c
  | FInt (k0 :: k1 :: r) => interp_seg k0 k1 r x
  | FInt _ => 0
  end.

Definition interp_fcn (linear : bool) (tsa : list Q) (ib : list Z) (tsb : list Q)
  : option (a2b * Q) :=
  let pr := matched tsa ib tsb in
  match polyfit1 (map (fun p => (fst p, snd p - fst p)) pr) with
  | None => None
  | Some (s, c) => Some (if linear then FLin s c else FInt pr, s)
  end.

(* ---- second pass -------------------------------------------------------------
   iamiss = np.where(ib < 0)[0]; ibmiss = setxor1d(arange(nb), ib[ib >= 0])
   dt = |fcn(tsa[iamiss]) - tsb[ibmiss][:, None]|;  dt[dt > tbin] = nan
   while not all nan: (_b,_a) = unravel(nanargmin(dt)); assign; blank row and column *)
(* the predicted times are stored reduced (Qred x == x): same values, smaller numerators *)
Fixpoint amiss (f : a2b) (tsa : list Q) (ib : list Z) (m : Z) : list (Z * Q) :=
  match tsa, ib with
  | a :: ra, j :: rj =>
      if (j <? 0)%Z then (m, Qred (apply_a2b f a)) :: amiss f ra rj (m + 1)%Z
      else amiss f ra rj (m + 1)%Z
  | _, _ => []
  end.

Fixpoint bmiss (tsb : list Q) (ib : list Z) (j : Z) : list (Z * Q) :=
  match tsb with
  | [] => []
  | b :: r => if zmem j ib then bmiss r ib (j + 1)%Z else (j, b) :: bmiss r ib (j + 1)%Z
  end.

(* running minimum over the row-major (b outer, a inner) scan; entries > thr are nan;
   nanargmin = first minimal entry, hence strict improvement only *)
Definition better (thr : Q) (bj : Z * Q) (am : Z * Q) (best : option (Z * Z * Q))
  : option (Z * Z * Q) :=
  let d := qdist (snd am) (snd bj) in
  if Qle_bool d thr then
    match best with
    | None => Some (fst bj, fst am, d)
    | Some (_, _, d0) => if qltb d d0 then Some (fst bj, fst am, d) else best
    end
  else best.

Fixpoint row_best (thr : Q) (bj : Z * Q) (al : list (Z * Q)) (best : option (Z * Z * Q)) :=
  match al with
  | [] => best
  | am :: r => row_best thr bj r (better thr bj am best)
  end.

Fixpoint mat_best (thr : Q) (bl al : list (Z * Q)) (best : option (Z * Z * Q)) :=
  match bl with
  | [] => best
  | bj :: r => mat_best thr r al (row_best thr bj al best)
  end.

Definition drop_idx (k : Z) (l : list (Z * Q)) : list (Z * Q) :=
  filter (fun p => negb (fst p =? k)%Z) l.

(* returns the (a-index, b-index) pairs assigned, in order of assignment;
   fuel = number of unassigned a events (one is consumed per iteration) *)
Fixpoint second_loop (fuel : nat) (thr : Q) (al bl : list (Z * Q)) : list (Z * Z) :=
  match fuel with
  | O => []
  | S k => match mat_best thr bl al None with
           | None => []
           | Some (j, m, _) => (m, j) :: second_loop k thr (drop_idx m al) (drop_idx j bl)
           end
  end.

Fixpoint lookup (m : Z) (ps : list (Z * Z)) : option Z :=
  match ps with
  | [] => None
  | (a, j) :: r => if (a =? m)%Z then Some j else lookup m r
  end.

Fixpoint update_ib (ib : list Z) (ps : list (Z * Z)) (m : Z) : list Z :=
  match ib with
  | [] => []
  | j :: r => (match lookup m ps with Some j' => j' | None => j end) :: update_ib r ps (m + 1)%Z
  end.

Definition second_pass (thr : Q) (f : a2b) (tsa tsb : list Q) (ib : list Z) : list Z :=
  let al := amiss f tsa ib 0%Z in
  let bl := bmiss tsb ib 0%Z in
  update_ib ib (second_loop (length al) thr al bl) 0%Z.

(* ---- the whole function after delta_t ------------------------------------------
   result: ib after the first pass, final ib, final fcn_a2b, final slope ab[0]
   (drift_ppm = slope * 1e6).  None = a polyfit call was singular. *)
Record sync_result := mkSync {
  sr_ib1 : list Z;
  sr_ib : list Z;
  sr_fcn : a2b;
  sr_slope : Q }.

Definition sync (linear : bool) (den : positive) (tbin delta : Z) (tsa tsb : list Z)
  : option sync_result :=
  let ib1 := first_pass tbin delta tsa tsb in
  let qa := map (tq den) tsa in
  let qb := map (tq den) tsb in
  match interp_fcn linear qa ib1 qb with
  | None => None
  | Some (f1, _) =>
      let ib2 := second_pass (tq den tbin) f1 qa qb ib1 in
      match interp_fcn linear qa ib2 qb with
      | None => None
      | Some (f2, s) => Some (mkSync ib1 ib2 f2 s)
      end
  end.

Definition drift_ppm (r : sync_result) : Q := sr_slope r * 1000000.

(* ---- parabolic_max (1-D input), src/ibldsp/utils.py:parabolic_max ----------------
   imax = np.argmax(x) (first maximum); v010 = x[clip(imax + [-1,0,1], 0, ns-1)];
   poly = 0.5*[[1,-2,1],[-1,0,1],[0,2,0]] @ v010;
   ipeak = -poly[1] / (poly[0] + (poly[0] == 0)) / 2; maxi = poly[2] + ipeak*poly[1] + ipeak**2*poly[0];
   at either edge: (imax, x[imax]).  Returns (ipeak + imax, maxi). *)
Fixpoint argmax_from (best : Z) (bv : Q) (l : list Q) (i : Z) : Z :=
  match l with
  | [] => best
  | v :: r => if qltb bv v then argmax_from i v r (i + 1)%Z else argmax_from best bv r (i + 1)%Z
  end.
Definition argmax_first (x : list Q) : Z :=
  match x with [] => 0%Z | v :: r => argmax_from 0%Z v r 1%Z end.

Definition peak3 (v0 v1 v2 : Q) : Q * Q :=
  let p0 := (v0 - 2 * v1 + v2) / 2 in
  let p1 := (v2 - v0) / 2 in
  let ip := - p1 / (p0 + (if Qeq_bool p0 0 then 1 else 0)) / 2 in
  (ip, v1 + ip * p1 + ip * ip * p0).

Definition parabolic_max (x : list Q) : Q * Q :=
  let ns := Z.of_nat (length x) in
  let imax := argmax_first x in
  let at_ (k : Z) := nth (Z.to_nat (Z.max 0 (Z.min (ns - 1) k))) x 0 in
  if ((imax =? 0) || (imax =? ns - 1))%Z then (inject_Z imax, at_ imax)
  else let '(ip, mx) := peak3 (at_ (imax - 1)%Z) (at_ imax) (at_ (imax + 1)%Z) in
       (ip + inject_Z imax, mx).


(* ---- the coarse offset delta_t -----------------------------------------------------
   tmin = min(min(tsa), min(tsb));  x = zeros(n); y = zeros_like(x)
   x[int32(floor((tsa - tmin) / tbin))] = 1;  y[int32(floor((tsb - tmin) / tbin))] = 1
   delta_t = (parabolic_max(scipy.signal.correlate(x, y, mode="full"))[0] - x.shape[0] + 1) * tbin
   Times and tbin in integer ticks (exact).  The histogram length n = x.shape[0]
   (= int(np.ceil(tmax - tmin) / tbin) + 1, a float64 division) is an input: only n > every
   bin index matters (IndexError otherwise) and whether the peak sits on the edge of the
   correlation.  correlate(x, y, "full")[k] = sum_l x[l] * y[l - (k - (n-1))]
   = number of (occupied x-bin i, occupied y-bin j) with i - j = k - (n-1). *)
From Coq Require Import FMapPositive.

Definition bin_of (tbin tmin t : Z) : Z := ((t - tmin) / tbin)%Z.      (* floor *)

Definition lmin (l : list Z) : Z :=
  match l with [] => 0%Z | x :: r => fold_left Z.min r x end.

Definition occupied (tbin tmin : Z) (ts : list Z) : list Z :=
  nodup Z.eq_dec (map (bin_of tbin tmin) ts).

Definition pget (m : PositiveMap.t Z) (k : positive) : Z :=
  match PositiveMap.find k m with Some c => c | None => 0%Z end.
Definition pincr (m : PositiveMap.t Z) (k : positive) : PositiveMap.t Z :=
  PositiveMap.add k (1 + pget m k)%Z m.

(* key of lag i - j: its position k = lag + n - 1 in the full correlation, plus one *)
Definition lag_key (n lag : Z) : positive := Z.to_pos (lag + n).
Definition pair_keys (n : Z) (xb yb : list Z) : list positive :=
  flat_map (fun i => map (fun j => lag_key n (i - j)%Z) yb) xb.

Fixpoint vec_from (m : PositiveMap.t Z) (fuel : nat) (k : Z) : list Z :=
  match fuel with
  | O => []
  | S f => pget m (Z.to_pos (k + 1)) :: vec_from m f (k + 1)%Z
  end.

Definition xcorr (n : Z) (xb yb : list Z) : list Z :=
  vec_from (fold_left pincr (pair_keys n xb yb) (PositiveMap.empty Z)) (Z.to_nat (2 * n - 1)) 0%Z.

(* None = a bin index >= n (IndexError in the source) *)
Definition coarse_delta (n : Z) (den : positive) (tbin : Z) (tsa tsb : list Z) : option Q :=
  let tmin := lmin (tsa ++ tsb) in
  let xb := occupied tbin tmin tsa in
  let yb := occupied tbin tmin tsb in
  if existsb (fun b => (n <=? b)%Z) (xb ++ yb) then None
  else let ip := fst (parabolic_max (map inject_Z (xcorr n xb yb))) in
       Some (Qred ((ip - inject_Z n + 1) * tq den tbin)).

(* first pass with a rational delta_t (seconds): same loop on ticks refined by the
   denominator of delta_t, which is exact *)
Definition first_pass_q (den : positive) (tbin : Z) (d : Q) (tsa tsb : list Z) : list Z :=
  let k := Zpos (Qden d) in
  first_pass (tbin * k)%Z (Qnum d * Zpos den)%Z (map (Z.mul k) tsa) (map (Z.mul k) tsb).

Definition sync_rest (linear : bool) (den : positive) (tbin : Z) (tsa tsb : list Z) (ib1 : list Z)
  : option sync_result :=
  let qa := map (tq den) tsa in
  let qb := map (tq den) tsb in
  match interp_fcn linear qa ib1 qb with
  | None => None
  | Some (f1, _) =>
      let ib2 := second_pass (tq den tbin) f1 qa qb ib1 in
      match interp_fcn linear qa ib2 qb with
      | None => None
      | Some (f2, s) => Some (mkSync ib1 ib2 f2 s)
      end
  end.

(* the whole function.  inl 0 = IndexError in the histogram; inl 1 = singular polyfit *)
Definition sync_full (linear : bool) (n : Z) (den : positive) (tbin : Z) (tsa tsb : list Z)
  : Z + (Q * sync_result) :=
  match coarse_delta n den tbin tsa tsb with
  | None => inl 0%Z
  | Some d =>
      match sync_rest linear den tbin tsa tsb (first_pass_q den tbin d tsa tsb) with
      | None => inl 1%Z
      | Some r => inr (d, r)
      end
  end.

(* parabolic_max on a 2-D array (x.ndim == 2 branch): the same three-sample fit along the last axis,
   row by row (np.vstack of the three fancy-indexed neighbours; edges: maxi[iedges] = v010[1, iedges],
   ipeak[iedges] = imax[iedges]) *)
Definition parabolic_max_rows (x : list (list Q)) : list (Q * Q) := map parabolic_max x.
