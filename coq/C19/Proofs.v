(* C19 — lemmas about the sync_timestamps model. *)
From Coq Require Import ZArith QArith Qabs List Bool Lia Lqa Qfield FMapPositive.
From IBL.C19 Require Import Model.
Import ListNotations.

(* witness: two a-events within tbin of the same single b-event are both paired with it.
   ticks of 10 ms: tsa = 0, 0.05, 10.3, 20.7 s; tsb = 0.02, 10.3, 20.7 s; tbin = 0.1 s *)
Definition wit_tsa : list Z := [0; 5; 1030; 2070]%Z.
Definition wit_tsb : list Z := [2; 1030; 2070]%Z.

Lemma first_pass_dup_witness :
  first_pass 10 0 wit_tsa wit_tsb = [0; 0; 1; 2]%Z.
Proof. vm_compute. reflexivity. Qed.

Open Scope Q_scope.

(* ------------------------------------------------------------------------- *)
(* Part A — degree-1 least squares                                            *)
(* ------------------------------------------------------------------------- *)
Fixpoint psum (l : list Q) : Q :=
  match l with [] => 0 | x :: r => x + psum r end.

Lemma qsum_psum l : qsum l == psum l.
Proof.
  induction l as [|x r IH]; cbn [qsum psum]; [reflexivity|].
  rewrite Qred_correct, IH. reflexivity.
Qed.

Definition S1 (xs : list Q) := psum xs.
Definition S2 (xs : list Q) := psum (map (fun x => x * x) xs).
Definition NN (xs : list Q) := inject_Z (Z.of_nat (length xs)).
Definition DD (xs : list Q) := NN xs * S2 xs - S1 xs * S1 xs.
Definition Q1 (x : Q) (xs : list Q) := psum (map (fun y => (x - y) * (x - y)) xs).

Lemma NN_cons x xs : NN (x :: xs) == NN xs + 1.
Proof.
  unfold NN. cbn [length]. rewrite Nat2Z.inj_succ, <- Z.add_1_r, inject_Z_plus. reflexivity.
Qed.

Lemma NN_nonneg xs : 0 <= NN xs.
Proof. unfold NN. change 0 with (inject_Z 0). rewrite <- Zle_Qle. lia. Qed.

Lemma Q1_expand x xs : Q1 x xs == NN xs * (x * x) - 2 * x * S1 xs + S2 xs.
Proof.
  induction xs as [|y r IH].
  - unfold Q1, NN, S1, S2. cbn. ring.
  - unfold Q1 in *. cbn [map psum]. rewrite IH, NN_cons. unfold S1, S2. cbn [map psum]. ring.
Qed.

Lemma DD_cons x xs : DD (x :: xs) == DD xs + Q1 x xs.
Proof.
  rewrite Q1_expand. unfold DD. rewrite NN_cons. unfold S1, S2. cbn [map psum]. ring.
Qed.

Lemma sq_nonneg (a : Q) : 0 <= a * a.
Proof.
  destruct (Qlt_le_dec a 0).
  - setoid_replace (a * a) with ((- a) * (- a)) by ring. apply Qmult_le_0_compat; lra.
  - apply Qmult_le_0_compat; lra.
Qed.

Lemma sq_pos (a : Q) : ~ a == 0 -> 0 < a * a.
Proof.
  intros Hne. destruct (Qlt_le_dec a 0).
  - setoid_replace (a * a) with ((- a) * (- a)) by ring. apply Qmult_lt_0_compat; lra.
  - destruct (Qlt_le_dec 0 a); [apply Qmult_lt_0_compat; lra|]. exfalso. apply Hne. lra.
Qed.

Lemma Q1_nonneg x xs : 0 <= Q1 x xs.
Proof.
  unfold Q1. induction xs as [|y r IH]; cbn [map psum]; [lra|].
  pose proof (sq_nonneg (x - y)). lra.
Qed.

Lemma Q1_pos x xs : (exists y, In y xs /\ ~ y == x) -> 0 < Q1 x xs.
Proof.
  intros [y [Hin Hne]]. unfold Q1. induction xs as [|z r IH]; [destruct Hin|].
  cbn [map psum]. pose proof (Q1_nonneg x r) as Hr. unfold Q1 in Hr.
  pose proof (sq_nonneg (x - z)) as Hz.
  destruct Hin as [->|Hin].
  - assert (0 < (x - y) * (x - y)); [|lra].
    apply sq_pos. intros E. apply Hne. lra.
  - specialize (IH Hin). lra.
Qed.

Lemma DD_nonneg xs : 0 <= DD xs.
Proof.
  induction xs as [|x r IH].
  - unfold DD, NN, S1, S2. cbn. lra.
  - rewrite DD_cons. pose proof (Q1_nonneg x r). lra.
Qed.

Lemma DD_pos xs : (exists x y, In x xs /\ In y xs /\ ~ x == y) -> 0 < DD xs.
Proof.
  induction xs as [|z r IH]; intros [x [y [Hx [Hy Hne]]]]; [destruct Hx|].
  rewrite DD_cons. pose proof (Q1_nonneg z r) as H1. pose proof (DD_nonneg r) as H2.
  destruct Hx as [<-|Hx]; destruct Hy as [<-|Hy].
  - exfalso. apply Hne. reflexivity.
  - assert (0 < Q1 z r); [|lra]. apply Q1_pos. exists y. split; [exact Hy|].
    intros E. apply Hne. symmetry. exact E.
  - assert (0 < Q1 z r); [|lra]. apply Q1_pos. exists x. split; [exact Hx|exact Hne].
  - assert (0 < DD r); [|lra]. apply IH. exists x, y. auto.
Qed.

(* the sums of an exactly affine data set *)
Section Affine.
Variables s c : Q.
Definition on_line (p : Q * Q) : Prop := snd p == s * fst p + c.

Lemma sy_affine pts : Forall on_line pts ->
  psum (map snd pts) == s * S1 (map fst pts) + c * NN (map fst pts).
Proof.
  induction 1 as [|p r Hp Hr IH].
  - unfold S1, NN. cbn. ring.
  - rewrite map_cons, map_cons. rewrite NN_cons. unfold S1 in *. cbn [psum].
    unfold on_line in Hp. rewrite IH, Hp. ring.
Qed.

Lemma sxy_affine pts : Forall on_line pts ->
  psum (map (fun p => fst p * snd p) pts) == s * S2 (map fst pts) + c * S1 (map fst pts).
Proof.
  induction 1 as [|p r Hp Hr IH].
  - unfold S1, S2. cbn. ring.
  - unfold S1, S2 in *. cbn [map psum]. unfold on_line in Hp. rewrite IH, Hp. ring.
Qed.
End Affine.

Lemma map_sq pts : map (fun p : Q * Q => fst p * fst p) pts = map (fun x => x * x) (map fst pts).
Proof. rewrite map_map. reflexivity. Qed.

Lemma polyfit_exact_affine pts s c :
  Forall (on_line s c) pts ->
  (exists p q, In p pts /\ In q pts /\ ~ fst p == fst q) ->
  exists s' c', polyfit1 pts = Some (s', c') /\ s' == s /\ c' == c.
Proof.
  intros Hl Hd.
  assert (HD : 0 < DD (map fst pts)).
  { apply DD_pos. destruct Hd as [p [q [Hp [Hq Hne]]]].
    exists (fst p), (fst q). repeat split; auto using in_map. }
  assert (HN : 0 < NN (map fst pts)).
  { destruct (Qlt_le_dec 0 (NN (map fst pts))) as [|Hle]; [assumption|].
    exfalso. pose proof (NN_nonneg (map fst pts)).
    assert (E : NN (map fst pts) == 0) by lra.
    unfold DD in HD. rewrite E in HD.
    pose proof (sq_nonneg (S1 (map fst pts))). lra. }
  pose proof (sy_affine s c pts Hl) as Hy.
  pose proof (sxy_affine s c pts Hl) as Hxy.
  unfold polyfit1.
  set (n := qlen pts).
  assert (En : n == NN (map fst pts)).
  { unfold n, qlen, NN. rewrite map_length. reflexivity. }
  set (sx := qsum (map fst pts)).
  assert (Ex : sx == S1 (map fst pts)) by (apply qsum_psum).
  set (sy := qsum (map snd pts)).
  assert (Ey : sy == psum (map snd pts)) by (apply qsum_psum).
  set (sxx := qsum (map (fun p => fst p * fst p) pts)).
  assert (Exx : sxx == S2 (map fst pts)).
  { unfold sxx. rewrite qsum_psum, map_sq. reflexivity. }
  set (sxy := qsum (map (fun p => fst p * snd p) pts)).
  assert (Exy : sxy == psum (map (fun p => fst p * snd p) pts)) by (apply qsum_psum).
  set (den := Qred (n * sxx - sx * sx)).
  assert (Eden : den == DD (map fst pts)).
  { unfold den. rewrite Qred_correct, En, Exx, Ex. reflexivity. }
  destruct (Qeq_bool den 0) eqn:Eb.
  { apply Qeq_bool_eq in Eb. rewrite Eden in Eb. lra. }
  eexists. eexists. split; [reflexivity|].
  assert (Es : Qred ((n * sxy - sx * sy) / den) == s).
  { rewrite Qred_correct, Eden, En, Exy, Ey, Ex, Hxy, Hy.
    unfold DD. field. unfold DD in HD. lra. }
  split; [exact Es|].
  rewrite Qred_correct, Es, Ey, Ex, En, Hy. field. lra.
Qed.


Definition pair_on_map (d o : Q) (p : Q * Q) : Prop := snd p == (1 + d) * fst p + o.

Lemma matched_In tsb : forall tsa ib p, In p (matched tsa ib tsb) ->
  exists m, (m < length tsa)%nat /\ (m < length ib)%nat /\ (0 <= nth m ib (-1)%Z)%Z /\
            p = (nth m tsa 0, nth (Z.to_nat (nth m ib (-1)%Z)) tsb 0).
Proof.
  induction tsa as [|a ra IH]; intros ib p Hin; [destruct Hin|].
  destruct ib as [|j rj]; [destruct Hin|]. cbn [matched] in Hin.
  destruct (0 <=? j)%Z eqn:E.
  - destruct Hin as [<-|Hin].
    + exists 0%nat. cbn. apply Z.leb_le in E. repeat split; try lia.
    + destruct (IH _ _ Hin) as [m [H1 [H2 [H3 H4]]]]. exists (S m). cbn [length nth]. repeat split; try lia; assumption.
  - destruct (IH _ _ Hin) as [m [H1 [H2 [H3 H4]]]]. exists (S m). cbn [length nth]. repeat split; try lia; assumption.
Qed.

Lemma matched_complete tsb : forall tsa ib m, (m < length tsa)%nat -> (m < length ib)%nat ->
  (0 <= nth m ib (-1)%Z)%Z ->
  In (nth m tsa 0, nth (Z.to_nat (nth m ib (-1)%Z)) tsb 0) (matched tsa ib tsb).
Proof.
  induction tsa as [|a ra IH]; intros ib m H1 H2 H3; cbn [length] in H1; [lia|].
  destruct ib as [|j rj]; cbn [length] in H2; [lia|]. cbn [matched].
  destruct m as [|m]; cbn [nth] in *.
  - apply Z.leb_le in H3. rewrite H3. left; reflexivity.
  - specialize (IH rj m ltac:(lia) ltac:(lia) H3). destruct (0 <=? j)%Z; [right|]; exact IH.
Qed.

Lemma lin2_on_map d o k0 k1 x : pair_on_map d o k0 -> pair_on_map d o k1 -> ~ fst k1 == fst k0 ->
  lin2 k0 k1 x == (1 + d) * x + o.
Proof.
  unfold pair_on_map, lin2. intros H0 H1 Hne. rewrite H0, H1. field. intros E. apply Hne. lra.
Qed.

Lemma interp_seg_on_map d o x : forall rest k0 k1,
  Forall (pair_on_map d o) (k0 :: k1 :: rest) ->
  (forall p q r1 r2, k0 :: k1 :: rest = r1 ++ p :: q :: r2 -> ~ fst q == fst p) ->
  interp_seg k0 k1 rest x == (1 + d) * x + o.
Proof.
  induction rest as [|k2 r IH]; intros k0 k1 Hf Hd.
  - cbn [interp_seg]. inversion Hf as [|? ? H0 Hf']; subst. inversion Hf' as [|? ? H1 _]; subst.
    apply lin2_on_map; auto. apply (Hd k0 k1 [] []). reflexivity.
  - cbn [interp_seg]. inversion Hf as [|? ? H0 Hf']; subst. inversion Hf' as [|? ? H1 _]; subst.
    destruct (Qle_bool x (fst k1)).
    + apply lin2_on_map; auto. apply (Hd k0 k1 [] (k2 :: r)). reflexivity.
    + apply IH; [exact Hf'|]. intros p q r1 r2 E. apply (Hd p q (k0 :: r1) r2). rewrite E. reflexivity.
Qed.

(* _interp_fcn on pairs that all lie on b = (1+d) a + o *)
Lemma interp_fcn_exact linear tsa ib tsb d o :
  Forall (pair_on_map d o) (matched tsa ib tsb) ->
  (exists p q, In p (matched tsa ib tsb) /\ In q (matched tsa ib tsb) /\ ~ fst p == fst q) ->
  exists f s, interp_fcn linear tsa ib tsb = Some (f, s) /\ s == d /\
    (linear = true -> forall x, apply_a2b f x == (1 + d) * x + o) /\
    (linear = false ->
       (forall p q r1 r2, matched tsa ib tsb = r1 ++ p :: q :: r2 -> ~ fst q == fst p) ->
       forall x, apply_a2b f x == (1 + d) * x + o).
Proof.
  intros Hf Hd. unfold interp_fcn.
  set (pr := matched tsa ib tsb) in *.
  set (pts := map (fun p : Q * Q => (fst p, snd p - fst p)) pr).
  assert (Hl : Forall (on_line d o) pts).
  { unfold pts. apply Forall_forall. intros q Hq. apply in_map_iff in Hq. destruct Hq as [p [<- Hp]].
    rewrite Forall_forall in Hf. specialize (Hf p Hp). unfold on_line, pair_on_map in *. cbn [fst snd].
    rewrite Hf. ring. }
  assert (Hd' : exists p q, In p pts /\ In q pts /\ ~ fst p == fst q).
  { destruct Hd as [p [q [Hp [Hq Hne]]]].
    exists (fst p, snd p - fst p), (fst q, snd q - fst q). unfold pts.
    repeat split; try (apply in_map_iff; eexists; split; [reflexivity|assumption]). exact Hne. }
  destruct (polyfit_exact_affine pts d o Hl Hd') as [s' [c' [E [Es Ec]]]].
  rewrite E. eexists. exists s'. split; [reflexivity|]. split; [exact Es|]. split.
  - intros ->. intros x. cbn [apply_a2b]. rewrite Es, Ec. ring.
  - intros ->. intros Hsorted x. cbn [apply_a2b].
    destruct pr as [|k0 [|k1 r]] eqn:Epr.
    + destruct Hd as [p [_ [[] _]]].
    + destruct Hd as [p [q [[<-|[]] [[<-|[]] Hne]]]]. exfalso. apply Hne. reflexivity.
    + apply interp_seg_on_map; [exact Hf|exact Hsorted].
Qed.

Open Scope Z_scope.

(* ------------------------------------------------------------------------- *)
(* Part B — first pass (integer ticks)                                        *)
(* ------------------------------------------------------------------------- *)
Lemma near_In thr x l : forall j0 j d, In (j, d) (near thr x l j0) ->
  exists i, (i < length l)%nat /\ j = j0 + Z.of_nat i /\ d = Z.abs (x - nth i l 0) /\ d < thr.
Proof.
  induction l as [|b r IH]; intros j0 j d Hin; cbn [near] in Hin; [destruct Hin|].
  destruct (Z.abs (x - b) <? thr) eqn:E.
  - destruct Hin as [Heq|Hin].
    + inversion Heq; subst. exists 0%nat. cbn. apply Z.ltb_lt in E. repeat split; lia.
    + destruct (IH _ _ _ Hin) as [i [Hi [Hj [Hd Hlt]]]]. exists (S i). cbn [length nth].
      repeat split; try lia; assumption.
  - destruct (IH _ _ _ Hin) as [i [Hi [Hj [Hd Hlt]]]]. exists (S i). cbn [length nth].
    repeat split; try lia; assumption.
Qed.

Lemma near_complete thr x l : forall j0 i, (i < length l)%nat -> Z.abs (x - nth i l 0) < thr ->
  In (j0 + Z.of_nat i, Z.abs (x - nth i l 0)) (near thr x l j0).
Proof.
  induction l as [|b r IH]; intros j0 i Hi Hlt; cbn [length] in Hi; [lia|].
  cbn [near]. destruct i as [|i].
  - cbn [nth] in *. apply Z.ltb_lt in Hlt. rewrite Hlt. left. f_equal. lia.
  - cbn [nth] in *. specialize (IH (j0 + 1) i ltac:(lia) Hlt).
    replace (j0 + 1 + Z.of_nat i) with (j0 + Z.of_nat (S i)) in IH by lia.
    destruct (Z.abs (x - b) <? thr); [right|]; exact IH.
Qed.

(* indices in `near` are strictly increasing, all >= j0 *)
Lemma near_lb thr x l : forall j0 p, In p (near thr x l j0) -> j0 <= fst p.
Proof.
  intros j0 [j d] Hin. destruct (near_In _ _ _ _ _ _ Hin) as [i [_ [-> _]]]. cbn. lia.
Qed.

Lemma near_nodup thr x l : forall j0, NoDup (map fst (near thr x l j0)).
Proof.
  induction l as [|b r IH]; intros j0; cbn [near]; [constructor|].
  destruct (Z.abs (x - b) <? thr); [|apply IH].
  cbn [map fst]. constructor; [|apply IH].
  intros Hin. apply in_map_iff in Hin. destruct Hin as [p [Hp Hin]].
  apply near_lb in Hin. lia.
Qed.

Lemma argmin_first_In l : forall best, argmin_first best l = best \/ In (argmin_first best l) l.
Proof.
  induction l as [|p r IH]; intros best; cbn [argmin_first]; [left; reflexivity|].
  destruct (snd p <? snd best).
  - destruct (IH p) as [->|H]; right; [left; reflexivity|right; exact H].
  - destruct (IH best) as [->|H]; [left; reflexivity|right; right; exact H].
Qed.

(* whatever branch is taken, an assigned index is one of the candidates *)
Lemma assign1_cases thr x tsb prev :
  assign1 thr x tsb prev = -1 \/ In (assign1 thr x tsb prev) (map fst (near thr x tsb 0)).
Proof.
  unfold assign1. destruct (near thr x tsb 0) as [|p [|q rest]] eqn:E.
  - left; reflexivity.
  - right. left. reflexivity.
  - set (inds := p :: q :: rest).
    destruct (filter (fun q0 => negb (zmem (fst q0) prev)) inds) as [|c [|c2 cr]] eqn:F.
    + left; reflexivity.
    + right. apply in_map. assert (Hc : In c (filter (fun q0 => negb (zmem (fst q0) prev)) inds)) by (rewrite F; left; reflexivity).
      apply filter_In in Hc. exact (proj1 Hc).
    + right. apply in_map. destruct (argmin_first_In (q :: rest) p) as [->|H]; [left; reflexivity|right; exact H].
Qed.

Lemma assign1_near thr x tsb prev j : assign1 thr x tsb prev = j -> 0 <= j ->
  exists i, (i < length tsb)%nat /\ j = Z.of_nat i /\ Z.abs (x - nth i tsb 0) < thr.
Proof.
  intros <- Hj. destruct (assign1_cases thr x tsb prev) as [E|Hin]; [lia|].
  apply in_map_iff in Hin. destruct Hin as [[j d] [Hj' Hin]]. cbn in Hj'. subst j.
  destruct (near_In _ _ _ _ _ _ Hin) as [i [Hi [Hj' [Hd Hlt]]]]. exists i. repeat split; [exact Hi|lia|lia].
Qed.

Lemma assign1_range thr x tsb prev : -1 <= assign1 thr x tsb prev < Z.of_nat (length tsb).
Proof.
  destruct (assign1_cases thr x tsb prev) as [E|Hin]; [rewrite E; lia|].
  apply in_map_iff in Hin. destruct Hin as [[j d] [Hj' Hin]]. cbn in Hj'. rewrite <- Hj'.
  destruct (near_In _ _ _ _ _ _ Hin) as [i [Hi [-> _]]]. lia.
Qed.

(* a unique candidate is taken whatever has been used before *)
Lemma assign1_unique thr x tsb prev i :
  (i < length tsb)%nat -> Z.abs (x - nth i tsb 0) < thr ->
  (forall i', (i' < length tsb)%nat -> Z.abs (x - nth i' tsb 0) < thr -> i' = i) ->
  assign1 thr x tsb prev = Z.of_nat i.
Proof.
  intros Hi Hlt Hu.
  pose proof (near_complete thr x tsb 0 i Hi Hlt) as Hin. rewrite Z.add_0_l in Hin.
  pose proof (near_nodup thr x tsb 0) as Hnd.
  assert (Hall : forall p, In p (near thr x tsb 0) -> fst p = Z.of_nat i).
  { intros [j d] Hp. destruct (near_In _ _ _ _ _ _ Hp) as [i' [Hi' [-> [-> Hlt']]]].
    cbn. rewrite (Hu i' Hi' Hlt'). lia. }
  unfold assign1. destruct (near thr x tsb 0) as [|p [|q rest]] eqn:E.
  - destruct Hin.
  - apply Hall. left; reflexivity.
  - exfalso. cbn [map] in Hnd. inversion Hnd as [|? ? Hnot _]; subst.
    apply Hnot. left. rewrite (Hall p), (Hall q); [reflexivity|right; left; reflexivity|left; reflexivity].
Qed.

Lemma assign1_none thr x tsb prev :
  (forall i, (i < length tsb)%nat -> thr <= Z.abs (x - nth i tsb 0)) ->
  assign1 thr x tsb prev = -1.
Proof.
  intros Hf. destruct (assign1_cases thr x tsb prev) as [E|Hin]; [exact E|].
  apply in_map_iff in Hin. destruct Hin as [[j d] [_ Hin]].
  destruct (near_In _ _ _ _ _ _ Hin) as [i [Hi [_ [-> Hlt]]]]. specialize (Hf i Hi). lia.
Qed.

Lemma first_pass_from_length thr delta tsa tsb : forall prev,
  length (first_pass_from thr delta tsa tsb prev) = length tsa.
Proof. induction tsa as [|a r IH]; intros prev; cbn; [reflexivity|]. now rewrite IH. Qed.

Lemma first_pass_from_nth thr delta tsb : forall tsa prev m, (m < length tsa)%nat ->
  exists prev', nth m (first_pass_from thr delta tsa tsb prev) (-1)
                = assign1 thr (nth m tsa 0 - delta) tsb prev'.
Proof.
  induction tsa as [|a r IH]; intros prev m Hm; cbn [length] in Hm; [lia|].
  cbn [first_pass_from]. destruct m as [|m].
  - exists prev. reflexivity.
  - cbn [nth]. apply IH. lia.
Qed.

Lemma first_pass_length thr delta tsa tsb : length (first_pass thr delta tsa tsb) = length tsa.
Proof. apply first_pass_from_length. Qed.

Lemma first_pass_nth thr delta tsa tsb m : (m < length tsa)%nat ->
  exists prev', nth m (first_pass thr delta tsa tsb) (-1)
                = assign1 thr (nth m tsa 0 - delta) tsb prev'.
Proof. apply first_pass_from_nth. Qed.

(* every pair produced by the first pass is closer than the threshold (unconditional) *)
Lemma first_pass_within thr delta tsa tsb m j : (m < length tsa)%nat ->
  nth m (first_pass thr delta tsa tsb) (-1) = j -> 0 <= j ->
  exists i, (i < length tsb)%nat /\ j = Z.of_nat i /\ Z.abs (nth m tsa 0 - delta - nth i tsb 0) < thr.
Proof.
  intros Hm Hn Hj. destruct (first_pass_nth thr delta tsa tsb m Hm) as [prev' E].
  rewrite E in Hn. exact (assign1_near _ _ _ _ _ Hn Hj).
Qed.

Lemma first_pass_range thr delta tsa tsb m : (m < length tsa)%nat ->
  -1 <= nth m (first_pass thr delta tsa tsb) (-1) < Z.of_nat (length tsb).
Proof.
  intros Hm. destruct (first_pass_nth thr delta tsa tsb m Hm) as [prev' ->]. apply assign1_range.
Qed.

(* injectivity needs the a-side spacing: two a-events at least 2*thr apart never share a partner *)
Lemma first_pass_injective thr delta tsa tsb :
  (forall m1 m2, (m1 < length tsa)%nat -> (m2 < length tsa)%nat -> m1 <> m2 ->
     2 * thr <= Z.abs (nth m1 tsa 0 - nth m2 tsa 0)) ->
  forall m1 m2 j, (m1 < length tsa)%nat -> (m2 < length tsa)%nat -> 0 <= j ->
    nth m1 (first_pass thr delta tsa tsb) (-1) = j ->
    nth m2 (first_pass thr delta tsa tsb) (-1) = j -> m1 = m2.
Proof.
  intros Hsp m1 m2 j H1 H2 Hj E1 E2.
  destruct (Nat.eq_dec m1 m2) as [|Hne]; [assumption|exfalso].
  destruct (first_pass_within _ _ _ _ _ _ H1 E1 Hj) as [i1 [_ [Hi1 L1]]].
  destruct (first_pass_within _ _ _ _ _ _ H2 E2 Hj) as [i2 [_ [Hi2 L2]]].
  assert (i1 = i2) by lia. subst i2.
  specialize (Hsp m1 m2 H1 H2 Hne). lia.
Qed.

(* Soundness and completeness under separation.
   Ground truth: event k happened at tick t k (clock of series a).  la m / lb j = the
   event seen as tsa[m] / tsb[j].  ea, eb bound the misalignment of each side
   once the coarse offset has been removed (jitter + drift*time + error of delta);
   distinct events are at least thr + ea + eb apart. *)
Section Separation.
Variables (thr delta ea eb : Z) (tsa tsb : list Z) (t : Z -> Z) (la lb : nat -> Z).
Hypothesis Ha : forall m, (m < length tsa)%nat -> Z.abs (nth m tsa 0 - t (la m)) <= ea.
Hypothesis Hb : forall j, (j < length tsb)%nat -> Z.abs (nth j tsb 0 + delta - t (lb j)) <= eb.
Hypothesis Hsep : forall k k', k <> k' -> thr + ea + eb <= Z.abs (t k - t k').
Hypothesis Hlb : forall j j', (j < length tsb)%nat -> (j' < length tsb)%nat -> lb j = lb j' -> j = j'.
Set Default Proof Using "Ha Hb Hsep Hlb".

Lemma near_is_partner m j : (m < length tsa)%nat -> (j < length tsb)%nat ->
  Z.abs (nth m tsa 0 - delta - nth j tsb 0) < thr -> la m = lb j.
Proof using Ha Hb Hsep.
  intros Hm Hj Hlt. destruct (Z.eq_dec (la m) (lb j)) as [|Hne]; [assumption|exfalso].
  specialize (Ha m Hm). specialize (Hb j Hj). specialize (Hsep _ _ Hne). lia.
Qed.

Lemma first_pass_sound m j : (m < length tsa)%nat ->
  nth m (first_pass thr delta tsa tsb) (-1) = j -> 0 <= j ->
  exists i, (i < length tsb)%nat /\ j = Z.of_nat i /\ la m = lb i.
Proof using Ha Hb Hsep.
  intros Hm E Hj. destruct (first_pass_within _ _ _ _ _ _ Hm E Hj) as [i [Hi [-> Hlt]]].
  exists i. repeat split; [exact Hi|]. exact (near_is_partner m i Hm Hi Hlt).
Qed.

Lemma first_pass_complete m i : (m < length tsa)%nat -> (i < length tsb)%nat ->
  la m = lb i -> ea + eb < thr ->
  nth m (first_pass thr delta tsa tsb) (-1) = Z.of_nat i.
Proof.
  intros Hm Hi Hp He. destruct (first_pass_nth thr delta tsa tsb m Hm) as [prev' ->].
  assert (Hlt : Z.abs (nth m tsa 0 - delta - nth i tsb 0) < thr).
  { specialize (Ha m Hm). specialize (Hb i Hi). rewrite Hp in Ha. lia. }
  apply assign1_unique; [exact Hi|exact Hlt|].
  intros i' Hi' Hlt'. apply Hlb; [exact Hi'|exact Hi|].
  rewrite <- (near_is_partner m i' Hm Hi' Hlt'). exact Hp.
Qed.

(* an a-event whose partner is absent from tsb stays unassigned *)
Lemma first_pass_lone m : (m < length tsa)%nat ->
  (forall i, (i < length tsb)%nat -> la m <> lb i) ->
  nth m (first_pass thr delta tsa tsb) (-1) = -1.
Proof using Ha Hb Hsep.
  intros Hm Hno. destruct (first_pass_nth thr delta tsa tsb m Hm) as [prev' ->].
  apply assign1_none. intros i Hi.
  destruct (Z_lt_le_dec (Z.abs (nth m tsa 0 - delta - nth i tsb 0)) thr) as [Hlt|]; [|assumption].
  exfalso. exact (Hno i Hi (near_is_partner m i Hm Hi Hlt)).
Qed.
End Separation.
Unset Default Proof Using.

(* ------------------------------------------------------------------------- *)
(* Part C — second pass                                                       *)
(* ------------------------------------------------------------------------- *)
Lemma zmem_In j l : zmem j l = true <-> In j l.
Proof.
  induction l as [|k r IH]; cbn [zmem In]; [split; [discriminate|tauto]|].
  rewrite orb_true_iff, IH, Z.eqb_eq. split; intros [H|H]; auto.
Qed.

Definition entry_ok (thr : Q) (al bl : list (Z * Q)) (e : Z * Z * Q) : Prop :=
  let '(j, m, d) := e in
  exists bv av, In (j, bv) bl /\ In (m, av) al /\ d = qdist av bv /\ Qle_bool d thr = true.

Definition best_ok thr al bl (best : option (Z * Z * Q)) : Prop :=
  match best with None => True | Some e => entry_ok thr al bl e end.

Lemma better_ok thr al bl bj am best :
  In bj bl -> In am al -> best_ok thr al bl best -> best_ok thr al bl (better thr bj am best).
Proof.
  intros Hb Ha Hok. unfold better. destruct bj as [j bv], am as [m av]. cbn [fst snd].
  destruct (Qle_bool (qdist av bv) thr) eqn:E; [|exact Hok].
  assert (Hnew : entry_ok thr al bl (j, m, qdist av bv)) by (exists bv, av; auto).
  destruct best as [[[j0 m0] d0]|]; [|exact Hnew].
  destruct (qltb (qdist av bv) d0); [exact Hnew|exact Hok].
Qed.

Lemma row_best_ok thr al bl bj : In bj bl -> forall al' best, incl al' al ->
  best_ok thr al bl best -> best_ok thr al bl (row_best thr bj al' best).
Proof.
  intros Hb. induction al' as [|am r IH]; intros best Hinc Hok; cbn [row_best]; [exact Hok|].
  apply IH; [intros x Hx; apply Hinc; right; exact Hx|].
  apply better_ok; auto. apply Hinc. left; reflexivity.
Qed.

Lemma mat_best_ok thr al bl : forall bl' best, incl bl' bl ->
  best_ok thr al bl best -> best_ok thr al bl (mat_best thr bl' al best).
Proof.
  induction bl' as [|bj r IH]; intros best Hinc Hok; cbn [mat_best]; [exact Hok|].
  apply IH; [intros x Hx; apply Hinc; right; exact Hx|].
  apply row_best_ok; auto; [apply Hinc; left; reflexivity|apply incl_refl].
Qed.

Lemma mat_best_some thr al bl e : mat_best thr bl al None = Some e -> entry_ok thr al bl e.
Proof.
  intros E. pose proof (mat_best_ok thr al bl bl None (incl_refl _) I) as H. rewrite E in H. exact H.
Qed.

(* None is returned only when nothing is within the threshold *)
Lemma better_some thr bj am best : best <> None -> better thr bj am best <> None.
Proof.
  unfold better. destruct (Qle_bool _ thr); [|auto].
  destruct best as [[[j0 m0] d0]|]; [|congruence]. intros _. destruct (qltb _ d0); discriminate.
Qed.

Lemma row_best_some thr bj : forall al best, best <> None -> row_best thr bj al best <> None.
Proof.
  induction al as [|am r IH]; intros best H; cbn [row_best]; [exact H|]. apply IH, better_some, H.
Qed.

Lemma mat_best_some_mono thr al : forall bl best, best <> None -> mat_best thr bl al best <> None.
Proof.
  induction bl as [|bj r IH]; intros best H; cbn [mat_best]; [exact H|]. apply IH, row_best_some, H.
Qed.

Lemma row_best_hit thr bj am : forall al best, In am al ->
  Qle_bool (qdist (snd am) (snd bj)) thr = true -> row_best thr bj al best <> None.
Proof.
  induction al as [|x r IH]; intros best Hin Hle; [destruct Hin|]. cbn [row_best].
  destruct Hin as [->|Hin]; [|apply IH; assumption].
  apply row_best_some. unfold better. rewrite Hle.
  destruct best as [[[j0 m0] d0]|]; [destruct (qltb _ d0)|]; discriminate.
Qed.

Lemma mat_best_hit thr al am bj : forall bl best, In bj bl -> In am al ->
  Qle_bool (qdist (snd am) (snd bj)) thr = true -> mat_best thr bl al best <> None.
Proof.
  induction bl as [|x r IH]; intros best Hb Ha Hle; [destruct Hb|]. cbn [mat_best].
  destruct Hb as [->|Hb]; [|apply IH; assumption].
  apply mat_best_some_mono. apply (row_best_hit thr bj am); assumption.
Qed.

Lemma drop_idx_In k l p : In p (drop_idx k l) <-> In p l /\ fst p <> k.
Proof.
  unfold drop_idx. rewrite filter_In, negb_true_iff, Z.eqb_neq. tauto.
Qed.

Lemma filter_len_le {A} (g : A -> bool) l : (length (filter g l) <= length l)%nat.
Proof. induction l as [|x r IH]; cbn; [lia|]. destruct (g x); cbn; lia. Qed.

Lemma drop_idx_shorter k l v : In (k, v) l -> (length (drop_idx k l) < length l)%nat.
Proof.
  unfold drop_idx. induction l as [|p r IH]; intros Hin; [destruct Hin|]. cbn [filter length].
  destruct Hin as [->|Hin].
  - cbn [fst]. rewrite Z.eqb_refl. cbn [negb]. pose proof (filter_len_le (fun p : Z * Q => negb (fst p =? k)) r). lia.
  - specialize (IH Hin). destruct (negb (fst p =? k)); cbn [length]; lia.
Qed.

Definition pair_ok (thr : Q) (al bl : list (Z * Q)) (p : Z * Z) : Prop :=
  exists av bv, In (fst p, av) al /\ In (snd p, bv) bl /\ Qle_bool (qdist av bv) thr = true.

Lemma second_loop_ok thr : forall fuel al bl p, In p (second_loop fuel thr al bl) -> pair_ok thr al bl p.
Proof.
  induction fuel as [|k IH]; intros al bl p Hin; cbn [second_loop] in Hin; [destruct Hin|].
  destruct (mat_best thr bl al None) as [[[j m] d]|] eqn:E; [|destruct Hin].
  destruct Hin as [<-|Hin].
  - apply mat_best_some in E. destruct E as [bv [av [Hb [Ha [-> Hle]]]]]. exists av, bv. auto.
  - destruct (IH _ _ _ Hin) as [av [bv [Ha [Hb Hle]]]]. exists av, bv.
    apply drop_idx_In in Ha. apply drop_idx_In in Hb. tauto.
Qed.

Lemma second_loop_nodup thr : forall fuel al bl,
  NoDup (map fst (second_loop fuel thr al bl)) /\ NoDup (map snd (second_loop fuel thr al bl)).
Proof.
  induction fuel as [|k IH]; intros al bl; cbn [second_loop]; [split; constructor|].
  destruct (mat_best thr bl al None) as [[[j m] d]|] eqn:E; [|split; constructor].
  destruct (IH (drop_idx m al) (drop_idx j bl)) as [N1 N2]. cbn [map fst snd].
  split; constructor; auto; intros Hin; apply in_map_iff in Hin; destruct Hin as [p [Hp Hin]];
    apply second_loop_ok in Hin; destruct Hin as [av [bv [Ha [Hb _]]]];
    apply drop_idx_In in Ha; apply drop_idx_In in Hb; cbn [fst] in *; tauto.
Qed.

Lemma second_loop_maximal thr : forall fuel al bl, (length al <= fuel)%nat ->
  forall m av j bv, In (m, av) al -> In (j, bv) bl -> Qle_bool (qdist av bv) thr = true ->
  In m (map fst (second_loop fuel thr al bl)) \/ In j (map snd (second_loop fuel thr al bl)).
Proof.
  induction fuel as [|k IH]; intros al bl Hlen m av j bv Ha Hb Hle.
  - destruct al; [destruct Ha|cbn in Hlen; lia].
  - cbn [second_loop]. destruct (mat_best thr bl al None) as [[[j0 m0] d0]|] eqn:E.
    + cbn [map fst snd]. destruct (Z.eq_dec m m0) as [->|Hm]; [left; left; reflexivity|].
      destruct (Z.eq_dec j j0) as [->|Hj]; [right; left; reflexivity|].
      pose proof (mat_best_some _ _ _ _ E) as [bv0 [av0 [Hb0 [Ha0 _]]]].
      pose proof (drop_idx_shorter m0 al av0 Ha0) as Hsh.
      assert (Ha' : In (m, av) (drop_idx m0 al)) by (apply drop_idx_In; split; auto).
      assert (Hb' : In (j, bv) (drop_idx j0 bl)) by (apply drop_idx_In; split; auto).
      destruct (IH (drop_idx m0 al) (drop_idx j0 bl) ltac:(lia) m av j bv Ha' Hb' Hle) as [H|H]; [left; right; exact H|right; right; exact H].
    + exfalso. exact (mat_best_hit thr al (m, av) (j, bv) bl None Hb Ha Hle E).
Qed.

Lemma qdist_red x b thr : Qle_bool (qdist (Qred x) b) thr = Qle_bool (qdist x b) thr.
Proof.
  apply eq_true_iff_eq. rewrite !Qle_bool_iff. unfold qdist. rewrite Qred_correct. reflexivity.
Qed.

(* unassigned a-events / unused b-events *)
Lemma amiss_In f : forall tsa ib m0 m v, In (m, v) (amiss f tsa ib m0) <->
  exists i, m = m0 + Z.of_nat i /\ (i < length tsa)%nat /\ (i < length ib)%nat /\
            nth i ib (-1) < 0 /\ v = Qred (apply_a2b f (nth i tsa 0%Q)).
Proof.
  induction tsa as [|a ra IH]; intros ib m0 m v.
  - cbn [amiss]. split; [intros []|intros [i [_ [H _]]]; cbn in H; lia].
  - destruct ib as [|j rj]; cbn [amiss].
    + split; [intros []|intros [i [_ [_ [H _]]]]; cbn in H; lia].
    + assert (Hrec : In (m, v) (amiss f ra rj (m0 + 1)) <->
                     exists i, m = m0 + Z.of_nat (S i) /\ (S i < length (a :: ra))%nat /\
                       (S i < length (j :: rj))%nat /\ nth (S i) (j :: rj) (-1) < 0 /\
                       v = Qred (apply_a2b f (nth (S i) (a :: ra) 0%Q))).
      { rewrite IH. split; intros [i H]; exists i; cbn [length nth] in *;
          (repeat split; try lia; try tauto). all: destruct H as [? [? [? [? ?]]]]; assumption. }
      destruct (j <? 0) eqn:Ej.
      * cbn [In]. rewrite Hrec. split.
        -- intros [Heq|[i H]]; [|exists (S i); exact H].
           inversion Heq; subst. exists 0%nat. cbn. apply Z.ltb_lt in Ej. repeat split; lia.
        -- intros [[|i] H]; [left|right; exists i; exact H].
           destruct H as [-> [_ [_ [_ ->]]]]. cbn. f_equal. lia.
      * rewrite Hrec. split.
        -- intros [i H]; exists (S i); exact H.
        -- intros [[|i] H]; [|exists i; exact H].
           destruct H as [_ [_ [_ [H _]]]]. cbn in H. apply Z.ltb_ge in Ej. lia.
Qed.

Lemma bmiss_In ib : forall tsb j0 j b, In (j, b) (bmiss tsb ib j0) <->
  exists i, j = j0 + Z.of_nat i /\ (i < length tsb)%nat /\ b = nth i tsb 0%Q /\ ~ In j ib.
Proof.
  induction tsb as [|x r IH]; intros j0 j b; cbn [bmiss].
  - split; [intros []|intros [i [_ [H _]]]; cbn in H; lia].
  - assert (Hrec : In (j, b) (bmiss r ib (j0 + 1)) <->
                   exists i, j = j0 + Z.of_nat (S i) /\ (S i < length (x :: r))%nat /\
                             b = nth (S i) (x :: r) 0%Q /\ ~ In j ib).
    { rewrite IH. split; intros [i [H1 [H2 [H3 H4]]]]; exists i; cbn [length nth] in *;
        repeat split; try lia; assumption. }
    destruct (zmem j0 ib) eqn:Ez.
    + rewrite Hrec. split.
      * intros [i H]; exists (S i); exact H.
      * intros [[|i] H]; [|exists i; exact H]. destruct H as [-> [_ [_ H]]].
        exfalso. apply H. apply zmem_In. rewrite Z.add_0_r. exact Ez.
    + cbn [In]. rewrite Hrec. split.
      * intros [Heq|[i H]]; [|exists (S i); exact H]. inversion Heq; subst.
        exists 0%nat. cbn. repeat split; try lia. intros Hin. apply zmem_In in Hin. congruence.
      * intros [[|i] H]; [left|right; exists i; exact H].
        destruct H as [-> [_ [-> _]]]. cbn. f_equal. lia.
Qed.

Lemma lookup_In m ps j : lookup m ps = Some j -> In (m, j) ps.
Proof.
  induction ps as [|[a b] r IH]; cbn [lookup]; [discriminate|].
  destruct (a =? m) eqn:E; [|intros H; right; auto].
  intros H. inversion H; subst. apply Z.eqb_eq in E. subst. left; reflexivity.
Qed.

Lemma lookup_none m ps : ~ In m (map fst ps) -> lookup m ps = None.
Proof.
  induction ps as [|[a b] r IH]; cbn [lookup map fst In]; [reflexivity|]. intros H.
  destruct (a =? m) eqn:E; [apply Z.eqb_eq in E; tauto|]. apply IH. tauto.
Qed.

Lemma lookup_nodup m j ps : NoDup (map fst ps) -> In (m, j) ps -> lookup m ps = Some j.
Proof.
  induction ps as [|[a b] r IH]; intros Hnd Hin; [destruct Hin|]. cbn [lookup].
  cbn [map fst] in Hnd. inversion Hnd as [|? ? Hnot Hnd']; subst.
  destruct Hin as [Heq|Hin].
  - inversion Heq; subst. rewrite Z.eqb_refl. reflexivity.
  - destruct (a =? m) eqn:E; [|auto]. apply Z.eqb_eq in E. subst. exfalso. apply Hnot.
    apply in_map_iff. exists (m, j). auto.
Qed.

Lemma update_ib_length ps : forall ib m0, length (update_ib ib ps m0) = length ib.
Proof. induction ib as [|j r IH]; intros m0; cbn; [reflexivity|]. now rewrite IH. Qed.

Lemma update_ib_nth ps : forall ib m0 i, (i < length ib)%nat ->
  nth i (update_ib ib ps m0) (-1) =
  match lookup (m0 + Z.of_nat i) ps with Some j' => j' | None => nth i ib (-1) end.
Proof.
  induction ib as [|j r IH]; intros m0 i Hi; cbn [length] in Hi; [lia|]. cbn [update_ib].
  destruct i as [|i]; cbn [nth].
  - rewrite Z.add_0_r. reflexivity.
  - rewrite IH by lia. replace (m0 + 1 + Z.of_nat i) with (m0 + Z.of_nat (S i)) by lia. reflexivity.
Qed.

Section SecondPass.
Variables (thr : Q) (f : a2b) (tsa tsb : list Q) (ib : list Z).
Hypothesis Hlen : length ib = length tsa.
Set Default Proof Using "Hlen".

Definition sp_pairs := second_loop (length (amiss f tsa ib 0)) thr (amiss f tsa ib 0) (bmiss tsb ib 0).
Definition ib' := second_pass thr f tsa tsb ib.

Lemma sp_pairs_spec m j : In (m, j) sp_pairs ->
  exists i k, m = Z.of_nat i /\ (i < length ib)%nat /\ nth i ib (-1) < 0 /\
              j = Z.of_nat k /\ (k < length tsb)%nat /\ ~ In j ib /\
              Qle_bool (qdist (apply_a2b f (nth i tsa 0%Q)) (nth k tsb 0%Q)) thr = true.
Proof.
  intros Hin. apply second_loop_ok in Hin. destruct Hin as [av [bv [Ha [Hb Hle]]]]. cbn [fst snd] in *.
  apply amiss_In in Ha. destruct Ha as [i [Hm [Hi1 [Hi2 [Hneg ->]]]]].
  rewrite qdist_red in Hle.
  apply bmiss_In in Hb. destruct Hb as [k [Hj [Hk [-> Hnot]]]].
  exists i, k. rewrite Z.add_0_l in *. repeat split; auto.
Qed.

(* (a) events paired by the first pass keep their partner *)
Lemma second_pass_keeps i : (i < length ib)%nat -> 0 <= nth i ib (-1) ->
  nth i ib' (-1) = nth i ib (-1).
Proof.
  intros Hi Hnn. unfold ib', second_pass. rewrite update_ib_nth by exact Hi. rewrite Z.add_0_l.
  fold sp_pairs. destruct (lookup (Z.of_nat i) sp_pairs) as [j|] eqn:E; [|reflexivity].
  apply lookup_In, sp_pairs_spec in E. destruct E as [i' [k [Hm [_ [Hneg _]]]]].
  apply Nat2Z.inj in Hm. subst i'. lia.
Qed.

(* (b) a new pair joins an unassigned a-event with an unused b-event whose distance to the
   fitted map is at most thr; otherwise the entry is unchanged *)
Lemma second_pass_new i : (i < length ib)%nat -> nth i ib (-1) < 0 ->
  nth i ib' (-1) = nth i ib (-1) \/
  exists k, nth i ib' (-1) = Z.of_nat k /\ (k < length tsb)%nat /\ ~ In (Z.of_nat k) ib /\
            Qle_bool (qdist (apply_a2b f (nth i tsa 0%Q)) (nth k tsb 0%Q)) thr = true.
Proof.
  intros Hi Hneg. unfold ib', second_pass. rewrite update_ib_nth by exact Hi. rewrite Z.add_0_l.
  fold sp_pairs. destruct (lookup (Z.of_nat i) sp_pairs) as [j|] eqn:E; [right|left; reflexivity].
  apply lookup_In, sp_pairs_spec in E. destruct E as [i' [k [Hm [_ [_ [-> [Hk [Hnot Hle]]]]]]]].
  apply Nat2Z.inj in Hm. subst i'. exists k. auto.
Qed.

(* (c) no b-event is given to two different a-events by the second pass, nor to one that the
   first pass had already used *)
Lemma second_pass_injective i1 i2 j : (i1 < length ib)%nat -> (i2 < length ib)%nat ->
  nth i1 ib (-1) < 0 -> 0 <= j -> nth i1 ib' (-1) = j -> nth i2 ib' (-1) = j ->
  i1 = i2.
Proof.
  intros H1 H2 Hneg Hj E1 E2.
  unfold ib', second_pass in E1, E2. rewrite update_ib_nth in E1, E2 by assumption.
  rewrite Z.add_0_l in E1, E2. fold sp_pairs in E1, E2.
  destruct (lookup (Z.of_nat i1) sp_pairs) as [j1|] eqn:L1; [|lia]. subst j1.
  apply lookup_In in L1.
  destruct (lookup (Z.of_nat i2) sp_pairs) as [j2|] eqn:L2.
  - subst j2. apply lookup_In in L2.
    pose proof (proj2 (second_loop_nodup thr (length (amiss f tsa ib 0)) (amiss f tsa ib 0) (bmiss tsb ib 0))) as Nd.
    fold sp_pairs in Nd.
    assert (Hinj : forall ps : list (Z * Z), NoDup (map snd ps) -> forall a b c, In (a, c) ps -> In (b, c) ps -> a = b).
    { induction ps as [|[x y] r IH]; intros N a b c Ha Hb; [destruct Ha|].
      cbn [map snd] in N. inversion N as [|? ? Hnot N']; subst.
      destruct Ha as [Ha|Ha]; destruct Hb as [Hb|Hb].
      - congruence.
      - inversion Ha; subst. exfalso. apply Hnot. apply in_map_iff. exists (b, c). auto.
      - inversion Hb; subst. exfalso. apply Hnot. apply in_map_iff. exists (a, c). auto.
      - eauto. }
    apply Nat2Z.inj. exact (Hinj _ Nd _ _ _ L1 L2).
  - exfalso. apply sp_pairs_spec in L1. destruct L1 as [_ [k [_ [_ [_ [_ [_ [Hnot _]]]]]]]].
    apply Hnot. rewrite <- E2. apply nth_In. exact H2.
Qed.

(* (d) when the loop stops, no unassigned a-event is within thr of an unused b-event *)
Lemma second_pass_maximal i k : (i < length ib)%nat -> (k < length tsb)%nat ->
  nth i ib' (-1) < 0 -> ~ In (Z.of_nat k) ib' ->
  Qle_bool (qdist (apply_a2b f (nth i tsa 0%Q)) (nth k tsb 0%Q)) thr = false.
Proof.
  intros Hi Hk Hneg Hunused.
  destruct (Qle_bool (qdist (apply_a2b f (nth i tsa 0%Q)) (nth k tsb 0%Q)) thr) eqn:Hle; [exfalso|reflexivity].
  pose proof (second_loop_nodup thr (length (amiss f tsa ib 0)) (amiss f tsa ib 0) (bmiss tsb ib 0)) as [Nd1 _].
  fold sp_pairs in Nd1.
  assert (Hold : nth i ib (-1) < 0).
  { destruct (Z_lt_le_dec (nth i ib (-1)) 0) as [|Hnn]; [assumption|].
    rewrite (second_pass_keeps i Hi Hnn) in Hneg. lia. }
  assert (Hkold : ~ In (Z.of_nat k) ib).
  { intros Hin. apply Hunused. apply In_nth with (d := -1) in Hin. destruct Hin as [i0 [Hi0 E0]].
    rewrite <- E0. rewrite <- (second_pass_keeps i0 Hi0) by lia.
    apply nth_In. unfold ib', second_pass. rewrite update_ib_length. exact Hi0. }
  assert (Ha : In (Z.of_nat i, Qred (apply_a2b f (nth i tsa 0%Q))) (amiss f tsa ib 0)).
  { apply amiss_In. exists i. repeat split; auto; lia. }
  assert (Hb : In (Z.of_nat k, nth k tsb 0%Q) (bmiss tsb ib 0)).
  { apply bmiss_In. exists k. repeat split; auto. }
  assert (Hle' := Hle). rewrite <- qdist_red in Hle'.
  destruct (second_loop_maximal thr _ _ _ (le_n _) _ _ _ _ Ha Hb Hle') as [H|H]; fold sp_pairs in H.
  - apply in_map_iff in H. destruct H as [[m j] [Hm Hin]]. cbn in Hm. subst m.
    pose proof (lookup_nodup _ _ _ Nd1 Hin) as L.
    unfold ib', second_pass in Hneg. rewrite update_ib_nth in Hneg by exact Hi.
    rewrite Z.add_0_l in Hneg. fold sp_pairs in Hneg. rewrite L in Hneg.
    apply sp_pairs_spec in Hin. destruct Hin as [_ [k' [_ [_ [_ [-> _]]]]]]. lia.
  - apply in_map_iff in H. destruct H as [[m j] [Hj Hin]]. cbn in Hj. subst j.
    pose proof (lookup_nodup _ _ _ Nd1 Hin) as L.
    apply sp_pairs_spec in Hin. destruct Hin as [i' [_ [-> [Hi' _]]]].
    apply Hunused. assert (E : nth i' ib' (-1) = Z.of_nat k).
    { unfold ib', second_pass. rewrite update_ib_nth by exact Hi'. rewrite Z.add_0_l. fold sp_pairs. now rewrite L. }
    rewrite <- E. apply nth_In. unfold ib', second_pass. rewrite update_ib_length. exact Hi'.
Qed.

(* with ground-truth: P i k = "tsa[i] and tsb[k] are the same event" *)
Lemma second_pass_sound (P : nat -> nat -> Prop) :
  (forall i k, (i < length ib)%nat -> (k < length tsb)%nat ->
     Qle_bool (qdist (apply_a2b f (nth i tsa 0%Q)) (nth k tsb 0%Q)) thr = true -> P i k) ->
  forall i k, (i < length ib)%nat -> nth i ib (-1) < 0 -> nth i ib' (-1) = Z.of_nat k -> P i k.
Proof.
  intros HP i k Hi Hneg E. destruct (second_pass_new i Hi Hneg) as [U|[k' [E' [Hk' [_ Hle]]]]]; [lia|].
  assert (k' = k) by lia. subst k'. apply HP; assumption.
Qed.

Lemma second_pass_complete (P : nat -> nat -> Prop) :
  (forall i k, (i < length ib)%nat -> (k < length tsb)%nat -> P i k ->
     Qle_bool (qdist (apply_a2b f (nth i tsa 0%Q)) (nth k tsb 0%Q)) thr = true) ->
  forall i k, (i < length ib)%nat -> (k < length tsb)%nat -> P i k ->
    0 <= nth i ib' (-1) \/ In (Z.of_nat k) ib'.
Proof.
  intros HP i k Hi Hk Hp.
  destruct (Z_lt_le_dec (nth i ib' (-1)) 0) as [Hneg|]; [|left; assumption].
  destruct (In_dec Z.eq_dec (Z.of_nat k) ib') as [|Hnot]; [right; assumption|exfalso].
  pose proof (second_pass_maximal i k Hi Hk Hneg Hnot) as Hf. rewrite (HP i k Hi Hk Hp) in Hf. discriminate.
Qed.
End SecondPass.
Unset Default Proof Using.

(* ------------------------------------------------------------------------- *)
(* Part E — how `sync` is assembled from the pieces                          *)
(* ------------------------------------------------------------------------- *)
Lemma sync_decomposes linear den tbin delta tsa tsb r :
  sync linear den tbin delta tsa tsb = Some r ->
  let qa := map (tq den) tsa in
  let qb := map (tq den) tsb in
  sr_ib1 r = first_pass tbin delta tsa tsb /\
  (exists f1 s1, interp_fcn linear qa (sr_ib1 r) qb = Some (f1, s1) /\
                 sr_ib r = second_pass (tq den tbin) f1 qa qb (sr_ib1 r)) /\
  interp_fcn linear qa (sr_ib r) qb = Some (sr_fcn r, sr_slope r).
Proof.
  unfold sync. intros H.
  destruct (interp_fcn linear (map (tq den) tsa) (first_pass tbin delta tsa tsb) (map (tq den) tsb))
    as [[f1 s1]|] eqn:E1; [|discriminate].
  destruct (interp_fcn linear (map (tq den) tsa)
              (second_pass (tq den tbin) f1 (map (tq den) tsa) (map (tq den) tsb)
                 (first_pass tbin delta tsa tsb)) (map (tq den) tsb)) as [[f2 s2]|] eqn:E2; [|discriminate].
  inversion H; subst. cbn [sr_ib1 sr_ib sr_fcn sr_slope].
  split; [reflexivity|]. split; [|exact E2]. exists f1, s1. split; [exact E1|reflexivity].
Qed.

(* ------------------------------------------------------------------------- *)
(* Part F — parabolic_max                                                     *)
(* ------------------------------------------------------------------------- *)
Open Scope Q_scope.
Lemma peak3_parabola A h M : ~ A == 0 ->
  let v k := A * (k - h) * (k - h) + M in
  fst (peak3 (v (-1)) (v 0) (v 1)) == h /\ snd (peak3 (v (-1)) (v 0) (v 1)) == M.
Proof.
  intros HA v. unfold peak3.
  set (p0 := (v (-1) - 2 * v 0 + v 1) / 2).
  assert (E0 : p0 == A) by (unfold p0, v; field).
  destruct (Qeq_bool p0 0) eqn:Eb.
  { apply Qeq_bool_eq in Eb. rewrite E0 in Eb. contradiction. }
  cbn [fst snd].
  assert (Eip : - ((v 1 - v (-1)) / 2) / (p0 + 0) / 2 == h).
  { rewrite E0. unfold v. field. exact HA. }
  split; [exact Eip|]. rewrite Eip, E0. unfold v. field.
Qed.

(* the sub-bin correction never exceeds half a bin when the centre sample is a maximum *)
Lemma peak3_half_bin v0 v1 v2 : v0 <= v1 -> v2 <= v1 ->
  - (1 # 2) <= fst (peak3 v0 v1 v2) <= 1 # 2.
Proof.
  intros H0 H2. unfold peak3. cbn [fst].
  set (p0 := (v0 - 2 * v1 + v2) / 2).
  destruct (Qeq_bool p0 0) eqn:Eb.
  - apply Qeq_bool_eq in Eb.
    assert (E : v0 - 2 * v1 + v2 == 0).
    { unfold p0 in Eb. setoid_replace (v0 - 2 * v1 + v2) with (2 * ((v0 - 2 * v1 + v2) / 2)) by field. rewrite Eb. ring. }
    assert (E0 : v0 == v1) by lra. assert (E2 : v2 == v1) by lra.
    setoid_replace (- ((v2 - v0) / 2) / (p0 + 1) / 2) with 0; [lra|].
    rewrite Eb, E0, E2. field.
  - assert (Hne : ~ p0 == 0) by (intros E; apply Qeq_bool_neq in Eb; contradiction).
    assert (Hneg : v0 - 2 * v1 + v2 < 0).
    { destruct (Qlt_le_dec (v0 - 2 * v1 + v2) 0); [assumption|]. exfalso. apply Hne. unfold p0.
      assert (v0 - 2 * v1 + v2 == 0) as -> by lra. field. }
    set (D := 2 * v1 - v0 - v2). assert (HD : 0 < D) by (unfold D; lra).
    setoid_replace (- ((v2 - v0) / 2) / (p0 + 0) / 2) with ((v2 - v0) / D * (1 # 2)).
    2:{ unfold p0, D. field. split; lra. }
    assert (Hq : - (1) <= (v2 - v0) / D <= 1).
    { split.
      - apply Qle_shift_div_l; [exact HD|]. unfold D. lra.
      - apply Qle_shift_div_r; [exact HD|]. unfold D. lra. }
    lra.
Qed.

Open Scope Z_scope.
(* ------------------------------------------------------------------------- *)
(* Part G — the coarse offset: cross-correlation of the occupancy vectors     *)
(* ------------------------------------------------------------------------- *)
Fixpoint pcount (k : positive) (keys : list positive) : Z :=
  match keys with [] => 0 | x :: r => (if Pos.eqb x k then 1 else 0) + pcount k r end.

Lemma pcount_app k a b : pcount k (a ++ b) = pcount k a + pcount k b.
Proof. induction a as [|x r IH]; cbn [app pcount]; [reflexivity|]. rewrite IH. lia. Qed.

Lemma pget_pincr m x k : pget (pincr m x) k = (if Pos.eqb x k then 1 else 0) + pget m k.
Proof.
  unfold pincr, pget at 1. destruct (Pos.eqb_spec x k) as [->|Hne].
  - rewrite PositiveMap.gss. reflexivity.
  - rewrite PositiveMap.gso by congruence. reflexivity.
Qed.

Lemma fold_pincr_get keys : forall m k, pget (fold_left pincr keys m) k = pget m k + pcount k keys.
Proof.
  induction keys as [|x r IH]; intros m k; cbn [fold_left pcount]; [lia|].
  rewrite IH, pget_pincr. lia.
Qed.

Lemma pget_empty k : pget (PositiveMap.empty Z) k = 0.
Proof. unfold pget. rewrite PositiveMap.gempty. reflexivity. Qed.

Lemma vec_from_length m : forall fuel k, length (vec_from m fuel k) = fuel.
Proof. induction fuel as [|f IH]; intros k; cbn; [reflexivity|]. now rewrite IH. Qed.

Lemma vec_from_nth m : forall fuel k i, (i < fuel)%nat ->
  nth i (vec_from m fuel k) 0 = pget m (Z.to_pos (k + Z.of_nat i + 1)).
Proof.
  induction fuel as [|f IH]; intros k i Hi; [lia|]. cbn [vec_from].
  destruct i as [|i]; cbn [nth].
  - f_equal. f_equal. lia.
  - rewrite IH by lia. f_equal. f_equal. lia.
Qed.

(* number of (occupied x-bin i, occupied y-bin j) with i - j = lag *)
Fixpoint pair_count (xb yb : list Z) (lag : Z) : Z :=
  match xb with
  | [] => 0
  | i :: r => Z.of_nat (length (filter (fun j => i - j =? lag) yb)) + pair_count r yb lag
  end.

Lemma pcount_row n i lag yb : 1 <= lag + n -> (forall j, In j yb -> 1 <= i - j + n) ->
  pcount (lag_key n lag) (map (fun j => lag_key n (i - j)) yb)
  = Z.of_nat (length (filter (fun j => i - j =? lag) yb)).
Proof.
  intros Hl. induction yb as [|j r IH]; intros Hr; cbn [map pcount filter length]; [reflexivity|].
  rewrite IH by (intros j' Hj'; apply Hr; right; exact Hj').
  specialize (Hr j (or_introl eq_refl)). unfold lag_key.
  destruct (Z.eqb_spec (i - j) lag) as [->|Hne].
  - rewrite Pos.eqb_refl. cbn [length]. lia.
  - destruct (Pos.eqb_spec (Z.to_pos (i - j + n)) (Z.to_pos (lag + n))) as [E|_]; [|lia].
    exfalso. apply Hne. apply (f_equal Zpos) in E. rewrite !Z2Pos.id in E by lia. lia.
Qed.

Lemma pcount_pairs n lag yb : 1 <= lag + n -> forall xb,
  (forall i j, In i xb -> In j yb -> 1 <= i - j + n) ->
  pcount (lag_key n lag) (pair_keys n xb yb) = pair_count xb yb lag.
Proof.
  intros Hl. unfold pair_keys. induction xb as [|i r IH]; intros Hr; cbn [flat_map pair_count]; [reflexivity|].
  rewrite pcount_app, IH by (intros i' j Hi' Hj; apply Hr; [right; exact Hi'|exact Hj]).
  rewrite pcount_row; [reflexivity|exact Hl|]. intros j Hj. apply Hr; [left; reflexivity|exact Hj].
Qed.

(* entry k = lag + n - 1 of correlate(x, y, "full") is the number of occupied bin pairs at that lag *)
Lemma xcorr_length n xb yb : length (xcorr n xb yb) = Z.to_nat (2 * n - 1).
Proof. unfold xcorr. apply vec_from_length. Qed.

Lemma xcorr_nth n xb yb lag :
  (forall i, In i xb -> 0 <= i < n) -> (forall j, In j yb -> 0 <= j < n) ->
  - (n - 1) <= lag <= n - 1 ->
  nth (Z.to_nat (lag + n - 1)) (xcorr n xb yb) 0 = pair_count xb yb lag.
Proof.
  intros Hx Hy Hl. unfold xcorr. rewrite vec_from_nth by lia.
  rewrite fold_pincr_get, pget_empty. replace (Z.to_pos (0 + Z.of_nat (Z.to_nat (lag + n - 1)) + 1)) with (lag_key n lag).
  2:{ unfold lag_key. f_equal. lia. }
  rewrite pcount_pairs; [lia|lia|]. intros i j Hi Hj. specialize (Hx i Hi). specialize (Hy j Hj). lia.
Qed.

(* ---- argmax / parabolic_max at a unique strict maximum ---- *)
Open Scope Q_scope.

Lemma qltb_true x y : qltb x y = true <-> x < y.
Proof.
  unfold qltb. rewrite negb_true_iff. split.
  - intros H. apply Qnot_le_lt. intros Hle. apply Qle_bool_iff in Hle. congruence.
  - intros H. destruct (Qle_bool y x) eqn:E; [|reflexivity]. apply Qle_bool_iff in E. lra.
Qed.

Lemma argmax_from_keep l : forall best bv i, (forall v, In v l -> ~ bv < v) -> argmax_from best bv l i = best.
Proof.
  induction l as [|v r IH]; intros best bv i H; cbn [argmax_from]; [reflexivity|].
  destruct (qltb bv v) eqn:E.
  - apply qltb_true in E. exfalso. exact (H v (or_introl eq_refl) E).
  - apply IH. intros w Hw. apply H. right. exact Hw.
Qed.

Lemma argmax_from_hit m l2 : (forall v, In v l2 -> v < m) -> forall l1 best bv i,
  bv < m -> (forall v, In v l1 -> v < m) ->
  argmax_from best bv (l1 ++ m :: l2) i = (i + Z.of_nat (length l1))%Z.
Proof.
  intros H2. induction l1 as [|v r IH]; intros best bv i Hb H1.
  - cbn [app argmax_from length]. apply qltb_true in Hb. rewrite Hb.
    rewrite argmax_from_keep; [cbn; lia|]. intros w Hw Hlt. specialize (H2 w Hw). lra.
  - cbn [app argmax_from length]. assert (Hv : v < m) by (apply H1; left; reflexivity).
    assert (Hr : forall w, In w r -> w < m) by (intros w Hw; apply H1; right; exact Hw).
    destruct (qltb bv v); rewrite IH by assumption; lia.
Qed.

Lemma argmax_first_unique (l : list Q) (p : nat) : (p < length l)%nat ->
  (forall q, (q < length l)%nat -> q <> p -> nth q l 0 < nth p l 0) ->
  argmax_first l = Z.of_nat p.
Proof.
  intros Hp Hu.
  assert (Hsplit : l = firstn p l ++ nth p l 0 :: skipn (S p) l).
  { clear Hu. revert p Hp. induction l as [|x r IH]; intros p Hp; cbn [length] in Hp; [lia|].
    destruct p as [|p]; [reflexivity|]. cbn [firstn nth skipn app]. f_equal. apply IH. lia. }
  assert (Hlen : length (firstn p l) = p) by (apply firstn_length_le; lia).
  assert (H1 : forall v, In v (firstn p l) -> v < nth p l 0).
  { intros v Hv. apply In_nth with (d := 0) in Hv. destruct Hv as [q [Hq <-]]. rewrite Hlen in Hq.
    replace (nth q (firstn p l) 0) with (nth q l 0).
    - apply Hu; lia.
    - rewrite Hsplit at 1. rewrite app_nth1 by lia. reflexivity. }
  assert (H2 : forall v, In v (skipn (S p) l) -> v < nth p l 0).
  { intros v Hv. apply In_nth with (d := 0) in Hv. destruct Hv as [q [Hq <-]].
    rewrite skipn_length in Hq.
    replace (nth q (skipn (S p) l) 0) with (nth (S p + q) l 0).
    - apply Hu; lia.
    - rewrite Hsplit at 1. rewrite app_nth2 by lia. rewrite Hlen.
      replace (S p + q - p)%nat with (S q) by lia. reflexivity. }
  set (m := nth p l 0) in *. rewrite Hsplit. unfold argmax_first.
  destruct (firstn p l) as [|x r] eqn:E.
  - cbn [app]. cbn [length] in Hlen. subst p. apply argmax_from_keep.
    intros w Hw Hlt. specialize (H2 w Hw). lra.
  - cbn [app]. rewrite (argmax_from_hit m _ H2 r 0%Z x 1%Z).
    + cbn [length] in Hlen. lia.
    + apply H1. left; reflexivity.
    + intros w Hw. apply H1. right; exact Hw.
Qed.

(* the interpolated peak is within half a sample of a unique strict maximum *)
Lemma parabolic_max_near_unique_peak (l : list Q) (p : nat) : (p < length l)%nat ->
  (forall q, (q < length l)%nat -> q <> p -> nth q l 0 < nth p l 0) ->
  Qabs (fst (parabolic_max l) - inject_Z (Z.of_nat p)) <= 1 # 2.
Proof.
  intros Hp Hu. unfold parabolic_max. rewrite (argmax_first_unique l p Hp Hu).
  set (ns := Z.of_nat (length l)).
  destruct ((Z.of_nat p =? 0) || (Z.of_nat p =? ns - 1))%Z eqn:Ee.
  - cbn [fst]. setoid_replace (inject_Z (Z.of_nat p) - inject_Z (Z.of_nat p)) with 0 by ring. cbn. discriminate.
  - apply orb_false_iff in Ee. destruct Ee as [E0 E1]. apply Z.eqb_neq in E0, E1.
    set (at_ := fun k : Z => nth (Z.to_nat (Z.max 0 (Z.min (ns - 1) k))) l 0).
    assert (Hc : at_ (Z.of_nat p) = nth p l 0).
    { unfold at_. f_equal. unfold ns. lia. }
    assert (Hl : at_ (Z.of_nat p - 1)%Z < nth p l 0).
    { unfold at_. replace (Z.to_nat (Z.max 0 (Z.min (ns - 1) (Z.of_nat p - 1)))) with (p - 1)%nat by (unfold ns; lia).
      apply Hu; lia. }
    assert (Hr : at_ (Z.of_nat p + 1)%Z < nth p l 0).
    { unfold at_. replace (Z.to_nat (Z.max 0 (Z.min (ns - 1) (Z.of_nat p + 1)))) with (p + 1)%nat by (unfold ns in *; lia).
      apply Hu; unfold ns in *; lia. }
    destruct (peak3 (at_ (Z.of_nat p - 1)%Z) (at_ (Z.of_nat p)) (at_ (Z.of_nat p + 1)%Z)) as [ip mx] eqn:Ep.
    pose proof Ep as Ep'. unfold at_ in Ep'. rewrite Ep'. cbn [fst]. setoid_replace (ip + inject_Z (Z.of_nat p) - inject_Z (Z.of_nat p)) with ip by ring.
    pose proof (peak3_half_bin (at_ (Z.of_nat p - 1)%Z) (at_ (Z.of_nat p)) (at_ (Z.of_nat p + 1)%Z)) as Hh.
    rewrite Ep in Hh. cbn [fst] in Hh. rewrite Hc in Hh. specialize (Hh ltac:(lra) ltac:(lra)).
    apply Qabs_Qle_condition. exact Hh.
Qed.

Lemma coarse_delta_near_true_lag n den tbin tsa tsb L :
  let tmin := lmin (tsa ++ tsb) in
  let xb := occupied tbin tmin tsa in
  let yb := occupied tbin tmin tsb in
  (0 < tbin)%Z ->
  (forall i, In i xb -> (0 <= i < n)%Z) -> (forall j, In j yb -> (0 <= j < n)%Z) ->
  (- (n - 1) <= L <= n - 1)%Z ->
  (forall lag, (- (n - 1) <= lag <= n - 1)%Z -> lag <> L ->
     (pair_count xb yb lag < pair_count xb yb L)%Z) ->
  exists d, coarse_delta n den tbin tsa tsb = Some d /\
            Qabs (d - inject_Z L * tq den tbin) <= (1 # 2) * tq den tbin.
Proof.
  intros tmin xb yb Htb Hx Hy HL Hu. unfold coarse_delta. fold tmin. fold xb. fold yb.
  assert (Hex : existsb (fun b => (n <=? b)%Z) (xb ++ yb) = false).
  { apply not_true_is_false. intros E. apply existsb_exists in E. destruct E as [b [Hb Hle]].
    apply Z.leb_le in Hle. apply in_app_or in Hb. destruct Hb as [Hb|Hb]; [specialize (Hx b Hb)|specialize (Hy b Hb)]; lia. }
  rewrite Hex. eexists. split; [reflexivity|].
  set (l := map inject_Z (xcorr n xb yb)).
  set (p := Z.to_nat (L + n - 1)).
  assert (Hlen : length l = Z.to_nat (2 * n - 1)) by (unfold l; rewrite map_length; apply xcorr_length).
  assert (Hp : (p < length l)%nat) by (unfold p; lia).
  assert (Hnth : forall q, (q < length l)%nat ->
            nth q l 0 = inject_Z (pair_count xb yb (Z.of_nat q - (n - 1)))).
  { intros q Hq. unfold l. change 0 with (inject_Z 0). rewrite map_nth. f_equal.
    rewrite <- (xcorr_nth n xb yb (Z.of_nat q - (n - 1)) Hx Hy) by lia. f_equal. lia. }
  pose proof (parabolic_max_near_unique_peak l p Hp) as Hpk.
  assert (Hq : forall q, (q < length l)%nat -> q <> p -> nth q l 0 < nth p l 0).
  { intros q Hq Hne. rewrite (Hnth q Hq), (Hnth p Hp). rewrite <- Zlt_Qlt.
    replace (Z.of_nat p - (n - 1))%Z with L by (unfold p; lia). apply Hu; unfold p in *; lia. }
  specialize (Hpk Hq). fold l.
  set (ip := fst (parabolic_max l)) in *.
  assert (Htq : 0 < tq den tbin) by (unfold tq, Qlt; cbn; lia).
  rewrite Qred_correct.
  setoid_replace ((ip - inject_Z n + 1) * tq den tbin - inject_Z L * tq den tbin)
    with ((ip - inject_Z (Z.of_nat p)) * tq den tbin).
  2:{ replace (Z.of_nat p) with (L + n - 1)%Z by (unfold p; lia).
      replace (L + n - 1)%Z with (L + n + -1)%Z by lia. rewrite !inject_Z_plus.
      change (inject_Z (-1)) with (- (1)). ring. }
  rewrite Qabs_Qmult, (Qabs_pos (tq den tbin)) by lra.
  apply Qmult_le_compat_r; [exact Hpk|lra].
Qed.

(* ---- first pass with any offset within half a bin of the true lag (integer ticks refined by k) ---- *)
Open Scope Z_scope.

Section ScaledFirstPass.
Variables (thr Lt ea eb0 k delta' : Z) (tsa tsb : list Z) (t : Z -> Z) (la lb : nat -> Z).
Hypothesis Hk : 0 < k.
Hypothesis Hthr : 0 < thr.
Hypothesis Hd : 2 * Z.abs (delta' - k * Lt) <= k * thr.
Hypothesis Ha : forall m, (m < length tsa)%nat -> Z.abs (nth m tsa 0 - t (la m)) <= ea.
Hypothesis Hb0 : forall j, (j < length tsb)%nat -> Z.abs (nth j tsb 0 + Lt - t (lb j)) <= eb0.
Hypothesis Hsep : forall e e', e <> e' -> 2 * thr + ea + eb0 <= Z.abs (t e - t e').

Set Default Proof Using "Hk Hthr Hd Ha Hb0 Hsep".
Definition eb' := k * eb0 + (k * thr + 1) / 2.

Lemma nth_scaled l m : nth m (map (Z.mul k) l) 0 = k * nth m l 0.
Proof. replace 0 with (k * 0) at 1 by lia. apply map_nth. Qed.

Lemma scaled_Ha : forall m, (m < length (map (Z.mul k) tsa))%nat ->
  Z.abs (nth m (map (Z.mul k) tsa) 0 - k * t (la m)) <= k * ea.
Proof.
  intros m Hm. rewrite map_length in Hm. rewrite nth_scaled. specialize (Ha m Hm). nia.
Qed.

Lemma scaled_Hb : forall j, (j < length (map (Z.mul k) tsb))%nat ->
  Z.abs (nth j (map (Z.mul k) tsb) 0 + delta' - k * t (lb j)) <= eb'.
Proof.
  intros j Hj. rewrite map_length in Hj. rewrite nth_scaled. specialize (Hb0 j Hj). unfold eb'.
  assert (Z.abs (delta' - k * Lt) <= (k * thr + 1) / 2) by (apply Z.div_le_lower_bound; lia).
  nia.
Qed.

Lemma scaled_Hsep : forall e e', e <> e' -> thr * k + k * ea + eb' <= Z.abs (k * t e - k * t e').
Proof.
  intros e e' Hne. specialize (Hsep e e' Hne). unfold eb'.
  assert ((k * thr + 1) / 2 <= k * thr) by (apply Z.div_le_upper_bound; nia).
  nia.
Qed.

Lemma scaled_first_pass_sound m j : (m < length tsa)%nat ->
  nth m (first_pass (thr * k) delta' (map (Z.mul k) tsa) (map (Z.mul k) tsb)) (-1) = j -> 0 <= j ->
  exists i, (i < length tsb)%nat /\ j = Z.of_nat i /\ la m = lb i.
Proof.
  intros Hm E Hj.
  destruct (first_pass_sound (thr * k) delta' (k * ea) eb' (map (Z.mul k) tsa) (map (Z.mul k) tsb)
              (fun e => k * t e) la lb scaled_Ha scaled_Hb scaled_Hsep m j) as [i [Hi H]];
    [rewrite map_length; exact Hm|exact E|exact Hj|].
  exists i. rewrite map_length in Hi. auto.
Qed.

Lemma scaled_first_pass_complete m i :
  (forall j j', (j < length tsb)%nat -> (j' < length tsb)%nat -> lb j = lb j' -> j = j') ->
  2 * (ea + eb0) + 2 <= thr ->
  (m < length tsa)%nat -> (i < length tsb)%nat -> la m = lb i ->
  nth m (first_pass (thr * k) delta' (map (Z.mul k) tsa) (map (Z.mul k) tsb)) (-1) = Z.of_nat i.
Proof.
  intros Hlb He Hm Hi Hp.
  apply (first_pass_complete (thr * k) delta' (k * ea) eb' (map (Z.mul k) tsa) (map (Z.mul k) tsb)
           (fun e => k * t e) la lb scaled_Ha scaled_Hb scaled_Hsep).
  - intros j j'. rewrite map_length. apply Hlb.
  - rewrite map_length; exact Hm.
  - rewrite map_length; exact Hi.
  - exact Hp.
  - unfold eb'. assert (H2 : 2 * ((k * thr + 1) / 2) <= k * thr + 1) by (apply Z.mul_div_le; lia).
    assert (H3 : k * (2 * (ea + eb0) + 2) <= k * thr) by (apply Z.mul_le_mono_nonneg_l; lia).
    nia.
Qed.
End ScaledFirstPass.
Unset Default Proof Using.

(* from the rational bound on delta_t to the integer one used above *)
Lemma delta_bound_ticks (d : Q) (den : positive) (tbin L : Z) :
  (Qabs (d - inject_Z L * tq den tbin) <= (1 # 2) * tq den tbin)%Q ->
  2 * Z.abs (Qnum d * Zpos den - Zpos (Qden d) * (L * tbin)) <= Zpos (Qden d) * tbin.
Proof.
  intros H. apply Qabs_Qle_condition in H. destruct H as [H1 H2].
  destruct d as [dn dd]. unfold Qle, Qminus, Qplus, Qmult, Qopp, inject_Z, tq in H1, H2.
  cbn [Qnum Qden] in H1, H2 |- *. rewrite ?Pos2Z.inj_mul in H1, H2.
  assert (0 < Zpos dd) by lia. assert (0 < Zpos den) by lia.
  nia.
Qed.

(* the whole chain: hypothesis on the trains only *)
Lemma coarse_then_first_pass n den tbin tsa tsb L ea eb0 (t : Z -> Z) (la lb : nat -> Z) :
  let tmin := lmin (tsa ++ tsb) in
  let xb := occupied tbin tmin tsa in
  let yb := occupied tbin tmin tsb in
  0 < tbin ->
  (forall i, In i xb -> 0 <= i < n) -> (forall j, In j yb -> 0 <= j < n) ->
  - (n - 1) <= L <= n - 1 ->
  (forall lag, - (n - 1) <= lag <= n - 1 -> lag <> L -> pair_count xb yb lag < pair_count xb yb L) ->
  (forall m, (m < length tsa)%nat -> Z.abs (nth m tsa 0 - t (la m)) <= ea) ->
  (forall j, (j < length tsb)%nat -> Z.abs (nth j tsb 0 + L * tbin - t (lb j)) <= eb0) ->
  (forall e e', e <> e' -> 2 * tbin + ea + eb0 <= Z.abs (t e - t e')) ->
  exists d, coarse_delta n den tbin tsa tsb = Some d /\
    (Qabs (d - inject_Z L * tq den tbin) <= (1 # 2) * tq den tbin)%Q /\
    (forall m j, (m < length tsa)%nat ->
       nth m (first_pass_q den tbin d tsa tsb) (-1) = j -> 0 <= j ->
       exists i, (i < length tsb)%nat /\ j = Z.of_nat i /\ la m = lb i) /\
    ((forall j j', (j < length tsb)%nat -> (j' < length tsb)%nat -> lb j = lb j' -> j = j') ->
     2 * (ea + eb0) + 2 <= tbin ->
     forall m i, (m < length tsa)%nat -> (i < length tsb)%nat -> la m = lb i ->
       nth m (first_pass_q den tbin d tsa tsb) (-1) = Z.of_nat i).
Proof.
  intros tmin xb yb Htb Hx Hy HL Hu Ha Hb0 Hsep.
  destruct (coarse_delta_near_true_lag n den tbin tsa tsb L Htb Hx Hy HL Hu) as [d [Ed Hd]].
  exists d. split; [exact Ed|]. split; [exact Hd|].
  pose proof (delta_bound_ticks d den tbin L Hd) as Hdt.
  assert (Hk : 0 < Zpos (Qden d)) by lia.
  unfold first_pass_q. split.
  - intros m j. exact (scaled_first_pass_sound tbin (L * tbin) ea eb0 (Zpos (Qden d)) (Qnum d * Zpos den)
                         tsa tsb t la lb Hk Htb Hdt Ha Hb0 Hsep m j).
  - intros Hlb He m i. exact (scaled_first_pass_complete tbin (L * tbin) ea eb0 (Zpos (Qden d)) (Qnum d * Zpos den)
                         tsa tsb t la lb Hk Htb Hdt Ha Hb0 Hsep m i Hlb He).
Qed.

Lemma sync_full_decomposes linear n den tbin tsa tsb d r :
  sync_full linear n den tbin tsa tsb = inr (d, r) ->
  coarse_delta n den tbin tsa tsb = Some d /\
  sync_rest linear den tbin tsa tsb (first_pass_q den tbin d tsa tsb) = Some r /\
  sr_ib1 r = first_pass_q den tbin d tsa tsb.
Proof.
  unfold sync_full. destruct (coarse_delta n den tbin tsa tsb) as [d0|]; [|discriminate].
  destruct (sync_rest linear den tbin tsa tsb (first_pass_q den tbin d0 tsa tsb)) as [r0|] eqn:E; [|discriminate].
  intros H. inversion H; subst. repeat split; auto.
  unfold sync_rest in E.
  destruct (interp_fcn linear (map (tq den) tsa) (first_pass_q den tbin d tsa tsb) (map (tq den) tsb)) as [[f1 s1]|]; [|discriminate].
  destruct (interp_fcn linear (map (tq den) tsa) _ (map (tq den) tsb)) as [[f2 s2]|]; [|discriminate].
  inversion E; reflexivity.
Qed.

Lemma sync_is_sync_rest linear den tbin delta tsa tsb :
  sync linear den tbin delta tsa tsb = sync_rest linear den tbin tsa tsb (first_pass tbin delta tsa tsb).
Proof. reflexivity. Qed.

Open Scope Z_scope.
(* ------------------------------------------------------------------------- *)
(* Part J — the first pass is invariant under a refinement of the clock tick   *)
(* ------------------------------------------------------------------------- *)
Section Scaling.
Variable k : Z.
Hypothesis Hk : 0 < k.
Set Default Proof Using "Hk".

Definition scale_pair (p : Z * Z) : Z * Z := (fst p, k * snd p).

Lemma near_scaled thr x tsb : forall j,
  near (thr * k) (k * x) (map (Z.mul k) tsb) j = map scale_pair (near thr x tsb j).
Proof.
  induction tsb as [|b r IH]; intros j; cbn [map near]; [reflexivity|].
  replace (Z.abs (k * x - k * b)) with (k * Z.abs (x - b)) by nia.
  destruct (Z.ltb_spec (Z.abs (x - b)) thr) as [H|H];
    destruct (Z.ltb_spec (k * Z.abs (x - b)) (thr * k)) as [H'|H']; try nia.
  - cbn [map]. rewrite IH. reflexivity.
  - apply IH.
Qed.

Lemma argmin_first_scaled l : forall best,
  argmin_first (scale_pair best) (map scale_pair l) = scale_pair (argmin_first best l).
Proof.
  induction l as [|p r IH]; intros best; cbn [map argmin_first]; [reflexivity|].
  unfold scale_pair at 1 2. cbn [snd].
  destruct (Z.ltb_spec (snd p) (snd best)) as [H|H];
    destruct (Z.ltb_spec (k * snd p) (k * snd best)) as [H'|H']; try nia; apply IH.
Qed.

Lemma filter_scaled (g : Z -> bool) l :
  filter (fun q => g (fst q)) (map scale_pair l) = map scale_pair (filter (fun q => g (fst q)) l).
Proof.
  induction l as [|p r IH]; cbn [map filter]; [reflexivity|]. unfold scale_pair at 1. cbn [fst].
  destruct (g (fst p)); cbn [map]; rewrite IH; reflexivity.
Qed.

Lemma assign1_scaled thr x tsb prev :
  assign1 (thr * k) (k * x) (map (Z.mul k) tsb) prev = assign1 thr x tsb prev.
Proof.
  unfold assign1. rewrite near_scaled.
  destruct (near thr x tsb 0) as [|p [|q rest]] eqn:E; cbn [map]; try reflexivity.
  change (scale_pair p :: scale_pair q :: map scale_pair rest) with (map scale_pair (p :: q :: rest)).
  rewrite (filter_scaled (fun j => negb (zmem j prev))).
  destruct (filter (fun q0 => negb (zmem (fst q0) prev)) (p :: q :: rest)) as [|c [|c2 cr]]; cbn [map]; try reflexivity.
  change (scale_pair q :: map scale_pair rest) with (map scale_pair (q :: rest)).
  rewrite argmin_first_scaled. reflexivity.
Qed.

Lemma first_pass_from_scaled thr delta tsb : forall tsa prev,
  first_pass_from (thr * k) (k * delta) (map (Z.mul k) tsa) (map (Z.mul k) tsb) prev
  = first_pass_from thr delta tsa tsb prev.
Proof.
  induction tsa as [|a r IH]; intros prev; cbn [map first_pass_from]; [reflexivity|].
  replace (k * a - k * delta) with (k * (a - delta)) by lia.
  rewrite assign1_scaled, IH. reflexivity.
Qed.

Lemma first_pass_scaled thr delta tsa tsb :
  first_pass (thr * k) (k * delta) (map (Z.mul k) tsa) (map (Z.mul k) tsb) = first_pass thr delta tsa tsb.
Proof. apply first_pass_from_scaled. Qed.
End Scaling.
Unset Default Proof Using.

(* with a delta_t that is a whole number of ticks, the rational first pass is the integer one:
   sync_full and sync describe the same computation *)
Lemma first_pass_q_ticks den tbin delta tsa tsb :
  first_pass_q den tbin (tq den delta) tsa tsb = first_pass tbin delta tsa tsb.
Proof.
  unfold first_pass_q, tq. cbn [Qnum Qden].
  replace (delta * Z.pos den) with (Z.pos den * delta) by lia.
  apply first_pass_scaled. lia.
Qed.

(* ------------------------------------------------------------------------- *)
(* Part K — second pass when the first fitted map is the true map (no jitter) *)
(* ------------------------------------------------------------------------- *)
Open Scope Q_scope.

Lemma qle_dist_iff x b thr : Qle_bool (qdist x b) thr = true <-> Qabs (x - b) <= thr.
Proof. unfold qdist. apply Qle_bool_iff. Qed.

Section ExactSecondPass.
Variables (thr : Q) (f : a2b) (tsa tsb : list Q) (ib : list Z) (d o : Q) (tau : Z -> Q) (la lb : nat -> Z).
Hypothesis Hlen : length ib = length tsa.
Hypothesis Hf : forall x, apply_a2b f x == (1 + d) * x + o.
Hypothesis Ha : forall i, (i < length tsa)%nat -> nth i tsa 0 == tau (la i).
Hypothesis Hb : forall k, (k < length tsb)%nat -> nth k tsb 0 == (1 + d) * tau (lb k) + o.
Hypothesis Hthr : 0 <= thr.
Hypothesis Hsep : forall e e', e <> e' -> thr < Qabs ((1 + d) * (tau e - tau e')).
Set Default Proof Using "Hlen Hf Ha Hb Hthr Hsep".

Lemma exact_dist i k : (i < length ib)%nat -> (k < length tsb)%nat ->
  apply_a2b f (nth i tsa 0) - nth k tsb 0 == (1 + d) * (tau (la i) - tau (lb k)).
Proof.
  intros Hi Hk. rewrite Hf, (Ha i) by (rewrite <- Hlen; exact Hi). rewrite (Hb k Hk). ring.
Qed.

Lemma exact_second_pass_sound i k : (i < length ib)%nat -> (nth i ib (-1) < 0)%Z ->
  nth i (second_pass thr f tsa tsb ib) (-1)%Z = Z.of_nat k -> la i = lb k.
Proof.
  apply (second_pass_sound thr f tsa tsb ib Hlen (fun i k => la i = lb k)).
  intros i' k' Hi Hk Hle. apply qle_dist_iff in Hle. rewrite (exact_dist i' k' Hi Hk) in Hle.
  destruct (Z.eq_dec (la i') (lb k')) as [|Hne]; [assumption|exfalso].
  specialize (Hsep _ _ Hne). apply (Qlt_irrefl thr). eapply Qlt_le_trans; [exact Hsep|exact Hle].
Qed.

Lemma exact_second_pass_complete i k : (i < length ib)%nat -> (k < length tsb)%nat -> la i = lb k ->
  (0 <= nth i (second_pass thr f tsa tsb ib) (-1))%Z \/ In (Z.of_nat k) (second_pass thr f tsa tsb ib).
Proof.
  apply (second_pass_complete thr f tsa tsb ib Hlen (fun i k => la i = lb k)).
  intros i' k' Hi Hk Hp. apply qle_dist_iff. rewrite (exact_dist i' k' Hi Hk), Hp.
  setoid_replace ((1 + d) * (tau (lb k') - tau (lb k'))) with 0 by ring. exact Hthr.
Qed.
End ExactSecondPass.
Unset Default Proof Using.
