(* C19 — lemmas about the sync_timestamps model. *)
From Coq Require Import ZArith QArith Qabs List Bool Lia Lra.
From IBL.C19 Require Import Model.
Import ListNotations.
Open Scope Q_scope.

(* witness: two a-events within tbin of the same single b-event are both paired with it *)
(* ticks of 10 ms: tsa = 0, 0.05, 10.3, 20.7 s; tsb = 0.02, 10.3, 20.7 s; tbin = 0.1 s *)
Definition wit_tsa : list Z := [0; 5; 1030; 2070]%Z.
Definition wit_tsb : list Z := [2; 1030; 2070]%Z.

Lemma first_pass_dup_witness :
  first_pass 10 0 wit_tsa wit_tsb = [0; 0; 1; 2]%Z.
Proof. vm_compute. reflexivity. Qed.
