(* C19 — lemmas about the sync_timestamps model. *)
From Coq Require Import ZArith QArith Qabs List Bool Lia Lra.
From IBL.C19 Require Import Model.
Import ListNotations.
Open Scope Q_scope.

(* witness: two a-events within tbin of the same single b-event are both paired with it *)
Definition wit_tsa : list Q := [0; 1 # 20; 103 # 10; 207 # 10].
Definition wit_tsb : list Q := [1 # 50; 103 # 10; 207 # 10].

Lemma first_pass_dup_witness :
  first_pass (1 # 10) 0 wit_tsa wit_tsb = [0; 0; 1; 2]%Z.
Proof. vm_compute. reflexivity. Qed.
