(* C19 — property theorems (statements closed by `exact <lemma>`). *)
From Coq Require Import ZArith QArith Qabs List Bool.
From IBL.C19 Require Import Model Proofs.
Import ListNotations.
Open Scope Q_scope.

(* "No event is paired twice" does NOT follow from the exclusion logic alone:
   with a single candidate (`inds.size == 1`) the already-used partners are not
   consulted.  Two a-events closer than 2*tbin to each other can both be paired
   with the same b-event. *)
Theorem C19_first_pass_injective_refuted :
  exists tbin delta tsa tsb m1 m2 j,
    m1 <> m2 /\ (0 <= j)%Z /\
    nth m1 (first_pass tbin delta tsa tsb) (-1)%Z = j /\
    nth m2 (first_pass tbin delta tsa tsb) (-1)%Z = j.
Proof.
  exists 10%Z, 0%Z, wit_tsa, wit_tsb, 0%nat, 1%nat, 0%Z.
  rewrite first_pass_dup_witness. cbn. repeat split; auto; discriminate.
Qed.
Print Assumptions C19_first_pass_injective_refuted.
