(* C19 — property theorems about the model of ibldsp.utils.sync_timestamps
   (coq/C19/Model.v).  Statements closed by `exact <lemma>` + Print Assumptions.

   What is NOT here (measured by harness/pC19.py instead, see pC19.notes.md):
   that the binned cross-correlation + parabolic_max delivers a coarse offset
   delta_t satisfying the separation hypotheses below, and the size of the
   held-out error / drift error in the presence of jitter.  All soundness /
   completeness theorems are therefore `_partial` with respect to the property:
   they take the quality of delta_t (resp. of the first fitted map) as a
   hypothesis.

   Units: the first pass works on integer clock ticks (tbin, delta_t and all
   times are integer multiples of one tick, any resolution); from the fit
   onwards times are rationals `tq den t = t / den`. *)
From Coq Require Import ZArith QArith Qabs List Bool.
From IBL.C19 Require Import Model Proofs.
Import ListNotations.

(* ------------------------------------------------------------------------- *)
(* least squares / fitted map                                                 *)
(* ------------------------------------------------------------------------- *)

(* np.polyfit(x, y, 1) on points lying exactly on y = s x + c with at least two
   distinct abscissae returns exactly (s, c) — any number of points. *)
Theorem C19_polyfit_exact_affine : forall (pts : list (Q * Q)) (s c : Q),
  Forall (fun p => snd p == s * fst p + c)%Q pts ->
  (exists p q, In p pts /\ In q pts /\ ~ (fst p == fst q)%Q) ->
  exists s' c', polyfit1 pts = Some (s', c') /\ (s' == s)%Q /\ (c' == c)%Q.
Proof. exact polyfit_exact_affine. Qed.
Print Assumptions C19_polyfit_exact_affine.

(* _interp_fcn: if every matched pair satisfies tsb = (1+d) tsa + o exactly and two
   matched a-times differ, the reported slope ab[0] is d (drift_ppm = d*1e6) and
   the returned map is x |-> (1+d) x + o everywhere — in linear mode always, in
   interpolating mode when consecutive matched a-times are distinct (interp1d then
   interpolates AND extrapolates along the line).
   _partial: no jitter (with jitter the error is measured, not proved). *)
Theorem C19_fitted_map_exact_partial :
  forall (linear : bool) (tsa : list Q) (ib : list Z) (tsb : list Q) (d o : Q),
  Forall (fun p => snd p == (1 + d) * fst p + o)%Q (matched tsa ib tsb) ->
  (exists p q, In p (matched tsa ib tsb) /\ In q (matched tsa ib tsb) /\ ~ (fst p == fst q)%Q) ->
  exists f s, interp_fcn linear tsa ib tsb = Some (f, s) /\ (s == d)%Q /\
    (linear = true -> forall x, (apply_a2b f x == (1 + d) * x + o)%Q) /\
    (linear = false ->
       (forall p q r1 r2, matched tsa ib tsb = r1 ++ p :: q :: r2 -> ~ (fst q == fst p)%Q) ->
       forall x, (apply_a2b f x == (1 + d) * x + o)%Q).
Proof. exact interp_fcn_exact. Qed.
Print Assumptions C19_fitted_map_exact_partial.

(* the pieces `sync` is made of: the theorems below are about exactly these calls *)
Theorem C19_sync_decomposes : forall linear den tbin delta tsa tsb r,
  sync linear den tbin delta tsa tsb = Some r ->
  let qa := map (tq den) tsa in
  let qb := map (tq den) tsb in
  sr_ib1 r = first_pass tbin delta tsa tsb /\
  (exists f1 s1, interp_fcn linear qa (sr_ib1 r) qb = Some (f1, s1) /\
                 sr_ib r = second_pass (tq den tbin) f1 qa qb (sr_ib1 r)) /\
  interp_fcn linear qa (sr_ib r) qb = Some (sr_fcn r, sr_slope r).
Proof. exact sync_decomposes. Qed.
Print Assumptions C19_sync_decomposes.

(* ------------------------------------------------------------------------- *)
(* first pass                                                                 *)
(* ------------------------------------------------------------------------- *)
Open Scope Z_scope.

(* unconditional: whichever branch assigns, the partner is a valid index of tsb
   closer than tbin after removing the coarse offset *)
Theorem C19_first_pass_within_threshold : forall thr delta tsa tsb m j,
  (m < length tsa)%nat -> nth m (first_pass thr delta tsa tsb) (-1) = j -> 0 <= j ->
  exists i, (i < length tsb)%nat /\ j = Z.of_nat i /\
            Z.abs (nth m tsa 0 - delta - nth i tsb 0) < thr.
Proof. exact first_pass_within. Qed.
Print Assumptions C19_first_pass_within_threshold.

(* Soundness.  Ground truth: event k occurred at tick t k; la m / lb j name the
   event recorded as tsa[m] / tsb[j]; ea, eb bound the residual misalignment of
   each series once delta has been removed (jitter + drift*time + error of delta);
   distinct events are at least thr + ea + eb apart.  Then every pair assigned by
   the first pass is a true correspondence.
   _partial: assumes the coarse offset is good enough for these bounds to hold. *)
Theorem C19_first_pass_sound_partial :
  forall (thr delta ea eb : Z) (tsa tsb : list Z) (t : Z -> Z) (la lb : nat -> Z),
  (forall m, (m < length tsa)%nat -> Z.abs (nth m tsa 0 - t (la m)) <= ea) ->
  (forall j, (j < length tsb)%nat -> Z.abs (nth j tsb 0 + delta - t (lb j)) <= eb) ->
  (forall k k', k <> k' -> thr + ea + eb <= Z.abs (t k - t k')) ->
  forall m j, (m < length tsa)%nat ->
    nth m (first_pass thr delta tsa tsb) (-1) = j -> 0 <= j ->
    exists i, (i < length tsb)%nat /\ j = Z.of_nat i /\ la m = lb i.
Proof.
  intros thr delta ea eb tsa tsb t la lb Ha Hb Hsep.
  exact (first_pass_sound thr delta ea eb tsa tsb t la lb Ha Hb Hsep).
Qed.
Print Assumptions C19_first_pass_sound_partial.

(* Completeness: under the same hypotheses, with ea + eb < thr and each event recorded
   at most once in tsb, every a-event whose partner exists in tsb gets exactly it
   (whatever was assigned before), and an a-event without partner stays at -1. *)
Theorem C19_first_pass_complete_partial :
  forall (thr delta ea eb : Z) (tsa tsb : list Z) (t : Z -> Z) (la lb : nat -> Z),
  (forall m, (m < length tsa)%nat -> Z.abs (nth m tsa 0 - t (la m)) <= ea) ->
  (forall j, (j < length tsb)%nat -> Z.abs (nth j tsb 0 + delta - t (lb j)) <= eb) ->
  (forall k k', k <> k' -> thr + ea + eb <= Z.abs (t k - t k')) ->
  (forall j j', (j < length tsb)%nat -> (j' < length tsb)%nat -> lb j = lb j' -> j = j') ->
  forall m, (m < length tsa)%nat ->
    (forall i, (i < length tsb)%nat -> la m = lb i -> ea + eb < thr ->
       nth m (first_pass thr delta tsa tsb) (-1) = Z.of_nat i) /\
    ((forall i, (i < length tsb)%nat -> la m <> lb i) ->
       nth m (first_pass thr delta tsa tsb) (-1) = -1).
Proof.
  intros thr delta ea eb tsa tsb t la lb Ha Hb Hsep Hlb m Hm. split.
  - intros i Hi. exact (first_pass_complete thr delta ea eb tsa tsb t la lb Ha Hb Hsep Hlb m i Hm Hi).
  - exact (first_pass_lone thr delta ea eb tsa tsb t la lb Ha Hb Hsep m Hm).
Qed.
Print Assumptions C19_first_pass_complete_partial.

(* "No event is paired twice": the exact truth.  It holds when a-events are at
   least 2*tbin apart (true on the property's domain: spacing >= 0.5 s, tbin 0.1 s) ... *)
Theorem C19_first_pass_injective_of_spacing : forall thr delta tsa tsb,
  (forall m1 m2, (m1 < length tsa)%nat -> (m2 < length tsa)%nat -> m1 <> m2 ->
     2 * thr <= Z.abs (nth m1 tsa 0 - nth m2 tsa 0)) ->
  forall m1 m2 j, (m1 < length tsa)%nat -> (m2 < length tsa)%nat -> 0 <= j ->
    nth m1 (first_pass thr delta tsa tsb) (-1) = j ->
    nth m2 (first_pass thr delta tsa tsb) (-1) = j -> m1 = m2.
Proof. exact first_pass_injective. Qed.
Print Assumptions C19_first_pass_injective_of_spacing.

(* ... and does NOT follow from the exclusion logic alone: with a single candidate
   (`inds.size == 1`) the already-used partners are not consulted, so two a-events
   closer than 2*tbin can both be paired with the same b-event
   (tsa = 0, 0.05, 10.3, 20.7 s, tsb = 0.02, 10.3, 20.7 s, delta_t = 0, tbin = 0.1 s;
   reproduced on the real function, see pC19.notes.md). *)
Theorem C19_first_pass_injective_refuted :
  exists thr delta tsa tsb m1 m2 j,
    m1 <> m2 /\ 0 <= j /\
    nth m1 (first_pass thr delta tsa tsb) (-1) = j /\
    nth m2 (first_pass thr delta tsa tsb) (-1) = j.
Proof.
  exists 10, 0, wit_tsa, wit_tsb, 0%nat, 1%nat, 0.
  rewrite first_pass_dup_witness. cbn. repeat split; auto; discriminate.
Qed.
Print Assumptions C19_first_pass_injective_refuted.

(* ------------------------------------------------------------------------- *)
(* second pass (f = the map fitted after the first pass; any map here)        *)
(* ------------------------------------------------------------------------- *)

(* pairs of the first pass are kept *)
Theorem C19_second_pass_keeps_first_pass : forall thr f tsa tsb ib, length ib = length tsa ->
  forall i, (i < length ib)%nat -> 0 <= nth i ib (-1) ->
    nth i (second_pass thr f tsa tsb ib) (-1) = nth i ib (-1).
Proof. exact second_pass_keeps. Qed.
Print Assumptions C19_second_pass_keeps_first_pass.

(* a new pair joins an unassigned a-event with a b-event not used so far, at most tbin
   away from the fitted map (note <=, the first pass uses <) *)
Theorem C19_second_pass_new_pairs : forall thr f tsa tsb ib, length ib = length tsa ->
  forall i, (i < length ib)%nat -> nth i ib (-1) < 0 ->
    nth i (second_pass thr f tsa tsb ib) (-1) = nth i ib (-1) \/
    exists k, nth i (second_pass thr f tsa tsb ib) (-1) = Z.of_nat k /\ (k < length tsb)%nat /\
              ~ In (Z.of_nat k) ib /\
              Qle_bool (qdist (apply_a2b f (nth i tsa 0%Q)) (nth k tsb 0%Q)) thr = true.
Proof. exact second_pass_new. Qed.
Print Assumptions C19_second_pass_new_pairs.

(* unconditional injectivity of the second pass: a b-event given to a newly paired
   a-event is given to no other a-event, old or new *)
Theorem C19_second_pass_injective : forall thr f tsa tsb ib, length ib = length tsa ->
  forall i1 i2 j, (i1 < length ib)%nat -> (i2 < length ib)%nat ->
    nth i1 ib (-1) < 0 -> 0 <= j ->
    nth i1 (second_pass thr f tsa tsb ib) (-1) = j ->
    nth i2 (second_pass thr f tsa tsb ib) (-1) = j -> i1 = i2.
Proof. exact second_pass_injective. Qed.
Print Assumptions C19_second_pass_injective.

(* the greedy loop runs to exhaustion: afterwards no unassigned a-event is within
   tbin (through f) of an unused b-event *)
Theorem C19_second_pass_maximal : forall thr f tsa tsb ib, length ib = length tsa ->
  forall i k, (i < length ib)%nat -> (k < length tsb)%nat ->
    nth i (second_pass thr f tsa tsb ib) (-1) < 0 ->
    ~ In (Z.of_nat k) (second_pass thr f tsa tsb ib) ->
    Qle_bool (qdist (apply_a2b f (nth i tsa 0%Q)) (nth k tsb 0%Q)) thr = false.
Proof. exact second_pass_maximal. Qed.
Print Assumptions C19_second_pass_maximal.

(* with ground truth P i k ("tsa[i] and tsb[k] are the same event"): if only true
   partners are within tbin of the fitted map, every new pair is a true
   correspondence; if true partners are within tbin, then no true pair is left
   with both members unpaired.
   _partial: assumes the first fitted map is accurate to that extent. *)
Theorem C19_second_pass_sound_complete_partial :
  forall thr f tsa tsb ib (P : nat -> nat -> Prop), length ib = length tsa ->
  ((forall i k, (i < length ib)%nat -> (k < length tsb)%nat ->
      Qle_bool (qdist (apply_a2b f (nth i tsa 0%Q)) (nth k tsb 0%Q)) thr = true -> P i k) ->
   forall i k, (i < length ib)%nat -> nth i ib (-1) < 0 ->
     nth i (second_pass thr f tsa tsb ib) (-1) = Z.of_nat k -> P i k) /\
  ((forall i k, (i < length ib)%nat -> (k < length tsb)%nat -> P i k ->
      Qle_bool (qdist (apply_a2b f (nth i tsa 0%Q)) (nth k tsb 0%Q)) thr = true) ->
   forall i k, (i < length ib)%nat -> (k < length tsb)%nat -> P i k ->
     0 <= nth i (second_pass thr f tsa tsb ib) (-1) \/ In (Z.of_nat k) (second_pass thr f tsa tsb ib)).
Proof.
  intros thr f tsa tsb ib P Hlen. split.
  - exact (second_pass_sound thr f tsa tsb ib Hlen P).
  - exact (second_pass_complete thr f tsa tsb ib Hlen P).
Qed.
Print Assumptions C19_second_pass_sound_complete_partial.

(* ------------------------------------------------------------------------- *)
(* sub-bin peak interpolation (parabolic_max)                                  *)
(* ------------------------------------------------------------------------- *)

(* three samples of the parabola A (k - h)^2 + M at k = -1, 0, 1: the interpolated peak is
   exactly h and the interpolated maximum exactly M *)
Theorem C19_parabolic_max_exact_on_parabola : forall A h M : Q, ~ (A == 0)%Q ->
  let v := fun k : Q => (A * (k - h) * (k - h) + M)%Q in
  (fst (peak3 (v (-1)%Q) (v 0%Q) (v 1%Q)) == h)%Q /\ (snd (peak3 (v (-1)%Q) (v 0%Q) (v 1%Q)) == M)%Q.
Proof. exact peak3_parabola. Qed.
Print Assumptions C19_parabolic_max_exact_on_parabola.

(* when the centre sample is a maximum (it is the argmax) the correction stays within half a
   bin, so delta_t moves by at most tbin/2 *)
Theorem C19_parabolic_max_within_half_bin : forall v0 v1 v2 : Q, (v0 <= v1)%Q -> (v2 <= v1)%Q ->
  (- (1 # 2) <= fst (peak3 v0 v1 v2) <= 1 # 2)%Q.
Proof. exact peak3_half_bin. Qed.
Print Assumptions C19_parabolic_max_within_half_bin.

(* ------------------------------------------------------------------------- *)
(* the coarse offset delta_t (round 2): occupancy histograms, full             *)
(* cross-correlation, argmax + parabolic refinement — now inside the model     *)
(* ------------------------------------------------------------------------- *)

(* entry lag + n - 1 of correlate(x, y, "full") of the two occupancy vectors is the number of
   (occupied x-bin i, occupied y-bin j) with i - j = lag *)
Theorem C19_xcorr_counts_pairs : forall n xb yb lag,
  (forall i, In i xb -> 0 <= i < n) -> (forall j, In j yb -> 0 <= j < n) ->
  - (n - 1) <= lag <= n - 1 ->
  nth (Z.to_nat (lag + n - 1)) (xcorr n xb yb) 0 = pair_count xb yb lag.
Proof. exact xcorr_nth. Qed.
Print Assumptions C19_xcorr_counts_pairs.

(* parabolic_max on any 1-D array with a unique strict maximum at position p returns a peak
   within half a sample of p (first argmax = p, then C19_parabolic_max_within_half_bin or the edge rule) *)
Theorem C19_parabolic_peak_near_unique_maximum : forall (l : list Q) (p : nat), (p < length l)%nat ->
  (forall q, (q < length l)%nat -> q <> p -> (nth q l 0 < nth p l 0)%Q) ->
  (Qabs (fst (parabolic_max l) - inject_Z (Z.of_nat p)) <= 1 # 2)%Q.
Proof. exact parabolic_max_near_unique_peak. Qed.
Print Assumptions C19_parabolic_peak_near_unique_maximum.

(* Sufficient condition for the correlation peak to be at the true lag: if more occupied-bin pairs
   are aligned at lag L than at any other lag (e.g. all n common events fall in bins L apart and no
   other lag aligns n pairs), then delta_t is within half a bin of L * tbin.  (Bins inside the
   histogram: true for the source's n since 36cb437.) *)
Theorem C19_coarse_offset_within_half_bin : forall n den tbin tsa tsb L,
  let tmin := lmin (tsa ++ tsb) in
  let xb := occupied tbin tmin tsa in
  let yb := occupied tbin tmin tsb in
  0 < tbin ->
  (forall i, In i xb -> 0 <= i < n) -> (forall j, In j yb -> 0 <= j < n) ->
  - (n - 1) <= L <= n - 1 ->
  (forall lag, - (n - 1) <= lag <= n - 1 -> lag <> L -> pair_count xb yb lag < pair_count xb yb L) ->
  exists d, coarse_delta n den tbin tsa tsb = Some d /\
            (Qabs (d - inject_Z L * tq den tbin) <= (1 # 2) * tq den tbin)%Q.
Proof. exact coarse_delta_near_true_lag. Qed.
Print Assumptions C19_coarse_offset_within_half_bin.

(* Soundness and completeness of the first pass with the offset the function computes itself —
   hypotheses on the trains only: unique correlation peak at lag L; residual misalignment of the
   a-side <= ea and of the b-side, once shifted by L bins, <= eb0; distinct events at least
   2 tbin + ea + eb0 apart.  Then delta_t exists, is within tbin/2 of L tbin, every first-pass pair
   is a true correspondence, and (2 (ea + eb0) + 2 <= tbin, each event once in tsb) every a-event
   whose partner exists is paired with exactly it.  This replaces the hypothesis "delta_t is good
   enough" of C19_first_pass_sound_partial / _complete_partial by a checkable condition on the trains. *)
Theorem C19_first_pass_sound_complete_from_trains :
  forall n den tbin tsa tsb L ea eb0 (t : Z -> Z) (la lb : nat -> Z),
  let tmin := lmin (tsa ++ tsb) in
  let xb := occupied tbin tmin tsa in
  let yb := occupied tbin tmin tsb in
  0 < tbin ->
  (forall i, In i xb -> 0 <= i < n) -> (forall j, In j yb -> 0 <= j < n) ->
  - (n - 1) <= L <= n - 1 ->
  (forall lag, - (n - 1) <= lag <= n - 1 -> lag <> L -> pair_count xb yb lag < pair_count xb yb L) ->
  (forall m, (m < length tsa)%nat -> Z.abs (nth m tsa 0 - t (la m)) <= ea) ->
  (forall j, (j < length tsb)%nat -> Z.abs (nth j tsb 0 + L * tbin - t (lb j)) <= eb0) ->
  (forall e e', e <> e' -> 2 * tbin + ea + eb0 <= Z.abs (t e - t e')) ->
  exists d, coarse_delta n den tbin tsa tsb = Some d /\
    (Qabs (d - inject_Z L * tq den tbin) <= (1 # 2) * tq den tbin)%Q /\
    (forall m j, (m < length tsa)%nat ->
       nth m (first_pass_q den tbin d tsa tsb) (-1) = j -> 0 <= j ->
       exists i, (i < length tsb)%nat /\ j = Z.of_nat i /\ la m = lb i) /\
    ((forall j j', (j < length tsb)%nat -> (j' < length tsb)%nat -> lb j = lb j' -> j = j') ->
     2 * (ea + eb0) + 2 <= tbin ->
     forall m i, (m < length tsa)%nat -> (i < length tsb)%nat -> la m = lb i ->
       nth m (first_pass_q den tbin d tsa tsb) (-1) = Z.of_nat i).
Proof. exact coarse_then_first_pass. Qed.
Print Assumptions C19_first_pass_sound_complete_from_trains.

(* sync_full = coarse_delta, then first_pass_q (the first pass with that rational offset), then the
   same fit / second pass / fit as `sync` *)
Theorem C19_sync_full_decomposes : forall linear n den tbin tsa tsb d r,
  sync_full linear n den tbin tsa tsb = inr (d, r) ->
  coarse_delta n den tbin tsa tsb = Some d /\
  sync_rest linear den tbin tsa tsb (first_pass_q den tbin d tsa tsb) = Some r /\
  sr_ib1 r = first_pass_q den tbin d tsa tsb.
Proof. exact sync_full_decomposes. Qed.
Print Assumptions C19_sync_full_decomposes.

(* ------------------------------------------------------------------------- *)
(* round 3                                                                     *)
(* ------------------------------------------------------------------------- *)

(* the first pass does not depend on the resolution of the clock tick: refining every time,
   tbin and delta_t by the same factor k > 0 gives the same index array *)
Theorem C19_first_pass_tick_refinement_invariant : forall k, 0 < k -> forall thr delta tsa tsb,
  first_pass (thr * k) (k * delta) (map (Z.mul k) tsa) (map (Z.mul k) tsb) = first_pass thr delta tsa tsb.
Proof. exact first_pass_scaled. Qed.
Print Assumptions C19_first_pass_tick_refinement_invariant.

(* hence the rational first pass of sync_full is the integer first pass of sync whenever delta_t is a
   whole number of ticks: the two entry points of the model describe one computation *)
Theorem C19_first_pass_q_agrees_on_ticks : forall den tbin delta tsa tsb,
  first_pass_q den tbin (tq den delta) tsa tsb = first_pass tbin delta tsa tsb.
Proof. exact first_pass_q_ticks. Qed.
Print Assumptions C19_first_pass_q_agrees_on_ticks.

(* Second pass without jitter: if the first fitted map is the true map x |-> (1+d) x + o (it is, by
   C19_fitted_map_exact_partial, as soon as the first-pass pairs are true and two of them differ),
   tsa[i] = tau(la i), tsb[k] = (1+d) tau(lb k) + o, and distinct events are more than tbin apart on
   clock b, then every new pair is a true correspondence and no true pair is left with both members
   unpaired.  This discharges the hypothesis of C19_second_pass_sound_complete_partial in the exact case;
   with jitter the accuracy of the first fit remains a measured quantity. *)
Theorem C19_second_pass_exact_sound_complete :
  forall (thr : Q) (f : a2b) (tsa tsb : list Q) (ib : list Z) (d o : Q) (tau : Z -> Q) (la lb : nat -> Z),
  length ib = length tsa ->
  (forall x, apply_a2b f x == (1 + d) * x + o)%Q ->
  (forall i, (i < length tsa)%nat -> nth i tsa 0%Q == tau (la i))%Q ->
  (forall k, (k < length tsb)%nat -> nth k tsb 0%Q == (1 + d) * tau (lb k) + o)%Q ->
  (0 <= thr)%Q ->
  (forall e e', e <> e' -> thr < Qabs ((1 + d) * (tau e - tau e')))%Q ->
  (forall i k, (i < length ib)%nat -> nth i ib (-1) < 0 ->
     nth i (second_pass thr f tsa tsb ib) (-1) = Z.of_nat k -> la i = lb k) /\
  (forall i k, (i < length ib)%nat -> (k < length tsb)%nat -> la i = lb k ->
     0 <= nth i (second_pass thr f tsa tsb ib) (-1) \/ In (Z.of_nat k) (second_pass thr f tsa tsb ib)).
Proof.
  intros thr f tsa tsb ib d o tau la lb Hlen Hf Ha Hb Hthr Hsep. split.
  - exact (exact_second_pass_sound thr f tsa tsb ib d o tau la lb Hlen Hf Ha Hb Hthr Hsep).
  - exact (exact_second_pass_complete thr f tsa tsb ib d o tau la lb Hlen Hf Ha Hb Hthr Hsep).
Qed.
Print Assumptions C19_second_pass_exact_sound_complete.

(* round 4: the x.ndim == 2 branch of parabolic_max works row by row — row i of the result is the
   1-D result for row i, so theorems 14, 15, 17 apply to every row *)
Theorem C19_parabolic_max_rows : forall (x : list (list Q)) (i : nat), (i < length x)%nat ->
  nth i (parabolic_max_rows x) (0%Q, 0%Q) = parabolic_max (nth i x []).
Proof.
  intros x i Hi. unfold parabolic_max_rows.
  rewrite (nth_indep _ (0%Q, 0%Q) (parabolic_max [])) by (rewrite map_length; exact Hi).
  apply map_nth.
Qed.
Print Assumptions C19_parabolic_max_rows.

(* ------------------------------------------------------------------------- *)
(* the hypotheses are satisfiable: a concrete train (ticks of 1 ms)           *)
(* ------------------------------------------------------------------------- *)
(* events at 0, 1, 3, 7, 12, 20, 200 s; clock b = 1.001 * a + 5 s (drift 1000 ppm so that
   integer ticks stay exact); event 3 s missing from tsa, event 12 s missing from tsb;
   coarse offset delta_t = -5.010 s, tbin = 0.1 s.  The 200 s event is 0.19 s off after
   removing delta_t: missed by the first pass, recovered by the second. *)
Definition ex_tsa : list Z := [0; 1000; 7000; 12000; 20000; 200000].
Definition ex_tsb : list Z := [5000; 6001; 8003; 12007; 25020; 205200].

Example ex_first_pass : first_pass 100 (-5010) ex_tsa ex_tsb = [0; 1; 3; -1; 4; -1].
Proof. vm_compute. reflexivity. Qed.

Example ex_sync_linear :
  match sync true 1000 100 (-5010) ex_tsa ex_tsb with
  | Some r => sr_ib r = [0; 1; 3; -1; 4; 5] /\
              Qeq_bool (sr_slope r) (1 # 1000) = true /\
              Qeq_bool (apply_a2b (sr_fcn r) (3 # 1)) (8003 # 1000) = true
  | None => False
  end.
Proof. vm_compute. repeat split. Qed.

Example ex_sync_interp :
  match sync false 1000 100 (-5010) ex_tsa ex_tsb with
  | Some r => sr_ib r = [0; 1; 3; -1; 4; 5] /\
              Qeq_bool (sr_slope r) (1 # 1000) = true /\
              Qeq_bool (apply_a2b (sr_fcn r) (3 # 1)) (8003 # 1000) = true /\
              Qeq_bool (apply_a2b (sr_fcn r) (300 # 1)) (305300 # 1000) = true
  | None => False
  end.
Proof. vm_compute. repeat split. Qed.

(* the separation hypotheses of C19_first_pass_sound_partial hold for the first six events
   with t k = k-th event time, ea = 0, eb = 20, thr = 100 *)
Example ex_separation :
  let t := fun k => nth (Z.to_nat k) [0; 1000; 3000; 7000; 12000; 20000] 0 in
  forallb (fun p => Z.abs (nth (fst p) [5000; 6001; 8003; 12007; 25020] 0 + (-5010)
                           - t (snd p)) <=? 20)
          [(0%nat, 0); (1%nat, 1); (2%nat, 2); (3%nat, 3); (4%nat, 5)] = true.
Proof. vm_compute. reflexivity. Qed.

Example ex_parabolic_max :
  Qeq_bool (fst (parabolic_max [0; 0; 0; 0; 1; 3; 2; 0]%Q)) (31 # 6) = true /\
  Qeq_bool (snd (parabolic_max [0; 0; 0; 0; 1; 3; 2; 0]%Q)) (73 # 24) = true.
Proof. vm_compute. split; reflexivity. Qed.

(* round 2: the whole function on the same train, histogram of n = 2053 bins (span 205.2 s, tbin 0.1 s):
   the correlation has its unique maximum at lag -50 bins (4 pairs), delta_t = -5 s, all pairs found *)
Example ex_unique_peak :
  let tmin := lmin (ex_tsa ++ ex_tsb) in
  let xb := occupied 100 tmin ex_tsa in
  let yb := occupied 100 tmin ex_tsb in
  forallb (fun b => (0 <=? b) && (b <? 2053)) (xb ++ yb) = true /\
  pair_count xb yb (-50) = 4 /\
  forallb (fun k => let lag := Z.of_nat k - 2052 in (lag =? -50) || (pair_count xb yb lag <? 4))
          (seq 0 4105) = true.
Proof. vm_compute. repeat split. Qed.

Example ex_sync_full :
  match sync_full true 2053 1000 100 ex_tsa ex_tsb with
  | inr (d, r) => Qeq_bool d (-5) = true /\ sr_ib r = [0; 1; 3; -1; 4; 5]
  | inl _ => False
  end.
Proof. vm_compute. repeat split. Qed.

(* round 3: satisfiability of the remaining hypotheses on concrete inputs *)
Example ex_polyfit :   (* C19_polyfit_exact_affine: four points on y = 2 x + 1 *)
  match polyfit1 [(0, 1); (1, 3); (2, 5); (5, 11)]%Q with
  | Some (s, c) => Qeq_bool s 2 = true /\ Qeq_bool c 1 = true
  | None => False
  end.
Proof. vm_compute. split; reflexivity. Qed.

Example ex_spacing :   (* C19_first_pass_injective_of_spacing: a-events of ex_tsa are >= 2 tbin = 200 ticks apart *)
  forallb (fun a => forallb (fun b => (a =? b) || (200 <=? Z.abs (a - b))) ex_tsa) ex_tsa = true.
Proof. vm_compute. reflexivity. Qed.

(* C19_first_pass_sound_complete_from_trains on ex_tsa / ex_tsb: L = -50 bins, ea = 0, eb0 = 200 ticks
   (the 200 s event is 0.2 s off after the shift), events >= 2*100 + 0 + 200 = 400 ticks apart; the
   unique-peak hypothesis is ex_unique_peak.  (Completeness needs 2 (ea + eb0) + 2 <= tbin, which fails here:
   indeed the first pass misses the 200 s event, ex_first_pass.) *)
Example ex_from_trains_hypotheses :
  let t := fun k => nth (Z.to_nat k) [0; 1000; 3000; 7000; 12000; 20000; 200000] 0 in
  forallb (fun p => Z.abs (nth (fst p) ex_tsa 0 - t (snd p)) <=? 0)
          [(0%nat, 0); (1%nat, 1); (2%nat, 3); (3%nat, 4); (4%nat, 5); (5%nat, 6)] = true /\
  forallb (fun p => Z.abs (nth (fst p) ex_tsb 0 + (-50) * 100 - t (snd p)) <=? 200)
          [(0%nat, 0); (1%nat, 1); (2%nat, 2); (3%nat, 3); (4%nat, 5); (5%nat, 6)] = true /\
  forallb (fun e => forallb (fun e' => (e =? e') || (400 <=? Z.abs (t e - t e'))) [0; 1; 2; 3; 4; 5; 6])
          [0; 1; 2; 3; 4; 5; 6] = true.
Proof. vm_compute. repeat split. Qed.

Example ex_tick_refinement :   (* the same train in ticks of 1/3 ms *)
  first_pass (100 * 3) (3 * -5010) (map (Z.mul 3) ex_tsa) (map (Z.mul 3) ex_tsb) = [0; 1; 3; -1; 4; -1].
Proof. vm_compute. reflexivity. Qed.

Example ex_parabolic_max_rows :   (* two rows of the repository's own test vector: interior peak, peak at the last sample *)
  map (fun r => (Qeq_bool (fst r) (31 # 6), Qeq_bool (fst r) 7))
      (parabolic_max_rows [[0; 0; 0; 0; 1; 3; 2; 0]; [0; 1; 3; 2; 0; 0; 0; 5]]%Q)
  = [(true, false); (false, true)].
Proof. vm_compute. reflexivity. Qed.
