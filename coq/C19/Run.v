(* C19 — flat-integer interface of the model for the correspondence check.
   Every rational is a dyadic pair (m, k) meaning m / 2^k (k may be negative):
   exactly the value of a float64.
   input : [linear; tbin_m; tbin_k; delta_m; delta_k;
            na; (m,k)*na; nb; (m,k)*nb; nq; (m,k)*nq]
   output: [0]                                   a polyfit call was singular
         | 1 :: enc(ib after first pass) ++ enc(final ib) ++ [frag1; frag2]
             ++ [floor(slope * 10^18)] ++ enc(map (fun q => floor(fcn(q) * 10^12)) queries)
   frag1/frag2 are harness diagnostics (not part of the modelled function): 1 when a
   comparison of the first / second pass is closer than 2^-30 to its threshold or to
   a competing candidate, i.e. when float rounding in the implementation may
   legitimately decide differently from exact arithmetic. *)
From Coq Require Import ZArith QArith Qabs Qround List Bool.
From IBL.lib Require Import PyInt RunLib.
From IBL.C19 Require Import Model.
Import ListNotations.
Open Scope Z_scope.

Definition dy (m k : Z) : Q :=
  if 0 <=? k then Qmake m (Z.to_pos (2 ^ k)) else inject_Z (m * 2 ^ (- k)).

Fixpoint take_dy (n : nat) (l : list Z) : list Q * list Z :=
  match n, l with
  | S n', m :: k :: r => let '(qs, rest) := take_dy n' r in (dy m k :: qs, rest)
  | _, _ => ([], l)
  end.

Definition dec_qlist (l : list Z) : list Q * list Z :=
  match l with
  | [] => ([], [])
  | n :: r => take_dy (Z.to_nat n) r
  end.

Definition clampz (z : Z) : Z := Z.max (- 2 ^ 61) (Z.min (2 ^ 61) z).
Definition fixq (scale : Z) (x : Q) : Z := clampz (Qfloor (x * inject_Z scale)).

Definition eps : Q := Qmake 1 (Z.to_pos (2 ^ 30)).

(* some pair of distinct list positions closer than eps *)
Fixpoint close_pair (l : list Q) : bool :=
  match l with
  | [] => false
  | x :: r => existsb (fun y => qltb (qdist x y) eps) r || close_pair r
  end.

Definition frag_of (thr : Q) (ds : list Q) : bool :=
  existsb (fun d => qltb (qdist d thr) eps) ds
  || close_pair (filter (fun d => qltb d (thr + eps)%Q) ds).

Definition frag1 (thr delta : Q) (tsa tsb : list Q) : bool :=
  existsb (fun a => frag_of thr (map (fun b => qdist (a - delta)%Q b) tsb)) tsa.

Definition frag2 (thr : Q) (f : a2b) (tsa tsb : list Q) (ib1 : list Z) : bool :=
  let al := amiss f tsa ib1 0 in
  let bl := bmiss tsb ib1 0 in
  frag_of thr (flat_map (fun bj => map (fun am => qdist (snd am) (snd bj)) al) bl).

Definition run (inp : list Z) : list Z :=
  match inp with
  | lin :: tm :: tk :: dm :: dk :: rest =>
      let linear := lin =? 1 in
      let tbin := dy tm tk in
      let delta := dy dm dk in
      let '(tsa, r1) := dec_qlist rest in
      let '(tsb, r2) := dec_qlist r1 in
      let '(qs, _) := dec_qlist r2 in
      match sync linear tbin delta tsa tsb with
      | None => [0]
      | Some r =>
          let f1 := match interp_fcn linear tsa (sr_ib1 r) tsb with
                    | Some (f, _) => f | None => FLin 0 0 end in
          1 :: enc_zlist (sr_ib1 r) ++ enc_zlist (sr_ib r)
            ++ [enc_bool (frag1 tbin delta tsa tsb); enc_bool (frag2 tbin f1 tsa tsb (sr_ib1 r))]
            ++ [fixq (10 ^ 18) (sr_slope r)]
            ++ enc_zlist (map (fun q => fixq (10 ^ 12) (apply_a2b (sr_fcn r) q)) qs)
      end
  | _ => [-999]
  end.

Definition mismatches := mismatches_of run.
