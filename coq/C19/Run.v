(* C19 — flat-integer interface of the model for the correspondence check.
   Every rational is a dyadic pair (m, k) meaning m / 2^k (k may be negative):
   exactly the value of a float64.
   input : [linear; K; tbin_m; tbin_k; delta_m; delta_k;
            na; (m,k)*na; nb; (m,k)*nb; nq; (m,k)*nq]
           K >= every k and K >= 0: the common tick is 2^-K s
           | [8; linear; K; n; tbin_m; tbin_k; na; ...; nb; ...; nq; ...]   (whole function, histogram length n)
           | [9; K; n; tbin_m; tbin_k; na; ...; nb; ...]   (coarse offset only)
           | [6; nr; nc; x_00 ..]   (parabolic_max on a 2-D integer-valued array)
           | [7; n; x_0 .. x_(n-1)]   (parabolic_max on an integer-valued 1-D array)
   output: [0]                                   a polyfit call was singular
         | 1 :: enc(ib after first pass) ++ enc(final ib) ++ [frag1; frag2]
             ++ [floor(slope * 10^18)] ++ enc(map (fun q => floor(fcn(q) * 10^12)) queries)
   frag1/frag2 are harness diagnostics (not part of the modelled function): 1 when a
   comparison of the first / second pass is closer than 2^-30 to its threshold or to
   a competing candidate, i.e. when float rounding in the implementation may
   legitimately decide differently from exact arithmetic. *)
From Coq Require Import ZArith QArith Qabs Qround List Bool.
From IBL.lib Require Import PyInt RunLib.
From IBL.C19 Require Import Model.
Import ListNotations.
Open Scope Z_scope.

(* ticks of 2^-K *)
Definition tk (K m k : Z) : Z := m * 2 ^ (K - k).

Fixpoint take_tk (K : Z) (n : nat) (l : list Z) : list Z * list Z :=
  match n, l with
  | S n', m :: k :: r => let '(qs, rest) := take_tk K n' r in (tk K m k :: qs, rest)
  | _, _ => ([], l)
  end.

Definition dec_tlist (K : Z) (l : list Z) : list Z * list Z :=
  match l with
  | [] => ([], [])
  | n :: r => take_tk K (Z.to_nat n) r
  end.

Definition clampz (z : Z) : Z := Z.max (- 2 ^ 61) (Z.min (2 ^ 61) z).
Definition fixq (scale : Z) (x : Q) : Z := clampz (Qfloor (x * inject_Z scale)).

(* some pair of distinct list positions closer than eps *)
Fixpoint close_pair {A} (dist : A -> A -> bool) (l : list A) : bool :=
  match l with
  | [] => false
  | x :: r => existsb (dist x) r || close_pair dist r
  end.

(* first pass, integer ticks *)
Definition frag_z (eps thr : Z) (ds : list Z) : bool :=
  existsb (fun d => Z.abs (d - thr) <? eps) ds
  || close_pair (fun x y => Z.abs (x - y) <? eps) (filter (fun d => d <? thr + eps) ds).

Definition frag1 (eps thr delta : Z) (tsa tsb : list Z) : bool :=
  existsb (fun a => frag_z eps thr (map (fun b => Z.abs (a - delta - b)) tsb)) tsa.

(* second pass, rationals *)
Definition frag_q (eps thr : Q) (ds : list Q) : bool :=
  existsb (fun d => qltb (qdist d thr) eps) ds
  || close_pair (fun x y => qltb (qdist x y) eps) (filter (fun d => qltb d (thr + eps)%Q) ds).

Definition frag2 (eps thr : Q) (f : a2b) (tsa tsb : list Q) (ib1 : list Z) : bool :=
  let al := amiss f tsa ib1 0 in
  let bl := bmiss tsb ib1 0 in
  frag_q eps thr (flat_map (fun bj => map (fun am => qdist (snd am) (snd bj)) al) bl).

Definition run (inp : list Z) : list Z :=
  match inp with
  | 9 :: K :: n :: tm :: tk_ :: rest =>
      (* the coarse offset only: [2] IndexError | 1 :: floor(delta*10^15) :: cstat *)
      let den := Z.to_pos (2 ^ K) in
      let tbin := tk K tm tk_ in
      let '(tsa, r1) := dec_tlist K rest in
      let '(tsb, _) := dec_tlist K r1 in
      let tmin := lmin (tsa ++ tsb) in
      let v := xcorr n (occupied tbin tmin tsa) (occupied tbin tmin tsb) in
      let mx := fold_left Z.max v 0 in
      match coarse_delta n den tbin tsa tsb with
      | None => [2]
      | Some d => [1; fixq (10 ^ 15) d; enc_bool (1 <? Z.of_nat (length (filter (fun c => c =? mx) v)));
                   argmax_first (map inject_Z v); mx; fold_left Z.add v 0]
      end
  | 6 :: nr :: nc :: xs =>
      (* parabolic_max on an integer-valued 2-D array (nr rows of nc): per row [floor(ipeak*10^12); floor(maxi*10^12)] *)
      let fix rows (k : nat) (l : list Z) : list (list Q) :=
        match k with O => [] | S k' => map inject_Z (firstn (Z.to_nat nc) l) :: rows k' (skipn (Z.to_nat nc) l) end in
      flat_map (fun r => [fixq (10 ^ 12) (fst r); fixq (10 ^ 12) (snd r)])
               (parabolic_max_rows (rows (Z.to_nat nr) xs))
  | 8 :: lin :: K :: n :: tm :: tk_ :: rest =>
      (* the whole function, delta_t computed by the model from histogram length n:
         [2] IndexError | 0 :: floor(delta*10^15) :: cstat  (singular fit)
         | 1 :: floor(delta*10^15) :: cstat ++ (as below);  cstat = [tie; argmax; max; sum] of the correlation.  tie = the correlation maximum is attained
         at more than one lag (an FFT-based correlate may then pick either) *)
      let linear := lin =? 1 in
      let den := Z.to_pos (2 ^ K) in
      let tbin := tk K tm tk_ in
      let '(tsa, r1) := dec_tlist K rest in
      let '(tsb, r2) := dec_tlist K r1 in
      let '(qs, _) := dec_tlist K r2 in
      let qa := map (tq den) tsa in
      let qb := map (tq den) tsb in
      let epsz := 2 ^ K / 2 ^ 30 in
      let tmin := lmin (tsa ++ tsb) in
      let v := xcorr n (occupied tbin tmin tsa) (occupied tbin tmin tsb) in
      let mx := fold_left Z.max v 0 in
      let tie := enc_bool (1 <? Z.of_nat (length (filter (fun c => c =? mx) v))) in
      let cstat := [tie; argmax_first (map inject_Z v); mx; fold_left Z.add v 0] in
      match coarse_delta n den tbin tsa tsb with
      | None => [2]
      | Some d =>
          let k := Zpos (Qden d) in
          match sync_rest linear den tbin tsa tsb (first_pass_q den tbin d tsa tsb) with
          | None => 0 :: fixq (10 ^ 15) d :: cstat
          | Some r =>
              let f1 := match interp_fcn linear qa (sr_ib1 r) qb with
                        | Some (f, _) => f | None => FLin 0 0 end in
              1 :: fixq (10 ^ 15) d :: cstat ++ enc_zlist (sr_ib1 r) ++ enc_zlist (sr_ib r)
                ++ [enc_bool (frag1 (epsz * k) (tbin * k) (Qnum d * Zpos den)
                                    (map (Z.mul k) tsa) (map (Z.mul k) tsb));
                    enc_bool (frag2 (Qmake 1 (Z.to_pos (2 ^ 30))) (tq den tbin) f1 qa qb (sr_ib1 r))]
                ++ [fixq (10 ^ 18) (sr_slope r)]
                ++ enc_zlist (map (fun q => fixq (10 ^ 12) (apply_a2b (sr_fcn r) (tq den q))) qs)
          end
      end
  | 7 :: n :: xs =>
      (* parabolic_max on an integer-valued array: [floor(ipeak*10^12); floor(maxi*10^12)] *)
      let '(ip, mx) := parabolic_max (map inject_Z (firstn (Z.to_nat n) xs)) in
      [fixq (10 ^ 12) ip; fixq (10 ^ 12) mx]
  | lin :: K :: tm :: tk_ :: dm :: dk :: rest =>
      let linear := lin =? 1 in
      let den := Z.to_pos (2 ^ K) in
      let tbin := tk K tm tk_ in
      let delta := tk K dm dk in
      let '(tsa, r1) := dec_tlist K rest in
      let '(tsb, r2) := dec_tlist K r1 in
      let '(qs, _) := dec_tlist K r2 in
      let qa := map (tq den) tsa in
      let qb := map (tq den) tsb in
      let epsz := 2 ^ K / 2 ^ 30 in
      match sync linear den tbin delta tsa tsb with
      | None => [0]
      | Some r =>
          let f1 := match interp_fcn linear qa (sr_ib1 r) qb with
                    | Some (f, _) => f | None => FLin 0 0 end in
          1 :: enc_zlist (sr_ib1 r) ++ enc_zlist (sr_ib r)
            ++ [enc_bool (frag1 epsz tbin delta tsa tsb);
                enc_bool (frag2 (Qmake 1 (Z.to_pos (2 ^ 30))) (tq den tbin) f1 qa qb (sr_ib1 r))]
            ++ [fixq (10 ^ 18) (sr_slope r)]
            ++ enc_zlist (map (fun q => fixq (10 ^ 12) (apply_a2b (sr_fcn r) (tq den q))) qs)
      end
  | _ => [-999]
  end.

Definition mismatches := mismatches_of run.
